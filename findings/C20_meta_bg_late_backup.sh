#!/bin/sh
# Known finding C20: with meta_bg and s_first_meta_bg > 0, a backup superblock that lies in a group of the
# meta_bg region (group >= s_first_meta_bg * descriptors-per-block) is NOT usable with e2fsck -b: the reader
# (ext2fs_open2 / ext2fs_descriptor_block_loc2) expects the first s_first_meta_bg descriptor blocks right
# behind the superblock copy, the writer (ext2fs_flush2 / ext2fs_super_and_bgd_loc2) has no room for them there.
# Demonstration against the real tools (R = built tree).  Exit 1 = finding reproduced.
R=${R:-/repo}; D=$(mktemp -d /var/tmp/c20f.XXXXXX); trap 'rm -rf $D' EXIT; cd $D
MKE2FS_FIRST_META_BG=1 $R/misc/mke2fs -q -t ext4 -O meta_bg,^resize_inode,^flex_bg,^metadata_csum,^64bit -b 1024 -g 256 -N 64 img 13000 >/dev/null 2>&1
$R/e2fsck/e2fsck -fn img >/dev/null 2>&1 || { echo "fresh fs not clean?"; exit 2; }
$R/e2fsck/e2fsck -fn -b 6913 -B 1024 img >/dev/null 2>&1 || { echo "backup in group 27 (old-style region) unusable?"; exit 2; }
if $R/e2fsck/e2fsck -fn -b 12545 -B 1024 img >/dev/null 2>&1; then echo "backup in group 49 usable: finding NOT reproduced"; exit 0; fi
echo "backup superblock of group 49 (meta_bg region, s_first_meta_bg=1) is not usable with e2fsck -b"; exit 1
