#!/bin/sh
# Observed defect C07 (found by reading while building harness/C07/packed_tables.c; no solver verdict reports it, so it is
# NOT a KNOWN-FINDING line of the C07 check): mke2fs -E packed_meta_blocks=1 with a flex group size of 1 (-G 1).
# ext2fs_initialize() pre-charges 2 + inode_blocks_per_group blocks to every group when s_log_groups_per_flex == 0, and
# packed_allocate_tables() (misc/mke2fs.c) charges the same tables again through ext2fs_block_alloc_stats*(): every group's
# free-block count and s_free_blocks_count come out (2 + itb) too low and e2fsck -fn on the fresh image exits 4.
# Demonstration against the built tools (R = built tree).  Exit 1 = reproduced.
R=${R:-/repo}; D=$(mktemp -d /var/tmp/c07f.XXXXXX); trap 'rm -rf $D' EXIT; cd $D
MKE2FS_CONFIG=/dev/null $R/misc/mke2fs -q -F -t ext4 -O flex_bg,^has_journal,^resize_inode -G 1 -E packed_meta_blocks=1 img 8M >/dev/null 2>&1 || exit 2
$R/e2fsck/e2fsck -fn img > fsck.log 2>&1; rc=$?
if [ $rc != 0 ]; then echo "fresh packed_meta_blocks -G 1 image is not clean (e2fsck -fn rc=$rc):"; grep -i "free blocks count wrong" fsck.log | head -3; exit 1; fi
echo "image clean: NOT reproduced"; exit 0
