#!/bin/sh
# Known finding C19: e2image -Q sizes the qcow2 refcount table from (blocks to image + header clusters) >> (cluster_bits+5),
# rounded DOWN, without counting the L2 tables and refcount blocks the image also needs.  With 1 KiB clusters one table
# cluster addresses 65536 image clusters; when the count is just below 65536 the table gets one cluster while the image
# grows beyond 65536 clusters: sync_refcount()/update_refcount() write refcount_table[128] behind the 1 KiB allocation
# (heap overflow) and the clusters past 64 MiB have no refcount entry.
# Demonstration against the real tool under valgrind (R = built tree).  Exit 1 = finding reproduced.
R=${R:-/repo}; D=$(mktemp -d /var/tmp/c19f.XXXXXX); trap 'rm -rf $D' EXIT; cd $D
head -c $((65000*1024)) /dev/urandom > big
$R/misc/mke2fs -q -F -b 1024 -N 128 -O ^has_journal,^resize_inode img 131057 >/dev/null 2>&1 || exit 2
$R/debugfs/debugfs -w -R "write big big" img >/dev/null 2>&1 || exit 2
valgrind -q $R/misc/e2image -Qa img out.qcow2 > vg.log 2>&1
if grep -q "Invalid write" vg.log; then
	echo "e2image -Qa: heap overflow behind the qcow2 refcount table:"; grep -A3 "Invalid write" vg.log | head -5; exit 1
fi
echo "no invalid write: finding NOT reproduced"; exit 0
