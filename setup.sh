#!/bin/sh
# Offline setup: verify the tools, and make sure the generated headers the real
# sources need (config.h, ext2_err.h, ext2_types.h, crc32c_table.h, ...) exist.
# They normally sit in /repo (in-tree build).  If they do not, they are produced in
# a throw-away copy outside /repo and /verif and only the headers are kept in
# /verif/.gen (run.py adds it to the include path after /repo).
set -e
cd "$(dirname "$0")"
for t in cbmc goto-cc goto-instrument kissat z3 gcc python3; do
	command -v $t >/dev/null || { echo "missing tool $t"; exit 1; }
done
REPO=${VF_REPO:-/repo}
need=0
for f in lib/config.h lib/ext2fs/ext2_err.h lib/ext2fs/ext2_types.h lib/ext2fs/crc32c_table.h \
	lib/et/com_err.h lib/ss/ss_err.h lib/dirpaths.h lib/support/prof_err.h lib/blkid/blkid_types.h lib/uuid/uuid_types.h; do
	[ -f "$REPO/$f" ] || need=1
done
if [ $need = 1 ]; then
	echo "generated headers missing in $REPO: building them in a scratch copy"
	S=$(mktemp -d /var/tmp/vf-gen.XXXXXX)
	trap 'rm -rf "$S"' EXIT
	(cd "$REPO" && tar -c --exclude=.git --exclude='*.o' --exclude='*.a' --exclude=tests . ) | tar -x -C "$S"
	(
		cd "$S" || exit 1
		./configure >/dev/null 2>&1 || exit 1
		make -j8 -C lib/et >/dev/null 2>&1
		make -j8 -C lib/ss ss_err.h >/dev/null 2>&1
		make -j8 -C lib/ext2fs ext2_err.h crc32c_table.h >/dev/null 2>&1
		make -C lib/support prof_err.h >/dev/null 2>&1
		make -C lib dirpaths.h >/dev/null 2>&1
		make -C lib/blkid blkid_types.h >/dev/null 2>&1
		make -C lib/uuid uuid_types.h >/dev/null 2>&1
		exit 0
	) || { echo "configure failed in scratch copy"; exit 1; }
	rm -rf .gen; mkdir -p .gen
	V=$(pwd)
	(cd "$S" && find . -name '*.h' -newer configure -print | tar -c -T - | tar -x -C "$V/.gen")
	[ -f .gen/lib/config.h ] || { echo "could not generate headers"; exit 1; }
fi
mkdir -p evidence replay
echo "setup ok"
