#!/usr/bin/env python3
"""
run.py -- bounded symbolic checking of the real e2fsprogs sources with CBMC.

  run.py <PROP> [--tier quick|thorough] [--only SUBSTR] [--sweep] [--jobs N]
  run.py --replay <replay.json>

For one property: every harness/config query of the tier is compiled from
/repo's *current* working tree with goto-cc (no cache survives a run), handed to
cbmc (several back ends raced where the spec says so), the verdict parsed, every
counterexample replayed natively (gcc + ASan/UBSan, same harness, same /repo
sources) and evidence/<PROP>.json written.

exit 0  every query that reached a verdict held (or is a listed known finding)
exit 1  "VIOLATION property=<id> replay=<path>"   (replayed against the real code)
exit 2  framework problem (build failure, vacuous harness, counterexample that
        does not reproduce natively = ENCODING-MISMATCH)
exit 3  no query of the property reached a verdict (all inconclusive)
"""
import argparse, hashlib, importlib.util, json, os, re, resource, shutil, signal
import subprocess, sys, tempfile, threading, time

VERIF = os.path.dirname(os.path.abspath(__file__))
REPO = os.environ.get("VF_REPO", "/repo")
GEN = os.path.join(VERIF, ".gen")          # fallback for generated headers (setup.sh)
COMMON = os.path.join(VERIF, "harness", "common")

INC = ["lib", "lib/ext2fs", "lib/et", "lib/e2p", "lib/support", "lib/uuid", "lib/blkid",
       "e2fsck", "misc", "resize", "debugfs", "include", "."]

BACKENDS = {
    "default": [],
    "cadical": ["--sat-solver", "cadical"],
    "kissat": ["--external-sat-solver", "kissat"],
    "z3": ["--z3"],
    "cvc5": ["--cvc5"],
}
HARNESS_PREFIXES = ("vf_", "ref_", "stub_", "env_", "main", "__CPROVER", "nondet_")

FUNCTIONAL_FLAGS = ["--no-standard-checks", "--unwinding-assertions",
                    "--drop-unused-functions", "--no-malloc-may-fail",
                    "--no-built-in-assertions"]
MEMSAFE_FLAGS = ["--unwinding-assertions", "--drop-unused-functions",
                 "--no-malloc-may-fail", "--pointer-overflow-check",
                 "--signed-overflow-check", "--undefined-shift-check"]

print_lock = threading.Lock()
LIVE = set()		# pids (= process group ids) of running cbmc children


def _kill_children(signum=None, frame=None):
    for pid in list(LIVE):
        try:
            os.killpg(pid, signal.SIGKILL)
        except OSError:
            pass
    if signum is not None:
        sys.stderr.write("run.py: terminated by signal %d, children killed\n" % signum)
        os._exit(2)


def log(*a):
    with print_lock:
        print(*a, flush=True)


def load_spec(prop):
    path = os.path.join(VERIF, "harness", prop, "spec.py")
    s = importlib.util.spec_from_file_location("spec_" + prop, path)
    m = importlib.util.module_from_spec(s)
    s.loader.exec_module(m)
    return m


def cfg_name(cfg):
    if not cfg:
        return "-"
    return ",".join("%s=%s" % (k, v) for k, v in cfg.items() if not k.startswith("_"))


class Query:
    def __init__(self, prop, h, cfg, witness):
        self.prop, self.h, self.cfg, self.witness = prop, h, cfg, witness
        self.name = h["name"] + "[" + cfg_name(cfg) + "]" + (".witness" if witness else "")
        self.gb = None
        self.decided = threading.Event()
        self.result = None          # dict
        self.attempts = []          # per back end
        self.build_err = None
        self.lock = threading.Lock()
        self.procs = []

    def defines(self):
        d = list(self.h.get("defs", []))
        for k, v in self.cfg.items():
            if k.startswith("_"):
                continue
            d.append("%s=%s" % (k, v) if v is not None else k)
        if self.witness:
            d.append("WITNESS")
        return d

    def get(self, key, default=None):
        """config-level override (_key) beats harness-level key"""
        if "_" + key in self.cfg:
            return self.cfg["_" + key]
        return self.h.get(key, default)


def make_cuts(h, d):
    """cut_statics: {repo-relative .c: [static function names]} -> a copy of the real file
    (regenerated from /repo on every run) in which ONLY the definition of each named function is
    renamed vf_cut_<name>; calls keep the name, so the harness's stub_ definition is what runs.
    The harness must declare the prototype before the #include and define the stub after it."""
    cuts = h.get("cut_statics")
    if not cuts:
        return None
    root = os.path.join(d, "cutroot")
    for rel, names in cuts.items():
        txt = open(os.path.join(REPO, rel), errors="replace").read()
        for n in names:
            pat = re.compile(r"(^(?:static|errcode_t|int|void|blk64_t|unsigned)[^;{}()]*?\b)" + re.escape(n)
                             + r"(\s*\([^;{}]*\)\s*\{)", re.M)
            txt, k = pat.subn(lambda m: m.group(1) + "vf_cut_" + n + m.group(2), txt, count=1)
            if k != 1:
                raise RuntimeError("cut_statics: definition of %s not found in %s" % (n, rel))
        out = os.path.join(root, rel)
        os.makedirs(os.path.dirname(out), exist_ok=True)
        # keep quoted includes of sibling headers working: they are found through -I$REPO/<dir>
        open(out, "w").write(txt)
    return root


def include_flags(prop, h, cutroot=None):
    fl = ["-I" + COMMON, "-I" + os.path.join(VERIF, "harness", prop)]
    if cutroot:
        fl.append("-I" + cutroot)
    for d in INC:
        fl.append("-I" + os.path.join(REPO, d))
    if os.path.isdir(GEN):
        for d in INC:
            p = os.path.join(GEN, d)
            if os.path.isdir(p):
                fl.append("-I" + p)
    for d in h.get("inc", []):
        fl.append("-I" + d)
    return fl


def run_cmd(cmd, cwd=None, timeout=600):
    p = subprocess.run(cmd, cwd=cwd, stdout=subprocess.PIPE, stderr=subprocess.STDOUT,
                       timeout=timeout, text=True, errors="replace")
    return p.returncode, p.stdout


def build(q, work):
    """goto-cc the harness (which #includes the real .c files) + extra real units"""
    h = q.h
    d = os.path.join(work, re.sub(r"[^A-Za-z0-9_.-]", "_", q.name))
    os.makedirs(d, exist_ok=True)
    src = os.path.join(VERIF, "harness", q.prop, h["src"])
    srcs = [src] + [os.path.join(REPO, s) for s in h.get("extra_src", [])] \
        + [os.path.join(VERIF, "harness", s) for s in h.get("extra_harness_src", [])]
    out = os.path.join(d, "h.gb")
    try:
        cutroot = make_cuts(h, d)
    except (RuntimeError, OSError) as e:
        q.build_err = str(e)
        return
    cmd = ["goto-cc", "-o", out] + srcs + ["-include", os.path.join(COMMON, "vf.h"),
                                          "-DHAVE_CONFIG_H", "-DE2FSPROGS_VERIF", "-DVF_CBMC"]
    cmd += include_flags(q.prop, h, cutroot) + ["-D" + x for x in q.defines()]
    rc, o = run_cmd(cmd, cwd=d)
    if rc != 0 or not os.path.exists(out):
        q.build_err = "goto-cc failed:\n" + o[-3000:]
        return
    rb = h.get("remove_bodies", [])
    if rb:
        out2 = os.path.join(d, "h2.gb")
        cmd = ["goto-instrument"]
        for f in rb:
            cmd += ["--remove-function-body", f]
        rc, o = run_cmd(cmd + [out, out2], cwd=d)
        if rc != 0:
            q.build_err = "goto-instrument failed:\n" + o[-3000:]
            return
        out = out2
        pl = h.get("post_link", [])
        if pl:
            objs = []
            for i, s in enumerate(pl):
                ob = os.path.join(d, "pl%d.gb" % i)
                cmd = ["goto-cc", "-c", "-o", ob, os.path.join(VERIF, "harness", q.prop, s),
                       "-include", os.path.join(COMMON, "vf.h"), "-DHAVE_CONFIG_H",
                       "-DE2FSPROGS_VERIF", "-DVF_CBMC"] + include_flags(q.prop, h) \
                    + ["-D" + x for x in q.defines()]
                rc, o = run_cmd(cmd, cwd=d)
                if rc != 0:
                    q.build_err = "goto-cc (post_link) failed:\n" + o[-3000:]
                    return
                objs.append(ob)
            out3 = os.path.join(d, "h3.gb")
            rc, o = run_cmd(["goto-cc", "-o", out3, out] + objs, cwd=d)
            if rc != 0:
                q.build_err = "goto-cc (link) failed:\n" + o[-3000:]
                return
            out = out3
    q.gb = out
    q.dir = d


def list_functions(gb, d):
    out = os.path.join(d, "dropped.gb")
    rc, o = run_cmd(["goto-instrument", "--drop-unused-functions", gb, out], cwd=d)
    if rc != 0:
        return []
    rc, o = run_cmd(["goto-instrument", "--list-goto-functions", "--json-ui", out], cwd=d)
    try:
        j = json.loads(o)
    except Exception:
        return []
    fs = []
    for e in j:
        for f in e.get("functions", []):
            if f.get("isBodyAvailable") and not f.get("isInternal"):
                fs.append(f["name"])
    try:
        os.unlink(out)
    except OSError:
        pass
    return sorted(fs)


def cbmc_cmd(q, backend, extra=()):
    h = q.h
    cmd = ["cbmc", q.gb]
    if q.get("checks", "functional") == "memsafe":
        cmd += MEMSAFE_FLAGS
    else:
        cmd += FUNCTIONAL_FLAGS
    uw = q.get("unwindset", [])
    if uw:
        cmd += ["--unwindset", ",".join(uw)]
    if q.get("unwind") is not None:
        cmd += ["--unwind", str(q.get("unwind"))]
    cmd += q.get("cbmc_flags", [])
    cmd += BACKENDS[backend]
    cmd += ["--verbosity", "9"]
    cmd += list(extra)
    return cmd


RE_PROP = re.compile(r"^\[([^\]]+)\] (?:line (\d+) )?(.*): (SUCCESS|FAILURE|UNKNOWN|ERROR)$")


def parse_output(o):
    r = {"verdict": None, "failed": [], "nprops": 0, "steps": 0, "vccs": 0, "vccs_remaining": 0,
         "vars": 0, "clauses": 0}
    for line in o.splitlines():
        line = line.rstrip()
        m = RE_PROP.match(line)
        if m:
            r["nprops"] += 1
            if m.group(4) == "UNKNOWN":
                r["unknown"] = r.get("unknown", 0) + 1
            elif m.group(4) != "SUCCESS":
                lab = m.group(3)
                if lab.startswith("unwinding assertion") or lab.startswith("recursion unwinding"):
                    lab = "unwinding assertion " + m.group(1)
                r["failed"].append({"id": m.group(1), "line": m.group(2), "label": lab,
                                    "status": m.group(4)})
            continue
        if line.startswith("VERIFICATION SUCCESSFUL"):
            r["verdict"] = "pass"
        elif line.startswith("VERIFICATION FAILED"):
            r["verdict"] = "fail"
        m = re.search(r"size of program expression: (\d+) steps", line)
        if m:
            r["steps"] = int(m.group(1))
        m = re.search(r"Generated (\d+) VCC\(s\), (\d+) remaining", line)
        if m:
            r["vccs"], r["vccs_remaining"] = int(m.group(1)), int(m.group(2))
        m = re.search(r"(\d+) variables, (\d+) clauses", line)
        if m:
            r["vars"], r["clauses"] = int(m.group(1)), int(m.group(2))
    return r


def limit_mem(gb):
    def f():
        os.setsid()
        lim = int(gb * (1 << 30))
        resource.setrlimit(resource.RLIMIT_AS, (lim, lim))
    return f


def tmp_env(qdir):
    """cbmc writes the CNF for an external SAT solver to $TMPDIR and leaves it behind when it is killed (losing
    back end of a race, time-out): keep those files inside the query's work directory, which is removed with it"""
    d = os.path.join(qdir, "tmp")
    os.makedirs(d, exist_ok=True)
    e = dict(os.environ)
    e["TMPDIR"] = d
    return e


def solve_attempt(q, backend, cap, memgb):
    """one cbmc process; returns attempt dict; sets q.result if first definitive"""
    if q.decided.is_set():
        return
    cmd = cbmc_cmd(q, backend)
    t0 = time.time()
    outp = os.path.join(q.dir, "out.%s.txt" % backend)
    os.makedirs(q.dir, exist_ok=True)
    with open(outp, "w") as fo:
        p = subprocess.Popen(cmd, stdout=fo, stderr=subprocess.STDOUT, cwd=q.dir,
                             preexec_fn=limit_mem(memgb), env=tmp_env(q.dir))
    with q.lock:
        q.procs.append(p)
    LIVE.add(p.pid)
    status = None
    while True:
        try:
            pid, st, ru = os.wait4(p.pid, os.WNOHANG)
        except ChildProcessError:
            pid, st, ru = p.pid, 0, None
        if pid:
            p.returncode = st
            break
        if q.decided.is_set():
            status = "lost-race"
        elif time.time() - t0 > cap:
            status = "timeout"
        if status:
            try:
                os.killpg(p.pid, signal.SIGKILL)
            except OSError:
                pass
            try:
                pid, st, ru = os.wait4(p.pid, 0)
            except ChildProcessError:
                ru = None
            break
        time.sleep(0.1)
    LIVE.discard(p.pid)
    dt = time.time() - t0
    try:
        o = open(outp, errors="replace").read()
    except OSError:
        o = ""
    r = parse_output(o)
    att = {"backend": backend, "seconds": round(dt, 2),
           "rss_mb": int(ru.ru_maxrss / 1024) if ru else 0}
    att.update({k: r[k] for k in ("steps", "vccs", "vccs_remaining", "vars", "clauses", "nprops")})
    if status is None:
        if r["verdict"] in ("pass", "fail"):
            status = r["verdict"]
        else:
            tail = o[-600:]
            if "Out of memory" in o or "bad_alloc" in o or "std::bad_alloc" in o \
                    or "MemoryError" in o or "memory" in tail.lower():
                status = "out-of-memory"
            else:
                status = "error"
            att["tail"] = tail
    att["status"] = status
    with q.lock:
        q.attempts.append(att)
        if status in ("pass", "fail") and not q.decided.is_set():
            q.result = {"verdict": status, "failed": r["failed"], "backend": backend,
                        "seconds": att["seconds"], "rss_mb": att["rss_mb"], "steps": r["steps"],
                        "vccs": r["vccs"], "nprops": r["nprops"]}
            q.decided.set()
    return att


class Pool:
    """n worker threads taking jobs strictly in submission order"""
    def __init__(self, n):
        self.n = n
        self.jobs = []

    def submit(self, fn, *a):
        self.jobs.append((fn, a))

    def run(self):
        lock = threading.Lock()
        jobs = self.jobs
        self.jobs = []
        pos = [0]

        def w():
            while True:
                with lock:
                    if pos[0] >= len(jobs):
                        return
                    fn, a = jobs[pos[0]]
                    pos[0] += 1
                try:
                    fn(*a)
                except Exception as e:
                    log("internal error in worker: %r" % (e,))
                    import traceback
                    traceback.print_exc()
        ts = [threading.Thread(target=w, daemon=True) for _ in range(min(self.n, max(1, len(jobs))))]
        for t in ts:
            t.start()
        for t in ts:
            t.join()


# ---------------------------------------------------------------- trace -> input values

def flatten_value(prefix, v, out):
    """CBMC json-ui value -> list of 'lhs = value;' leaf assignments"""
    n = v.get("name")
    if n == "struct":
        for m in v.get("members", []):
            if m["name"].startswith("$"):
                continue
            flatten_value(prefix + "." + m["name"], m["value"], out)
    elif n == "array":
        for e in v.get("elements", []):
            flatten_value("%s[%s]" % (prefix, e["index"]), e["value"], out)
    elif n == "union":
        m = v.get("member")
        if m:
            flatten_value(prefix + "." + m["name"], m["value"], out)
    elif n in ("integer", "boolean"):
        data = v.get("data")
        b = v.get("binary")
        if b is not None and re.fullmatch(r"[01]+", b):
            width = len(b)
            val = int(b, 2)
            signed = (v.get("type", "").find("unsigned") < 0) and not v.get("type", "").startswith("__u") \
                and v.get("type", "") not in ("_Bool",)
            # emit as unsigned hex literal cast through the lhs type implicitly
            out.append((prefix, "0x%xULL" % val))
        elif data is not None:
            dd = {"true": "1", "false": "0", "TRUE": "1", "FALSE": "0"}.get(data, data)
            out.append((prefix, dd))
    elif n == "pointer":
        pass
    elif n == "unknown":
        pass
    else:
        data = v.get("data")
        if data is not None and re.fullmatch(r"-?\d+", str(data)):
            out.append((prefix, str(data)))


def extract_input(trace_json):
    """last value of every IN.* leaf in the counterexample"""
    vals = {}
    order = []
    for e in trace_json:
        res = e.get("result")
        if not res:
            continue
        for pr in res:
            for st in pr.get("trace", []):
                if st.get("stepType") != "assignment":
                    continue
                lhs = re.sub(r"\[(\d+)[a-zA-Z]+\]", r"[\1]", st.get("lhs", ""))
                if not (lhs == "IN" or lhs.startswith("IN.") or lhs.startswith("IN[")):
                    continue
                leaves = []
                flatten_value(lhs, st.get("value", {}), leaves)
                for k, v in leaves:
                    if "$" in k:
                        continue
                    if k not in vals:
                        order.append(k)
                    vals[k] = v
            if pr.get("trace"):
                return [(k, vals[k]) for k in order], pr
    return [], None


def is_ub_label(l):
    return l.startswith("pointer arithmetic:") or l.startswith("pointer relation:")


def get_counterexample(q, backend, cap, memgb, prop_id=None):
    """re-run the failing query with --trace --json-ui, first failing property only"""
    extra = ["--trace", "--json-ui", "--stop-on-fail"]
    if prop_id:
        extra += ["--property", prop_id]
    cmd = cbmc_cmd(q, backend, extra)
    outp = os.path.join(q.dir, "trace.json")
    with open(outp, "w") as fo:
        p = subprocess.Popen(cmd, stdout=fo, stderr=subprocess.DEVNULL, cwd=q.dir,
                             preexec_fn=limit_mem(memgb), env=tmp_env(q.dir))
        try:
            p.wait(timeout=cap * 2 + 60)
        except subprocess.TimeoutExpired:
            os.killpg(p.pid, signal.SIGKILL)
            return None, None
    try:
        j = json.load(open(outp))
    except Exception:
        return None, None
    # --stop-on-fail json: look for the trace in result or top-level
    vals, pr = extract_input(j)
    if pr is None:
        # stop-on-fail puts the trace in a "trace" message
        for e in j:
            if "trace" in e:
                fake = [{"result": [{"trace": e["trace"], "description": e.get("description", ""),
                                     "property": e.get("property", "")}]}]
                vals, pr = extract_input(fake)
                # failing property id is in the last 'failure' step
                for st in e["trace"]:
                    if st.get("stepType") == "failure":
                        pr = {"description": st.get("reason", ""), "property": st.get("property", "")}
                break
    return vals, pr


def native_replay(prop, h, cfg, vals, work, timeout=120):
    """same harness, concrete IN, gcc + ASan/UBSan against the same /repo sources"""
    d = tempfile.mkdtemp(prefix="replay.", dir=work)
    with open(os.path.join(d, "vf_in_values.h"), "w") as f:
        for k, v in vals:
            f.write("\t%s = %s;\n" % (k, v))
    q = Query(prop, h, cfg, False)
    src = os.path.join(VERIF, "harness", prop, h["src"])
    srcs = [src] + [os.path.join(REPO, s) for s in h.get("extra_src", [])] \
        + [os.path.join(VERIF, "harness", s) for s in h.get("extra_harness_src", [])]
    for s in h.get("post_link", []):
        srcs.append(os.path.join(VERIF, "harness", prop, s))
    # C99 'inline' bodies of ext2fs.h get their external definitions from inline.c
    inl = os.path.join(REPO, "lib/ext2fs/inline.c")
    if not h.get("replay_no_inline") and inl not in srcs and "lib/ext2fs/inline.c" not in h.get("extra_src", []):
        srcs.append(inl)
    exe = os.path.join(d, "replay")
    try:
        cutroot = make_cuts(h, d)
    except (RuntimeError, OSError) as e:
        return {"built": False, "log": str(e), "dir": d}
    cmd = ["gcc", "-g", "-O0", "-fsanitize=address,undefined", "-fno-sanitize-recover=undefined",
           "-w", "-o", exe] + srcs + \
          ["-include", os.path.join(COMMON, "vf.h"), "-DHAVE_CONFIG_H", "-DE2FSPROGS_VERIF",
           "-DVF_REPLAY", "-D_GNU_SOURCE", "-I" + d] + include_flags(prop, h, cutroot) \
        + ["-D" + x for x in q.defines()]
    for f in h.get("remove_bodies", []):
        # natively the cut callee is replaced by the stub through a rename of the real one
        cmd.append("-D%s=vf_cut_%s" % (f, f))
    cmd += h.get("replay_ldflags", [])
    rc, o = run_cmd(cmd, cwd=d)
    if rc != 0 and "undefined reference" in o:
        # functions the symbolic run treated as body-less: give each a trap so the
        # replay is self-contained and says so if it ever leaves the encoded code
        und = sorted(set(re.findall(r"undefined reference to `([A-Za-z_][A-Za-z0-9_]*)'", o)))
        with open(os.path.join(d, "vf_unresolved.c"), "w") as f:
            f.write("#include <stdio.h>\n#include <stdlib.h>\n")
            for u in und:
                f.write('void %s(void){fprintf(stderr,"VF-UNRESOLVED-CALL %s\\n");abort();}\n' % (u, u))
        # the trap file must not be compiled with the forced include / renames
        rc, o = run_cmd(["gcc", "-c", "-w", "-o", os.path.join(d, "vf_unresolved.o"),
                         os.path.join(d, "vf_unresolved.c")], cwd=d)
        rc, o = run_cmd(cmd + [os.path.join(d, "vf_unresolved.o")], cwd=d)
    if rc != 0:
        return {"built": False, "log": o[-3000:], "dir": d}
    env = dict(os.environ)
    env["ASAN_OPTIONS"] = "detect_leaks=0:abort_on_error=0"
    try:
        p = subprocess.run([exe], cwd=d, stdout=subprocess.PIPE, stderr=subprocess.STDOUT,
                           timeout=timeout, text=True, errors="replace", env=env)
        rc, o = p.returncode, p.stdout
    except subprocess.TimeoutExpired as e:
        rc, o = -999, "TIMEOUT after %ss (hang)" % timeout
    return {"built": True, "rc": rc, "log": o[-4000:], "dir": d}


def classify_replay(rep, memsafe):
    if not rep.get("built"):
        return "replay-build-failed"
    o = rep["log"]
    if "VF-UNRESOLVED-CALL" in o:
        return "left-encoded-code"
    if "VF-ASSERT-FAIL" in o:
        return "reproduced"
    if "VF-ASSUME-FALSE" in o or rep["rc"] == 77:
        return "assume-false"
    if rep["rc"] == -999:
        return "reproduced-hang"
    if "AddressSanitizer" in o or "runtime error" in o or rep["rc"] < 0 or rep["rc"] > 128:
        # functional harnesses only count their own assertion; a sanitizer report
        # there is still a real fault of the native run and is shown, but separately
        return "reproduced-sanitizer" if memsafe else "sanitizer-fault-not-the-assertion"
    return "not-reproduced"


# ---------------------------------------------------------------- known findings

def load_known(prop):
    res = []
    p = os.path.join(VERIF, "known_findings.txt")
    if not os.path.exists(p):
        return res
    for line in open(p):
        line = line.strip()
        if not line.startswith("finding:"):
            continue
        m = re.match(r'finding:\s+property=(\S+)\s+harness=(\S+)\s+assert="([^"]*)"\s*(.*)$', line)
        if m and m.group(1) == prop:
            res.append({"harness": m.group(2), "label": m.group(3), "what": m.group(4)})
    return res


def match_known(known, q, label):
    for k in known:
        hn = k["harness"]
        if (hn == q.h["name"] or hn == q.name or hn == "*") and k["label"] == label:
            return k
    return None


# ---------------------------------------------------------------- main

def harvest_assumes(path):
    res = []
    try:
        txt = open(path).read()
    except OSError:
        return res
    for m in re.finditer(r"/\*\s*(ASSUME|STUB|OUTSIDE|BOUND):\s*(.*?)\*/", txt, re.S):
        res.append("%s: %s" % (m.group(1), " ".join(m.group(2).split())))
    return res


def sha256(path):
    try:
        return hashlib.sha256(open(path, "rb").read()).hexdigest()[:16]
    except OSError:
        return "missing"


def main():
    ap = argparse.ArgumentParser()
    ap.add_argument("prop", nargs="?")
    ap.add_argument("--tier", default=os.environ.get("VERIF_TIER", "quick"))
    ap.add_argument("--only", default=None)
    ap.add_argument("--sweep", action="store_true", help="run every back end on every query, print times")
    ap.add_argument("--jobs", type=int, default=int(os.environ.get("VF_JOBS", "0")))
    ap.add_argument("--keep", action="store_true")
    ap.add_argument("--replay", default=None)
    ap.add_argument("--no-witness", action="store_true")
    ap.add_argument("--no-evidence", action="store_true")
    a = ap.parse_args()
    signal.signal(signal.SIGTERM, _kill_children)
    signal.signal(signal.SIGINT, _kill_children)
    if a.replay:
        return do_replay(a.replay)
    if not a.prop:
        ap.error("property id required")
    tier = a.tier if a.tier in ("quick", "thorough") else "quick"
    seed = int(os.environ.get("VERIF_SEED", "0") or 0)
    prop = a.prop
    t_start = time.time()
    spec = load_spec(prop)
    jobs = a.jobs or min(16, os.cpu_count() or 4)
    memgb = float(os.environ.get("VF_MEMGB", "10" if tier == "quick" else "20"))
    work = os.path.join(VERIF, ".work", "%s.%d" % (prop, os.getpid()))
    os.makedirs(work, exist_ok=True)
    known = load_known(prop)

    queries = []
    for h in spec.HARNESSES:
        cfgs = h.get("configs", [{}])
        for cfg in cfgs:
            ctier = cfg.get("_tier", h.get("tier", "quick"))
            if tier == "quick" and ctier != "quick":
                continue
            if tier == "thorough" and ctier == "quick-only":
                continue
            q = Query(prop, h, cfg, False)
            if a.only and a.only not in q.name:
                continue
            queries.append(q)
    # one vacuity witness per harness (first selected config), plus per config if asked
    witnesses = []
    if not a.no_witness and not a.sweep:
        seen = set()
        for q in queries:
            key = q.h["name"] if not q.h.get("witness_per_config") else q.name
            if key in seen:
                continue
            seen.add(key)
            witnesses.append(Query(prop, q.h, q.cfg, True))
    allq = queries + witnesses
    if not allq:
        log("no queries selected")
        return 2

    # ---- build phase (always from /repo's current tree)
    pool = Pool(jobs)
    for q in allq:
        pool.submit(build, q, work)
    pool.run()
    berr = [q for q in allq if q.build_err]
    for q in berr:
        log("BUILD-ERROR %s\n%s" % (q.name, q.build_err))
    if berr:
        finish(work, a.keep)
        return 2
    # functions encoded: once per harness
    funcs_by_h = {}
    missing_funcs = []
    for q in queries:
        hn = q.h["name"]
        if hn in funcs_by_h:
            continue
        fl = list_functions(q.gb, q.dir)
        real = [f for f in fl if not f.startswith(HARNESS_PREFIXES) and f not in q.h.get("stubs", [])]
        funcs_by_h[hn] = real
        for f in ([] if a.only else q.h.get("funcs", [])):
            if f not in fl:
                missing_funcs.append((hn, f))
    for hn, f in missing_funcs:
        log("ENCODING-ERROR harness %s: real function %s is not in the encoded program" % (hn, f))
    if missing_funcs:
        finish(work, a.keep)
        return 2

    # ---- solve phase
    pool = Pool(jobs)
    plan = []
    for q in allq:
        if a.sweep:
            bes = list(BACKENDS.keys())
        elif q.witness:
            bes = q.get("witness_backends", q.get("backends", ["default"]))
        else:
            bes = q.get("backends", ["default"])
        cap = q.get("cap_quick", 150) if tier == "quick" else q.get("cap_thorough", 1200)
        for rank, be in enumerate(bes):
            plan.append((rank, q, be, cap))
    plan.sort(key=lambda x: x[0])
    if a.sweep:
        def sweep_one(q, be, cap):
            q2 = Query(q.prop, q.h, q.cfg, q.witness)
            q2.gb, q2.dir = q.gb, q.dir
            att = solve_attempt(q2, be, cap, memgb)
            log("SWEEP %-50s %-8s %-8s %7.1fs %6d MB steps=%d" % (
                q.name, be, att["status"], att["seconds"], att["rss_mb"], att["steps"]))
        for rank, q, be, cap in plan:
            pool.submit(sweep_one, q, be, cap)
        pool.run()
        finish(work, a.keep)
        return 0
    for rank, q, be, cap in plan:
        pool.submit(solve_attempt, q, be, cap, memgb)
    pool.run()

    # ---- verdicts
    violations, knowns, mismatches, broken, inconclusive = [], [], [], [], []
    ub_reports = []
    replays = 0
    qrecords = []
    for q in queries:
        rec = {"query": q.name, "attempts": q.attempts}
        if not q.result:
            rec["verdict"] = "inconclusive"
            inconclusive.append(q)
            log("INCONCLUSIVE %s (%s)" % (q.name, ", ".join(
                "%s:%s %.0fs %dMB" % (x["backend"], x["status"], x["seconds"], x["rss_mb"])
                for x in q.attempts)))
            for x in q.attempts:
                if x["status"] == "error":
                    log("   cbmc error tail: " + x.get("tail", "")[-400:].replace("\n", "\n   "))
            qrecords.append(rec)
            continue
        r = q.result
        rec.update({"verdict": r["verdict"], "backend": r["backend"], "seconds": r["seconds"],
                    "rss_mb": r["rss_mb"], "steps": r["steps"], "vccs": r["vccs"],
                    "properties_checked": r["nprops"]})
        if r["verdict"] == "pass":
            log("PASS %-60s %-8s %6.1fs %5dMB props=%d" % (q.name, r["backend"], r["seconds"],
                                                          r["rss_mb"], r["nprops"]))
            qrecords.append(rec)
            continue
        # failed: counterexample -> native replay
        labels = [f["label"] for f in r["failed"]]
        rec["failed"] = labels
        log("FAIL %s: %s" % (q.name, "; ".join(labels)))
        # known-finding filter: all failed labels known?
        # pick the property whose trace we want: a genuine (non pointer-formation) one if any
        want = None
        if r["backend"] not in ("kissat",):
            cand = [f for f in r["failed"] if not is_ub_label(f["label"]) and "unwind" not in f["id"]]
            if cand and len(r["failed"]) > 1:
                want = cand[0]["id"]
        vals, pr = get_counterexample(q, r["backend"], 300, memgb, want)
        if r["backend"] == "kissat" and pr is not None:
            # an external (non-incremental) SAT solver makes cbmc mark EVERY property of the group
            # FAILURE; the only trustworthy label is the one the counterexample trace violates
            pid = pr.get("property", "")
            one = [f for f in r["failed"] if f["id"] == pid]
            if one:
                r["failed"] = one
                labels = [one[0]["label"]]
                rec["failed"] = labels
                log("   (kissat verdict; failing property identified by the trace: %s)" % labels[0])
        unknown = [f for f in r["failed"] if not match_known(known, q, f["label"])]
        rep = None
        cls = "no-trace"
        if vals is not None:
            rep = native_replay(prop, q.h, q.cfg, vals, work)
            replays += 1
            cls = classify_replay(rep, q.get("checks") == "memsafe")
        rec["replay"] = cls
        rid = hashlib.sha1((q.name + json.dumps(vals)).encode()).hexdigest()[:10]
        rdir = os.path.join(VERIF, "replay", prop)
        os.makedirs(rdir, exist_ok=True)
        rpath = os.path.join(rdir, "%s.%s.json" % (re.sub(r"[^A-Za-z0-9_.-]", "_", q.name), rid))
        json.dump({"property": prop, "harness": q.h["name"], "config": q.cfg, "failed": r["failed"],
                   "input": vals, "replay_class": cls,
                   "replay_log": rep["log"][-2000:] if rep else None}, open(rpath, "w"), indent=1)
        rec["replay_path"] = rpath
        only_unwind = all("unwinding assertion" in l for l in labels)
        # standard-level UB that no sanitizer can confirm (forming/comparing an out-of-object
        # pointer): reported separately, never as a violation, never as a harness error
        ub_only = q.get("checks") == "memsafe" and not cls.startswith("reproduced") and all(
            is_ub_label(l) for l in labels)
        if ub_only:
            ub_reports.append((q, labels, rpath))
            rec["ub_report"] = labels
        elif not unknown:
            for f in r["failed"]:
                k = match_known(known, q, f["label"])
                knowns.append((q, f["label"], k, cls))
        elif cls.startswith("reproduced"):
            violations.append((q, labels, rpath, cls))
        elif only_unwind and cls == "sanitizer-fault-not-the-assertion":
            # the code ran past the loop bound derived from it AND the native run of the same input
            # faults under ASan/UBSan: a real fault of the code, not a harness bound problem
            violations.append((q, labels, rpath, "loop bound exceeded + native sanitizer fault"))
        elif only_unwind:
            broken.append((q, "loop bound exceeded (unwinding assertion) and native run terminates: "
                           "harness bound no longer matches the code", rpath))
        else:
            mismatches.append((q, labels, rpath, cls, rep))
        qrecords.append(rec)
    # witnesses
    wit_ok = 0
    for q in witnesses:
        if not q.result:
            log("WITNESS-INCONCLUSIVE %s" % q.name)
            continue
        fl = [f["label"] for f in q.result.get("failed", [])]
        if any("WITNESS" in l for l in fl):
            wit_ok += 1
        else:
            main_q = [x for x in queries if x.h["name"] == q.h["name"]]
            if any(x.result and x.result["verdict"] == "fail" for x in main_q):
                continue
            broken.append((q, "vacuous: end of harness not reachable", None))

    nverdict = sum(1 for q in queries if q.result)
    wall = time.time() - t_start
    # ---- report
    for q, label, k, cls in knowns:
        log("KNOWN-FINDING: property=%s harness=%s assert=\"%s\" %s [replay: %s]" % (
            prop, q.name, label, k["what"], cls))
    for q, labels, rpath, cls, rep in mismatches:
        log("ENCODING-MISMATCH %s: solver counterexample for [%s] does not reproduce natively (%s); "
            "replay=%s" % (q.name, "; ".join(labels), cls, rpath))
        if rep and not rep.get("built"):
            log(rep["log"][-1500:])
    for q, why, rpath in broken:
        log("BROKEN-HARNESS %s: %s" % (q.name, why))
    for q, labels, rpath in ub_reports:
        log("UB-REPORT %s: %s (not confirmable by a sanitizer; triage by reading) replay=%s" % (
            q.name, "; ".join(labels), rpath))
    for q, labels, rpath, cls in violations:
        log("VIOLATION property=%s replay=%s" % (prop, rpath))
        log("   harness=%s failed=[%s] native=%s" % (q.name, "; ".join(labels), cls))

    if not a.no_evidence and not a.only:
        write_evidence(prop, tier, seed, spec, queries, witnesses, qrecords, funcs_by_h, wall,
                       len(violations), replays, wit_ok, knowns, inconclusive)
    finish(work, a.keep)
    log("SUMMARY property=%s tier=%s queries=%d verdicts=%d pass=%d violations=%d known=%d "
        "inconclusive=%d witnesses_ok=%d/%d wall=%.0fs" % (
            prop, tier, len(queries), nverdict,
            sum(1 for q in queries if q.result and q.result["verdict"] == "pass"),
            len(violations), len(knowns), len(inconclusive), wit_ok, len(witnesses), wall))
    if violations:
        return 1
    if mismatches or broken:
        return 2
    if nverdict == 0:
        return 3
    return 0


def finish(work, keep):
    if not keep:
        shutil.rmtree(work, ignore_errors=True)
        try:
            os.rmdir(os.path.dirname(work))
        except OSError:
            pass


def write_evidence(prop, tier, seed, spec, queries, witnesses, qrecords, funcs_by_h, wall,
                   nviol, replays, wit_ok, knowns, inconclusive):
    meta = getattr(spec, "META", {})
    files = {}
    assumes = list(meta.get("assumptions", []))
    for h in spec.HARNESSES:
        p = os.path.join(VERIF, "harness", prop, h["src"])
        for x in harvest_assumes(p):
            s = "%s: %s" % (h["name"], x)
            if s not in assumes:
                assumes.append(s)
        try:
            txt = open(p).read()
        except OSError:
            txt = ""
        for m in re.finditer(r'#include\s+"((?:lib|e2fsck|misc|resize|debugfs)/[^"]+\.[ch])"', txt):
            files["/repo/" + m.group(1)] = sha256(os.path.join(REPO, m.group(1)))
        for s in h.get("extra_src", []):
            files["/repo/" + s] = sha256(os.path.join(REPO, s))
    decided = [r for r in qrecords if r["verdict"] in ("pass", "fail")]
    steps = sum(r.get("steps", 0) for r in decided)
    samples = []
    for r in qrecords[:6]:
        samples.append({k: r[k] for k in ("query", "verdict", "backend", "seconds", "steps",
                                          "properties_checked") if k in r})
    selected_h = sorted(set(q.h["name"] for q in queries))
    ev = {
        "property_id": prop, "tier": tier, "seed": seed, "level": "model_checking",
        "coverage": {
            "states": max(1, len(decided)),
            "transitions": max(1, steps),
            "traces_validated_against_impl": replays,
            "samples": samples or [{"query": "none"}],
            "explanation": "states = harness x configuration queries that reached a solver verdict; "
                           "transitions = CBMC program steps (SSA) summed over them; every query is "
                           "symbolic in all inputs listed in its harness's struct vf_in",
            "engine": "cbmc 6.11.0 (goto-cc from /repo working tree, regenerated this run)",
            "functions_encoded": {h: funcs_by_h.get(h, []) for h in selected_h},
            "source_files_sha256": files,
            "bounds": {h["name"]: {"unwindset": h.get("unwindset", []), "note": h.get("bound", "")}
                       for h in spec.HARNESSES if h["name"] in selected_h},
            "queries": qrecords,
            "queries_total": len(queries),
            "queries_decided": len(decided),
            "queries_inconclusive": [q.name for q in inconclusive],
            "vacuity_witnesses_reached": wit_ok,
            "vacuity_witnesses_total": len(witnesses),
            "solver_seconds_total": round(sum(x["seconds"] for r in qrecords
                                              for x in r.get("attempts", [])), 1),
            "known_findings_hit": ["%s: %s" % (q.name, l) for q, l, k, c in knowns],
            "outside_claim": meta.get("outside", []),
            "exhaustive": False,
        },
        "assumptions": assumes,
        "wall_s": round(wall, 1),
        "violations": nviol,
    }
    os.makedirs(os.path.join(VERIF, "evidence"), exist_ok=True)
    with open(os.path.join(VERIF, "evidence", prop + ".json"), "w") as f:
        json.dump(ev, f, indent=1)


def do_replay(path):
    j = json.load(open(path))
    prop = j["property"]
    spec = load_spec(prop)
    h = [x for x in spec.HARNESSES if x["name"] == j["harness"]][0]
    work = os.path.join(VERIF, ".work", "replay.%d" % os.getpid())
    os.makedirs(work, exist_ok=True)
    rep = native_replay(prop, h, j["config"], [tuple(x) for x in j["input"]], work)
    cls = classify_replay(rep, h.get("checks") == "memsafe")
    print(rep.get("log", ""))
    print("REPLAY %s: %s" % (path, cls))
    finish(work, False)
    return 1 if cls.startswith("reproduced") else 0


if __name__ == "__main__":
    sys.exit(main())
