#!/usr/bin/env python3
"""Regenerates MANIFEST.json from harness/<ID>/spec.py (MANIFEST dict in each spec)
and harness/not_applicable.json.  Run after adding/removing a property check."""
import importlib.util, json, os

V = os.path.dirname(os.path.abspath(__file__))
props = [json.loads(l)["id"] for l in open(os.path.join(V, "properties.jsonl"))]
checks, na = [], []
na_reasons = json.load(open(os.path.join(V, "harness", "not_applicable.json")))
for p in props:
    sp = os.path.join(V, "harness", p, "spec.py")
    if p in na_reasons or not os.path.exists(sp):
        na.append({"property_id": p, "reason": na_reasons.get(
            p, "no bounded encoding built (see DESIGN.md section 6)")})
        continue
    s = importlib.util.spec_from_file_location("spec_" + p, sp)
    m = importlib.util.module_from_spec(s)
    s.loader.exec_module(m)
    mf = m.MANIFEST
    checks.append({
        "property_id": p,
        "quick_cmd": "python3 run.py %s --tier quick" % p,
        "thorough_cmd": "python3 run.py %s --tier thorough" % p,
        "evidence_file": "evidence/%s.json" % p,
        "replay_cmd_template": "python3 run.py --replay {path}",
        "engine": "cbmc",
        "level_claimed": {
            "category": "model_checking",
            "text": mf["text"],
            "design_ref": mf.get("design_ref", "DESIGN.md section 5 " + p),
        },
        "level_note": mf["note"],
        "technique": mf.get("technique", "bounded symbolic execution of the real C units with "
                            "CBMC 6.11 (goto-cc from /repo), SAT/SMT back ends, native replay of "
                            "counterexamples"),
    })
man = {
    "version": 1,
    "setup_cmd": "sh setup.sh",
    "hooks": {
        "guard": "E2FSPROGS_VERIF",
        "enable": "harnesses are compiled by goto-cc with -DE2FSPROGS_VERIF (rbtree parent/colour split, H2) and, per query, the "
                  "scaling overrides -DE2FSPROGS_VERIF_CACHE_SIZE / _WRITE_DIRECT_SIZE (unix_io.c, H1), "
                  "-DE2FSPROGS_VERIF_UNDO_MIN_BLOCK_SIZE (undo_io.c H4, misc/e2undo.c H5) and "
                  "-DE2FSPROGS_VERIF_UNDO_MAX_EXTENT_BLOCKS (undo_io.c, H6); the normal build defines none of them",
        "baseline_off_cmd": "cd /repo && make -j8 >/dev/null && make -k check",
        "source_commits": json.load(open(os.path.join(V, "harness", "hooks.json"))),
        "add_only": True,
    },
    "engines": [{
        "name": "cbmc",
        "path": "run.py",
        "serves_properties": [c["property_id"] for c in checks],
        "kind_free_text": "bounded model checking (symbolic execution + SAT/SMT) of the real C "
                          "translation units; one harness per kernel; counterexamples replayed natively",
    }],
    "checks": checks,
    "not_applicable": na,
    "notes": "All checks regenerate their encoding from /repo's working tree on every run; bounds, "
             "stubs and assumptions per harness are in evidence/<id>.json and DESIGN.md.",
}
json.dump(man, open(os.path.join(V, "MANIFEST.json"), "w"), indent=1)
print("checks:", [c["property_id"] for c in checks])
print("not_applicable:", [c["property_id"] for c in na])
