/*
 * C18/clamptime (mirrored into C07: reproducible mke2fs -d output): misc/create_inode.c:clamped_time(),
 * the rule that makes populated timestamps reproducible: when the filesystem runs on a fixed clock
 * (EXT2_FLAG2_USE_FAKE_TIME: SOURCE_DATE_EPOCH / E2FSPROGS_FAKE_TIME), no source timestamp later than that
 * clock is stored.  For every t, fs->now and flags2:
 *   result == (flag set && t > now) ? now : t
 * in particular a clock of 0 (SOURCE_DATE_EPOCH=0: fs->now == 0 with the flag set) clamps every later time
 * to 0, and without the flag fs->now is irrelevant.
 */
#define main vf_real_main
#include "misc/create_inode.c"
#undef main

struct vf_in {
	long long t, now;
	__u32 flags2;
};
VF_DECLARE_INPUT(struct vf_in, IN)
#include "vf_input.inc"

int main(void)
{
	static struct struct_ext2_filsys fs_s;
	long long got, want;

	VF_INPUT(IN);
	fs_s.flags2 = IN.flags2;
	fs_s.now = (time_t) IN.now;
	got = (long long) clamped_time(&fs_s, (time_t) IN.t);
	want = ((IN.flags2 & 0x1 /* EXT2_FLAG2_USE_FAKE_TIME */) && IN.t > IN.now) ? IN.now : IN.t;
	PROP(got == want, "clamped_time: a fixed clock (flag set, any value including 0) bounds the time; otherwise unchanged");
	if ((IN.flags2 & 1) && IN.now == 0 && IN.t > 0)
		PROP(got == 0, "fixed clock 0 (SOURCE_DATE_EPOCH=0) clamps later times to 0");
	VF_END();
	return 0;
}
