/*
 * C18/lseek_copy: misc/create_inode.c:try_lseek_copy() -- the enumeration of the data
 * segments of a sparse host file with lseek(SEEK_DATA / SEEK_HOLE), "holes kept as holes".
 *
 * Model host file: size S <= 2^40 and NSEG (0..2) data segments [d0,h0) < [d1,h1) with 64-bit
 * offsets, separated by holes; the implicit hole at EOF.  lseek answers as lseek(2) documents:
 * SEEK_DATA -> the next position >= offset that holds data (ENXIO if there is none),
 * SEEK_HOLE -> the next hole >= offset (EOF counts as a hole).
 * copy_file_chunk() is cut to a recording stub (harness copy_chunk covers it).
 * Claim: copy_file_chunk is called exactly once per data segment, in order, with the segment
 * rounded outward to filesystem block boundaries (start down, end up), as full 64-bit offsets;
 * nothing is copied for holes; errors of the chunk copy and of lseek are passed on.
 */
#include "config.h"
#include <sys/types.h>
#include "ext2fs/ext2_fs.h"
#include "ext2fs/ext2fs.h"
static errcode_t copy_file_chunk(ext2_filsys fs, int fd, ext2_file_t e2_file, off_t start, off_t end, char *buf, char *zerobuf);
#define main vf_real_main
#include "misc/create_inode.c"
#undef main
#include "env.c"
#include <errno.h>
#ifndef VF_REPLAY
char *gettext(const char *m) { return (char *) m; }
#endif

#ifndef BSZ
#define BSZ 4096	/* filesystem block size: one query per value */
#endif
#ifndef NSEG
#define NSEG 2		/* BOUND: at most 2 data segments */
#endif

struct vf_in {
	unsigned long long size, d[2], h[2];
	int chunk_err_at;	/* k: the k-th chunk copy fails (0 = never) */
	int lseek_unsupported;	/* SEEK_DATA answers EINVAL (file system without support) */
};
VF_DECLARE_INPUT(struct vf_in, IN)
#include "vf_input.inc"

static int vf_ncall, vf_bad, vf_filedummy;
static long long vf_start[4], vf_end[4];
static char vf_buf[8], vf_zero[8];

/* STUB: copy_file_chunk() (cut): records (start, end); the k-th call may fail */
static errcode_t copy_file_chunk(ext2_filsys fs, int fd, ext2_file_t e2_file, off_t start, off_t end, char *buf, char *zerobuf)
{
	if (fd != 3 || e2_file != (ext2_file_t) &vf_filedummy || buf != vf_buf || zerobuf != vf_zero || fs->blocksize != BSZ)
		vf_bad = 1;
	if (vf_ncall < 4) {
		vf_start[vf_ncall] = start;
		vf_end[vf_ncall] = end;
	}
	vf_ncall++;
	if (IN.chunk_err_at && vf_ncall == IN.chunk_err_at)
		return EXT2_ET_SHORT_WRITE;
	return 0;
}

/* STUB: lseek()/lseek64() with SEEK_DATA / SEEK_HOLE over the model segment list (lseek(2) semantics) */
static off_t stub_seek(int fd, off_t off, int whence)
{
	unsigned long long o = (unsigned long long) off;
	int k;
	if (fd != 3 || off < 0)
		vf_bad = 1;
	if (whence == SEEK_DATA) {
		if (IN.lseek_unsupported) {
			errno = EINVAL;
			return -1;
		}
		for (k = 0; k < NSEG; k++) {
			if (o < IN.d[k])
				return (off_t) IN.d[k];
			if (o < IN.h[k])
				return off;
		}
		errno = ENXIO;
		return -1;
	}
	if (whence == SEEK_HOLE) {
		if (o >= IN.size) {
			errno = ENXIO;
			return -1;
		}
		for (k = 0; k < NSEG; k++)
			if (o >= IN.d[k] && o < IN.h[k])
				return (off_t) IN.h[k];
		return off;		/* already in a hole */
	}
	vf_bad = 1;
	return -1;
}
off_t lseek(int fd, off_t off, int whence) { return stub_seek(fd, off, whence); }
off64_t lseek64(int fd, off64_t off, int whence) { return stub_seek(fd, off, whence); }

int main(void)
{
	static struct struct_ext2_filsys fs_s;
	static struct stat st;
	errcode_t ret;
	int k, expect_calls;

	VF_INPUT(IN);
	/* ASSUME: file size <= 2^40; segments non-empty, ordered, separated by holes, inside the file */
	ASSUME(IN.size <= (1ULL << 40));
#if NSEG >= 1
	ASSUME(IN.d[0] < IN.h[0] && IN.h[0] <= IN.size);
#endif
#if NSEG >= 2
	ASSUME(IN.h[0] < IN.d[1] && IN.d[1] < IN.h[1] && IN.h[1] <= IN.size);
#endif
	ASSUME(IN.chunk_err_at >= 0);
	fs_s.blocksize = BSZ;
	st.st_size = (off_t) IN.size;

	ret = try_lseek_copy(&fs_s, 3, &st, (ext2_file_t) &vf_filedummy, vf_buf, vf_zero);

	PROP(!vf_bad, "callee contracts (descriptor, handle, buffers, non-negative offsets)");
	if (IN.lseek_unsupported && IN.size > 0) {
		PROP(ret == EXT2_ET_UNIMPLEMENTED && vf_ncall == 0, "no SEEK_DATA support: reported as unimplemented (caller falls back), nothing copied");
	} else {
		expect_calls = IN.size > 0 ? NSEG : 0;
		if (IN.chunk_err_at && IN.chunk_err_at <= expect_calls) {
			PROP(ret == EXT2_ET_SHORT_WRITE && vf_ncall == IN.chunk_err_at, "a failing chunk copy stops the walk and is reported");
			expect_calls = IN.chunk_err_at;
		} else {
			PROP(ret == 0, "success");
			PROP(vf_ncall == expect_calls, "one chunk copy per data segment, none for holes");
		}
		for (k = 0; k < NSEG; k++)
			if (k < expect_calls && k < vf_ncall) {
				unsigned long long ws = IN.d[k] - IN.d[k] % BSZ;
				unsigned long long we = IN.h[k] + (BSZ - IN.h[k] % BSZ) % BSZ;
				PROP((unsigned long long) vf_start[k] == ws, "chunk start = segment start rounded down to a block boundary (64-bit)");
				PROP((unsigned long long) vf_end[k] == we, "chunk end = segment end rounded up to a block boundary (64-bit)");
			}
	}
	VF_END();
	return 0;
}
