/*
 * C18/populate_entry: the per-entry step of misc/create_inode.c:__populate_fs() -- hard-link
 * groups.  Real: __populate_fs (loop body, type switch, hard-link table handling), is_hardlink,
 * add_link, ext2_file_type.  The directory scan delivers ONE entry "f" whose lstat() result
 * (st_mode, st_nlink, st_dev, st_ino, st_rdev) is symbolic, then the end; the hard-link table holds
 * 0..2 symbolic (dev, ino) -> image inode records.
 *
 * Claim (a hard-link group of the source tree is one inode in the image, whatever its type):
 *   for an entry that is neither directory nor symlink and has st_nlink > 1:
 *     - (st_dev, st_ino) already recorded: the name is LINKED to the recorded image inode (directory
 *       entry type from that inode, its link count + 1) and nothing is created or re-stamped;
 *     - otherwise it is created and (st_dev, st_ino) -> new image inode is RECORDED at the end of the table;
 *   entries with st_nlink <= 1, directories and symlinks are created and leave the table alone;
 *   creation uses the creator of the entry's type (write / mknod with st_mode+st_rdev / symlink /
 *   mkdir + recursion), then looks the name up and stamps owner/mode/times/xattrs on that inode.
 */
#include "config.h"
#include <sys/types.h>
#include <sys/stat.h>
#include "ext2fs/ext2_fs.h"
#include "ext2fs/ext2fs.h"
#include "create_inode.h"
static errcode_t path_append(struct file_info *target, const char *file);
static errcode_t set_inode_xattr(ext2_filsys fs, ext2_ino_t ino, const char *filename);
#define main vf_real_main
#include "misc/create_inode.c"
#undef main
#include "env.c"
#include <errno.h>
#ifndef VF_REPLAY
char *gettext(const char *m) { return (char *) m; }
#endif

#define NTAB 2		/* BOUND: 0..2 records in the hard-link table (capacity HDLINK_CNT = 4: no realloc) */

struct vf_in {
	__u32 st_mode, st_nlink, st_rdev;
	unsigned long long st_dev, st_ino;
	unsigned int count;
	unsigned long long t_dev[NTAB], t_ino[NTAB];
	__u32 t_dst[NTAB];
	__u32 parent, root, new_ino;
	__u16 linked_mode, linked_links;	/* the recorded image inode, as read by add_link */
};
VF_DECLARE_INPUT(struct vf_in, IN)
#include "vf_input.inc"

enum { K_WRITE = 1, K_MKNOD, K_SYMLINK, K_MKDIR };
static int vf_bad, vf_scans, vf_created, vf_kind, vf_namei, vf_extra, vf_xattr, vf_links, vf_path;
static __u32 vf_link_ino, vf_extra_ino, vf_written_ino;
static int vf_link_type, vf_nwritten;
static __u16 vf_written_links;
static struct ext2_inode vf_linked;

/* STUB: chdir(): succeeds */
int chdir(const char *p) { (void) p; return 0; }
/* STUB: scandir(): first directory: the single entry "f"; the recursion into a created directory finds it empty */
int scandir(const char *dir, struct dirent ***namelist, int (*filter)(const struct dirent *),
	    int (*compar)(const struct dirent **, const struct dirent **))
{
	struct dirent **l = malloc(sizeof(*l));
	(void) dir; (void) filter; (void) compar;
	*namelist = l;
	if (vf_scans++ == 0) {
		struct dirent *d = calloc(1, sizeof(*d));
		d->d_name[0] = 'f';
		d->d_name[1] = 0;
		l[0] = d;
		return 1;
	}
	return 0;
}
/* STUB: lstat(): the symbolic stat of the entry */
static int stub_lstat(const char *n, struct stat *st)
{
	if (n[0] != 'f' || n[1] != 0)
		vf_bad = 1;
	memset(st, 0, sizeof(*st));
	st->st_mode = IN.st_mode;
	st->st_nlink = IN.st_nlink;
	st->st_dev = IN.st_dev;
	st->st_ino = IN.st_ino;
	st->st_rdev = IN.st_rdev;
	st->st_size = 1;
	return 0;
}
int lstat(const char *n, struct stat *st) { return stub_lstat(n, st); }
#ifndef VF_REPLAY
int __lxstat(int ver, const char *n, struct stat *st) { (void) ver; return stub_lstat(n, st); }
#endif
/* STUB: readlink(): a one-byte target */
ssize_t readlink(const char *p, char *b, size_t n) { (void) p; if (n < 1) vf_bad = 1; b[0] = 'x'; return 1; }

/* STUB: path_append() / set_inode_xattr() (cut): counted */
static errcode_t path_append(struct file_info *target, const char *file) { (void) target; (void) file; vf_path++; return 0; }
static errcode_t set_inode_xattr(ext2_filsys fs, ext2_ino_t ino, const char *filename)
{
	(void) fs; (void) filename;
	if (ino != IN.new_ino)
		vf_bad = 1;
	vf_xattr++;
	return 0;
}
/* STUB: the creators and set_inode_extra (cut; see harnesses mknod, inode_extra, copy_chunk): record kind and arguments */
errcode_t do_write_internal(ext2_filsys fs, ext2_ino_t cwd, const char *src, const char *dest, ext2_ino_t root)
{
	(void) fs;
	if (cwd != IN.parent || root != IN.root || src[0] != 'f' || dest[0] != 'f')
		vf_bad = 1;
	vf_created++; vf_kind = K_WRITE;
	return 0;
}
errcode_t do_mknod_internal(ext2_filsys fs, ext2_ino_t cwd, const char *name, unsigned int st_mode, unsigned int st_rdev)
{
	(void) fs;
	if (cwd != IN.parent || name[0] != 'f' || st_mode != IN.st_mode || st_rdev != IN.st_rdev)
		vf_bad = 1;
	vf_created++; vf_kind = K_MKNOD;
	return 0;
}
errcode_t do_symlink_internal(ext2_filsys fs, ext2_ino_t cwd, const char *name, char *target, ext2_ino_t root)
{
	(void) fs;
	if (cwd != IN.parent || root != IN.root || name[0] != 'f' || target[0] != 'x' || target[1] != 0)
		vf_bad = 1;
	vf_created++; vf_kind = K_SYMLINK;
	return 0;
}
errcode_t do_mkdir_internal(ext2_filsys fs, ext2_ino_t cwd, const char *name, ext2_ino_t root)
{
	(void) fs;
	if (cwd != IN.parent || root != IN.root || name[0] != 'f')
		vf_bad = 1;
	vf_created++; vf_kind = K_MKDIR;
	return 0;
}
errcode_t set_inode_extra(ext2_filsys fs, ext2_ino_t ino, const struct stat *st)
{
	(void) fs;
	if (st->st_mode != IN.st_mode || st->st_nlink != IN.st_nlink)
		vf_bad = 1;
	vf_extra++; vf_extra_ino = ino;
	return 0;
}
/* STUB: ext2fs_namei(): the name resolves to IN.new_ino */
errcode_t ext2fs_namei(ext2_filsys fs, ext2_ino_t root, ext2_ino_t cwd, const char *name, ext2_ino_t *inode)
{
	(void) fs;
	if (root != IN.root || cwd != IN.parent || name[0] != 'f')
		vf_bad = 1;
	vf_namei++;
	*inode = IN.new_ino;
	return 0;
}
/* STUB: inode read/write and ext2fs_link under add_link: the recorded image inode has symbolic mode and link count */
errcode_t ext2fs_read_inode(ext2_filsys fs, ext2_ino_t ino, struct ext2_inode *inode)
{
	(void) fs;
	vf_linked.i_mode = IN.linked_mode;
	vf_linked.i_links_count = IN.linked_links;
	*inode = vf_linked;
	vf_link_ino = ino;
	return 0;
}
errcode_t ext2fs_link(ext2_filsys fs, ext2_ino_t dir, const char *name, ext2_ino_t ino, int flags)
{
	(void) fs;
	if (dir != IN.parent || name[0] != 'f' || ino != vf_link_ino)
		vf_bad = 1;
	vf_links++;
	vf_link_type = flags;
	return 0;
}
errcode_t ext2fs_expand_dir(ext2_filsys fs, ext2_ino_t dir) { (void) fs; (void) dir; return 0; }
errcode_t ext2fs_write_inode(ext2_filsys fs, ext2_ino_t ino, struct ext2_inode *inode)
{
	(void) fs;
	vf_nwritten++;
	vf_written_ino = ino;
	vf_written_links = inode->i_links_count;
	return 0;
}

static int ref_ft(unsigned int mode)	/* dirent type code of a mode (format table) */
{
	switch ((mode >> 12) & 15) {
	case 001: return 5; case 002: return 3; case 004: return 2; case 006: return 4;
	case 010: return 1; case 012: return 7; case 014: return 6;
	}
	return 0;
}

int main(void)
{
	static struct struct_ext2_filsys fs_s;
	static struct hdlink_s tab[HDLINK_CNT];
	static struct hdlinks_s hd;
	static struct file_info target;
	static char path[16];
	errcode_t ret;
	unsigned int type, k;
	int found = -1, linkable, want_kind;

	VF_INPUT(IN);
	type = (IN.st_mode >> 12) & 15;
	/* ASSUME: the entry is of a type the walker handles (regular, directory, symlink, char/block device, fifo, socket) */
	ASSUME(type == 001 || type == 002 || type == 004 || type == 006 || type == 010 || type == 012 || type == 014);
	ASSUME(IN.count <= NTAB);
	/* ASSUME: the parent is not the root directory (the lost+found special case compares names only there) */
	ASSUME(IN.parent != EXT2_ROOT_INO);
	for (k = 0; k < NTAB; k++) {
		tab[k].src_dev = IN.t_dev[k];
		tab[k].src_ino = IN.t_ino[k];
		tab[k].dst_ino = IN.t_dst[k];
	}
	hd.count = IN.count;
	hd.size = HDLINK_CNT;
	hd.hdl = tab;
	target.path = path;
	target.path_max_len = sizeof(path);

	ret = __populate_fs(&fs_s, IN.parent, "src", IN.root, &hd, &target, NULL);

	PROP(ret == 0 && !vf_bad, "step succeeds; callee arguments as requested");
	for (k = 0; k < NTAB; k++)
		if (found < 0 && k < IN.count && IN.t_dev[k] == IN.st_dev && IN.t_ino[k] == IN.st_ino)
			found = k;
	linkable = type != 004 && type != 012 && IN.st_nlink > 1;
	want_kind = type == 010 ? K_WRITE : type == 004 ? K_MKDIR : type == 012 ? K_SYMLINK : K_MKNOD;

	if (linkable && found >= 0) {
		PROP(vf_created == 0 && vf_extra == 0 && vf_xattr == 0, "further name of a recorded hard-link group: nothing created or re-stamped");
		for (k = 0; k < NTAB; k++)
			if ((int) k == found)
				PROP(vf_links == 1 && vf_link_ino == IN.t_dst[k], "further name of a recorded hard-link group: linked to the recorded image inode");
		PROP(vf_link_type == ref_ft(IN.linked_mode), "link: directory entry type of the linked inode");
		PROP(vf_nwritten == 1 && vf_written_ino == vf_link_ino && vf_written_links == (__u16)(IN.linked_links + 1), "link: link count of the image inode + 1");
		PROP(hd.count == IN.count, "link: table unchanged");
	} else {
		PROP(vf_links == 0 && vf_nwritten == 0, "no link to an existing inode");
		PROP(vf_created == 1 && vf_kind == want_kind, "created once, by the creator of its type");
		PROP(vf_extra == 1 && vf_extra_ino == IN.new_ino && vf_xattr == 1, "owner/mode/times and xattrs stamped on the inode the name resolves to");
		if (linkable) {
			PROP(hd.count == IN.count + 1, "first name of a hard-link group (any non-directory, non-symlink type): recorded");
			for (k = 0; k < HDLINK_CNT; k++)
				if (k == IN.count)
					PROP(tab[k].src_dev == IN.st_dev && tab[k].src_ino == IN.st_ino && tab[k].dst_ino == IN.new_ino,
					     "recorded as (st_dev, st_ino) -> the new image inode");
		} else {
			PROP(hd.count == IN.count, "single-link entries, directories and symlinks leave the table alone");
		}
	}
	for (k = 0; k < NTAB; k++)
		if (k < IN.count)
			PROP(tab[k].src_dev == IN.t_dev[k] && tab[k].src_ino == IN.t_ino[k] && tab[k].dst_ino == IN.t_dst[k], "existing records untouched");
	VF_END();
	return 0;
}
