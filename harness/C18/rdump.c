/*
 * C18/rdump: extraction of symlinks and the type dispatch of rdump, debugfs/dump.c.
 *
 * KERNEL 1  rdump_symlink() with the real ext2fs_is_fast_symlink() / ext2fs_inode_has_valid_blocks2():
 *   a symbolic symlink inode of one of the storage classes of the format
 *     CLASS 1 fast:        i_size 1..59, target in i_block (NUL padded), no data block
 *     CLASS 2 slow:        i_size 60..NMAX, target in one data block (block mapped or extent mapped)
 *     CLASS 3 inline data: i_size 60..NMAX, EXT4_INLINE_DATA_FL, first 60 bytes in i_block, rest in the
 *                          system.data attribute
 *     CLASS 4 inline data, short: i_size 1..59, EXT4_INLINE_DATA_FL, everything in i_block (NUL padded)
 *   with or without an xattr block (i_file_acl, i_blocks accordingly).  ext2fs_file_open/read/close are
 *   model stubs that deliver the TRUE target of the inode (ext2fs_file_read is the library's reader for
 *   both block-mapped and inline data: C09), possibly in two pieces, or fail.
 *   Claim: symlink(2) is called once with the true target -- all i_size bytes, NUL terminated -- and the
 *   requested link name; the buffer is i_size + 1 bytes; if open or read fails no link is created.
 * KERNEL 3  rdump_dirent(): the directory-walk callback.  For a directory entry with a symbolic name of 1..4 non-NUL bytes:
 *   every entry other than exactly "." and exactly ".." is handed to rdump_inode() once, with the entry's inode number, the
 *   inode debugfs_read_inode() delivered, the dump root, and the entry's name_len bytes NUL-terminated (names that merely
 *   START with dots, "..data", "...", ".x", are ordinary entries); an unreadable inode is skipped; the walk always continues.
 *   ("." and ".." may be handed on as well: rdump_inode ignores them, KERNEL 2.)
 * KERNEL 2  rdump_inode(): the type dispatch, for every i_mode: symlink -> rdump_symlink, regular ->
 *   create/truncate + dump_file(preserve) + close, directory (not "." / "..") -> mkdir 0700, iterate with
 *   rdump_dirent, then fix_perms by name; device nodes, fifos, sockets: nothing is created.
 */
#include "config.h"
#include <sys/types.h>
#include "ext2fs/ext2_fs.h"
#include "ext2fs/ext2fs.h"
#ifndef KERNEL
#define KERNEL 1
#endif
#if KERNEL == 3
static void rdump_inode(ext2_ino_t ino, struct ext2_inode *inode, const char *name, const char *dumproot);
#endif
#if KERNEL == 2
static void rdump_symlink(ext2_ino_t ino, struct ext2_inode *inode, const char *fullname);
static void dump_file(const char *cmdname, ext2_ino_t ino, int fd, int preserve, char *outname);
static void fix_perms(const char *cmd, const struct ext2_inode *inode, int fd, const char *name);
#endif
#include "debugfs/dump.c"
#include "env.c"

ext2_filsys current_fs;
static int vf_bad;

#ifndef NMAX
#define NMAX 80		/* BOUND: targets of up to 80 bytes */
#endif
#ifndef CLASS
#define CLASS 1
#endif

struct vf_in {
	unsigned char raw[128];
	unsigned char target[NMAX];
	unsigned char heap[NMAX + 2];	/* what malloc'ed memory contains before it is written */
	unsigned int size;
	__u32 ino, acl;
	int extents;
	unsigned int part;		/* first read delivers this many bytes (0 = everything) */
	int open_err, read_err_at;	/* read_err_at: k-th read fails (0 = never) */
	int fd_kind;
	unsigned char dname[4];		/* KERNEL 3: directory entry name */
	unsigned int dlen, dtype;
	int inode_read_fails;
};
VF_DECLARE_INPUT(struct vf_in, IN)
#include "vf_input.inc"

static int vf_nsymlink, vf_nopen, vf_nread, vf_nclose;
static unsigned int vf_rpos;
static int vf_filedummy;
static const char *vf_fullname = "out/l";

#if KERNEL == 1
#ifndef VF_REPLAY
/* STUB: malloc()/free() (solver run only; the native replay uses libc's): one fixed buffer of NMAX + 2 bytes, the requested
 * size is recorded, the content is arbitrary (symbolic) -- an allocation of symbolic size costs > 9 GB here */
static char vf_heap[NMAX + 2];
static unsigned long vf_malloc_req;
static int vf_nmalloc, vf_nfree;
void *malloc(__CPROVER_size_t n)
{
	unsigned int i;
	for (i = 0; i < NMAX + 2; i++)
		vf_heap[i] = IN.heap[i];	/* uninitialised memory: arbitrary bytes */
	vf_nmalloc++;
	vf_malloc_req = n;
	return vf_heap;
}
void free(void *p) { if (p != vf_heap) vf_bad = 1; vf_nfree++; }
#endif
/* STUB: ext2fs_file_open/read/close(): the library's file reader, as a model delivering the inode's true target bytes */
errcode_t ext2fs_file_open(ext2_filsys fs, ext2_ino_t ino, int flags, ext2_file_t *ret)
{
	if (fs != current_fs || ino != IN.ino || flags != 0)
		vf_bad = 1;
	vf_nopen++;
	if (IN.open_err)
		return EXT2_ET_BAD_MAGIC;
	*ret = (ext2_file_t) &vf_filedummy;
	return 0;
}
errcode_t ext2fs_file_read(ext2_file_t file, void *buf, unsigned int wanted, unsigned int *got)
{
	unsigned char *b = buf;
	unsigned int n, k, p;
	if (file != (ext2_file_t) &vf_filedummy)
		vf_bad = 1;
	vf_nread++;
	if (IN.read_err_at && vf_nread == IN.read_err_at)
		return EXT2_ET_SHORT_READ;
	n = IN.size - vf_rpos;
	if (n > wanted)
		n = wanted;
#ifdef PARTIAL
	/* -DPARTIAL=k (k < 60 <= i_size): the first read delivers k bytes, the second the rest; k is compile-time so that
	 * the caller's advanced pointer and the stub's positions stay concrete */
	(void) p;
	if (vf_nread == 1) {
		n = PARTIAL;
		for (k = 0; k < PARTIAL; k++)
			b[k] = IN.target[k];
		vf_rpos = PARTIAL;
		*got = n;
		return 0;
	}
	if (vf_nread > 2)
		n = 0;
	for (k = 0; k + PARTIAL < NMAX; k++)
		if (k < n)
			b[k] = IN.target[k + PARTIAL];
#else
	/* everything that is left in one piece: the first call reads from position 0 into the start of the caller's buffer */
	(void) p;
	if (vf_rpos != 0)
		n = 0;
	for (k = 0; k < NMAX; k++)
		if (k < n)
			b[k] = IN.target[k];
#endif
	vf_rpos += n;
	*got = n;
	return 0;
}
errcode_t ext2fs_file_close(ext2_file_t file)
{
	if (file != (ext2_file_t) &vf_filedummy)
		vf_bad = 1;
	vf_nclose++;
	return 0;
}
/* STUB: symlink(2): checks its arguments against the true target */
int symlink(const char *target, const char *linkpath)
{
	unsigned int k;
	vf_nsymlink++;
	PROP(linkpath == vf_fullname, "symlink created under the requested name");
#ifndef VF_REPLAY
	PROP(vf_nmalloc == 1 && vf_malloc_req == (unsigned long) IN.size + 1 && target == vf_heap, "target buffer is the one allocation of i_size + 1 bytes");
#endif
	for (k = 0; k < NMAX; k++)
		if (k < IN.size)
			PROP((unsigned char) target[k] == IN.target[k], "string handed to symlink() equals the true target, byte for byte");
	for (k = 0; k <= NMAX; k++)
		if (k == IN.size)
			PROP(target[k] == 0, "string handed to symlink() ends after i_size bytes");
	return 0;
}
#elif KERNEL == 2
static int vf_nsym, vf_ndump, vf_nfix, vf_nmkdir, vf_ncreat, vf_ncl, vf_niter, vf_order;
static char *vf_full;
/* STUB: rdump_symlink()/dump_file()/fix_perms() (cut; harnesses rdump KERNEL 1, fix_perms; dump_file's read loop is outside): record calls */
static void rdump_symlink(ext2_ino_t ino, struct ext2_inode *inode, const char *fullname)
{
	(void) inode;
	if (ino != IN.ino)
		vf_bad = 1;
	vf_full = (char *) fullname;
	vf_nsym++;
}
static void dump_file(const char *cmdname, ext2_ino_t ino, int fd, int preserve, char *outname)
{
	(void) cmdname;
	if (ino != IN.ino || fd != 9 || preserve != 1 || outname != vf_full || vf_ncreat != 1 || vf_ncl != 0)
		vf_bad = 1;
	vf_ndump++;
}
static void fix_perms(const char *cmd, const struct ext2_inode *inode, int fd, const char *name)
{
	(void) cmd; (void) inode;
	if (fd != -1 || name != vf_full || vf_niter != 1)
		vf_bad = 1;		/* directory permissions restored by name, after the traversal */
	vf_nfix++;
}
/* STUB: open/close/mkdir/ext2fs_dir_iterate: record calls */
int open(const char *p, int flags, ...)
{
	if ((flags & (O_WRONLY | O_CREAT | O_TRUNC)) != (O_WRONLY | O_CREAT | O_TRUNC))
		vf_bad = 1;
	vf_full = (char *) p;
	vf_ncreat++;
	return 9;
}
int close(int fd) { if (fd != 9 || vf_ndump != 1) vf_bad = 1; vf_ncl++; return 0; }
int mkdir(const char *p, mode_t m) { if (m != 0700) vf_bad = 1; vf_full = (char *) p; vf_nmkdir++; return 0; }
errcode_t ext2fs_dir_iterate(ext2_filsys fs, ext2_ino_t dir, int flags, char *block_buf,
			     int (*func)(struct ext2_dir_entry *, int, int, char *, void *), void *priv)
{
	(void) block_buf;
	if (fs != current_fs || dir != IN.ino || flags != 0 || func != rdump_dirent)
		vf_bad = 1;
	if (vf_nmkdir)
		if (priv != vf_full) vf_bad = 1;	/* entries go below the directory just made */
	vf_full = priv;
	vf_niter++;
	return 0;
}
#ifndef VF_REPLAY
/* STUB: sprintf(): path text is not examined (pointers are): empty string */
int sprintf(char *s, const char *f, ...) { (void) f; s[0] = 0; return 0; }
#endif
#endif

#if KERNEL == 3
static int vf_ncall, vf_nreadino;
static char vf_gotname[8];
static const char *vf_root = "out/d";
/* STUB: debugfs_read_inode(): delivers a tagged inode for the entry's inode number, or fails */
int debugfs_read_inode(ext2_ino_t ino, struct ext2_inode *inode, const char *cmd)
{
	(void) cmd;
	if (ino != IN.ino)
		vf_bad = 1;
	vf_nreadino++;
	if (IN.inode_read_fails)
		return 1;
	memset(inode, 0, sizeof(*inode));
	inode->i_generation = 0x5eed0000u ^ ino;
	return 0;
}
/* STUB: rdump_inode() (cut; KERNEL 2): records the name it is given */
static void rdump_inode(ext2_ino_t ino, struct ext2_inode *inode, const char *name, const char *dumproot)
{
	unsigned int i;
	if (ino != IN.ino || inode->i_generation != (0x5eed0000u ^ ino) || dumproot != vf_root)
		vf_bad = 1;
	for (i = 0; i < 6; i++) {
		vf_gotname[i] = name[i];
		if (!name[i])
			break;
	}
	vf_ncall++;
}
#endif

int main(void)
{
	static struct struct_ext2_filsys fs_s;
	static struct ext2_super_block sb;
	static union { unsigned char b[128]; struct ext2_inode s; } ino;
	unsigned int i;

	VF_INPUT(IN);
	current_fs = &fs_s;
	fs_s.super = &sb;
	fs_s.blocksize = 1024;
	/* BOUND: main.*: 128 inode bytes, NMAX target bytes */
	for (i = 0; i < 128; i++)
		ino.b[i] = IN.raw[i];
#if KERNEL == 3
	{
		static struct ext2_dir_entry de;
		int ret, special;
		/* ASSUME: name of 1..4 bytes without NUL or '/', as the directory format requires */
		ASSUME(IN.dlen >= 1 && IN.dlen <= 4);
		for (i = 0; i < 4; i++)
			if (i < IN.dlen)
				ASSUME(IN.dname[i] != 0 && IN.dname[i] != '/');
		de.inode = IN.ino;
		de.rec_len = 12;
		de.name_len = IN.dlen | ((IN.dtype & 7) << 8);		/* low byte length, high byte file type */
		for (i = 0; i < 4; i++)
			de.name[i] = IN.dname[i];			/* bytes behind name_len belong to the next entry: arbitrary */
		ret = rdump_dirent(&de, 0, 1024, NULL, (void *) vf_root);
		PROP(ret == 0 && !vf_bad, "the walk continues; inode number, inode and dump root passed through");
		special = (IN.dlen == 1 && IN.dname[0] == '.') || (IN.dlen == 2 && IN.dname[0] == '.' && IN.dname[1] == '.');
		if (!special && !IN.inode_read_fails) {
			PROP(vf_ncall == 1, "every entry other than \".\" and \"..\" is handed to rdump_inode once (names that only start with dots too)");
			for (i = 0; i < 5; i++) {
				if (i < IN.dlen)
					PROP((unsigned char) vf_gotname[i] == IN.dname[i], "the name handed on is the entry's name_len bytes");
				if (i == IN.dlen)
					PROP(vf_gotname[i] == 0, "the name handed on is NUL-terminated after name_len bytes");
			}
		}
		if (IN.inode_read_fails)
			PROP(vf_ncall == 0, "an entry whose inode cannot be read is skipped");
	}
#elif KERNEL == 1
	{
		unsigned int nacl = IN.acl ? 2 : 0;	/* an xattr block is 2 sectors of 512 bytes */
#ifdef SIZE
		IN.size = SIZE;		/* one query per length: concrete allocation size and branch */
#endif
#if CLASS == 1 || CLASS == 4
		ASSUME(IN.size >= 1 && IN.size < 60);
#else
		ASSUME(IN.size >= 60 && IN.size <= NMAX);
#endif
		/* ASSUME: the target has no NUL byte (it is a path) */
		for (i = 0; i < NMAX; i++)
			if (i < IN.size)
				ASSUME(IN.target[i] != 0);
		ino.s.i_mode = LINUX_S_IFLNK | 0777;
		ino.s.i_size = IN.size;
		ino.s.i_size_high = 0;
		ino.s.i_file_acl = IN.acl;
		ino.s.osd2.linux2.l_i_file_acl_high = 0;
		ino.s.osd2.linux2.l_i_blocks_hi = 0;
#if CLASS == 2
		/* slow: one data block; i_block is a block map or an extent tree (symbolic, never read by rdump) */
		ino.s.i_flags = IN.extents ? EXT4_EXTENTS_FL : 0;
		ino.s.i_blocks = 2 + nacl;
		ASSUME(ino.s.i_block[0] != 0);
#else
		/* target (its first 60 bytes) in i_block, NUL padded as every writer leaves it */
		ino.s.i_flags = (CLASS == 1) ? 0 : EXT4_INLINE_DATA_FL;
		ino.s.i_blocks = nacl;
		for (i = 0; i < 60; i++)
			((unsigned char *) ino.s.i_block)[i] = (i < IN.size && i < NMAX) ? IN.target[i] : 0;
#endif
		ASSUME(IN.read_err_at >= 0);
#ifndef FAULTS
		/* ASSUME: without -DFAULTS open and read succeed */
		IN.open_err = 0;
		IN.read_err_at = 0;
#endif
		rdump_symlink(IN.ino, &ino.s, vf_fullname);

		PROP(!vf_bad, "file handle / inode number / filesystem passed through");
		if ((IN.open_err && vf_nopen) || (IN.read_err_at && vf_nread >= IN.read_err_at))
			PROP(vf_nsymlink == 0, "open or read failed: no link is created");
		else
			PROP(vf_nsymlink == 1, "exactly one link is created");
#ifndef VF_REPLAY
		PROP(vf_nmalloc == 1 && vf_nfree == 1, "the buffer is freed");
#endif
		PROP(vf_nopen == vf_nclose || IN.open_err || (IN.read_err_at && vf_nread >= IN.read_err_at), "an opened file is closed");
	}
#else
	{
		unsigned int type = (ino.s.i_mode >> 12) & 15;
#ifndef NAMEKIND
#define NAMEKIND 0
#endif
		const char *name = NAMEKIND == 0 ? "f" : NAMEKIND == 1 ? "." : NAMEKIND == 2 ? ".." : "";
		rdump_inode(IN.ino, &ino.s, name, "out");
		PROP(!vf_bad, "arguments and order of the host calls");
		if (type == 012)
			PROP(vf_nsym == 1 && vf_ncreat + vf_nmkdir + vf_ndump + vf_niter + vf_nfix == 0, "symlink: rdump_symlink only");
		else if (type == 010)
			PROP(vf_ncreat == 1 && vf_ndump == 1 && vf_ncl == 1 && vf_nsym + vf_nmkdir + vf_niter + vf_nfix == 0,
			     "regular file: created, dumped with permissions preserved, closed");
		else if (type == 004 && NAMEKIND != 1 && NAMEKIND != 2)
			PROP(vf_nmkdir == (NAMEKIND == 3 ? 0 : 1) && vf_niter == 1 && vf_nfix == 1 && vf_nsym + vf_ncreat + vf_ndump == 0,
			     "directory: made (unless it is the dump root itself), traversed once, permissions fixed afterwards");
		else
			PROP(vf_nsym + vf_ncreat + vf_nmkdir + vf_ndump + vf_niter + vf_nfix == 0,
			     "device nodes, fifos, sockets, unknown types, '.' and '..': nothing is created on the host");
	}
#endif
	VF_END();
	return 0;
}
