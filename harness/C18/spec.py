META = {
    "assumptions": [
        "allocation failure out of scope (--no-malloc-may-fail)",
        "library callees of the transfer kernels are specification stubs that record their arguments: ext2fs_read_inode/"
        "ext2fs_write_inode/ext2fs_write_new_inode (inode I/O is C14/C17's subject), ext2fs_new_inode, ext2fs_link, "
        "ext2fs_expand_dir, ext2fs_inode_alloc_stats2, ext2fs_file_llseek/ext2fs_file_write (C09's subject), "
        "fchmod/chmod/fchown/chown/utime, pread64, time, gettext, com_err",
        "pread64 returns min(count, size - offset) bytes (no short read in the middle of a regular file): copy_file_chunk "
        "silently skips the rest of a 64 KiB round after a short read",
        "lseek_copy: lseek(SEEK_DATA/SEEK_HOLE) answers as lseek(2) documents from a list of <= 2 data segments; copy_file_chunk cut "
        "(harness copy_chunk). populate_entry: scandir delivers one entry, lstat its symbolic stat; creators, set_inode_extra, "
        "set_inode_xattr, path_append cut to recording stubs (harnesses mknod, inode_extra, copy_chunk cover the first three)",
        "rdump_symlink: symlink inodes well-formed for their storage class (fast / slow / inline data), i_size_high 0, target without NUL; "
        "ext2fs_file_open/read/close deliver the true target (one piece, or split at a compile-time position); malloc is a fixed "
        "82-byte buffer with arbitrary content in the solver run (symbolic-size allocation needs > 9 GB), libc's in the replay",
        "xattrcopy: llistxattr/lgetxattr are models over 3 attributes user.a..user.c (sizes 0..4); ext2fs_xattrs_open/read/close and "
        "ext2fs_xattr_set are recording stubs; malloc(0) returns a valid pointer. rdump_dirent: debugfs_read_inode and rdump_inode are stubs",
        "host S_IF*/S_I* constants equal the LINUX_S_* values (asserted in file_type for this host), little-endian host",
        "copy_file_chunk: block size 4 bytes, host file <= 12 bytes (fs->blocksize is a run-time field; COPY_FILE_BUFLEN "
        "stays 65536, reached through the read count only)",
    ],
    "outside": [
        "tree walking beyond one entry (__populate_fs over real scandir order, depth, recursion into non-empty directories), path "
        "handling (path_append cut), the /lost+found special case, libarchive input; hard-link tables beyond 2 records / growth by realloc",
        "extended attribute transfer beyond 3 attributes / 4 value bytes, the image-side xattr store (ext2fs_xattr_set etc.: C15), "
        "the libarchive path's own xattr copy", "symlink targets (do_symlink_internal -> ext2fs_symlink), mkdir",
        "try_fiemap_copy (FIEMAP enumeration), more than 2 data segments in try_lseek_copy, copy_file's fallback order, the i_size set "
        "by do_write_internal; inline-data files",
        "the real ext2fs_file_write / block allocation behind the copy (C09), directory entries (C10)",
        "rdump_dirent for names longer than 4 bytes and the recursion over real directories (ext2fs_dir_iterate), dump_file's read/write loop, do_rdump/do_dump "
        "argument handling; symlink targets longer than 80 bytes; ext2fs_file_read itself (inline-data and block-mapped reading: C09)",
        "consistency (e2fsck clean) and byte-for-byte reproducibility of the produced image",
        "nanoseconds (never transferred by set_inode_extra: always zero) and i_crtime of populated files",
    ],
}
MU = ["main.%d:161" % i for i in range(8)]


def xt():
    """SET (MODE 1) is decided on the wide range; GET (MODE 2 large inode, MODE 3 128-byte inode) only on the
    property's own range 1970..2038: outside it ext2fs_inode_xtime_get reads the low word unsigned where the
    kernel reads it signed (dates < 1970 and in 2038..2106 differ) -- an observation recorded in DESIGN.md,
    not part of C18's statement, so not asserted."""
    c = []
    for f in (3, 1, 2, 4):
        c.append({"MODE": 1, "FIELD": f, "RANGE": 2})
        c.append({"MODE": 2, "FIELD": f, "RANGE": 1})
    c.append({"MODE": 1, "FIELD": 3, "RANGE": 1})
    for f in (3, 1, 2):
        c.append({"MODE": 3, "FIELD": f, "RANGE": 1})
    return c


CC_UW = ["main.%d:14" % i for i in range(8)] + ["pread64.0:13", "pread64.1:13", "ext2fs_file_write.0:13",
                                                "ext2fs_file_write.1:13"]
HARNESSES = [
    dict(name="inode_extra", src="inode_extra.c", funcs=["set_inode_extra", "clamped_time"],
         configs=[{"IN_RANGE": None}, {}], unwind=4, unwindset=["main.%d:129" % i for i in range(8)],
         backends=["default", "kissat"],
         bound="every st_mode/st_uid/st_gid (32 bit), every 128-byte pre-existing inode, every flags2/fs->now, read/write "
               "error codes symbolic; times: [0, 2^31) (IN_RANGE) and every 64-bit value"),
    dict(name="file_type", src="mknod.c", funcs=["ext2_file_type"], configs=[{"KERNEL": 1}], unwind=4,
         backends=["default", "kissat"], bound="all 2^32 mode values"),
    dict(name="mknod", src="mknod.c", funcs=["do_mknod_internal"],
         configs=[{"KERNEL": 2}], unwind=4, unwindset=["main.%d:16" % i for i in range(8)],
         backends=["default", "kissat"],
         bound="all 2^32 st_mode and st_rdev values (major 12 bit, minor 20 bit), parent/inode numbers symbolic, directory "
               "full on the first link attempt or not, fs->now in [0, 2^31)"),
    dict(name="copy_chunk", src="copy_chunk.c", funcs=["copy_file_chunk"],
         configs=[{"START": 0}, {"START": 4}, {"START": 1}, {"START": 0, "FAULTS": 1}, {"START": 0, "FAULTS": 2},
                  {"START": 0, "FAULTS": 3}, {"START": 0, "FAULTS": 4}, {"START": 0, "PARTIAL": None}],
         unwind=6, unwindset=CC_UW, backends=["default", "kissat"],
         bound="block size 4, host file of 0..12 bytes with symbolic content, chunk start 0 / 4 / 1 (unaligned), any end < "
               "start + 128 KiB (two buffer rounds), one fault class per query at a symbolic call number, partial writes of "
               "1..4 bytes"),
    dict(name="lseek_copy", src="lseek_copy.c", funcs=["try_lseek_copy"],
         cut_statics={"misc/create_inode.c": ["copy_file_chunk"]},
         configs=[{"BSZ": 4096, "NSEG": 2}, {"BSZ": 1024, "NSEG": 2}, {"BSZ": 65536, "NSEG": 1}, {"BSZ": 4096, "NSEG": 0}],
         unwind=5, unwindset=["stub_seek.0:3", "stub_seek.1:3", "main.0:3"], backends=["default", "kissat", "z3"],
         bound="host file of up to 2^40 bytes, 0..2 data segments at any 64-bit offsets, block size 1k/4k/64k, k-th chunk copy "
               "may fail, SEEK_DATA supported or not"),
    dict(name="populate_entry", src="populate_entry.c", funcs=["__populate_fs", "is_hardlink", "add_link", "ext2_file_type"],
         cut_statics={"misc/create_inode.c": ["path_append", "set_inode_xattr", "set_inode_extra", "do_write_internal",
                                              "do_mknod_internal", "do_symlink_internal", "do_mkdir_internal"]},
         unwind=4, unwindset=["main.%d:6" % i for i in range(8)] + ["is_hardlink.0:4", "__populate_fs.0:3", "__populate_fs.1:3"],
         backends=["default", "kissat"],
         bound="one directory entry with symbolic st_mode (7 handled types) / st_nlink / st_dev / st_ino / st_rdev; hard-link "
               "table of 0..2 symbolic records; parent, root and inode numbers symbolic"),
    dict(name="rdump_symlink", src="rdump.c",
         funcs=["rdump_symlink", "ext2fs_is_fast_symlink"],
         extra_src=["lib/ext2fs/symlink.c", "lib/ext2fs/valid_blk.c", "lib/ext2fs/blknum.c"],
         configs=[{"KERNEL": 1, "CLASS": c} for c in (1, 2, 3, 4)] + [{"KERNEL": 1, "CLASS": 2, "FAULTS": None}, {"KERNEL": 1, "CLASS": 3, "FAULTS": None},
                  {"KERNEL": 1, "CLASS": 2, "PARTIAL": 7}, {"KERNEL": 1, "CLASS": 3, "PARTIAL": 59}],
         unwind=4, unwindset=["main.%d:129" % i for i in range(8)] + ["strcpy.0:130", "malloc.0:84", "symlink.0:82", "symlink.1:83",
                                                                       "ext2fs_file_read.0:81", "ext2fs_file_read.1:81", "rdump_symlink.0:4"],
         backends=["default", "kissat"],
         bound="symlink inode: all 128 bytes symbolic under the class's well-formedness (fast / slow / inline data / short inline), "
               "target of 1..59 resp. 60..80 non-NUL bytes, with or without xattr block, extent or block mapped; reads in one or "
               "two pieces; FAULTS: open fails / k-th read fails"),
    dict(name="rdump_inode", src="rdump.c", funcs=["rdump_inode"],
         cut_statics={"debugfs/dump.c": ["rdump_symlink", "dump_file", "fix_perms"]},
         configs=[{"KERNEL": 2, "NAMEKIND": k} for k in (0, 1, 2, 3)],
         unwind=4, unwindset=["main.%d:129" % i for i in range(8)] + ["strcmp.0:4", "strlen.0:5"],
         backends=["default", "kissat"], bound="every 128-byte inode (all 2^16 i_mode values); entry name 'f', '.', '..' or '' (the dump root)"),
    dict(name="xattrcopy", src="xattrcopy.c", funcs=["set_inode_xattr"],
         unwind=6, unwindset=["main.%d:6" % i for i in range(8)] + ["strlen.0:9", "lgetxattr.0:5", "lgetxattr.1:6", "ext2fs_xattr_set.0:5",
                                                                   "ext2fs_xattr_set.1:6", "llistxattr.0:5", "set_inode_xattr.0:5"],
         backends=["default", "kissat"],
         bound="3 host attributes user.a..user.c, value sizes 0..4 and bytes symbolic, lgetxattr may fail for one attribute in the "
               "size query or the data read, llistxattr normal / ENOTSUP / empty"),
    dict(name="rdump_dirent", src="rdump.c", funcs=["rdump_dirent"],
         cut_statics={"debugfs/dump.c": ["rdump_inode"]}, configs=[{"KERNEL": 3}],
         unwind=4, unwindset=["main.%d:129" % i for i in range(8)] + ["strncpy.0:6", "rdump_inode.0:7", "memset.0:129"],
         backends=["default", "kissat"], bound="directory entry name of 1..4 symbolic non-NUL bytes, any file type code, inode readable or not"),
    dict(name="clamptime", src="clamptime.c", funcs=["clamped_time"], unwind=4, backends=["default", "kissat"],
         bound="every 64-bit t and fs->now, every flags2"),
    dict(name="fix_perms", src="fix_perms.c", funcs=["fix_perms", "mode_xlate"],
         unwind=4, unwindset=["main.0:129", "main.1:129", "main.2:129", "mode_xlate.0:11"],
         backends=["default", "kissat"], bound="every 128-byte inode, descriptor open or not"),
    dict(name="xtime", src="xtime.c", funcs=["__encode_extra_time"],
         configs=xt(), unwind=4, unwindset=MU, backends=["default", "kissat"],
         bound="every second in [0, 2^31) (RANGE 1) / [-2^31, 2^34 - 2^31) (RANGE 2), every 160-byte inode image including "
               "i_extra_isize; fields atime/ctime/mtime/crtime"),
]
MANIFEST = {
    "text": "Differential kernels of the populate/extract path, each decided for all inputs within its bound: the stat -> "
            "inode transfer of set_inode_extra (owner, group, 12 mode bits, three times, nothing else touched), the type "
            "table, device-number encoding of do_mknod_internal read back the kernel's way, hole detection and byte "
            "placement of copy_file_chunk against a model file, the inode -> host transfer of fix_perms, and the "
            "timestamp macros against the kernel's 34-bit encoding. The data-segment walk of try_lseek_copy (64-bit offsets, outward block rounding) "
            "and the per-entry hard-link step of __populate_fs are decided for one entry / two segments. Whole-tree walking, xattrs, "
            "symlink targets, FIEMAP, rdump recursion and image reproducibility are outside.",
    "note": "Trusted: CBMC's C semantics, the recording stubs for library and libc callees, the harness's restatement of "
            "the on-disk inode layout and of the kernel's timestamp/device decoding. The 28-bit mask of ext2fs_inode_xtime_set found by the xtime "
            "queries is repaired (fix 4ac44571). fix_perms needs the generated lib/ss/ss_err.h (setup.sh provides it).",
}
