META = {"assumptions": [], "outside": []}
MU = ["main.%d:161" % i for i in range(8)]
def xt():
    c = []
    for m in (1, 2):
        for r in (1, 2):
            c.append({"MODE": m, "FIELD": 3, "RANGE": r})
    for r in (1, 2):
        c.append({"MODE": 3, "FIELD": 3, "RANGE": r})
    return c
HARNESSES = [
    dict(name="inode_extra", src="inode_extra.c", funcs=["set_inode_extra", "clamped_time"],
         configs=[{"IN_RANGE": None}, {}], unwind=4, unwindset=["main.%d:129" % i for i in range(8)],
         backends=["default", "kissat"], bound="x"),
    dict(name="file_type", src="mknod.c", funcs=["ext2_file_type"], configs=[{"KERNEL": 1}], unwind=4,
         backends=["default", "kissat"], bound="x"),
    dict(name="mknod", src="mknod.c", funcs=["do_mknod_internal"],
         configs=[{"KERNEL": 2}], unwind=4, unwindset=["main.%d:16" % i for i in range(8)],
         backends=["default", "kissat"], bound="x"),
    dict(name="copy_chunk", src="copy_chunk.c", funcs=["copy_file_chunk"],
         configs=[{"START": 0}, {"START": 4}, {"START": 1}, {"START": 0, "FAULTS": 1}, {"START": 0, "FAULTS": 2}, {"START": 0, "FAULTS": 3}, {"START": 0, "FAULTS": 4}, {"START": 0, "PARTIAL": None}], unwind=6, unwindset=["main.%d:14" % i for i in range(8)] + ["pread64.0:13", "pread64.1:13", "ext2fs_file_write.0:13", "ext2fs_file_write.1:13"],
         backends=["default", "kissat"], bound="x"),
    dict(name="fix_perms", src="fix_perms.c", funcs=["fix_perms", "mode_xlate"],
         unwind=4, unwindset=["main.0:129", "main.1:129", "main.2:129", "mode_xlate.0:11"],
         backends=["default", "kissat"], bound="x"),
    dict(name="xtime", src="xtime.c", funcs=["__encode_extra_time"],
         configs=xt(), unwind=4, unwindset=MU,
         backends=["default", "kissat"], bound="x"),
]
MANIFEST = {"text": "x", "note": "x"}
