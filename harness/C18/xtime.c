/*
 * C18/xtime: the timestamp transfer kernel of populate/extract.
 * ext2fs_inode_xtime_set() / ext2fs_inode_xtime_get() (lib/ext2fs/ext2fs.h; the
 * macros every in-tree writer of i_atime/i_ctime/i_mtime uses, among them
 * misc/create_inode.c:set_inode_extra) against the on-disk format as the kernel
 * documents and reads it (Documentation/filesystems/ext4/inodes.rst, "Inode
 * timestamps"; fs/ext4/ext4.h ext4_decode_extra_time):
 *
 *   - the 32-bit field holds the low 32 bits of the seconds, read SIGNED;
 *   - if the inode is large enough to hold <field>_extra (i_extra_isize), the low
 *     two bits of <field>_extra are an epoch counter: seconds =
 *     (s32)field + (epoch << 32); the upper 30 bits are nanoseconds;
 *   - a 128-byte inode (or one whose i_extra_isize ends before the extra field) has
 *     no epoch bits: only [-2^31, 2^31) is representable, the writer saturates.
 *
 * MODE 1  SET on a struct ext2_inode_large (i_extra_isize symbolic)
 * MODE 2  GET on a struct ext2_inode_large (all bytes symbolic)
 * MODE 3  SET then GET on a struct ext2_inode (128 bytes: what set_inode_extra,
 *         do_write_internal, do_mknod_internal and the library's inode creators use)
 *   (SET then GET on a large inode is the composition of MODE 1 and MODE 2: MODE 1 asserts that
 *    the kernel's decoding of what SET stored is the input, MODE 2 that GET is that decoding)
 * FIELD   1 atime, 2 ctime, 3 mtime, 4 crtime (large only)
 * RANGE   1: seconds in [0, 2^31)  (the range C18 speaks about: 1970..2038)
 *         2: seconds in [-2^31, 2^34 - 2^31)  (everything the format can hold)
 */
#include "config.h"
#include <string.h>
#include <stdint.h>
#include "ext2fs/ext2_fs.h"
#include "ext2fs/ext2fs.h"

#ifndef MODE
#define MODE 1
#endif
#ifndef FIELD
#define FIELD 3
#endif
#ifndef RANGE
#define RANGE 1
#endif

#if FIELD == 1
#define F i_atime
#define FX i_atime_extra
#elif FIELD == 2
#define F i_ctime
#define FX i_ctime_extra
#elif FIELD == 3
#define F i_mtime
#define FX i_mtime_extra
#else
#define F i_crtime
#define FX i_crtime_extra
#endif

/* one level of indirection so that F is expanded before the real macros paste field ## _extra */
#define VF_XSET(p, f, s) ext2fs_inode_xtime_set(p, f, s)
#define VF_XGET(p, f) ext2fs_inode_xtime_get(p, f)

struct vf_in {
	long long sec;
	unsigned char raw[sizeof(struct ext2_inode_large)];
};
VF_DECLARE_INPUT(struct vf_in, IN)
#include "vf_input.inc"

/* the inode under test; unsigned char backing store, see guide (memcpy into non-char arrays) */
static union {
	unsigned char b[sizeof(struct ext2_inode_large)];
	struct ext2_inode_large l;
	struct ext2_inode s;
} vf_ino, vf_pre;

/* independent reader: the kernel's decoding of (field, extra) */
static long long ref_decode(__u32 lo, __u32 extra, int has_extra)
{
	long long s = (long long)(int32_t) lo;		/* signed low word */
	if (has_extra)
		s += (long long)(extra & 3) << 32;	/* two epoch bits */
	return s;
}

/* does an inode with this i_extra_isize contain the 4-byte field at offset off? (kernel: EXT4_FITS_IN_INODE) */
static int ref_fits(unsigned int extra_isize, unsigned int off)
{
	return off + 4 <= 128 + extra_isize;
}

int main(void)
{
	long long sec, back;
	unsigned int i, off_lo, off_x;
	int fits;

	VF_INPUT(IN);
	sec = IN.sec;
#if RANGE == 1
	/* ASSUME: RANGE 1: 0 <= seconds < 2^31 (1970-01-01 .. 2038-01-19), the range of property C18 */
	ASSUME(sec >= 0 && sec < 2147483648LL);
#else
	/* ASSUME: RANGE 2: -2^31 <= seconds < 2^34 - 2^31, everything the 34-bit format can hold */
	ASSUME(sec >= -2147483648LL && sec < 17179869184LL - 2147483648LL);
#endif
	/* BOUND: main.0/main.1 copy and compare the 160 bytes of struct ext2_inode_large */
	for (i = 0; i < sizeof(vf_ino.b); i++)
		vf_ino.b[i] = vf_pre.b[i] = IN.raw[i];

	off_lo = (unsigned int) offsetof(struct ext2_inode_large, F);
	off_x = (unsigned int) offsetof(struct ext2_inode_large, FX);

#if MODE == 1
	/* SET, large: the bytes on disk are the kernel's encoding of sec */
	fits = ref_fits(vf_pre.l.i_extra_isize, off_x);
#if FIELD == 4
	/* ASSUME: FIELD 4: i_crtime itself lies inside the inode (i_extra_isize covers it); callers test this first */
	ASSUME(ref_fits(vf_pre.l.i_extra_isize, off_lo));
#endif
	VF_XSET(&vf_ino.l, F, (time_t) sec);
	if (fits) {
		PROP(vf_ino.l.F == (__u32)(unsigned long long) sec, "set(large): field holds the low 32 bits of the seconds");
		PROP(ref_decode(vf_ino.l.F, vf_ino.l.FX, 1) == sec, "set(large): kernel decoding of (field, extra) gives the seconds back");
		PROP((vf_ino.l.FX >> 2) == 0, "set(large): nanoseconds are zero");
	} else {
		long long want = sec < -2147483648LL ? -2147483648LL : sec > 2147483647LL ? 2147483647LL : sec;
		PROP(ref_decode(vf_ino.l.F, 0, 0) == want, "set(large, extra field outside i_extra_isize): saturated to 32 bits");
		PROP(vf_ino.l.FX == vf_pre.l.FX, "set(large, extra field outside i_extra_isize): extra bytes untouched");
	}
	for (i = 0; i < sizeof(vf_ino.b); i++)
		if (!(i >= off_lo && i < off_lo + 4) && !(i >= off_x && i < off_x + 4))
			PROP(vf_ino.b[i] == vf_pre.b[i], "set(large): no other inode byte changes");
#elif MODE == 2
	/* GET, large: equals the kernel's decoding for every bit pattern */
	(void) sec;
	fits = ref_fits(vf_pre.l.i_extra_isize, off_x);
#if RANGE == 1
	/* ASSUME: MODE 2 RANGE 1: the stored pattern decodes (kernel reading) to a time in [0, 2^31) */
	ASSUME(ref_decode(vf_pre.l.F, vf_pre.l.FX, fits) >= 0 && ref_decode(vf_pre.l.F, vf_pre.l.FX, fits) < 2147483648LL);
#endif
	back = (long long) VF_XGET(&vf_ino.l, F);
	PROP(back == ref_decode(vf_pre.l.F, vf_pre.l.FX, fits), "get(large): equals the kernel's decoding of (field, extra)");
#elif MODE == 3
	/* SET then GET, 128-byte struct (no epoch bits: saturating) */
	{
		long long want = sec < -2147483648LL ? -2147483648LL : sec > 2147483647LL ? 2147483647LL : sec;
		VF_XSET(&vf_ino.s, F, (time_t) sec);
		PROP(ref_decode(vf_ino.s.F, 0, 0) == want, "set(128-byte inode): field is the seconds saturated to signed 32 bits");
		back = (long long) VF_XGET(&vf_ino.s, F);
		PROP(back == want, "set+get(128-byte inode): the (saturated) seconds come back");
		for (i = 0; i < sizeof(vf_ino.b); i++)
			if (!(i >= off_lo && i < off_lo + 4))
				PROP(vf_ino.b[i] == vf_pre.b[i], "set(128-byte inode): no other byte changes (nothing beyond byte 128 either)");
	}
#endif
	VF_END();
	return 0;
}
