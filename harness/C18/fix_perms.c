/*
 * C18/fix_perms: debugfs/dump.c:fix_perms() + mode_xlate() -- what `dump -p` and `rdump`
 * restore on the extracted file, for EVERY inode: the nine read/write/execute permission bits and
 * the 32-bit owner and group (low half | high half << 16), applied to the file that was extracted
 * (by descriptor when one is open, else by name), and the 32-bit access/modification times.
 * Reference: the on-disk inode layout (i_mode bytes 0..1, i_uid 2..3, i_gid 24..25,
 * l_i_uid_high 120..121, l_i_gid_high 122..123, i_atime 8, i_mtime 16).
 */
#include "debugfs/dump.c"
#include "env.c"

struct vf_in {
	unsigned char raw[128];
	int fd;
};
VF_DECLARE_INPUT(struct vf_in, IN)
#include "vf_input.inc"

static const char *vf_name = "out";
static int vf_nchmod, vf_nchown, vf_nutime, vf_bad;
static unsigned int vf_mode, vf_uid, vf_gid;
static long long vf_at, vf_mt;

/* STUB: fchmod/chmod/fchown/chown/utime: record their arguments, succeed */
int fchmod(int fd, mode_t mode) { if (fd != IN.fd || fd == -1) vf_bad = 1; vf_nchmod++; vf_mode = mode; return 0; }
int chmod(const char *n, mode_t mode) { if (n != vf_name || IN.fd != -1) vf_bad = 1; vf_nchmod++; vf_mode = mode; return 0; }
int fchown(int fd, uid_t u, gid_t g) { if (fd != IN.fd || fd == -1) vf_bad = 1; vf_nchown++; vf_uid = u; vf_gid = g; return 0; }
int chown(const char *n, uid_t u, gid_t g) { if (n != vf_name || IN.fd != -1) vf_bad = 1; vf_nchown++; vf_uid = u; vf_gid = g; return 0; }
int utime(const char *n, const struct utimbuf *t) { if (n != vf_name) vf_bad = 1; vf_nutime++; vf_at = t->actime; vf_mt = t->modtime; return 0; }

static unsigned int ref_le16(const unsigned char *p) { return p[0] | (p[1] << 8); }
static unsigned int ref_le32(const unsigned char *p) { return ref_le16(p) | (ref_le16(p + 2) << 16); }

int main(void)
{
	static union { unsigned char b[128]; struct ext2_inode s; } ino;
	unsigned int i;

	VF_INPUT(IN);
	/* BOUND: main.0: 128 inode bytes */
	for (i = 0; i < 128; i++)
		ino.b[i] = IN.raw[i];

	fix_perms("rdump", &ino.s, IN.fd, vf_name);

	PROP(!vf_bad, "applied to the extracted file: by descriptor if open, else by name");
	PROP(vf_nchmod == 1 && vf_nchown == 1 && vf_nutime == 1, "one chmod, one chown, one utime");
	PROP(vf_mode == (ref_le16(IN.raw) & 0777), "the nine rwx permission bits of i_mode (host S_I* == LINUX_S_I*), nothing else");
	PROP(vf_uid == (ref_le16(IN.raw + 2) | (ref_le16(IN.raw + 120) << 16)), "owner: i_uid | l_i_uid_high << 16");
	PROP(vf_gid == (ref_le16(IN.raw + 24) | (ref_le16(IN.raw + 122) << 16)), "group: i_gid | l_i_gid_high << 16");
	/* ASSUME: times checked for 1970..2038 only (high bit of i_atime/i_mtime clear); extraction times are not part of C18's claim */
	if (!(IN.raw[11] & 0x80) && !(IN.raw[19] & 0x80))
		PROP(vf_at == (long long) ref_le32(IN.raw + 8) && vf_mt == (long long) ref_le32(IN.raw + 16), "times 1970..2038 restored");
	VF_END();
	return 0;
}
