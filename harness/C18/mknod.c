/*
 * C18/mknod: misc/create_inode.c:do_mknod_internal() and ext2_file_type().
 *
 * KERNEL 1: ext2_file_type(mode) for all 2^32 modes == the directory entry file type code
 *           that the format assigns to the mode's type nibble
 *           (Documentation/filesystems/ext4/directory.rst "file type" table and inode i_mode table).
 * KERNEL 2: do_mknod_internal(): device nodes, fifos and sockets.  The inode it writes and the
 *           directory entry type it links are read back the way the kernel reads them
 *           (fs/ext4/inode.c: i_block[0] != 0 ? old_decode_dev(i_block[0]) : new_decode_dev(i_block[1]);
 *           include/linux/kdev_t.h) and must give the host's type, major and minor.
 */
#define main vf_real_main
#include "misc/create_inode.c"
#undef main
#include "env.c"
#ifndef VF_REPLAY
/* STUB: gettext(): identity (message catalogue lookup only) */
char *gettext(const char *m) { return (char *) m; }
#endif

#ifndef KERNEL
#define KERNEL 1
#endif

struct vf_in {
	__u32 mode;
	__u32 rdev;
	__u32 cwd, newino;
	long long now;
	int link_nospace;	/* first ext2fs_link() answers EXT2_ET_DIR_NO_SPACE */
};
VF_DECLARE_INPUT(struct vf_in, IN)
#include "vf_input.inc"

/* format tables, written from the documentation: type nibble -> dirent code */
static int ref_ft_of_mode(unsigned int mode)
{
	switch ((mode >> 12) & 15) {
	case 001: return 5;	/* S_IFIFO  0x1000 -> FIFO */
	case 002: return 3;	/* S_IFCHR  0x2000 -> character device */
	case 004: return 2;	/* S_IFDIR  0x4000 -> directory */
	case 006: return 4;	/* S_IFBLK  0x6000 -> block device */
	case 010: return 1;	/* S_IFREG  0x8000 -> regular file */
	case 012: return 7;	/* S_IFLNK  0xA000 -> symlink */
	case 014: return 6;	/* S_IFSOCK 0xC000 -> socket */
	}
	return 0;
}

#if KERNEL == 2
static struct ext2_inode vf_written;
static int vf_nwritten, vf_nlink, vf_nexpand, vf_nstats, vf_nnew;
static int vf_link_type;
static const char *vf_name = "n";

/* STUB: ext2fs_new_inode(): hands out the symbolic inode number IN.newino */
errcode_t ext2fs_new_inode(ext2_filsys fs, ext2_ino_t dir, int mode, ext2fs_inode_bitmap map, ext2_ino_t *ret)
{
	(void) fs; (void) mode; (void) map;
	PROP(dir == IN.cwd, "inode allocated near the parent directory");
	vf_nnew++;
	*ret = IN.newino;
	return 0;
}
/* STUB: ext2fs_link(): records (parent, name, ino, type); the first call may answer EXT2_ET_DIR_NO_SPACE */
errcode_t ext2fs_link(ext2_filsys fs, ext2_ino_t dir, const char *name, ext2_ino_t ino, int flags)
{
	(void) fs;
	PROP(dir == IN.cwd && ino == IN.newino && name == vf_name, "link: parent, name and inode as requested");
	vf_nlink++;
	if (vf_nlink == 1 && IN.link_nospace)
		return EXT2_ET_DIR_NO_SPACE;
	vf_link_type = flags;
	return 0;
}
/* STUB: ext2fs_expand_dir(): succeeds */
errcode_t ext2fs_expand_dir(ext2_filsys fs, ext2_ino_t dir)
{
	(void) fs;
	PROP(dir == IN.cwd, "expand: the parent directory");
	vf_nexpand++;
	return 0;
}
/* STUB: ext2fs_test_generic_bmap(): inode not yet marked in use */
int ext2fs_test_generic_bmap(ext2fs_generic_bitmap bitmap, __u64 arg) { (void) bitmap; (void) arg; return 0; }
/* STUB: ext2fs_inode_alloc_stats2(): counts calls */
void ext2fs_inode_alloc_stats2(ext2_filsys fs, ext2_ino_t ino, int inuse, int isdir)
{
	(void) fs;
	PROP(ino == IN.newino && inuse == 1 && isdir == 0, "allocation statistics: +1 non-directory inode");
	vf_nstats++;
}
/* STUB: ext2fs_write_new_inode(): records the 128-byte inode */
errcode_t ext2fs_write_new_inode(ext2_filsys fs, ext2_ino_t ino, struct ext2_inode *inode)
{
	(void) fs;
	PROP(ino == IN.newino, "new inode written to the allocated number");
	vf_written = *inode;
	vf_nwritten++;
	return 0;
}
#ifndef VF_REPLAY
/* STUB: glibc gnu_dev_major/gnu_dev_minor (sys/sysmacros.h): the documented dev_t layout, 32-bit part */
unsigned int gnu_dev_major(unsigned long long dev)
{
	return ((dev >> 8) & 0xfff) | ((unsigned int)(dev >> 32) & ~0xfff);
}
unsigned int gnu_dev_minor(unsigned long long dev)
{
	return (dev & 0xff) | ((unsigned int)(dev >> 12) & ~0xff);
}
/* STUB: time(): fixed */
time_t time(time_t *t) { if (t) *t = 1000; return 1000; }
#endif
#endif

int main(void)
{
	VF_INPUT(IN);
#if KERNEL == 1
	PROP(ext2_file_type(IN.mode) == ref_ft_of_mode(IN.mode), "ext2_file_type equals the format's type table");
	/* populate hands host st_mode values to code that uses LINUX_S_* and vice versa: same numbering on this host */
	PROP(S_IFMT == 0170000 && S_IFSOCK == 0140000 && S_IFLNK == 0120000 && S_IFREG == 0100000 &&
	     S_IFBLK == 060000 && S_IFDIR == 040000 && S_IFCHR == 020000 && S_IFIFO == 010000,
	     "host S_IF* constants equal the on-disk LINUX_S_IF* values");
#else
	{
		static struct struct_ext2_filsys fs_s;
		errcode_t ret;
		unsigned int type = (IN.mode >> 12) & 15, i;
		unsigned int hmaj = (IN.rdev >> 8) & 0xfff, hmin = (IN.rdev & 0xff) | ((IN.rdev >> 12) & 0xfff00);

		/* ASSUME: fs->now (fake time) in [0, 2^31) or 0 = unset */
		ASSUME(IN.now >= 0 && IN.now < 2147483648LL);
		fs_s.now = (time_t) IN.now;
		ret = do_mknod_internal(&fs_s, IN.cwd, vf_name, IN.mode, IN.rdev);
		if (type == 001 || type == 002 || type == 006 || type == 014) {
			PROP(ret == 0, "special file types are accepted");
			PROP(vf_nnew == 1 && vf_nwritten == 1 && vf_nstats == 1, "one inode allocated, accounted and written");
			PROP(vf_nlink == (IN.link_nospace ? 2 : 1) && vf_nexpand == (IN.link_nospace ? 1 : 0),
			     "linked once; directory expanded and link retried when it was full");
			PROP(vf_link_type == ref_ft_of_mode(IN.mode), "directory entry type code is the one of the host file's type");
			PROP(((vf_written.i_mode >> 12) & 15) == type, "inode type nibble is the host file's type");
			PROP(vf_written.i_links_count == 1, "link count 1");
			PROP(vf_written.i_size == 0 && vf_written.i_blocks == 0 && vf_written.i_flags == 0 && vf_written.i_dtime == 0,
			     "no size, blocks, flags, dtime");
			if (type == 002 || type == 006) {
				unsigned int b0 = vf_written.i_block[0], b1 = vf_written.i_block[1], kmaj, kmin;
				if (b0) {		/* kernel: old_decode_dev */
					kmaj = (b0 >> 8) & 255;
					kmin = b0 & 255;
					PROP(b0 < 65536, "old device encoding is 16 bits");
				} else {		/* kernel: new_decode_dev */
					kmaj = (b1 & 0xfff00) >> 8;
					kmin = (b1 & 0xff) | ((b1 >> 12) & 0xfff00);
				}
				PROP(kmaj == hmaj && kmin == hmin, "device number read the kernel's way equals the host's major:minor");
			}
			for (i = 2; i < EXT2_N_BLOCKS; i++)
				PROP(vf_written.i_block[i] == 0, "i_block[2..14] zero");
			if (IN.rdev == 0)
				PROP(vf_written.i_block[0] == 0 && vf_written.i_block[1] == 0, "no device number: i_block[0..1] zero");
			PROP((long long)(int) vf_written.i_mtime == (IN.now ? IN.now : 1000) &&
			     vf_written.i_atime == vf_written.i_mtime && vf_written.i_ctime == vf_written.i_mtime,
			     "times: the filesystem's clock (fs->now or time())");
		} else {
			PROP(ret == EXT2_ET_INVALID_ARGUMENT, "other types refused");
			PROP(vf_nnew == 0 && vf_nlink == 0 && vf_nwritten == 0 && vf_nstats == 0, "refused: nothing allocated, linked or written");
		}
	}
#endif
	VF_END();
	return 0;
}
