/*
 * C18/inode_extra: misc/create_inode.c:set_inode_extra() -- the struct stat -> inode
 * metadata transfer of mke2fs -d / debugfs write, for EVERY stat and EVERY pre-existing
 * 128-byte inode, read back by an independent reader of the on-disk format
 * (Documentation/filesystems/ext4/inodes.rst):
 *   owner  = i_uid  | l_i_uid_high << 16   (bytes 2..3 and 120..121)
 *   group  = i_gid  | l_i_gid_high << 16   (bytes 24..25 and 122..123)
 *   i_mode = file type nibble (kept from the inode that mkdir/symlink/mknod/write created)
 *            | the 12 permission bits (rwx for u/g/o, setuid, setgid, sticky) of st_mode
 *   i_atime/i_ctime/i_mtime (bytes 8, 12, 16): signed 32-bit seconds
 * and nothing else in the inode changes.
 */
#define main vf_real_main
#include "misc/create_inode.c"
#undef main
#include "env.c"
#ifndef VF_REPLAY
/* STUB: gettext(): identity (message catalogue lookup only) */
char *gettext(const char *m) { return (char *) m; }
#endif

struct vf_in {
	__u32 st_mode, st_uid, st_gid;
	long long atime, ctime, mtime;
	unsigned char raw[128];
	__u32 ino;
	__u32 flags2;
	long long now;
	int read_err, write_err;
};
VF_DECLARE_INPUT(struct vf_in, IN)
#include "vf_input.inc"

static union { unsigned char b[128]; struct ext2_inode s; } vf_disk;	/* the inode "on disk" */
static int vf_reads, vf_writes;

/* STUB: ext2fs_read_inode(): returns the symbolic 128-byte on-disk inode or a symbolic error (then leaves the buffer alone) */
errcode_t ext2fs_read_inode(ext2_filsys fs, ext2_ino_t ino, struct ext2_inode *inode)
{
	(void) fs;
	vf_reads++;
	PROP(ino == IN.ino, "set_inode_extra reads the inode it was asked to change");
	if (IN.read_err)
		return IN.read_err;
	*inode = vf_disk.s;
	return 0;
}
/* STUB: ext2fs_write_inode(): stores 128 bytes to the model disk inode, or fails with a symbolic error */
errcode_t ext2fs_write_inode(ext2_filsys fs, ext2_ino_t ino, struct ext2_inode *inode)
{
	(void) fs;
	vf_writes++;
	PROP(ino == IN.ino, "set_inode_extra writes the inode it was asked to change");
	if (IN.write_err)
		return IN.write_err;
	vf_disk.s = *inode;
	return 0;
}

static unsigned int ref_le16(const unsigned char *p) { return p[0] | (p[1] << 8); }
static long long ref_s32(const unsigned char *p)
{
	unsigned int v = p[0] | (p[1] << 8) | (p[2] << 16) | ((unsigned int) p[3] << 24);
	return (long long)(int) v;
}
/* the time the image must carry: the host's, except that a reproducible build (fake time in
 * force) never stores a time later than its fixed clock; 128-byte inodes saturate */
static long long ref_time(long long t)
{
	if ((IN.flags2 & 1 /* EXT2_FLAG2_USE_FAKE_TIME */) && t > IN.now)
		t = IN.now;
	if (t < -2147483648LL) t = -2147483648LL;
	if (t > 2147483647LL) t = 2147483647LL;
	return t;
}

int main(void)
{
	static struct struct_ext2_filsys fs_s;
	static struct stat st;
	unsigned char pre[128];
	errcode_t ret;
	unsigned int i;

	VF_INPUT(IN);
#ifdef IN_RANGE
	/* ASSUME: IN_RANGE: host times and the fake clock in [0, 2^31): 1970..2038, the range of property C18 */
	ASSUME(IN.atime >= 0 && IN.atime < 2147483648LL);
	ASSUME(IN.ctime >= 0 && IN.ctime < 2147483648LL);
	ASSUME(IN.mtime >= 0 && IN.mtime < 2147483648LL);
#endif
	/* BOUND: main.*: 128-byte inode copied / compared byte by byte */
	for (i = 0; i < 128; i++)
		vf_disk.b[i] = pre[i] = IN.raw[i];
	fs_s.flags2 = IN.flags2;
	fs_s.now = (time_t) IN.now;
	st.st_mode = IN.st_mode;
	st.st_uid = IN.st_uid;
	st.st_gid = IN.st_gid;
	st.st_atime = (time_t) IN.atime;
	st.st_ctime = (time_t) IN.ctime;
	st.st_mtime = (time_t) IN.mtime;

	ret = set_inode_extra(&fs_s, IN.ino, &st);

	PROP(vf_reads == 1, "exactly one inode read");
	if (IN.read_err) {
		PROP(ret == IN.read_err && vf_writes == 0, "read error: reported, nothing written");
	} else {
		PROP(vf_writes == 1, "exactly one inode write");
		PROP(ret == IN.write_err, "write error reported / success");
	}
	if (ret == 0) {
		const unsigned char *d = vf_disk.b;
		PROP((ref_le16(d + 2) | (ref_le16(d + 120) << 16)) == IN.st_uid, "owner: all 32 bits of st_uid, split low/high");
		PROP((ref_le16(d + 24) | (ref_le16(d + 122) << 16)) == IN.st_gid, "group: all 32 bits of st_gid, split low/high");
		PROP((ref_le16(d + 0) & 07777) == (IN.st_mode & 07777), "mode: the 12 permission bits (rwx ugo, setuid, setgid, sticky) of st_mode");
		PROP((ref_le16(d + 0) & 0170000) == (ref_le16(pre + 0) & 0170000), "mode: file type nibble of the created inode kept");
		PROP(ref_s32(d + 8) == ref_time(IN.atime), "atime stored (signed 32-bit seconds; fake-time clamp; saturation)");
		PROP(ref_s32(d + 12) == ref_time(IN.ctime), "ctime stored (signed 32-bit seconds; fake-time clamp; saturation)");
		PROP(ref_s32(d + 16) == ref_time(IN.mtime), "mtime stored (signed 32-bit seconds; fake-time clamp; saturation)");
		for (i = 0; i < 128; i++) {
			if (i < 4 || (i >= 8 && i < 20) || i == 24 || i == 25 || (i >= 120 && i < 124))
				continue;
			PROP(d[i] == pre[i], "no other inode byte changes (size, links, flags, block map, dtime, generation ...)");
		}
	} else {
		for (i = 0; i < 128; i++)
			PROP(vf_disk.b[i] == pre[i], "failure: inode on disk unchanged");
	}
	VF_END();
	return 0;
}
