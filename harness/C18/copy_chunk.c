/*
 * C18/copy_chunk: misc/create_inode.c:copy_file_chunk() -- the only place where file bytes
 * move from the host file into the image, and where holes are made.
 *
 * Model: a host file of S <= NB*BS bytes with symbolic content; pread64() answers from it;
 * ext2fs_file_llseek()/ext2fs_file_write() write into a model image file (byte array + "written"
 * mask), the writer may accept any non-zero part of each request (partial writes) or fail.
 * Claim, for every start/end, file size and content:
 *   (1) every byte written lands at its own offset with its own value, inside the file;
 *   (2) every non-zero source byte of [start, min(end, S)) is written (unwritten bytes read back as
 *       zero from the freshly created target, so content and length are exact);
 *   (3) holes kept: a block (of the chunk grid starting at `start`) that is all zero in the source is
 *       never written;
 *   (4) read / seek / write errors and a zero-length write are reported, not swallowed.
 */
#define main vf_real_main
#include "misc/create_inode.c"
#undef main
#include "env.c"
#include <errno.h>

#ifndef BS
#define BS 4		/* BOUND: block size 4 bytes (fs->blocksize is a run-time field of the real code) */
#endif
#ifndef NB
#define NB 3		/* BOUND: host file of at most 3 blocks = 12 bytes */
#endif
#define FLEN (NB * BS)
#ifndef START
#define START 0		/* discrete configuration is compile-time (guide rule 2): chunk start offset */
#endif
/* -DPARTIAL: the writer may accept only part of a request; -DFAULTS: read/seek/write failures injected */

struct vf_in {
	unsigned char src[FLEN];
	unsigned int size;		/* host file size */
	long long start, end;
	unsigned char part[FLEN];	/* how much the k-th write accepts */
	int read_fail, seek_fail_at, write_fail_at, write_zero_at;	/* 0 = never, k = the k-th call */
};
VF_DECLARE_INPUT(struct vf_in, IN)
#include "vf_input.inc"

static unsigned char vf_img[FLEN], vf_written[FLEN];
static long long vf_pos;
static int vf_nread, vf_nseek, vf_nwrite, vf_bad;
static int vf_filedummy;

/* STUB: pread64(): answers from the model host file: min(count, S - offset) bytes, 0 at/after EOF; may fail with EIO */
ssize_t pread64(int fd, void *buf, size_t count, off_t offset)
{
	unsigned int p, k, n = 0;
	unsigned char *b = buf;
	(void) fd;
	vf_nread++;
	if (IN.read_fail) {
		errno = EIO;
		return -1;
	}
	if (count != 65536)
		vf_bad = 1;
	/* no symbolic array index: b[k] with concrete k, position matched by comparison */
	for (k = 0; k < FLEN; k++)
		for (p = 0; p < FLEN; p++)
			if ((long long) p == offset + (long long) k && p < IN.size) {
				b[k] = IN.src[p];
				n = k + 1;
			}
	return n;
}
/* STUB: ext2fs_file_llseek(): sets the model file position (SEEK_SET only); k-th call may fail */
errcode_t ext2fs_file_llseek(ext2_file_t file, __u64 offset, int whence, __u64 *ret_pos)
{
	vf_nseek++;
	if (file != (ext2_file_t) &vf_filedummy || whence != EXT2_SEEK_SET)
		vf_bad = 1;
	if (IN.seek_fail_at && vf_nseek == IN.seek_fail_at)
		return EXT2_ET_BAD_MAGIC;
	vf_pos = (long long) offset;
	if (ret_pos)
		*ret_pos = offset;
	return 0;
}
/* STUB: ext2fs_file_write(): accepts 1..nbytes bytes (symbolic) at the model position; k-th call may fail or accept 0 bytes */
errcode_t ext2fs_file_write(ext2_file_t file, const void *buf, unsigned int nbytes, unsigned int *written)
{
	const unsigned char *b = buf;
	unsigned int take, p, k;
	vf_nwrite++;
	if (file != (ext2_file_t) &vf_filedummy || nbytes == 0 || nbytes > BS)
		vf_bad = 1;
	if (IN.write_fail_at && vf_nwrite == IN.write_fail_at)
		return EXT2_ET_SHORT_WRITE;
	if (IN.write_zero_at && vf_nwrite == IN.write_zero_at) {
		*written = 0;
		return 0;
	}
#ifdef PARTIAL
	take = 1 + IN.part[(vf_nwrite - 1) % FLEN] % BS;
	if (take > nbytes)
		take = nbytes;
#else
	take = nbytes;
#endif
	for (k = 0; k < BS; k++) {
		int hit = 0;
		if (k >= take)
			continue;
		for (p = 0; p < FLEN; p++)
			if ((long long) p == vf_pos + (long long) k) {
				if (vf_written[p])
					vf_bad = 1;	/* the same byte twice */
				vf_img[p] = b[k];
				vf_written[p] = 1;
				hit = 1;
			}
		if (!hit)
			vf_bad = 1;		/* write beyond the model file */
	}
	vf_pos += take;
	*written = take;
	return 0;
}

int main(void)
{
	static struct struct_ext2_filsys fs_s;
	static char buf[FLEN + BS], zerobuf[BS];
	errcode_t ret;
	unsigned int p, k;
	int injected;

	VF_INPUT(IN);
	ASSUME(IN.size <= FLEN);
	/* ASSUME: start = START (one query per value); start <= end < start + 2*65536 (at most two buffer rounds) */
	IN.start = START;
	ASSUME(IN.end >= IN.start && IN.end < IN.start + 2 * 65536);
#ifdef FAULTS
	/* one fault class per query: 1 read fails, 2 the k-th seek fails, 3 the k-th write fails, 4 the k-th write accepts nothing (k symbolic) */
	IN.read_fail = (FAULTS == 1);	/* concrete: the no-fault case is the other queries' */
	if (FAULTS != 2) IN.seek_fail_at = 0;
	if (FAULTS != 3) IN.write_fail_at = 0;
	if (FAULTS != 4) IN.write_zero_at = 0;
	ASSUME(IN.seek_fail_at >= 0 && IN.write_fail_at >= 0 && IN.write_zero_at >= 0);
#else
	/* ASSUME: without -DFAULTS: pread64, llseek and write succeed */
	IN.read_fail = IN.seek_fail_at = IN.write_fail_at = IN.write_zero_at = 0;
#endif
	fs_s.blocksize = BS;

	ret = copy_file_chunk(&fs_s, 3, (ext2_file_t) &vf_filedummy, (off_t) IN.start, (off_t) IN.end, buf, zerobuf);

	PROP(!vf_bad, "callee contracts: 64 KiB reads, SEEK_SET on the right handle, 1..blocksize bytes per write, no byte twice");
	injected = (IN.read_fail && vf_nread > 0) ||
		(IN.seek_fail_at && vf_nseek >= IN.seek_fail_at) ||
		(IN.write_fail_at && vf_nwrite >= IN.write_fail_at) ||
		(IN.write_zero_at && vf_nwrite >= IN.write_zero_at);
	PROP((ret != 0) == (injected != 0), "an error is returned exactly when a read, seek or write failed (or wrote nothing)");
	/* BOUND: main.*: FLEN positions */
	for (p = 0; p < FLEN; p++) {
		if (vf_written[p])
			PROP(p < IN.size && vf_img[p] == IN.src[p], "(1) a written byte has its own offset and value and lies inside the file");
		if (ret == 0 && (long long) p >= IN.start && (long long) p < IN.end && p < IN.size && !vf_written[p])
			PROP(IN.src[p] == 0, "(2) every non-zero byte of the requested range is written");
	}
	if (IN.start >= IN.end)
		PROP(vf_nread == 0 && vf_nwrite == 0, "empty range: nothing read or written");
	/* (3) blocks of the grid that starts at `start` */
	for (k = 0; k < NB + 1; k++) {
		int zero = 1, any = 0, wr = 0;
		for (p = 0; p < FLEN; p++)
			if ((long long) p >= IN.start + (long long) k * BS && (long long) p < IN.start + (long long)(k + 1) * BS && p < IN.size) {
				any = 1;
				if (IN.src[p])
					zero = 0;
				if (vf_written[p])
					wr = 1;
			}
		if (any && zero)
			PROP(!wr, "(3) an all-zero source block stays a hole");
	}
	VF_END();
	return 0;
}
