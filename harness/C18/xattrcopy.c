/*
 * C18/xattrcopy: misc/create_inode.c:set_inode_xattr() -- the transfer of the host file's extended
 * attributes into the image (mke2fs -d).  llistxattr()/lgetxattr() are model stubs over NATTR host
 * attributes "user.a", "user.b", "user.c" with symbolic value sizes 0..4 and symbolic value bytes;
 * ext2fs_xattrs_open / read / xattr_set / close are recording stubs.
 * Claim: every listed attribute is set exactly once, in list order, with its name, its size -- size 0
 * (an attribute with an empty value) included -- and its value bytes; the handle is opened, read and
 * closed once; a failing lgetxattr() (size query or data read) stops the copy and its errno is returned,
 * attributes before it are set, none after it; no attributes on the host (or ENOTSUP) -> nothing is opened.
 */
#include "config.h"
#include <sys/types.h>
#include "ext2fs/ext2_fs.h"
#include "ext2fs/ext2fs.h"
/* STUB: ext2fs_get_mem / ext2fs_free_mem as called from create_inode.c: two static buffers (name list, value), plain pointer assignment */
static errcode_t stub_get_mem(unsigned long size, void *ptr);
static errcode_t stub_free_mem(void *ptr);
#define ext2fs_get_mem stub_get_mem
#define ext2fs_free_mem stub_free_mem
#define main vf_real_main
#include "misc/create_inode.c"
#undef main
#undef ext2fs_get_mem
#undef ext2fs_free_mem
#include "env.c"
#include <errno.h>
#ifndef VF_REPLAY
char *gettext(const char *m) { return (char *) m; }
#endif

#ifndef NATTR
#define NATTR 3		/* BOUND: host attributes */
#endif
#define NAMELEN 7	/* "user.x" + NUL */
#define LISTLEN (NATTR * NAMELEN)
#define VMAX 4		/* BOUND: value sizes 0..4 */

struct vf_in {
	unsigned char vsize[NATTR];
	unsigned char value[NATTR][VMAX];
	unsigned int fail_attr;		/* lgetxattr fails for this attribute (>= NATTR: never) */
	int fail_phase;			/* 0: the size query fails, 1: the data read fails */
	int list_mode;			/* 0 normal, 1 llistxattr reports ENOTSUP, 2 the host file has no attributes */
	__u32 ino;
};
VF_DECLARE_INPUT(struct vf_in, IN)
#include "vf_input.inc"

static int vf_bad, vf_nopen, vf_nread, vf_nclose, vf_nset, vf_handle_dummy;
static char vf_list[LISTLEN + 1], vf_valbuf[VMAX + 1];
static unsigned char vf_set_attr[NATTR], vf_set_size[NATTR], vf_set_val[NATTR][VMAX];
static const char *vf_file = "f";

static errcode_t stub_get_mem(unsigned long size, void *ptr)
{
	if (size == LISTLEN)
		*(void **) ptr = vf_list;
	else if (size <= VMAX)
		*(void **) ptr = vf_valbuf;	/* size 0 included: malloc(0) gives a valid pointer on this platform */
	else {
		vf_bad = 1;
		return EXT2_ET_NO_MEMORY;
	}
	return 0;
}
static errcode_t stub_free_mem(void *ptr) { *(void **) ptr = NULL; return 0; }

/* STUB: llistxattr(): "user.a\0user.b\0..." (size query, then the list) */
ssize_t llistxattr(const char *path, char *list, size_t size)
{
	unsigned int k;
	if (path != vf_file)
		vf_bad = 1;
	if (IN.list_mode == 1) {
		errno = ENOTSUP;
		return -1;
	}
	if (IN.list_mode == 2)
		return 0;
	if (!list)
		return LISTLEN;
	if (size != LISTLEN)
		vf_bad = 1;
	for (k = 0; k < NATTR; k++) {
		list[k * NAMELEN + 0] = 'u'; list[k * NAMELEN + 1] = 's'; list[k * NAMELEN + 2] = 'e';
		list[k * NAMELEN + 3] = 'r'; list[k * NAMELEN + 4] = '.'; list[k * NAMELEN + 5] = 'a' + k;
		list[k * NAMELEN + 6] = 0;
	}
	return LISTLEN;
}
static int vf_attr_of(const char *name)		/* which host attribute a name denotes */
{
	if (name[0] != 'u' || name[4] != '.' || name[6] != 0 || name[5] < 'a' || name[5] >= 'a' + NATTR)
		return -1;
	return name[5] - 'a';
}
/* STUB: lgetxattr(): size query (value == NULL) or data read; fails with EIO for IN.fail_attr in phase IN.fail_phase */
ssize_t lgetxattr(const char *path, const char *name, void *value, size_t size)
{
	int a = vf_attr_of(name), k, i;
	if (path != vf_file || a < 0)
		vf_bad = 1;
	if ((unsigned int) a == IN.fail_attr && (value ? 1 : 0) == IN.fail_phase) {
		errno = EIO;
		return -1;
	}
	for (k = 0; k < NATTR; k++)
		if (k == a) {
			if (!value)
				return IN.vsize[k];
			if (size != IN.vsize[k])
				vf_bad = 1;
			for (i = 0; i < VMAX; i++)
				if (i < IN.vsize[k])
					((unsigned char *) value)[i] = IN.value[k][i];
			return IN.vsize[k];
		}
	return -1;
}
/* STUB: ext2fs_xattrs_open/read/close: count calls; ext2fs_xattr_set: record (attribute, size, bytes) of the n-th call */
errcode_t ext2fs_xattrs_open(ext2_filsys fs, ext2_ino_t ino, struct ext2_xattr_handle **handle)
{
	(void) fs;
	if (ino != IN.ino)
		vf_bad = 1;
	vf_nopen++;
	*handle = (struct ext2_xattr_handle *) &vf_handle_dummy;
	return 0;
}
errcode_t ext2fs_xattrs_read(struct ext2_xattr_handle *handle)
{
	if (handle != (struct ext2_xattr_handle *) &vf_handle_dummy)
		vf_bad = 1;
	vf_nread++;
	return 0;
}
errcode_t ext2fs_xattrs_close(struct ext2_xattr_handle **handle)
{
	if (*handle != (struct ext2_xattr_handle *) &vf_handle_dummy)
		vf_bad = 1;
	vf_nclose++;
	*handle = NULL;
	return 0;
}
errcode_t ext2fs_xattr_set(struct ext2_xattr_handle *handle, const char *name, const void *value, size_t value_len)
{
	int a = vf_attr_of(name), n, i;
	if (handle != (struct ext2_xattr_handle *) &vf_handle_dummy || a < 0 || value_len > VMAX)
		vf_bad = 1;
	for (n = 0; n < NATTR; n++)		/* no symbolic array index */
		if (n == vf_nset) {
			vf_set_attr[n] = a;
			vf_set_size[n] = value_len;
			for (i = 0; i < VMAX; i++)
				if ((size_t) i < value_len)
					vf_set_val[n][i] = ((const unsigned char *) value)[i];
		}
	vf_nset++;
	return 0;
}
int no_copy_xattrs;

int main(void)
{
	static struct struct_ext2_filsys fs_s;
	errcode_t ret;
	int k, i, nexpect;

	VF_INPUT(IN);
	for (k = 0; k < NATTR; k++)
		ASSUME(IN.vsize[k] <= VMAX);
	ASSUME(IN.fail_phase == 0 || IN.fail_phase == 1);
	ASSUME(IN.list_mode >= 0 && IN.list_mode <= 2);

	ret = set_inode_xattr(&fs_s, IN.ino, vf_file);

	PROP(!vf_bad, "callee arguments: host file, inode, handle, known names, sizes within the value read");
	if (IN.list_mode != 0) {
		PROP(ret == 0 && vf_nopen == 0 && vf_nset == 0, "no attributes on the host / not supported: success, nothing opened or set");
	} else {
		PROP(vf_nopen == 1 && vf_nread == 1 && vf_nclose == 1, "xattr handle opened, read and closed once");
		nexpect = IN.fail_attr < NATTR ? (int) IN.fail_attr : NATTR;
		PROP(ret == (IN.fail_attr < NATTR ? EIO : 0), "a failing lgetxattr is reported with its errno, otherwise success");
		PROP(vf_nset == nexpect, "every listed attribute (up to a failure) is set exactly once -- empty values included");
		for (k = 0; k < NATTR; k++)
			if (k < nexpect && k < vf_nset) {
				PROP(vf_set_attr[k] == k, "attributes are set in list order under their own names");
				PROP(vf_set_size[k] == IN.vsize[k], "attribute set with its size (0 included)");
				for (i = 0; i < VMAX; i++)
					if (i < IN.vsize[k])
						PROP(vf_set_val[k][i] == IN.value[k][i], "attribute set with its value bytes");
			}
	}
	VF_END();
	return 0;
}
