/*
 * C11/itable: expand_inode_table() (misc/tune2fs.c) -- the last step of "tune2fs -I <new inode size>": every group's
 * inode table is re-laid-out in place with larger slots.
 *
 * Real code: expand_inode_table().  The function is size-agnostic (no constant 128 / 256 in it), so the geometry is
 * scaled down: NG groups x IPG inodes, inode size OLD -> NEW bytes, blocks of BSZ bytes; the device is ONE byte
 * array of NBLK blocks.  io_channel_read_blk64 / io_channel_write_blk64 are stubs on that array with a symbolic
 * fault (the FAULT-th I/O call fails with EIO; 0 = none).
 *
 * Reference (from the inode-table format: inode j of a group lives at byte j * s_inode_size of the group's table):
 * on success, for every group g and every inode j
 *      new table[g] bytes [j*NEW, j*NEW+OLD)      == old table[g] bytes [j*OLD, (j+1)*OLD)   (verbatim copy)
 *      new table[g] bytes [j*NEW+OLD, (j+1)*NEW)  == 0                                       (i_extra_isize = 0 ...)
 * every block outside the new tables is untouched, s_inode_size == NEW, fs->inode_blocks_per_group == the new
 * table length, the inode cache is dropped.  On failure: s_inode_size and inode_blocks_per_group are unchanged
 * (the device may be half converted: resize_inode() tells the user to run e2undo -- main() forces an undo file).
 */
#include "t2f.h"

#ifndef NG
#define NG 2
#endif
#ifndef IPG
#define IPG 4
#endif
#ifndef OLD
#define OLD 8
#endif
#ifndef NEW
#define NEW 16
#endif
#ifndef BSZ
#define BSZ 16
#endif
#ifndef NBLK
#define NBLK 12
#endif
#define OLDB ((IPG * OLD + BSZ - 1) / BSZ)
#define NEWB ((IPG * NEW + BSZ - 1) / BSZ)

struct vf_in {
	unsigned char disk[NBLK * BSZ];
	__u32 loc[NG];
	unsigned char fault;
};
VF_DECLARE_INPUT(struct vf_in, IN)
#include "vf_input.inc"

static unsigned char vf_disk[NBLK * BSZ];
static struct struct_ext2_filsys vf_fs;
static struct ext2_super_block vf_sb;
static struct struct_io_channel vf_chan;
static unsigned char vf_gd[NG * 32] __attribute__((aligned(8)));
static int vf_nio, vf_oob, vf_cache_dropped, vf_icache_dummy;

/* STUB: io_channel_read_blk64 / io_channel_write_blk64: count > 0 blocks between the caller's buffer and the device array;
 * the FAULT-th call fails with EIO and transfers nothing; an access outside the device is flagged */
errcode_t io_channel_read_blk64(io_channel ch, unsigned long long block, int count, void *data)
{
	unsigned char *d = data;
	int b, i;
	(void) ch;
	if (++vf_nio == IN.fault)
		return EIO;
	if (count <= 0 || block + count > NBLK)
		vf_oob = 1;
	for (b = 0; b + OLDB <= NBLK; b++)
		if ((unsigned long long) b == block)
			for (i = 0; i < OLDB * BSZ; i++)
				if (i < count * BSZ)
					d[i] = vf_disk[b * BSZ + i];
	return 0;
}
errcode_t io_channel_write_blk64(io_channel ch, unsigned long long block, int count, const void *data)
{
	const unsigned char *d = data;
	int b, i;
	(void) ch;
	if (++vf_nio == IN.fault)
		return EIO;
	if (count <= 0 || block + count > NBLK)
		vf_oob = 1;
	for (b = 0; b + NEWB <= NBLK; b++)
		if ((unsigned long long) b == block)
			for (i = 0; i < NEWB * BSZ; i++)
				if (i < count * BSZ)
					vf_disk[b * BSZ + i] = d[i];
	return 0;
}
/* STUB: ext2fs_free_inode_cache(): recorded */
void ext2fs_free_inode_cache(struct ext2_inode_cache *icache)
{
	if ((void *) icache == (void *) &vf_icache_dummy)
		vf_cache_dropped++;
}

int main(void)
{
	int g, h, b, k, rc;

	VF_INPUT(IN);
	/* BOUND: NG groups x IPG inodes, inode size OLD -> NEW, BSZ-byte blocks, device of NBLK blocks; tables anywhere */
	/* ASSUME: the enlarged tables lie inside the device and do not overlap (get_move_bitmaps / move_block cleared the room behind each table) */
	for (g = 0; g < NG; g++) {
		ASSUME(IN.loc[g] >= 1 && IN.loc[g] < NBLK && IN.loc[g] + NEWB <= NBLK);
		for (h = 0; h < g; h++)
			ASSUME(IN.loc[h] + NEWB <= IN.loc[g] || IN.loc[g] + NEWB <= IN.loc[h]);
	}
	ASSUME(IN.fault <= 2 * NG);
	for (k = 0; k < NBLK * BSZ; k++)
		vf_disk[k] = IN.disk[k];

	vf_sb.s_magic = EXT2_SUPER_MAGIC;
	vf_sb.s_rev_level = EXT2_DYNAMIC_REV;
	vf_sb.s_inode_size = OLD;
	vf_sb.s_inodes_per_group = IPG;
	vf_sb.s_blocks_per_group = 8192;
	vf_fs.magic = EXT2_ET_MAGIC_EXT2FS_FILSYS;
	vf_fs.super = &vf_sb;
	vf_fs.io = &vf_chan;
	vf_fs.blocksize = BSZ;
	vf_fs.group_desc_count = NG;
	vf_fs.desc_blocks = 1;
	vf_fs.inode_blocks_per_group = OLDB;
	vf_fs.group_desc = (struct opaque_ext2_group_desc *) vf_gd;
	vf_fs.icache = (struct ext2_inode_cache *) &vf_icache_dummy;
	for (g = 0; g < NG; g++)
		ext2fs_inode_table_loc_set(&vf_fs, g, IN.loc[g]);

	rc = expand_inode_table(&vf_fs, NEW);

	PROP(!vf_oob, "no I/O outside the device");
	PROP((rc == 0) == (IN.fault == 0), "expand_inode_table fails iff an I/O call failed");
	if (rc != 0) {
		PROP(vf_sb.s_inode_size == OLD && vf_fs.inode_blocks_per_group == OLDB, "inode size and table length are not updated when the conversion failed");
	} else {
		PROP(vf_sb.s_inode_size == NEW, "s_inode_size is the new size");
		PROP(vf_fs.inode_blocks_per_group == NEWB, "inode_blocks_per_group is the new table length");
		PROP(vf_cache_dropped == 1 && vf_fs.icache == 0, "inode cache (old slot size) dropped");
		PROP(vf_nio == 2 * NG, "one read and one write per group");
		for (g = 0; g < NG; g++)
			PROP(ext2fs_inode_table_loc(&vf_fs, g) == IN.loc[g], "tables stay where they are");
		for (b = 1; b < NBLK; b++) {
			int tab = 0;
			for (g = 0; g < NG; g++)
				if ((__u32) b == IN.loc[g]) {
					/* b is the first block of group g's table: b is concrete here */
					for (k = 0; k < NEWB * BSZ && b * BSZ + k < NBLK * BSZ; k++) {
						int j = k / NEW, off = k % NEW;
						if (j >= IPG)
							continue;	/* padding behind the last inode (none when IPG*NEW is a block multiple) */
						if (off < OLD)
							PROP(vf_disk[b * BSZ + k] == IN.disk[b * BSZ + j * OLD + off], "first old-size bytes of every inode copied verbatim to its new slot");
						else
							PROP(vf_disk[b * BSZ + k] == 0, "the added part of every inode is zero");
					}
				}
			for (g = 0; g < NG; g++)
				if ((__u32) b >= IN.loc[g] && (__u32) b < IN.loc[g] + NEWB)
					tab = 1;
			if (!tab)
				for (k = 0; k < BSZ; k++)
					PROP(vf_disk[b * BSZ + k] == IN.disk[b * BSZ + k], "blocks outside the inode tables untouched");
		}
		for (k = 0; k < BSZ; k++)
			PROP(vf_disk[k] == IN.disk[k], "block 0 untouched");
	}
	VF_END();
	return 0;
}
