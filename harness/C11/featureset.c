/*
 * C11/featureset: update_feature_set() (misc/tune2fs.c), the body of "tune2fs -O <request>": one concrete request
 * per query, the three feature words of the superblock, s_state / s_lastcheck / s_mtime, the mount state, the
 * number of -f flags, journal inode / device, checksum seed: all symbolic.
 *
 * Real code: update_feature_set(), check_fsck_needed(), request_fsck_afterwards() (tune2fs.c), ok_features[] /
 * clear_ok_features[], e2p_edit_feature2() + e2p_string2feature() + e2p_feature2string() (lib/e2p/feature.c, decided
 * on their own in featedit / featnames).  The heavy callees are CUT (run.py cut_statics) or stubbed and only record
 * that they ran: remove_journal_inode, remove_journal_device, enable_uninit_bg, disable_uninit_bg,
 * has_casefold_inode; ext2fs_read_bitmaps, ext2fs_mmp_*, orphan-file and quota helpers, ext2fs_check_desc.
 *
 * Decided (reference written from tune2fs(8) and the comments of the function, per request, see ref_* below):
 *   PERMISSION  a call that returns 0 has set only bits of ok_features[] and cleared only bits of
 *               clear_ok_features[] (the tables tune2fs(8) documents as "can be set / cleared");
 *   EXACT       returned 0 => feature words = old words with exactly the requested bits changed plus the documented
 *               dependent bits (metadata_csum on clears uninit_bg; metadata_csum off re-enables uninit_bg unless
 *               the request clears it, and drops metadata_csum_seed + s_checksum_seed; has_journal / quota / 64bit
 *               are deferred to add_journal / handle_quota_options / resize2fs and leave the bit as it was);
 *   GUARDS      checksum changes need a freshly checked, unmounted file system (else return 1 and no callee ran);
 *               ^has_journal is refused with needs_recovery (unless -ff) and on a read-write mount;
 *               ^flex_bg is refused when ext2fs_check_desc objects; metadata_csum_seed needs metadata_csum;
 *   EFFECTS     which recording stub ran (enable/disable_uninit_bg with which flag, journal removal), the
 *               rewrite_checksums request, request_fsck_afterwards clearing EXT2_VALID_FS.
 */
#include "config.h"
#include "ext2fs/ext2_fs.h"
#include "ext2fs/ext2fs.h"
static errcode_t remove_journal_inode(ext2_filsys fs);
static int remove_journal_device(ext2_filsys fs);
static void enable_uninit_bg(ext2_filsys fs);
static errcode_t disable_uninit_bg(ext2_filsys fs, __u32 csum_feature_flag);
static int has_casefold_inode(ext2_filsys fs);
#include "t2f.h"

#ifndef REQ
#define REQ 1
#endif
static char vf_req[] =
#if REQ == 1
	"metadata_csum";
#elif REQ == 2
	"^metadata_csum";
#elif REQ == 3
	"^metadata_csum,^uninit_bg";
#elif REQ == 4
	"^has_journal";
#elif REQ == 5
	"has_journal";
#elif REQ == 6
	"uninit_bg";
#elif REQ == 7
	"^uninit_bg";
#elif REQ == 8
	"extent";
#elif REQ == 9
	"^extent";
#elif REQ == 10
	"none";
#elif REQ == 11
	"^flex_bg";
#elif REQ == 12
	"metadata_csum_seed";
#elif REQ == 13
	"^huge_file";
#elif REQ == 14
	"quota";
#elif REQ == 15
	"^64bit";
#elif REQ == 16
	"64bit";
#elif REQ == 17
	"clear";
#endif

struct vf_in {
	__u32 feat[3];			/* compat, incompat, ro_compat */
	__u16 state;
	__u32 lastcheck, mtime;
	unsigned char mounted, readonly, busy, fflag;
	__u32 journal_inum, journal_dev, checksum_seed, fs_seed;
	int journal_size;
	unsigned char check_desc_fails, qflag;
};
VF_DECLARE_INPUT(struct vf_in, IN)
#include "vf_input.inc"

static struct struct_ext2_filsys vf_fs;
static struct ext2_super_block vf_sb;
static int vf_n_enable, vf_n_disable, vf_n_rm_jinode, vf_n_rm_jdev, vf_n_other;
static __u32 vf_disable_arg;

/* STUB: remove_journal_inode / remove_journal_device / enable_uninit_bg / disable_uninit_bg (cut): recorded, succeed.
 * remove_journal_inode's block release is decided in harness jrelease; the group-descriptor rewrites are not decided anywhere */
static errcode_t remove_journal_inode(ext2_filsys fs) { (void) fs; vf_n_rm_jinode++; return 0; }
static int remove_journal_device(ext2_filsys fs) { (void) fs; vf_n_rm_jdev++; return 0; }
static void enable_uninit_bg(ext2_filsys fs) { (void) fs; vf_n_enable++; }
static errcode_t disable_uninit_bg(ext2_filsys fs, __u32 flag) { (void) fs; vf_n_disable++; vf_disable_arg = flag; return 0; }
static int has_casefold_inode(ext2_filsys fs) { (void) fs; vf_n_other++; return 0; }
/* STUB: library calls of branches the requests of this harness never enable: recorded in vf_n_other (asserted 0), succeed */
errcode_t ext2fs_read_bitmaps(ext2_filsys fs) { (void) fs; vf_n_other++; return 0; }
errcode_t ext2fs_truncate_orphan_file(ext2_filsys fs) { (void) fs; vf_n_other++; return 0; }
void ext2fs_inode_alloc_stats2(ext2_filsys fs, ext2_ino_t ino, int inuse, int isdir) { (void) fs; (void) ino; (void) inuse; (void) isdir; vf_n_other++; }
e2_blkcnt_t ext2fs_default_orphan_file_blocks(ext2_filsys fs) { (void) fs; vf_n_other++; return 32; }
errcode_t ext2fs_mmp_init(ext2_filsys fs) { (void) fs; vf_n_other++; return 0; }
errcode_t ext2fs_mmp_read(ext2_filsys fs, blk64_t b, void *buf) { (void) fs; (void) b; (void) buf; vf_n_other++; return 0; }
void ext2fs_block_alloc_stats2(ext2_filsys fs, blk64_t blk, int inuse) { (void) fs; (void) blk; (void) inuse; vf_n_other++; }
int uuid_is_null(const uuid_t uu) { (void) uu; vf_n_other++; return 0; }
void uuid_generate(uuid_t out) { (void) out; vf_n_other++; }
int e2p_get_encoding_flags(int encoding) { (void) encoding; vf_n_other++; return 0; }
__u32 ext2fs_crc32c_le(__u32 crc, unsigned char const *p, size_t len) { (void) crc; (void) p; (void) len; return 0x12345678; }
void ext2fs_update_dynamic_rev(ext2_filsys fs) { (void) fs; vf_n_other++; }
/* STUB: ext2fs_check_desc(): symbolic verdict (only ^flex_bg asks) */
errcode_t ext2fs_check_desc(ext2_filsys fs) { (void) fs; return IN.check_desc_fails ? EXT2_ET_BAD_DESC_SIZE : 0; }
/* STUB: proceed_question() (5 s countdown on a terminal) does nothing */
void proceed_question(int delay) { (void) delay; }
#ifndef VF_REPLAY
/* STUB: not on a terminal, TUNE2FS_FORCE_PROMPT unset, /sys/fs/ext4/features/* not readable: check_fsck_needed does not prompt */
char *getenv(const char *name) { (void) name; return 0; }
int isatty(int fd) { (void) fd; return 0; }
int access(const char *path, int mode) { (void) path; (void) mode; return -1; }
/* STUB: sprintf() (e2p_feature2string names an unnamed feature bit for the refusal message): output formatting is not the subject */
int sprintf(char *buf, const char *fmt, ...) { (void) fmt; buf[0] = 0; return 0; }
#endif

/* "freshly checked" as tune2fs(8) puts it: marked valid, no error flag, checked after the last mount */
static int ref_fresh(void)
{
	return (IN.state & 0x0001) && !(IN.state & 0x0002) && IN.lastcheck >= IN.mtime;
}

#define C_HAS_JOURNAL 0x0004u
#define I_RECOVER 0x0004u
#define I_EXTENTS 0x0040u
#define I_64BIT 0x0080u
#define I_FLEX_BG 0x0200u
#define I_CSUM_SEED 0x2000u
#define R_HUGE_FILE 0x0008u
#define R_GDT_CSUM 0x0010u
#define R_QUOTA 0x0100u
#define R_METADATA_CSUM 0x0400u

int main(void)
{
	int rc, w, mounted_rw;
	__u32 o[3], n[3];

	VF_INPUT(IN);
	ASSUME(IN.mounted <= 1 && IN.readonly <= 1 && IN.busy <= 1 && IN.fflag <= 2 && IN.check_desc_fails <= 1 && IN.qflag <= 1);
	/* ASSUME: a read-only mount is a mount */
	ASSUME(!IN.readonly || IN.mounted);
	/* ASSUME: metadata_csum and uninit_bg are never both set (ext2fs_open2 and the kernel refuse such a superblock) */
	ASSUME(!((IN.feat[2] & R_METADATA_CSUM) && (IN.feat[2] & R_GDT_CSUM)));
	/* ASSUME: dynamic-revision superblock (a revision 0 file system is upgraded by ext2fs_update_dynamic_rev, stubbed) */
	vf_sb.s_rev_level = EXT2_DYNAMIC_REV;
	vf_sb.s_magic = EXT2_SUPER_MAGIC;
	vf_sb.s_inode_size = 256;
	vf_sb.s_feature_compat = o[0] = IN.feat[0];
	vf_sb.s_feature_incompat = o[1] = IN.feat[1];
	vf_sb.s_feature_ro_compat = o[2] = IN.feat[2];
	vf_sb.s_state = IN.state;
	vf_sb.s_lastcheck = IN.lastcheck;
	vf_sb.s_mtime = IN.mtime;
	vf_sb.s_journal_inum = IN.journal_inum;
	vf_sb.s_journal_dev = IN.journal_dev;
	vf_sb.s_checksum_seed = IN.checksum_seed;
	vf_fs.magic = EXT2_ET_MAGIC_EXT2FS_FILSYS;
	vf_fs.flags = EXT2_FLAG_RW | EXT2_FLAG_SUPER_ONLY;
	vf_fs.super = &vf_sb;
	vf_fs.blocksize = 1024;
	vf_fs.csum_seed = IN.fs_seed;
	mount_flags = (IN.mounted ? EXT2_MF_MOUNTED : 0) | (IN.readonly ? EXT2_MF_READONLY : 0) | (IN.busy ? EXT2_MF_BUSY : 0);
	f_flag = IN.fflag;
	journal_size = IN.journal_size;
	Q_flag = IN.qflag;
	mounted_rw = IN.mounted && !IN.readonly;

	rc = update_feature_set(&vf_fs, vf_req);

	n[0] = vf_sb.s_feature_compat;
	n[1] = vf_sb.s_feature_incompat;
	n[2] = vf_sb.s_feature_ro_compat;

	/* ---- PERMISSION: whatever the request, an accepted call stays inside the documented tables */
	if (rc == 0)
		for (w = 0; w < 3; w++) {
			PROP(((n[w] & ~o[w]) & ~ok_features[w]) == 0, "accepted request sets only features tune2fs may set (ok_features)");
			PROP(((o[w] & ~n[w]) & ~clear_ok_features[w]) == 0, "accepted request clears only features tune2fs may clear (clear_ok_features)");
		}
#if REQ != 10 && REQ != 17
	PROP(vf_n_other == 0, "no journal / mmp / orphan / casefold / bitmap helper runs for this request");
#endif
	if (n[0] != o[0] || n[1] != o[1] || n[2] != o[2])
		if (rc == 0)
			PROP(vf_fs.flags & EXT2_FLAG_DIRTY, "superblock marked dirty when a feature word changed");

#if REQ == 1		/* metadata_csum */
	if (o[2] & R_METADATA_CSUM) {
		PROP(rc == 0 && n[0] == o[0] && n[1] == o[1] && n[2] == o[2] && rewrite_checksums == 0 && vf_n_enable == 0, "already set: nothing happens");
	} else if (!ref_fresh() || IN.mounted) {
		PROP(rc == 1, "enabling metadata_csum needs a freshly checked, unmounted file system");
		PROP(vf_n_enable == 0 && vf_n_disable == 0, "refused request touches no group descriptor");
	} else {
		PROP(rc == 0, "enabling metadata_csum on a freshly checked unmounted file system is accepted");
		PROP(n[0] == o[0] && n[1] == o[1], "compat / incompat words unchanged");
		PROP(n[2] == ((o[2] | R_METADATA_CSUM) & ~R_GDT_CSUM), "ro_compat = old + metadata_csum - uninit_bg (metadata_csum supersedes uninit_bg)");
		PROP(rewrite_checksums == REWRITE_ALL, "all checksums are to be rewritten");
		PROP(vf_n_enable == ((o[2] & R_GDT_CSUM) ? 0 : 1) && vf_n_disable == 0, "group descriptors initialised iff uninit_bg was off before");
		PROP(vf_sb.s_state == IN.state && fsck_requested == 0, "no e2fsck requested");
	}
#elif REQ == 2 || REQ == 3	/* ^metadata_csum [,^uninit_bg] */
	if (!(o[2] & R_METADATA_CSUM)) {
#if REQ == 2
		PROP(rc == 0 && n[0] == o[0] && n[1] == o[1] && n[2] == o[2] && rewrite_checksums == 0, "already clear: nothing happens");
#else
		if (!(o[2] & R_GDT_CSUM))
			PROP(rc == 0 && n[0] == o[0] && n[1] == o[1] && n[2] == o[2] && vf_n_disable == 0, "both already clear: nothing happens");
		else if (IN.mounted)
			PROP(rc == 1 && vf_n_disable == 0, "uninit_bg cannot be disabled on a mounted file system");
		else
			PROP(rc == 0 && n[2] == (o[2] & ~R_GDT_CSUM) && vf_n_disable == 1 && vf_disable_arg == R_GDT_CSUM && rewrite_checksums == 0,
			     "^uninit_bg alone: descriptors rewritten for the uninit_bg flag");
#endif
	} else if (!ref_fresh() || IN.mounted) {
		PROP(rc == 1, "disabling metadata_csum needs a freshly checked, unmounted file system");
		PROP(vf_n_enable == 0 && vf_n_disable == 0, "refused request touches no group descriptor");
	} else if ((o[1] & I_CSUM_SEED) && IN.busy) {
		/* the seed goes away with metadata_csum: everything must be re-checksummed from the UUID, refused on a device in use */
		PROP(rc == 1, "dropping a stored checksum seed is refused while the device is busy");
	} else {
		PROP(rc == 0, "disabling metadata_csum on a freshly checked unmounted file system is accepted");
		PROP(n[0] == o[0], "compat word unchanged");
		PROP(n[1] == (o[1] & ~I_CSUM_SEED) && vf_sb.s_checksum_seed == 0, "metadata_csum_seed and the stored seed go with metadata_csum");
		PROP(rewrite_checksums == REWRITE_ALL, "all checksums are to be rewritten");
#if REQ == 2
		PROP(n[2] == ((o[2] & ~R_METADATA_CSUM) | R_GDT_CSUM), "ro_compat = old - metadata_csum + uninit_bg (re-enabled unless expressly turned off)");
		PROP(vf_n_disable == 0 && vf_n_enable == 0, "group descriptor flags stay valid: no descriptor rewrite here");
#else
		PROP(n[2] == (o[2] & ~(R_METADATA_CSUM | R_GDT_CSUM)), "ro_compat = old - metadata_csum, uninit_bg stays off as requested");
		PROP(vf_n_disable == 1 && vf_disable_arg == R_METADATA_CSUM && vf_n_enable == 0, "uninit groups initialised once, reading bitmaps under the metadata_csum flag");
#endif
	}
#elif REQ == 4		/* ^has_journal */
	if (!(o[0] & C_HAS_JOURNAL)) {
		PROP(rc == 0 && n[0] == o[0] && n[1] == o[1] && n[2] == o[2] && vf_n_rm_jinode == 0 && vf_n_rm_jdev == 0, "no journal: nothing happens");
	} else if (mounted_rw) {
		PROP(rc == 1 && vf_n_rm_jinode == 0 && vf_n_rm_jdev == 0, "has_journal is not cleared on a read-write mount");
	} else if ((o[1] & I_RECOVER) && IN.fflag < 2) {
		PROP(rc == 1 && vf_n_rm_jinode == 0 && vf_n_rm_jdev == 0, "has_journal is not cleared while needs_recovery is set (unless -f -f)");
	} else {
		PROP(rc == 0 && n[0] == (o[0] & ~C_HAS_JOURNAL) && n[1] == o[1] && n[2] == o[2], "exactly has_journal cleared");
		PROP(vf_n_rm_jinode == (IN.journal_inum ? 1 : 0) && vf_n_rm_jdev == (IN.journal_dev ? 1 : 0), "journal inode / device released iff present");
	}
#elif REQ == 5		/* has_journal */
	PROP(rc == 0 && n[0] == o[0] && n[1] == o[1] && n[2] == o[2], "adding a journal is deferred to add_journal(): feature words as before");
	if (!(o[0] & C_HAS_JOURNAL))
		PROP(journal_size == (IN.journal_size ? IN.journal_size : -1), "default journal size requested unless -J gave one");
	else
		PROP(journal_size == IN.journal_size, "journal already there: no journal requested");
#elif REQ == 6		/* uninit_bg */
	if (o[2] & R_GDT_CSUM)
		PROP(rc == 0 && n[2] == o[2] && vf_n_enable == 0, "already set: nothing happens");
	else if (IN.mounted)
		PROP(rc == 1 && vf_n_enable == 0, "uninit_bg cannot be enabled on a mounted file system");
	else if (o[2] & R_METADATA_CSUM)
		PROP(rc == 0 && n[2] == o[2] && vf_n_enable == 0, "uninit_bg is not enabled next to metadata_csum");
	else
		PROP(rc == 0 && n[2] == (o[2] | R_GDT_CSUM) && vf_n_enable == 1, "exactly uninit_bg set, descriptors initialised");
	PROP(n[0] == o[0] && n[1] == o[1] && vf_n_disable == 0 && rewrite_checksums == 0, "nothing else");
#elif REQ == 7		/* ^uninit_bg */
	if (!(o[2] & R_GDT_CSUM))
		PROP(rc == 0 && n[2] == o[2] && vf_n_disable == 0, "already clear: nothing happens");
	else if (IN.mounted)
		PROP(rc == 1 && vf_n_disable == 0, "uninit_bg cannot be disabled on a mounted file system");
	else
		PROP(rc == 0 && n[2] == (o[2] & ~R_GDT_CSUM) && vf_n_disable == 1 && vf_disable_arg == R_GDT_CSUM, "exactly uninit_bg cleared, uninit groups initialised");
	PROP(n[0] == o[0] && n[1] == o[1] && vf_n_enable == 0 && rewrite_checksums == 0, "nothing else");
#elif REQ == 8		/* extent */
	PROP(rc == 0 && n[0] == o[0] && n[1] == (o[1] | I_EXTENTS) && n[2] == o[2], "exactly extent set");
	PROP(vf_n_enable + vf_n_disable + vf_n_rm_jinode + vf_n_rm_jdev == 0 && rewrite_checksums == 0 && fsck_requested == 0, "no side effect");
#elif REQ == 9		/* ^extent */
	PROP(rc == 1, "clearing extent is not supported");
	PROP(n[0] == o[0] && n[1] == o[1] && n[2] == o[2], "refused request leaves the feature words alone");
#elif REQ == 10 || REQ == 17	/* none / clear: PERMISSION above; a clear of every set feature */
	if ((o[0] & ~clear_ok_features[0]) || (o[1] & ~clear_ok_features[1]) || (o[2] & ~clear_ok_features[2])) {
		PROP(rc == 1, "none / clear is refused when a feature that is set may not be cleared by tune2fs");
		PROP(n[0] == o[0] && n[1] == o[1] && n[2] == o[2], "refused request leaves the feature words alone");
	}
#elif REQ == 11		/* ^flex_bg */
	if (!(o[1] & I_FLEX_BG))
		PROP(rc == 0 && n[1] == o[1], "already clear");
	else if (IN.check_desc_fails)
		PROP(rc == 1, "flex_bg is not cleared when the group descriptors would become invalid");
	else
		PROP(rc == 0 && n[1] == (o[1] & ~I_FLEX_BG), "exactly flex_bg cleared");
	PROP(n[0] == o[0] && n[2] == o[2], "other words unchanged");
#elif REQ == 12		/* metadata_csum_seed */
	if (o[1] & I_CSUM_SEED)
		PROP(rc == 0 && n[1] == o[1] && vf_sb.s_checksum_seed == IN.checksum_seed, "already set");
	else if (!(o[2] & R_METADATA_CSUM))
		PROP(rc == 1, "metadata_csum_seed needs metadata_csum");
	else
		PROP(rc == 0 && n[1] == (o[1] | I_CSUM_SEED) && vf_sb.s_checksum_seed == IN.fs_seed, "seed in use is stored in the superblock");
	PROP(n[0] == o[0] && n[2] == o[2] && rewrite_checksums == 0, "no rewrite, other words unchanged");
#elif REQ == 13		/* ^huge_file */
	if (!(o[2] & R_HUGE_FILE))
		PROP(rc == 0 && n[2] == o[2] && fsck_requested == 0, "already clear");
	else if (mounted_rw)
		PROP(rc == 1, "huge_file is not cleared on a read-write mount");
	else {
		PROP(rc == 0 && n[2] == (o[2] & ~R_HUGE_FILE), "exactly huge_file cleared");
		PROP(fsck_requested == 1 && !(vf_sb.s_state & EXT2_VALID_FS), "e2fsck requested: EXT2_VALID_FS cleared");
	}
	PROP(n[0] == o[0] && n[1] == o[1], "other words unchanged");
#elif REQ == 14		/* quota */
	PROP(rc == 0 && n[0] == o[0] && n[1] == o[1] && n[2] == o[2], "quota is deferred to handle_quota_options(): feature words as before");
	if (!(o[2] & R_QUOTA)) {
		PROP(Q_flag == 1, "quota handling requested");
		if (!IN.qflag)
			PROP(quota_enable[USRQUOTA] == QOPT_ENABLE && quota_enable[GRPQUOTA] == QOPT_ENABLE && quota_enable[PRJQUOTA] == QOPT_DISABLE,
			     "user and group quota by default");
	}
#elif REQ == 15		/* ^64bit */
	if (!(o[1] & I_64BIT))
		PROP(rc == 0 && n[1] == o[1] && feature_64bit == 0, "already clear");
	else if (IN.mounted)
		PROP(rc == 1, "64bit is not converted while mounted");
	else
		PROP(rc == 0 && n[1] == o[1] && feature_64bit == -1, "conversion left to resize2fs -s: bit kept, direction recorded");
	PROP(n[0] == o[0] && n[2] == o[2], "other words unchanged");
#elif REQ == 16		/* 64bit */
	if (o[1] & I_64BIT)
		PROP(rc == 0 && n[1] == o[1] && feature_64bit == 0, "already set");
	else if (IN.mounted)
		PROP(rc == 1, "64bit is not converted while mounted");
	else
		PROP(rc == 0 && n[1] == o[1] && feature_64bit == 1, "conversion left to resize2fs -b: bit kept clear, direction recorded");
	PROP(n[0] == o[0] && n[2] == o[2], "other words unchanged");
#endif
	VF_END();
	return 0;
}
