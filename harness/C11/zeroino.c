/*
 * C11/zeroino: zero_empty_inodes() (misc/tune2fs.c) -- the step of "tune2fs -O ^uninit_bg" that makes the on-disk
 * inode tables safe to read without INODE_UNINIT / bg_itable_unused: every inode that is not in use is overwritten
 * with zeroes, so that stale bytes of never-initialised table areas cannot be taken for inodes later.
 *
 * Real code: zero_empty_inodes().  STUB side: the inode scan delivers the NG x IPG inodes of the file system in
 * order (symbolic content), then the end marker -- with no checksum feature set (what harness uninitbg establishes
 * for the call) the real scan skips nothing either; the inode bitmap is one byte per inode; ext2fs_write_inode_full
 * records what is written and fails at a symbolic point.
 *
 * Decided:
 *   - no fault: every inode whose bitmap bit is clear is written exactly once, all EXT2_INODE_SIZE bytes zero, with
 *     that length; an inode in use is never written; return 0;
 *   - a failing write is returned; nothing after it is written;
 *   - the scan is closed exactly once, the scan that was opened (OPEN_FAIL query: when ext2fs_open_inode_scan
 *     fails nothing is written and no other scan handle is closed).
 */
#include "t2f.h"

#ifndef NG
#define NG 2
#endif
#ifndef IPG
#define IPG 4
#endif
#ifndef ISZ
#define ISZ 32
#endif
#define NI (NG * IPG)
#define NB (NI + 1)		/* bytemap index = inode number, 0 unused */
#include "bytemap.h"

struct vf_in {
	unsigned char inuse[NB];
	unsigned char body[NI][ISZ];
	unsigned char fault;		/* the fault-th ext2fs_write_inode_full fails (0 = none) */
	unsigned char open_fails;
};
VF_DECLARE_INPUT(struct vf_in, IN)
#include "vf_input.inc"

static struct struct_ext2_filsys vf_fs;
static struct ext2_super_block vf_sb;
static struct vf_bm vf_imap;
static long vf_scan_obj;
static int vf_next, vf_nopen, vf_nclose, vf_close_other, vf_nwrite_total, vf_bad_call;
static int vf_nwrite[NB];
static unsigned char vf_nonzero[NB];

/* STUB: ext2fs_open_inode_scan(): hands out the scan handle, or fails without touching *ret (OPEN_FAIL query) */
errcode_t ext2fs_open_inode_scan(ext2_filsys fs, int nb, ext2_inode_scan *ret)
{
	(void) nb;
	if (fs != &vf_fs) vf_bad_call = 1;
#ifdef OPEN_FAIL
	if (IN.open_fails)
		return EXT2_ET_NO_MEMORY;
#endif
	vf_nopen++;
	*ret = (ext2_inode_scan) &vf_scan_obj;
	return 0;
}
/* STUB: ext2fs_close_inode_scan(): counted; a handle other than the one handed out is flagged (the real function dereferences it) */
void ext2fs_close_inode_scan(ext2_inode_scan scan)
{
	if ((void *) scan == (void *) &vf_scan_obj)
		vf_nclose++;
	else if (scan)
		vf_close_other = 1;
}
/* STUB: ext2fs_get_next_inode_full(): inodes 1..NG*IPG in order, then inode number 0 */
errcode_t ext2fs_get_next_inode_full(ext2_inode_scan scan, ext2_ino_t *ino, struct ext2_inode *inode, int bufsize)
{
	unsigned char *d = (unsigned char *) inode;
	int i, k;
	if ((void *) scan != (void *) &vf_scan_obj || bufsize != ISZ) vf_bad_call = 1;
	if (vf_next >= NI) { *ino = 0; return 0; }
	for (i = 0; i < NI; i++)
		if (i == vf_next)
			for (k = 0; k < ISZ; k++)
				d[k] = IN.body[i][k];
	vf_next++;
	*ino = vf_next;
	return 0;
}
/* STUB: ext2fs_write_inode_full(): records per inode number how often and what was written; the FAULT-th call fails */
errcode_t ext2fs_write_inode_full(ext2_filsys fs, ext2_ino_t ino, struct ext2_inode *inode, int bufsize)
{
	const unsigned char *d = (const unsigned char *) inode;
	int p, k, nz = 0;
	if (fs != &vf_fs || bufsize != ISZ || ino < 1 || ino > NI) vf_bad_call = 1;
	if (++vf_nwrite_total == IN.fault)
		return EXT2_ET_SHORT_WRITE;
	for (k = 0; k < ISZ; k++)
		if (d[k]) nz = 1;
	for (p = 1; p < NB; p++)
		if ((ext2_ino_t) p == ino) {
			vf_nwrite[p]++;
			if (nz) vf_nonzero[p] = 1;
		}
	return 0;
}

#ifdef VF_REPLAY
/* native replay only: make the content of not-yet-used stack deterministic (non-zero), so that reading an uninitialised local
 * of the function under test shows the same way the solver sees it (any value) instead of depending on leftover zeroes */
static void __attribute__((noinline, no_sanitize_address)) vf_poison_stack(void)
{
	volatile unsigned char pad[4096];
	static volatile unsigned char *p, *end;	/* not on the stack: the fill must not overwrite its own cursor */
	end = (volatile unsigned char *) __builtin_frame_address(0);
	for (p = pad; p < end; p++)
		*p = 0xAA;
}
#else
static void vf_poison_stack(void) { }
#endif

int main(void)
{
	int p, nfree = 0, seen = 0;
	errcode_t rc;

	VF_INPUT(IN);
	/* BOUND: NG groups x IPG inodes, inode size ISZ bytes (the function is size-agnostic), every bitmap, every inode content, every single write fault */
	for (p = 0; p < NB; p++) {
		ASSUME(IN.inuse[p] <= 1);
		vf_imap.bit[p] = IN.inuse[p];
		if (p >= 1 && !IN.inuse[p])
			nfree++;
	}
	ASSUME(IN.fault <= NI);
	ASSUME(IN.open_fails <= 1);
	vf_sb.s_magic = EXT2_SUPER_MAGIC;
	vf_sb.s_rev_level = EXT2_DYNAMIC_REV;
	vf_sb.s_inode_size = ISZ;
	vf_sb.s_inodes_per_group = IPG;
	vf_sb.s_inodes_count = NI;
	vf_fs.magic = EXT2_ET_MAGIC_EXT2FS_FILSYS;
	vf_fs.flags = EXT2_FLAG_RW;
	vf_fs.super = &vf_sb;
	vf_fs.blocksize = 1024;
	vf_fs.group_desc_count = NG;
	vf_fs.inode_map = (ext2fs_inode_bitmap) &vf_imap;

	vf_poison_stack();
	rc = zero_empty_inodes(&vf_fs);

	PROP(!vf_oob && !vf_bad_call, "right file system, right scan, right length, inode numbers in range");
	PROP(!vf_close_other, "no scan handle other than the opened one is closed");
#ifdef OPEN_FAIL
	if (IN.open_fails) {
		PROP(rc != 0 && vf_nwrite_total == 0 && vf_nclose == 0, "failed open: reported, nothing written, nothing to close");
	} else
#endif
	{
		PROP(vf_nopen == 1 && vf_nclose == 1, "scan opened and closed exactly once");
		PROP((rc == 0) == (IN.fault == 0 || IN.fault > nfree), "fails iff a write failed");
		for (p = 1; p < NB; p++) {
			if (IN.inuse[p]) {
				PROP(vf_nwrite[p] == 0, "an inode in use is never written");
			} else {
				seen++;
				/* the seen-th unused inode is the seen-th write */
				if (IN.fault == 0 || seen < IN.fault)
					PROP(vf_nwrite[p] == 1 && !vf_nonzero[p], "every unused inode is written back once, all bytes zero");
				else
					PROP(vf_nwrite[p] == 0, "nothing is written from the failing write on");
			}
		}
	}
	VF_END();
	return 0;
}
