/*
 * C11/featnames: the name <-> (word, bit) mapping of lib/e2p/feature.c that "tune2fs -O" requests and tune2fs'
 * refusal messages go through.
 *
 *  (1) round trip for every one of the 3 x 32 feature bits: e2p_string2feature(e2p_feature2string(w, 1 << b))
 *      gives back (w, 1 << b); the same for the upper-cased name (names are case-insensitive);
 *  (2) the names tune2fs(8) / ext4(5) document denote the bits of the on-disk format (literal numbers below,
 *      from Documentation/filesystems/ext4/super.rst, not from ext2_fs.h's macros);
 *  (3) FEATURE_<C|I|R><n> denotes bit n of that word for every n in 0..31, and nothing for n = 32.
 *
 * The word is compile time (one query per word); the 33 bit values are enumerated by a concrete loop (thorough tier:
 * SYMBOLIC_BIT, the same through a symbolic bit dispatched to concrete calls).
 */
#define __NO_CTYPE 1
#include "lib/e2p/feature.c"
#include <stdarg.h>

#ifndef WORD
#define WORD 0
#endif

struct vf_in { __u32 bit; __u32 name; };
VF_DECLARE_INPUT(struct vf_in, IN)
#include "vf_input.inc"

#ifndef VF_REPLAY
/* STUB: sprintf() for the one format feature.c uses ("FEATURE_%c%d"): literal characters, %c, and %d of a value 0..99 */
int sprintf(char *buf, const char *fmt, ...)
{
	va_list ap;
	int n = 0, i;
	va_start(ap, fmt);
	for (i = 0; i < 16 && fmt[i]; i++) {
		if (fmt[i] != '%') {
			buf[n++] = fmt[i];
			continue;
		}
		i++;
		if (fmt[i] == 'c')
			buf[n++] = (char) va_arg(ap, int);
		else {
			int v = va_arg(ap, int);
			if (v >= 10)
				buf[n++] = (char) ('0' + v / 10);
			buf[n++] = (char) ('0' + v % 10);
		}
	}
	buf[n] = 0;
	va_end(ap);
	return n;
}
#endif

struct ref_name { const char *name; int word; __u32 mask; };
/* on-disk format: s_feature_compat (0), s_feature_incompat (1), s_feature_ro_compat (2) */
static const struct ref_name ref_names[] = {
	{ "has_journal", 0, 0x4 }, { "ext_attr", 0, 0x8 }, { "resize_inode", 0, 0x10 }, { "dir_index", 0, 0x20 },
	{ "sparse_super2", 0, 0x200 }, { "fast_commit", 0, 0x400 }, { "stable_inodes", 0, 0x800 }, { "orphan_file", 0, 0x1000 },
	{ "filetype", 1, 0x2 }, { "needs_recovery", 1, 0x4 }, { "journal_dev", 1, 0x8 }, { "meta_bg", 1, 0x10 },
	{ "extent", 1, 0x40 }, { "extents", 1, 0x40 }, { "64bit", 1, 0x80 }, { "mmp", 1, 0x100 }, { "flex_bg", 1, 0x200 },
	{ "ea_inode", 1, 0x400 }, { "metadata_csum_seed", 1, 0x2000 }, { "large_dir", 1, 0x4000 },
	{ "inline_data", 1, 0x8000 }, { "encrypt", 1, 0x10000 }, { "casefold", 1, 0x20000 },
	{ "sparse_super", 2, 0x1 }, { "large_file", 2, 0x2 }, { "huge_file", 2, 0x8 }, { "uninit_bg", 2, 0x10 },
	{ "dir_nlink", 2, 0x20 }, { "extra_isize", 2, 0x40 }, { "quota", 2, 0x100 }, { "bigalloc", 2, 0x200 },
	{ "metadata_csum", 2, 0x400 }, { "read-only", 2, 0x1000 }, { "project", 2, 0x2000 }, { "verity", 2, 0x8000 },
	{ "orphan_present", 2, 0x10000 },
};
#define NNAMES ((int) (sizeof(ref_names) / sizeof(ref_names[0])))

static char vf_buf[24];

static void vf_roundtrip(int word, int bit)
{
	const char *s;
	int t = -1, i;
	unsigned int m = 0;

	s = e2p_feature2string(word, 1u << bit);
	for (i = 0; i < 23 && s[i]; i++)
		vf_buf[i] = s[i];
	vf_buf[i] = 0;
	PROP(i >= 1 && i <= 19, "a feature name has 1..19 characters");
	PROP(e2p_string2feature(vf_buf, &t, &m) == 0 && t == word && m == (1u << bit),
	     "string2feature(feature2string(word, bit)) == (word, bit)");
#ifdef UPPER
	for (i = 0; i < 23 && vf_buf[i]; i++)
		if (vf_buf[i] >= 'a' && vf_buf[i] <= 'z')
			vf_buf[i] = (char) (vf_buf[i] - 'a' + 'A');
	t = -1; m = 0;
	PROP(e2p_string2feature(vf_buf, &t, &m) == 0 && t == word && m == (1u << bit),
	     "feature names are case-insensitive");
#endif
}

static void vf_numeric(int word, int bit)
{
	int t = -1, n = 0;
	unsigned int m = 0;
	const char *p = "FEATURE_";

	while (*p)
		vf_buf[n++] = *p++;
	vf_buf[n++] = word == 0 ? 'C' : word == 1 ? 'I' : 'R';
	if (bit >= 10)
		vf_buf[n++] = (char) ('0' + bit / 10);
	vf_buf[n++] = (char) ('0' + bit % 10);
	vf_buf[n] = 0;
	if (bit < 32)
		PROP(e2p_string2feature(vf_buf, &t, &m) == 0 && t == word && m == (1u << bit),
		     "FEATURE_<word><n> names bit n of that word");
	else
		PROP(e2p_string2feature(vf_buf, &t, &m) != 0, "FEATURE_<word>32 is refused");
}

static void vf_named(int k)
{
	int t = -1, i;
	unsigned int m = 0;
	const char *s = ref_names[k].name;

	for (i = 0; i < 23 && s[i]; i++)
		vf_buf[i] = s[i];
	vf_buf[i] = 0;
	PROP(e2p_string2feature(vf_buf, &t, &m) == 0 && t == ref_names[k].word && m == ref_names[k].mask,
	     "documented feature name denotes the bit of the on-disk format");
}

int main(void)
{
	int b, k;

	VF_INPUT(IN);
	/* BOUND: every bit 0..31 (32 for the FEATURE_<word>32 refusal) of the word selected at compile time; every documented name */
	ASSUME(IN.bit <= 32);
	ASSUME(IN.name < NNAMES);
#if WORD == 0
	for (k = 0; k < NNAMES; k++)
		vf_named(k);
#endif
#ifdef SYMBOLIC_BIT
	for (b = 0; b <= 32; b++)
		if ((__u32) b == IN.bit) {
			if (b < 32)
				vf_roundtrip(WORD, b);
			vf_numeric(WORD, b);
		}
#else
	/* all strings concrete: CBMC executes the 33 cases one after the other (no case split needed, the domain is finite).
	 * Bit 31 goes last: e2p_string2feature computes "1 << 31" in int, which the native replay's UBSan stops at
	 * (benign signed-shift UB of the real code, reported to the lead) -- every other failure must replay before that. */
	for (b = 0; b <= 32; b++) {
		if (b == 31)
			continue;
		if (b < 32)
			vf_roundtrip(WORD, b);
		vf_numeric(WORD, b);
	}
	vf_roundtrip(WORD, 31);
	vf_numeric(WORD, 31);
#endif
	VF_END();
	return 0;
}
