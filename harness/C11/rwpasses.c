/*
 * C11/rwpasses: rewrite_inodes() + rewrite_inodes_pass() (misc/tune2fs.c) -- the ORDER in which the checksum rewrite
 * ("-O [^]metadata_csum", UUID change, -I, ^metadata_csum_seed, ^dir_index) visits the inodes.
 *
 * Why the order is part of the contract (comment in rewrite_inodes): an EA inode stores a lookup hash that depends
 * on the checksum seed; an xattr entry that refers to an EA inode derives its e_hash from the hash STORED in that EA
 * inode.  So every EA inode must be rewritten (hash refreshed) before any inode that may refer to it -- "pass 1:
 * update xattr inodes ...; pass 2: go over other inodes".  A single scan in inode-number order would compute an
 * owner's e_hash from a stale EA-inode hash whenever the owner's number is smaller.
 *
 * Real code: rewrite_inodes(), rewrite_inodes_pass().  rewrite_one_inode() is CUT (run.py cut_statics) to a stub that
 * logs (inode number, is-EA-inode, context).  The inode scan is a stub: every scan delivers the same NI inodes in
 * number order (flags and mode symbolic), then the end marker.
 *
 * Decided, for EVERY flags value 0..7 (REWRITE_ALL and the narrower ones) and with / without the ea_inode feature:
 *   - an EA inode is rewritten iff REWRITE_EA_FL, a directory iff REWRITE_DIR_FL, any other inode iff
 *     REWRITE_NONDIR_FL; each at most -- and then exactly -- once over the whole run;
 *   - every rewrite of an EA inode precedes every rewrite of a non-EA inode;
 *   - the context handed down is this file system's, with the inode size of the superblock, a zero inode and an
 *     xattr buffer; every scan that was opened is closed;
 *   - a Hurd file system is left alone.
 */
#include "config.h"
#include "ext2fs/ext2_fs.h"
#include "ext2fs/ext2fs.h"
struct rewrite_context;
static void rewrite_one_inode(struct rewrite_context *ctx, ext2_ino_t ino, struct ext2_inode *inode);
#include "t2f.h"
#include "env.c"

#ifndef NI
#define NI 4
#endif
#define ISZ 128
#define MAXLOG (2 * NI + 1)

struct vf_in {
	__u32 iflags[NI];
	__u16 mode[NI];
	__u32 flags;
	unsigned char ea_feature, hurd;
};
VF_DECLARE_INPUT(struct vf_in, IN)
#include "vf_input.inc"

static struct struct_ext2_filsys vf_fs;
static struct ext2_super_block vf_sb;
static long vf_scan_obj;
static int vf_cursor, vf_nopen, vf_nclose, vf_bad_call;
static int vf_nlog, vf_log_overflow, vf_ctx_bad;
static ext2_ino_t vf_log_ino[MAXLOG];
static unsigned char vf_log_ea[MAXLOG];
static int vf_count[NI + 1];

/* STUB: ext2fs_open_inode_scan(): a new scan starts at inode 1; ext2fs_close_inode_scan(): counted */
errcode_t ext2fs_open_inode_scan(ext2_filsys fs, int nb, ext2_inode_scan *ret)
{
	(void) nb;
	if (fs != &vf_fs || vf_nopen != vf_nclose) vf_bad_call = 1;	/* one scan at a time */
	vf_nopen++;
	vf_cursor = 0;
	*ret = (ext2_inode_scan) &vf_scan_obj;
	return 0;
}
void ext2fs_close_inode_scan(ext2_inode_scan scan)
{
	if ((void *) scan != (void *) &vf_scan_obj) vf_bad_call = 1;
	vf_nclose++;
}
/* STUB: ext2fs_get_next_inode_full(): inodes 1..NI in number order (i_flags, i_mode symbolic, rest zero), then inode number 0 */
errcode_t ext2fs_get_next_inode_full(ext2_inode_scan scan, ext2_ino_t *ino, struct ext2_inode *inode, int bufsize)
{
	static const struct ext2_inode zero;
	int i;
	if ((void *) scan != (void *) &vf_scan_obj || bufsize != ISZ) vf_bad_call = 1;
	if (vf_cursor >= NI) { *ino = 0; return 0; }
	*inode = zero;
	for (i = 0; i < NI; i++)
		if (i == vf_cursor) {
			inode->i_flags = IN.iflags[i];
			inode->i_mode = IN.mode[i];
			inode->i_links_count = 1;
		}
	vf_cursor++;
	*ino = vf_cursor;
	return 0;
}
/* STUB: rewrite_one_inode() (cut): logs the inode number, whether the inode handed over is an EA inode, and checks the context */
static void rewrite_one_inode(struct rewrite_context *ctx, ext2_ino_t ino, struct ext2_inode *inode)
{
	int p;
	if (ctx->fs != &vf_fs || ctx->inode_size != ISZ || !ctx->zero_inode || !ctx->ea_buf)
		vf_ctx_bad = 1;
	if (vf_nlog >= MAXLOG) { vf_log_overflow = 1; return; }
	vf_log_ino[vf_nlog] = ino;
	vf_log_ea[vf_nlog] = (inode->i_flags & EXT4_EA_INODE_FL) ? 1 : 0;
	vf_nlog++;
	for (p = 1; p <= NI; p++)
		if ((ext2_ino_t) p == ino)
			vf_count[p]++;
}
int main(void)
{
	int i, k, last_ea = -1, first_other = MAXLOG;

	VF_INPUT(IN);
	/* BOUND: NI inodes per scan, every i_flags / i_mode, every flags value 0..7, ea_inode feature on / off, Hurd or not */
	ASSUME(IN.flags <= REWRITE_ALL);
	ASSUME(IN.ea_feature <= 1 && IN.hurd <= 1);
	/* ASSUME: EXT4_EA_INODE_FL only occurs on a file system with the ea_inode feature (consistent file system) */
	for (i = 0; i < NI; i++)
		ASSUME(IN.ea_feature || !(IN.iflags[i] & EXT4_EA_INODE_FL));

	vf_sb.s_magic = EXT2_SUPER_MAGIC;
	vf_sb.s_rev_level = EXT2_DYNAMIC_REV;
	vf_sb.s_inode_size = ISZ;
	vf_sb.s_creator_os = IN.hurd ? EXT2_OS_HURD : EXT2_OS_LINUX;
	vf_sb.s_feature_incompat = IN.ea_feature ? EXT4_FEATURE_INCOMPAT_EA_INODE : 0;
	vf_fs.magic = EXT2_ET_MAGIC_EXT2FS_FILSYS;
	vf_fs.flags = EXT2_FLAG_RW;
	vf_fs.super = &vf_sb;
	vf_fs.blocksize = 1024;

	rewrite_inodes(&vf_fs, IN.flags);

	PROP(!vf_bad_call && !vf_ctx_bad && !vf_log_overflow, "right file system / scan / length; context carries fs, inode size, zero inode, xattr buffer");
	PROP(vf_nopen == vf_nclose, "every scan that was opened is closed");
	if (IN.hurd) {
		PROP(vf_nlog == 0 && vf_nopen == 0, "a Hurd file system is left alone");
	} else {
		for (i = 0; i < NI; i++) {
			int ea = (IN.iflags[i] & EXT4_EA_INODE_FL) != 0;
			int dir = (IN.mode[i] & 0170000) == 0040000;
			int want = ea ? (IN.flags & REWRITE_EA_FL) != 0 : dir ? (IN.flags & REWRITE_DIR_FL) != 0 : (IN.flags & REWRITE_NONDIR_FL) != 0;
			PROP(vf_count[i + 1] == want, "each inode is rewritten exactly once if its kind is selected by flags, else not at all");
		}
		for (k = 0; k < MAXLOG; k++)
			if (k < vf_nlog) {
				if (vf_log_ea[k])
					last_ea = k;
				else if (first_other == MAXLOG)
					first_other = k;
			}
		PROP(last_ea < first_other, "every EA inode is rewritten BEFORE every other inode (owners hash from the refreshed EA-inode hash)");
	}
	VF_END();
	return 0;
}
