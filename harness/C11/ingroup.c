/*
 * C11/ingroup: the two classification helpers move_block() relies on when the inode size is grown (tune2fs -I)
 * and a block bitmap / inode bitmap stands in the way of the larger inode table:
 *
 *   ext2fs_is_meta_block(fs, blk)         "blk is the block bitmap or the inode bitmap of its own group"
 *   ext2fs_is_block_in_group(fs, g, blk)  "blk lies in block group g" -- move_block() refuses (ENOSPC) to put the
 *                                          relocated bitmap anywhere else ("new fs meta data block should be in
 *                                          the same group"; without flex_bg e2fsck and the kernel reject a bitmap
 *                                          outside its group).
 *
 * Reference, from the on-disk format: group g covers exactly the blocks
 *     s_first_data_block + g * s_blocks_per_group  <=  blk  <  s_first_data_block + (g + 1) * s_blocks_per_group.
 * Everything is symbolic.
 */
#include "t2f.h"

struct vf_in {
	__u32 first_data_block, bpg, group;
	unsigned long long blk;
	__u32 bb, ib;			/* bitmap locations of blk's group */
};
VF_DECLARE_INPUT(struct vf_in, IN)
#include "vf_input.inc"

static struct struct_ext2_filsys vf_fs;
static struct ext2_super_block vf_sb;
#define VF_NG 4
static unsigned char vf_gd[VF_NG * 32] __attribute__((aligned(8)));

int main(void)
{
	unsigned long long lo, hi;
	int got, want;
	__u32 g;

	VF_INPUT(IN);
	/* BOUND: first data block 0 or 1, blocks per group 8..65528 (the format's range), group < 2^16 (IN_GROUP) / < 4 (META), block < 2^48 */
	ASSUME(IN.first_data_block <= 1);
	ASSUME(IN.bpg >= 8 && IN.bpg <= 65528);
	ASSUME(IN.blk >= IN.first_data_block && IN.blk < (1ULL << 48));

	vf_sb.s_magic = EXT2_SUPER_MAGIC;
	vf_sb.s_rev_level = EXT2_DYNAMIC_REV;
	vf_sb.s_first_data_block = IN.first_data_block;
	vf_sb.s_blocks_per_group = IN.bpg;
	vf_sb.s_clusters_per_group = IN.bpg;
	vf_fs.magic = EXT2_ET_MAGIC_EXT2FS_FILSYS;
	vf_fs.super = &vf_sb;
	vf_fs.blocksize = 1024;
	vf_fs.group_desc_count = VF_NG;
	vf_fs.desc_blocks = 1;
	vf_fs.group_desc = (struct opaque_ext2_group_desc *) vf_gd;

#if CHECK == 1
	ASSUME(IN.group < 65536);
	lo = (unsigned long long) IN.first_data_block + (unsigned long long) IN.group * IN.bpg;
	hi = lo + IN.bpg;
	want = (IN.blk >= lo && IN.blk < hi);
	got = ext2fs_is_block_in_group(&vf_fs, IN.group, IN.blk);
	PROP((got != 0) == (want != 0), "is_block_in_group(g, blk) iff blk lies in block group g");
#else
	/* the group of blk, found by search (not by division) */
	ASSUME(IN.blk < (unsigned long long) IN.first_data_block + (unsigned long long) VF_NG * IN.bpg);
	want = 0;
	for (g = 0; g < VF_NG; g++) {
		lo = (unsigned long long) IN.first_data_block + (unsigned long long) g * IN.bpg;
		if (IN.blk >= lo && IN.blk < lo + IN.bpg) {
			ext2fs_block_bitmap_loc_set(&vf_fs, g, IN.bb);
			ext2fs_inode_bitmap_loc_set(&vf_fs, g, IN.ib);
			want = (IN.blk == IN.bb || IN.blk == IN.ib);
		} else {
			/* ASSUME: no flex_bg (tune2fs -I refuses it): every other group's bitmaps lie inside that group */
			ext2fs_block_bitmap_loc_set(&vf_fs, g, lo + 2);
			ext2fs_inode_bitmap_loc_set(&vf_fs, g, lo + 3);
		}
	}
	got = ext2fs_is_meta_block(&vf_fs, IN.blk);
	PROP((got != 0) == (want != 0), "is_meta_block(blk) iff blk is a bitmap of the group that contains it");
#endif
	VF_END();
	return 0;
}
