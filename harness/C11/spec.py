META = {
    "id": "C11",
    "assumptions": [
        "allocation failure out of scope (--no-malloc-may-fail)",
        "featedit / featnames / featureset: request strings are concrete per query (14 / 17 strings); libc string functions are CBMC's models, "
        "isspace() the function (glibc -D__NO_CTYPE), sprintf a stub for the one format FEATURE_%c%d",
        "featureset: the heavy callees of update_feature_set are cut to recording stubs that succeed (remove_journal_inode, remove_journal_device, "
        "enable_uninit_bg, disable_uninit_bg, has_casefold_inode, ext2fs_read_bitmaps, mmp / orphan-file / quota helpers); not on a terminal "
        "(check_fsck_needed does not prompt); dynamic-revision superblock; metadata_csum and uninit_bg never both set",
        "dirtail / dxlimit: one directory block, well formed for the OLD feature set (freshly checked file system); block read / write are stubs on a "
        "byte array, little-endian host; an htree leaf that is one empty record spanning the block is excluded (indistinguishable from an interior node)",
        "itable: scaled-down geometry (inode size 4..8 -> 8..32 bytes, 16 / 32-byte blocks; expand_inode_table has no size constant); the enlarged tables "
        "lie inside the device and do not overlap (that is movemap's / moveblk's job)",
        "mntedit / mntnames: 10 concrete -o request strings; the journalling mode of s_default_mount_opts is treated as a 2-bit field as the code does",
"inoscan: the inode scan delivers one symbolic inode then the end; every block of the to-move bitmap has a list entry (moveblk's post-condition); "
        "the block iterator presents one reference to the callback it is given",
        "uninitbg: the callers cleared the feature bit in the superblock before the call, and with FLAG = gdt_csum metadata_csum is not set; "
        "ext2fs_read_bitmaps and zero_empty_inodes (cut) are stubs that record the feature word and may fail; 3 groups, no meta_bg",
        "zeroino: the scan stub delivers all 8 inodes in order (no checksum feature set while it runs: decided in uninitbg)",
"rwpasses: rewrite_one_inode cut to a logging stub, every scan delivers the same 4 inodes in number order, EXT4_EA_INODE_FL only with the ea_inode feature; "
        "rwone: the four static callees of rewrite_one_inode cut to logging stubs, all I/O stubs succeed, no 64bit feature",
        "jrelease: the iterate stub presents the journal's data blocks and ONE mapping block (blockcnt < 0), the latter only without BLOCK_FLAG_DATA_ONLY",
        "jrelease / xlate / moveblk / movemap: bitmaps are one byte per block (bytemap.h); the block iterator, the allocator (first free block at or after "
        "the goal, wrapping), the bad-block list and the device are stubs; no flex_bg (tune2fs -I refuses it), no bigalloc",
    ],
    "outside": [
        "THIS IS A SET OF KERNEL SLICES. No harness runs tune2fs main(), none runs a sequence of tune2fs invocations, none traverses a whole file "
        "system, none decides 'every file is unchanged' or 'e2fsck afterwards completes the conversion and checks clean'. The property as stated "
        "(any sequence of accepted requests on any consistent file system) is NOT decided",
        "rewrite_metadata_checksums, rewrite_directory's block walk, and of rewrite_inodes / rewrite_one_inode everything behind the stubs of rwpasses / rwone "
        "(the real inode scan, the hash computations update_ea_inode_hash / update_*_xattr_hashes themselves, the real inode / xattr writers), "
        "update_xattr_entry_hashes, the checksum values themselves (C14), ext2fs_init_csum_seed, MMP and journal superblock checksums",
        "enable_uninit_bg; of disable_uninit_bg / zero_empty_inodes everything behind the stubs of uninitbg / zeroino (the real bitmap loader, the real "
        "inode scan and its skipping of INODE_UNINIT groups / itable_unused tails under a checksum feature, the real inode writer); add_journal, remove_journal_device, "
        "handle_quota_options and lib/support quota code, orphan-file creation / truncation, ext2fs_mmp_init / mmp_clear",
        "main(): option parsing (getopt, parse_time, -c -C -e -g -i -m -r -u -L -M -E -U -T arithmetic), the order of the option handlers, the UUID change "
        "(-U) incl. fs_update_journal_user, the undo file set-up, the closefs path (exit(1) without ext2fs_close after a refusal is read off the source, "
        "not decided), update_mntopts / e2p_edit_mntopts, parse_extended_opts",
        "inode_scan_and_fix beyond ONE inode per scan (inoscan): the real inode scan, ext2fs_block_iterate3 on real extent trees / indirect blocks, "
        "ext2fs_write_inode; an xattr block in the to-move bitmap without a list entry (translate_block 0: the code skips the inode's block walk); "
        "ext2fs_calculate_summary_stats, resize_inode's sequencing and its error / undo paths, the real allocator ext2fs_new_block2, the real bitmap code",
        "request strings other than the 14 / 17 listed; lists that mix a refused and an accepted dependency rule; dir_index, orphan_file, mmp, casefold, "
        "encrypt, project, sparse_super, stable_inodes, verity, read-only requests of update_feature_set",
        "directory blocks larger than 64 bytes, the dx root block (block 0 of an indexed directory), inline-data directories, clear_htree (dir_index being "
        "removed), byte-swapped (big-endian) hosts",
    ],
}
HARNESSES = [
    dict(name="ingroup", src="ingroup.c", extra_src=["lib/ext2fs/blknum.c"],
         funcs=["ext2fs_is_block_in_group"], stubs=["gettext", "puts", "printf", "fprintf", "fputs"],
         configs=[{"CHECK": 1}],
         unwind=6, backends=["z3", "kissat", "default"],
         bound="first data block 0/1, blocks per group 8..65528, group < 2^16, block < 2^48: all symbolic"),
    dict(name="metablock", src="ingroup.c", extra_src=["lib/ext2fs/blknum.c"],
         funcs=["ext2fs_is_meta_block", "ext2fs_group_of_blk2", "ext2fs_block_bitmap_loc"], stubs=["gettext", "puts", "printf", "fprintf", "fputs"],
         configs=[{"CHECK": 2}],
         unwind=6, backends=["kissat", "default", "z3"],
         bound="first data block 0/1, blocks per group 8..65528, 4 groups, block anywhere in them, bitmap locations of its group: all symbolic"),
]
HARNESSES += [
    dict(name="featedit", src="featedit.c",
         funcs=["e2p_edit_feature2", "e2p_string2feature", "skip_over_word", "skip_over_blanks"],
         configs=[{"TOK": t} for t in range(1, 15)] +
                 [{"TOK": 7, "NO_CLR": None}, {"TOK": 7, "NO_OK": None, "NO_CLR": None}, {"TOK": 8, "NO_OK": None}],
         unwind=8, unwindset=["e2p_string2feature.0:70", "strcasecmp.0:24", "strncasecmp.0:10", "skip_over_word.0:24",
                              "skip_over_blanks.0:4", "e2p_edit_feature2.0:5", "strlen.0:40", "strcpy.0:40"],
         backends=["default"], witness_per_config=True,
         bound="14 concrete request strings (single names, ^ - + prefixes, FEATURE_Xn names, lists of 2-3 names with , blank and tab "
               "separators, unknown names, none); feature words, ok mask, clear-ok mask: all 2^288 values; with / without masks"),
]
HARNESSES += [
    dict(name="featnames", src="featnames.c",
         funcs=["e2p_string2feature", "e2p_feature2string", "e2p_feature_to_string"],
         configs=[{"WORD": 0, "UPPER": None}, {"WORD": 1}, {"WORD": 2}] +
                 [{"WORD": 1, "UPPER": None, "_tier": "thorough"}, {"WORD": 2, "UPPER": None, "_tier": "thorough"},
                  {"WORD": 2, "SYMBOLIC_BIT": None, "_tier": "thorough"}],
         unwind=8, unwindset=["e2p_string2feature.0:70", "e2p_feature_to_string.0:70", "e2p_feature_to_string.1:33", "strcasecmp.0:24",
                              "strncasecmp.0:10", "strncpy.0:24", "sprintf.0:17", "main.0:34", "main.1:40", "main.2:40",
                              "vf_roundtrip.0:24", "vf_roundtrip.1:24", "vf_numeric.0:10", "vf_named.0:24", "strtol.0:4"],
         backends=["default"], cbmc_flags=["--object-bits", "12"],
         bound="all 3 x 32 (word, bit) pairs, 36 documented names, FEATURE_<C|I|R>0..32"),
]
def dt_uw(bs):
    n = bs // 4 + 1
    return ["main.%d:%d" % (i, bs + 2) for i in range(14)] + ["vf_scan.0:%d" % n, "vf_scan.1:%d" % n, "vf_same_entry.0:%d" % (bs + 1),
            "rewrite_dir_block.0:%d" % (bs // 12 + 2), "ext2fs_read_dir_block4.0:%d" % (bs + 1), "ext2fs_write_dir_block4.0:%d" % (bs + 1),
            "memset.0:13"]

HARNESSES += [
    dict(name="dirtail", src="dirtail.c", extra_src=["lib/ext2fs/csum.c", "lib/ext2fs/dir_iterate.c"],
         funcs=["rewrite_dir_block", "request_dir_fsck_afterwards", "ext2fs_get_rec_len", "ext2fs_set_rec_len", "ext2fs_initialize_dirent_tail"],
         stubs=["ext2fs_read_dir_block4", "ext2fs_write_dir_block4", "gettext", "puts", "printf", "fprintf", "fputs"],
         configs=[{"BS": 48, "CSUM": 1, "PRE_TAIL": 0, "_unwindset": dt_uw(48)},
                  {"BS": 48, "CSUM": 0, "PRE_TAIL": 1, "_unwindset": dt_uw(48)},
                  {"BS": 48, "CSUM": 1, "PRE_TAIL": 1, "_unwindset": dt_uw(48)},
                  {"BS": 48, "CSUM": 0, "PRE_TAIL": 0, "_unwindset": dt_uw(48)},
                  {"BS": 48, "CSUM": 1, "PRE_TAIL": 0, "HTREE_LEAF": None, "_unwindset": dt_uw(48)},
                  {"BS": 40, "CSUM": 1, "PRE_TAIL": 0, "_unwindset": dt_uw(40)},
                  {"BS": 64, "CSUM": 1, "PRE_TAIL": 0, "_unwindset": dt_uw(64), "_tier": "thorough"},
                  {"BS": 64, "CSUM": 0, "PRE_TAIL": 1, "_unwindset": dt_uw(64), "_tier": "thorough"}],
         unwind=4, backends=["default", "kissat"], witness_per_config=True,
         bound="one leaf block of 40 / 48 (thorough: 64) bytes, every byte symbolic under well-formedness; s_state symbolic"),
    dict(name="dxlimit", src="dirtail.c", defs=["KIND=1"], extra_src=["lib/ext2fs/csum.c", "lib/ext2fs/dir_iterate.c"],
         funcs=["rewrite_dir_block", "request_dir_fsck_afterwards", "ext2fs_get_dx_countlimit", "__get_dx_countlimit"],
         stubs=["ext2fs_read_dir_block4", "ext2fs_write_dir_block4", "gettext", "puts", "printf", "fprintf", "fputs"],
         configs=[{"BS": 48, "CSUM": 1, "PRE_TAIL": 0, "_unwindset": dt_uw(48)},
                  {"BS": 48, "CSUM": 0, "PRE_TAIL": 1, "_unwindset": dt_uw(48)},
                  {"BS": 48, "CSUM": 1, "PRE_TAIL": 1, "_unwindset": dt_uw(48)},
                  {"BS": 48, "CSUM": 0, "PRE_TAIL": 0, "_unwindset": dt_uw(48)}],
         unwind=4, backends=["default", "kissat"], witness_per_config=True,
         bound="one htree interior node of 48 bytes (up to 5 index entries), every byte symbolic under well-formedness"),
]
def it_uw(ng, ipg, old, new, bsz, nblk):
    newb = (ipg * new + bsz - 1) // bsz
    return ["main.%d:%d" % (i, max(nblk * bsz, newb * bsz) + 2) for i in range(12)] + \
        ["expand_inode_table.0:%d" % (ipg + 1), "expand_inode_table.1:%d" % (ng + 1),
         "io_channel_read_blk64.0:%d" % (newb * bsz + 1), "io_channel_read_blk64.1:%d" % (nblk + 1),
         "io_channel_write_blk64.0:%d" % (newb * bsz + 1), "io_channel_write_blk64.1:%d" % (nblk + 1)]

HARNESSES += [
    dict(name="itable", src="itable.c", extra_src=["lib/ext2fs/blknum.c"],
         funcs=["expand_inode_table", "ext2fs_inode_table_loc"],
         stubs=["io_channel_read_blk64", "io_channel_write_blk64", "ext2fs_free_inode_cache", "gettext", "puts", "printf", "fprintf", "fputs"],
         configs=[{"NG": 2, "IPG": 4, "OLD": 8, "NEW": 16, "BSZ": 16, "NBLK": 12, "_unwindset": it_uw(2, 4, 8, 16, 16, 12)},
                  {"NG": 2, "IPG": 4, "OLD": 8, "NEW": 32, "BSZ": 32, "NBLK": 10, "_unwindset": it_uw(2, 4, 8, 32, 32, 10)},
                  {"NG": 1, "IPG": 8, "OLD": 4, "NEW": 8, "BSZ": 16, "NBLK": 6, "_unwindset": it_uw(1, 8, 4, 8, 16, 6)},
                  {"NG": 3, "IPG": 4, "OLD": 8, "NEW": 16, "BSZ": 16, "NBLK": 16, "_unwindset": it_uw(3, 4, 8, 16, 16, 16), "_tier": "thorough"}],
         unwind=4, backends=["default", "kissat"], witness_per_config=True,
         bound="1..2 (thorough 3) groups x 4..8 inodes, inode size 8 -> 16 / 8 -> 32 / 4 -> 8 bytes (the function is size-agnostic), 16 / 32-byte blocks, "
               "device of 6..16 blocks: every device byte, every table placement, every single I/O fault"),
]
T2F_STUBS = ["gettext", "puts", "printf", "fprintf", "fputs"]
HARNESSES += [
    dict(name="featureset", src="featureset.c", extra_src=["lib/e2p/feature.c"], defs=["__NO_CTYPE=1"],
         cut_statics={"misc/tune2fs.c": ["remove_journal_inode", "remove_journal_device", "enable_uninit_bg", "disable_uninit_bg",
                                         "has_casefold_inode"]},
         funcs=["update_feature_set", "check_fsck_needed", "request_fsck_afterwards", "e2p_edit_feature2", "e2p_string2feature"],
         stubs=T2F_STUBS + ["ext2fs_read_bitmaps", "ext2fs_truncate_orphan_file", "ext2fs_inode_alloc_stats2", "ext2fs_default_orphan_file_blocks",
                            "ext2fs_mmp_init", "ext2fs_mmp_read", "ext2fs_block_alloc_stats2", "uuid_is_null", "uuid_generate",
                            "e2p_get_encoding_flags", "ext2fs_crc32c_le", "ext2fs_update_dynamic_rev", "ext2fs_check_desc",
                            "proceed_question", "getenv", "isatty", "access", "remove_journal_inode", "remove_journal_device",
                            "enable_uninit_bg", "disable_uninit_bg", "has_casefold_inode"],
         configs=[{"REQ": r} for r in range(1, 18)],
         unwind=8, unwindset=["e2p_string2feature.0:70", "e2p_feature_to_string.0:70", "e2p_feature_to_string.1:33", "strcasecmp.0:24",
                              "strncasecmp.0:10", "skip_over_word.0:24", "skip_over_blanks.0:4", "e2p_edit_feature2.0:5",
                              "strlen.0:40", "strcpy.0:40", "strncpy.0:24", "update_feature_set.0:4", "update_feature_set.1:4", "main.0:4"],
         backends=["default"], witness_per_config=True, cbmc_flags=["--object-bits", "10"],
         bound="17 concrete -O requests; the three feature words, s_state, s_lastcheck, s_mtime, mount state (mounted / read-only / busy), "
               "number of -f, journal inode / device numbers, stored and live checksum seed, -J size, -Q given: all symbolic"),
]
def jr_uw(ng, bpg, nj):
    nb = 1 + ng * bpg
    return ["main.%d:%d" % (i, max(nb, 18, 130) + 1) for i in range(16)] + \
        ["ext2fs_mark_generic_bmap.0:%d" % (nb + 1), "ext2fs_unmark_generic_bmap.0:%d" % (nb + 1), "ext2fs_test_generic_bmap.0:%d" % (nb + 1),
         "ext2fs_block_iterate3.0:%d" % (nj + 1), "ext2fs_group_desc_csum_set.0:%d" % (ng + 1), "memset.0:70"]

HARNESSES += [
    dict(name="jrelease", src="jrelease.c", extra_src=["lib/ext2fs/blknum.c"],
         funcs=["remove_journal_inode", "release_blocks_proc", "ext2fs_group_of_blk2", "ext2fs_bg_free_blocks_count_set", "ext2fs_free_blocks_count_add"],
         stubs=T2F_STUBS + ["ext2fs_read_inode", "ext2fs_write_inode", "ext2fs_read_bitmaps", "ext2fs_block_iterate3", "ext2fs_group_desc_csum_set",
                            "ext2fs_mark_generic_bmap", "ext2fs_unmark_generic_bmap", "ext2fs_test_generic_bmap"],
         configs=[{"NG": 3, "BPG": 8, "NJ": 3, "_unwindset": jr_uw(3, 8, 3)},
                  {"NG": 2, "BPG": 8, "NJ": 1, "_unwindset": jr_uw(2, 8, 1)},
                  {"NG": 3, "BPG": 8, "NJ": 5, "_unwindset": jr_uw(3, 8, 5), "_tier": "thorough"}],
         unwind=4, backends=["kissat", "default"], witness_per_config=True,
         bound="2..3 groups x 8 blocks, journal of 1 / 3 (thorough 5) blocks anywhere; in-use set, journal inode number, flags, s_jnl_blocks, overhead symbolic"),
]
def bm_uw(ng, bpg):
    nb = 1 + ng * bpg
    return ["main.%d:%d" % (i, max(nb * 2, 8) + 1) for i in range(24)] + \
        ["ext2fs_mark_generic_bmap.0:%d" % (nb + 1), "ext2fs_unmark_generic_bmap.0:%d" % (nb + 1), "ext2fs_test_generic_bmap.0:%d" % (nb + 1),
         "move_block.0:%d" % (nb + 1), "translate_block.0:%d" % (nb + 1), "group_desc_scan_and_fix.0:%d" % (ng + 1),
         "ext2fs_new_block2.0:%d" % (nb + 1), "ext2fs_new_block2.1:%d" % (nb + 1),
         "io_channel_read_blk64.0:3", "io_channel_read_blk64.1:%d" % (nb + 1), "io_channel_write_blk64.0:3", "io_channel_write_blk64.1:%d" % (nb + 1)]

BM_STUBS = T2F_STUBS + ["ext2fs_mark_generic_bmap", "ext2fs_unmark_generic_bmap", "ext2fs_test_generic_bmap"]
HARNESSES += [
    dict(name="xlate", src="blkmove.c", defs=["MODE=1"], extra_src=["lib/ext2fs/blknum.c"],
         funcs=["translate_block", "process_block", "group_desc_scan_and_fix", "ext2fs_block_bitmap_loc_set"],
         stubs=BM_STUBS,
         configs=[{"NG": 3, "BPG": 4, "_unwindset": bm_uw(3, 4)}],
         unwind=5, backends=["default", "kissat"],
         bound="list of 3 moves among 13 blocks (3 groups x 4), every old / new location, every to-move bitmap, every bitmap placement, every probe"),
    dict(name="moveblk", src="blkmove.c", defs=["MODE=2"], extra_src=["lib/ext2fs/blknum.c"],
         funcs=["move_block", "ext2fs_is_meta_block", "ext2fs_is_block_in_group", "translate_block", "ext2fs_group_of_blk2"],
         stubs=BM_STUBS + ["ext2fs_new_block2", "io_channel_read_blk64", "io_channel_write_blk64"],
         configs=[{"NG": 2, "BPG": 4, "_unwindset": bm_uw(2, 4)},
                  {"NG": 3, "BPG": 4, "_unwindset": bm_uw(3, 4), "_tier": "thorough"}],
         unwind=5, backends=["default", "kissat"], witness_per_config=True,
         bound="2 (thorough 3) groups x 4 blocks + block 0, 2-byte blocks: every in-use set, every to-move subset, every bitmap placement inside its group, every device content"),
]
def mm_uw(ng, bpg, newb):
    nb = 1 + ng * bpg
    return ["main.%d:%d" % (i, nb + 1) for i in range(12)] + \
        ["ext2fs_mark_generic_bmap.0:%d" % (nb + 1), "ext2fs_unmark_generic_bmap.0:%d" % (nb + 1), "ext2fs_test_generic_bmap.0:%d" % (nb + 1),
         "get_move_bitmaps.0:%d" % (newb + 1), "get_move_bitmaps.1:%d" % (ng + 1)]

HARNESSES += [
    dict(name="movemap", src="movemap.c", extra_src=["lib/ext2fs/blknum.c"],
         funcs=["get_move_bitmaps", "ext2fs_inode_table_loc"],
         stubs=BM_STUBS + ["ext2fs_read_bb_inode", "ext2fs_badblocks_list_test", "ext2fs_badblocks_list_free"],
         configs=[{"NG": 2, "BPG": 8, "OLDB": 1, "NEWB": 3, "_unwindset": mm_uw(2, 8, 3)},
                  {"NG": 2, "BPG": 8, "OLDB": 2, "NEWB": 4, "_unwindset": mm_uw(2, 8, 4)},
                  {"NG": 3, "BPG": 8, "OLDB": 2, "NEWB": 4, "_unwindset": mm_uw(3, 8, 4), "_tier": "thorough"}],
         unwind=5, backends=["default", "kissat"], witness_per_config=True,
         bound="2 (thorough 3) groups x 8 blocks, last group 1..8 blocks long, inode table 1 -> 3 / 2 -> 4 blocks anywhere in its group; "
               "in-use set, free count, one optional bad block: symbolic"),
]
MNT_UW = ["e2p_string2mntopt.0:14", "e2p_mntopt2string.0:14", "e2p_mntopt2string.1:33", "strcasecmp.0:24", "strncasecmp.0:9",
          "skip_over_word.0:24", "skip_over_blanks.0:4", "e2p_edit_mntopts.0:5", "strlen.0:40", "strcpy.0:40", "sprintf.0:17",
          "main.0:34", "main.1:34", "main.2:34", "strtol.0:4"]
HARNESSES += [
    dict(name="mntedit", src="mntedit.c",
         funcs=["e2p_edit_mntopts", "e2p_string2mntopt", "skip_over_word", "skip_over_blanks"],
         configs=[{"TOK": t} for t in range(1, 11)],
         unwind=8, unwindset=MNT_UW, backends=["default"], witness_per_config=True,
         bound="10 concrete -o request strings; s_default_mount_opts and the permission mask: all 2^64 values"),
    dict(name="mntnames", src="mntedit.c", defs=["ROUNDTRIP"],
         funcs=["e2p_mntopt2string", "e2p_string2mntopt"],
         configs=[{}],
         unwind=8, unwindset=MNT_UW, backends=["default"],
         bound="bits 0..30 of s_default_mount_opts, enumerated"),
]
HARNESSES += [
    dict(name="inoscan", src="inoscan.c", extra_src=["lib/ext2fs/blknum.c", "lib/ext2fs/valid_blk.c"],
         funcs=["inode_scan_and_fix", "translate_block", "process_block", "ext2fs_file_acl_block", "ext2fs_file_acl_block_set",
                "ext2fs_inode_has_valid_blocks2"],
         stubs=BM_STUBS + ["ext2fs_open_inode_scan", "ext2fs_close_inode_scan", "ext2fs_get_next_inode", "ext2fs_write_inode", "ext2fs_block_iterate3"],
         configs=[{}],
         unwind=4, unwindset=["main.%d:18" % i for i in range(12)] +
                             ["ext2fs_test_generic_bmap.0:17", "ext2fs_mark_generic_bmap.0:17", "ext2fs_unmark_generic_bmap.0:17",
                              "translate_block.0:4", "inode_scan_and_fix.0:3"],
         backends=["default", "kissat"],
         bound="one inode per scan: every number, link count, mode, flag word, size, i_blocks, i_block[] content, xattr block among 16 blocks; "
               "to-move bitmap and a 2-entry move list (targets up to 2^48 with the 64bit feature) symbolic"),
]
def ub_uw(ng, bpg):
    nb = 1 + ng * bpg
    return ["main.%d:%d" % (i, nb + 1) for i in range(14)] + \
        ["ext2fs_mark_generic_bmap.0:%d" % (nb + 1), "ext2fs_unmark_generic_bmap.0:%d" % (nb + 1), "ext2fs_test_generic_bmap.0:%d" % (nb + 1),
         "disable_uninit_bg.0:%d" % (ng + 1), "ext2fs_group_desc_csum_set.0:%d" % (ng + 1), "test_root.0:4"]

HARNESSES += [
    dict(name="uninitbg", src="uninitbg.c", extra_src=["lib/ext2fs/blknum.c", "lib/ext2fs/closefs.c"],
         cut_statics={"misc/tune2fs.c": ["zero_empty_inodes"]},
         funcs=["disable_uninit_bg", "request_fsck_afterwards", "ext2fs_super_and_bgd_loc2", "ext2fs_bg_has_super", "ext2fs_bg_flags",
                "ext2fs_bg_itable_unused"],
         stubs=BM_STUBS + ["ext2fs_read_bitmaps", "zero_empty_inodes", "ext2fs_group_desc_csum_set", "com_err", "perror", "gettimeofday"],
         configs=[{"FLAG": "0x0010", "NG": 3, "BPG": 16, "_unwindset": ub_uw(3, 16)},
                  {"FLAG": "0x0400", "NG": 3, "BPG": 16, "_unwindset": ub_uw(3, 16)}],
         unwind=4, backends=["default", "kissat"], witness_per_config=True,
         bound="3 groups x 16 blocks, 1 KiB blocks; every descriptor's flags / itable_unused / bitmap locations, in-use set, sparse_super, "
               "s_state, other ro_compat bits, failure of either callee: symbolic; FLAG = gdt_csum / metadata_csum per query"),
]
def zi_uw(ng, ipg, isz):
    ni = ng * ipg
    return ["main.%d:%d" % (i, ni + 3) for i in range(6)] + \
        ["ext2fs_mark_generic_bmap.0:%d" % (ni + 2), "ext2fs_unmark_generic_bmap.0:%d" % (ni + 2), "ext2fs_test_generic_bmap.0:%d" % (ni + 2),
         "zero_empty_inodes.0:%d" % (ni + 2), "ext2fs_get_next_inode_full.0:%d" % (isz + 1), "ext2fs_get_next_inode_full.1:%d" % (ni + 1),
         "ext2fs_write_inode_full.0:%d" % (isz + 1), "ext2fs_write_inode_full.1:%d" % (ni + 2)]

ZI_STUBS = BM_STUBS + ["ext2fs_open_inode_scan", "ext2fs_close_inode_scan", "ext2fs_get_next_inode_full", "ext2fs_write_inode_full"]
HARNESSES += [
    dict(name="zeroino", src="zeroino.c",
         funcs=["zero_empty_inodes"], stubs=ZI_STUBS,
         configs=[{"NG": 2, "IPG": 4, "ISZ": 32, "_unwindset": zi_uw(2, 4, 32)}],
         unwind=4, backends=["default", "kissat"],
         bound="2 groups x 4 inodes of 32 bytes: every inode bitmap, every inode content, every single write fault"),
    dict(name="zeroino_openfail", src="zeroino.c", defs=["OPEN_FAIL"],
         funcs=["zero_empty_inodes"], stubs=ZI_STUBS,
         configs=[{"NG": 2, "IPG": 4, "ISZ": 32, "_unwindset": zi_uw(2, 4, 32)}],
         unwind=4, backends=["default", "kissat"],
         bound="as zeroino, plus ext2fs_open_inode_scan failing"),
]
HARNESSES += [
    dict(name="rwpasses", src="rwpasses.c",
         cut_statics={"misc/tune2fs.c": ["rewrite_one_inode"]},
         funcs=["rewrite_inodes", "rewrite_inodes_pass"],
         stubs=T2F_STUBS + ["ext2fs_open_inode_scan", "ext2fs_close_inode_scan", "ext2fs_get_next_inode_full", "rewrite_one_inode",
                            "com_err", "perror", "gettimeofday"],
         configs=[{"NI": 4}],
         unwind=4, unwindset=["main.%d:10" % i for i in range(6)] +
                             ["rewrite_inodes_pass.%d:6" % i for i in range(6)] + ["ext2fs_get_next_inode_full.0:5", "rewrite_one_inode.0:5"],
         backends=["default", "kissat"],
         bound="4 inodes per scan: every i_flags / i_mode; flags 0..7; ea_inode feature on / off; Hurd or not"),
]
RWONE_CUT = ["update_ea_inode_hash", "update_inline_xattr_hashes", "update_block_xattr_hashes", "rewrite_directory"]
HARNESSES += [
    dict(name="rwone", src="rwone.c", extra_src=["lib/ext2fs/blknum.c", "lib/ext2fs/valid_blk.c"],
         cut_statics={"misc/tune2fs.c": RWONE_CUT},
         funcs=["rewrite_one_inode", "ext2fs_file_acl_block", "ext2fs_inode_has_valid_blocks2"],
         stubs=BM_STUBS + RWONE_CUT + ["ext2fs_write_inode_full", "ext2fs_fix_extents_checksums", "ext2fs_read_ext_attr3", "ext2fs_write_ext_attr3",
                                       "com_err", "perror", "gettimeofday"],
         configs=[{"ISZ": 256}, {"ISZ": 128}],
         unwind=4, unwindset=["main.0:258", "main.1:258", "main.2:258", "ext2fs_write_inode_full.0:258", "memcmp.0:258", "memset.0:258",
                              "ext2fs_test_generic_bmap.0:9", "ext2fs_mark_generic_bmap.0:9", "ext2fs_unmark_generic_bmap.0:9"],
         backends=["default", "kissat"], witness_per_config=True,
         bound="one inode of 256 / 128 bytes, every byte symbolic, in use or not"),
]
MANIFEST = {
    "level": "model_checking",
    "technique": "Bounded-exhaustive model checking (CBMC 6.11) of kernel slices of misc/tune2fs.c and lib/e2p/feature.c compiled from the real "
                 "sources: the -O request parser and name table, update_feature_set's permission / dependency / guard rules for 17 requests, the "
                 "directory-block conversion of the checksum rewrite (leaf tail insertion / removal, htree limit), and the pieces of the inode-size "
                 "change (blocks to move, relocation, reference translation, inode-table expansion) plus journal block release. Each harness: symbolic "
                 "pre-state under a stated invariant, ONE call of the real function, an independent reference written from the on-disk format / "
                 "tune2fs(8); counterexamples are replayed natively (gcc + ASan/UBSan) against the same sources.",
    "text": "Within each harness's stated bounds the verdict covers every value of the symbolic inputs (feature words, masks, block contents, "
            "bitmaps, geometry placements). This is a THIN set of slices of C11: no run of tune2fs main, no sequence of runs, no whole-file-system "
            "traversal, no 'e2fsck afterwards checks clean'. Four genuine defects these harnesses found on the pinned tree are repaired (known_findings.txt).",
    "note": "Trusted: CBMC's C semantics and libc string models, the recording stubs and the byte-per-block bitmap stand-in, the harness's restatement "
            "of the on-disk format and of tune2fs(8). Repaired defects of the pinned tree these harnesses reported (fix: commits, known_findings.txt): tune2fs -O none bypassing "
            "clear_ok_features (demo_O_none.sh), get_move_bitmaps ignoring the end of the group / file system (demo_I_short_last_group.sh), "
            "ext2fs_is_block_in_group off by one, e2p_string2mntopt parsing MNTOPT_<n> at the wrong offset. Observed, not asserted: move_block never "
            "resets meta_data (spurious ENOSPC refusal after a bitmap block moved). Also repaired: zero_empty_inodes() handed an uninitialised ext2_inode_scan to ext2fs_close_inode_scan() when the open failed (zeroino_openfail). "
            "Seeded changes: m1 (inode_scan_and_fix early-out hoisted) is caught by inoscan, "
            "m2 (disable_uninit_bg restores the feature bit too late) by uninitbg, m3 (dx count == limit) by dxlimit.",
}
MANIFEST["assumptions"] = META["assumptions"]
MANIFEST["outside"] = META["outside"]
