META = {
    "assumptions": ["allocation failure out of scope (--no-malloc-may-fail)"],
    "outside": [],
}
HARNESSES = [
    dict(name="ingroup", src="ingroup.c", extra_src=["lib/ext2fs/blknum.c"],
         funcs=["ext2fs_is_block_in_group", "ext2fs_is_meta_block", "ext2fs_group_of_blk2"],
         configs=[{"CHECK": 2}, {"CHECK": 1}],
         unwind=6, backends=["default", "kissat", "z3"], witness_per_config=True,
         bound="first data block 0/1, blocks per group 8..65528, group < 2^16, block < 2^48: all symbolic"),
]
HARNESSES += [
    dict(name="featedit", src="featedit.c",
         funcs=["e2p_edit_feature2", "e2p_string2feature", "skip_over_word", "skip_over_blanks"],
         configs=[{"TOK": t} for t in range(1, 15)] +
                 [{"TOK": 7, "NO_CLR": None}, {"TOK": 7, "NO_OK": None, "NO_CLR": None}, {"TOK": 8, "NO_OK": None}],
         unwind=8, unwindset=["e2p_string2feature.0:70", "strcasecmp.0:24", "strncasecmp.0:10", "skip_over_word.0:24",
                              "skip_over_blanks.0:4", "e2p_edit_feature2.0:5", "strlen.0:40", "strcpy.0:40"],
         backends=["default"], witness_per_config=True,
         bound="14 concrete request strings (single names, ^ - + prefixes, FEATURE_Xn names, lists of 2-3 names with , blank and tab "
               "separators, unknown names, none); feature words, ok mask, clear-ok mask: all 2^288 values; with / without masks"),
]
HARNESSES += [
    dict(name="featnames", src="featnames.c",
         funcs=["e2p_string2feature", "e2p_feature2string", "e2p_feature_to_string"],
         configs=[{"WORD": 0, "UPPER": None}, {"WORD": 1}, {"WORD": 2}] +
                 [{"WORD": 1, "UPPER": None, "_tier": "thorough"}, {"WORD": 2, "UPPER": None, "_tier": "thorough"},
                  {"WORD": 2, "SYMBOLIC_BIT": None, "_tier": "thorough"}],
         unwind=8, unwindset=["e2p_string2feature.0:70", "e2p_feature_to_string.0:70", "e2p_feature_to_string.1:33", "strcasecmp.0:24",
                              "strncasecmp.0:10", "strncpy.0:24", "sprintf.0:17", "main.0:34", "main.1:40", "main.2:40",
                              "vf_roundtrip.0:24", "vf_roundtrip.1:24", "vf_numeric.0:10", "vf_named.0:24", "strtol.0:4"],
         backends=["default"], cbmc_flags=["--object-bits", "12"],
         bound="all 3 x 32 (word, bit) pairs, 36 documented names, FEATURE_<C|I|R>0..32"),
]
def dt_uw(bs):
    n = bs // 4 + 1
    return ["main.%d:%d" % (i, bs + 2) for i in range(14)] + ["vf_scan.0:%d" % n, "vf_scan.1:%d" % n, "vf_same_entry.0:%d" % (bs + 1),
            "rewrite_dir_block.0:%d" % (bs // 12 + 2), "ext2fs_read_dir_block4.0:%d" % (bs + 1), "ext2fs_write_dir_block4.0:%d" % (bs + 1),
            "memset.0:13"]

HARNESSES += [
    dict(name="dirtail", src="dirtail.c", extra_src=["lib/ext2fs/csum.c", "lib/ext2fs/dir_iterate.c"],
         funcs=["rewrite_dir_block", "request_dir_fsck_afterwards", "ext2fs_get_rec_len", "ext2fs_set_rec_len", "ext2fs_initialize_dirent_tail"],
         stubs=["ext2fs_read_dir_block4", "ext2fs_write_dir_block4", "gettext", "puts", "printf", "fprintf", "fputs"],
         configs=[{"BS": 48, "CSUM": 1, "PRE_TAIL": 0, "_unwindset": dt_uw(48)},
                  {"BS": 48, "CSUM": 0, "PRE_TAIL": 1, "_unwindset": dt_uw(48)},
                  {"BS": 48, "CSUM": 1, "PRE_TAIL": 1, "_unwindset": dt_uw(48)},
                  {"BS": 48, "CSUM": 0, "PRE_TAIL": 0, "_unwindset": dt_uw(48)},
                  {"BS": 48, "CSUM": 1, "PRE_TAIL": 0, "HTREE_LEAF": None, "_unwindset": dt_uw(48)},
                  {"BS": 40, "CSUM": 1, "PRE_TAIL": 0, "_unwindset": dt_uw(40)},
                  {"BS": 64, "CSUM": 1, "PRE_TAIL": 0, "_unwindset": dt_uw(64), "_tier": "thorough"},
                  {"BS": 64, "CSUM": 0, "PRE_TAIL": 1, "_unwindset": dt_uw(64), "_tier": "thorough"}],
         unwind=4, backends=["default", "kissat"], witness_per_config=True,
         bound="one leaf block of 40 / 48 (thorough: 64) bytes, every byte symbolic under well-formedness; s_state symbolic"),
    dict(name="dxlimit", src="dirtail.c", defs=["KIND=1"], extra_src=["lib/ext2fs/csum.c", "lib/ext2fs/dir_iterate.c"],
         funcs=["rewrite_dir_block", "request_dir_fsck_afterwards", "ext2fs_get_dx_countlimit", "__get_dx_countlimit"],
         stubs=["ext2fs_read_dir_block4", "ext2fs_write_dir_block4", "gettext", "puts", "printf", "fprintf", "fputs"],
         configs=[{"BS": 48, "CSUM": 1, "PRE_TAIL": 0, "_unwindset": dt_uw(48)},
                  {"BS": 48, "CSUM": 0, "PRE_TAIL": 1, "_unwindset": dt_uw(48)},
                  {"BS": 48, "CSUM": 1, "PRE_TAIL": 1, "_unwindset": dt_uw(48)},
                  {"BS": 48, "CSUM": 0, "PRE_TAIL": 0, "_unwindset": dt_uw(48)}],
         unwind=4, backends=["default", "kissat"], witness_per_config=True,
         bound="one htree interior node of 48 bytes (up to 5 index entries), every byte symbolic under well-formedness"),
]
def it_uw(ng, ipg, old, new, bsz, nblk):
    newb = (ipg * new + bsz - 1) // bsz
    return ["main.%d:%d" % (i, max(nblk * bsz, newb * bsz) + 2) for i in range(12)] + \
        ["expand_inode_table.0:%d" % (ipg + 1), "expand_inode_table.1:%d" % (ng + 1),
         "io_channel_read_blk64.0:%d" % (newb * bsz + 1), "io_channel_read_blk64.1:%d" % (nblk + 1),
         "io_channel_write_blk64.0:%d" % (newb * bsz + 1), "io_channel_write_blk64.1:%d" % (nblk + 1)]

HARNESSES += [
    dict(name="itable", src="itable.c", extra_src=["lib/ext2fs/blknum.c"],
         funcs=["expand_inode_table", "ext2fs_inode_table_loc"],
         stubs=["io_channel_read_blk64", "io_channel_write_blk64", "ext2fs_free_inode_cache", "gettext", "puts", "printf", "fprintf", "fputs"],
         configs=[{"NG": 2, "IPG": 4, "OLD": 8, "NEW": 16, "BSZ": 16, "NBLK": 12, "_unwindset": it_uw(2, 4, 8, 16, 16, 12)},
                  {"NG": 2, "IPG": 4, "OLD": 8, "NEW": 32, "BSZ": 32, "NBLK": 10, "_unwindset": it_uw(2, 4, 8, 32, 32, 10)},
                  {"NG": 1, "IPG": 8, "OLD": 4, "NEW": 8, "BSZ": 16, "NBLK": 6, "_unwindset": it_uw(1, 8, 4, 8, 16, 6)},
                  {"NG": 3, "IPG": 4, "OLD": 8, "NEW": 16, "BSZ": 16, "NBLK": 16, "_unwindset": it_uw(3, 4, 8, 16, 16, 16), "_tier": "thorough"}],
         unwind=4, backends=["default", "kissat"], witness_per_config=True,
         bound="1..2 (thorough 3) groups x 4..8 inodes, inode size 8 -> 16 / 8 -> 32 / 4 -> 8 bytes (the function is size-agnostic), 16 / 32-byte blocks, "
               "device of 6..16 blocks: every device byte, every table placement, every single I/O fault"),
]
T2F_STUBS = ["gettext", "puts", "printf", "fprintf", "fputs"]
HARNESSES += [
    dict(name="featureset", src="featureset.c", extra_src=["lib/e2p/feature.c"], defs=["__NO_CTYPE=1"],
         cut_statics={"misc/tune2fs.c": ["remove_journal_inode", "remove_journal_device", "enable_uninit_bg", "disable_uninit_bg",
                                         "has_casefold_inode"]},
         funcs=["update_feature_set", "check_fsck_needed", "request_fsck_afterwards", "e2p_edit_feature2", "e2p_string2feature"],
         stubs=T2F_STUBS + ["ext2fs_read_bitmaps", "ext2fs_truncate_orphan_file", "ext2fs_inode_alloc_stats2", "ext2fs_default_orphan_file_blocks",
                            "ext2fs_mmp_init", "ext2fs_mmp_read", "ext2fs_block_alloc_stats2", "uuid_is_null", "uuid_generate",
                            "e2p_get_encoding_flags", "ext2fs_crc32c_le", "ext2fs_update_dynamic_rev", "ext2fs_check_desc",
                            "proceed_question", "getenv", "isatty", "access", "remove_journal_inode", "remove_journal_device",
                            "enable_uninit_bg", "disable_uninit_bg", "has_casefold_inode"],
         configs=[{"REQ": r} for r in range(1, 18)],
         unwind=8, unwindset=["e2p_string2feature.0:70", "e2p_feature_to_string.0:70", "e2p_feature_to_string.1:33", "strcasecmp.0:24",
                              "strncasecmp.0:10", "skip_over_word.0:24", "skip_over_blanks.0:4", "e2p_edit_feature2.0:5",
                              "strlen.0:40", "strcpy.0:40", "strncpy.0:24", "update_feature_set.0:4", "update_feature_set.1:4", "main.0:4"],
         backends=["default"], witness_per_config=True, cbmc_flags=["--object-bits", "10"],
         bound="17 concrete -O requests; the three feature words, s_state, s_lastcheck, s_mtime, mount state (mounted / read-only / busy), "
               "number of -f, journal inode / device numbers, stored and live checksum seed, -J size, -Q given: all symbolic"),
]
MANIFEST = {"text": "", "note": ""}
