META = {
    "assumptions": ["allocation failure out of scope (--no-malloc-may-fail)"],
    "outside": [],
}
HARNESSES = [
    dict(name="ingroup", src="ingroup.c", extra_src=["lib/ext2fs/blknum.c"],
         funcs=["ext2fs_is_block_in_group", "ext2fs_is_meta_block", "ext2fs_group_of_blk2"],
         configs=[{"CHECK": 2}, {"CHECK": 1}],
         unwind=6, backends=["default", "kissat", "z3"], witness_per_config=True,
         bound="first data block 0/1, blocks per group 8..65528, group < 2^16, block < 2^48: all symbolic"),
]
MANIFEST = {"text": "", "note": ""}
