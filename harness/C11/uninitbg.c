/*
 * C11/uninitbg: disable_uninit_bg() (misc/tune2fs.c) -- "tune2fs -O ^uninit_bg" (FLAG = gdt_csum) and the
 * "-O ^metadata_csum,^uninit_bg" leg (FLAG = metadata_csum): group descriptor checksums go away, so every
 * BLOCK_UNINIT / INODE_UNINIT / itable_unused shortcut must be materialised first and then dropped.
 *
 * Real code: disable_uninit_bg(), request_fsck_afterwards() (tune2fs.c), the descriptor accessors (blknum.c),
 * ext2fs_super_and_bgd_loc2 + ext2fs_bg_has_super (closefs.c, decided in C20).  zero_empty_inodes() is CUT
 * (run.py cut_statics; own harness zeroino) and, like ext2fs_read_bitmaps(), replaced by a stub that RECORDS the
 * feature word it sees and may fail (symbolic).  ext2fs_group_desc_csum_set() records the descriptor it is asked
 * to checksum.  Block bitmap: one byte per block.
 *
 * Pre-state: NG groups x BPG blocks; every descriptor's flags / itable_unused / bitmap locations (inside the
 * group), the in-use set, sparse_super, s_state and the other ro_compat bits symbolic.  The callers have already
 * cleared the feature bit in the superblock (update_feature_set edits the words first).
 * Decided:
 *   - ext2fs_read_bitmaps() runs with the checksum feature bit SET (so BLOCK_UNINIT / INODE_UNINIT are honoured
 *     while loading) and exactly once;
 *   - zero_empty_inodes() runs iff FLAG is gdt_csum, after the bitmaps were read, and at that time NEITHER
 *     gdt_csum NOR metadata_csum is set in the superblock (otherwise its inode scan skips INODE_UNINIT groups and
 *     the bg_itable_unused tails and stale on-disk inodes survive);
 *   - success: for every group bg_flags == 0 (INODE_UNINIT, BLOCK_UNINIT, ITABLE_ZEROED gone) and
 *     bg_itable_unused == 0, the descriptor checksum is recomputed AFTER both were cleared; the block bitmap only
 *     gains bits, and only the group's bitmap blocks / superblock backup / first descriptor block; both bitmaps
 *     and the superblock are marked dirty, EXT2_FLAG_SUPER_ONLY is dropped; the feature word is the caller's
 *     (FLAG clear, every other bit as before);
 *   - failure of either callee: returned to the caller, e2fsck requested (EXT2_VALID_FS cleared), no descriptor
 *     touched, and the feature word again the caller's (FLAG clear) -- never left set by the temporary switch.
 */
#include "config.h"
#include "ext2fs/ext2_fs.h"
#include "ext2fs/ext2fs.h"
static errcode_t zero_empty_inodes(ext2_filsys fs);
#include "t2f.h"
#include "env.c"

#ifndef NG
#define NG 3
#endif
#ifndef BPG
#define BPG 16
#endif
#ifndef FLAG
#define FLAG 0x0010		/* EXT4_FEATURE_RO_COMPAT_GDT_CSUM; 0x0400 = METADATA_CSUM */
#endif
#define R_GDT 0x0010u
#define R_MCSUM 0x0400u
#define NB (1 + NG * BPG)
#include "bytemap.h"

struct vf_in {
	unsigned char inuse[NB];
	__u32 bb[NG], ib[NG];
	__u16 gflags[NG], unused[NG];
	__u32 ro_other;
	__u16 state;
	unsigned char sparse, read_fails, zero_fails;
};
VF_DECLARE_INPUT(struct vf_in, IN)
#include "vf_input.inc"

static struct struct_ext2_filsys vf_fs;
static struct ext2_super_block vf_sb;
static unsigned char vf_gd[NG * 32] __attribute__((aligned(8)));
static struct vf_bm vf_map;
static int vf_nread, vf_nzero, vf_zero_after_read;
static __u32 vf_ro_at_read, vf_ro_at_zero;
static int vf_ncsum[NG];
static __u16 vf_flags_at_csum[NG], vf_unused_at_csum[NG];

/* STUB: ext2fs_read_bitmaps(): records the ro_compat word it runs under; symbolic failure */
errcode_t ext2fs_read_bitmaps(ext2_filsys fs)
{
	vf_nread++;
	vf_ro_at_read = fs->super->s_feature_ro_compat;
	return IN.read_fails ? EXT2_ET_BLOCK_BITMAP_READ : 0;
}
/* STUB: zero_empty_inodes() (cut, decided in harness zeroino): records the ro_compat word it runs under; symbolic failure */
static errcode_t zero_empty_inodes(ext2_filsys fs)
{
	vf_nzero++;
	vf_zero_after_read = (vf_nread == 1);
	vf_ro_at_zero = fs->super->s_feature_ro_compat;
	return IN.zero_fails ? EXT2_ET_SHORT_WRITE : 0;
}
/* STUB: ext2fs_group_desc_csum_set(): records flags and itable_unused of the descriptor at checksum time (value: C14) */
void ext2fs_group_desc_csum_set(ext2_filsys fs, dgrp_t group)
{
	int g;
	for (g = 0; g < NG; g++)
		if ((dgrp_t) g == group) {
			vf_ncsum[g]++;
			vf_flags_at_csum[g] = ext2fs_bg_flags(fs, g);
			vf_unused_at_csum[g] = ext2fs_bg_itable_unused(fs, g);
		}
}

int main(void)
{
	int g, p;
	errcode_t rc;
	__u32 ro_caller;

	VF_INPUT(IN);
	/* BOUND: NG groups x BPG blocks, 1 KiB blocks, first data block 1, one descriptor block, no meta_bg / flex_bg / bigalloc */
	ASSUME(IN.sparse <= 1 && IN.read_fails <= 1 && IN.zero_fails <= 1);
	for (p = 0; p < NB; p++)
		ASSUME(IN.inuse[p] <= 1);
	for (g = 0; g < NG; g++) {
		/* ASSUME: bitmaps inside their group (no flex_bg) */
		ASSUME(IN.bb[g] >= 1u + g * BPG && IN.bb[g] < 1u + (g + 1) * BPG);
		ASSUME(IN.ib[g] >= 1u + g * BPG && IN.ib[g] < 1u + (g + 1) * BPG);
	}
	/* ASSUME: the caller (update_feature_set) has already cleared FLAG in the superblock; with FLAG = gdt_csum, metadata_csum is
	 * not set either (the two are never both on, and "metadata_csum,^uninit_bg" does not reach disable_uninit_bg) */
	ro_caller = IN.ro_other & ~(R_GDT | R_MCSUM);
	if (IN.sparse)
		ro_caller |= EXT2_FEATURE_RO_COMPAT_SPARSE_SUPER;
	else
		ro_caller &= ~EXT2_FEATURE_RO_COMPAT_SPARSE_SUPER;

	vf_sb.s_magic = EXT2_SUPER_MAGIC;
	vf_sb.s_rev_level = EXT2_DYNAMIC_REV;
	vf_sb.s_first_data_block = 1;
	vf_sb.s_blocks_per_group = BPG;
	vf_sb.s_clusters_per_group = BPG;
	vf_sb.s_blocks_count = NB;
	vf_sb.s_inodes_per_group = 8;
	vf_sb.s_inode_size = 128;
	vf_sb.s_feature_ro_compat = ro_caller;
	vf_sb.s_state = IN.state;
	vf_fs.magic = EXT2_ET_MAGIC_EXT2FS_FILSYS;
	vf_fs.flags = EXT2_FLAG_RW | EXT2_FLAG_SUPER_ONLY;
	vf_fs.super = &vf_sb;
	vf_fs.blocksize = 1024;
	vf_fs.group_desc_count = NG;
	vf_fs.desc_blocks = 1;
	vf_fs.inode_blocks_per_group = 1;
	vf_fs.group_desc = (struct opaque_ext2_group_desc *) vf_gd;
	vf_fs.block_map = (ext2fs_block_bitmap) &vf_map;
	for (g = 0; g < NG; g++) {
		ext2fs_block_bitmap_loc_set(&vf_fs, g, IN.bb[g]);
		ext2fs_inode_bitmap_loc_set(&vf_fs, g, IN.ib[g]);
		ext2fs_bg_flags_zap(&vf_fs, g);
		ext2fs_bg_flags_set(&vf_fs, g, IN.gflags[g]);
		ext2fs_bg_itable_unused_set(&vf_fs, g, IN.unused[g]);
	}
	for (p = 0; p < NB; p++)
		vf_map.bit[p] = IN.inuse[p];

	rc = disable_uninit_bg(&vf_fs, FLAG);

	PROP(!vf_oob, "no bitmap access outside the file system");
	PROP(vf_nread == 1, "bitmaps loaded exactly once");
	PROP((vf_ro_at_read & FLAG) == FLAG, "bitmaps are loaded with the checksum feature bit set (UNINIT flags honoured)");
	PROP(vf_sb.s_feature_ro_compat == ro_caller, "feature word on return == the caller's (temporary bit gone, nothing else changed) -- success AND failure");
#if FLAG == 0x0010
	if (!IN.read_fails) {
		PROP(vf_nzero == 1 && vf_zero_after_read, "unused inodes are zeroed once, after the bitmaps were loaded");
		PROP((vf_ro_at_zero & (R_GDT | R_MCSUM)) == 0,
		     "while unused inodes are zeroed neither gdt_csum nor metadata_csum is set (the inode scan must not skip uninitialised groups / tails)");
	} else
		PROP(vf_nzero == 0, "no zeroing after a failed bitmap load");
#else
	PROP(vf_nzero == 0, "metadata_csum leg: zeroing is left to the checksum rewrite");
#endif
	if (IN.read_fails || (FLAG == 0x0010 && IN.zero_fails)) {
		PROP(rc != 0, "a failing callee is reported");
		PROP(!(vf_sb.s_state & EXT2_VALID_FS) && fsck_requested == 1, "failure: e2fsck requested, EXT2_VALID_FS cleared");
		for (g = 0; g < NG; g++) {
			PROP(ext2fs_bg_flags(&vf_fs, g) == IN.gflags[g] && ext2fs_bg_itable_unused(&vf_fs, g) == IN.unused[g] && vf_ncsum[g] == 0,
			     "failure: no descriptor touched");
		}
		for (p = 0; p < NB; p++)
			PROP(vf_map.bit[p] == IN.inuse[p], "failure: block bitmap untouched");
	} else {
		PROP(rc == 0, "succeeds when both callees succeed");
		PROP(vf_sb.s_state == IN.state && fsck_requested == 0, "success: no e2fsck requested");
		PROP((vf_fs.flags & EXT2_FLAG_IB_DIRTY) && (vf_fs.flags & EXT2_FLAG_BB_DIRTY) && (vf_fs.flags & EXT2_FLAG_DIRTY),
		     "both bitmaps and the superblock marked dirty");
		PROP(!(vf_fs.flags & EXT2_FLAG_SUPER_ONLY), "descriptors will be written (SUPER_ONLY dropped)");
		for (g = 0; g < NG; g++) {
			PROP(ext2fs_bg_flags(&vf_fs, g) == 0, "INODE_UNINIT / BLOCK_UNINIT / ITABLE_ZEROED dropped in every group");
			PROP(ext2fs_bg_itable_unused(&vf_fs, g) == 0, "bg_itable_unused reset in every group");
			PROP(vf_ncsum[g] >= 1 && vf_flags_at_csum[g] == 0 && vf_unused_at_csum[g] == 0,
			     "descriptor checksum recomputed after flags and itable_unused were cleared");
		}
		for (p = 0; p < NB; p++) {
			int meta = 0;
			for (g = 0; g < NG; g++) {
				/* backup groups of the format: 0, 1 and powers of 3 / 5 / 7 (none of those among groups 2..NG-1 for NG <= 3) */
				int has_super = (g == 0 || g == 1 || !IN.sparse);
				__u32 first = 1u + g * BPG;
				if ((__u32) p == IN.bb[g] || (__u32) p == IN.ib[g])
					meta = 1;
				if (has_super && ((__u32) p == first || (__u32) p == first + 1))
					meta = 1;
			}
			if (meta)
				PROP(vf_map.bit[p] == 1, "bitmap blocks, superblock backups and descriptor blocks are marked in use");
			else
				PROP(vf_map.bit[p] == IN.inuse[p], "nothing else changes in the block bitmap");
		}
	}
	VF_END();
	return 0;
}
