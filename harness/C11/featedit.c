/*
 * C11/featedit: e2p_edit_feature2() (lib/e2p/feature.c) -- the parser behind "tune2fs -O", "mke2fs -O" and
 * debugfs "feature": one concrete request string per query (compile time, keeps the string loops concrete), the
 * three feature words and both permission masks fully symbolic.
 *
 * Reference (from the man pages: "[^]feature[,...]", a caret / minus clears, plus / nothing sets; names as listed
 * in ext4(5); FEATURE_{C,I,R}<bit> names any bit; numbers from the on-disk format): the request is a list of
 * (clear?, word, mask) operations, written down here as literals per query.  Operations are applied left to right;
 * a set needs ok_array[word] & mask, a clear needs clear_ok_array[word] & mask (ok_array when no clear mask is
 * given; no mask at all = everything allowed).  The first refused operation stops the edit: return 1,
 * *type_err = word | 0x80-if-clear, *mask_err = mask, and THAT operation changes nothing.  Operations before it
 * stay applied (the function is not atomic; tune2fs / mke2fs throw the edited words away on error -- decided for
 * tune2fs in harness featureset).  An unknown name: return 1 with *type_err == *mask_err == 0.
 * Success: exactly the named bits changed, in exactly the named words.
 */
#define __NO_CTYPE 1		/* glibc: isspace() as a function, not the __ctype_b_loc() table macro */
#include "lib/e2p/feature.c"

#define C 0	/* E2P_FEATURE_COMPAT */
#define I 1	/* E2P_FEATURE_INCOMPAT */
#define R 2	/* E2P_FEATURE_RO_INCOMPAT */
struct ref_op { int neg, word; __u32 mask; };

#ifndef TOK
#define TOK 1
#endif
#if TOK == 1
#define REQ "metadata_csum"
static const struct ref_op ref_ops[] = { {0, R, 0x0400} };
#elif TOK == 2
#define REQ "^metadata_csum"
static const struct ref_op ref_ops[] = { {1, R, 0x0400} };
#elif TOK == 3
#define REQ "^has_journal"
static const struct ref_op ref_ops[] = { {1, C, 0x0004} };
#elif TOK == 4
#define REQ "extent"
static const struct ref_op ref_ops[] = { {0, I, 0x0040} };
#elif TOK == 5
#define REQ "FEATURE_R7"
static const struct ref_op ref_ops[] = { {0, R, 0x0080} };
#elif TOK == 6
#define REQ "-feature_i31"
static const struct ref_op ref_ops[] = { {1, I, 0x80000000u} };
#elif TOK == 7
#define REQ "extent,^uninit_bg"
static const struct ref_op ref_ops[] = { {0, I, 0x0040}, {1, R, 0x0010} };
#elif TOK == 8
#define REQ "^64bit +Dir_Index\tHUGE_FILE"
static const struct ref_op ref_ops[] = { {1, I, 0x0080}, {0, C, 0x0020}, {0, R, 0x0008} };
#elif TOK == 9
#define REQ "quota,nosuchfeature,^extent"
#define UNKNOWN_AT 1
static const struct ref_op ref_ops[] = { {0, R, 0x0100} };
#elif TOK == 10
#define REQ "FEATURE_C32"
#define UNKNOWN_AT 0
static const struct ref_op ref_ops[] = { {0, C, 0} };
#elif TOK == 11
#define REQ "FEATURE_X3"
#define UNKNOWN_AT 0
static const struct ref_op ref_ops[] = { {0, C, 0} };
#elif TOK == 12
#define REQ "^flex_bg,metadata_csum_seed"
static const struct ref_op ref_ops[] = { {1, I, 0x0200}, {0, I, 0x2000} };
#elif TOK == 13
#define REQ ""
#define UNKNOWN_AT 0
#define EMPTY_OK 1
static const struct ref_op ref_ops[] = { {0, C, 0} };
#elif TOK == 14
/* mke2fs(8): "the pseudo-filesystem feature "none" will clear all filesystem features": a clear of every set feature */
#define REQ "none,extent"
#define WIPE_FIRST 1
static const struct ref_op ref_ops[] = { {0, I, 0x0040} };
#endif
#ifndef UNKNOWN_AT
#define UNKNOWN_AT 99
#endif
#define NOPS ((int) (sizeof(ref_ops) / sizeof(ref_ops[0])))

struct vf_in {
	__u32 feat[3], ok[3], clr[3];
};
VF_DECLARE_INPUT(struct vf_in, IN)
#include "vf_input.inc"

int main(void)
{
	__u32 got[3], want[3], ok[3], clr[3];
	__u32 *okp, *clrp;
	int rc, type_err = 0x5a5a, want_rc = 0, want_type = 0, i, w;
	unsigned int mask_err = 0x5a5a5a5a, want_mask = 0;

	VF_INPUT(IN);
	for (w = 0; w < 3; w++) {
		got[w] = want[w] = IN.feat[w];
		ok[w] = IN.ok[w];
		clr[w] = IN.clr[w];
	}
#ifdef NO_OK
	okp = 0;		/* e2p_edit_feature(str, array, 0): everything may be set */
#else
	okp = ok;
#endif
#ifdef NO_CLR
	clrp = 0;		/* e2p_edit_feature(): the set mask also governs clearing */
#else
	clrp = clr;
#endif

	/* ---- reference */
#ifdef WIPE_FIRST
	/* "none" clears every feature that is set, so it is a clear of each of them: refused (naming the lowest offending
	 * bit of the first offending word) when the clear mask -- or, without one, the set mask -- forbids any of them */
	{
		__u32 *perm = clrp ? clrp : okp;
		for (w = 0; w < 3 && !want_rc; w++) {
			__u32 bad = perm ? (want[w] & ~perm[w]) : 0;
			if (bad) {
				want_rc = 1;
				want_type = w | 0x80;
				want_mask = bad & (0u - bad);
			}
		}
		if (!want_rc)
			want[0] = want[1] = want[2] = 0;
	}
#endif
	for (i = 0; i <= NOPS && !want_rc; i++) {
		const struct ref_op *o = &ref_ops[i < NOPS ? i : 0];
		__u32 *perm;
		if (i == UNKNOWN_AT) {
#ifndef EMPTY_OK
			want_rc = 1;
#endif
			break;
		}
		if (i == NOPS)
			break;
		perm = o->neg ? (clrp ? clrp : okp) : okp;
		for (w = 0; w < 3; w++) {
			if (w != o->word)
				continue;
			if (perm && !(perm[w] & o->mask)) {
				want_rc = 1;
				want_type = o->word | (o->neg ? 0x80 : 0);
				want_mask = o->mask;
			} else if (o->neg)
				want[w] &= ~o->mask;
			else
				want[w] |= o->mask;
		}
		if (want_rc)
			break;
	}

	rc = e2p_edit_feature2(REQ, got, okp, clrp, &type_err, &mask_err);

	PROP((rc != 0) == (want_rc != 0), "edit succeeds iff every operation is permitted and every name is known");
	PROP(type_err == want_type && mask_err == want_mask, "type_err / mask_err name the refused operation (0 / 0 otherwise)");
	PROP(got[0] == want[0] && got[1] == want[1] && got[2] == want[2],
	     "feature words = old words with exactly the permitted requested bits changed, nothing else");
	/* the permission masks themselves are inputs only */
	PROP(ok[0] == IN.ok[0] && ok[1] == IN.ok[1] && ok[2] == IN.ok[2] &&
	     clr[0] == IN.clr[0] && clr[1] == IN.clr[1] && clr[2] == IN.clr[2], "permission masks are not modified");
	VF_END();
	return 0;
}
