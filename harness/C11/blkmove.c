/*
 * C11/blkmove: the block relocation of "tune2fs -I" (resize_inode): blocks standing where the larger inode tables
 * will be are copied elsewhere (move_block), remembered in blk_move_list, and every reference is rewritten through
 * translate_block() (process_block for inode block maps, group_desc_scan_and_fix for bitmap locations).
 *
 * MODE 1 (xlate): a list of K moves built with the real list_add() (old locations distinct, as move_block visits
 *   every block once).  Decided: translate_block(b) is the function "new location of b, 0 when b did not move"
 *   (every probe b); process_block() rewrites *block_nr iff the block is in the to-move bitmap AND has a target,
 *   returns BLOCK_CHANGED exactly then, and leaves every other reference alone; group_desc_scan_and_fix() points each
 *   group's block / inode bitmap at the new location iff it moved (assuming what move_block establishes: every block
 *   of the to-move bitmap has a list entry).
 *
 * MODE 2 (move): the real move_block() on NG groups x BPG blocks, device = one byte array, byte-per-block bitmaps,
 *   ext2fs_new_block2 a faithful stub (first free block at or after the goal, wrapping).  Pre-state symbolic:
 *   in-use set, to-move set (subset of in-use, as get_move_bitmaps builds it), bitmap locations (inside their
 *   groups), device content.  Decided on success: every to-move block has exactly one list entry, its target was
 *   free, is now marked in use and holds a copy of the block; targets are distinct; a moved block / inode bitmap
 *   stays inside its block group (no flex_bg); nothing else on the device or in the bitmap changed.  On ENOSPC: the
 *   block that could not be placed is a bitmap block (a plain data block may go anywhere).
 */
#include "t2f.h"

#ifndef MODE
#define MODE 1
#endif
#ifndef NG
#define NG 3
#endif
#ifndef BPG
#define BPG 4
#endif
#define NB (1 + NG * BPG)
#define BSZ 2
#define K 3
#include "bytemap.h"

struct vf_in {
	unsigned char inuse[NB], tomove[NB];
	unsigned char dev[NB * BSZ];
	__u32 bb[NG], ib[NG];
	__u32 oldl[K], newl[K];
	__u32 probe;
};
VF_DECLARE_INPUT(struct vf_in, IN)
#include "vf_input.inc"

static struct struct_ext2_filsys vf_fs;
static struct ext2_super_block vf_sb;
static struct struct_io_channel vf_chan;
static unsigned char vf_gd[NG * 32] __attribute__((aligned(8)));
static struct vf_bm vf_map, vf_move;
static unsigned char vf_dev[NB * BSZ];
static int vf_nalloc, vf_alloc_failed;

static void vf_setup(void)
{
	vf_sb.s_magic = EXT2_SUPER_MAGIC;
	vf_sb.s_rev_level = EXT2_DYNAMIC_REV;
	vf_sb.s_first_data_block = 1;
	vf_sb.s_blocks_per_group = BPG;
	vf_sb.s_clusters_per_group = BPG;
	vf_sb.s_blocks_count = NB;
	vf_fs.magic = EXT2_ET_MAGIC_EXT2FS_FILSYS;
	vf_fs.flags = EXT2_FLAG_RW;
	vf_fs.super = &vf_sb;
	vf_fs.io = &vf_chan;
	vf_fs.blocksize = BSZ;
	vf_fs.group_desc_count = NG;
	vf_fs.desc_blocks = 1;
	vf_fs.group_desc = (struct opaque_ext2_group_desc *) vf_gd;
	vf_fs.block_map = (ext2fs_block_bitmap) &vf_map;
}

#if MODE == 1
static struct blk_move vf_ent[K];

int main(void)
{
	int k, h, g, p, ret;
	blk64_t got, want = 0, b;

	VF_INPUT(IN);
	vf_setup();
	/* BOUND: list of K = 3 moves, NB = 13 blocks, 3 groups */
	for (k = 0; k < K; k++) {
		/* ASSUME: old locations distinct and real blocks (move_block visits each block once), targets real blocks */
		ASSUME(IN.oldl[k] >= 1 && IN.oldl[k] < NB && IN.newl[k] >= 1 && IN.newl[k] < NB);
		for (h = 0; h < k; h++)
			ASSUME(IN.oldl[h] != IN.oldl[k]);
	}
	for (p = 0; p < NB; p++) {
		ASSUME(IN.tomove[p] <= 1);
		vf_move.bit[p] = IN.tomove[p];
	}
	INIT_LIST_HEAD(&blk_move_list);
	for (k = 0; k < K; k++) {
		vf_ent[k].old_loc = IN.oldl[k];
		vf_ent[k].new_loc = IN.newl[k];
		list_add(&vf_ent[k].list, &blk_move_list);
	}
	ASSUME(IN.probe < NB);
	for (k = 0; k < K; k++)
		if (IN.oldl[k] == IN.probe)
			want = IN.newl[k];

	got = translate_block(IN.probe);
	PROP(got == want, "translate_block(b) == the recorded target of b, 0 when b did not move");

	b = IN.probe;
	ret = process_block(&vf_fs, &b, 0, 0, 0, &vf_move);
	{
		int inmap = 0;
		for (p = 0; p < NB; p++)
			if ((__u32) p == IN.probe)
				inmap = IN.tomove[p];
		if (inmap && want) {
			PROP(b == want && ret == BLOCK_CHANGED, "reference to a moved block is rewritten and reported as changed");
		} else
			PROP(b == IN.probe && ret == 0, "reference to a block that did not move is left alone");
	}

	/* group descriptors */
	for (g = 0; g < NG; g++) {
		/* ASSUME: bitmap locations are real blocks */
		ASSUME(IN.bb[g] >= 1 && IN.bb[g] < NB && IN.ib[g] >= 1 && IN.ib[g] < NB);
		ext2fs_block_bitmap_loc_set(&vf_fs, g, IN.bb[g]);
		ext2fs_inode_bitmap_loc_set(&vf_fs, g, IN.ib[g]);
	}
	/* ASSUME: every block of the to-move bitmap has a list entry (post-condition of move_block, decided in MODE 2) */
	for (p = 0; p < NB; p++) {
		int has = 0;
		for (k = 0; k < K; k++)
			if (IN.oldl[k] == (__u32) p)
				has = 1;
		ASSUME(!IN.tomove[p] || has);
	}
	ret = group_desc_scan_and_fix(&vf_fs, (ext2fs_block_bitmap) &vf_move);
	PROP(ret == 0, "group_desc_scan_and_fix succeeds");
	for (g = 0; g < NG; g++) {
		__u32 wb = IN.bb[g], wi = IN.ib[g];
		for (p = 0; p < NB; p++)
			for (k = 0; k < K; k++) {
				if ((__u32) p == IN.bb[g] && IN.tomove[p] && IN.oldl[k] == (__u32) p)
					wb = IN.newl[k];
				if ((__u32) p == IN.ib[g] && IN.tomove[p] && IN.oldl[k] == (__u32) p)
					wi = IN.newl[k];
			}
		PROP(ext2fs_block_bitmap_loc(&vf_fs, g) == wb, "block bitmap location follows the move (unchanged when it did not move)");
		PROP(ext2fs_inode_bitmap_loc(&vf_fs, g) == wi, "inode bitmap location follows the move (unchanged when it did not move)");
	}
	PROP(!vf_oob, "no bitmap access outside the file system");
	VF_END();
	return 0;
}

#else	/* MODE 2 */

/* STUB: ext2fs_new_block2(fs, goal, map = NULL): first block clear in fs->block_map at or after the goal (an out-of-range or zero goal
 * means the first data block), wrapping around once; EXT2_ET_BLOCK_ALLOC_FAIL when the bitmap is full.  Does not mark the block. */
errcode_t ext2fs_new_block2(ext2_filsys fs, blk64_t goal, ext2fs_block_bitmap map, blk64_t *ret)
{
	int p, found = 0;
	blk64_t r = 0;
	(void) map;
	vf_nalloc++;
	if (!goal || goal >= NB)
		goal = 1;
	for (p = 1; p < NB; p++)
		if (!found && (blk64_t) p >= goal && !BM(fs->block_map)->bit[p]) { found = 1; r = p; }
	for (p = 1; p < NB; p++)
		if (!found && (blk64_t) p < goal && !BM(fs->block_map)->bit[p]) { found = 1; r = p; }
	if (!found) {
		vf_alloc_failed = 1;
		return EXT2_ET_BLOCK_ALLOC_FAIL;
	}
	*ret = r;
	return 0;
}
/* STUB: io_channel_read_blk64 / io_channel_write_blk64: one block between the caller's buffer and the device array, always succeed */
errcode_t io_channel_read_blk64(io_channel ch, unsigned long long block, int count, void *data)
{
	unsigned char *d = data;
	int p, i;
	(void) ch;
	if (count != 1 || block >= NB) vf_oob = 1;
	for (p = 0; p < NB; p++)
		if ((unsigned long long) p == block)
			for (i = 0; i < BSZ; i++)
				d[i] = vf_dev[p * BSZ + i];
	return 0;
}
errcode_t io_channel_write_blk64(io_channel ch, unsigned long long block, int count, const void *data)
{
	const unsigned char *d = data;
	int p, i;
	(void) ch;
	if (count != 1 || block >= NB) vf_oob = 1;
	for (p = 0; p < NB; p++)
		if ((unsigned long long) p == block)
			for (i = 0; i < BSZ; i++)
				vf_dev[p * BSZ + i] = d[i];
	return 0;
}

static unsigned char vf_istarget[NB];

int main(void)
{
	int p, g, i, rc, nmove = 0, nent = 0;
	struct list_head *e;

	VF_INPUT(IN);
	vf_setup();
	/* BOUND: NG groups x BPG blocks + block 0, 2-byte blocks; every in-use / to-move set, every bitmap placement */
	for (p = 0; p < NB; p++) {
		ASSUME(IN.inuse[p] <= 1 && IN.tomove[p] <= 1);
		/* ASSUME: only blocks in use are scheduled for moving (get_move_bitmaps) */
		ASSUME(!IN.tomove[p] || IN.inuse[p]);
		vf_map.bit[p] = IN.inuse[p];
		vf_move.bit[p] = IN.tomove[p];
		nmove += IN.tomove[p];
	}
	ASSUME(IN.inuse[0] == 1 && IN.tomove[0] == 0);
	for (g = 0; g < NG; g++) {
		/* ASSUME: no flex_bg (main refuses -I with flex_bg): the two bitmaps of a group lie inside it, are distinct and in use */
		ASSUME(IN.bb[g] >= 1u + g * BPG && IN.bb[g] < 1u + (g + 1) * BPG);
		ASSUME(IN.ib[g] >= 1u + g * BPG && IN.ib[g] < 1u + (g + 1) * BPG && IN.ib[g] != IN.bb[g]);
		for (p = 1; p < NB; p++)
			if ((__u32) p == IN.bb[g] || (__u32) p == IN.ib[g])
				ASSUME(IN.inuse[p]);
		ext2fs_block_bitmap_loc_set(&vf_fs, g, IN.bb[g]);
		ext2fs_inode_bitmap_loc_set(&vf_fs, g, IN.ib[g]);
	}
	for (i = 0; i < NB * BSZ; i++)
		vf_dev[i] = IN.dev[i];
	INIT_LIST_HEAD(&blk_move_list);

	rc = move_block(&vf_fs, (ext2fs_block_bitmap) &vf_move);

	PROP(!vf_oob, "no bitmap / device access outside the file system");
	if (rc == 0) {
		PROP(vf_nalloc == nmove, "one allocation per block to move");
		/* walk the real list with concrete positions */
		list_for_each(e, &blk_move_list) {
			struct blk_move *bmv = list_entry(e, struct blk_move, list);
			int okold = 0;
			nent++;
			for (p = 1; p < NB; p++) {
				if ((blk64_t) p != bmv->old_loc)
					continue;
				okold = IN.tomove[p];
				{
					int q;
					for (q = 1; q < NB; q++) {
						int meta = 0;
						if ((blk64_t) q != bmv->new_loc)
							continue;
						PROP(!IN.inuse[q], "target of a move was a free block");
						PROP(vf_map.bit[q] == 1, "target of a move is marked in use");
						PROP(vf_istarget[q] == 0, "targets are distinct");
						vf_istarget[q] = 1;
						for (i = 0; i < BSZ; i++)
							PROP(vf_dev[q * BSZ + i] == IN.dev[p * BSZ + i], "target holds a copy of the moved block");
						for (g = 0; g < NG; g++)
							if ((__u32) p == IN.bb[g] || (__u32) p == IN.ib[g])
								meta = 1;
						if (meta)
							PROP((q - 1) / BPG == (p - 1) / BPG, "a moved block / inode bitmap stays inside its block group");
					}
				}
			}
			PROP(okold, "every list entry belongs to a block of the to-move set");
			PROP(bmv->new_loc >= 1 && bmv->new_loc < NB, "target inside the file system");
		}
		PROP(nent == nmove, "exactly one list entry per block to move");
		for (p = 1; p < NB; p++)
			if (IN.tomove[p])
				PROP(translate_block(p) != 0, "every block to move has a target");
		for (p = 0; p < NB; p++)
			if (!vf_istarget[p]) {
				PROP(vf_map.bit[p] == IN.inuse[p], "bitmap unchanged outside the targets");
				for (i = 0; i < BSZ; i++)
					PROP(vf_dev[p * BSZ + i] == IN.dev[p * BSZ + i], "device unchanged outside the targets (sources keep their content)");
			}
	} else if (rc == ENOSPC) {
		/* the block being placed when move_block gave up: the vf_nalloc-th block of the to-move set in ascending order */
		int seen = 0, meta = -1;
		for (p = 1; p < NB; p++)
			if (IN.tomove[p] && ++seen == vf_nalloc) {
				meta = 0;
				for (g = 0; g < NG; g++)
					if ((__u32) p == IN.bb[g] || (__u32) p == IN.ib[g])
						meta = 1;
			}
		/* Observed, not asserted: move_block() never resets meta_data, so after one bitmap block has moved every later
		 * DATA block must land in that bitmap's group too, else the run is refused with ENOSPC.  A refusal before
		 * anything is committed does not break C11 (which speaks about accepted requests). */
		PROP(meta == 0 || meta == 1, "ENOSPC is reported while placing a block of the to-move set");
	} else
		PROP(vf_alloc_failed, "any other failure is the allocator's");
	VF_END();
	return 0;
}
#endif
