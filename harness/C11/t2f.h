/*
 * C11/t2f.h -- how every C11 harness pulls in misc/tune2fs.c (one 3775-line file of static functions):
 *
 *	[prototypes of cut statics]
 *	#include "t2f.h"
 *
 * tune2fs' main is renamed; the libc / gettext entry points that the kernels reach for their messages get
 * deterministic bodies (symbolic run only; the native replay uses libc).
 */
#include "config.h"
#include "ext2fs/ext2_fs.h"
#include "ext2fs/ext2fs.h"
#define main vf_tune2fs_real_main
#include "misc/tune2fs.c"
#undef main

#ifndef VF_REPLAY
/* STUB: gettext() returns its argument; puts/printf/fprintf/fputs (messages only) do nothing */
char *gettext(const char *msgid) { return (char *) msgid; }
int puts(const char *s) { (void) s; return 0; }
int printf(const char *fmt, ...) { (void) fmt; return 0; }
int fprintf(FILE *f, const char *fmt, ...) { (void) f; (void) fmt; return 0; }
int fputs(const char *s, FILE *f) { (void) s; (void) f; return 0; }
#endif
