/*
 * C11/bytemap.h -- byte-per-block stand-in for the libext2fs bitmap layer (the real inline wrappers
 * ext2fs_mark/unmark/test_block_bitmap2 of bitops.h end in the generic functions defined here).
 * Needs NB (number of blocks, bitmap covers 0..NB-1) defined by the including harness.
 */
struct vf_bm { unsigned char bit[NB]; };
static int vf_oob;
#define BM(x) ((struct vf_bm *) (x))

/* STUB: generic bitmap mark / unmark / test: one byte per block, no symbolic index, out-of-range access flagged */
int ext2fs_mark_generic_bmap(ext2fs_generic_bitmap b, blk64_t n)
{
	int p, old = 0;
	if (n >= NB) { vf_oob = 1; return 0; }
	for (p = 0; p < NB; p++) if ((blk64_t) p == n) { old = BM(b)->bit[p]; BM(b)->bit[p] = 1; }
	return old;
}
int ext2fs_unmark_generic_bmap(ext2fs_generic_bitmap b, blk64_t n)
{
	int p, old = 0;
	if (n >= NB) { vf_oob = 1; return 0; }
	for (p = 0; p < NB; p++) if ((blk64_t) p == n) { old = BM(b)->bit[p]; BM(b)->bit[p] = 0; }
	return old;
}
int ext2fs_test_generic_bmap(ext2fs_generic_bitmap b, blk64_t n)
{
	int p, r = 0;
	if (n >= NB) { vf_oob = 1; return 0; }
	for (p = 0; p < NB; p++) if ((blk64_t) p == n) r = BM(b)->bit[p];
	return r;
}
