/*
 * C11/rwone: rewrite_one_inode() (misc/tune2fs.c) -- what the checksum rewrite does for ONE inode, and in which order.
 *
 * Real code: rewrite_one_inode(), ext2fs_file_acl_block (blknum.c), ext2fs_inode_has_valid_blocks2 (valid_blk.c).
 * CUT to recording stubs (run.py cut_statics): update_ea_inode_hash, update_inline_xattr_hashes,
 * update_block_xattr_hashes, rewrite_directory.  Stubs: ext2fs_write_inode_full, ext2fs_fix_extents_checksums,
 * ext2fs_read_ext_attr3 / ext2fs_write_ext_attr3 (all succeed, log a sequence number), inode bitmap = one byte per inode.
 *
 * One inode: all ISZ bytes symbolic, in use or not.  Decided:
 *   - not in use and all zero: nothing happens; not in use and not zero: written back once, all bytes zero
 *     (stale bytes of a never-initialised table slot cannot survive the feature change), nothing else;
 *   - in use: the EA-inode hash is refreshed iff EXT4_EA_INODE_FL, the in-inode xattr entry hashes iff the inode size
 *     is not 128 -- both BEFORE the inode is written (the write computes the inode checksum over them); the inode is
 *     written exactly once with the full length; then the extent-tree checksums; a directory with valid blocks gets
 *     its blocks rewritten; an xattr block (i_file_acl != 0) is read, its entry hashes refreshed, and written back, in
 *     that order, under this inode's number; no xattr block => no xattr I/O.
 */
#include "config.h"
#include "ext2fs/ext2_fs.h"
#include "ext2fs/ext2fs.h"
struct rewrite_context;
struct ext2_inode_large;
static void update_ea_inode_hash(struct rewrite_context *ctx, ext2_ino_t ino, struct ext2_inode *inode);
static void update_inline_xattr_hashes(struct rewrite_context *ctx, struct ext2_inode_large *inode);
static void update_block_xattr_hashes(struct rewrite_context *ctx, char *block_buf);
static errcode_t rewrite_directory(ext2_filsys fs, ext2_ino_t dir, struct ext2_inode *inode);
#include "t2f.h"
#include "env.c"

#ifndef ISZ
#define ISZ 256
#endif
#define NB 8
#define VF_INO 5
#include "bytemap.h"

struct vf_in { unsigned char body[ISZ]; unsigned char inuse; };
VF_DECLARE_INPUT(struct vf_in, IN)
#include "vf_input.inc"

static struct struct_ext2_filsys vf_fs;
static struct ext2_super_block vf_sb;
static struct vf_bm vf_imap;
static unsigned char vf_inode[ISZ] __attribute__((aligned(8)));
static unsigned char vf_zero[ISZ] __attribute__((aligned(8)));
static char vf_eabuf[64] __attribute__((aligned(8)));
static int vf_seq, vf_bad;
static int vf_t_eahash, vf_t_inline, vf_t_write, vf_t_ext, vf_t_dir, vf_t_xread, vf_t_xhash, vf_t_xwrite;
static int vf_n_eahash, vf_n_inline, vf_n_write, vf_n_ext, vf_n_dir, vf_n_xread, vf_n_xhash, vf_n_xwrite;
static int vf_written_nonzero;
static blk64_t vf_xblk_r, vf_xblk_w;

/* STUB: the four cut statics: logged with a sequence number, arguments checked */
static void update_ea_inode_hash(struct rewrite_context *ctx, ext2_ino_t ino, struct ext2_inode *inode)
{ if (ino != VF_INO || (void *) inode != (void *) vf_inode || ctx->fs != &vf_fs) vf_bad = 1; vf_n_eahash++; vf_t_eahash = ++vf_seq; }
static void update_inline_xattr_hashes(struct rewrite_context *ctx, struct ext2_inode_large *inode)
{ if ((void *) inode != (void *) vf_inode || ctx->fs != &vf_fs) vf_bad = 1; vf_n_inline++; vf_t_inline = ++vf_seq; }
static void update_block_xattr_hashes(struct rewrite_context *ctx, char *block_buf)
{ if (block_buf != vf_eabuf || ctx->fs != &vf_fs) vf_bad = 1; vf_n_xhash++; vf_t_xhash = ++vf_seq; }
static errcode_t rewrite_directory(ext2_filsys fs, ext2_ino_t dir, struct ext2_inode *inode)
{ if (fs != &vf_fs || dir != VF_INO || (void *) inode != (void *) vf_inode) vf_bad = 1; vf_n_dir++; vf_t_dir = ++vf_seq; return 0; }
/* STUB: ext2fs_write_inode_full / ext2fs_fix_extents_checksums / ext2fs_read_ext_attr3 / ext2fs_write_ext_attr3: succeed, logged */
errcode_t ext2fs_write_inode_full(ext2_filsys fs, ext2_ino_t ino, struct ext2_inode *inode, int bufsize)
{
	const unsigned char *d = (const unsigned char *) inode;
	int k;
	if (fs != &vf_fs || ino != VF_INO || bufsize != ISZ) vf_bad = 1;
	for (k = 0; k < ISZ; k++)
		if (d[k]) vf_written_nonzero = 1;
	vf_n_write++; vf_t_write = ++vf_seq;
	return 0;
}
errcode_t ext2fs_fix_extents_checksums(ext2_filsys fs, ext2_ino_t ino, struct ext2_inode *inode)
{ if (fs != &vf_fs || ino != VF_INO || (void *) inode != (void *) vf_inode) vf_bad = 1; vf_n_ext++; vf_t_ext = ++vf_seq; return 0; }
errcode_t ext2fs_read_ext_attr3(ext2_filsys fs, blk64_t block, void *buf, ext2_ino_t inum)
{ if (fs != &vf_fs || inum != VF_INO || buf != (void *) vf_eabuf) vf_bad = 1; vf_xblk_r = block; vf_n_xread++; vf_t_xread = ++vf_seq; return 0; }
errcode_t ext2fs_write_ext_attr3(ext2_filsys fs, blk64_t block, void *buf, ext2_ino_t inum)
{ if (fs != &vf_fs || inum != VF_INO || buf != (void *) vf_eabuf) vf_bad = 1; vf_xblk_w = block; vf_n_xwrite++; vf_t_xwrite = ++vf_seq; return 0; }

#define RD16(b, o) ((unsigned) (b)[(o)] | ((unsigned) (b)[(o) + 1] << 8))
#define RD32(b, o) ((__u32) (b)[(o)] | ((__u32) (b)[(o) + 1] << 8) | ((__u32) (b)[(o) + 2] << 16) | ((__u32) (b)[(o) + 3] << 24))

int main(void)
{
	struct rewrite_context ctx;
	int k, allzero = 1, after = 0;
	__u32 iflags, acl;
	unsigned mode;
	struct ext2_inode copy;

	VF_INPUT(IN);
	/* BOUND: one inode of ISZ bytes (128 / 256), every byte symbolic; no 64bit feature (i_file_acl is 32 bits) */
	ASSUME(IN.inuse <= 1);
	for (k = 0; k < ISZ; k++) {
		vf_inode[k] = IN.body[k];
		if (IN.body[k]) allzero = 0;
	}
	vf_sb.s_magic = EXT2_SUPER_MAGIC;
	vf_sb.s_rev_level = EXT2_DYNAMIC_REV;
	vf_sb.s_inode_size = ISZ;
	vf_fs.magic = EXT2_ET_MAGIC_EXT2FS_FILSYS;
	vf_fs.flags = EXT2_FLAG_RW;
	vf_fs.super = &vf_sb;
	vf_fs.blocksize = 64;
	vf_fs.inode_map = (ext2fs_inode_bitmap) &vf_imap;
	vf_imap.bit[VF_INO] = IN.inuse;
	ctx.fs = &vf_fs;
	ctx.zero_inode = (struct ext2_inode *) vf_zero;
	ctx.ea_buf = vf_eabuf;
	ctx.inode_size = ISZ;
	/* on-disk inode format (little endian): i_mode @0, i_flags @32, i_file_acl @104 */
	mode = RD16(IN.body, 0);
	iflags = RD32(IN.body, 32);
	acl = RD32(IN.body, 104);
	memcpy(&copy, IN.body, sizeof(copy));

	rewrite_one_inode(&ctx, VF_INO, (struct ext2_inode *) vf_inode);

	PROP(!vf_bad && !vf_oob, "every callee gets this file system, this inode number, this inode buffer / the context's xattr buffer");
	if (!IN.inuse) {
		if (allzero)
			PROP(vf_seq == 0, "an unused all-zero inode is left alone");
		else {
			PROP(vf_n_write == 1 && !vf_written_nonzero, "an unused inode with stale bytes is written back zeroed");
			PROP(vf_n_eahash == 0 && vf_n_dir == 0 && vf_n_xread == 0 && vf_n_xwrite == 0 && vf_n_xhash == 0, "nothing else happens for an unused inode");
		}
	} else {
		PROP(vf_n_write == 1, "the inode is written exactly once, full length");
		PROP(vf_n_eahash == ((iflags & 0x00200000u) ? 1 : 0), "EA-inode hash refreshed iff EXT4_EA_INODE_FL");
		if (vf_n_eahash)
			PROP(vf_t_eahash < vf_t_write, "EA-inode hash refreshed before the inode is written");
		PROP(vf_n_inline == (ISZ != 128 ? 1 : 0), "in-inode xattr entry hashes refreshed iff the inode is larger than 128 bytes");
		if (vf_n_inline)
			PROP(vf_t_inline < vf_t_write, "in-inode xattr entry hashes refreshed before the inode is written");
		PROP(vf_n_ext == 1 && vf_t_ext > vf_t_write, "extent-tree checksums rewritten once, after the inode");
		PROP(vf_n_dir == (((mode & 0170000) == 0040000 && ext2fs_inode_has_valid_blocks2(&vf_fs, &copy)) ? 1 : 0),
		     "directory blocks rewritten iff a directory with valid blocks");
		if (acl) {
			PROP(vf_n_xread == 1 && vf_n_xhash == 1 && vf_n_xwrite == 1 && vf_xblk_r == acl && vf_xblk_w == acl,
			     "xattr block read, entry hashes refreshed, written back: once each, the inode's i_file_acl");
			PROP(vf_t_write < vf_t_xread && vf_t_xread < vf_t_xhash && vf_t_xhash < vf_t_xwrite, "xattr block: read, then rehash, then write, after the inode");
		} else
			PROP(vf_n_xread == 0 && vf_n_xhash == 0 && vf_n_xwrite == 0, "no xattr block: no xattr I/O");
		(void) after;
	}
	VF_END();
	return 0;
}
