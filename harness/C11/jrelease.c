/*
 * C11/jrelease: remove_journal_inode() + release_blocks_proc() (misc/tune2fs.c) -- what "tune2fs -O ^has_journal"
 * does to the allocation state when the journal is an inode of the file system.
 *
 * Real code: remove_journal_inode(), release_blocks_proc(), the group-descriptor / superblock counters of
 * lib/ext2fs/blknum.c.  STUB side: the block bitmap is one byte per block (bytemap.h); ext2fs_block_iterate3
 * behaves like the real iterator with respect to its flags: it reports the NJ data blocks of the journal inode AND its one
 * mapping block (indirect / extent-tree block, blockcnt < 0; not reported under BLOCK_FLAG_DATA_ONLY) -- all symbolic,
 * distinct, inside the file system -- to the real callback;
 * ext2fs_read_inode / ext2fs_write_inode / ext2fs_read_bitmaps / ext2fs_group_desc_csum_set record.
 *
 * Pre-state (consistent file system, arbitrary): in-use set symbolic with the journal's blocks in use, every
 * group's free count == number of clear bits of the group, superblock free count == their sum.
 * Decided: afterwards
 *   - exactly the reported blocks became free, every other bit is as before;
 *   - the SAME consistency holds again (group counts == clear bits per group, superblock count == sum), i.e. the
 *     counts went up by exactly the number of released blocks in the right groups;
 *   - every group whose count changed had its descriptor checksum recomputed after the last change;
 *   - the journal inode is written back zeroed, s_journal_inum and s_jnl_blocks[] are cleared, the block bitmap and the
 *     superblock are marked dirty and EXT2_FLAG_SUPER_ONLY is dropped (else ext2fs_close would not write the descriptors);
 *   - a journal inode that is NOT inode 8 (s_journal_inum names a visible file, old "tune2fs -J" style) is kept:
 *     only its immutable flag is cleared, no block is released.
 */
#include "t2f.h"

#ifndef NG
#define NG 3
#endif
#ifndef BPG
#define BPG 8
#endif
#ifndef NJ
#define NJ 3
#endif
#define NT (NJ + 1)		/* data blocks + one mapping (indirect / extent-tree) block: jblk[NJ] */
#define NB (1 + NG * BPG)
#include "bytemap.h"

struct vf_in {
	unsigned char inuse[NB];
	__u32 jblk[NT];
	__u32 jino, isize, iflags, overhead;
	__u32 jnl_blocks[17];
	unsigned char csum;
};
VF_DECLARE_INPUT(struct vf_in, IN)
#include "vf_input.inc"

static struct struct_ext2_filsys vf_fs;
static struct ext2_super_block vf_sb;
static unsigned char vf_gd[NG * 32] __attribute__((aligned(8)));
static struct vf_bm vf_map;
static struct ext2_inode vf_written;
static int vf_nwrite_inode, vf_bad_call, vf_niter, vf_iter_flags;
static __u32 vf_csum_at[NG];
static unsigned char vf_csum_done[NG];

/* STUB: ext2fs_read_inode(): the journal inode: size, flags symbolic; ext2fs_write_inode(): records what is written */
errcode_t ext2fs_read_inode(ext2_filsys fs, ext2_ino_t ino, struct ext2_inode *inode)
{
	static struct ext2_inode z;
	if (fs != &vf_fs || ino != IN.jino) vf_bad_call = 1;
	*inode = z;
	inode->i_mode = 0100600;
	inode->i_links_count = 1;
	inode->i_size = IN.isize;
	inode->i_flags = IN.iflags;
	inode->i_block[0] = IN.jblk[0];
	return 0;
}
errcode_t ext2fs_write_inode(ext2_filsys fs, ext2_ino_t ino, struct ext2_inode *inode)
{
	if (fs != &vf_fs || ino != IN.jino) vf_bad_call = 1;
	vf_written = *inode;
	vf_nwrite_inode++;
	return 0;
}
/* STUB: ext2fs_read_bitmaps(): bitmaps are loaded (the byte map); succeeds */
errcode_t ext2fs_read_bitmaps(ext2_filsys fs) { (void) fs; return 0; }
/* STUB: ext2fs_block_iterate3(): like the real iterator: the NJ data blocks in order (blockcnt >= 0), then the mapping block that holds
 * their numbers (blockcnt -1 = BLOCK_COUNT_IND; post-order as without BLOCK_FLAG_DEPTH_TRAVERSE) unless BLOCK_FLAG_DATA_ONLY was asked for */
errcode_t ext2fs_block_iterate3(ext2_filsys fs, ext2_ino_t ino, int flags, char *block_buf,
				int (*func)(ext2_filsys fs, blk64_t *blocknr, e2_blkcnt_t blockcnt,
					    blk64_t ref_blk, int ref_offset, void *priv_data),
				void *priv_data)
{
	int k;
	(void) block_buf;
	vf_niter++;
	if (fs != &vf_fs || ino != 8 || !(flags & BLOCK_FLAG_READ_ONLY)) vf_bad_call = 1;
	for (k = 0; k < NJ; k++) {
		blk64_t b = IN.jblk[k];
		if ((*func)(fs, &b, k, 0, 0, priv_data) & BLOCK_ABORT)
			break;
		if (b != IN.jblk[k]) vf_bad_call = 1;	/* READ_ONLY walk */
	}
	vf_iter_flags = flags;
	if (k == NJ && !(flags & BLOCK_FLAG_DATA_ONLY)) {
		blk64_t b = IN.jblk[NJ];
		(*func)(fs, &b, BLOCK_COUNT_IND, 0, 0, priv_data);
		if (b != IN.jblk[NJ]) vf_bad_call = 1;
	}
	return 0;
}
/* STUB: ext2fs_group_desc_csum_set(): remembers the free count the checksum was computed over (checksum value: property C14) */
void ext2fs_group_desc_csum_set(ext2_filsys fs, dgrp_t group)
{
	int g;
	for (g = 0; g < NG; g++)
		if ((dgrp_t) g == group) {
			vf_csum_at[g] = ext2fs_bg_free_blocks_count(fs, g);
			vf_csum_done[g] = 1;
		}
}

int main(void)
{
	int p, g, k, h;
	__u32 cnt[NG], total = 0, pre_free[NG];
	errcode_t rc;

	VF_INPUT(IN);
	/* BOUND: NG groups x BPG blocks, first data block 1, 1 KiB blocks, no bigalloc; journal of NJ blocks */
	for (p = 0; p < NB; p++)
		ASSUME(IN.inuse[p] <= 1);
	/* ASSUME: the journal's blocks are distinct, inside the file system and marked in use (consistent file system) */
	for (k = 0; k < NT; k++) {
		ASSUME(IN.jblk[k] >= 1 && IN.jblk[k] < NB);
		for (h = 0; h < k; h++)
			ASSUME(IN.jblk[h] != IN.jblk[k]);
		for (p = 1; p < NB; p++)
			if ((__u32) p == IN.jblk[k])
				ASSUME(IN.inuse[p] == 1);
	}
	ASSUME(IN.jino >= 1 && IN.jino < 64);
	ASSUME(IN.isize == NJ * 1024u);
	ASSUME(IN.overhead >= NJ && IN.overhead < 1000);
	ASSUME(IN.csum <= 1);

	vf_sb.s_magic = EXT2_SUPER_MAGIC;
	vf_sb.s_rev_level = EXT2_DYNAMIC_REV;
	vf_sb.s_first_data_block = 1;
	vf_sb.s_blocks_per_group = BPG;
	vf_sb.s_clusters_per_group = BPG;
	vf_sb.s_blocks_count = NB;
	vf_sb.s_feature_compat = EXT3_FEATURE_COMPAT_HAS_JOURNAL;
	vf_sb.s_feature_ro_compat = IN.csum ? EXT4_FEATURE_RO_COMPAT_GDT_CSUM : 0;
	vf_sb.s_journal_inum = IN.jino;
	vf_sb.s_overhead_clusters = IN.overhead;
	for (k = 0; k < 17; k++)
		vf_sb.s_jnl_blocks[k] = IN.jnl_blocks[k];
	vf_fs.magic = EXT2_ET_MAGIC_EXT2FS_FILSYS;
	vf_fs.flags = EXT2_FLAG_RW | EXT2_FLAG_SUPER_ONLY;
	vf_fs.super = &vf_sb;
	vf_fs.blocksize = 1024;
	vf_fs.group_desc_count = NG;
	vf_fs.desc_blocks = 1;
	vf_fs.group_desc = (struct opaque_ext2_group_desc *) vf_gd;
	vf_fs.block_map = (ext2fs_block_bitmap) &vf_map;
	/* consistent counters, computed here from the bitmap */
	for (g = 0; g < NG; g++)
		cnt[g] = 0;
	vf_map.bit[0] = 1;
	for (p = 1; p < NB; p++) {
		vf_map.bit[p] = IN.inuse[p];
		if (!IN.inuse[p])
			cnt[(p - 1) / BPG]++;
	}
	for (g = 0; g < NG; g++) {
		ext2fs_bg_free_blocks_count_set(&vf_fs, g, cnt[g]);
		pre_free[g] = cnt[g];
		total += cnt[g];
	}
	ext2fs_free_blocks_count_set(&vf_sb, total);

	rc = remove_journal_inode(&vf_fs);

	PROP(rc == 0, "remove_journal_inode succeeds when every callee succeeds");
	PROP(!vf_oob && !vf_bad_call, "no bitmap access outside the file system, right inode, read-only walk");
	PROP(vf_nwrite_inode == 1, "journal inode written back once");
	PROP(vf_sb.s_journal_inum == 0, "s_journal_inum cleared");
	for (k = 0; k < 17; k++)
		PROP(vf_sb.s_jnl_blocks[k] == 0, "s_jnl_blocks[] backup cleared");
	PROP(vf_fs.flags & EXT2_FLAG_DIRTY, "superblock marked dirty");

	if (IN.jino == 8) {
		__u32 after[NG], tot2 = 0;
		const unsigned char *w = (const unsigned char *) &vf_written;
		int nz = 0;
		PROP(vf_niter == 1, "journal blocks walked once");
		PROP(vf_iter_flags == BLOCK_FLAG_READ_ONLY, "the walk is asked for ALL blocks of the inode, read-only (flags == BLOCK_FLAG_READ_ONLY)");
		for (g = 0; g < NG; g++)
			after[g] = 0;
		for (p = 1; p < NB; p++) {
			int isj = 0;
			for (k = 0; k < NT; k++)
				if ((__u32) p == IN.jblk[k])
					isj = 1;
			PROP(vf_map.bit[p] == (isj ? 0 : IN.inuse[p]), "exactly the journal's blocks -- data AND mapping metadata -- became free");
			if (!vf_map.bit[p])
				after[(p - 1) / BPG]++;
		}
		PROP(vf_map.bit[0] == 1, "block 0 untouched");
		for (g = 0; g < NG; g++) {
			PROP(ext2fs_bg_free_blocks_count(&vf_fs, g) == after[g], "group free count == clear bits of the group (consistency kept)");
			tot2 += after[g];
			if (after[g] != pre_free[g])
				PROP(vf_csum_done[g] && vf_csum_at[g] == after[g], "descriptor checksum recomputed after the last change of a group's count");
		}
		PROP(ext2fs_free_blocks_count(&vf_sb) == tot2 && tot2 == total + NT, "superblock free count == sum == old + released blocks");
		for (k = 0; k < (int) sizeof(vf_written); k++)
			if (w[k]) nz = 1;
		PROP(!nz, "journal inode written back zeroed");
		PROP(vf_fs.flags & EXT2_FLAG_BB_DIRTY, "block bitmap marked dirty");
		PROP(!(vf_fs.flags & EXT2_FLAG_SUPER_ONLY), "descriptors will be written (SUPER_ONLY dropped)");
		PROP(vf_sb.s_overhead_clusters == IN.overhead - NJ, "overhead shrinks by the journal's size");
	} else {
		PROP(vf_niter == 0, "a visible journal file keeps its blocks");
		for (p = 0; p < NB; p++)
			PROP(vf_map.bit[p] == (p == 0 ? 1 : IN.inuse[p]), "bitmap untouched");
		PROP(vf_written.i_flags == (IN.iflags & ~EXT2_IMMUTABLE_FL) && vf_written.i_size == IN.isize && vf_written.i_block[0] == IN.jblk[0],
		     "file kept, only the immutable flag cleared");
		PROP(ext2fs_free_blocks_count(&vf_sb) == total, "free count untouched");
	}
	VF_END();
	return 0;
}
