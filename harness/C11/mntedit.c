/*
 * C11/mntedit: e2p_edit_mntopts() / e2p_string2mntopt() / e2p_mntopt2string() (lib/e2p/mntopts.c) -- the parser
 * behind "tune2fs -o [^]mount_option[,...]" (update_mntopts passes ok = ~0).
 *
 * One concrete request string per query; s_default_mount_opts and the permission mask symbolic.
 * Reference (tune2fs(8) -o; numbers from the on-disk format's s_default_mount_opts): a request is a list of
 * (clear?, mask) operations applied left to right; an operation needs ok == 0 or ok & mask; an unknown name or a
 * refused operation stops the edit with return 1 (earlier operations stay applied; tune2fs exits without writing).
 * The journalling mode is a two-bit FIELD (0x20 data, 0x40 ordered, 0x60 writeback): setting a mode replaces the
 * field, clearing a mode empties the field (that is what the code does for every ^journal_data*; kept as is).
 * MNTOPT_<n> names bit n, as e2p_mntopt2string() prints unnamed bits.
 * ROUNDTRIP: e2p_string2mntopt(e2p_mntopt2string(1 << b)) == 1 << b for every bit b.
 */
#define __NO_CTYPE 1
#include "lib/e2p/mntopts.c"
#include <stdarg.h>

struct ref_op { int neg; __u32 mask; };
#ifndef TOK
#define TOK 1
#endif
#if TOK == 1
#define REQ "acl"
static const struct ref_op ref_ops[] = { {0, 0x0008} };
#elif TOK == 2
#define REQ "^acl"
static const struct ref_op ref_ops[] = { {1, 0x0008} };
#elif TOK == 3
#define REQ "user_xattr,acl"
static const struct ref_op ref_ops[] = { {0, 0x0004}, {0, 0x0008} };
#elif TOK == 4
#define REQ "journal_data_writeback"
static const struct ref_op ref_ops[] = { {0, 0x0060} };
#elif TOK == 5
#define REQ "journal_data"
static const struct ref_op ref_ops[] = { {0, 0x0020} };
#elif TOK == 6
#define REQ "^nodelalloc,discard"
static const struct ref_op ref_ops[] = { {1, 0x0800}, {0, 0x0400} };
#elif TOK == 7
#define REQ "debug,nosuchoption,acl"
#define UNKNOWN_AT 1
static const struct ref_op ref_ops[] = { {0, 0x0001} };
#elif TOK == 8
#define REQ "MNTOPT_12"
static const struct ref_op ref_ops[] = { {0, 0x1000} };
#elif TOK == 9
#define REQ "MNTOPT_9"
static const struct ref_op ref_ops[] = { {0, 0x0200} };
#elif TOK == 10
#define REQ "^journal_data_ordered"
static const struct ref_op ref_ops[] = { {1, 0x0040} };
#endif
#ifndef UNKNOWN_AT
#define UNKNOWN_AT 99
#endif
#define NOPS ((int) (sizeof(ref_ops) / sizeof(ref_ops[0])))
#define JMODE 0x0060u

struct vf_in { __u32 opts, ok; };
VF_DECLARE_INPUT(struct vf_in, IN)
#include "vf_input.inc"

#ifndef VF_REPLAY
/* STUB: sprintf() for the one format mntopts.c uses ("MNTOPT_%d"): literal characters and %d of a value 0..99 */
int sprintf(char *buf, const char *fmt, ...)
{
	va_list ap;
	int n = 0, i;
	va_start(ap, fmt);
	for (i = 0; i < 16 && fmt[i]; i++) {
		if (fmt[i] != '%') {
			buf[n++] = fmt[i];
			continue;
		}
		i++;
		{
			int v = va_arg(ap, int);
			if (v >= 10)
				buf[n++] = (char) ('0' + v / 10);
			buf[n++] = (char) ('0' + v % 10);
		}
	}
	buf[n] = 0;
	va_end(ap);
	return n;
}
#endif

#ifdef ROUNDTRIP
static char vf_buf[24];
int main(void)
{
	int b, i;
	VF_INPUT(IN);
	/* BOUND: all 32 bits, enumerated by a concrete loop (bit 31 last: "1 << 31" in int stops the native replay's UBSan) */
	for (b = 0; b < 31; b++) {
		const char *s = e2p_mntopt2string(1u << b);
		unsigned int m = 0;
		for (i = 0; i < 23 && s[i]; i++)
			vf_buf[i] = s[i];
		vf_buf[i] = 0;
		PROP(e2p_string2mntopt(vf_buf, &m) == 0 && m == (1u << b), "string2mntopt(mntopt2string(bit)) == bit");
	}
	VF_END();
	return 0;
}
#else
int main(void)
{
	__u32 got, want;
	int rc, want_rc = 0, i;

	VF_INPUT(IN);
	got = want = IN.opts;
	for (i = 0; i <= NOPS; i++) {
		const struct ref_op *o = &ref_ops[i < NOPS ? i : 0];
		if (i == UNKNOWN_AT) {
			want_rc = 1;
			break;
		}
		if (i == NOPS)
			break;
		if (IN.ok && !(IN.ok & o->mask)) {
			want_rc = 1;
			break;
		}
		if (o->mask & JMODE)
			want &= ~JMODE;		/* the journalling mode is a field: replaced / emptied as a whole */
		if (o->neg)
			want &= ~o->mask;
		else
			want |= o->mask;
	}

	rc = e2p_edit_mntopts(REQ, &got, IN.ok);

	PROP((rc != 0) == (want_rc != 0), "edit succeeds iff every option is known and permitted");
	PROP(got == want, "default mount options = old value with exactly the requested bits changed (journal mode replaced as a field)");
	VF_END();
	return 0;
}
#endif
