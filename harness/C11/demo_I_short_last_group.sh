#!/bin/sh
# C11 finding (harness movemap): "tune2fs -I 256" on a file system whose last group is too short for the enlarged
# inode table: get_move_bitmaps() walks past the end of the file system ("Illegal block number passed to
# ext2fs_test_block_bitmap"), expand_inode_table() writes past the end of the file system (the image file grows),
# the run then dies in rewrite_inodes() and leaves the converted tables behind an unconverted superblock.
R=${VF_REPO:-/repo}; D=$(mktemp -d); cd $D
$R/misc/mke2fs -q -F -t ext4 -O ^flex_bg,^resize_inode,^has_journal -I 128 -b 1024 -N 4096 img 8520 2>/dev/null
$R/e2fsck/e2fsck -fy img >/dev/null 2>&1
ls -l img | awk '{print "image size before:", $5}'
$R/misc/dumpe2fs img 2>/dev/null | grep -E "^Group|Inode table at|^Block count"
$R/misc/tune2fs -I 256 img >t.log 2>&1; echo "tune2fs exit status: $?"
echo "'Illegal block number passed to ext2fs_*_block_bitmap' messages: $(grep -c '^Illegal block number' t.log)"; grep -v "^Illegal" t.log | tail -5
ls -l img | awk '{print "image size after: ", $5}'
$R/e2fsck/e2fsck -fn img >fsck.log 2>&1; echo "e2fsck -fn exit status: $?"; tail -6 fsck.log
cd /; rm -rf $D
