/*
 * C11/dirtail: rewrite_dir_block() (misc/tune2fs.c) -- what "tune2fs -O metadata_csum" / "-O ^metadata_csum" (and
 * every later checksum rewrite: UUID change, -I, ^metadata_csum_seed) does to ONE directory block.
 *
 * Real code: rewrite_dir_block(), request_dir_fsck_afterwards() (tune2fs.c), ext2fs_get_rec_len / ext2fs_set_rec_len
 * (dir_iterate.c), ext2fs_initialize_dirent_tail / ext2fs_get_dx_countlimit (csum.c).
 * STUB side: ext2fs_read_dir_block4 / ext2fs_write_dir_block4 move the block between vf_disk[] and the caller's
 * buffer (little-endian host: no byte swapping; the checksum VALUE is property C14's subject).
 *
 * Pre-state: one directory block of BS bytes, every byte symbolic, well formed for the OLD feature set
 * (PRE_TAIL: 12-byte checksum tail present / absent).  One call.  Independent reader vf_scan() (on-disk format:
 * inode @0, rec_len @4, name_len @6, file_type @7, name @8, little endian) walks the block before and after.
 *
 * Leaf blocks (KIND 0), metadata_csum being switched ON (CSUM 1, PRE_TAIL 0):
 *   - either the block is written back once, well formed WITH tail {inode 0, rec_len 12, name_len 0, type 0xDE}:
 *     every record of the old block starts at the same offset with the same inode / name_len / file_type / name,
 *     only the LAST record's rec_len shrank by exactly 12;
 *   - or nothing is written, the block is untouched and "e2fsck -fD" is requested (EXT2_VALID_FS cleared,
 *     fsck_requested set).  That is required when the last record has no 12 spare bytes (never a truncated name)
 *     and is tolerated when it has exactly 12 (the code is conservative there); with more than 12 spare bytes the
 *     tail MUST be inserted;
 *   - an unused 12-byte last record is turned into the tail in place.
 * metadata_csum being switched OFF (CSUM 0, PRE_TAIL 1): the block is written once, well formed WITHOUT tail, all
 * records kept, the last record's rec_len grew by exactly 12.
 * Already-converted blocks (CSUM 1 / PRE_TAIL 1, CSUM 0 / PRE_TAIL 0): all records kept, format unchanged.
 *
 * htree interior nodes (KIND 1; is_htree, dir_index kept): the fake dirent + {limit, count} + count entries.
 *   ON:  count == limit -> reported (fsck -fD), untouched; else limit becomes (BS - 8 - 8) / 8 (room for the 8-byte
 *        dx tail), count and the count entries are unchanged, written once;
 *   OFF: limit becomes (BS - 8) / 8; count and entries unchanged.
 */
#include "t2f.h"

#ifndef BS
#define BS 48
#endif
#ifndef CSUM
#define CSUM 1
#endif
#ifndef PRE_TAIL
#define PRE_TAIL (!CSUM)
#endif
#ifndef KIND
#define KIND 0
#endif
#define NSLOT (BS / 4)
#define VF_BLK 100
#define VF_DIR 12

struct vf_in { unsigned char blk[BS]; unsigned short state; };
VF_DECLARE_INPUT(struct vf_in, IN)
#include "vf_input.inc"

static unsigned char vf_disk[BS], vf_pre[BS];
static unsigned char vf_buf[BS] __attribute__((aligned(8)));
static int vf_nread, vf_nwrite, vf_bad_call;
static struct struct_ext2_filsys vf_fs;
static struct ext2_super_block vf_sb;

/* STUB: ext2fs_read_dir_block4() / ext2fs_write_dir_block4(): copy the block from / to vf_disk[], succeed, count calls */
errcode_t ext2fs_read_dir_block4(ext2_filsys fs, blk64_t block, void *buf, int flags, ext2_ino_t ino)
{
	unsigned char *d = buf;
	int i;
	(void) flags;
	vf_nread++;
	if (fs != &vf_fs || block != VF_BLK || ino != VF_DIR)
		vf_bad_call = 1;
	for (i = 0; i < BS; i++)
		d[i] = vf_disk[i];
	return 0;
}
errcode_t ext2fs_write_dir_block4(ext2_filsys fs, blk64_t block, void *buf, int flags, ext2_ino_t ino)
{
	unsigned char *d = buf;
	int i;
	(void) flags;
	vf_nwrite++;
	if (fs != &vf_fs || block != VF_BLK || ino != VF_DIR)
		vf_bad_call = 1;
	for (i = 0; i < BS; i++)
		vf_disk[i] = d[i];
	return 0;
}

/* ---------------- independent reader of the on-disk format ---------------- */
#define RD16(b, o) ((unsigned) (b)[(o)] | ((unsigned) (b)[(o) + 1] << 8))
#define RD32(b, o) ((__u32) (b)[(o)] | ((__u32) (b)[(o) + 1] << 8) | ((__u32) (b)[(o) + 2] << 16) | ((__u32) (b)[(o) + 3] << 24))
#define E_INO(b, p) RD32(b, p)
#define E_RL(b, p) RD16(b, (p) + 4)
#define E_NL(b, p) ((unsigned) (b)[(p) + 6])
#define E_FT(b, p) ((unsigned) (b)[(p) + 7])

/*
 * Well-formedness (what e2fsck pass 2 and the kernel demand): records start at 0, each rec_len is a multiple of 4,
 * >= 12, >= 8 + name_len; a record in use has a name; the chain ends exactly at `end`; with tail the 12 bytes at
 * `end` are the checksum tail.  start[s] = 1 iff a record starts at 4*s; *last = offset of the last record.
 */
static int vf_scan(const unsigned char *b, int tail, unsigned char *start, int *last)
{
	const int end = tail ? BS - 12 : BS;
	unsigned next = 0;
	int p, ok = 1;

	for (p = 0; p < BS; p += 4)
		start[p / 4] = 0;
	*last = -1;
	for (p = 0; p + 12 <= end; p += 4) {
		if ((unsigned) p == next && ok) {
			unsigned rl = E_RL(b, p), nl = E_NL(b, p);
			if (rl < 12 || (rl & 3) || p + rl > (unsigned) end || nl + 8 > rl)
				ok = 0;
			else if (E_INO(b, p) != 0 && nl == 0)
				ok = 0;
			else {
				start[p / 4] = 1;
				*last = p;
				next = p + rl;
			}
		}
	}
	if (next != (unsigned) end)
		ok = 0;
	if (tail && (E_INO(b, end) != 0 || E_RL(b, end) != 12 || E_NL(b, end) != 0 || E_FT(b, end) != 0xDE))
		ok = 0;
	return ok;
}

static int vf_same_entry(const unsigned char *a, const unsigned char *b, int p)
{
	int k;
	if (E_INO(a, p) != E_INO(b, p) || E_NL(a, p) != E_NL(b, p) || E_FT(a, p) != E_FT(b, p))
		return 0;
	for (k = 0; p + 8 + k < BS; k++)
		if ((unsigned) k < E_NL(a, p) && a[p + 8 + k] != b[p + 8 + k])
			return 0;
	return 1;
}

static unsigned char vf_s0[NSLOT], vf_s1[NSLOT];

int main(void)
{
	struct rewrite_dir_context ctx;
	blk64_t blk = VF_BLK;
	int i, p, ret, last0 = -1, last1 = -1, reported, live0 = 0, live1 = 0;

	VF_INPUT(IN);
	vf_fs.magic = EXT2_ET_MAGIC_EXT2FS_FILSYS;
	vf_fs.flags = EXT2_FLAG_RW | EXT2_FLAG_IGNORE_CSUM_ERRORS;
	vf_fs.super = &vf_sb;
	vf_fs.blocksize = BS;
	/* the NEW feature set is already in the superblock when the rewrite runs */
	vf_sb.s_feature_ro_compat = CSUM ? EXT4_FEATURE_RO_COMPAT_METADATA_CSUM : 0;
	vf_sb.s_feature_incompat = EXT2_FEATURE_INCOMPAT_FILETYPE;
	vf_sb.s_feature_compat = EXT2_FEATURE_COMPAT_DIR_INDEX;
	vf_sb.s_state = IN.state;
	for (i = 0; i < BS; i++)
		vf_disk[i] = vf_pre[i] = IN.blk[i];
	ctx.buf = (char *) vf_buf;
	ctx.errcode = 0;
	ctx.dir = VF_DIR;
	ctx.clear_htree = 0;

#if KIND == 0
	/* BOUND: one leaf block of BS bytes (40..64), records of 12..BS bytes, names up to BS - 8 bytes */
	/* ASSUME: the block is well formed for the old feature set (freshly checked file system: check_fsck_needed) */
	ASSUME(vf_scan(vf_pre, PRE_TAIL, vf_s0, &last0));
#ifdef HTREE_LEAF
	/* leaf of an indexed directory: rewrite_dir_block first asks ext2fs_get_dx_countlimit whether this is an interior node */
	ctx.is_htree = 1;
	/* ASSUME: the leaf is not one empty record spanning the block (indistinguishable from an interior node's fake dirent, also for the kernel) */
	ASSUME(!(E_RL(vf_pre, 0) == BS && E_NL(vf_pre, 0) == 0));
	/* ASSUME: not block 0 of the directory (dx root: 12-byte "." record followed by a record of BS - 12 bytes) */
	ASSUME(!(E_RL(vf_pre, 0) == 12 && E_RL(vf_pre, 12) == BS - 12));
#else
	ctx.is_htree = 0;
#endif

	ret = rewrite_dir_block(&vf_fs, &blk, 0, 0, 0, &ctx);

	PROP(ret == 0 && ctx.errcode == 0, "rewrite_dir_block succeeds on a well-formed block");
	PROP(vf_nread == 1 && vf_nwrite <= 1 && !vf_bad_call, "block read once, written at most once, right block and directory");
	PROP(blk == VF_BLK, "block number not changed");
	reported = (fsck_requested != 0);
	if (reported) {
		PROP(vf_nwrite == 0, "a block reported for e2fsck -fD is not written");
		PROP(!(vf_sb.s_state & EXT2_VALID_FS), "reporting clears EXT2_VALID_FS so that e2fsck runs");
	} else
		PROP(vf_sb.s_state == IN.state, "s_state untouched when nothing is reported");
	if (vf_nwrite == 0)
		for (i = 0; i < BS; i++)
			PROP(vf_disk[i] == vf_pre[i], "unwritten block is untouched");

#if CSUM
	{
		/* spare bytes of the last record beyond header + padded name */
		unsigned rl = 0, nl = 0, ino = 1;
		int spare;
		for (p = 0; p + 12 <= BS; p += 4)
			if (p == last0) { rl = E_RL(vf_pre, p); nl = E_NL(vf_pre, p); ino = E_INO(vf_pre, p); }
		spare = (int) rl - (int) (8 + ((nl + 3) & ~3u));
#if !PRE_TAIL
		if (ino == 0 && rl == 12) {
			PROP(!reported && vf_nwrite == 1, "an unused 12-byte last record becomes the tail");
		} else {
			if (spare < 12)
				PROP(reported, "no room for the 12-byte tail: reported for e2fsck -fD, never truncated");
			if (spare > 12)
				PROP(!reported && vf_nwrite == 1, "room for the tail: tail inserted and block written");
		}
#else
		PROP(!reported && vf_nwrite == 1, "block that already has a tail is rewritten (checksum refresh), not reported");
#endif
	}
	if (!reported) {
		PROP(vf_scan(vf_disk, 1, vf_s1, &last1), "written block is well formed WITH checksum tail");
#if !PRE_TAIL
		PROP(last0 == last1 || (last0 == BS - 12 && E_INO(vf_pre, BS - 12) == 0 && E_RL(vf_pre, BS - 12) == 12),
		     "the last record stays the last record, unless it was an unused 12-byte record that became the tail");
#endif
		for (p = 0; p + 12 <= BS - 12; p += 4) {
			int was = vf_s0[p / 4];
			PROP(vf_s1[p / 4] == was, "records start at the same offsets as before");
			if (was) {
				PROP(vf_same_entry(vf_pre, vf_disk, p), "every record keeps inode, name_len, file_type and name");
#if !PRE_TAIL
				if (p == last1 && last0 == last1)
					PROP(E_RL(vf_disk, p) + 12 == E_RL(vf_pre, p), "last record shrank by exactly the 12 bytes of the tail");
				else
#endif
					PROP(E_RL(vf_disk, p) == E_RL(vf_pre, p), "other records keep their rec_len");
			}
		}
	}
#else	/* metadata_csum switched off */
	PROP(!reported, "removing the tail never needs e2fsck");
	PROP(vf_scan(vf_disk, 0, vf_s1, &last1), "block is well formed WITHOUT tail afterwards");
#if PRE_TAIL
	PROP(vf_nwrite == 1, "block with a tail is written back once");
#endif
	for (p = 0; p + 12 <= BS; p += 4) {
		int was = vf_s0[p / 4];
#if !PRE_TAIL
		/* nothing to remove: an unused trailing record may be merged into its predecessor; records in use are kept */
		if (was && E_INO(vf_pre, p) == 0)
			was = 0;
#endif
		if (was) {
			PROP(vf_s1[p / 4], "records start at the same offsets as before");
			PROP(vf_same_entry(vf_pre, vf_disk, p), "every record keeps inode, name_len, file_type and name");
#if PRE_TAIL
			if (p == last0)
				PROP(E_RL(vf_disk, p) == E_RL(vf_pre, p) + 12, "last record grew by exactly the 12 bytes of the tail");
			else
				PROP(E_RL(vf_disk, p) == E_RL(vf_pre, p), "other records keep their rec_len");
#endif
		}
	}
#endif
	for (p = 0; p + 12 <= BS; p += 4) {
		if (vf_s0[p / 4] && E_INO(vf_pre, p) != 0) live0++;
		if (!reported && vf_s1[p / 4] && E_INO(vf_disk, p) != 0) live1++;
	}
	if (!reported)
		PROP(live0 == live1, "listing after = listing before (no entry appears or disappears)");

#else	/* KIND 1: htree interior node */
	{
		unsigned limit0 = RD16(vf_pre, 8), count0 = RD16(vf_pre, 10), limit1, count1;
		const unsigned full = (BS - 8) / 8, withtail = (BS - 8 - 8) / 8;
		/* BOUND: interior node (not the root) of BS bytes: at most (BS-8)/8 index entries */
		/* ASSUME: well-formed interior node of the old format: fake dirent {inode 0, rec_len BS, name_len 0, file_type 0}, 1 <= count <= limit,
		 * limit = the maximum of the old format ((BS-8)/8 without, (BS-16)/8 with dx tail) */
		ASSUME(E_INO(vf_pre, 0) == 0 && E_RL(vf_pre, 0) == BS && E_NL(vf_pre, 0) == 0 && E_FT(vf_pre, 0) == 0);
		ASSUME(limit0 == (PRE_TAIL ? withtail : full));
		ASSUME(count0 >= 1 && count0 <= limit0);
		ctx.is_htree = 1;

		ret = rewrite_dir_block(&vf_fs, &blk, 0, 0, 0, &ctx);

		PROP(ret == 0 && ctx.errcode == 0, "rewrite_dir_block succeeds on a well-formed interior node");
		PROP(vf_nread == 1 && vf_nwrite <= 1 && !vf_bad_call, "block read once, written at most once, right block and directory");
		reported = (fsck_requested != 0);
		limit1 = RD16(vf_disk, 8);
		count1 = RD16(vf_disk, 10);
		PROP(count1 == count0, "count unchanged");
		for (i = 0; i < BS; i++)
			if (i != 8 && i != 9)
				PROP(vf_disk[i] == vf_pre[i], "nothing but the limit field changes (index entries, fake dirent intact)");
#if CSUM
		if (reported) {
			/* (a full node that already has room for the tail is reported as well: conservative, tolerated) */
			PROP(count0 == limit0, "only a full interior node is reported");
			PROP(vf_nwrite == 0 && limit1 == limit0, "full interior node: reported for e2fsck -fD, untouched");
			PROP(!(vf_sb.s_state & EXT2_VALID_FS), "reporting clears EXT2_VALID_FS so that e2fsck runs");
		}
#if !PRE_TAIL
		if (count0 == limit0)
			PROP(reported, "a full interior node without room for the dx tail is reported, never overwritten");
#endif
		if (!reported) {
			PROP(!reported && vf_nwrite == 1, "interior node with a free slot is rewritten");
			PROP(limit1 == withtail, "limit leaves room for the 8-byte dx tail");
			PROP(8 + 8 * count1 + 8 <= BS, "the index entries in use do not reach into the dx tail");
		}
#else
		PROP(!reported, "removing the dx tail never needs e2fsck");
		PROP(limit1 == full, "limit is the maximum of the tail-less format");
		PROP(vf_nwrite == (PRE_TAIL ? 1 : 0), "written iff the limit changed");
#endif
	}
#endif
	VF_END();
	return 0;
}
