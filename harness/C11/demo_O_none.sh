#!/bin/sh
# C11 finding (harness featureset[REQ=10] / [REQ=17]): "tune2fs -O none" (or "-O clear") is accepted and wipes
# all three feature words, including features clear_ok_features[] does not allow tune2fs to clear (extent, flex_bg, ...).
R=${VF_REPO:-/repo}; D=$(mktemp -d); cd $D
$R/misc/mke2fs -q -F -t ext4 -O ^has_journal img 8M
head -c 300000 /dev/urandom > payload
$R/debugfs/debugfs -w -R "write payload payload" img >/dev/null 2>&1
$R/misc/dumpe2fs -h img 2>/dev/null | grep -i "^Filesystem features"
$R/misc/tune2fs -O none img; echo "tune2fs exit status: $?"
$R/misc/dumpe2fs -h img 2>/dev/null | grep -i "^Filesystem features"
$R/debugfs/debugfs -R "dump payload out" img 2>&1 | tail -2
cmp payload out && echo "payload intact" || echo "payload NOT readable / differs"
$R/e2fsck/e2fsck -fn img >fsck.log 2>&1; echo "e2fsck -fn exit status: $?"; head -12 fsck.log
cd /; rm -rf $D
