/*
 * C11/inoscan: the per-inode step of inode_scan_and_fix() (misc/tune2fs.c), the reference-fixing pass of
 * "tune2fs -I": after move_block() copied the blocks that stand in the way of the larger inode tables, every inode
 * that refers to a moved block must be repointed BEFORE expand_inode_table() overwrites the old locations.
 *
 * Real code: inode_scan_and_fix(), translate_block(), process_block() (tune2fs.c), ext2fs_file_acl_block /
 * ext2fs_file_acl_block_set (blknum.c), ext2fs_inode_has_valid_blocks2 (valid_blk.c).
 * STUB side (style of C08/inoscan): the inode scan delivers ONE inode -- number, link count, mode, flags, size,
 * i_blocks, i_block[], i_file_acl: all symbolic -- then the end marker; ext2fs_write_inode() records the inode it is
 * given; ext2fs_block_iterate3() records its arguments and hands one symbolic block reference to the callback it
 * was given; the to-move bitmap is one byte per block; blk_move_list holds K = 2 moves built with the real list_add().
 *
 * Decided for every such inode:
 *   - i_links_count == 0 (the code's notion of "not in use"): neither written nor walked;
 *   - in use and its xattr block (i_file_acl, 48 bits with the 64bit feature) is in the to-move bitmap: the inode is
 *     written back exactly once, under its own number, with i_file_acl == the recorded new location and every other
 *     field unchanged -- WHATEVER its type / flags / whether it maps any block (fifo, device node, fast symlink,
 *     inline data ...);
 *   - xattr block 0 or not in the bitmap: the inode is not written;
 *   - the block walk runs iff the inode has valid blocks (ext2fs_inode_has_valid_blocks2), once, for this inode,
 *     writable (flags 0), with process_block and the to-move bitmap; a reference the walk presents is rewritten iff
 *     that block moved;
 *   - the scan is closed, the function returns 0.
 */
#include "t2f.h"

#define NB 16
#define K 2
#include "bytemap.h"

struct vf_in {
	__u32 ino;
	__u16 links, mode, acl_high;
	__u32 flags, size, iblocks, acl, dtime;
	__u32 block[EXT2_N_BLOCKS];
	unsigned char tomove[NB];
	__u32 oldl[K];
	unsigned long long newl[K];
	__u32 walk_blk;
	unsigned char feat64;
};
VF_DECLARE_INPUT(struct vf_in, IN)
#include "vf_input.inc"

static struct struct_ext2_filsys vf_fs;
static struct ext2_super_block vf_sb;
static struct vf_bm vf_move;
static struct blk_move vf_ent[K];
static long vf_scan_obj;
static struct ext2_inode vf_given, vf_written;
static int vf_delivered, vf_nopen, vf_nclose, vf_close_ok, vf_nwrite, vf_write_ok, vf_niter, vf_iter_ok, vf_cb_ret;
static blk64_t vf_cb_blk;

/* STUB: ext2fs_open_inode_scan / ext2fs_close_inode_scan: succeed, counted */
errcode_t ext2fs_open_inode_scan(ext2_filsys fs, int nb, ext2_inode_scan *ret)
{
	(void) nb;
	if (fs == &vf_fs) vf_nopen++;
	*ret = (ext2_inode_scan) &vf_scan_obj;
	return 0;
}
void ext2fs_close_inode_scan(ext2_inode_scan scan)
{
	vf_nclose++;
	vf_close_ok = ((void *) scan == (void *) &vf_scan_obj);
}
/* STUB: ext2fs_get_next_inode() delivers the one symbolic inode, then inode number 0 (end of scan) */
errcode_t ext2fs_get_next_inode(ext2_inode_scan scan, ext2_ino_t *ino, struct ext2_inode *inode)
{
	(void) scan;
	if (vf_delivered) { *ino = 0; return 0; }
	vf_delivered = 1;
	*inode = vf_given;
	*ino = IN.ino;
	return 0;
}
/* STUB: ext2fs_write_inode(): records the inode written */
errcode_t ext2fs_write_inode(ext2_filsys fs, ext2_ino_t ino, struct ext2_inode *inode)
{
	vf_nwrite++;
	vf_write_ok = (fs == &vf_fs && ino == IN.ino);
	vf_written = *inode;
	return 0;
}
/* STUB: ext2fs_block_iterate3(): records its arguments and presents ONE symbolic block reference to the callback */
errcode_t ext2fs_block_iterate3(ext2_filsys fs, ext2_ino_t ino, int flags, char *block_buf,
				int (*func)(ext2_filsys fs, blk64_t *blocknr, e2_blkcnt_t blockcnt,
					    blk64_t ref_blk, int ref_offset, void *priv_data),
				void *priv_data)
{
	vf_niter++;
	vf_iter_ok = (fs == &vf_fs && ino == IN.ino && flags == 0 && block_buf != 0 &&
		      priv_data == (void *) &vf_move);
	vf_cb_blk = IN.walk_blk;
	vf_cb_ret = (*func)(fs, &vf_cb_blk, 0, 0, 0, priv_data);
	return 0;
}

int main(void)
{
	int k, p, rc, inmap = 0, valid;
	unsigned long long acl0, acl1, want = 0, wwalk = 0;

	VF_INPUT(IN);
	/* BOUND: one inode per scan (every number, link count, mode, flag word, size, i_blocks, i_block[] content), 16 blocks, 2 recorded moves */
	ASSUME(IN.feat64 <= 1);
	ASSUME(IN.ino >= 1);
	/* ASSUME: consistent file system: the xattr block lies inside the file system (upper 16 bits only with the 64bit feature, here 0) */
	ASSUME(IN.acl < NB && IN.acl_high == 0);
	ASSUME(IN.walk_blk >= 1 && IN.walk_blk < NB);
	for (k = 0; k < K; k++) {
		/* ASSUME: move_block's result: old locations distinct blocks of the file system, targets non-zero (48 bits with 64bit, else 32) */
		ASSUME(IN.oldl[k] >= 1 && IN.oldl[k] < NB && IN.newl[k] >= 1);
		ASSUME(IN.newl[k] < (IN.feat64 ? (1ULL << 48) : (1ULL << 32)));
	}
	ASSUME(IN.oldl[0] != IN.oldl[1]);
	for (p = 0; p < NB; p++) {
		int has = 0;
		ASSUME(IN.tomove[p] <= 1);
		for (k = 0; k < K; k++)
			if (IN.oldl[k] == (__u32) p)
				has = 1;
		/* ASSUME: every block of the to-move bitmap has a list entry (post-condition of move_block, harness moveblk) */
		ASSUME(!IN.tomove[p] || has);
		vf_move.bit[p] = IN.tomove[p];
	}

	vf_sb.s_magic = EXT2_SUPER_MAGIC;
	vf_sb.s_rev_level = EXT2_DYNAMIC_REV;
	vf_sb.s_feature_incompat = IN.feat64 ? EXT4_FEATURE_INCOMPAT_64BIT : 0;
	vf_fs.magic = EXT2_ET_MAGIC_EXT2FS_FILSYS;
	vf_fs.flags = EXT2_FLAG_RW;
	vf_fs.super = &vf_sb;
	vf_fs.blocksize = 64;
	vf_given.i_links_count = IN.links;
	vf_given.i_mode = IN.mode;
	vf_given.i_flags = IN.flags;
	vf_given.i_size = IN.size;
	vf_given.i_blocks = IN.iblocks;
	vf_given.i_dtime = IN.dtime;
	vf_given.i_file_acl = IN.acl;
	vf_given.osd2.linux2.l_i_file_acl_high = IN.acl_high;
	for (k = 0; k < EXT2_N_BLOCKS; k++)
		vf_given.i_block[k] = IN.block[k];
	INIT_LIST_HEAD(&blk_move_list);
	for (k = 0; k < K; k++) {
		vf_ent[k].old_loc = IN.oldl[k];
		vf_ent[k].new_loc = IN.newl[k];
		list_add(&vf_ent[k].list, &blk_move_list);
	}
	/* reference: does the xattr block move, and where to */
	acl0 = IN.acl;
	for (p = 1; p < NB; p++)
		if ((unsigned long long) p == acl0 && IN.tomove[p])
			inmap = 1;
	for (k = 0; k < K; k++) {
		if (inmap && IN.oldl[k] == IN.acl)
			want = IN.newl[k];
		for (p = 1; p < NB; p++)
			if ((__u32) p == IN.walk_blk && IN.tomove[p] && IN.oldl[k] == IN.walk_blk)
				wwalk = IN.newl[k];
	}

	rc = inode_scan_and_fix(&vf_fs, (ext2fs_block_bitmap) &vf_move);

	PROP(rc == 0, "inode_scan_and_fix succeeds when every callee succeeds");
	PROP(vf_nopen == 1 && vf_nclose == 1 && vf_close_ok, "inode scan opened and closed once");
	PROP(!vf_oob, "no bitmap access outside the file system");
	if (IN.links == 0) {
		PROP(vf_nwrite == 0 && vf_niter == 0, "an inode with link count 0 is neither written nor walked");
	} else {
		if (inmap) {
			PROP(vf_nwrite == 1 && vf_write_ok, "inode whose xattr block moved is written back once, under its own number");
			acl1 = (unsigned long long) vf_written.i_file_acl |
				(IN.feat64 ? ((unsigned long long) vf_written.osd2.linux2.l_i_file_acl_high << 32) : 0);
			PROP(acl1 == want, "i_file_acl of the written inode == new location of the xattr block, whatever the inode's type");
			PROP(vf_written.i_mode == IN.mode && vf_written.i_flags == IN.flags && vf_written.i_size == IN.size &&
			     vf_written.i_links_count == IN.links && vf_written.i_blocks == IN.iblocks && vf_written.i_dtime == IN.dtime,
			     "nothing but i_file_acl changes in the inode");
			for (k = 0; k < EXT2_N_BLOCKS; k++)
				PROP(vf_written.i_block[k] == IN.block[k], "i_block[] untouched by the xattr fix-up");
		} else
			PROP(vf_nwrite == 0, "inode whose xattr block did not move is not written");
		/* the documented condition for walking: the library's own predicate, asked about the inode as delivered */
		valid = ext2fs_inode_has_valid_blocks2(&vf_fs, &vf_given);
		PROP(vf_niter == (valid ? 1 : 0), "block walk runs iff the inode has valid blocks");
		if (vf_niter) {
			PROP(vf_iter_ok, "walk: this inode, writable, with a block buffer and the to-move bitmap");
			if (wwalk)
				PROP(vf_cb_blk == wwalk && vf_cb_ret == BLOCK_CHANGED, "walk callback rewrites a reference to a moved block (process_block)");
			else
				PROP(vf_cb_blk == IN.walk_blk && vf_cb_ret == 0, "walk callback leaves other references alone");
		}
	}
	VF_END();
	return 0;
}
