/*
 * C11/movemap: get_move_bitmaps() (misc/tune2fs.c) -- first step of "tune2fs -I": which blocks stand where the
 * enlarged inode tables will be.
 *
 * Real code: get_move_bitmaps(), ext2fs_inode_table_loc (blknum.c).  Bitmaps: one byte per block (bytemap.h, flags
 * every access outside the file system -- the real bitmap code prints "Illegal block number passed to
 * ext2fs_test_block_bitmap" and carries on).  Bad-block list: a stub with at most one bad block.
 *
 * Geometry: NG groups of BPG blocks, the LAST group may be short (s_blocks_count symbolic); every group's inode
 * table (OLDB blocks, to become NEWB) anywhere inside its group.  In-use set and s_free_blocks_count symbolic.
 * Decided:
 *   - return 0 => for every group the range [table + OLDB, table + NEWB) lies inside the file system and inside
 *     the group (no flex_bg), every block of it that was in use is scheduled in bmap, every block of it that
 *     was free is now marked in use, nothing else changed in either bitmap;
 *   - no bitmap access outside the file system on any path;
 *   - an in-use bad block in a range => ENOSPC; not enough free blocks (ranges' total > s_free_blocks_count) => ENOSPC.
 */
#include "t2f.h"

#ifndef NG
#define NG 2
#endif
#ifndef BPG
#define BPG 8
#endif
#ifndef OLDB
#define OLDB 1
#endif
#ifndef NEWB
#define NEWB 3
#endif
#define NB (1 + NG * BPG)
#include "bytemap.h"

struct vf_in {
	unsigned char inuse[NB];
	__u32 it[NG];
	__u32 blocks_count, free_blocks, bad;
	unsigned char has_bad;
};
VF_DECLARE_INPUT(struct vf_in, IN)
#include "vf_input.inc"

static struct struct_ext2_filsys vf_fs;
static struct ext2_super_block vf_sb;
static unsigned char vf_gd[NG * 32] __attribute__((aligned(8)));
static struct vf_bm vf_map, vf_move;
static int vf_bb_dummy, vf_bb_freed;

/* STUB: ext2fs_read_bb_inode / ext2fs_badblocks_list_test / ext2fs_badblocks_list_free: a list with at most one (symbolic) bad block */
errcode_t ext2fs_read_bb_inode(ext2_filsys fs, ext2_badblocks_list *bb_list)
{
	(void) fs;
	*bb_list = (ext2_badblocks_list) &vf_bb_dummy;
	return 0;
}
int ext2fs_badblocks_list_test(ext2_badblocks_list bb, blk_t blk)
{
	(void) bb;
	return IN.has_bad && blk == IN.bad;
}
void ext2fs_badblocks_list_free(ext2_badblocks_list bb) { (void) bb; vf_bb_freed++; }

int main(void)
{
	int g, p, rc, fits = 1, badhit = 0;
	unsigned long long needed = 0;

	VF_INPUT(IN);
	/* BOUND: NG groups x BPG blocks (last group possibly short), inode table OLDB -> NEWB blocks, first data block 1 */
	ASSUME(IN.has_bad <= 1);
	/* ASSUME: the last group exists and holds at least its own old inode table */
	ASSUME(IN.blocks_count >= 1 + (NG - 1) * BPG + OLDB && IN.blocks_count <= NB);
	for (p = 0; p < NB; p++)
		ASSUME(IN.inuse[p] <= 1);
	for (g = 0; g < NG; g++) {
		unsigned long long gstart = 1 + (unsigned long long) g * BPG, gend = gstart + BPG;
		if (gend > IN.blocks_count)
			gend = IN.blocks_count;
		/* ASSUME: consistent file system without flex_bg: every group's (old) inode table lies inside its group and inside the file system */
		ASSUME(IN.it[g] >= gstart && IN.it[g] < NB && (unsigned long long) IN.it[g] + OLDB <= gend);
		if ((unsigned long long) IN.it[g] + NEWB > gend)
			fits = 0;
		needed += NEWB - OLDB;
	}
	ASSUME(IN.free_blocks <= NB);

	vf_sb.s_magic = EXT2_SUPER_MAGIC;
	vf_sb.s_rev_level = EXT2_DYNAMIC_REV;
	vf_sb.s_first_data_block = 1;
	vf_sb.s_blocks_per_group = BPG;
	vf_sb.s_clusters_per_group = BPG;
	vf_sb.s_blocks_count = IN.blocks_count;
	vf_sb.s_free_blocks_count = IN.free_blocks;
	vf_fs.magic = EXT2_ET_MAGIC_EXT2FS_FILSYS;
	vf_fs.super = &vf_sb;
	vf_fs.blocksize = 1024;
	vf_fs.group_desc_count = NG;
	vf_fs.desc_blocks = 1;
	vf_fs.inode_blocks_per_group = OLDB;
	vf_fs.group_desc = (struct opaque_ext2_group_desc *) vf_gd;
	vf_fs.block_map = (ext2fs_block_bitmap) &vf_map;
	for (g = 0; g < NG; g++)
		ext2fs_inode_table_loc_set(&vf_fs, g, IN.it[g]);
	for (p = 0; p < NB; p++)
		vf_map.bit[p] = (p == 0 || (__u32) p >= IN.blocks_count) ? 1 : IN.inuse[p];

	rc = get_move_bitmaps(&vf_fs, NEWB, (ext2fs_block_bitmap) &vf_move);

	/* the byte map is NB long; an access at or beyond s_blocks_count is outside the file system as well */
	for (p = 0; p < NB; p++)
		if ((__u32) p >= IN.blocks_count && vf_move.bit[p])
			vf_oob = 1;
	PROP(!vf_oob, "no bitmap access outside the file system");
	PROP(vf_bb_freed == 1, "bad-block list released exactly once");
	if (rc == 0) {
		PROP(fits, "accepted only if every enlarged inode table fits inside its group and the file system");
		PROP(needed <= IN.free_blocks, "accepted only if the free blocks cover the growth");
	}
	if (fits) {
		for (p = 1; p < NB; p++) {
			int inrange = 0;
			for (g = 0; g < NG; g++)
				if ((__u32) p >= IN.it[g] + OLDB && (__u32) p < IN.it[g] + NEWB)
					inrange = 1;
			if (inrange && IN.inuse[p] && IN.has_bad && (__u32) p == IN.bad)
				badhit = 1;
			if (rc == 0) {
				if (inrange) {
					PROP(vf_move.bit[p] == IN.inuse[p], "a block of the new table area is scheduled for moving iff it was in use");
					PROP(vf_map.bit[p] == 1, "the new table area is reserved in the block bitmap");
				} else {
					PROP(vf_move.bit[p] == 0, "nothing outside the new table areas is scheduled");
					PROP(vf_map.bit[p] == ((__u32) p >= IN.blocks_count ? 1 : IN.inuse[p]), "block bitmap unchanged outside the new table areas");
				}
			}
		}
		PROP((rc == 0) == (!badhit && needed <= IN.free_blocks), "fails exactly for an in-use bad block in the way or too few free blocks");
		if (rc != 0)
			PROP(rc == ENOSPC, "failure is ENOSPC");
	}
	VF_END();
	return 0;
}
