/*
 * C20/bg_has_super: ext2fs_bg_has_super() == the on-disk format's definition of
 * "this group carries a backup superblock", for EVERY 32-bit group number and
 * EVERY feature word / s_backup_bgs pair.
 *
 * Reference (Documentation/filesystems/ext4/blockgroup.rst, written here
 * without looking at closefs.c's helper): group 0 always; with sparse_super2
 * exactly the two groups in s_backup_bgs; without sparse_super every group;
 * otherwise group 1 and the powers of 3, 5 and 7.
 */
#include "lib/ext2fs/closefs.c"

struct vf_in {
	__u32 group;
	__u32 feature_compat, feature_incompat, feature_ro_compat;
	__u32 backup_bgs[2];
};
VF_DECLARE_INPUT(struct vf_in, IN)
#include "vf_input.inc"

/* independent: is g == b^k for some k >= 0, by repeated multiplication in 64 bit */
static int ref_is_power(unsigned long long g, unsigned long long b)
{
	unsigned long long p = 1;
	int i;
	for (i = 0; i < 21; i++) {	/* 3^21 > 2^32 */
		if (p == g)
			return 1;
		if (p > g)
			return 0;
		p *= b;
	}
	return 0;
}

static int ref_has_super(const struct vf_in *in)
{
	__u32 g = in->group;
	if (g == 0)
		return 1;
	if (in->feature_compat & 0x0200 /* COMPAT_SPARSE_SUPER2 */)
		return g == in->backup_bgs[0] || g == in->backup_bgs[1];
	if (!(in->feature_ro_compat & 0x0001 /* RO_COMPAT_SPARSE_SUPER */))
		return 1;
	if (g == 1)
		return 1;
	return ref_is_power(g, 3) || ref_is_power(g, 5) || ref_is_power(g, 7);
}

int main(void)
{
	struct struct_ext2_filsys fs_s;
	struct ext2_super_block sb;
	int got, want;

	VF_INPUT(IN);
	memset(&sb, 0, sizeof(sb));
	memset(&fs_s, 0, sizeof(fs_s));
	fs_s.super = &sb;
	sb.s_feature_compat = IN.feature_compat;
	sb.s_feature_incompat = IN.feature_incompat;
	sb.s_feature_ro_compat = IN.feature_ro_compat;
	sb.s_backup_bgs[0] = IN.backup_bgs[0];
	sb.s_backup_bgs[1] = IN.backup_bgs[1];

	got = ext2fs_bg_has_super(&fs_s, IN.group);
	want = ref_has_super(&IN);
	PROP((got != 0) == (want != 0), "bg_has_super equals format definition");
	VF_END();
	return 0;
}
