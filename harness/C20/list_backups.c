/*
 * C20/list_backups: ext2fs_list_backups() (res_gdt.c) -- the iterator resize2fs,
 * mke2fs (resize inode) and the library use to walk the backup groups -- enumerates
 * EXACTLY the groups ext2fs_bg_has_super() accepts, in increasing order
 * (bg_has_super itself is tied to the on-disk format by bg_has_super.c).
 *
 * Pattern I (one inductive step): state (three, five, seven) symbolic under
 *   Inv(last): each is the smallest power of its base greater than `last`, or the
 *   saturation value 0xffffffff when that power does not fit 32 bits; initially
 *   last = 0 and (three, five, seven) = (1, 5, 7) as every caller sets them.
 * Step: ret = list_backups(); then ret is the smallest g > last with
 * bg_has_super(g), and Inv(ret) holds again.  By induction the sequence of return
 * values below the saturation value is the increasing enumeration of the backup
 * groups of a sparse_super filesystem.  sparse_super2 and non-sparse: direct.
 */
#include "lib/ext2fs/res_gdt.c"

struct vf_in {
	__u32 three, five, seven, last;
	__u32 g;			/* an arbitrary group strictly between last and ret */
	__u32 bbg[2], ngroups;
};
VF_DECLARE_INPUT(struct vf_in, IN)
#include "vf_input.inc"

#define SAT 0xffffffffu

/* is x the smallest power of b that is > last (b^0 = 1 counts only for base 3, as the callers start with three = 1)? */
static int ref_next_power(__u32 x, unsigned b, __u32 last)
{
	unsigned long long p = (b == 3) ? 1 : b;
	int i;
	for (i = 0; i < 22; i++) {
		if (p > last)
			return p > 0xffffffffull ? x == SAT : x == (__u32) p;
		p *= b;
	}
	return 0;
}

static struct struct_ext2_filsys vf_fs;
static struct ext2_super_block vf_sb;

int main(void)
{
	__u32 three, five, seven, ret, mn;

	VF_INPUT(IN);
	vf_fs.super = &vf_sb;
#if MODE == 1	/* sparse_super: powers of 3, 5, 7 */
	vf_sb.s_feature_ro_compat = EXT2_FEATURE_RO_COMPAT_SPARSE_SUPER;
	three = IN.three; five = IN.five; seven = IN.seven;
	ASSUME(ref_next_power(three, 3, IN.last) && ref_next_power(five, 5, IN.last) && ref_next_power(seven, 7, IN.last));
	mn = three < five ? three : five;
	mn = seven < mn ? seven : mn;
	ASSUME(mn != SAT);		/* the enumeration is not exhausted yet */
	ret = ext2fs_list_backups(&vf_fs, &three, &five, &seven);
	PROP(ret == mn && ret > IN.last, "list_backups returns the smallest pending power, beyond everything returned before");
	PROP(ext2fs_bg_has_super(&vf_fs, ret), "every group list_backups returns carries a backup (bg_has_super)");
	if (IN.g > IN.last && IN.g < ret)
		PROP(!ext2fs_bg_has_super(&vf_fs, IN.g), "no backup group is skipped between two successive return values");
	PROP(ref_next_power(three, 3, ret) && ref_next_power(five, 5, ret) && ref_next_power(seven, 7, ret),
	     "Inv re-established: each cursor is the smallest power beyond the returned group (or saturated)");
#elif MODE == 2	/* sparse_super2: the two recorded groups, then the end marker */
	vf_sb.s_feature_compat = EXT4_FEATURE_COMPAT_SPARSE_SUPER2;
	vf_sb.s_backup_bgs[0] = IN.bbg[0];
	vf_sb.s_backup_bgs[1] = IN.bbg[1];
	vf_fs.group_desc_count = IN.ngroups;
	three = 1; five = 5; seven = 7;
	{
		__u32 r1 = ext2fs_list_backups(&vf_fs, &three, &five, &seven);
		__u32 r2 = ext2fs_list_backups(&vf_fs, &three, &five, &seven);
		__u32 r3 = ext2fs_list_backups(&vf_fs, &three, &five, &seven);
		__u32 e1 = IN.bbg[0] ? IN.bbg[0] : (IN.bbg[1] ? IN.bbg[1] : IN.ngroups);
		__u32 e2 = (IN.bbg[0] && IN.bbg[1]) ? IN.bbg[1] : IN.ngroups;
		PROP(r1 == e1 && r2 == e2 && r3 == IN.ngroups,
		     "sparse_super2: the recorded backup groups (non-zero ones), then the end marker group_desc_count");
	}
#else		/* no sparse_super: every group */
	three = IN.three; five = 5; seven = 7;
	ASSUME(three >= 1 && three < SAT);
	ret = ext2fs_list_backups(&vf_fs, &three, &five, &seven);
	PROP(ret == IN.three && three == IN.three + 1 && ext2fs_bg_has_super(&vf_fs, ret),
	     "without sparse_super every group is listed in turn");
#endif
	VF_END();
	return 0;
}
