/*
 * C20/flush_backups: writer/reader agreement for backup superblocks and group
 * descriptors (patterns D + P).
 *
 * Writer: the real ext2fs_flush2() (closefs.c) on a SYMBOLIC geometry, over an
 * io channel that logs every write (block, count, source offset inside the
 * in-memory descriptor table / superblock copy).
 * Reader: the real ext2fs_descriptor_block_loc2() (openfs.c) -- the function
 * ext2fs_open2() uses to find descriptor block i when the filesystem is opened
 * from the backup superblock of group g (e2fsck -b).
 *
 * For an ARBITRARY group g that the on-disk format says carries a backup and an
 * ARBITRARY descriptor block index i: the log contains a write that put
 * descriptor block i exactly where the reader will look for it, and a
 * superblock copy with s_block_group_nr == g at the first block of g.  No backup
 * superblock is written to a group the format does not prescribe.  The primary
 * superblock is written after everything else was flushed.
 */
#include "lib/ext2fs/closefs.c"
#include "lib/ext2fs/openfs.c"

#ifndef MAXG
#define MAXG 10
#endif
#define MAXDB 5			/* descriptor blocks (table bytes = MAXDB * 1024) */
#define MAXLOG (3 * MAXG + 4)

struct vf_in {
	__u32 ngroups, bpg, last_group_blocks;
	__u32 first_meta_bg, reserved_gdt;
	unsigned char desc_shift;	/* descriptor size = 32 << desc_shift */
	unsigned char meta_bg, sparse, sparse2, is64;
	__u32 backup_bgs[2];
	unsigned char master_only, super_only;
	__u32 g, i;			/* the backup group / descriptor block asked about */
};
VF_DECLARE_INPUT(struct vf_in, IN)
#include "vf_input.inc"

static struct struct_ext2_filsys vf_fs;
static struct ext2_super_block vf_sb;
static struct struct_io_channel vf_io;
static struct struct_io_manager vf_mgr;
static char vf_gd[MAXDB * 1024];

static int vf_nlog, vf_nflush, vf_primary_writes, vf_flush_before_primary, vf_log_overflow;
static unsigned long long vf_lblk[MAXLOG];
static int vf_lcnt[MAXLOG];
static long vf_lsrc[MAXLOG];		/* byte offset in vf_gd, or -1: superblock image */
static int vf_lsbgroup[MAXLOG];		/* s_block_group_nr of a logged superblock image */
static int vf_blksize_now = 1024;

/* STUB: io_channel_write_blk64 logs (block, count, source); io_channel_flush counts; set_blksize records */
errcode_t io_channel_write_blk64(io_channel ch, unsigned long long blk, int count, const void *data)
{
	const char *p = data;
	(void) ch;
	if (vf_blksize_now == SUPERBLOCK_OFFSET && blk == 1 && count == -SUPERBLOCK_SIZE) {
		vf_primary_writes++;
		vf_flush_before_primary = vf_nflush;
		return 0;
	}
	if (vf_nlog >= MAXLOG) { vf_log_overflow = 1; return 0; }
	vf_lblk[vf_nlog] = blk;
	vf_lcnt[vf_nlog] = count;
	if (p >= vf_gd && p < vf_gd + sizeof(vf_gd)) {
		vf_lsrc[vf_nlog] = p - vf_gd;
		vf_lsbgroup[vf_nlog] = -1;
	} else {
		vf_lsrc[vf_nlog] = -1;
		vf_lsbgroup[vf_nlog] = ((const struct ext2_super_block *) data)->s_block_group_nr;
	}
	vf_nlog++;
	return 0;
}
errcode_t io_channel_flush_stub(io_channel ch) { (void) ch; vf_nflush++; return 0; }
errcode_t stub_set_blksize(io_channel ch, int bs) { (void) ch; vf_blksize_now = bs; return 0; }
errcode_t io_channel_write_byte(io_channel ch, unsigned long off, int cnt, const void *d)
{
	(void) ch; (void) off; (void) cnt; (void) d;
	return EXT2_ET_UNIMPLEMENTED;
}
/* STUB: checksum setters succeed (C14 covers them) */
errcode_t ext2fs_superblock_csum_set(ext2_filsys fs, struct ext2_super_block *sb) { (void) fs; (void) sb; return 0; }

/* the on-disk format's backup rule, as a table for groups < 32 (Documentation: 0, 1, powers of 3, 5, 7) */
static int ref_has_backup(__u32 g)
{
	if (g == 0) return 1;
	if (IN.sparse2) return g == IN.backup_bgs[0] || g == IN.backup_bgs[1];
	if (!IN.sparse) return 1;
	return g == 1 || g == 3 || g == 5 || g == 7 || g == 9 || g == 25 || g == 27;
}

int main(void)
{
	errcode_t rc;
	__u32 dpb, desc_blocks;
	unsigned long long blocks_count, gfirst, loc;
	int k, found_sb = 0, found_desc = 0;

	VF_INPUT(IN);
	/* BOUND: 1..MAXG groups, 1 KiB blocks, descriptor size 32/64/256/512 (32,16,4,2 per block), <= MAXDB descriptor blocks */
	ASSUME(IN.ngroups >= 1 && IN.ngroups <= MAXG);
#ifdef BPG	/* concrete per query: group -> block is multiplication by a constant */
	ASSUME(IN.bpg == BPG);
#define VF_BPG ((__u32) BPG)
#else
#define VF_BPG IN.bpg
#endif
	ASSUME(IN.bpg >= 256 && IN.bpg <= 8192 && (IN.bpg & 7) == 0);
	ASSUME(IN.last_group_blocks >= 64 && IN.last_group_blocks <= VF_BPG);
#ifdef DESC_SHIFT	/* concrete per query: descriptors per block becomes a constant divisor */
	ASSUME(IN.desc_shift == DESC_SHIFT);
#define VF_SHIFT DESC_SHIFT
#else
#define VF_SHIFT IN.desc_shift
#endif
	ASSUME(IN.desc_shift <= 4 && IN.desc_shift != 2);
	ASSUME(IN.is64 <= 1 && IN.meta_bg <= 1 && IN.sparse <= 1 && IN.sparse2 <= 1);
	ASSUME(IN.master_only <= 1 && IN.super_only <= 1);
	if (!IN.is64) ASSUME(IN.desc_shift == 0);
	else ASSUME(IN.desc_shift >= 1);
	dpb = 1024 / (32u << VF_SHIFT);
	desc_blocks = (IN.ngroups + dpb - 1) / dpb;
	ASSUME(desc_blocks <= MAXDB);
	/* ASSUME: geometry as ext2fs_open2/ext2fs_initialize establish it: s_first_meta_bg <= desc_blocks, reserved GDT blocks only without meta_bg, sparse_super2 backup groups < group count */
	ASSUME(IN.first_meta_bg <= desc_blocks);
	ASSUME(IN.reserved_gdt <= 4);
	if (IN.meta_bg) ASSUME(IN.reserved_gdt == 0);
	if (IN.sparse2) ASSUME(IN.backup_bgs[0] < IN.ngroups && IN.backup_bgs[1] < IN.ngroups);
	/* every group is large enough for its own superblock + descriptor copies (mke2fs/e2fsck enforce it) */
	ASSUME(IN.last_group_blocks > desc_blocks + IN.reserved_gdt + 2);
	blocks_count = 1ull + (unsigned long long) (IN.ngroups - 1) * VF_BPG + IN.last_group_blocks;

	vf_sb.s_magic = EXT2_SUPER_MAGIC;
	vf_sb.s_log_block_size = 0;
	vf_sb.s_log_cluster_size = 0;
	vf_sb.s_first_data_block = 1;
	vf_sb.s_blocks_per_group = VF_BPG;
	vf_sb.s_clusters_per_group = VF_BPG;
	vf_sb.s_blocks_count = (__u32) blocks_count;
	vf_sb.s_rev_level = EXT2_DYNAMIC_REV;
	vf_sb.s_desc_size = (VF_SHIFT != 0) ? (32u << VF_SHIFT) : 0;
	vf_sb.s_first_meta_bg = IN.first_meta_bg;
	vf_sb.s_reserved_gdt_blocks = IN.reserved_gdt;
	vf_sb.s_feature_incompat = (IN.meta_bg ? EXT2_FEATURE_INCOMPAT_META_BG : 0) |
		((VF_SHIFT != 0) ? EXT4_FEATURE_INCOMPAT_64BIT : 0);
	vf_sb.s_feature_ro_compat = IN.sparse ? EXT2_FEATURE_RO_COMPAT_SPARSE_SUPER : 0;
	vf_sb.s_feature_compat = IN.sparse2 ? EXT4_FEATURE_COMPAT_SPARSE_SUPER2 : 0;
	vf_sb.s_backup_bgs[0] = IN.backup_bgs[0];
	vf_sb.s_backup_bgs[1] = IN.backup_bgs[1];
	vf_sb.s_state = EXT2_VALID_FS;

	vf_mgr.magic = EXT2_ET_MAGIC_IO_MANAGER;
	vf_mgr.set_blksize = stub_set_blksize;
	vf_mgr.flush = io_channel_flush_stub;
	vf_io.magic = EXT2_ET_MAGIC_IO_CHANNEL;
	vf_io.manager = &vf_mgr;
	vf_io.block_size = 1024;
	vf_fs.magic = EXT2_ET_MAGIC_EXT2FS_FILSYS;
	vf_fs.super = &vf_sb;
	vf_fs.io = &vf_io;
	vf_fs.blocksize = 1024;
	vf_fs.cluster_ratio_bits = 0;
	vf_fs.group_desc_count = IN.ngroups;
	vf_fs.desc_blocks = desc_blocks;
	vf_fs.group_desc = (struct opaque_ext2_group_desc *) vf_gd;
	vf_fs.now = 1;
	vf_fs.flags = EXT2_FLAG_RW | EXT2_FLAG_DIRTY |
		(IN.master_only ? EXT2_FLAG_MASTER_SB_ONLY : 0) | (IN.super_only ? EXT2_FLAG_SUPER_ONLY : 0);

	rc = ext2fs_flush2(&vf_fs, 0);
	PROP(rc == 0, "flush succeeds");
	PROP(!vf_log_overflow, "harness log large enough");
	PROP(vf_primary_writes == 1 && vf_flush_before_primary >= 1,
	     "primary superblock written once, after everything else was flushed");

	/* ---- the question: is the backup at group g usable for descriptor block i? */
	ASSUME(IN.g >= 1 && IN.g < IN.ngroups && IN.i < desc_blocks);
	gfirst = 1ull + (unsigned long long) IN.g * VF_BPG;
	for (k = 0; k < MAXLOG; k++) {
		if (k >= vf_nlog) continue;
		if (vf_lsrc[k] == -1 && vf_lcnt[k] == -SUPERBLOCK_SIZE) {
			/* a backup superblock image */
			__u32 gg;
			int okgroup = 0;
			for (gg = 1; gg < MAXG; gg++)
				if (gg < IN.ngroups && vf_lblk[k] == 1ull + (unsigned long long) gg * VF_BPG &&
				    ref_has_backup(gg) && vf_lsbgroup[k] == (int) gg)
					okgroup = 1;
			PROP(okgroup, "every backup superblock lands on the first block of a group the format prescribes, labelled with that group");
			if (vf_lblk[k] == gfirst)
				found_sb = 1;
		}
	}
	if (ref_has_backup(IN.g) && !IN.master_only) {
		int sb_k = -1, clobbered = 0;
		PROP(found_sb, "the prescribed backup group received a superblock copy");
		/* ... and keeps it: no later write of this flush (a descriptor copy, say) lands on the backup superblock's block */
		for (k = 0; k < MAXLOG; k++)
			if (k < vf_nlog && vf_lsrc[k] == -1 && vf_lcnt[k] == -SUPERBLOCK_SIZE && vf_lblk[k] == gfirst)
				sb_k = k;
		for (k = 0; k < MAXLOG; k++)
			if (k < vf_nlog && k > sb_k && sb_k >= 0 && vf_lsrc[k] >= 0 && vf_lcnt[k] > 0 &&
			    gfirst >= vf_lblk[k] && gfirst < vf_lblk[k] + (unsigned) vf_lcnt[k])
				clobbered = 1;
		PROP(!clobbered, "nothing written later in the flush overwrites the backup superblock");
		if (!IN.super_only) {
			loc = ext2fs_descriptor_block_loc2(&vf_fs, gfirst, IN.i);	/* where e2fsck -b <gfirst> reads block i */
			for (k = 0; k < MAXLOG; k++) {
				if (k >= vf_nlog || vf_lsrc[k] < 0 || vf_lcnt[k] <= 0) continue;
				if (loc >= vf_lblk[k] && loc < vf_lblk[k] + (unsigned) vf_lcnt[k] &&
				    vf_lsrc[k] + (long) (loc - vf_lblk[k]) * 1024 == (long) IN.i * 1024)
					found_desc = 1;
			}
#ifdef LATE	/* the late-backup question is isolated in its own query (it is a known finding) */
			ASSUME(IN.meta_bg && IN.i < IN.first_meta_bg && IN.g / dpb >= IN.first_meta_bg);
#else
			ASSUME(!(IN.meta_bg && IN.i < IN.first_meta_bg && IN.g / dpb >= IN.first_meta_bg));
#endif
			if (IN.meta_bg && IN.i < IN.first_meta_bg && IN.g / dpb >= IN.first_meta_bg)
				/* a backup superblock in a group of the meta_bg region: the reader looks for the first
				 * s_first_meta_bg descriptor blocks right behind it, the layout has no room for them there */
				PROP(found_desc, "backup group inside the meta_bg region also carries the old-style descriptor blocks");
			else
				PROP(found_desc, "descriptor block i was written where opening from this backup will read it");
		}
	}
	if (!IN.super_only) {
		/* the PRIMARY copy of descriptor block i -- what a normal open (superblock 0) reads -- is rewritten by every
		 * flush that writes descriptors at all, also under MASTER_SB_ONLY (that is how e2fsck's repairs of group
		 * descriptors reach the disk); with meta_bg it lives in the first group of its meta group, not in group 0 */
		int found_prim = 0;
		blk64_t loc0 = ext2fs_descriptor_block_loc2(&vf_fs, 1, IN.i);
		for (k = 0; k < MAXLOG; k++) {
			if (k >= vf_nlog || vf_lsrc[k] < 0 || vf_lcnt[k] <= 0) continue;
			if (loc0 >= vf_lblk[k] && loc0 < vf_lblk[k] + (unsigned) vf_lcnt[k] &&
			    vf_lsrc[k] + (long) (loc0 - vf_lblk[k]) * 1024 == (long) IN.i * 1024)
				found_prim = 1;
		}
		PROP(found_prim, "primary descriptor block i is written where a normal open reads it (also under MASTER_SB_ONLY)");
	}
	if (IN.master_only) {
		/* MASTER_SB_ONLY: no backup SUPERBLOCK is rewritten (meta_bg descriptor copies may still be) */
		for (k = 0; k < MAXLOG; k++)
			if (k < vf_nlog)
				PROP(vf_lsrc[k] >= 0, "MASTER_SB_ONLY: no backup superblock is written");
	}
	VF_END();
	return 0;
}
