import importlib.util, os
_p13 = os.path.join(os.path.dirname(os.path.abspath(__file__)), "..", "C13", "spec.py")
_s13 = importlib.util.spec_from_file_location("spec_C13_for_C20", _p13)
_m13 = importlib.util.module_from_spec(_s13)
_s13.loader.exec_module(_m13)

_p08 = os.path.join(os.path.dirname(os.path.abspath(__file__)), "..", "C08", "spec.py")
_s08 = importlib.util.spec_from_file_location("spec_C08_for_C20", _p08)
_m08 = importlib.util.module_from_spec(_s08)
_s08.loader.exec_module(_m08)

def _resize_ss2():
    """resize2fs moving the sparse_super2 backup when the last group changes (sources harness/C08/ss2reserve.c, ss2clear.c): the
    new backup footprint is evacuated before the flush writes a superblock + descriptors there; the old one is given back exactly"""
    out = []
    for h in _m08.HARNESSES:
        if h["name"] in ("ss2reserve", "ss2clear", "newgroups"):
            d = dict(h)
            d["src"] = "../C08/" + h["src"]
            d["configs"] = [c for c in h["configs"] if c.get("_tier") != "thorough"][:2]
            out.append(d)
    return out

def _get_backup_sb():
    """e2fsck's automatic search for a backup superblock (source harness/C13/get_backup_sb.c): real e2fsck/util.c get_backup_sb +
    ext2fs_list_backups against a symbolic true geometry: the first intact backup is found for every block size"""
    for h in _m13.HARNESSES:
        if h["name"] == "get_backup_sb":
            d = dict(h)
            d["src"] = "../C13/get_backup_sb.c"
            d["configs"] = [dict((k, v) for k, v in c.items() if k != "_tier") for c in h["configs"]]
            return d
    raise RuntimeError("C13 get_backup_sb harness missing")

def _probe_try_open():
    """e2fsck -b <backup> without -B (source harness/C13/probe_try_open.c): try_open_fs probes every block size 1 KiB .. 64 KiB in
    order and re-opens with the size that worked"""
    for h in _m13.HARNESSES:
        if h["name"] == "probe_try_open":
            d = dict(h)
            d["src"] = "../C13/probe_try_open.c"
            return d
    raise RuntimeError("C13 probe_try_open harness missing")

def _main_backup():
    """e2fsck/unix.c main() through its final close (source harness/C13/main_e2fsck_full.c): a repairing run that completed on
    a valid filesystem whose first backup disagrees with the primary ends with MASTER_SB_ONLY cleared (backups refreshed)"""
    for h in _m13.HARNESSES:
        if h["name"] == "main_e2fsck_full":
            d = dict(h)
            d["name"] = "e2fsck_main_backup"
            d["src"] = "../C13/main_e2fsck_full.c"
            d["configs"] = [c for c in h["configs"] if c.get("RST") in (0, 2)]
            return d
    raise RuntimeError("C13 main_e2fsck_full harness missing")

META = {
    "assumptions": ["allocation failure out of scope (--no-malloc-may-fail)"],
    "outside": ["e2fsck -b end-to-end recovery and 'every file intact' (whole tool)", "e2fsck main(): passes and helpers are protocol stubs (see C13 main_e2fsck_full)"],
}
def fb_uw(maxg):
    nlog = 3 * maxg + 4
    return ["ext2fs_flush2.0:%d" % (maxg + 1), "test_root.0:6"] + ["main.%d:%d" % (i, nlog + 1) for i in range(8)]

HARNESSES = [
    dict(name="list_backups", src="list_backups.c", extra_src=["lib/ext2fs/closefs.c"],
         funcs=["ext2fs_list_backups", "ext2fs_bg_has_super"],
         configs=[{"MODE": 1}, {"MODE": 2}, {"MODE": 0}],
         unwind=4, unwindset=["ref_next_power.0:24", "test_root.0:22"], backends=["kissat", "z3", "default"],
         bound="cursor state: every (three, five, seven) satisfying Inv for every 32-bit `last`; intermediate group g: all 2^32"),
    dict(name="flush_backups", src="flush_backups.c", extra_src=["lib/ext2fs/blknum.c"],
         funcs=["ext2fs_flush2", "ext2fs_super_and_bgd_loc2", "ext2fs_bg_has_super", "write_backup_super",
                "ext2fs_descriptor_block_loc2", "write_primary_superblock"],
         configs=[{"MAXG": 10, "DESC_SHIFT": sh, "BPG": bpg, "_unwindset": fb_uw(10)}
                  for sh, bpg in ((0, 8192), (1, 256), (3, 1024), (4, 256))] +
                 [{"MAXG": 10, "DESC_SHIFT": 3, "BPG": 1024, "LATE": None, "_unwindset": fb_uw(10)}] +
                 [{"MAXG": 28, "DESC_SHIFT": sh, "BPG": bpg, "_unwindset": fb_uw(28), "_tier": "thorough"}
                  for sh in (0, 3, 4) for bpg in (256, 8192)],
         unwind=6, backends=["default", "kissat", "z3"],
         bound="1..10 (thorough: 28) groups, 1 KiB blocks, blocks per group 256..8192, descriptor size 32/64/256/512, "
               "meta_bg/sparse_super/sparse_super2/64bit, s_first_meta_bg, reserved GDT blocks, MASTER_SB_ONLY/SUPER_ONLY: all symbolic"),
    dict(name="check_backup", src="check_backup.c", extra_src=["lib/ext2fs/closefs.c", "lib/ext2fs/blknum.c"],
         funcs=["check_backup_super_block", "ext2fs_bg_has_super", "ext2fs_group_first_block2"],
         unwind=8, unwindset=["test_root.0:6", "memcmp.0:17", "main.0:7", "main.1:17", "main.2:17"], backends=["default", "kissat"],
         bound="1..6 groups; primary superblock, candidate backup superblock (all 1024 bytes each), fs flags, e2fsck flags/options symbolic"),
    _main_backup(),
    _get_backup_sb(),
    _probe_try_open(),
] + _resize_ss2() + [
    dict(name="bg_has_super", src="bg_has_super.c",
         funcs=["ext2fs_bg_has_super", "test_root"],
         unwindset=["test_root.0:22", "ref_is_power.0:22"],
         backends=["z3", "kissat"],
         bound="group: all 2^32 values; feature words and s_backup_bgs: all values"),
]
MANIFEST = {
    "text": "Bounded-exhaustive: within each harness's stated bounds the SAT/SMT verdict covers every "
            "group number, feature word, geometry and flag combination; the backup-placement function is "
            "decided for all 2^32 groups. Whole-tool recovery with e2fsck -b is outside.",
    "note": "Trusted: CBMC's C semantics, the io-channel logging stub, the harness's reference restatement "
            "of the on-disk format. Bounds and stubs listed in evidence/C20.json.",
}
