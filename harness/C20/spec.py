META = {
    "assumptions": ["allocation failure out of scope (--no-malloc-may-fail)"],
    "outside": ["e2fsck -b end-to-end recovery and 'every file intact' (whole tool)"],
}
HARNESSES = [
    dict(name="bg_has_super", src="bg_has_super.c",
         funcs=["ext2fs_bg_has_super", "test_root"],
         unwindset=["test_root.0:22", "ref_is_power.0:22"],
         backends=["z3", "kissat"],
         bound="group: all 2^32 values; feature words and s_backup_bgs: all values"),
]
MANIFEST = {
    "text": "Bounded-exhaustive: within each harness's stated bounds the SAT/SMT verdict covers every "
            "group number, feature word, geometry and flag combination; the backup-placement function is "
            "decided for all 2^32 groups. Whole-tool recovery with e2fsck -b is outside.",
    "note": "Trusted: CBMC's C semantics, the io-channel logging stub, the harness's reference restatement "
            "of the on-disk format. Bounds and stubs listed in evidence/C20.json.",
}
