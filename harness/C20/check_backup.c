/*
 * C20/check_backup: e2fsck's decision to refresh the backup superblocks,
 * check_backup_super_block() (e2fsck/super.c) with the real ext2fs_bg_has_super()
 * and ext2fs_group_first_block2().
 *
 * The primary superblock, the bytes found at every candidate backup location and
 * the e2fsck option/flag words are symbolic.  Reference, stated from the comment
 * above the function and the on-disk format (not from its body): a repairing run on
 * a valid, error-free filesystem that currently writes the primary only must ask for
 * the backups to be rewritten whenever the FIRST backup group's superblock is a
 * plausible ext2 superblock that disagrees with the primary in anything that matters
 * for `e2fsck -b` -- compat features, incompat / ro_compat features other than the
 * ones the kernel flips on the fly, block count (both halves), inode count, UUID --
 * and must not ask when it agrees in all of them (the kernel-flipped bits may differ);
 * and it is the first backup group (group 1, or s_backup_bgs[0] with sparse_super2)
 * that is read, at the first block of that group.
 */
#include "config.h"
#include "ext2fs/ext2_fs.h"
#include "ext2fs/ext2fs.h"
#include "e2fsck/super.c"

#define MAXG 6
struct vf_in {
	struct ext2_super_block prim;
	struct ext2_super_block back;		/* what lies at the first backup location */
	__u32 groups, fsflags;
	int ctx_flags, options;
	unsigned char read_fails;
};
VF_DECLARE_INPUT(struct vf_in, IN)
#include "vf_input.inc"

static struct e2fsck_struct vf_ctx;
static struct struct_ext2_filsys vf_fs;
static struct struct_io_channel vf_io;
static struct struct_io_manager vf_mgr;
static int vf_reads;
static unsigned long long vf_read_blk;

/* STUB: the device holds IN.back at whatever block is read first; later reads are recorded too (there must be none) */
static errcode_t vf_read_blk_fn(io_channel ch, unsigned long blk, int count, void *data)
{
	(void) ch;
	PROP(count == -SUPERBLOCK_SIZE, "a backup superblock is read as 1024 bytes");
	if (vf_reads++ == 0)
		vf_read_blk = blk;
	if (IN.read_fails)
		return EXT2_ET_SHORT_READ;
	*(struct ext2_super_block *) data = IN.back;
	return 0;
}

#define RO_IGN	(EXT2_FEATURE_RO_COMPAT_LARGE_FILE | EXT4_FEATURE_RO_COMPAT_DIR_NLINK | EXT4_FEATURE_RO_COMPAT_ORPHAN_PRESENT)
#define IN_IGN	(EXT3_FEATURE_INCOMPAT_EXTENTS | EXT3_FEATURE_INCOMPAT_RECOVER)

int main(void)
{
	int ret, i, differs = 0, plausible, eligible;
	__u32 first_backup = 0, g;

	VF_INPUT(IN);
	ASSUME(IN.groups >= 1 && IN.groups <= MAXG);
	ASSUME(IN.prim.s_blocks_per_group >= 8 && IN.prim.s_blocks_per_group <= 32768);
	ASSUME(IN.prim.s_first_data_block <= 1);
	vf_fs.super = &IN.prim;
	vf_mgr.read_blk = vf_read_blk_fn;
	vf_io.manager = &vf_mgr;
	vf_fs.io = &vf_io;
	vf_fs.flags = IN.fsflags;
	vf_fs.group_desc_count = IN.groups;
	vf_fs.blocksize = 1024;
	vf_ctx.fs = &vf_fs;
	vf_ctx.flags = IN.ctx_flags;
	vf_ctx.options = IN.options;

	ret = check_backup_super_block(&vf_ctx);

	eligible = (IN.fsflags & EXT2_FLAG_MASTER_SB_ONLY) &&
		ext2fs_test_valid(&vf_fs) && !(IN.prim.s_state & EXT2_ERROR_FS) &&
		!(IN.ctx_flags & (E2F_FLAG_ABORT | E2F_FLAG_CANCEL)) && !(IN.options & E2F_OPT_READONLY);
	/* the first group after 0 that carries a backup, per the format (bg_has_super is tied to the format by bg_has_super.c) */
	for (g = 1; g < MAXG; g++)
		if (g < IN.groups && !first_backup && ext2fs_bg_has_super(&vf_fs, g))
			first_backup = g;
	plausible = IN.back.s_magic == EXT2_SUPER_MAGIC && IN.back.s_rev_level <= EXT2_DYNAMIC_REV &&
		IN.back.s_log_block_size <= 6 &&
		(IN.back.s_rev_level == EXT2_GOOD_OLD_REV || IN.back.s_inode_size >= 128);
	if (IN.prim.s_feature_compat != IN.back.s_feature_compat) differs = 1;
	if ((IN.prim.s_feature_incompat & ~IN_IGN) != (IN.back.s_feature_incompat & ~IN_IGN)) differs = 1;
	if ((IN.prim.s_feature_ro_compat & ~RO_IGN) != (IN.back.s_feature_ro_compat & ~RO_IGN)) differs = 1;
	if (IN.prim.s_blocks_count != IN.back.s_blocks_count || IN.prim.s_blocks_count_hi != IN.back.s_blocks_count_hi) differs = 1;
	if (IN.prim.s_inodes_count != IN.back.s_inodes_count) differs = 1;
	for (i = 0; i < 16; i++)
		if (IN.prim.s_uuid[i] != IN.back.s_uuid[i]) differs = 1;

	if (!eligible) {
		PROP(ret == 0 && vf_reads == 0, "no refresh is requested (and nothing read) when backups are already being written, the fs is invalid/in error, the run was aborted, or -n");
	} else if (!first_backup) {
		PROP(ret == 0 && vf_reads == 0, "no backup group: nothing to compare");
	} else {
		PROP(vf_reads >= 1 && vf_read_blk == (unsigned long long) IN.prim.s_first_data_block +
		     (unsigned long long) first_backup * IN.prim.s_blocks_per_group,
		     "the first backup superblock consulted is the one at the first block of the first backup group");
		if (!IN.read_fails && plausible) {
			PROP(vf_reads == 1, "a plausible first backup settles the question: no other backup is read");
			PROP(ret == differs, "refresh requested iff the backup disagrees with the primary in features (minus kernel-flipped bits), size, inode count or UUID");
		}
		/* unreadable / implausible candidates: the code moves on to the next backup group; what it answers then is
		 * not prescribed by the property (refreshing would be harmless), so nothing is asserted */
	}
	VF_END();
	return 0;
}
