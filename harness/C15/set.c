/*
 * C15/set: ext2fs_xattr_set() itself (assume-guarantee: the list edit
 * xattr_array_update is harness "update", the serialiser is harness "rt"; both
 * callees are cut here and replaced by recording stubs).
 *
 * Pre-state: handle with N attributes "user.<short>", the existing attribute
 * with the name being set sits at the compile-time index IDX (-1: new name).
 * Claim: set(name, value, len) either
 *   (a) finds that the stored value ALREADY equals (value, len) byte for byte
 *       and length for length, is in-line, and returns 0 without touching
 *       anything; or
 *   (b) hands exactly (name, value, len, old_idx = IDX, in_inode = 0) to the list
 *       edit together with the free space of both parts computed from the inode:
 *         ibody_free = inode_size - 128 - extra_isize - 4 (magic) - 4 (terminator) - space(inode-body part)
 *         block_free = blocksize - 32 (header) - 4 (terminator) - space(block part)
 *       (extra_isize = i_extra_isize, or s_want_extra_isize, or 4; 0 for 128-byte
 *       inodes), then writes the list back exactly once iff the edit succeeded
 *       and returns the callee's result.
 * system.data (inline data) must live in the inode body: block_free = 0, and an
 * existing system.data in the block part is EXT2_ET_FILESYSTEM_CORRUPTED.
 */
#include "config.h"
#include <stdio.h>
#include <string.h>
#include "ext2_fs.h"
#include "ext2_ext_attr.h"
#include "ext2fs.h"
static errcode_t xattr_array_update(struct ext2_xattr_handle *h, const char *name,
				    const void *value, size_t value_len,
				    int ibody_free, int block_free, int old_idx, int in_inode);
#include "lib/ext2fs/ext_attr.c"	/* cut_statics: xattr_array_update, ext2fs_xattrs_write */
#include "env.c"

#ifndef N
#define N 2
#endif
#ifndef IBC
#define IBC 1
#endif
#ifndef IDX
#define IDX (-1)	/* BOUND: position of the existing attribute with the same name, compile-time; -1 = none */
#endif
#ifndef ISIZE
#define ISIZE 256	/* BOUND: inode size 256 or 128 */
#endif
#ifndef BLK
#define BLK 1024
#endif
#ifndef EAMASK
#define EAMASK 0
#endif
#ifndef SYSDATA
#define SYSDATA 0	/* 1: the name being set is "system.data" */
#endif
#define NM 4
#ifndef VM
#define VM 8
#endif
#define KMAX 4
#include "xa_common.h"
#if SYSDATA
#define PFX_STR "system."
#define PFX_IDX 7
#else
#define PFX_STR "user."
#define PFX_IDX 1
#endif
#define PFX_LEN ((int) sizeof(PFX_STR) - 1)
#define NAMEBUF (7 + NM + 1)

struct vf_in {
	struct vf_attr a[N + 1];
	struct vf_attr nw;
	unsigned short extra, want_extra;
	unsigned char upd_fails;
	unsigned int write_rc;
};
VF_DECLARE_INPUT(struct vf_in, IN)
#include "vf_input.inc"

/* STUB: xattr_array_update() (cut; verified by harness "update"): records its arguments, copies name and value, leaves the list alone; returns 0 or, when IN.upd_fails, EXT2_ET_EA_NO_SPACE */
static int stub_upd_calls, stub_upd_ibody_free, stub_upd_block_free, stub_upd_old, stub_upd_in_inode;
static size_t stub_upd_len;
static char stub_upd_name[NAMEBUF];
static unsigned char stub_upd_val[VM];
static errcode_t xattr_array_update(struct ext2_xattr_handle *h, const char *name,
				    const void *value, size_t value_len,
				    int ibody_free, int block_free, int old_idx, int in_inode)
{
	int b;
	(void) h;
	stub_upd_calls++;
	for (b = 0; b < NAMEBUF; b++)
		stub_upd_name[b] = (b == 0 || stub_upd_name[b - 1] != 0) ? name[b] : 0;
	for (b = 0; b < VM; b++)
		stub_upd_val[b] = (size_t) b < value_len ? ((const unsigned char *) value)[b] : 0;
	stub_upd_len = value_len;
	stub_upd_ibody_free = ibody_free;
	stub_upd_block_free = block_free;
	stub_upd_old = old_idx;
	stub_upd_in_inode = in_inode;
	return IN.upd_fails ? EXT2_ET_EA_NO_SPACE : 0;
}
/* STUB: ext2fs_xattrs_write() (cut; its serialiser is harness "rt"): counts calls, returns the symbolic code IN.write_rc */
static int stub_write_calls;
errcode_t ext2fs_xattrs_write(struct ext2_xattr_handle *handle)
{
	(void) handle;
	stub_write_calls++;
	return IN.write_rc;
}
/* STUB: ext2fs_read_inode_full(): a zeroed inode whose i_extra_isize is symbolic (large inodes only) */
static int stub_reads;
errcode_t ext2fs_read_inode_full(ext2_filsys fs, ext2_ino_t ino, struct ext2_inode *inode, int sz)
{
	(void) fs; (void) ino;
	stub_reads++;
	if (sz > 128)
		((struct ext2_inode_large *) inode)->i_extra_isize = IN.extra;
	return 0;
}
/* STUB: ext2fs_read_inode()/ext2fs_new_inode()/ext2fs_write_inode_full (EA inodes, disk) unreachable with both callees cut: fail */
errcode_t ext2fs_read_inode(ext2_filsys fs, ext2_ino_t ino, struct ext2_inode *inode)
{ (void) fs; (void) ino; (void) inode; return EXT2_ET_BAD_INODE_NUM; }

static struct struct_ext2_filsys vf_fs;
static struct ext2_super_block vf_sb;
static char vf_name[NAMEBUF];

static int ref_space(const struct vf_attr *a, int from, int to)
{
	int i, t = 0;
	for (i = 0; i < KMAX; i++)
		if (i >= from && i < to)
			t += ref_space1(&a[i]);
	return t;
}

int main(void)
{
	struct ext2_xattr_handle *h = 0;
	errcode_t rc;
	int i, j, b, extra, same = 0, ok;
	unsigned char value[VM + 1];
	const char *pfx_of[N + 1];

	VF_INPUT(IN);
	/* ASSUME: i_extra_isize / s_want_extra_isize are multiples of 4 that leave room for the magic and terminator (ext2fs_xattrs_write rejects others) */
	ASSUME((IN.extra & 3) == 0 && IN.extra <= 120);
	ASSUME((IN.want_extra & 3) == 0 && IN.want_extra <= 120);
	extra = IN.extra ? IN.extra : (IN.want_extra ? IN.want_extra : 4);
	IN.nw.ea_ino = 0;
	IN.nw.idx = PFX_IDX;
	ASSUME(ref_attr_ok(&IN.nw));
#if SYSDATA
	IN.nw.nlen = 4; IN.nw.name[0] = 'd'; IN.nw.name[1] = 'a'; IN.nw.name[2] = 't'; IN.nw.name[3] = 'a';
#endif
	for (i = 0; i < N; i++) {
		if ((EAMASK >> i) & 1)
			ASSUME(IN.a[i].ea_ino != 0);
		else
			IN.a[i].ea_ino = 0;
		/* ASSUME: the other attributes live in the user. namespace; the one at IDX has the name being set */
		IN.a[i].idx = (i == IDX) ? PFX_IDX : 1;
		ASSUME(ref_attr_ok(&IN.a[i]));
		for (j = 0; j < N; j++)
			if (j < i)
				ASSUME(!ref_same_key(&IN.a[i], &IN.a[j]));	/* Inv: names unique */
		if (i == IDX)
			ASSUME(ref_same_key(&IN.a[i], &IN.nw));
		else
			ASSUME(!ref_same_key(&IN.a[i], &IN.nw));
	}

	vf_sb.s_feature_compat = EXT2_FEATURE_COMPAT_EXT_ATTR;
	vf_sb.s_rev_level = 1;
	vf_sb.s_inode_size = ISIZE;
	vf_sb.s_want_extra_isize = IN.want_extra;
	vf_fs.super = &vf_sb;
	vf_fs.blocksize = BLK;
	rc = ext2fs_xattrs_open(&vf_fs, 12, &h);
	ASSUME(rc == 0 && h != 0);
	for (i = 0; i < N; i++) {
		struct ext2_xattr *x = &h->attrs[i];
		const char *pf = (i == IDX) ? PFX_STR : "user.";
		int pl = (i == IDX) ? PFX_LEN : 5;
		char *nm = malloc(NAMEBUF);
		unsigned char *vv = malloc(VM);
		for (b = 0; b < pl; b++)
			nm[b] = pf[b];
		for (b = 0; b < NM + 1; b++)
			nm[pl + b] = b < IN.a[i].nlen ? (char) IN.a[i].name[b] : 0;
		for (b = 0; b < VM; b++)
			vv[b] = IN.a[i].val[b];
		x->name = nm;
		x->short_name = nm + pl;
		x->name_index = IN.a[i].idx;
		x->value = vv;
		x->value_len = IN.a[i].vlen;
		x->ea_ino = IN.a[i].ea_ino;
		pfx_of[i] = pf;
	}
	(void) pfx_of;
	h->count = N;
	h->ibody_count = IBC;
	for (b = 0; b < PFX_LEN; b++)
		vf_name[b] = PFX_STR[b];
	for (b = 0; b < NM + 1; b++)
		vf_name[PFX_LEN + b] = b < IN.nw.nlen ? (char) IN.nw.name[b] : 0;
	for (b = 0; b < VM; b++)
		value[b] = IN.nw.val[b];

	rc = ext2fs_xattr_set(h, vf_name, value, IN.nw.vlen);

#if IDX >= 0
	/* "already stored": in-line, same length AND same bytes */
	same = IN.a[IDX].ea_ino == 0 && IN.a[IDX].vlen == IN.nw.vlen;
	for (b = 0; b < VM; b++)
		if (b < IN.nw.vlen && IN.a[IDX].val[b] != IN.nw.val[b])
			same = 0;
#endif
	if (same) {
		PROP(rc == 0, "setting the value already stored succeeds");
		PROP(stub_upd_calls == 0 && stub_write_calls == 0 && stub_reads == 0,
		     "setting the value already stored touches nothing");
	}
#if SYSDATA && IDX >= IBC
	else {
		PROP(rc == EXT2_ET_FILESYSTEM_CORRUPTED, "system.data found in the block part: EXT2_ET_FILESYSTEM_CORRUPTED");
		PROP(stub_upd_calls == 0 && stub_write_calls == 0, "nothing is edited or written then");
	}
#else
	else {
		int want_if, want_bf;
		PROP(stub_upd_calls == 1, "a value that differs in length or content reaches the list edit exactly once");
		ok = 1;
		for (b = 0; b < NAMEBUF; b++)
			if (stub_upd_name[b] != vf_name[b])
				ok = 0;
		PROP(ok, "the list edit receives the name");
		ok = stub_upd_len == IN.nw.vlen;
		for (b = 0; b < VM; b++)
			if (b < IN.nw.vlen && stub_upd_val[b] != IN.nw.val[b])
				ok = 0;
		PROP(ok, "the list edit receives the value, byte for byte and length for length");
		PROP(stub_upd_old == IDX, "the list edit receives the index of the existing attribute (or -1)");
		PROP(stub_upd_in_inode == 0, "without the ea_inode feature the value is stored in-line");
#if ISIZE > 128
		want_if = ISIZE - 128 - extra - 4 - 4 - ref_space(IN.a, 0, IBC);
#else
		want_if = 0;
		(void) extra;
#endif
#if SYSDATA
		want_bf = 0;
#else
		want_bf = BLK - 32 - 4 - ref_space(IN.a, IBC, N);
#endif
		PROP(stub_upd_ibody_free == want_if, "ibody_free = inode_size-128-extra_isize-8 - space of the inode-body part");
		PROP(stub_upd_block_free == want_bf, "block_free = blocksize-36 - space of the block part (0 for system.data)");
		PROP(stub_reads == 1, "the inode is read once for i_extra_isize");
		if (IN.upd_fails) {
			PROP(rc == EXT2_ET_EA_NO_SPACE && stub_write_calls == 0, "a failed edit is returned and nothing is written back");
		} else {
			PROP(stub_write_calls == 1, "a successful edit is written back exactly once");
			PROP(rc == (errcode_t) IN.write_rc, "set returns the result of the write-back");
		}
	}
#endif
	VF_END();
	return 0;
}
