/*
 * C15/hash: the attribute entry hash and the block hash equal the kernel's
 * definition (fs/ext4/xattr.c: ext4_xattr_hash_entry / ext4_xattr_rehash,
 * Documentation/filesystems/ext4/attributes.rst), for every name / value /
 * stored-hash content within the bound.
 *
 *   MODE 1  ext2fs_ext_attr_hash_entry3 on an entry with an in-line value
 *           (unsigned AND legacy signed-char variant)
 *   MODE 2  ext2fs_ext_attr_hash_entry3 on an entry whose value lives in an EA
 *           inode (hash folded from the inode's stored hash, read via
 *           ext2fs_read_inode: stub)
 *   MODE 3  ext2fs_ext_attr_block_rehash over <= 3 entries
 *
 * Reference (written from the format description): name hash folds every name
 * byte with a 5-bit left rotation, the value hash folds every little-endian
 * 32-bit word of the value PADDED to 4 bytes with a 16-bit rotation; the block
 * hash folds the entry hashes with a 16-bit rotation and is 0 ("do not share")
 * as soon as one entry hash is 0.
 */
#include "lib/ext2fs/ext_attr.c"
#include "env.c"

#ifndef MODE
#define MODE 1
#endif
/* BOUND: names of 0..NAMEMAX bytes, values of 0..VALMAX bytes, <= NENT entries per block */
#ifndef NAMEMAX
#define NAMEMAX 6
#endif
#ifndef VALMAX
#define VALMAX 8
#endif
#define NENT 3
#define ENTSZ 16			/* on-disk entry header */
#define NAMEPAD ((NAMEMAX + 3) & ~3)

struct vf_in {
	unsigned char name_len, name_index;
	unsigned char name[NAMEPAD];
	unsigned int value_size, value_inum, stored_hash, ea_inode_hash;
	unsigned char value[VALMAX + 4];
	unsigned char read_fails;
	/* MODE 3 */
	unsigned char nent;
	unsigned char nlen[NENT];
	unsigned int ehash[NENT];
	unsigned char end_at;
};
VF_DECLARE_INPUT(struct vf_in, IN)
#include "vf_input.inc"

static unsigned int ref_rol(unsigned int h, int k)
{
	unsigned long long w = h;
	w = (w << k) | (w >> (32 - k));
	return (unsigned int) (w & 0xffffffffULL);
}

static unsigned int ref_name_hash(int is_signed)
{
	unsigned int h = 0;
	int i;
	for (i = 0; i < NAMEMAX; i++) {
		if (i < IN.name_len) {
			unsigned int c = IN.name[i];
			if (is_signed && c >= 128)
				c |= 0xffffff00u;	/* sign extension of a signed char */
			h = ref_rol(h, 5) ^ c;
		}
	}
	return h;
}

static unsigned int ref_value_hash(unsigned int h)
{
	int w, nwords = (IN.value_size + 3) / 4;
	for (w = 0; w < (VALMAX + 3) / 4; w++) {
		if (w < nwords) {
			unsigned int v = (unsigned int) IN.value[4 * w] |
				((unsigned int) IN.value[4 * w + 1] << 8) |
				((unsigned int) IN.value[4 * w + 2] << 16) |
				((unsigned int) IN.value[4 * w + 3] << 24);
			h = ref_rol(h, 16) ^ v;
		}
	}
	return h;
}

/* STUB: ext2fs_read_inode() returns an inode whose i_atime (= stored EA-inode hash) is symbolic, or fails with EXT2_ET_BAD_INODE_NUM when IN.read_fails; it logs the inode number asked for */
static ext2_ino_t stub_read_ino;
static int stub_read_calls;
errcode_t ext2fs_read_inode(ext2_filsys fs, ext2_ino_t ino, struct ext2_inode *inode)
{
	static const struct ext2_inode zero;
	(void) fs;
	stub_read_calls++;
	stub_read_ino = ino;
	if (IN.read_fails)
		return EXT2_ET_BAD_INODE_NUM;
	*inode = zero;
	inode->i_atime = IN.ea_inode_hash;
	return 0;
}

static struct struct_ext2_filsys vf_fs;
/* one aligned backing object for entry+name and for the value (guide rule 6) */
static __u32 vf_ent_w[(ENTSZ + NAMEPAD) / 4 + 1];
static __u32 vf_val_w[(VALMAX + 4) / 4 + 1];
static __u32 vf_blk_w[(32 + NENT * (ENTSZ + 4) + 8) / 4];

int main(void)
{
	int i;

	VF_INPUT(IN);
#if MODE == 1 || MODE == 2
	{
		struct ext2_ext_attr_entry *e = (struct ext2_ext_attr_entry *) vf_ent_w;
		unsigned char *np = (unsigned char *) vf_ent_w + ENTSZ;
		unsigned char *vp = (unsigned char *) vf_val_w;
		__u32 h = 0, sh = 0, h2 = 0, want, want_s;
		errcode_t rc, rc2;

		ASSUME(IN.name_len <= NAMEMAX);
		ASSUME(IN.value_size <= VALMAX);
		e->e_name_len = IN.name_len;
		e->e_name_index = IN.name_index;
		e->e_value_offs = 0;
		e->e_value_size = IN.value_size;
		e->e_hash = IN.stored_hash;	/* must not influence the result */
		for (i = 0; i < NAMEPAD; i++)
			np[i] = IN.name[i];
		for (i = 0; i < VALMAX + 4; i++)
			vp[i] = IN.value[i];
#if MODE == 1
		e->e_value_inum = 0;
		rc = ext2fs_ext_attr_hash_entry3(&vf_fs, e, vp, &h, &sh);
		rc2 = ext2fs_ext_attr_hash_entry2(&vf_fs, e, vp, &h2);
		want = ref_value_hash(ref_name_hash(0));
		want_s = ref_value_hash(ref_name_hash(1));
		PROP(rc == 0 && rc2 == 0, "hash of an in-line value cannot fail");
		PROP(stub_read_calls == 0, "no inode is read for an in-line value");
		PROP(h == want, "entry hash equals the format's unsigned-char definition");
		PROP(sh == want_s, "legacy entry hash equals the signed-char definition");
		PROP(h2 == want, "hash_entry2 equals hash_entry3's unsigned hash");
		PROP(h == ext2fs_ext_attr_hash_entry(e, vp), "legacy entry point agrees");
#else
		/* ASSUME: MODE 2 is the EA-inode case: e_value_inum != 0 */
		ASSUME(IN.value_inum != 0);
		e->e_value_inum = IN.value_inum;
		rc = ext2fs_ext_attr_hash_entry3(&vf_fs, e, 0, &h, &sh);
		want = ref_rol(ref_name_hash(0), 16) ^ IN.ea_inode_hash;
		want_s = ref_rol(ref_name_hash(1), 16) ^ IN.ea_inode_hash;
		PROP(stub_read_calls == 1 && stub_read_ino == IN.value_inum,
		     "the EA inode named by the entry is read exactly once");
		if (IN.read_fails) {
			PROP(rc == EXT2_ET_BAD_INODE_NUM, "inode read failure is propagated");
		} else {
			PROP(rc == 0, "EA-inode hash succeeds when the inode is readable");
			PROP(h == want, "EA-inode entry hash = name hash folded with the inode's stored hash");
			PROP(sh == want_s, "EA-inode legacy hash = signed name hash folded with the stored hash");
		}
#endif
	}
#else	/* MODE 3: block hash */
	{
		struct ext2_ext_attr_header *hd = (struct ext2_ext_attr_header *) vf_blk_w;
		unsigned char *p = (unsigned char *) vf_blk_w + 32;
		unsigned char *endp;
		unsigned int want = 0;
		int off = 0, k, stop = 0, n_counted;

		ASSUME(IN.nent <= NENT);
		/* ASSUME: callers pass end = the terminator they found (tune2fs) or anything behind it; IN.end_at picks "after k entries" so that a truncating end is exercised as well */
		ASSUME(IN.end_at <= NENT);
		for (k = 0; k < NENT; k++) {
			ASSUME(IN.nlen[k] <= 4);
			/* an entry whose first four bytes are zero IS the terminator: exclude that encoding of a real entry */
			ASSUME(IN.nlen[k] != 0);
		}
		hd->h_magic = EXT2_EXT_ATTR_MAGIC;
		hd->h_hash = IN.stored_hash;
		endp = p;
		for (k = 0; k < NENT; k++) {
			if (k < IN.nent) {
				struct ext2_ext_attr_entry *e = (struct ext2_ext_attr_entry *) (p + off);
				e->e_name_len = IN.nlen[k];
				e->e_name_index = 1;
				e->e_hash = IN.ehash[k];
				off += ENTSZ + ((IN.nlen[k] + 3) & ~3);
			}
			if (k + 1 == IN.end_at)
				endp = p + off;
		}
		/* terminator is already zero (static storage) */
		n_counted = IN.end_at < IN.nent ? IN.end_at : IN.nent;
		for (k = 0; k < NENT; k++) {
			if (k < n_counted && !stop) {
				if (IN.ehash[k] == 0) {
					want = 0;
					stop = 1;
				} else
					want = ref_rol(want, 16) ^ IN.ehash[k];
			}
		}
		ext2fs_ext_attr_block_rehash(hd, (struct ext2_ext_attr_entry *) endp);
		PROP(hd->h_hash == want, "block hash folds the entry hashes, 0 when any entry hash is 0");
		PROP(hd->h_magic == EXT2_EXT_ATTR_MAGIC, "rehash touches only h_hash");
	}
#endif
	VF_END();
	return 0;
}
