/*
 * C15/decref: xattr_inode_dec_ref() -- one reference on a value (EA) inode is
 * given back (called by set/replace and remove; harness "remove" cuts it).
 *
 * Reference (fs/ext4/xattr.c ext4_xattr_inode_dec_ref): the 64-bit reference
 * count stored in the inode (i_ctime:high, i_version:low) drops by one and the
 * inode is written back once; only when it reaches 0 the inode is released:
 * links 0, dtime set, its own attribute block given back, its data blocks
 * punched (0..~0) if it has any, inode marked free exactly once.  While the
 * count stays positive nothing is freed.
 */
#include "lib/ext2fs/ext_attr.c"
#include "env.c"

struct vf_in {
	unsigned int ref_lo, ref_hi, ino;
	unsigned int i_blocks, i_size;
	unsigned char read_fails, write_fails, punch_fails, has_blocks;
};
VF_DECLARE_INPUT(struct vf_in, IN)
#include "vf_input.inc"

static int stub_ireads, stub_iwrites, stub_punches, stub_ifrees, stub_other, stub_bfrees;
static ext2_ino_t stub_written_ino, stub_punch_ino, stub_freed_ino;
static struct ext2_inode_large stub_written;
static unsigned long long stub_punch_start, stub_punch_end;

/* STUB: ext2fs_read_inode_full(): the value inode: EA_INODE flag, one link, symbolic 64-bit reference count, no attribute block of its own (that path is harness "freeattr") */
errcode_t ext2fs_read_inode_full(ext2_filsys fs, ext2_ino_t ino, struct ext2_inode *inode, int sz)
{
	static const struct ext2_inode_large zero;
	struct ext2_inode_large *l = (struct ext2_inode_large *) inode;
	(void) fs; (void) ino; (void) sz;
	stub_ireads++;
	if (IN.read_fails)
		return EXT2_ET_BAD_INODE_NUM;
	*l = zero;
	l->i_mode = 0100600;
	l->i_flags = EXT4_EA_INODE_FL;
	l->i_links_count = 1;
	l->i_blocks = IN.i_blocks;
	l->i_size = IN.i_size;
	l->i_ctime = IN.ref_hi;
	l->osd1.linux1.l_i_version = IN.ref_lo;
	return 0;
}
/* STUB: ext2fs_write_inode_full(): records the inode written; IN.write_fails: error */
errcode_t ext2fs_write_inode_full(ext2_filsys fs, ext2_ino_t ino, struct ext2_inode *inode, int sz)
{
	(void) fs; (void) sz;
	stub_iwrites++;
	stub_written_ino = ino;
	stub_written = *(struct ext2_inode_large *) inode;
	return IN.write_fails ? EXT2_ET_SHORT_WRITE : 0;
}
/* STUB: ext2fs_inode_has_valid_blocks2(): symbolic answer IN.has_blocks */
int ext2fs_inode_has_valid_blocks2(ext2_filsys fs, struct ext2_inode *inode)
{ (void) fs; (void) inode; return IN.has_blocks; }
/* STUB: ext2fs_punch(): records inode and range; IN.punch_fails: error */
errcode_t ext2fs_punch(ext2_filsys fs, ext2_ino_t ino, struct ext2_inode *inode, char *block_buf, blk64_t start, blk64_t end)
{
	(void) fs; (void) inode; (void) block_buf;
	stub_punches++;
	stub_punch_ino = ino;
	stub_punch_start = start;
	stub_punch_end = end;
	return IN.punch_fails ? EXT2_ET_SHORT_WRITE : 0;
}
/* STUB: ext2fs_inode_alloc_stats2(): records releases (inuse -1, not a directory) and anything else */
void ext2fs_inode_alloc_stats2(ext2_filsys fs, ext2_ino_t ino, int inuse, int isdir)
{
	(void) fs;
	if (inuse == -1 && isdir == 0) {
		stub_ifrees++;
		stub_freed_ino = ino;
	} else
		stub_other++;
}
/* STUB: ext2fs_block_alloc_stats2(), block I/O: unreachable because the value inode has no attribute block; counted */
void ext2fs_block_alloc_stats2(ext2_filsys fs, blk64_t blk, int inuse)
{ (void) fs; (void) blk; (void) inuse; stub_bfrees++; }

static struct struct_ext2_filsys vf_fs;
static struct ext2_super_block vf_sb;

int main(void)
{
	errcode_t rc;
	unsigned long long old, now;

	VF_INPUT(IN);
	old = ((unsigned long long) IN.ref_hi << 32) | IN.ref_lo;
	/* ASSUME: a referenced value inode has a reference count >= 1 */
	ASSUME(old >= 1);
	vf_sb.s_inodes_count = 1000;
	vf_sb.s_blocks_count = 8192;
	vf_fs.super = &vf_sb;
	vf_fs.blocksize = 1024;
	vf_fs.now = 1000000;		/* deterministic dtime */

	rc = xattr_inode_dec_ref(&vf_fs, IN.ino);

	if (IN.read_fails) {
		PROP(rc == EXT2_ET_BAD_INODE_NUM, "unreadable value inode: error returned");
		PROP(stub_iwrites == 0 && stub_punches == 0 && stub_ifrees == 0, "unreadable value inode: nothing touched");
	} else {
		now = ((unsigned long long) stub_written.i_ctime << 32) | stub_written.osd1.linux1.l_i_version;
		if (old > 1) {
			PROP(stub_iwrites == 1 && stub_written_ino == IN.ino, "still referenced: the inode is written back once");
			PROP(now == old - 1, "reference count drops by exactly one (64-bit)");
			PROP(stub_punches == 0 && stub_ifrees == 0 && stub_bfrees == 0, "still referenced: nothing is freed");
			PROP(stub_written.i_links_count == 1 && stub_written.i_dtime == 0, "still referenced: inode stays linked");
			PROP(rc == (IN.write_fails ? EXT2_ET_SHORT_WRITE : 0), "result of the inode write is returned");
		} else {
			PROP(stub_punches == (IN.has_blocks ? 1 : 0), "last reference: data blocks are punched iff the inode has any");
			if (IN.has_blocks)
				PROP(stub_punch_ino == IN.ino && stub_punch_start == 0 && stub_punch_end == ~0ULL,
				     "the whole value file is punched");
			if (IN.has_blocks && IN.punch_fails) {
				PROP(rc == EXT2_ET_SHORT_WRITE, "punch failure is returned");
				PROP(stub_ifrees == 0, "punch failure: inode not marked free");
			} else {
				PROP(stub_ifrees == 1 && stub_freed_ino == IN.ino, "last reference: the inode is marked free exactly once");
				PROP(stub_iwrites == 1 && stub_written_ino == IN.ino, "last reference: the inode is written back once");
				PROP(now == 0 && stub_written.i_links_count == 0 && stub_written.i_dtime == 1000000,
				     "released inode: count 0, no links, dtime set");
				PROP(rc == (IN.write_fails ? EXT2_ET_SHORT_WRITE : 0), "result of the inode write is returned (release)");
			}
			PROP(stub_bfrees == 0, "no attribute block to give back");
		}
		PROP(stub_other == 0, "no other inode statistics change");
	}
	VF_END();
	return 0;
}
