/*
 * C15/mkea: CREATING a value inode (ea_inode feature).
 *
 *   MODE 1  xattr_create_ea_inode(fs, value, len, &ino)      (static)
 *   MODE 2  xattr_update_entry(fs, x, name, short, index, value, len, in_inode = 1)
 *           = the list-entry edit that calls it (xattr_inode_dec_ref cut: harness decref)
 *
 * Reference (Documentation/filesystems/ext4/attributes.rst, fs/ext4/xattr.c
 * ext4_xattr_inode_create / ext4_xattr_inode_get_ref / _get_hash):
 *   a value inode is a regular file (S_IFREG | 0600) with EXT4_EA_INODE_FL
 *   (and EXT4_EXTENTS_FL iff the extents feature), one link, whose content is
 *   the value; its reference count is the 64-bit number {i_ctime : i_version}
 *   and starts at 1; i_atime holds crc32c(s_checksum_seed-derived seed, value).
 *   The inode is taken from the allocator once and marked in use once (not as
 *   a directory).  What counts is the LAST image of the inode written: the
 *   new-inode writer fills empty time fields with the current time, so count and
 *   hash have to reach the disk after it.
 *   On any failure the inode is NOT marked in use and no number is returned.
 * MODE 2: the edited entry ends up with the new inode number, a private copy
 *   of the value and its length; the value inode it had before loses exactly one
 *   reference; if that fails, the NEW inode is given back (one reference
 *   dropped) and the entry is left as it was.
 */
#include "config.h"
#include <stdio.h>
#include <string.h>
#include "ext2_fs.h"
#include "ext2_ext_attr.h"
#include "ext2fs.h"
#ifndef MODE
#define MODE 1
#endif
#if MODE == 2
static errcode_t xattr_inode_dec_ref(ext2_filsys fs, ext2_ino_t ino);
#endif
#include "lib/ext2fs/ext_attr.c"
#include "env.c"

#ifndef VL
#define VL 6		/* BOUND: MODE 2: value of VL bytes (compile-time: the entry edit allocates the copy) */
#endif
#ifndef EXTENTS
#define EXTENTS 1
#endif

struct vf_in {
	unsigned int newino, now, hash, seed, vlen;
	unsigned char new_fails, wnew_fails, winode_fails, open_fails, fwrite_fails, dec_fails;
	unsigned char val[8];
	unsigned int old_ea_ino;
	unsigned char old_index;
};
VF_DECLARE_INPUT(struct vf_in, IN)
#include "vf_input.inc"

static struct struct_ext2_filsys vf_fs;
static struct ext2_super_block vf_sb;
static unsigned char vf_val[8];

static int stub_seq;
static int stub_new_calls, stub_new_args_ok;
static int stub_wnew_calls, stub_wi_calls, stub_wi_ino_ok, stub_wi_seq, stub_wnew_seq;
static struct ext2_inode vf_disk_inode;		/* last image written */
static int stub_crc_calls, stub_crc_args_ok;
static int stub_open_calls, stub_open_args_ok, stub_open_seq;
static int stub_fw_calls, stub_fw_args_ok, stub_close_calls;
static int stub_stats_calls, stub_stats_args_ok, stub_stats_seq;

/* STUB: ext2fs_new_inode(): hands out IN.newino (non-zero) or fails (EXT2_ET_INODE_ALLOC_FAIL); arguments recorded (no directory hint, no private map) */
errcode_t ext2fs_new_inode(ext2_filsys fs, ext2_ino_t dir, int mode, ext2fs_inode_bitmap map, ext2_ino_t *ret)
{
	stub_new_calls++;
	stub_new_args_ok = (fs == &vf_fs && dir == 0 && map == 0);
	(void) mode;
	if (IN.new_fails)
		return EXT2_ET_INODE_ALLOC_FAIL;
	*ret = IN.newino;
	return 0;
}
/* STUB: ext2fs_write_new_inode(): like the real one fills zero i_ctime/i_mtime/i_atime with the current time IN.now, then the image goes to "disk"; symbolic failure */
errcode_t ext2fs_write_new_inode(ext2_filsys fs, ext2_ino_t ino, struct ext2_inode *inode)
{
	(void) fs;
	stub_wnew_calls++;
	stub_wnew_seq = ++stub_seq;
	stub_wi_ino_ok = stub_wi_ino_ok && ino == IN.newino;
	if (IN.wnew_fails)
		return EXT2_ET_SHORT_WRITE;
	vf_disk_inode = *inode;
	if (!vf_disk_inode.i_ctime) vf_disk_inode.i_ctime = IN.now;
	if (!vf_disk_inode.i_mtime) vf_disk_inode.i_mtime = IN.now;
	if (!vf_disk_inode.i_atime) vf_disk_inode.i_atime = IN.now;
	return 0;
}
/* STUB: ext2fs_write_inode(): the image goes to "disk"; symbolic failure */
errcode_t ext2fs_write_inode(ext2_filsys fs, ext2_ino_t ino, struct ext2_inode *inode)
{
	(void) fs;
	stub_wi_calls++;
	stub_wi_seq = ++stub_seq;
	stub_wi_ino_ok = stub_wi_ino_ok && ino == IN.newino;
	if (IN.winode_fails)
		return EXT2_ET_SHORT_WRITE;
	vf_disk_inode = *inode;
	return 0;
}
/* STUB: ext2fs_crc32c_le() (pattern T; the primitive is C14's subject): records seed, buffer, length; returns the symbolic IN.hash */
__u32 ext2fs_crc32c_le(__u32 crc, unsigned char const *p, size_t len)
{
	stub_crc_calls++;
	stub_crc_args_ok = (crc == IN.seed && p == vf_val && len == IN.vlen);
	return IN.hash;
}
/* STUB: ext2fs_file_open/write/close: record inode number, flags, buffer and length; symbolic open / write failure */
errcode_t ext2fs_file_open(ext2_filsys fs, ext2_ino_t ino, int flags, ext2_file_t *ret)
{
	static int dummy;
	(void) fs;
	stub_open_calls++;
	stub_open_seq = ++stub_seq;
	stub_open_args_ok = (ino == IN.newino && (flags & EXT2_FILE_WRITE));
	if (IN.open_fails)
		return EXT2_ET_BAD_INODE_NUM;
	*ret = (ext2_file_t) &dummy;
	return 0;
}
errcode_t ext2fs_file_write(ext2_file_t file, const void *buf, unsigned int nbytes, unsigned int *written)
{
	(void) file; (void) written;
	stub_fw_calls++;
	stub_fw_args_ok = (buf == (const void *) vf_val && nbytes == IN.vlen);
	return IN.fwrite_fails ? EXT2_ET_SHORT_WRITE : 0;
}
errcode_t ext2fs_file_close(ext2_file_t file) { (void) file; stub_close_calls++; return 0; }
/* STUB: ext2fs_inode_alloc_stats2(): records (inode, +1, not a directory) */
void ext2fs_inode_alloc_stats2(ext2_filsys fs, ext2_ino_t ino, int inuse, int isdir)
{
	(void) fs;
	stub_stats_calls++;
	stub_stats_seq = ++stub_seq;
	stub_stats_args_ok = (ino == IN.newino && inuse == 1 && isdir == 0);
}
/* STUB: inode/block I/O reached only from functions this harness does not call: deterministic failures */
errcode_t ext2fs_read_inode(ext2_filsys fs, ext2_ino_t ino, struct ext2_inode *inode)
{ (void) fs; (void) ino; (void) inode; return EXT2_ET_BAD_INODE_NUM; }
errcode_t ext2fs_read_inode_full(ext2_filsys fs, ext2_ino_t ino, struct ext2_inode *inode, int sz)
{ (void) fs; (void) ino; (void) inode; (void) sz; return EXT2_ET_BAD_INODE_NUM; }
errcode_t ext2fs_write_inode_full(ext2_filsys fs, ext2_ino_t ino, struct ext2_inode *inode, int sz)
{ (void) fs; (void) ino; (void) inode; (void) sz; return EXT2_ET_SHORT_WRITE; }

#if MODE == 2
/* STUB: xattr_inode_dec_ref() (cut; verified by harness decref): records up to two calls; the FIRST call fails on IN.dec_fails */
static int stub_dec_calls;
static ext2_ino_t stub_dec_ino[2];
static errcode_t xattr_inode_dec_ref(ext2_filsys fs, ext2_ino_t ino)
{
	(void) fs;
	if (stub_dec_calls == 0)
		stub_dec_ino[0] = ino;
	else
		stub_dec_ino[1] = ino;
	stub_dec_calls++;
	return (stub_dec_calls == 1 && IN.dec_fails) ? EXT2_ET_SHORT_WRITE : 0;
}
#endif

static void vf_check_created(errcode_t rc, int expect_ok)
{
	if (!expect_ok) {
		PROP(stub_stats_calls == 0, "after a failure the inode is not marked in use");
		return;
	}
	PROP(stub_new_calls == 1 && stub_new_args_ok, "one inode is taken from the allocator");
	PROP(stub_wi_ino_ok, "every inode write goes to the new inode");
	PROP(stub_wnew_calls == 1 && stub_wi_calls >= 1 && stub_wi_seq > stub_wnew_seq,
	     "reference count and hash are written AFTER the new-inode writer (which fills time fields)");
	PROP(vf_disk_inode.i_mode == (0100000 | 0600), "value inode is a regular file, mode 0600");
	PROP(vf_disk_inode.i_flags == (EXT4_EA_INODE_FL | (EXTENTS ? EXT4_EXTENTS_FL : 0)),
	     "flags: EXT4_EA_INODE_FL, plus EXT4_EXTENTS_FL iff the filesystem uses extents");
	PROP(vf_disk_inode.i_links_count == 1, "one link");
	PROP(vf_disk_inode.i_ctime == 0 && vf_disk_inode.osd1.linux1.l_i_version == 1, "reference count {i_ctime:i_version} == 1 on disk");
	PROP(stub_crc_calls == 1 && stub_crc_args_ok, "value hash = crc32c(fs checksum seed, value, length)");
	PROP(vf_disk_inode.i_atime == IN.hash, "value hash stored in i_atime on disk");
	PROP(stub_open_calls == 1 && stub_open_args_ok && stub_fw_calls == 1 && stub_fw_args_ok && stub_close_calls == 1,
	     "the value (all bytes) is written as the file content of the new inode, file closed");
	PROP(stub_open_seq > stub_wi_seq, "content is written after the inode exists on disk");
	PROP(stub_stats_calls == 1 && stub_stats_args_ok, "inode marked in use exactly once, not as a directory");
	(void) rc;
}

int main(void)
{
	errcode_t rc;
	int i, expect_ok;

	VF_INPUT(IN);
	/* ASSUME: the allocator hands out a non-zero inode number */
	ASSUME(IN.newino != 0);
	for (i = 0; i < 8; i++)
		vf_val[i] = IN.val[i];
	vf_sb.s_feature_incompat = EXT4_FEATURE_INCOMPAT_EA_INODE | (EXTENTS ? EXT3_FEATURE_INCOMPAT_EXTENTS : 0);
	vf_fs.super = &vf_sb;
	vf_fs.blocksize = 1024;
	vf_fs.csum_seed = IN.seed;
	stub_wi_ino_ok = 1;
	expect_ok = !IN.new_fails && !IN.wnew_fails && !IN.winode_fails && !IN.open_fails && !IN.fwrite_fails;

#if MODE == 1
	{
		ext2_ino_t out = 0;
		/* BOUND: value length any 32-bit number (the bytes are only handed on) */
		rc = xattr_create_ea_inode(&vf_fs, vf_val, IN.vlen, &out);
		PROP((rc == 0) == expect_ok, "success iff allocation, both inode writes, open and content write succeed");
		if (IN.new_fails)
			PROP(rc == EXT2_ET_INODE_ALLOC_FAIL && stub_wnew_calls == 0 && stub_wi_calls == 0 && stub_open_calls == 0,
			     "no inode available: error, nothing written");
		if (IN.fwrite_fails && !IN.new_fails && !IN.wnew_fails && !IN.winode_fails && !IN.open_fails)
			PROP(stub_close_calls == 1, "file closed also after a failed content write");
		vf_check_created(rc, expect_ok);
		if (expect_ok)
			PROP(out == IN.newino && stub_stats_seq == stub_seq, "the new inode number is returned; marking in use is the last step");
		else
			PROP(out == 0, "no inode number is returned on failure");
	}
#else
	{
		static struct ext2_xattr x;
		static char oldname[8] = "user.ab";
		static const char newname[8] = "user.ab";
		unsigned char *oldval;
		int ok;

		ASSUME(IN.vlen == VL);
		/* pre-state: existing entry (its value in-line or, IN.old_ea_ino != 0, in a value inode) or, -DNEWENTRY, an empty slot */
#ifdef NEWENTRY
		oldval = 0;
#else
		oldval = malloc(4);
		x.name = oldname;
		x.short_name = oldname + 5;
		x.name_index = 1;
		x.value = oldval;
		x.value_len = 4;
		x.ea_ino = IN.old_ea_ino;
		/* ASSUME: the allocator does not hand out the inode the entry already references */
		ASSUME(IN.old_ea_ino != IN.newino);
#endif
		rc = xattr_update_entry(&vf_fs, &x, newname, newname + 5, 1, vf_val, VL, 1);
#ifdef NEWENTRY
		PROP((rc == 0) == expect_ok, "new entry: success iff the value inode could be created");
		PROP(stub_dec_calls == 0, "new entry: no reference is dropped");
#else
		if (!expect_ok) {
			PROP(rc != 0 && stub_dec_calls == 0, "creation failed: error, the old value inode keeps its reference");
		} else if (IN.old_ea_ino == 0) {
			PROP(rc == 0 && stub_dec_calls == 0, "old value in-line: nothing to drop");
		} else if (IN.dec_fails) {
			PROP(rc == EXT2_ET_SHORT_WRITE, "failure to drop the old reference is returned");
			PROP(stub_dec_calls == 2 && stub_dec_ino[0] == IN.old_ea_ino && stub_dec_ino[1] == IN.newino,
			     "then the NEW value inode is given back (one reference), so nothing leaks");
		} else {
			PROP(rc == 0 && stub_dec_calls == 1 && stub_dec_ino[0] == IN.old_ea_ino,
			     "the old value inode loses exactly one reference");
		}
#endif
		vf_check_created(rc, expect_ok);
		if (rc == 0) {
			PROP(x.ea_ino == IN.newino, "entry references the new value inode");
			PROP(x.value_len == VL && x.name_index == 1, "entry length and name index");
			PROP(x.value != (void *) vf_val && x.value != (void *) oldval, "entry owns a private copy of the value");
			ok = 1;
			for (i = 0; i < VL; i++)
				if (((unsigned char *) x.value)[i] != IN.val[i])
					ok = 0;
			PROP(ok, "entry value equals the value set");
			ok = x.name != 0;
			for (i = 0; i < 8; i++)
				if (ok && x.name[i] != newname[i])
					ok = 0;
			PROP(ok && x.short_name == x.name + 5, "entry name / short name");
		} else {
#ifndef NEWENTRY
			PROP(x.ea_ino == IN.old_ea_ino && x.value == (void *) oldval && x.value_len == 4 && x.name == oldname,
			     "on failure the entry is left as it was");
#else
			PROP(x.ea_ino == 0 && x.value == 0 && x.name == 0, "on failure the empty slot stays empty");
#endif
		}
	}
#endif
	VF_END();
	return 0;
}
