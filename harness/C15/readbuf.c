/*
 * C15/readbuf: the real parser read_xattrs_from_buffer() on a symbolic entry
 * table: K entries (name length, index, value offset, value inode number, value
 * size, hash all symbolic), terminator, symbolic value area.  Accept/reject is
 * an IFF against an independent statement of the rules, and every error code is
 * the documented one.
 *
 * In-line value (e_value_inum == 0), region of S bytes, offsets counted from
 * value_start (LAYOUT 0: the first entry, LAYOUT 1: 32 bytes before it):
 *   accepted iff  offs + size <= end of region
 *            and  (size == 0 or offs >= end of entry table + 4 (terminator))     [format]
 *            and  size <= S - table bytes up to and including this entry
 *                          - sizes of the in-line values of earlier entries       [e2fsprogs' cumulative rule]
 * Value in an EA inode (e_value_inum != 0), needs the ea_inode feature:
 *   accepted iff  offs == 0  and  size <= 65536 (XATTR_SIZE_MAX, inclusive: the
 *   kernel and ext2fs_xattr_set both store 64 KiB values)  and the inode is a
 *   linked EA inode without inline data whose file size equals size, and the
 *   entry hash is 0 / matches (unsigned or signed) / Lustre-style back reference.
 * The 64 KiB buffer is never materialised: the value-file stub checks the
 * requested length and writes the first and last byte only.
 */
#include "lib/ext2fs/ext_attr.c"
#include "env.c"

#ifndef K
#define K 1
#endif
#ifndef LAYOUT
#define LAYOUT 0
#endif
#ifndef EAMASK
#define EAMASK 0
#endif
#ifndef FEAT
#define FEAT 1			/* ea_inode feature on */
#endif
#ifndef S
#define S 64			/* BOUND: region of S bytes */
#endif
#define NM 4			/* BOUND: names 0..4 bytes */
#if LAYOUT == 0
#define CORR 0
#else
#define CORR 32
#endif
#define HANDLE_INO 12

struct vf_ent {
	unsigned char nlen, idx;
	unsigned char name[NM];
	unsigned short offs;
	unsigned int inum, size, hash;
};
struct vf_in {
	struct vf_ent e[K];
	unsigned char area[CORR + S];		/* header bytes (LAYOUT 1) and value area; the entry table is laid over its start */
	/* value inode as the stubs present it */
	unsigned int i_flags, fsize, ihash, child_mtime, child_gen, inode_gen;
	unsigned short links;
	unsigned char open_fails, read_fails, first, last;
};
VF_DECLARE_INPUT(struct vf_in, IN)
#include "vf_input.inc"

static int stub_opens, stub_closes, stub_freads, stub_fread_bad;
static struct ext2_inode stub_finode;
/* STUB: ext2fs_read_inode(): the value inode: stored hash i_atime, i_mtime / i_generation (Lustre back reference) symbolic */
errcode_t ext2fs_read_inode(ext2_filsys fs, ext2_ino_t ino, struct ext2_inode *inode)
{
	static const struct ext2_inode zero;
	(void) fs; (void) ino;
	*inode = zero;
	inode->i_atime = IN.ihash;
	inode->i_mtime = IN.child_mtime;
	inode->i_generation = IN.child_gen;
	return 0;
}
/* STUB: ext2fs_file_open/get_inode/get_size/read/close: one value file with symbolic i_flags, i_links_count and size; open/read can fail; read checks (buffer, length) and writes only the first and last byte of the value (the 64 KiB buffer is not materialised) */
errcode_t ext2fs_file_open(ext2_filsys fs, ext2_ino_t ino, int flags, ext2_file_t *ret)
{
	(void) fs; (void) ino; (void) flags;
	if (IN.open_fails)
		return EXT2_ET_BAD_INODE_NUM;
	stub_opens++;
	stub_finode.i_flags = IN.i_flags;
	stub_finode.i_links_count = IN.links;
	stub_finode.i_size = IN.fsize;
	*ret = (ext2_file_t) &stub_finode;
	return 0;
}
struct ext2_inode *ext2fs_file_get_inode(ext2_file_t file) { return (struct ext2_inode *) file; }
ext2_off_t ext2fs_file_get_size(ext2_file_t file) { return ((struct ext2_inode *) file)->i_size; }
static unsigned int stub_fread_wanted;
errcode_t ext2fs_file_read(ext2_file_t file, void *buf, unsigned int wanted, unsigned int *got)
{
	(void) file;
	stub_freads++;
	stub_fread_wanted = wanted;
	if (!buf)
		stub_fread_bad = 1;
	if (IN.read_fails)
		return EXT2_ET_SHORT_READ;
	if (wanted > 0 && buf) {
		((unsigned char *) buf)[0] = IN.first;
		((unsigned char *) buf)[wanted - 1] = IN.last;
	}
	if (got)
		*got = wanted;
	return 0;
}
errcode_t ext2fs_file_close(ext2_file_t file) { (void) file; stub_closes++; return 0; }

static struct struct_ext2_filsys vf_fs;
static struct ext2_super_block vf_sb;
static struct ext2_inode_large vf_inode;
static unsigned char vf_region[CORR + S + 4] __attribute__((aligned(8)));
static struct ext2_xattr vf_rattrs[4];
static struct ext2_xattr_handle vf_h;

static int ref_up4(int x) { return (x + 3) / 4 * 4; }

int main(void)
{
	unsigned char *base = vf_region, *ent = vf_region + CORR;
	int i, b, off = 0, table_len = 0, consumed = 0, inline_sum = 0;
	errcode_t rc, want = 0;
	int nparsed = 0;		/* entries before the first rejected one */
	int toff[K];

	VF_INPUT(IN);
	for (i = 0; i < CORR + S; i++)
		base[i] = IN.area[i];
	for (i = 0; i < K; i++) {
		struct ext2_ext_attr_entry *e;
		ASSUME(IN.e[i].nlen <= NM);
		/* ASSUME: a real entry does not start with four zero bytes (that IS the terminator) */
		ASSUME(IN.e[i].nlen != 0 || IN.e[i].idx != 0 || IN.e[i].offs != 0);
#ifdef HASH0
		IN.e[i].hash = 0;	/* BOUND: HASH0 configs: stored hash 0 ("not hashed", legal for old in-inode entries); the hash comparison is exercised by the other configs and by harness rt */
#endif
		if (!((EAMASK >> i) & 1))
			IN.e[i].inum = 0;
		else
			ASSUME(IN.e[i].inum != 0);
		toff[i] = off;
		e = (struct ext2_ext_attr_entry *) (ent + off);
		e->e_name_len = IN.e[i].nlen;
		e->e_name_index = IN.e[i].idx;
		e->e_value_offs = IN.e[i].offs;
		e->e_value_inum = IN.e[i].inum;
		e->e_value_size = IN.e[i].size;
		e->e_hash = IN.e[i].hash;
		for (b = 0; b < NM; b++)
			ent[off + 16 + b] = b < IN.e[i].nlen ? IN.e[i].name[b] : 0;
		off += 16 + ref_up4(IN.e[i].nlen);
	}
	table_len = off;
	ent[off] = ent[off + 1] = ent[off + 2] = ent[off + 3] = 0;	/* terminator */

	vf_sb.s_feature_incompat = FEAT ? EXT4_FEATURE_INCOMPAT_EA_INODE : 0;
	vf_fs.super = &vf_sb;
	vf_inode.i_generation = IN.inode_gen;
	vf_h.magic = EXT2_ET_MAGIC_EA_HANDLE;
	vf_h.fs = &vf_fs;
	vf_h.attrs = vf_rattrs;
	vf_h.capacity = 4;
	vf_h.count = 0;
	vf_h.ino = HANDLE_INO;

	/* ---- reference verdict, entry by entry ---- */
	for (i = 0; i < K; i++) {
		unsigned int size = IN.e[i].size, offs = IN.e[i].offs;
		if (want)
			continue;
		consumed += 16 + ref_up4(IN.e[i].nlen);
		if (IN.e[i].inum == 0) {
			long long room = (long long) S - consumed - inline_sum;
			if ((long long) size > room)
				want = EXT2_ET_EA_BAD_VALUE_SIZE;
			else if ((unsigned long long) offs + size > (unsigned long long) (CORR + S))
				want = EXT2_ET_EA_BAD_VALUE_OFFSET;
			else if (size > 0 && (int) offs < CORR + table_len + 4)
				want = EXT2_ET_EA_BAD_VALUE_OFFSET;
			else
				inline_sum += size;
		} else {
			if (!FEAT)
				want = EXT2_ET_BAD_EA_BLOCK_NUM;
			else if (offs != 0)
				want = EXT2_ET_EA_BAD_VALUE_OFFSET;
			else if (size > 65536)
				want = EXT2_ET_EA_BAD_VALUE_SIZE;	/* 64 KiB itself is a legal value size */
			else if (IN.open_fails)
				want = EXT2_ET_BAD_INODE_NUM;
			else if ((IN.i_flags & EXT4_INLINE_DATA_FL) || !(IN.i_flags & EXT4_EA_INODE_FL) || IN.links == 0)
				want = EXT2_ET_EA_INODE_CORRUPTED;
			else if (IN.fsize != size)
				want = EXT2_ET_EA_BAD_VALUE_SIZE;
			else if (IN.read_fails)
				want = EXT2_ET_SHORT_READ;
		}
		if (!want && IN.e[i].hash != 0) {
			__u32 h = 0, sh = 0;
			struct ext2_ext_attr_entry *e = (struct ext2_ext_attr_entry *) (ent + toff[i]);
			/* the entry hash function is verified against the format by harness "hash" */
			ext2fs_ext_attr_hash_entry3(&vf_fs, e, IN.e[i].inum ? 0 : base + offs, &h, &sh);
			if (IN.e[i].hash != h && IN.e[i].hash != sh &&
			    !(IN.child_mtime == HANDLE_INO && IN.child_gen == IN.inode_gen))
				want = EXT2_ET_BAD_EA_HASH;
		}
		if (!want)
			nparsed++;
	}
#if EAMASK == 0 && K == 1
	/* with one in-line entry the cumulative rule is implied by the format rules: the verdict is the pure format predicate */
	{
		unsigned int size = IN.e[0].size, offs = IN.e[0].offs;
		int fmt_ok = (unsigned long long) offs + size <= (unsigned long long) (CORR + S) &&
			(size == 0 || (int) offs >= CORR + table_len + 4);
		if (IN.e[0].hash == 0)
			PROP((want == 0) == (fmt_ok != 0), "reference self-check: single in-line entry accepted iff inside the value area");
	}
#endif

	rc = read_xattrs_from_buffer(&vf_h, &vf_inode, (struct ext2_ext_attr_entry *) ent, S, (char *) base);

	PROP((rc == 0) == (want == 0), "parser accepts the table iff every entry satisfies the rules");
	PROP(rc == want, "parser reports the documented error code of the first offending entry");
	PROP(stub_opens == stub_closes, "every value file that was opened is closed again");
	PROP(!stub_fread_bad, "value file is read into an allocated buffer");
	PROP(vf_h.count == nparsed, "handle holds exactly the entries before the first offending one");
	for (i = 0; i < K; i++) {
		struct ext2_xattr *x = &vf_rattrs[i];
		int ok = 1;
		if (i >= nparsed)
			continue;
		PROP(x->name_index == IN.e[i].idx && x->value_len == IN.e[i].size && x->ea_ino == IN.e[i].inum,
		     "parsed index, value length and value inode number");
		for (b = 0; b < NM; b++)
			if (b < IN.e[i].nlen && (unsigned char) x->short_name[b] != IN.e[i].name[b])
				ok = 0;
		PROP(ok, "parsed short name");
		if (IN.e[i].inum == 0) {
			ok = 1;
			for (b = 0; b < S; b++) {
				if ((unsigned) b < IN.e[i].size) {
					int p, pos = IN.e[i].offs + b;
					unsigned char v = 0;
					for (p = 0; p < CORR + S; p++)
						if (p == pos)
							v = base[p];
					if (((unsigned char *) x->value)[b] != v)
						ok = 0;
				}
			}
			PROP(ok, "parsed in-line value equals the bytes at its offset");
		} else if (IN.e[i].size > 0) {
			PROP(stub_fread_wanted == IN.e[i].size, "the whole value is requested from the value inode");
			PROP(((unsigned char *) x->value)[0] == (IN.e[i].size == 1 ? IN.last : IN.first) &&
			     ((unsigned char *) x->value)[IN.e[i].size - 1] == IN.last,
			     "value read from the inode lands in the attribute (first and last byte)");
		}
	}
	VF_END();
	return 0;
}
