/*
 * xa_common.h -- model of an attribute list and an INDEPENDENT reader of the
 * on-disk attribute region, shared by the C15 harnesses.
 *
 * On-disk format (Documentation/filesystems/ext4/attributes.rst): a region is a
 * table of entries growing upwards from its start, closed by four zero bytes,
 * and values growing downwards from its end.  Entry = 16-byte header
 * {name_len u8, name_index u8, value_offs le16, value_inum le32, value_size
 * le32, hash le32} followed by the name padded to 4 bytes.  value_offs counts
 * from the first entry (in-inode region) or from the start of the block (block
 * region: the 32-byte header precedes the first entry).
 */
#ifndef XA_COMMON_H
#define XA_COMMON_H

#ifndef NM
#define NM 4		/* BOUND: short names of 0..NM bytes */
#endif
#ifndef VM
#define VM 8		/* BOUND: values of 0..VM bytes */
#endif
#ifndef KMAX
#define KMAX 3		/* BOUND: at most KMAX attributes in a list */
#endif

struct vf_attr {
	unsigned char idx;		/* name index (namespace) */
	unsigned char nlen;		/* short-name length */
	unsigned char name[NM];
	unsigned char vlen;
	unsigned char val[VM];
	unsigned int ea_ino;		/* 0: value stored in the region; else number of the EA inode holding the value */
};

static int ref_up4(int x) { return (x + 3) / 4 * 4; }
/* bytes an attribute occupies in a region: entry header + padded name + padded value; a value kept in an EA inode occupies nothing in the region */
static int ref_space1(const struct vf_attr *a) { return 16 + ref_up4(a->nlen) + (a->ea_ino ? 0 : ref_up4(a->vlen)); }

/* hash stored in EA inode number ino, as the harness's inode-read stub reports it */
static unsigned int ref_ea_seed;
static unsigned int ref_inode_hash(unsigned int ino) { return ref_ea_seed + ino * 3u; }
static unsigned int ref_rol32(unsigned int h, int k)
{
	unsigned long long w = h;
	w = (w << k) | (w >> (32 - k));
	return (unsigned int) (w & 0xffffffffULL);
}
/* entry hash of an attribute whose value lives in an EA inode (fs/ext4/xattr.c ext4_xattr_inode_verify_hashes):
 * the name hash (5-bit rotation per unsigned name byte) folded once (16-bit rotation) with the inode's stored hash */
static unsigned int ref_ea_entry_hash(const struct vf_attr *a)
{
	unsigned int h = 0;
	int i;
	for (i = 0; i < NM; i++)
		if (i < a->nlen)
			h = ref_rol32(h, 5) ^ a->name[i];
	return ref_rol32(h, 16) ^ ref_inode_hash(a->ea_ino);
}

/* a well-formed model attribute: lengths in bound, name bytes are non-NUL up to nlen (C strings in the handle) */
static int ref_attr_ok(const struct vf_attr *a)
{
	int i;
	if (a->nlen > NM || a->vlen > VM)
		return 0;
	for (i = 0; i < NM; i++)
		if (i < a->nlen && a->name[i] == 0)
			return 0;
	return 1;
}

static int ref_same_key(const struct vf_attr *a, const struct vf_attr *b)
{
	int i;
	if (a->idx != b->idx || a->nlen != b->nlen)
		return 0;
	for (i = 0; i < NM; i++)
		if (i < a->nlen && a->name[i] != b->name[i])
			return 0;
	return 1;
}

/* the order the kernel requires inside a block (fs/ext4/xattr.c xattr_find_entry, sorted):
 * by name index, then name length, then name bytes; <0, 0, >0 */
static int ref_key_cmp(const struct vf_attr *a, const struct vf_attr *b)
{
	int i;
	if (a->idx != b->idx)
		return a->idx < b->idx ? -1 : 1;
	if (a->nlen != b->nlen)
		return a->nlen < b->nlen ? -1 : 1;
	for (i = 0; i < NM; i++)
		if (i < a->nlen && a->name[i] != b->name[i])
			return a->name[i] < b->name[i] ? -1 : 1;
	return 0;
}

/* ---- independent region reader (no symbolic array index: guide rule 4) ---- */
static unsigned char ref_byte(const unsigned char *r, int size, int off)
{
	int p;
	unsigned char v = 0;
	for (p = 0; p < size; p++)
		if (p == off)
			v = r[p];
	return v;
}
static unsigned int ref_le(const unsigned char *r, int size, int off, int nbytes)
{
	unsigned int v = 0;
	int p;
	for (p = 0; p < size; p++) {
		if (p >= off && p < off + nbytes) {
			int sh = p - off;
			v |= (unsigned int) r[p] << (sh == 0 ? 0 : sh == 1 ? 8 : sh == 2 ? 16 : 24);
		}
	}
	return v;
}

/*
 * Check that region r[0..size) holds exactly the attributes a[0..k) in this
 * order.  corr = offset of r[0] from the origin of value_offs (0 in-inode, 32 in
 * a block).  want_hash: 1 = every entry hash must equal the entry hash function
 * (verified against the format by the "hash" harness), 0 = must be 0.
 * Returns 0 or the number of the first violated rule.
 */
static unsigned int vf_model_hash(const struct vf_attr *a)
{
	/* the real entry hash (== format definition: harness "hash") over a canonical copy of the model attribute */
	static __u32 ew[(16 + NM + 4) / 4], vw[(VM + 4) / 4];
	struct ext2_ext_attr_entry *e = (struct ext2_ext_attr_entry *) ew;
	unsigned char *np = (unsigned char *) ew + 16, *vp = (unsigned char *) vw;
	int b;
	e->e_name_len = a->nlen;
	e->e_name_index = a->idx;
	e->e_value_inum = 0;
	e->e_value_size = a->vlen;
	for (b = 0; b < NM; b++)
		np[b] = b < a->nlen ? a->name[b] : 0;
	for (b = 0; b < (VM + 3) / 4 * 4; b++)
		vp[b] = (b < VM && b < a->vlen) ? a->val[b] : 0;
	return ext2fs_ext_attr_hash_entry(e, vp);
}

static int ref_region_check(const unsigned char *r, int size, int corr,
			    const struct vf_attr *a, int k, int want_hash)
{
	int eo = 0, i, j, b;
	int vo[KMAX], vs[KMAX];
	int table_end;

	for (i = 0; i < KMAX; i++) {
		vo[i] = 0; vs[i] = 0;
		if (i >= k)
			continue;
		if (eo + 16 + ref_up4(a[i].nlen) + 4 > size)
			return 1;			/* entry table (with terminator) leaves the region */
		if (ref_byte(r, size, eo) != a[i].nlen)
			return 2;
		if (ref_byte(r, size, eo + 1) != a[i].idx)
			return 3;
		if (ref_le(r, size, eo + 4, 4) != a[i].ea_ino)
			return 4;			/* value_inum: 0 = value is in-line, else the EA inode */
		if (ref_le(r, size, eo + 8, 4) != a[i].vlen)
			return 5;
		for (b = 0; b < NM; b++)
			if (b < a[i].nlen && ref_byte(r, size, eo + 16 + b) != a[i].name[b])
				return 6;
		vo[i] = (int) ref_le(r, size, eo + 2, 2) - corr;
		vs[i] = ref_up4(a[i].vlen);
		if (a[i].ea_ino) {
			if (ref_le(r, size, eo + 2, 2) != 0)
				return 16;		/* value_offs is 0 for a value kept in an EA inode */
			/* the entry hash is mandatory in BOTH layouts (the kernel verifies it against the inode's hash) */
			if (ref_le(r, size, eo + 12, 4) != ref_ea_entry_hash(&a[i]))
				return 17;
			vs[i] = 0;
			eo += 16 + ref_up4(a[i].nlen);
			continue;
		}
		if (a[i].vlen) {
			if (vo[i] < 0 || vo[i] + vs[i] > size)
				return 7;		/* (padded) value leaves the region */
			for (b = 0; b < VM; b++)
				if (b < a[i].vlen && ref_byte(r, size, vo[i] + b) != a[i].val[b])
					return 8;
			for (b = 0; b < 3; b++)
				if (a[i].vlen + b < vs[i] && ref_byte(r, size, vo[i] + a[i].vlen + b) != 0)
					return 9;	/* padding is zero (the hash covers it) */
		}
		if (want_hash) {
			if (ref_le(r, size, eo + 12, 4) != vf_model_hash(&a[i]))
				return 10;
		} else if (ref_le(r, size, eo + 12, 4) != 0)
			return 11;
		eo += 16 + ref_up4(a[i].nlen);
	}
	if (eo + 4 > size)
		return 12;
	if (ref_le(r, size, eo, 4) != 0)
		return 13;				/* terminator */
	table_end = eo + 4;
	for (i = 0; i < KMAX; i++) {
		if (i >= k || a[i].vlen == 0 || a[i].ea_ino)
			continue;
		if (vo[i] < table_end)
			return 14;			/* value overlaps the entry table / terminator */
		for (j = 0; j < KMAX; j++)
			if (j < i && j < k && a[j].vlen != 0 && !a[j].ea_ino &&
			    vo[i] < vo[j] + vs[j] && vo[j] < vo[i] + vs[i])
				return 15;		/* two values overlap (e2fsck pass1 region check) */
	}
	return 0;
}

#endif
