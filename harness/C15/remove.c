/*
 * C15/remove: ext2fs_xattr_remove() and ext2fs_xattr_get() on an arbitrary valid
 * handle (pattern I).  OP 1: remove(key): list' == list without key, order of
 * the others unchanged (so the block part stays sorted), ibody_count drops iff
 * the key was in the inode body, the list is written back exactly when it
 * changed.  OP 2: get(key) returns a private copy of exactly the stored value,
 * or EXT2_ET_EA_KEY_NOT_FOUND, and does not change the handle.
 * Every attribute carries a symbolic ea_ino (0 = in-line value, else the value
 * inode): remove drops exactly one reference, on the REMOVED attribute's value
 * inode as it was before the call, iff it had one; no other value inode is
 * touched; get never touches one.
 */
#include "config.h"
#include <stdio.h>
#include <string.h>
#include "ext2_fs.h"
#include "ext2_ext_attr.h"
#include "ext2fs.h"
static void *stub_memmove(void *dst, const void *src, size_t n);
static errcode_t xattr_inode_dec_ref(ext2_filsys fs, ext2_ino_t ino);
#define memmove stub_memmove
#include "lib/ext2fs/ext_attr.c"	/* cut_statics: xattr_inode_dec_ref */
#undef memmove
/* STUB: xattr_inode_dec_ref() (cut: dropping one reference on a value inode; its own logic needs inode I/O, punch and bitmaps: outside) records every inode number it is asked to release */
#define VF_DEC_MAX 4
static int stub_dec_calls;
static ext2_ino_t stub_dec_ino[VF_DEC_MAX];
static errcode_t xattr_inode_dec_ref(ext2_filsys fs, ext2_ino_t ino)
{
	(void) fs;
	if (stub_dec_calls < VF_DEC_MAX)
		stub_dec_ino[stub_dec_calls] = ino;
	stub_dec_calls++;
	return 0;
}
/* STUB: memmove() (only used by ext_attr.c to shift elements of the attribute array) copies whole array elements through a temporary, at most 3 of them; CBMC's built-in variable-length memmove model costs 10M variables here, a byte loop turns the pointers inside the elements into integers */
static int stub_memmove_bad;
static void *stub_memmove(void *dst, const void *src, size_t n)
{
	struct ext2_xattr tmp[3];
	const struct ext2_xattr *s = src;
	struct ext2_xattr *d = dst;
	size_t i, k = n / sizeof(struct ext2_xattr);
	if (n % sizeof(struct ext2_xattr) || k > 3)
		stub_memmove_bad = 1;
	for (i = 0; i < 3; i++)
		if (i < k)
			tmp[i] = s[i];
	for (i = 0; i < 3; i++)
		if (i < k)
			d[i] = tmp[i];
	return dst;
}
#include "env.c"

#ifndef N
#define N 2
#endif
#ifndef IBC
#define IBC 1
#endif
#ifndef OP
#define OP 1
#endif
#ifndef NM
#define NM 3
#endif
#ifndef VM
#define VM 8
#endif
#define KMAX 4
#include "xa_common.h"
#define PFX_STR "user."
#define PFX_LEN 5
#define VF_WRITE_ERR EXT2_ET_BAD_INODE_NUM

struct vf_in {
	struct vf_attr a[N + 1];
	struct vf_attr key;		/* only idx/nlen/name used */
};
VF_DECLARE_INPUT(struct vf_in, IN)
#include "vf_input.inc"

/* STUB: ext2fs_read_inode_full() fails with a sentinel error: ext2fs_xattrs_write() then returns it before touching any disk structure, so the harness observes (a) whether the write-back was requested and (b) the in-memory list; the on-disk image is harness "rt" */
static int stub_reads;
errcode_t ext2fs_read_inode_full(ext2_filsys fs, ext2_ino_t ino, struct ext2_inode *inode, int sz)
{ (void) fs; (void) ino; (void) inode; (void) sz; stub_reads++; return VF_WRITE_ERR; }
/* STUB: ext2fs_read_inode() (value-inode hash for the serialiser) unreachable because the write-back stops at the inode read: fails */
errcode_t ext2fs_read_inode(ext2_filsys fs, ext2_ino_t ino, struct ext2_inode *inode)
{ (void) fs; (void) ino; (void) inode; return EXT2_ET_BAD_INODE_NUM; }

static struct struct_ext2_filsys vf_fs;
static struct ext2_super_block vf_sb;
static char vf_key[PFX_LEN + NM + 1];

static int ref_same_val(const struct vf_attr *a, const struct vf_attr *b)
{
	int i;
	if (a->vlen != b->vlen)
		return 0;
	for (i = 0; i < VM; i++)
		if (i < a->vlen && a->val[i] != b->val[i])
			return 0;
	return 1;
}

/* attribute j of the handle equals model attribute m (full name "user."+short, value, index) */
static int vf_attr_is(struct ext2_xattr_handle *h, int j, const struct vf_attr *m)
{
	struct ext2_xattr *x = &h->attrs[j];
	int b, ok = 1;
	if (!x->name || !x->value || x->short_name != x->name + PFX_LEN)
		return 0;
	if (x->name_index != m->idx || x->value_len != m->vlen || x->ea_ino != m->ea_ino)
		return 0;
	for (b = 0; b < PFX_LEN; b++)
		if (x->name[b] != PFX_STR[b])
			ok = 0;
	for (b = 0; b < NM + 1; b++)
		if (b <= m->nlen && x->short_name[b] != (b < m->nlen ? (char) m->name[b] : 0))
			ok = 0;
	for (b = 0; b < VM; b++)
		if (b < m->vlen && ((unsigned char *) x->value)[b] != m->val[b])
			ok = 0;
	return ok;
}

int main(void)
{
	struct ext2_xattr_handle *h = 0;
	errcode_t rc;
	int i, j, b, hit = -1;

	VF_INPUT(IN);
	ASSUME(ref_attr_ok(&IN.key));
	ASSUME(IN.key.idx == 1);
	for (i = 0; i < N; i++) {
		ASSUME(ref_attr_ok(&IN.a[i]));
		/* ASSUME: all attributes of the pre-state live in the user. namespace (full name = "user." + short name); remove/get compare full names only */
		ASSUME(IN.a[i].idx == 1);
		for (j = 0; j < N; j++)
			if (j < i)
				ASSUME(!ref_same_key(&IN.a[i], &IN.a[j]));	/* Inv: names unique */
		if (ref_same_key(&IN.a[i], &IN.key))
			hit = i;
	}

	vf_sb.s_feature_compat = EXT2_FEATURE_COMPAT_EXT_ATTR;
	vf_sb.s_rev_level = 1;
	vf_sb.s_inode_size = 256;
	vf_fs.super = &vf_sb;
	vf_fs.blocksize = 1024;
	rc = ext2fs_xattrs_open(&vf_fs, 12, &h);
	ASSUME(rc == 0 && h != 0);
	for (i = 0; i < N; i++) {
		struct ext2_xattr *x = &h->attrs[i];
		char *nm = malloc(PFX_LEN + NM + 1);
		unsigned char *vv = malloc(VM);
		for (b = 0; b < PFX_LEN; b++)
			nm[b] = PFX_STR[b];
		for (b = 0; b < NM + 1; b++)
			nm[PFX_LEN + b] = b < IN.a[i].nlen ? (char) IN.a[i].name[b] : 0;
		for (b = 0; b < VM; b++)
			vv[b] = IN.a[i].val[b];
		x->name = nm;
		x->short_name = nm + PFX_LEN;
		x->name_index = 1;
		x->value = vv;
		x->value_len = IN.a[i].vlen;
		x->ea_ino = IN.a[i].ea_ino;	/* symbolic: 0 = in-line, else value inode */
	}
	h->count = N;
	h->ibody_count = IBC;
	for (b = 0; b < PFX_LEN; b++)
		vf_key[b] = PFX_STR[b];
	for (b = 0; b < NM + 1; b++)
		vf_key[PFX_LEN + b] = b < IN.key.nlen ? (char) IN.key.name[b] : 0;

#if OP == 1
	rc = ext2fs_xattr_remove(h, vf_key);
	if (hit < 0) {
		PROP(rc == 0, "removing an absent name succeeds");
		PROP(stub_reads == 0, "nothing is written back when nothing changed");
		PROP(stub_dec_calls == 0, "absent name: no value inode is released");
		PROP(h->count == N && h->ibody_count == IBC, "absent name: counts unchanged");
		for (i = 0; i < N; i++)
			PROP(vf_attr_is(h, i, &IN.a[i]), "absent name: every attribute unchanged");
	} else {
		PROP(stub_reads == 1 && rc == VF_WRITE_ERR, "the shortened list is written back once and its result returned");
		PROP(h->count == N - 1, "count drops by one");
		for (i = 0; i < N; i++) {
			if (i != hit)
				continue;
			if (IN.a[i].ea_ino != 0) {
				PROP(stub_dec_calls == 1, "removing an attribute with a value inode drops exactly one reference");
				PROP(stub_dec_ino[0] == IN.a[i].ea_ino, "the reference is dropped on the REMOVED attribute's value inode");
			} else
				PROP(stub_dec_calls == 0, "removing an in-line attribute releases no value inode");
		}
		PROP(h->ibody_count == IBC - (hit < IBC ? 1 : 0), "ibody_count drops iff the removed attribute was in the inode body");
		for (i = 0; i < N; i++) {
			if (i == hit)
				continue;
			j = i < hit ? i : i - 1;
			PROP(vf_attr_is(h, j, &IN.a[i]), "remaining attributes unchanged and in their previous order");
		}
		PROP(h->attrs[N - 1].name == 0 && h->attrs[N - 1].value == 0, "vacated slot is cleared (no double free at close)");
	}
#else
	{
		void *val = 0;
		size_t len = 12345;
		rc = ext2fs_xattr_get(h, vf_key, &val, &len);
		if (hit < 0) {
			PROP(rc == EXT2_ET_EA_KEY_NOT_FOUND, "get of an absent name: EXT2_ET_EA_KEY_NOT_FOUND");
		} else {
			int ok = 1;
			PROP(rc == 0, "get of a present name succeeds");
			PROP(len == IN.a[hit].vlen, "get returns the stored length");
			PROP(val != 0 && val != h->attrs[hit].value, "get returns a private copy");
			for (b = 0; b < VM; b++)
				if (b < IN.a[hit].vlen && ((unsigned char *) val)[b] != IN.a[hit].val[b])
					ok = 0;
			PROP(ok, "get returns the stored bytes");
		}
		PROP(stub_dec_calls == 0, "get releases no value inode");
		PROP(h->count == N && h->ibody_count == IBC, "get does not change the counts");
		for (i = 0; i < N; i++)
			PROP(vf_attr_is(h, i, &IN.a[i]), "get does not change the list");
	}
#endif
	PROP(!stub_memmove_bad, "memmove only ever shifts whole elements inside the attribute array");
	VF_END();
	return 0;
}
