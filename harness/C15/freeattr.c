/*
 * C15/freeattr: the reference count of an external attribute block.
 *
 *   MODE 1  ext2fs_free_ext_attr(fs, ino, inode)  (INODE_ARG 1: caller's inode,
 *           0: NULL = read and write the inode itself): one inode lets go of its
 *           attribute block
 *   MODE 2  ext2fs_adjust_ea_refcount3(fs, blk, buf, adjust, &newcount, ino)
 *
 * "Disk" = one block of BS bytes at block number IN.blk with a symbolic header
 * (magic, h_refcount, h_blocks) and symbolic body; io_channel read/write,
 * checksum verify/set, ext2fs_block_alloc_stats2 and the inode read/write are
 * recording stubs with symbolic failures.
 *
 * Reference for MODE 1 (refcounted sharing, fs/ext4/xattr.c ext4_xattr_release_block):
 *   no block (i_file_acl 0): success, nothing touched;
 *   i_file_acl outside [s_first_data_block, blocks_count): EXT2_ET_BAD_EA_BLOCK_NUM, nothing touched;
 *   unreadable / bad checksum / not a v2 one-block header: error, nothing written, inode untouched;
 *   otherwise the block is written back ONCE with h_refcount = old - 1 and every other byte
 *   unchanged; it is released in the bitmap (exactly once) iff old == 1, i.e. iff no other inode
 *   uses it any more; i_file_acl becomes 0 and i_blocks drops by one fs block; with a NULL inode
 *   argument the inode is written back once.  A failed write-back leaves the inode alone and
 *   frees nothing.
 */
#include "lib/ext2fs/ext_attr.c"
#include "env.c"

#ifndef MODE
#define MODE 1
#endif
#ifndef INODE_ARG
#define INODE_ARG 1
#endif
#define BS 64			/* BOUND: block size 64 bytes (only the 32-byte header is interpreted) */

struct vf_in {
	unsigned char disk[BS];		/* block content, header fields included */
	unsigned int blk;		/* where the block lives */
	unsigned int file_acl, i_blocks;
	unsigned int first_data_block, blocks_count;
	unsigned char read_fails, write_fails, csum_bad, iread_fails, iwrite_fails;
	int adjust;
	unsigned int arg_blk;
};
VF_DECLARE_INPUT(struct vf_in, IN)
#include "vf_input.inc"

static unsigned char vf_disk[BS] __attribute__((aligned(8)));
static int stub_io_reads, stub_io_writes, stub_frees, stub_other_stats, stub_iwrites, stub_ireads;
static unsigned long long stub_written_blk, stub_freed_blk;
static struct ext2_inode_large vf_inode_disk;	/* the inode as stored (INODE_ARG 0) */

/* STUB: io_channel_read_blk64(): one block at IN.blk, content vf_disk; any other block number or IN.read_fails: EXT2_ET_SHORT_READ */
errcode_t io_channel_read_blk64(io_channel channel, unsigned long long block, int count, void *data)
{
	int i;
	(void) channel;
	stub_io_reads++;
	if (IN.read_fails || block != IN.blk || count != 1)
		return EXT2_ET_SHORT_READ;
	for (i = 0; i < BS; i++)
		((unsigned char *) data)[i] = vf_disk[i];
	return 0;
}
/* STUB: io_channel_write_blk64(): stores the block, records number and count of writes; IN.write_fails: EXT2_ET_SHORT_WRITE and nothing stored */
errcode_t io_channel_write_blk64(io_channel channel, unsigned long long block, int count, const void *data)
{
	int i;
	(void) channel;
	stub_io_writes++;
	stub_written_blk = block;
	if (IN.write_fails || block != IN.blk || count != 1)
		return EXT2_ET_SHORT_WRITE;
	for (i = 0; i < BS; i++)
		vf_disk[i] = ((const unsigned char *) data)[i];
	return 0;
}
/* STUB: ext2fs_ext_attr_block_csum_verify()/_set(): verification result symbolic (IN.csum_bad), set is a no-op (metadata_csum content: C14) */
int ext2fs_ext_attr_block_csum_verify(ext2_filsys fs, ext2_ino_t inum, blk64_t block, struct ext2_ext_attr_header *hdr)
{ (void) fs; (void) inum; (void) block; (void) hdr; return !IN.csum_bad; }
errcode_t ext2fs_ext_attr_block_csum_set(ext2_filsys fs, ext2_ino_t inum, blk64_t block, struct ext2_ext_attr_header *hdr)
{ (void) fs; (void) inum; (void) block; (void) hdr; return 0; }
/* STUB: ext2fs_block_alloc_stats2(): records releases (inuse = -1) and anything else */
void ext2fs_block_alloc_stats2(ext2_filsys fs, blk64_t blk, int inuse)
{
	(void) fs;
	if (inuse == -1) {
		stub_frees++;
		stub_freed_blk = blk;
	} else
		stub_other_stats++;
}
/* STUB: ext2fs_read_inode_full()/ext2fs_write_inode_full(): the stored inode vf_inode_disk, symbolic failures */
errcode_t ext2fs_read_inode_full(ext2_filsys fs, ext2_ino_t ino, struct ext2_inode *inode, int sz)
{
	(void) fs; (void) ino; (void) sz;
	stub_ireads++;
	if (IN.iread_fails)
		return EXT2_ET_BAD_INODE_NUM;
	*(struct ext2_inode_large *) inode = vf_inode_disk;
	return 0;
}
errcode_t ext2fs_write_inode_full(ext2_filsys fs, ext2_ino_t ino, struct ext2_inode *inode, int sz)
{
	(void) fs; (void) ino; (void) sz;
	stub_iwrites++;
	if (IN.iwrite_fails)
		return EXT2_ET_BAD_INODE_NUM;
	vf_inode_disk = *(struct ext2_inode_large *) inode;
	return 0;
}

static struct struct_ext2_filsys vf_fs;
static struct ext2_super_block vf_sb;

static unsigned int ref_le32(const unsigned char *p)
{
	return (unsigned int) p[0] | ((unsigned int) p[1] << 8) | ((unsigned int) p[2] << 16) | ((unsigned int) p[3] << 24);
}

int main(void)
{
	static struct ext2_inode_large ino_arg;
	struct ext2_inode_large *ip;
	unsigned int magic, oldref, hblocks;
	errcode_t rc;
	int i, same, in_range, header_ok;

	VF_INPUT(IN);
	for (i = 0; i < BS; i++)
		vf_disk[i] = IN.disk[i];
	magic = ref_le32(IN.disk);
	oldref = ref_le32(IN.disk + 4);
	hblocks = ref_le32(IN.disk + 8);
	/* ASSUME: a block that is in use has h_refcount >= 1 (0 on disk is corruption e2fsck repairs; the code would wrap it) */
	ASSUME(oldref >= 1);

	vf_sb.s_first_data_block = IN.first_data_block;
	vf_sb.s_blocks_count = IN.blocks_count;
	vf_sb.s_log_block_size = 0;
	vf_fs.super = &vf_sb;
	vf_fs.blocksize = BS * 16;	/* i_blocks unit: blocksize/512 = 2 sectors per fs block; the io stub moves BS bytes */
	/* ASSUME: no 64bit / huge_file / bigalloc feature: block numbers and i_blocks are 32-bit, cluster ratio 1 */

#if MODE == 1
	ino_arg.i_file_acl = IN.file_acl;
	ino_arg.i_blocks = IN.i_blocks;
	ino_arg.i_links_count = 1;
	vf_inode_disk = ino_arg;
	/* ASSUME: the inode accounts for its attribute block: i_blocks >= one fs block (else ext2fs_iblk_sub_blocks reports EOVERFLOW: e2fsck's business) */
	ASSUME(IN.i_blocks >= 2);
	/* the io stub is asked with the real block size: make it BS */
	vf_fs.blocksize = 1024;
	{
		/* ext2fs_free_ext_attr allocates fs->blocksize bytes and the stubs move BS <= blocksize bytes */
	}
#if INODE_ARG
	ip = &ino_arg;
	rc = ext2fs_free_ext_attr(&vf_fs, 12, ip);
#else
	ip = &vf_inode_disk;
	rc = ext2fs_free_ext_attr(&vf_fs, 12, 0);
#endif
	in_range = IN.file_acl >= IN.first_data_block && IN.file_acl < IN.blocks_count;
	header_ok = magic == EXT2_EXT_ATTR_MAGIC && hblocks == 1;
	same = 1;
	for (i = 0; i < BS; i++)
		if (vf_disk[i] != IN.disk[i])
			same = 0;

#if !INODE_ARG
	if (IN.iread_fails) {
		PROP(rc == EXT2_ET_BAD_INODE_NUM, "inode read failure is returned");
		PROP(stub_io_reads == 0 && stub_io_writes == 0 && stub_frees == 0 && stub_iwrites == 0, "nothing is touched when the inode cannot be read");
	} else
#endif
	if (IN.file_acl == 0) {
		PROP(rc == 0, "inode without attribute block: success");
		PROP(stub_io_reads == 0 && stub_io_writes == 0 && stub_frees == 0 && stub_iwrites == 0, "inode without attribute block: nothing touched");
		PROP(ip->i_blocks == IN.i_blocks, "inode without attribute block: i_blocks unchanged");
	} else if (!in_range) {
		PROP(rc == EXT2_ET_BAD_EA_BLOCK_NUM, "i_file_acl outside the filesystem: EXT2_ET_BAD_EA_BLOCK_NUM");
		PROP(stub_io_reads == 0 && stub_io_writes == 0 && stub_frees == 0 && stub_iwrites == 0, "out-of-range i_file_acl: nothing touched");
		PROP(ip->i_file_acl == IN.file_acl && ip->i_blocks == IN.i_blocks, "out-of-range i_file_acl: inode unchanged");
	} else if (IN.read_fails || IN.file_acl != IN.blk || !header_ok || IN.csum_bad) {
		PROP(rc != 0, "unreadable block, bad checksum or bad header is an error");
		if (!IN.read_fails && IN.file_acl == IN.blk && !header_ok && !IN.csum_bad)
			PROP(rc == EXT2_ET_BAD_EA_HEADER, "not a one-block v2 attribute header: EXT2_ET_BAD_EA_HEADER");
		PROP(stub_io_writes == 0 && stub_frees == 0 && stub_iwrites == 0, "on a read/header error nothing is written or freed");
		PROP(ip->i_file_acl == IN.file_acl && ip->i_blocks == IN.i_blocks, "on a read/header error the inode is unchanged");
	} else if (IN.write_fails) {
		PROP(rc == EXT2_ET_SHORT_WRITE, "write-back failure is returned");
		PROP(stub_frees == 0 && stub_iwrites == 0, "failed write-back: nothing freed, inode not written");
		PROP(ip->i_file_acl == IN.file_acl && ip->i_blocks == IN.i_blocks, "failed write-back: inode unchanged");
	} else {
		int body_same = 1;
		for (i = 0; i < BS; i++)
			if ((i < 4 || i >= 8) && vf_disk[i] != IN.disk[i])
				body_same = 0;
		PROP(stub_io_writes == 1 && stub_written_blk == IN.blk, "the block is written back exactly once, in place");
		PROP(ref_le32(vf_disk + 4) == oldref - 1, "on disk h_refcount = old - 1");
		PROP(body_same, "every other byte of the block is unchanged");
		if (oldref == 1) {
			PROP(stub_frees == 1 && stub_freed_blk == IN.blk, "last user gone: the block is released exactly once");
		} else
			PROP(stub_frees == 0, "still shared (old h_refcount > 1): the block is NOT released");
		PROP(stub_other_stats == 0, "no other allocation statistics change");
#if !INODE_ARG
		if (!IN.iwrite_fails)	/* ip = the stored inode: only updated by a successful inode write */
#endif
		{
			PROP(ip->i_file_acl == 0, "i_file_acl is cleared");
			PROP(ip->i_blocks == IN.i_blocks - 2, "i_blocks drops by one fs block (blocksize/512 sectors)");
		}
#if INODE_ARG
		PROP(rc == 0 && stub_iwrites == 0 && stub_ireads == 0, "caller's inode: success, no inode I/O");
#else
		PROP(stub_iwrites == 1, "NULL inode argument: the inode is written back once");
		PROP(rc == (IN.iwrite_fails ? EXT2_ET_BAD_INODE_NUM : 0), "result of the inode write-back is returned");
#endif
	}
	(void) same;
#else	/* MODE 2: ext2fs_adjust_ea_refcount3 */
	{
		__u32 newcount = 0xdeadbeef;
		int body_same = 1;
		(void) ip; (void) same; (void) in_range;
		vf_fs.blocksize = 1024;
		rc = ext2fs_adjust_ea_refcount3(&vf_fs, IN.arg_blk, 0, IN.adjust, &newcount, 12);
		header_ok = (magic == EXT2_EXT_ATTR_MAGIC || magic == EXT2_EXT_ATTR_MAGIC_v1) && hblocks == 1;
		if (IN.arg_blk >= IN.blocks_count || IN.arg_blk < IN.first_data_block) {
			PROP(rc == EXT2_ET_BAD_EA_BLOCK_NUM, "adjust: block outside the filesystem: EXT2_ET_BAD_EA_BLOCK_NUM");
			PROP(stub_io_reads == 0 && stub_io_writes == 0, "adjust: out-of-range block: no I/O");
		} else if (IN.read_fails || IN.arg_blk != IN.blk || !header_ok || IN.csum_bad) {
			PROP(rc != 0 && stub_io_writes == 0, "adjust: unreadable block / bad header / bad checksum: error, nothing written");
		} else {
			PROP(stub_io_writes == 1 && stub_written_blk == IN.blk, "adjust: written back once, in place");
			PROP(newcount == oldref + (unsigned int) IN.adjust, "adjust: new count = old + adjust is reported");
			if (!IN.write_fails) {
				for (i = 0; i < BS; i++)
					if ((i < 4 || i >= 8) && vf_disk[i] != IN.disk[i])
						body_same = 0;
				PROP(rc == 0, "adjust: success");
				PROP(ref_le32(vf_disk + 4) == oldref + (unsigned int) IN.adjust, "adjust: on disk h_refcount = old + adjust");
				PROP(body_same, "adjust: every other byte unchanged");
			} else
				PROP(rc == EXT2_ET_SHORT_WRITE, "adjust: write failure returned");
		}
		PROP(stub_frees == 0 && stub_other_stats == 0, "adjust never touches the bitmaps");
	}
#endif
	VF_END();
	return 0;
}
