/*
 * C15/xio: ext2fs_xattrs_write() and ext2fs_xattrs_read()/ext2fs_xattrs_read_inode()
 * as WHOLE steps over recording callees (assume-guarantee: the serialiser and
 * the parser are harnesses rt/readbuf, the block owner logic is prepblock, the
 * block I/O wrappers are freeattr/adjust; all are cut here).
 *
 * On-disk layout (Documentation/filesystems/ext4/attributes.rst, inodes.rst):
 *   inode = 128 "good old" bytes | i_extra_isize bytes of extra fields (the
 *   16-bit i_extra_isize itself is the first of them) | 4-byte magic 0xEA020000
 *   | in-inode attribute region up to the end of the inode.  Value offsets in
 *   that region count from its FIRST ENTRY.  The external block is a 32-byte
 *   header {magic, refcount, blocks, hash, checksum} followed by the region; value
 *   offsets count from the START OF THE BLOCK (32 before the first entry).
 *
 * MODE 1 (xwstep)  ext2fs_xattrs_write(handle):
 *   - i_extra_isize 0 on a large inode is initialised to s_want_extra_isize
 *     (or 4) and the new extra fields are zeroed; a misaligned one is
 *     EXT2_ET_INODE_CORRUPTED;
 *   - iff the inode has an in-inode region: magic stored, the first ibody_count
 *     attributes go to the serialiser with (start = behind the magic, size = rest
 *     of the inode, offset base 0, no hashes);
 *   - iff attributes remain or the inode has a block: the remaining attributes go
 *     to the serialiser with (start = block + 32, size = blocksize - 32, base 32,
 *     hashes), header = {v2 magic, refcount 1, blocks 1}, the block owner logic
 *     runs ONCE, the block is written ONCE to the i_file_acl it left, keyed by
 *     the inode number;
 *   - the inode is written exactly once, last, with the new body; after ANY
 *     failure it is not written at all and the error is returned.
 * MODE 2 (xread)  ext2fs_xattrs_read(handle) (-> ext2fs_xattrs_read_inode):
 *   - the handle is emptied first;
 *   - in-inode region parsed iff i_extra_isize leaves room AND the magic is there:
 *     parser(entries = behind the magic, size = rest of the inode, value base =
 *     entries); ibody_count = number of attributes found there;
 *   - block parsed iff i_file_acl != 0: must lie inside the filesystem
 *     (EXT2_ET_BAD_EA_BLOCK_NUM), be readable, have the v2 magic
 *     (EXT2_ET_BAD_EA_HEADER); parser(entries = block + 32, size = blocksize - 32,
 *     value base = block);
 *   - count = in-inode + block attributes; every error is returned.
 */
#include "config.h"
#include <stdio.h>
#include <string.h>
#include "ext2_fs.h"
#include "ext2_ext_attr.h"
#include "ext2fs.h"
#ifndef MODE
#define MODE 1
#endif
struct ext2_xattr;
#if MODE == 1
static errcode_t write_xattrs_to_buffer(ext2_filsys fs, struct ext2_xattr *attrs, int count,
					void *entries_start, unsigned int storage_size,
					unsigned int value_offset_correction, int write_hash);
static errcode_t prep_ea_block_for_write(ext2_filsys fs, ext2_ino_t ino, struct ext2_inode_large *inode);
#else
static errcode_t read_xattrs_from_buffer(struct ext2_xattr_handle *handle, struct ext2_inode_large *inode,
					 struct ext2_ext_attr_entry *entries, unsigned int storage_size,
					 char *value_start);
#endif
#include "lib/ext2fs/ext_attr.c"	/* cut_statics: see spec.py */
#include "env.c"

#ifndef MODE
#define MODE 1
#endif
#ifndef ISIZE
#define ISIZE 256	/* BOUND: inode size 128, 160 or 256 (compile-time) */
#endif
#define BLKSZ 1024	/* BOUND: block size 1024 */
#define INO 12

struct vf_in {
	unsigned char body[ISIZE];	/* the inode as stored: every byte symbolic (i_extra_isize any 16-bit value) */
	unsigned short want_extra;
	unsigned int first_data_block, blocks_count;
	unsigned char iread_fails, iwrite_fails, ser_fails[2], prep_fails, bwrite_fails, free_fails;
	unsigned int newblk, newiblocks;
	unsigned char count, ibody_count;
	/* read side */
	unsigned char hdr[32];
	unsigned char bread_fails, par_fails[2], par_n[2];
	unsigned int pre_count, pre_ibody;
};
VF_DECLARE_INPUT(struct vf_in, IN)
#include "vf_input.inc"

static int stub_seq;			/* order of the recorded calls */
static int stub_ireads, stub_iwrites, stub_iread_ok_args, stub_iwrite_args_ok, stub_iwrite_seq;
static unsigned char vf_out[ISIZE];

/* STUB: ext2fs_read_inode_full(): the stored inode IN.body (ISIZE bytes), symbolic failure; inode number and size recorded */
errcode_t ext2fs_read_inode_full(ext2_filsys fs, ext2_ino_t ino, struct ext2_inode *inode, int sz)
{
	int i;
	(void) fs;
	stub_ireads++;
	stub_iread_ok_args = (ino == INO && sz == ISIZE);
	if (IN.iread_fails)
		return EXT2_ET_BAD_INODE_NUM;
	for (i = 0; i < ISIZE; i++)
		((unsigned char *) inode)[i] = IN.body[i];
	return 0;
}
/* STUB: ext2fs_write_inode_full(): stores the ISIZE bytes written, symbolic failure; calls, arguments and position in the call order recorded */
errcode_t ext2fs_write_inode_full(ext2_filsys fs, ext2_ino_t ino, struct ext2_inode *inode, int sz)
{
	int i;
	(void) fs;
	stub_iwrites++;
	stub_iwrite_seq = ++stub_seq;
	stub_iwrite_args_ok = (ino == INO && sz == ISIZE);
	for (i = 0; i < ISIZE; i++)
		vf_out[i] = ((unsigned char *) inode)[i];
	return IN.iwrite_fails ? EXT2_ET_SHORT_WRITE : 0;
}
/* STUB: ext2fs_read_inode() (value-inode hash) unreachable: the serialiser is cut */
errcode_t ext2fs_read_inode(ext2_filsys fs, ext2_ino_t ino, struct ext2_inode *inode)
{ (void) fs; (void) ino; (void) inode; return EXT2_ET_BAD_INODE_NUM; }
/* STUB: checksum verify/set, allocator, bitmaps, file I/O: only reachable from the cut callees' originals; deterministic failures */
int ext2fs_ext_attr_block_csum_verify(ext2_filsys fs, ext2_ino_t inum, blk64_t block, struct ext2_ext_attr_header *hdr)
{ (void) fs; (void) inum; (void) block; (void) hdr; return 0; }
errcode_t ext2fs_ext_attr_block_csum_set(ext2_filsys fs, ext2_ino_t inum, blk64_t block, struct ext2_ext_attr_header *hdr)
{ (void) fs; (void) inum; (void) block; (void) hdr; return EXT2_ET_SHORT_WRITE; }
blk64_t ext2fs_find_inode_goal(ext2_filsys fs, ext2_ino_t ino, struct ext2_inode *inode, blk64_t lblk)
{ (void) fs; (void) ino; (void) inode; (void) lblk; return 0; }
errcode_t ext2fs_alloc_block2(ext2_filsys fs, blk64_t goal, char *block_buf, blk64_t *ret)
{ (void) fs; (void) goal; (void) block_buf; (void) ret; return EXT2_ET_BLOCK_ALLOC_FAIL; }
void ext2fs_block_alloc_stats2(ext2_filsys fs, blk64_t blk, int inuse) { (void) fs; (void) blk; (void) inuse; }
errcode_t io_channel_read_blk64(io_channel channel, unsigned long long block, int count, void *data)
{ (void) channel; (void) block; (void) count; (void) data; return EXT2_ET_SHORT_READ; }
errcode_t io_channel_write_blk64(io_channel channel, unsigned long long block, int count, const void *data)
{ (void) channel; (void) block; (void) count; (void) data; return EXT2_ET_SHORT_WRITE; }

static struct struct_ext2_filsys vf_fs;
static struct ext2_super_block vf_sb;
static struct ext2_xattr_handle vf_h;
static struct ext2_xattr vf_at[4];

static unsigned int ref_le16(const unsigned char *p) { return (unsigned int) p[0] | ((unsigned int) p[1] << 8); }
static unsigned int ref_le32(const unsigned char *p)
{
	return (unsigned int) p[0] | ((unsigned int) p[1] << 8) | ((unsigned int) p[2] << 16) | ((unsigned int) p[3] << 24);
}
#define OFF_I_BLOCKS 28
#define OFF_FILE_ACL 104
#define XMAGIC 0xEA020000u

#if MODE == 1
/* ---------------- write side ---------------- */
/* STUB: write_xattrs_to_buffer() (cut; verified by harness rt): records its arguments per kind of call (write_hash 0 = in-inode, 1 = block), marks the first byte of the storage, fails with EXT2_ET_BAD_INODE_NUM on IN.ser_fails[kind] */
static int stub_ser_calls[2], stub_ser_count[2], stub_ser_seq[2];
static unsigned int stub_ser_size[2], stub_ser_corr[2];
static struct ext2_xattr *stub_ser_attrs[2];
static unsigned char *stub_ser_start[2];
static errcode_t write_xattrs_to_buffer(ext2_filsys fs, struct ext2_xattr *attrs, int count,
					void *entries_start, unsigned int storage_size,
					unsigned int value_offset_correction, int write_hash)
{
	int k = write_hash ? 1 : 0;
	(void) fs;
	stub_ser_calls[k]++;
	stub_ser_seq[k] = ++stub_seq;
	stub_ser_attrs[k] = attrs;
	stub_ser_count[k] = count;
	stub_ser_start[k] = (unsigned char *) entries_start;
	stub_ser_size[k] = storage_size;
	stub_ser_corr[k] = value_offset_correction;
	if (storage_size)
		*(unsigned char *) entries_start = (unsigned char) (0xA5 + k);
	if (IN.ser_fails[k])
		return EXT2_ET_BAD_INODE_NUM;
	return 0;
}
/* STUB: prep_ea_block_for_write() (cut; verified by harness prepblock): records the call; fails (EXT2_ET_BLOCK_ALLOC_FAIL) or leaves the symbolic block IN.newblk / IN.newiblocks in the caller's inode */
static int stub_prep_calls, stub_prep_seq, stub_prep_args_ok;
static struct ext2_inode_large *stub_prep_inode;
static errcode_t prep_ea_block_for_write(ext2_filsys fs, ext2_ino_t ino, struct ext2_inode_large *inode)
{
	stub_prep_calls++;
	stub_prep_seq = ++stub_seq;
	stub_prep_args_ok = (fs == &vf_fs && ino == INO);
	stub_prep_inode = inode;
	if (IN.prep_fails)
		return EXT2_ET_BLOCK_ALLOC_FAIL;
	inode->i_file_acl = IN.newblk;
	inode->i_blocks = IN.newiblocks;
	return 0;
}
/* STUB: ext2fs_write_ext_attr3() (cut; verified by harnesses freeattr/prepblock): records block number, owner inode, the buffer and its three header words */
static int stub_bw_calls, stub_bw_seq;
static unsigned long long stub_bw_blk;
static ext2_ino_t stub_bw_inum;
static unsigned char *stub_bw_buf;
static unsigned int stub_bw_magic, stub_bw_ref, stub_bw_blocks;
errcode_t ext2fs_write_ext_attr3(ext2_filsys fs, blk64_t block, void *inbuf, ext2_ino_t inum)
{
	struct ext2_ext_attr_header *h = (struct ext2_ext_attr_header *) inbuf;
	(void) fs;
	stub_bw_calls++;
	stub_bw_seq = ++stub_seq;
	stub_bw_blk = block;
	stub_bw_inum = inum;
	stub_bw_buf = (unsigned char *) inbuf;
	stub_bw_magic = h->h_magic;
	stub_bw_ref = h->h_refcount;
	stub_bw_blocks = h->h_blocks;
	return IN.bwrite_fails ? EXT2_ET_SHORT_WRITE : 0;
}
/* STUB: ext2fs_free_ext_attr() (cut; verified by harness freeattr): counts calls */
static int stub_free_calls;
errcode_t ext2fs_free_ext_attr(ext2_filsys fs, ext2_ino_t ino, struct ext2_inode_large *inode)
{
	(void) fs; (void) ino; (void) inode;
	stub_free_calls++;
	return IN.free_fails ? EXT2_ET_SHORT_WRITE : 0;
}

int main(void)
{
	unsigned int extra0, eff, file_acl;
	int has_region, need_block, mis;
	int exp_ser0, exp_ser1, exp_prep, exp_bw, exp_iw;
	errcode_t rc, exp_rc;
	int p;

	VF_INPUT(IN);
	/* BOUND: at most 3 attributes in the handle (they are only handed on) */
	ASSUME(IN.count <= 3 && IN.ibody_count <= IN.count);
#if ISIZE > 128
	extra0 = ref_le16(IN.body + 128);
	/* ASSUME: s_want_extra_isize does not exceed the room behind the good-old inode (e2fsck's superblock check; the library zeroes that many bytes unchecked: see OUTSIDE) */
	ASSUME(IN.want_extra <= ISIZE - 128);
	eff = extra0 ? extra0 : (IN.want_extra ? IN.want_extra : 4);
#else
	extra0 = 0;
	eff = 0;
#endif
	/* OUTSIDE: s_want_extra_isize larger than inode size - 128 with i_extra_isize == 0 (memset of s_want_extra_isize bytes into the inode buffer) */
	mis = (eff & 3) != 0;
	has_region = ISIZE > 128 && eff >= 2 && (unsigned int) ISIZE > 128 + eff + 4;
	/* ASSUME: the handle is consistent with the inode: without an in-inode region no attribute is placed there (ext2fs_xattr_set passes ibody_free <= 0 then: harness set) */
	ASSUME(has_region || IN.ibody_count == 0);
	file_acl = ref_le32(IN.body + OFF_FILE_ACL);
	need_block = IN.ibody_count != IN.count || file_acl != 0;

	vf_sb.s_rev_level = 1;
	vf_sb.s_inode_size = ISIZE;
	vf_sb.s_want_extra_isize = IN.want_extra;
	vf_sb.s_first_data_block = IN.first_data_block;
	vf_sb.s_blocks_count = IN.blocks_count;
	vf_sb.s_feature_compat = EXT2_FEATURE_COMPAT_EXT_ATTR;
	vf_fs.super = &vf_sb;
	vf_fs.blocksize = BLKSZ;
	/* ASSUME: no 64bit feature (i_file_acl is 32 bits) */
	vf_h.magic = EXT2_ET_MAGIC_EA_HANDLE;
	vf_h.fs = &vf_fs;
	vf_h.attrs = vf_at;
	vf_h.capacity = 4;
	vf_h.ino = INO;
	vf_h.count = IN.count;
	vf_h.ibody_count = IN.ibody_count;

	rc = ext2fs_xattrs_write(&vf_h);

	/* the model of the step */
	exp_ser0 = exp_ser1 = exp_prep = exp_bw = exp_iw = 0;
	exp_rc = 0;
	if (IN.iread_fails)
		exp_rc = EXT2_ET_BAD_INODE_NUM;
	else if (mis)
		exp_rc = EXT2_ET_INODE_CORRUPTED;
	else {
		if (has_region) {
			exp_ser0 = 1;
			if (IN.ser_fails[0])
				exp_rc = EXT2_ET_BAD_INODE_NUM;
		}
		if (!exp_rc && need_block) {
			exp_ser1 = 1;
			if (IN.ser_fails[1])
				exp_rc = EXT2_ET_BAD_INODE_NUM;
			else {
				exp_prep = 1;
				if (IN.prep_fails)
					exp_rc = EXT2_ET_BLOCK_ALLOC_FAIL;
				else {
					exp_bw = 1;
					if (IN.bwrite_fails)
						exp_rc = EXT2_ET_SHORT_WRITE;
				}
			}
		}
		if (!exp_rc) {
			exp_iw = 1;
			if (IN.iwrite_fails)
				exp_rc = EXT2_ET_SHORT_WRITE;
		}
	}

	PROP(stub_ireads == 1 && stub_iread_ok_args, "the inode is read once, whole, by its number");
	PROP(rc == exp_rc, "result: first failure on the way (unreadable inode, misaligned i_extra_isize, serialiser, block preparation, block write, inode write) or 0");
	PROP(stub_ser_calls[0] == exp_ser0, "in-inode serialiser runs iff the inode has an in-inode region");
	PROP(stub_ser_calls[1] == exp_ser1, "block serialiser runs iff attributes remain for the block or the inode already has a block");
	PROP(stub_prep_calls == exp_prep, "block ownership is prepared exactly once, only after both regions serialised");
	PROP(stub_bw_calls == exp_bw, "the attribute block is written exactly once, only after a successful preparation");
	PROP(stub_iwrites == exp_iw, "the inode is written exactly once iff every earlier step succeeded; after a failure it is NOT written");
	PROP(stub_free_calls == 0, "no attribute block is released by writing the list (see OUTSIDE of prepblock: an empty block is kept)");
	PROP(vf_h.count == IN.count && vf_h.ibody_count == IN.ibody_count, "writing does not change the list bookkeeping (count, ibody_count)");

	if (exp_ser0) {
		PROP(stub_ser_attrs[0] == vf_at && stub_ser_count[0] == IN.ibody_count,
		     "in-inode region receives the first ibody_count attributes");
		PROP(stub_ser_size[0] == ISIZE - 128 - eff - 4 && stub_ser_corr[0] == 0,
		     "in-inode region: everything behind extra fields and magic; value offsets relative to the first entry");
	}
	if (exp_ser1) {
		PROP(stub_ser_attrs[1] == vf_at + IN.ibody_count && stub_ser_count[1] == IN.count - IN.ibody_count,
		     "block region receives exactly the remaining attributes");
		PROP(stub_ser_size[1] == BLKSZ - 32 && stub_ser_corr[1] == 32,
		     "block region: block minus 32-byte header; value offsets relative to the start of the block");
		if (exp_ser0)
			PROP(stub_ser_seq[0] < stub_ser_seq[1], "in-inode region is serialised first");
	}
	if (exp_prep)
		PROP(stub_prep_args_ok && stub_prep_seq > stub_ser_seq[1], "block preparation gets this inode, after serialising");
	if (exp_bw) {
		PROP(stub_bw_seq > stub_prep_seq, "block written after its preparation");
		PROP(stub_bw_blk == IN.newblk, "block is written to the i_file_acl the preparation left in the inode");
		PROP(stub_bw_inum == INO, "block write is keyed by the owning inode (checksum)");
		PROP(stub_bw_buf + 32 == stub_ser_start[1], "the block written is the one serialised: region starts 32 bytes in");
		PROP(stub_bw_magic == XMAGIC && stub_bw_ref == 1 && stub_bw_blocks == 1, "block header: v2 magic, h_refcount 1, h_blocks 1");
	}
	if (exp_iw) {
		int ok_old = 1, ok_extra = 1, ok_magic = 1, ok_region = 1;
		PROP(stub_iwrite_args_ok, "inode written by its number, whole");
		PROP(stub_iwrite_seq == stub_seq, "the inode write is the last step");
		for (p = 0; p < 128; p++) {
			unsigned char e = IN.body[p];
			if (exp_prep && p >= OFF_I_BLOCKS && p < OFF_I_BLOCKS + 4)
				e = (unsigned char) (IN.newiblocks >> (8 * (p - OFF_I_BLOCKS)));
			if (exp_prep && p >= OFF_FILE_ACL && p < OFF_FILE_ACL + 4)
				e = (unsigned char) (IN.newblk >> (8 * (p - OFF_FILE_ACL)));
			if (vf_out[p] != e)
				ok_old = 0;
		}
		PROP(ok_old, "good-old part of the inode: unchanged except i_file_acl / i_blocks as left by the block preparation");
		for (p = 128; p < ISIZE; p++) {
			unsigned int q = (unsigned int) p - 128;
			if (q < eff) {
				unsigned char e = IN.body[p];
				if (extra0 == 0)
					e = q == 0 ? (unsigned char) eff : q == 1 ? (unsigned char) (eff >> 8) : 0;
				if (vf_out[p] != e)
					ok_extra = 0;
			} else if (has_region && q < eff + 4) {
				static const unsigned char m[4] = { 0x00, 0x00, 0x02, 0xEA };
				unsigned int j = q - eff;
				if (vf_out[p] != (j == 0 ? m[0] : j == 1 ? m[1] : j == 2 ? m[2] : m[3]))
					ok_magic = 0;
			} else if (has_region && q == eff + 4) {
				if (vf_out[p] != 0xA5)
					ok_region = 0;
			} else if (vf_out[p] != IN.body[p])
				ok_region = 0;
		}
		PROP(ok_extra, "extra fields: kept; a missing i_extra_isize is set to s_want_extra_isize (or 4) with the new fields zeroed");
		PROP(ok_magic, "in-inode magic 0xEA020000 stored right behind the extra fields");
		PROP(ok_region, "the region handed to the serialiser starts right behind the magic; nothing else in the inode changes");
	}
	VF_END();
	return 0;
}

#else
/* ---------------- read side ---------------- */
/* STUB: read_xattrs_from_buffer() (cut; verified by harnesses readbuf/rt): records arguments of its first and second call, appends IN.par_n[call] (0..2) attributes to the handle's count like the real parser, fails with EXT2_ET_EA_BAD_NAME_LEN on IN.par_fails[call] */
static int stub_par_calls;
static struct ext2_inode_large *stub_par_inode[2];
static unsigned char *stub_par_entries[2], *stub_par_vstart[2];
static unsigned int stub_par_size[2];
static int stub_par_count_in[2];
static unsigned char *stub_inode_buf;
static errcode_t read_xattrs_from_buffer(struct ext2_xattr_handle *handle, struct ext2_inode_large *inode,
					 struct ext2_ext_attr_entry *entries, unsigned int storage_size,
					 char *value_start)
{
	int fails, n;
	if (stub_par_calls == 0) {
		stub_par_inode[0] = inode; stub_par_entries[0] = (unsigned char *) entries;
		stub_par_vstart[0] = (unsigned char *) value_start; stub_par_size[0] = storage_size;
		stub_par_count_in[0] = handle->count;
		fails = IN.par_fails[0]; n = IN.par_n[0];
	} else {
		stub_par_inode[1] = inode; stub_par_entries[1] = (unsigned char *) entries;
		stub_par_vstart[1] = (unsigned char *) value_start; stub_par_size[1] = storage_size;
		stub_par_count_in[1] = handle->count;
		fails = IN.par_fails[1]; n = IN.par_n[1];
	}
	stub_par_calls++;
	if (fails)
		return EXT2_ET_EA_BAD_NAME_LEN;
	handle->count += n;
	return 0;
}
/* STUB: ext2fs_read_ext_attr3() (cut; verified by harness freeattr): records block, owner inode, buffer; delivers the symbolic 32-byte header IN.hdr or fails (EXT2_ET_SHORT_READ) */
static int stub_br_calls;
static unsigned long long stub_br_blk;
static ext2_ino_t stub_br_inum;
static unsigned char *stub_br_buf;
errcode_t ext2fs_read_ext_attr3(ext2_filsys fs, blk64_t block, void *buf, ext2_ino_t inum)
{
	int i;
	(void) fs;
	stub_br_calls++;
	stub_br_blk = block;
	stub_br_inum = inum;
	stub_br_buf = (unsigned char *) buf;
	if (IN.bread_fails)
		return EXT2_ET_SHORT_READ;
	for (i = 0; i < 32; i++)
		((unsigned char *) buf)[i] = IN.hdr[i];
	return 0;
}

int main(void)
{
	unsigned int extra, file_acl, n0, n1;
	int room, mis, magic_ok, in_range;
	int exp_par0, exp_blk, exp_br, exp_par1;
	errcode_t rc, exp_rc;

	VF_INPUT(IN);
	/* BOUND: the (cut) parser reports 0..2 attributes per region */
	ASSUME(IN.par_n[0] <= 2 && IN.par_n[1] <= 2);
	/* ASSUME: the handle holds no attribute storage before the read (xattrs_free_keys frees names/values: plain free(), not modelled); its counters are arbitrary */
#if ISIZE > 128
	extra = ref_le16(IN.body + 128);
#else
	extra = 0;
#endif
	room = ISIZE > 128 && extra >= 2 && (unsigned int) ISIZE > 128 + extra + 4;
	mis = (extra & 3) != 0;
	magic_ok = 0;
#if ISIZE > 128
	{
		int p;
		unsigned int m = 0;
		for (p = 128; p < ISIZE; p++) {
			unsigned int q = (unsigned int) p - 128;
			if (q >= extra && q < extra + 4)
				m |= (unsigned int) IN.body[p] << (8 * (q - extra));
		}
		magic_ok = room && m == XMAGIC;
	}
#endif
	file_acl = ref_le32(IN.body + OFF_FILE_ACL);
	in_range = file_acl >= IN.first_data_block && file_acl < IN.blocks_count;

	vf_sb.s_rev_level = 1;
	vf_sb.s_inode_size = ISIZE;
	vf_sb.s_first_data_block = IN.first_data_block;
	vf_sb.s_blocks_count = IN.blocks_count;
	vf_sb.s_feature_compat = EXT2_FEATURE_COMPAT_EXT_ATTR;
	vf_fs.super = &vf_sb;
	vf_fs.blocksize = BLKSZ;
	/* ASSUME: no 64bit feature (i_file_acl and s_blocks_count are 32 bits) */
	vf_h.magic = EXT2_ET_MAGIC_EA_HANDLE;
	vf_h.fs = &vf_fs;
	vf_h.attrs = vf_at;
	vf_h.capacity = 4;
	vf_h.ino = INO;
	vf_h.count = IN.pre_count;
	vf_h.ibody_count = IN.pre_ibody;

	rc = ext2fs_xattrs_read(&vf_h);

	exp_par0 = exp_blk = exp_br = exp_par1 = 0;
	exp_rc = 0;
	n0 = n1 = 0;
	if (IN.iread_fails)
		exp_rc = EXT2_ET_BAD_INODE_NUM;
	else {
		if (room && mis)
			exp_rc = EXT2_ET_INODE_CORRUPTED;
		else if (magic_ok) {
			exp_par0 = 1;
			if (IN.par_fails[0])
				exp_rc = EXT2_ET_EA_BAD_NAME_LEN;
			else
				n0 = IN.par_n[0];
		}
		if (!exp_rc && file_acl != 0) {
			exp_blk = 1;
			if (!in_range)
				exp_rc = EXT2_ET_BAD_EA_BLOCK_NUM;
			else {
				exp_br = 1;
				if (IN.bread_fails)
					exp_rc = EXT2_ET_SHORT_READ;
				else if (ref_le32(IN.hdr) != XMAGIC)
					exp_rc = EXT2_ET_BAD_EA_HEADER;
				else {
					exp_par1 = 1;	/* the stub numbers its calls: the block is call 1 iff the inode body was parsed */
					if (exp_par0 ? IN.par_fails[1] : IN.par_fails[0])
						exp_rc = EXT2_ET_EA_BAD_NAME_LEN;
					else
						n1 = exp_par0 ? IN.par_n[1] : IN.par_n[0];
				}
			}
		}
	}

	PROP(stub_ireads == 1 && stub_iread_ok_args, "the inode is read once, whole, by its number");
	PROP(stub_iwrites == 0, "reading writes nothing");
	PROP(rc == exp_rc, "result: unreadable inode, misaligned i_extra_isize, parser error, block number outside the filesystem, unreadable block, non-v2 magic, or 0");
	PROP(stub_par_calls == exp_par0 + exp_par1, "parser runs once per region present (in-inode region needs room and the magic; block needs i_file_acl != 0 and a v2 header)");
	PROP(stub_br_calls == exp_br, "the block is read iff i_file_acl is non-zero and inside the filesystem");
	if (exp_par0) {
		unsigned char *ib = (unsigned char *) stub_par_inode[0];
		PROP(stub_par_count_in[0] == 0, "the handle is emptied before parsing");
		PROP(stub_par_entries[0] == ib + 128 + extra + 4, "in-inode entries start behind extra fields and magic");
		PROP(stub_par_size[0] == ISIZE - 128 - extra - 4, "in-inode region extends to the end of the inode");
		PROP(stub_par_vstart[0] == stub_par_entries[0], "in-inode value offsets are relative to the first entry");
	}
	if (exp_br)
		PROP(stub_br_blk == file_acl && stub_br_inum == INO, "block read: i_file_acl, keyed by the owning inode");
	if (exp_par1) {
		int s = exp_par0 ? 1 : 0;
		PROP(stub_par_entries[s] == stub_br_buf + 32, "block entries start behind the 32-byte header");
		PROP(stub_par_size[s] == BLKSZ - 32, "block region is the block minus its header");
		PROP(stub_par_vstart[s] == stub_br_buf, "block value offsets are relative to the start of the block");
		PROP(stub_par_count_in[s] == (int) n0, "block attributes are appended behind the in-inode ones");
	}
	if (rc == 0) {
		PROP(vf_h.count == (int) (n0 + n1), "count = attributes of both regions");
		PROP(vf_h.ibody_count == (int) n0, "ibody_count = attributes found in the inode body");
	}
	VF_END();
	return 0;
}
#endif
