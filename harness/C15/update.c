/*
 * C15/update: the in-memory edit of the attribute list, ONE step from an
 * arbitrary valid handle (pattern I).
 *
 * Pre-state: handle with N attributes (symbolic name index / short name / value),
 * the first ibody_count of them in the inode body, the rest in the block and
 * sorted as the kernel requires; both parts fit their capacity.
 * Operation: xattr_array_update(h, name, value, len, ibody_free, block_free,
 * old_idx, in_inode = 0) with the free-space numbers computed the way
 * ext2fs_xattr_set computes them (capacity - space used by that part).
 * Post: list == list[name -> value] as a map; attributes that were not named keep
 * their part; the edited one lands in the inode body iff it fits there, else in
 * the block iff it fits there, else EXT2_ET_EA_NO_SPACE and nothing changed;
 * afterwards each part fits its capacity again (this is the precondition the
 * serialiser relies on: harness "rt") and the block part is still sorted.
 */
#include <string.h>
static void *stub_memmove(void *dst, const void *src, size_t n);
#define memmove stub_memmove
#include "lib/ext2fs/ext_attr.c"
#undef memmove
/* STUB: memmove() (only used by ext_attr.c to shift elements of the attribute array) copies whole array elements through a temporary, at most 3 of them; CBMC's built-in variable-length memmove model costs 10M variables here, a byte loop turns the pointers inside the elements into integers */
static int stub_memmove_bad;
static void *stub_memmove(void *dst, const void *src, size_t n)
{
	struct ext2_xattr tmp[3];
	const struct ext2_xattr *s = src;
	struct ext2_xattr *d = dst;
	size_t i, k = n / sizeof(struct ext2_xattr);
	if (n % sizeof(struct ext2_xattr) || k > 3)
		stub_memmove_bad = 1;
	for (i = 0; i < 3; i++)
		if (i < k)
			tmp[i] = s[i];
	for (i = 0; i < 3; i++)
		if (i < k)
			d[i] = tmp[i];
	return dst;
}
#include "env.c"

#ifndef N
#define N 2			/* attributes before the operation */
#endif
#ifndef PFX
#define PFX 1			/* namespace of the edited name: 0 none, 1 "user.", 7 "system." */
#endif
#ifndef NM
#define NM 3
#endif
#ifndef VM
#define VM 8
#endif
#define KMAX 4
#ifndef IBC
#define IBC 1
#endif
#ifndef OLD
#define OLD (-1)
#endif
#include "xa_common.h"

#if PFX == 1
#define PFX_STR "user."
#elif PFX == 7
#define PFX_STR "system."
#elif PFX == 4
#define PFX_STR "trusted."
#else
#define PFX_STR ""
#endif
#define PFX_LEN ((int) sizeof(PFX_STR) - 1)
#define CAPMAX 96

struct vf_in {
	struct vf_attr a[N + 1];	/* pre-state list (a[N] unused) */
	struct vf_attr nw;		/* the attribute to set */
	unsigned char icap, bcap;	/* bytes available to entries+values of each part (terminator already deducted) */
};
VF_DECLARE_INPUT(struct vf_in, IN)
#include "vf_input.inc"

#ifndef EAMASK
#define EAMASK 0	/* bit i set: pre-state attribute i keeps its value in an EA inode (compile-time) */
#endif
/* STUB: ext2fs_read_inode_full()/ext2fs_write_inode_full() serve xattr_inode_dec_ref(): the EA inode read has reference count 2 (so dropping one reference does not free it: freeing needs punch/bitmaps, outside), the write is recorded (inode number, new reference count) */
static int stub_ino_reads, stub_ino_writes;
static ext2_ino_t stub_ino_written;
static __u64 stub_ref_written;
errcode_t ext2fs_read_inode_full(ext2_filsys fs, ext2_ino_t ino, struct ext2_inode *inode, int sz)
{
	static const struct ext2_inode_large zero;
	struct ext2_inode_large *l = (struct ext2_inode_large *) inode;
	(void) fs; (void) ino; (void) sz;
	stub_ino_reads++;
	*l = zero;
	l->i_flags = EXT4_EA_INODE_FL;
	l->i_links_count = 1;
	ext2fs_set_ea_inode_ref((struct ext2_inode *) l, 2);
	return 0;
}
errcode_t ext2fs_write_inode_full(ext2_filsys fs, ext2_ino_t ino, struct ext2_inode *inode, int sz)
{
	(void) fs; (void) sz;
	stub_ino_writes++;
	stub_ino_written = ino;
	stub_ref_written = ext2fs_get_ea_inode_ref(inode);
	return 0;
}
/* STUB: ext2fs_read_inode()/ext2fs_new_inode() (creating an EA inode) not reachable with in_inode = 0: fail */
errcode_t ext2fs_read_inode(ext2_filsys fs, ext2_ino_t ino, struct ext2_inode *inode)
{ (void) fs; (void) ino; (void) inode; return EXT2_ET_BAD_INODE_NUM; }
errcode_t ext2fs_new_inode(ext2_filsys fs, ext2_ino_t dir, int mode, ext2fs_inode_bitmap map, ext2_ino_t *ret)
{ (void) fs; (void) dir; (void) mode; (void) map; (void) ret; return EXT2_ET_INODE_ALLOC_FAIL; }

static struct struct_ext2_filsys vf_fs;
static struct ext2_super_block vf_sb;
static struct vf_attr P[KMAX];		/* decoded post-state */
static char vf_name[16];

static int ref_space(const struct vf_attr *a, int from, int to, int skip)
{
	int i, t = 0;
	for (i = 0; i < KMAX; i++)
		if (i >= from && i < to && i != skip)
			t += ref_space1(&a[i]);
	return t;
}

static void vf_decode(struct ext2_xattr_handle *h)
{
	int j, b;
	for (j = 0; j < KMAX; j++) {
		struct ext2_xattr *x = &h->attrs[j];
		static const struct vf_attr zero;
		P[j] = zero;
		if (j >= h->count)
			continue;
		P[j].idx = (unsigned char) x->name_index;
		P[j].vlen = (unsigned char) x->value_len;
		P[j].ea_ino = x->ea_ino;
		P[j].nlen = 0;
		for (b = 0; b < NM; b++) {
			if (b == P[j].nlen && x->short_name[b] != 0) {
				P[j].name[b] = (unsigned char) x->short_name[b];
				P[j].nlen = b + 1;
			}
		}
		for (b = 0; b < VM; b++)
			if (b < P[j].vlen)
				P[j].val[b] = ((unsigned char *) x->value)[b];
	}
}

static int ref_same_val(const struct vf_attr *a, const struct vf_attr *b)
{
	int i;
	if (a->vlen != b->vlen || a->ea_ino != b->ea_ino)
		return 0;
	for (i = 0; i < VM; i++)
		if (i < a->vlen && a->val[i] != b->val[i])
			return 0;
	return 1;
}

int main(void)
{
	struct ext2_xattr_handle *h = 0;
	errcode_t rc;
	int i, j, b, old, ibc, needed, isp, bsp, fits_i, fits_b, cnt2, ibc2;
	unsigned char value[VM + 1];

	VF_INPUT(IN);
	/* BOUND: ibody_count IBC in 0..N and old_idx OLD in -1..N-1 are compile-time, one query per pair */
	ibc = IBC;
	old = OLD;
	IN.nw.ea_ino = 0;	/* the new value is stored in-line (in_inode = 0) */
	for (i = 0; i < N; i++) {
		if ((EAMASK >> i) & 1)
			ASSUME(IN.a[i].ea_ino != 0);	/* value of attribute i lives in an EA inode: it occupies only entry + name in its part */
		else
			IN.a[i].ea_ino = 0;
	}
	/* BOUND: capacities up to CAPMAX bytes per part */
	ASSUME(IN.icap <= CAPMAX && IN.bcap <= CAPMAX);
	ASSUME(ref_attr_ok(&IN.nw));
	for (i = 0; i < N; i++) {
		ASSUME(ref_attr_ok(&IN.a[i]));
		for (j = 0; j < N; j++)
			if (j < i)
				ASSUME(!ref_same_key(&IN.a[i], &IN.a[j]));		/* Inv: names are unique */
		if (i + 1 < N && i >= ibc)
			ASSUME(ref_key_cmp(&IN.a[i], &IN.a[i + 1]) < 0);		/* Inv: block part sorted */
	}
	/* Inv: each part fits its capacity */
	ASSUME(ref_space(IN.a, 0, ibc, -1) <= IN.icap);
	ASSUME(ref_space(IN.a, ibc, N, -1) <= IN.bcap);
	/* ASSUME: caller contract (ext2fs_xattr_set): old_idx is the index of the entry with the same full name, or -1 if there is none */
	ASSUME(IN.nw.idx == PFX);
	for (i = 0; i < N; i++) {
		if (i == old)
			ASSUME(ref_same_key(&IN.a[i], &IN.nw));
		else
			ASSUME(!ref_same_key(&IN.a[i], &IN.nw));
	}

	vf_sb.s_feature_compat = EXT2_FEATURE_COMPAT_EXT_ATTR;
	vf_fs.super = &vf_sb;
	vf_fs.blocksize = 1024;
	rc = ext2fs_xattrs_open(&vf_fs, 12, &h);
	ASSUME(rc == 0 && h != 0);
	for (i = 0; i < N; i++) {
		struct ext2_xattr *x = &h->attrs[i];
		char *nm = malloc(NM + 1);
		unsigned char *vv = malloc(VM);
		for (b = 0; b < NM + 1; b++)
			nm[b] = b < IN.a[i].nlen ? (char) IN.a[i].name[b] : 0;
		for (b = 0; b < VM; b++)
			vv[b] = IN.a[i].val[b];
		/* ASSUME: x->name (full name) is represented by the short name alone: xattr_array_update never reads its content */
		x->name = nm;
		x->short_name = nm;
		x->name_index = IN.a[i].idx;
		x->value = vv;
		x->value_len = IN.a[i].vlen;
		x->ea_ino = IN.a[i].ea_ino;
	}
	h->count = N;
	h->ibody_count = ibc;

	for (b = 0; b < PFX_LEN; b++)
		vf_name[b] = PFX_STR[b];
	for (b = 0; b < NM + 1; b++)
		vf_name[PFX_LEN + b] = b < IN.nw.nlen ? (char) IN.nw.name[b] : 0;
	for (b = 0; b < VM; b++)
		value[b] = IN.nw.val[b];

	/* free space exactly as ext2fs_xattr_set computes it */
	isp = ref_space(IN.a, 0, ibc, -1);
	bsp = ref_space(IN.a, ibc, N, -1);
	rc = xattr_array_update(h, vf_name, value, IN.nw.vlen, IN.icap - isp, IN.bcap - bsp, old, 0);

	needed = ref_space1(&IN.nw);
	fits_i = needed <= IN.icap - ref_space(IN.a, 0, ibc, old);
	fits_b = needed <= IN.bcap - ref_space(IN.a, ibc, N, old);
	vf_decode(h);
	cnt2 = h->count;
	ibc2 = h->ibody_count;

	if (!fits_i && !fits_b) {
		PROP(rc == EXT2_ET_EA_NO_SPACE, "no room in either part: EXT2_ET_EA_NO_SPACE");
		PROP(cnt2 == N && ibc2 == ibc, "failed update leaves the counts unchanged");
		for (i = 0; i < N; i++)
			PROP(ref_same_key(&P[i], &IN.a[i]) && ref_same_val(&P[i], &IN.a[i]),
			     "failed update leaves every attribute unchanged");
	} else {
		int found_new = 0;
		PROP(rc == 0, "update succeeds when the attribute fits one of the parts");
		PROP(cnt2 == N + (old < 0 ? 1 : 0), "count grows by one for a new name only");
		PROP(ibc2 >= 0 && ibc2 <= cnt2, "ibody_count within count");
		for (j = 0; j < KMAX; j++) {
			if (j < cnt2 && ref_same_key(&P[j], &IN.nw)) {
				found_new++;
				PROP(ref_same_val(&P[j], &IN.nw), "the named attribute now has the new value");
				PROP((j < ibc2) == (fits_i != 0), "edited attribute lives in the inode body iff it fits there");
				PROP(h->attrs[j].ea_ino == 0 && h->attrs[j].name != 0 && h->attrs[j].value != 0,
				     "edited attribute has name and in-line value");
			}
		}
		PROP(found_new == 1, "the named attribute is present exactly once");
		for (i = 0; i < N; i++) {
			int found = 0;
			if (i == old)
				continue;
			for (j = 0; j < KMAX; j++) {
				if (j < cnt2 && ref_same_key(&P[j], &IN.a[i])) {
					found++;
					PROP(ref_same_val(&P[j], &IN.a[i]), "other attributes keep their value");
					PROP((j < ibc2) == (i < ibc), "other attributes keep their part (inode body / block)");
				}
			}
			PROP(found == 1, "other attributes are present exactly once");
		}
		PROP(ref_space(P, 0, ibc2, -1) <= IN.icap, "inode-body part fits its capacity after the update");
		PROP(ref_space(P, ibc2, cnt2, -1) <= IN.bcap, "block part fits its capacity after the update");
		for (j = 0; j + 1 < KMAX; j++)
			if (j >= ibc2 && j + 1 < cnt2)
				PROP(ref_key_cmp(&P[j], &P[j + 1]) < 0, "block part stays sorted (index, name length, name)");
	}
	/* the reference held on the OLD value's EA inode is dropped exactly when that value is replaced (no leak, no double drop) */
	if (rc == 0 && old >= 0 && ((EAMASK >> (old >= 0 ? old : 0)) & 1)) {
		PROP(stub_ino_reads == 1 && stub_ino_writes == 1, "replacing an EA-inode value drops one reference, once");
		PROP(stub_ino_written == IN.a[old >= 0 ? old : 0].ea_ino && stub_ref_written == 1,
		     "the reference is dropped on the old value's EA inode (2 -> 1)");
	} else
		PROP(stub_ino_reads == 0 && stub_ino_writes == 0, "no EA inode is touched otherwise");
	PROP(!stub_memmove_bad, "memmove only ever shifts whole elements inside the attribute array");
	VF_END();
	return 0;
}
