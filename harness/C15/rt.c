/*
 * C15/rt: serialise / parse round trip of an attribute region (pattern D).
 *
 *   write_xattrs_to_buffer(K attributes)  ->  region bytes
 *   (a) an independent reader of the on-disk format (xa_common.h) finds exactly
 *       the K attributes, in order, terminator present, values inside the
 *       region, not overlapping each other or the entry table, padding zero,
 *       hashes as required (0 in the inode body, entry hash in a block);
 *   (b) the real parser read_xattrs_from_buffer() returns the same list.
 *
 * EAMASK bit i: attribute i keeps its value in an EA inode: the entry carries the
 * inode number, value offset 0, the value length, no value bytes, and in BOTH
 * layouts the entry hash built from the name and the hash stored in that inode
 * (the kernel refuses such an entry with a wrong or zero hash).
 *
 * LAYOUT 0 = in-inode region (value offsets relative to the first entry, no
 * hashes), LAYOUT 1 = block (offsets relative to the block, 32-byte header,
 * hashes).  Precondition = what ext2fs_xattr_set's accounting guarantees its
 * callee: the attributes' space fits the region minus the 4-byte terminator.
 */
#include "lib/ext2fs/ext_attr.c"
#include "env.c"

#ifndef K
#define K 2
#endif
#ifndef LAYOUT
#define LAYOUT 0
#endif
#ifndef S
#define S 96		/* BOUND: region of S bytes */
#endif
#define KMAX K
#include "xa_common.h"

#if LAYOUT == 0
#define CORR 0
#define WRITE_HASH 0
#else
#define CORR 32
#define WRITE_HASH 1
#endif

struct vf_in {
	struct vf_attr a[K];
	unsigned char garbage[CORR + S];	/* previous content of the buffer */
	unsigned int ea_seed;
};
VF_DECLARE_INPUT(struct vf_in, IN)
#include "vf_input.inc"

#ifndef EAMASK
#define EAMASK 0	/* bit i set: attribute i keeps its value in an EA inode (compile-time) */
#endif
static struct vf_attr A[K];	/* the model list: IN.a with ea_ino forced to 0 where EAMASK says in-line */

#if EAMASK == 0
/* STUB: ext2fs_read_inode() is only reached for EA-inode values, which EAMASK=0 excludes: fails */
errcode_t ext2fs_read_inode(ext2_filsys fs, ext2_ino_t ino, struct ext2_inode *inode)
{
	(void) fs; (void) ino; (void) inode;
	return EXT2_ET_BAD_INODE_NUM;
}
/* STUB: ext2fs_file_* (EA-inode value read) not reachable without ea_inode entries: fail */
errcode_t ext2fs_file_open(ext2_filsys fs, ext2_ino_t ino, int flags, ext2_file_t *ret)
{
	(void) fs; (void) ino; (void) flags; (void) ret;
	return EXT2_ET_BAD_INODE_NUM;
}
struct ext2_inode *ext2fs_file_get_inode(ext2_file_t file) { (void) file; return 0; }
ext2_off_t ext2fs_file_get_size(ext2_file_t file) { (void) file; return 0; }
errcode_t ext2fs_file_read(ext2_file_t file, void *buf, unsigned int wanted, unsigned int *got)
{
	(void) file; (void) buf; (void) wanted; (void) got;
	return EXT2_ET_BAD_INODE_NUM;
}
errcode_t ext2fs_file_close(ext2_file_t file) { (void) file; return 0; }
#else
/* STUB: ext2fs_read_inode(ino): an EA inode (EXT4_EA_INODE_FL, one link) whose stored hash (i_atime) is seed + 3*ino with a symbolic seed, so a read of the wrong inode is visible */
errcode_t ext2fs_read_inode(ext2_filsys fs, ext2_ino_t ino, struct ext2_inode *inode)
{
	static const struct ext2_inode zero;
	(void) fs;
	*inode = zero;
	inode->i_flags = EXT4_EA_INODE_FL;
	inode->i_links_count = 1;
	inode->i_atime = ref_inode_hash(ino);
	return 0;
}
/* STUB: ext2fs_file_open/get_inode/get_size/read/close on an EA inode: a file whose content is the model value of the attribute that names this inode (size = its length); unknown inode numbers fail */
static struct ext2_inode stub_file_inode[K];
errcode_t ext2fs_file_open(ext2_filsys fs, ext2_ino_t ino, int flags, ext2_file_t *ret)
{
	int i;
	(void) flags;
	for (i = 0; i < K; i++) {
		if (A[i].ea_ino != 0 && A[i].ea_ino == ino) {
			ext2fs_read_inode(fs, ino, &stub_file_inode[i]);
			stub_file_inode[i].i_size = A[i].vlen;
			*ret = (ext2_file_t) &stub_file_inode[i];
			return 0;
		}
	}
	return EXT2_ET_BAD_INODE_NUM;
}
struct ext2_inode *ext2fs_file_get_inode(ext2_file_t file) { return (struct ext2_inode *) file; }
ext2_off_t ext2fs_file_get_size(ext2_file_t file) { return ((struct ext2_inode *) file)->i_size; }
errcode_t ext2fs_file_read(ext2_file_t file, void *buf, unsigned int wanted, unsigned int *got)
{
	int i, b;
	for (i = 0; i < K; i++)
		if ((struct ext2_inode *) file == &stub_file_inode[i])
			for (b = 0; b < VM; b++)
				if ((unsigned) b < wanted && b < A[i].vlen)
					((unsigned char *) buf)[b] = A[i].val[b];
	if (got)
		*got = wanted;
	return 0;
}
errcode_t ext2fs_file_close(ext2_file_t file) { (void) file; return 0; }
#endif

static struct struct_ext2_filsys vf_fs;
static struct ext2_super_block vf_sb;
static struct ext2_inode_large vf_inode;
/* byte array (not __u32[]): CBMC's variable-length memcpy model is only exact when the destination object is a byte array */
static unsigned char vf_region_w[CORR + S + 4] __attribute__((aligned(8)));
static char vf_names[K][NM + 1];
static unsigned char vf_vals[K][VM + 1];
static struct ext2_xattr vf_attrs[K];
static struct ext2_xattr vf_rattrs[4];
static struct ext2_xattr_handle vf_h;

int main(void)
{
	unsigned char *base = (unsigned char *) vf_region_w;
	unsigned char *ent = base + CORR;
	int i, b, space = 0, code;
	errcode_t rc;

	VF_INPUT(IN);
	ref_ea_seed = IN.ea_seed;
	for (i = 0; i < K; i++) {
		A[i] = IN.a[i];
		if ((EAMASK >> i) & 1) {
			/* ASSUME: EA inode numbers are non-zero and pairwise distinct (a shared EA inode is the refcount case: outside) */
			ASSUME(A[i].ea_ino != 0);
			/* ASSUME: an EA-inode-backed attribute does not have index 0 together with an empty name: with e_value_offs = 0 its first four bytes would be the terminator encoding (the xattr system calls reject empty names) */
			ASSUME(A[i].nlen != 0 || A[i].idx != 0);
			for (b = 0; b < i; b++)
				ASSUME(A[b].ea_ino != A[i].ea_ino);
		} else
			A[i].ea_ino = 0;
		ASSUME(ref_attr_ok(&A[i]));
		space += ref_space1(&A[i]);
	}
	/* ASSUME: caller contract of write_xattrs_to_buffer: ext2fs_xattr_set/xattr_array_update keep the attributes' space <= region size - 4 (terminator); asserted by harness "update" */
	ASSUME(space <= S - 4);

	vf_fs.super = &vf_sb;
#if EAMASK != 0
	vf_sb.s_feature_incompat = EXT4_FEATURE_INCOMPAT_EA_INODE;
#endif
	for (i = 0; i < CORR + S; i++)
		base[i] = IN.garbage[i];
	for (i = 0; i < K; i++) {
		for (b = 0; b < NM; b++)
			vf_names[i][b] = b < A[i].nlen ? (char) A[i].name[b] : 0;
		for (b = 0; b < VM; b++)
			vf_vals[i][b] = A[i].val[b];
		vf_attrs[i].name_index = A[i].idx;
		vf_attrs[i].name = vf_names[i];		/* full name not read by the serialiser */
		vf_attrs[i].short_name = vf_names[i];
		vf_attrs[i].value = vf_vals[i];
		vf_attrs[i].value_len = A[i].vlen;
		vf_attrs[i].ea_ino = A[i].ea_ino;
	}

	rc = write_xattrs_to_buffer(&vf_fs, vf_attrs, K, ent, S, CORR, WRITE_HASH);
	PROP(rc == 0, "serialising cannot fail (in-line values; EA inodes readable)");

	code = ref_region_check(ent, S, CORR, A, K, WRITE_HASH);
	PROP(code == 0, "region holds exactly the attributes: format rules 1-17 of xa_common.h");
#if LAYOUT == 1
	for (i = 0; i < CORR; i++)
		PROP(base[i] == IN.garbage[i], "block header bytes untouched by the serialiser");
#endif

	/* (b) the real parser */
	vf_h.magic = EXT2_ET_MAGIC_EA_HANDLE;
	vf_h.fs = &vf_fs;
	vf_h.attrs = vf_rattrs;
	vf_h.capacity = 4;
	vf_h.count = 0;
	vf_h.ino = 12;
	rc = read_xattrs_from_buffer(&vf_h, &vf_inode, (struct ext2_ext_attr_entry *) ent, S,
				     (char *) base);
	PROP(rc == 0, "parser accepts what the serialiser wrote");
	PROP(vf_h.count == K, "parser finds all attributes");
	if (rc == 0 && vf_h.count == K) {
		for (i = 0; i < K; i++) {
			struct ext2_xattr *x = &vf_rattrs[i];
			int ok = 1;
			PROP(x->name_index == A[i].idx, "parsed name index");
			PROP(x->value_len == A[i].vlen, "parsed value length");
			PROP(x->ea_ino == A[i].ea_ino, "parsed EA inode number (0 = in-line)");
			PROP(x->short_name >= x->name, "short name lies in the full name");
			for (b = 0; b < NM; b++)
				if (b < A[i].nlen && (unsigned char) x->short_name[b] != A[i].name[b])
					ok = 0;
			if (x->short_name[A[i].nlen] != 0)
				ok = 0;
			PROP(ok, "parsed short name equals the name written");
			ok = 1;
			for (b = 0; b < VM; b++)
				if (b < A[i].vlen && ((unsigned char *) x->value)[b] != A[i].val[b])
					ok = 0;
			PROP(ok, "parsed value equals the value written");
		}
	}
	VF_END();
	return 0;
}
