/*
 * C15/prepblock: who owns the external attribute block when the list is
 * written, and what the inode is charged for it.
 *
 *   MODE 1  prep_ea_block_for_write(fs, ino, inode)   (static, called by
 *           ext2fs_xattrs_write before it writes the block)
 *   MODE 2  ext2fs_xattrs_write(handle) with one attribute in the block part:
 *           the block-writing tail around it (inode read, prep, block write,
 *           inode write)
 *   MODE 3  ext2fs_xattrs_write(handle) with an empty list: same bookkeeping (the
 *           code keeps an empty block rather than giving it back: see OUTSIDE)
 *
 * Reference (fs/ext4/xattr.c ext4_xattr_block_set):
 *   (a) inode without block: one block is allocated (goal from
 *       ext2fs_find_inode_goal), i_file_acl = that block, i_blocks + one fs block;
 *   (b) own block (h_refcount 1): reused in place, no allocation, i_blocks unchanged;
 *   (c) shared block (h_refcount > 1): the old block goes back to disk with
 *       h_refcount - 1 and otherwise unchanged, a NEW block is allocated and
 *       becomes i_file_acl, i_blocks UNCHANGED (one block before, one after),
 *       nothing is freed;
 *   (d) bad block number / unreadable / bad header / failed write / failed
 *       allocation: error, i_file_acl as before, and (MODE 2) the inode is not
 *       written.
 *   Net: i_blocks after == i_blocks before + (one fs block iff the inode had no block).
 */
#include "lib/ext2fs/ext_attr.c"
#include "env.c"

#ifndef MODE
#define MODE 1
#endif
#define BS 64			/* bytes of a block the I/O stubs move (header + 32); fs->blocksize is 1024 so that i_blocks counts 2 sectors per block */
#define SECT 2

struct vf_in {
	unsigned char disk[BS];		/* the inode's current attribute block (if any) */
	unsigned int blk, newblk, goal;
	unsigned int file_acl, i_blocks;
	unsigned int first_data_block, blocks_count;
	unsigned char read_fails, cow_write_fails, new_write_fails, csum_bad, alloc_fails, iread_fails, iwrite_fails;
	unsigned char val[4];
};
VF_DECLARE_INPUT(struct vf_in, IN)
#include "vf_input.inc"

static unsigned char vf_disk[BS] __attribute__((aligned(8)));
static unsigned char vf_new[BS] __attribute__((aligned(8)));
static int stub_io_reads, stub_old_writes, stub_new_writes, stub_bad_writes, stub_allocs, stub_goals, stub_stats, stub_frees;
static int stub_ireads, stub_iwrites;
static unsigned long long stub_alloc_goal, stub_freed_blk;
static ext2_ino_t stub_csum_inum;
static struct ext2_inode_large vf_inode_disk;

/* STUB: io_channel_read_blk64(): the block at IN.blk (first BS bytes; the rest of the caller's buffer is left alone); other block numbers or IN.read_fails: EXT2_ET_SHORT_READ */
errcode_t io_channel_read_blk64(io_channel channel, unsigned long long block, int count, void *data)
{
	int i;
	(void) channel;
	stub_io_reads++;
	if (IN.read_fails || block != IN.blk || count != 1)
		return EXT2_ET_SHORT_READ;
	for (i = 0; i < BS; i++)
		((unsigned char *) data)[i] = vf_disk[i];
	return 0;
}
/* STUB: io_channel_write_blk64(): writes to the old block (IN.blk) and to the newly allocated one (IN.newblk) are stored (first BS bytes) and counted separately, each with its own symbolic failure; any other block number is counted as a stray write */
errcode_t io_channel_write_blk64(io_channel channel, unsigned long long block, int count, const void *data)
{
	int i;
	(void) channel;
	if (count == 1 && block == IN.blk) {
		stub_old_writes++;
		if (IN.cow_write_fails)
			return EXT2_ET_SHORT_WRITE;
		for (i = 0; i < BS; i++)
			vf_disk[i] = ((const unsigned char *) data)[i];
		return 0;
	}
	if (count == 1 && block == IN.newblk) {
		stub_new_writes++;
		if (IN.new_write_fails)
			return EXT2_ET_SHORT_WRITE;
		for (i = 0; i < BS; i++)
			vf_new[i] = ((const unsigned char *) data)[i];
		return 0;
	}
	stub_bad_writes++;
	return EXT2_ET_SHORT_WRITE;
}
/* STUB: checksum verify (symbolic result) / set (no-op, records the inode number): metadata_csum content is C14 */
int ext2fs_ext_attr_block_csum_verify(ext2_filsys fs, ext2_ino_t inum, blk64_t block, struct ext2_ext_attr_header *hdr)
{ (void) fs; (void) inum; (void) block; (void) hdr; return !IN.csum_bad; }
errcode_t ext2fs_ext_attr_block_csum_set(ext2_filsys fs, ext2_ino_t inum, blk64_t block, struct ext2_ext_attr_header *hdr)
{ (void) fs; (void) block; (void) hdr; stub_csum_inum = inum; return 0; }
/* STUB: ext2fs_find_inode_goal(): symbolic goal IN.goal; ext2fs_alloc_block2(): hands out IN.newblk (a free block: in range, not the old block) or fails with EXT2_ET_BLOCK_ALLOC_FAIL; both count their calls */
blk64_t ext2fs_find_inode_goal(ext2_filsys fs, ext2_ino_t ino, struct ext2_inode *inode, blk64_t lblk)
{ (void) fs; (void) ino; (void) inode; (void) lblk; stub_goals++; return IN.goal; }
errcode_t ext2fs_alloc_block2(ext2_filsys fs, blk64_t goal, char *block_buf, blk64_t *ret)
{
	(void) fs; (void) block_buf;
	stub_allocs++;
	stub_alloc_goal = goal;
	if (IN.alloc_fails)
		return EXT2_ET_BLOCK_ALLOC_FAIL;
	*ret = IN.newblk;
	return 0;
}
/* STUB: ext2fs_block_alloc_stats2(): records releases (-1) and anything else */
void ext2fs_block_alloc_stats2(ext2_filsys fs, blk64_t blk, int inuse)
{
	(void) fs;
	if (inuse == -1) {
		stub_frees++;
		stub_freed_blk = blk;
	} else
		stub_stats++;
}
/* STUB: ext2fs_read_inode_full()/ext2fs_write_inode_full(): the stored 128-byte inode, symbolic failures, calls counted */
errcode_t ext2fs_read_inode_full(ext2_filsys fs, ext2_ino_t ino, struct ext2_inode *inode, int sz)
{
	(void) fs; (void) ino; (void) sz;
	stub_ireads++;
	if (IN.iread_fails)
		return EXT2_ET_BAD_INODE_NUM;
	/* field by field: a struct store through the cast into the caller's malloc'ed byte buffer makes CBMC lose the zeroes behind it (i_extra_isize) */
	inode->i_file_acl = vf_inode_disk.i_file_acl;
	inode->i_blocks = vf_inode_disk.i_blocks;
	inode->i_links_count = vf_inode_disk.i_links_count;
	return 0;
}
errcode_t ext2fs_write_inode_full(ext2_filsys fs, ext2_ino_t ino, struct ext2_inode *inode, int sz)
{
	(void) fs; (void) ino; (void) sz;
	stub_iwrites++;
	if (IN.iwrite_fails)
		return EXT2_ET_BAD_INODE_NUM;
	vf_inode_disk.i_file_acl = inode->i_file_acl;
	vf_inode_disk.i_blocks = inode->i_blocks;
	vf_inode_disk.i_links_count = inode->i_links_count;
	return 0;
}
/* STUB: ext2fs_read_inode() (value-inode hash) unreachable: the attribute is in-line */
errcode_t ext2fs_read_inode(ext2_filsys fs, ext2_ino_t ino, struct ext2_inode *inode)
{ (void) fs; (void) ino; (void) inode; return EXT2_ET_BAD_INODE_NUM; }

static struct struct_ext2_filsys vf_fs;
static struct ext2_super_block vf_sb;

static unsigned int ref_le32(const unsigned char *p)
{
	return (unsigned int) p[0] | ((unsigned int) p[1] << 8) | ((unsigned int) p[2] << 16) | ((unsigned int) p[3] << 24);
}

int main(void)
{
	static struct ext2_inode_large ino_arg;
	struct ext2_inode_large *ip;
	unsigned int magic, oldref;
	errcode_t rc;
	int i, in_range, body_same, cls;
	/* cls: 0 no block, 1 bad number, 2 unreadable/bad header, 3 own block, 4 shared block */

	VF_INPUT(IN);
	for (i = 0; i < BS; i++)
		vf_disk[i] = IN.disk[i];
	magic = ref_le32(IN.disk);
	oldref = ref_le32(IN.disk + 4);
	/* ASSUME: a block in use has h_refcount >= 1 */
	ASSUME(oldref >= 1);
	/* ASSUME: the allocator hands out a block inside the filesystem that is not the inode's current attribute block and not block 0 */
	ASSUME(IN.newblk != 0 && IN.newblk != IN.blk && IN.newblk != IN.file_acl);
	ASSUME(IN.newblk >= IN.first_data_block && IN.newblk < IN.blocks_count);
	/* ASSUME: i_blocks has room for one more block in 32 bits and, when the inode has a block, accounts for it (no huge_file; e2fsck's business otherwise) */
	ASSUME(IN.i_blocks <= 0xfffffff0u);
	ASSUME(IN.file_acl == 0 || IN.i_blocks >= SECT);

	vf_sb.s_first_data_block = IN.first_data_block;
	vf_sb.s_blocks_count = IN.blocks_count;
	vf_sb.s_rev_level = 1;
	vf_sb.s_inode_size = 128;
	vf_sb.s_feature_compat = EXT2_FEATURE_COMPAT_EXT_ATTR;
	vf_fs.super = &vf_sb;
	vf_fs.blocksize = 1024;
	/* ASSUME: no 64bit / huge_file / bigalloc feature */

	ino_arg.i_file_acl = IN.file_acl;
	ino_arg.i_blocks = IN.i_blocks;
	ino_arg.i_links_count = 1;
	vf_inode_disk = ino_arg;

	in_range = IN.file_acl >= IN.first_data_block && IN.file_acl < IN.blocks_count;
	if (IN.file_acl == 0)
		cls = 0;
	else if (!in_range)
		cls = 1;
	else if (IN.read_fails || IN.file_acl != IN.blk || IN.csum_bad || magic != EXT2_EXT_ATTR_MAGIC || ref_le32(IN.disk + 8) != 1)
		cls = 2;
	else
		cls = oldref == 1 ? 3 : 4;

#if MODE == 1
	ip = &ino_arg;
	rc = prep_ea_block_for_write(&vf_fs, 12, ip);

	PROP(stub_new_writes == 0 && stub_bad_writes == 0, "prep writes nothing but the old block's header");
	PROP(stub_frees == 0 && stub_stats == 0, "prep never touches the bitmaps itself");
	if (cls == 1 || cls == 2) {
		PROP(rc != 0, "bad block number, unreadable block or bad header is an error");
		if (cls == 1)
			PROP(rc == EXT2_ET_BAD_EA_BLOCK_NUM && stub_io_reads == 0, "i_file_acl outside the filesystem: EXT2_ET_BAD_EA_BLOCK_NUM, no I/O");
		PROP(stub_old_writes == 0 && stub_allocs == 0, "on such an error nothing is written or allocated");
		PROP(ip->i_file_acl == IN.file_acl && ip->i_blocks == IN.i_blocks, "on such an error the inode is unchanged");
	} else if (cls == 3) {
		PROP(rc == 0, "own block: success");
		PROP(stub_old_writes == 0 && stub_allocs == 0, "own block (h_refcount 1) is reused in place: no write, no allocation");
		PROP(ip->i_file_acl == IN.file_acl && ip->i_blocks == IN.i_blocks, "own block: i_file_acl and i_blocks unchanged");
	} else {
		if (cls == 4) {
			PROP(stub_old_writes == 1, "shared block: its header goes back to disk exactly once");
			if (IN.cow_write_fails) {
				PROP(rc == EXT2_ET_SHORT_WRITE && stub_allocs == 0, "shared block: failed write-back is returned, nothing allocated");
				PROP(ip->i_file_acl == IN.file_acl && ip->i_blocks == IN.i_blocks, "shared block: failed write-back leaves the inode unchanged");
			} else {
				body_same = 1;
				for (i = 0; i < BS; i++)
					if ((i < 4 || i >= 8) && vf_disk[i] != IN.disk[i])
						body_same = 0;
				PROP(ref_le32(vf_disk + 4) == oldref - 1 && body_same, "shared block: on disk h_refcount - 1, every other byte unchanged");
			}
		} else
			PROP(stub_old_writes == 0 && stub_io_reads == 0, "no block: no block I/O");
		if (!(cls == 4 && IN.cow_write_fails)) {
			PROP(stub_allocs == 1 && stub_goals == 1 && stub_alloc_goal == IN.goal, "exactly one block is allocated, at the inode's goal");
			if (IN.alloc_fails) {
				PROP(rc == EXT2_ET_BLOCK_ALLOC_FAIL, "allocation failure is returned");
				PROP(ip->i_file_acl == IN.file_acl, "allocation failure: i_file_acl unchanged");
				/* OUTSIDE: after a failed allocation the caller's in-memory i_blocks (case a) and the shared block's on-disk refcount (case c) have already been changed; ext2fs_xattrs_write discards the inode (MODE 2 checks that) */
			} else {
				PROP(rc == 0, "success");
				PROP(ip->i_file_acl == IN.newblk, "the new block becomes i_file_acl");
				PROP(ip->i_blocks == IN.i_blocks + (cls == 0 ? SECT : 0),
				     "i_blocks grows by one fs block iff the inode had no attribute block (un-sharing: one block before, one after)");
			}
		}
	}
#else	/* MODE 2 / 3: ext2fs_xattrs_write */
	{
		static struct ext2_xattr_handle hs;
		static struct ext2_xattr at[4];
		static char nm[8] = "user.";
		static unsigned char vv[4];
		struct ext2_inode_large *dk = &vf_inode_disk;
		int expect_ok;

		/* BOUND: the one attribute is "user.a" with a 4-byte symbolic value (name and length concrete: the image is harness rt's subject) */
		nm[5] = 'a';
		nm[6] = 0;
		for (i = 0; i < 4; i++)
			vv[i] = IN.val[i];
		at[0].name = nm; at[0].short_name = nm + 5; at[0].name_index = 1;
		at[0].value = vv; at[0].value_len = 4; at[0].ea_ino = 0;
		hs.magic = EXT2_ET_MAGIC_EA_HANDLE;
		hs.fs = &vf_fs;
		hs.attrs = at;
		hs.capacity = 4;
		hs.ino = 12;
		hs.ibody_count = 0;
#if MODE == 2
		hs.count = 1;
#else
		hs.count = 0;
#endif
		(void) ip;
		rc = ext2fs_xattrs_write(&hs);

		PROP(stub_bad_writes == 0, "no stray block write");
		PROP(stub_ireads == 1, "the inode is read once");
		if (IN.iread_fails) {
			PROP(rc == EXT2_ET_BAD_INODE_NUM && stub_iwrites == 0 && stub_allocs == 0 && stub_old_writes == 0 && stub_new_writes == 0,
			     "unreadable inode: error, nothing touched");
		} else {
#if MODE == 3
			if (cls == 0) {
				/* empty list and no block: nothing to do with blocks */
				PROP(stub_iwrites == 1 && stub_allocs == 0 && stub_frees == 0 && stub_old_writes == 0 && stub_new_writes == 0 && stub_io_reads == 0,
				     "empty list, no block: only the inode is written");
				if (!IN.iwrite_fails)
					PROP(dk->i_file_acl == 0 && dk->i_blocks == IN.i_blocks, "empty list, no block: inode unchanged");
			} else
#endif
			{
			expect_ok = !(cls == 1 || cls == 2) && !(cls == 4 && IN.cow_write_fails) &&
				!((cls == 0 || cls == 4) && IN.alloc_fails) &&
				!((cls == 0 || cls == 4) && IN.new_write_fails) && !(cls == 3 && IN.cow_write_fails);
			if (!expect_ok) {
				PROP(rc != 0, "any failure on the way is returned");
				PROP(stub_iwrites == 0, "after a failure the inode is NOT written (i_file_acl / i_blocks on disk as before)");
				PROP(stub_frees == 0, "after a failure nothing is freed");
			} else {
				unsigned int target = cls == 3 ? IN.blk : IN.newblk;
				const unsigned char *img = cls == 3 ? vf_disk : vf_new;
				PROP(stub_iwrites == 1, "the inode is written exactly once");
				PROP(rc == (IN.iwrite_fails ? EXT2_ET_BAD_INODE_NUM : 0), "result of the inode write is returned");
				PROP(stub_allocs == (cls == 3 ? 0 : 1), "a block is allocated iff the inode had none or shared one");
				PROP(stub_frees == 0 && stub_stats == 0, "nothing is freed");
				PROP((cls == 3 ? stub_old_writes : stub_new_writes) == 1 && (cls == 3 ? stub_new_writes == 0 : stub_old_writes == (cls == 4 ? 1 : 0)),
				     "the attribute block is written once, to the inode's (new) block; the shared original only gets its header back");
				PROP(ref_le32(img) == EXT2_EXT_ATTR_MAGIC && ref_le32(img + 4) == 1 && ref_le32(img + 8) == 1,
				     "written block: v2 magic, h_refcount 1, h_blocks 1");
#if MODE == 3
				PROP(ref_le32(img + 32) == 0, "empty list: the written block starts with the terminator");
#else
				PROP(img[32] == 1 && img[33] == 1 && img[32 + 16] == 'a' && ref_le32(img + 32 + 8) == 4,
				     "written block: first entry is the attribute (name length 1, index user, name byte, value size)");
#endif
				PROP(stub_csum_inum == 12, "checksum of the private block is keyed by the inode number");
				if (cls == 4)
					PROP(ref_le32(vf_disk + 4) == oldref - 1, "shared original: h_refcount - 1 on disk");
				if (!IN.iwrite_fails) {
					PROP(dk->i_file_acl == target, "on disk i_file_acl names the block that was written");
					PROP(dk->i_blocks == IN.i_blocks + (cls == 0 ? SECT : 0),
					     "on disk i_blocks = before + one fs block iff the inode had no attribute block");
				}
			}
#ifdef STRICT
			/* NOT the behaviour of the code (see OUTSIDE below): the kernel releases the block when the last attribute in it goes away */
			if (cls == 3 || cls == 4)
				PROP(dk->i_file_acl == 0, "STRICT: an attribute block that would hold no attribute is given back");
#endif
			}
			/* OUTSIDE: with an EMPTY block part and an existing block ext2fs_xattrs_write rewrites (or, for a shared block, newly allocates) an empty attribute block instead of giving it back; its "xattrs shrunk, free the block" branch is unreachable (block_buf is always set when i_file_acl != 0).  Consistent on disk, so MODE 3 checks the same bookkeeping as MODE 2; -DSTRICT states the kernel's behaviour and fails */
		}
	}
#endif
	VF_END();
	return 0;
}
