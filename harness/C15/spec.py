META = {
    "assumptions": ["allocation failure out of scope (--no-malloc-may-fail)",
                    "one inductive step from an arbitrary valid attribute list (unique names, block part sorted, both parts "
                    "within capacity); histories follow by induction because every step re-establishes that invariant",
                    "update/remove: memmove of the attribute array modelled as an element-wise copy (stub_memmove)",
                    "set: xattr_array_update and ext2fs_xattrs_write are cut (cut_statics) and replaced by recording stubs; "
                    "xattr_array_update is verified by harness update, the serialiser under ext2fs_xattrs_write by harness rt",
                    "remove/get: xattr_inode_dec_ref is cut to a recording stub; it is verified by harness decref",
                    "xwstep/xread: ext2fs_xattrs_write / ext2fs_xattrs_read(_inode) as whole steps over CUT callees (serialiser, parser, "
                    "prep_ea_block_for_write, ext2fs_write/read_ext_attr3 are recording stubs with symbolic failures; each is verified by rt / readbuf / "
                    "prepblock / freeattr); s_want_extra_isize <= inode size - 128; handle consistent with the inode (no in-inode attribute without a region)",
                    "mkea/mkentry/seteai: inode allocator, inode and file I/O, crc32c, bitmap update are recording stubs; xattr_inode_dec_ref (mkentry), "
                    "xattr_array_update and ext2fs_xattrs_write (seteai) are cut",
                    "earef: one operation of e2fsck/ea_refcount.c from an arbitrary valid sorted table (see the harness's ASSUME/STUB comments)",
                    "freeattr/adjust/decref/prepblock/xwrite: block and inode I/O, the block allocator (ext2fs_find_inode_goal, ext2fs_alloc_block2), bitmaps (alloc_stats), punch are recording stubs with symbolic failures"],
    "outside": ["the CONTENT path of a new value inode below ext2fs_file_write / ext2fs_new_inode (stubs in mkea); creating it (xattr_create_ea_inode), the "
                "entry edit with in_inode = 1 (xattr_update_entry) and the ea_inode decision / retry of ext2fs_xattr_set ARE covered by mkea / mkentry / seteai; "
                "xattr_array_update's space accounting with in_inode = 1 is not; existing "
                "EA-inode-backed attributes ARE covered: rt (image, hash, parser through a file stub), readbuf (accept/reject rules incl. the 64 KiB "
                "limit), update/remove (space accounting, the reference is dropped exactly once and on the right inode), decref (release at count 0)",
                "ext2fs_xattrs_write on large inodes and ext2fs_xattrs_read / ext2fs_xattrs_read_inode ARE covered as whole steps over cut callees "
                "(xwstep, xread: region placement by i_extra_isize, magic, both regions in one call, value-offset bases 0 / 32, block number range, v2 "
                "magic, count / ibody_count, inode written once and last, nothing written after a failure), composed with rt / readbuf / prepblock by "
                "assume-guarantee, NOT as one end-to-end query with real bytes through both; s_want_extra_isize > inode size - 128 with "
                "i_extra_isize == 0 (ext2fs_xattrs_write zeroes that many bytes of the inode buffer unchecked); the block-writing tail of ext2fs_xattrs_write (128-byte inode), prep_ea_block_for_write "
                "(allocate / reuse / un-share), ext2fs_free_ext_attr and ext2fs_adjust_ea_refcount3 ARE covered by xwrite/prepblock/freeattr/adjust",
                "ext2fs_xattrs_write never gives an attribute block back when the block part becomes empty (it keeps an empty block; the release "
                "branch is unreachable): consistent on disk, checked as such; the kernel's behaviour is available as -DSTRICT in prepblock.c",
                "block checksum content (metadata_csum: stubbed verify/set), 64bit / huge_file / bigalloc variants of i_file_acl and i_blocks",
                "POSIX ACL conversion (convert_posix_acl_to_disk_buffer and back)",
                "interaction with inline data beyond ext2fs_xattr_set's system.data rule (block_free = 0, corrupted if found in the block part)",
                "more than 3 attributes, names > 4 and values > 8 bytes (readbuf: any 32-bit size, not materialised), regions > 96 bytes, ext2fs_xattrs_expand",
                "e2fsck pass1 checks (C05 eablock), debugfs/create_inode callers; e2fsck/ea_refcount.c IS covered per operation (earef): "
                "histories follow by induction over its invariant; ea_refcount_create/free and table growth beyond one step are not"],
}

HASH_UW = ["main.%d:14" % i for i in range(8)] + \
          ["ref_name_hash.0:8", "ref_value_hash.0:4",
           "ext2fs_ext_attr_hash_entry.0:8", "ext2fs_ext_attr_hash_entry.1:4",
           "ext2fs_ext_attr_hash_entry_signed.0:8", "ext2fs_ext_attr_hash_entry_signed.1:4",
           "ext2fs_ext_attr_block_rehash.0:5"]

def rt_uw(k, s, corr, nm=4, vm=8):
    n = corr + s + 1
    return ["main.%d:%d" % (i, n) for i in range(16)] + \
        ["ext2fs_file_open.0:%d" % (k + 1), "ext2fs_file_read.0:%d" % (vm + 1), "ext2fs_file_read.1:%d" % (k + 1),
         "ref_ea_entry_hash.0:%d" % (nm + 1),
         "ref_attr_ok.0:%d" % (nm + 1), "ref_byte.0:%d" % (s + 1), "ref_le.0:%d" % (s + 1),
         "vf_model_hash.0:%d" % (nm + 1), "vf_model_hash.1:%d" % (vm + 5),
         "ref_region_check.0:%d" % (vm + 2), "ref_region_check.1:%d" % (vm + 2), "ref_region_check.2:%d" % (vm + 2),
         "ref_region_check.3:%d" % (vm + 2), "ref_region_check.4:%d" % (vm + 2), "ref_region_check.5:%d" % (vm + 2),
         "read_xattrs_from_buffer.0:%d" % (k + 2), "read_xattrs_from_buffer.1:%d" % (k + 2),
         "write_xattrs_to_buffer.0:%d" % (k + 1), "find_ea_prefix.0:10",
         "strlen.0:%d" % 26, "memcmp.0:%d" % 26, "strcmp.0:26", "strncmp.0:26",
         "ext2fs_ext_attr_hash_entry.0:%d" % (nm + 1), "ext2fs_ext_attr_hash_entry.1:%d" % (vm // 4 + 2),
         "ext2fs_ext_attr_hash_entry_signed.0:%d" % (nm + 1), "ext2fs_ext_attr_hash_entry_signed.1:%d" % (vm // 4 + 2)]

def rt_cfgs():
    c = []
    for lay in (0, 1):
        c.append({"K": 1, "LAYOUT": lay, "S": 32, "_unwindset": rt_uw(1, 32, 32 * lay)})
        c.append({"K": 2, "LAYOUT": lay, "S": 64, "_unwindset": rt_uw(2, 64, 32 * lay)})
        c.append({"K": 3, "LAYOUT": lay, "S": 80, "VM": 4, "_unwindset": rt_uw(3, 80, 32 * lay, vm=4),
                  "_tier": "thorough"})
        c.append({"K": 3, "LAYOUT": lay, "S": 96, "_unwindset": rt_uw(3, 96, 32 * lay), "_tier": "thorough"})
        # attributes whose value lives in an EA inode (bit i of EAMASK)
        c.append({"K": 1, "LAYOUT": lay, "S": 32, "EAMASK": 1, "_unwindset": rt_uw(1, 32, 32 * lay)})
        c.append({"K": 2, "LAYOUT": lay, "S": 64, "EAMASK": 2 - lay, "_unwindset": rt_uw(2, 64, 32 * lay),
                  "_tier": "thorough" if lay else "quick"})
        c.append({"K": 2, "LAYOUT": lay, "S": 64, "EAMASK": 1 + lay, "_unwindset": rt_uw(2, 64, 32 * lay), "_tier": "thorough"})
        c.append({"K": 2, "LAYOUT": lay, "S": 64, "EAMASK": 3, "_unwindset": rt_uw(2, 64, 32 * lay), "_tier": "thorough"})
    return c

def up_uw(n, nm=3, vm=8):
    return ["main.%d:%d" % (i, 10) for i in range(17)] + \
        ["find_ea_index.0:10", "ref_key_cmp.0:%d" % (nm + 1), "ref_same_val.0:%d" % (vm + 1),
         "vf_decode.2:5", "vf_decode.0:%d" % (nm + 1), "vf_decode.1:%d" % (vm + 1), "stub_memmove.0:4", "stub_memmove.1:4", "ref_space.0:5",
         "ref_same_key.0:%d" % (nm + 1), "ref_attr_ok.0:%d" % (nm + 1), "xattr_find_position.0:%d" % (n + 2),
         "strlen.0:26", "strncmp.0:26", "memcmp.0:%d" % (nm + 2)]

def up_cfgs():
    c = []
    for n in (0, 1, 2, 3):
        for ibc in range(n + 1):
            for old in range(-1, n):
                for pfx in (1, 0):
                    if pfx == 0 and not (n == 2 and old == -1):
                        continue
                    c.append({"N": n, "IBC": ibc, "OLD": "(%d)" % old, "PFX": pfx, "_unwindset": up_uw(n),
                              "_tier": "quick" if n <= 2 else "thorough"})
    # pre-state attributes whose value lives in an EA inode (bit i of EAMASK): replaced entry and bystanders
    for n, ibc, old, mask, tier in ((1, 1, 0, 1, "quick"), (1, 0, 0, 1, "quick"), (2, 2, 1, 2, "quick"), (2, 1, 0, 1, "quick"),
                                    (2, 1, -1, 1, "quick"), (2, 0, 1, 2, "quick"), (2, 1, 1, 3, "thorough"), (2, 2, 0, 3, "thorough"),
                                    (3, 2, 1, 2, "thorough"), (3, 3, -1, 5, "thorough")):
        c.append({"N": n, "IBC": ibc, "OLD": "(%d)" % old, "PFX": 1, "EAMASK": mask, "_unwindset": up_uw(n), "_tier": tier})
    return c

def rm_uw(n, nm=3, vm=8):
    return ["main.%d:%d" % (i, 10) for i in range(14)] + \
        ["stub_memmove.0:4", "stub_memmove.1:4", "ext2fs_xattr_remove.0:%d" % (n + 1), "ext2fs_xattr_get.0:%d" % (n + 1),
         "ref_attr_ok.0:%d" % (nm + 1), "ref_same_key.0:%d" % (nm + 1),
         "vf_attr_is.0:6", "vf_attr_is.1:%d" % (nm + 2), "vf_attr_is.2:%d" % (vm + 1),
         "strcmp.0:%d" % (5 + nm + 2), "strlen.0:26"]

def rm_cfgs(op):
    c = []
    for op in (op,):
        for n in (1, 2, 3):
            for ibc in range(n + 1):
                if op == 2 and ibc not in (0,):
                    continue
                c.append({"OP": op, "N": n, "IBC": ibc, "_unwindset": rm_uw(n)})
    return c

def set_uw(n):
    return ["main.%d:%d" % (i, 14) for i in range(16)] + \
        ["xattr_array_update.0:14", "xattr_array_update.1:10", "ref_space.0:5", "ref_same_key.0:5", "ref_attr_ok.0:5",
         "space_used.0:%d" % (n + 1), "ext2fs_xattr_set.0:%d" % (n + 1), "strcmp.0:26", "strlen.0:26", "memcmp.0:10"]

def set_cfgs():
    c = []
    for n in (1, 2):
        for ibc in range(n + 1):
            for idx in range(-1, n):
                c.append({"N": n, "IBC": ibc, "IDX": "(%d)" % idx, "_unwindset": set_uw(n)})
    c.append({"N": 2, "IBC": 1, "IDX": "(0)", "EAMASK": 1, "_unwindset": set_uw(2)})
    c.append({"N": 2, "IBC": 1, "IDX": "(1)", "EAMASK": 3, "_unwindset": set_uw(2)})
    c.append({"N": 2, "IBC": 1, "IDX": "(1)", "ISIZE": 128, "_unwindset": set_uw(2)})
    c.append({"N": 1, "IBC": 0, "IDX": "(-1)", "ISIZE": 128, "_unwindset": set_uw(1)})
    for ibc, idx in ((1, -1), (1, 0), (1, 1), (2, 1)):
        c.append({"N": 2, "IBC": ibc, "IDX": "(%d)" % idx, "SYSDATA": 1, "_unwindset": set_uw(2)})
    c.append({"N": 3, "IBC": 1, "IDX": "(2)", "_unwindset": set_uw(3), "_tier": "thorough"})
    c.append({"N": 3, "IBC": 2, "IDX": "(-1)", "_unwindset": set_uw(3), "_tier": "thorough"})
    return c

FA_UW = ["main.%d:65" % i for i in range(8)] + ["io_channel_read_blk64.0:65", "io_channel_write_blk64.0:65"]

def rb_uw(k, s, corr):
    n = corr + s + 1
    return ["main.%d:%d" % (i, n) for i in range(14)] + \
        ["read_xattrs_from_buffer.0:%d" % (k + 2), "read_xattrs_from_buffer.1:%d" % (k + 2), "find_ea_prefix.0:10", "strlen.0:26",
         "ext2fs_ext_attr_hash_entry.0:5", "ext2fs_ext_attr_hash_entry.1:%d" % (s // 4 + 2),
         "ext2fs_ext_attr_hash_entry_signed.0:5", "ext2fs_ext_attr_hash_entry_signed.1:%d" % (s // 4 + 2)]

def rb_cfgs():
    c = []
    for lay in (0, 1):
        c.append({"K": 1, "LAYOUT": lay, "EAMASK": 1, "FEAT": 1, "S": 32, "_unwindset": rb_uw(1, 32, 32 * lay)})
        c.append({"K": 1, "LAYOUT": lay, "EAMASK": 0, "FEAT": 1, "S": 40, "HASH0": None, "_unwindset": rb_uw(1, 40, 32 * lay)})
        c.append({"K": 1, "LAYOUT": lay, "EAMASK": 0, "FEAT": 1, "S": 40, "_unwindset": rb_uw(1, 40, 32 * lay), "_tier": "thorough"})
    c.append({"K": 1, "LAYOUT": 0, "EAMASK": 1, "FEAT": 0, "S": 32, "_unwindset": rb_uw(1, 32, 0)})
    c.append({"K": 2, "LAYOUT": 0, "EAMASK": 2, "FEAT": 1, "S": 56, "HASH0": None, "_unwindset": rb_uw(2, 56, 0), "_tier": "thorough"})
    c.append({"K": 2, "LAYOUT": 0, "EAMASK": 2, "FEAT": 1, "S": 64, "_unwindset": rb_uw(2, 64, 0), "_tier": "thorough"})
    c.append({"K": 2, "LAYOUT": 1, "EAMASK": 1, "FEAT": 1, "S": 64, "_unwindset": rb_uw(2, 64, 32), "_tier": "thorough"})
    c.append({"K": 2, "LAYOUT": 0, "EAMASK": 0, "FEAT": 1, "S": 64, "_unwindset": rb_uw(2, 64, 0), "_tier": "thorough"})
    return c

PB_UW = ["main.%d:65" % i for i in range(10)] + ["io_channel_read_blk64.0:65", "io_channel_write_blk64.0:65", "io_channel_write_blk64.1:65",
         "write_xattrs_to_buffer.0:3", "strlen.0:8", "ext2fs_ext_attr_hash_entry.0:3", "ext2fs_ext_attr_hash_entry.1:3",
         "ext2fs_ext_attr_hash_entry_signed.0:3", "ext2fs_ext_attr_hash_entry_signed.1:3"]

HARNESSES = [
    dict(name="prepblock", src="prepblock.c",
         funcs=["prep_ea_block_for_write", "ext2fs_read_ext_attr3", "ext2fs_write_ext_attr3", "ext2fs_iblk_add_blocks", "ext2fs_file_acl_block_set"],
         extra_src=["lib/ext2fs/blknum.c", "lib/ext2fs/i_block.c"],
         configs=[{"MODE": 1}], unwind=3, unwindset=PB_UW, backends=["default", "kissat"],
         bound="current block: 64 symbolic bytes (every magic, h_refcount 1..2^32-1, h_blocks); i_file_acl, i_blocks, goal, new block, "
               "s_first_data_block, blocks_count symbolic 32-bit; symbolic read / write-back / allocation failures; block size 1024, no 64bit/huge_file/bigalloc"),
    dict(name="xwrite", src="prepblock.c",
         funcs=["ext2fs_xattrs_write", "prep_ea_block_for_write", "write_xattrs_to_buffer", "ext2fs_free_ext_attr", "ext2fs_write_ext_attr3"],
         extra_src=["lib/ext2fs/blknum.c", "lib/ext2fs/i_block.c"],
         configs=[{"MODE": 2}, {"MODE": 3}], witness_per_config=True, unwind=3, unwindset=PB_UW, backends=["default", "kissat"],
         bound="as prepblock; 128-byte inode (no in-inode region), handle with one in-line attribute user.<1 char> (value 0..4 bytes) in the "
               "block part (MODE 2) or an empty list (MODE 3); symbolic inode read/write failures"),
    dict(name="decref", src="decref.c",
         funcs=["xattr_inode_dec_ref", "ext2fs_free_ext_attr", "ext2fs_get_ea_inode_ref", "ext2fs_set_ea_inode_ref"],
         extra_src=["lib/ext2fs/blknum.c"],
         configs=[{}], unwind=3, backends=["default", "kissat"],
         bound="reference count 1..2^64-1, inode number, has-blocks answer and read/write/punch failures symbolic; the value inode has no attribute block"),
    dict(name="readbuf", src="readbuf.c",
         funcs=["read_xattrs_from_buffer", "find_ea_prefix", "ext2fs_ext_attr_hash_entry3"],
         configs=rb_cfgs(), witness_per_config=True, unwind=5, backends=["default", "kissat"],
         bound="K in {1,2} entries, names 0..4 bytes, name index, 16-bit value offset, 32-bit value size, 32-bit hash, value inode "
               "number all symbolic; region 32..64 bytes (in-inode layout / block layout behind 32 bytes), value area symbolic; value "
               "inode flags, link count, size, stored hash, back reference, open/read failure symbolic"),
    dict(name="freeattr", src="freeattr.c",
         funcs=["ext2fs_free_ext_attr", "ext2fs_read_ext_attr3", "ext2fs_write_ext_attr3", "check_ext_attr_header",
                "ext2fs_file_acl_block", "ext2fs_iblk_sub_blocks"],
         extra_src=["lib/ext2fs/blknum.c", "lib/ext2fs/i_block.c"],
         configs=[{"MODE": 1, "INODE_ARG": 1}, {"MODE": 1, "INODE_ARG": 0}], witness_per_config=True,
         unwind=3, unwindset=FA_UW, backends=["default", "kissat"],
         bound="one attribute block of 64 bytes, every byte symbolic (all magics, h_refcount 1..2^32-1, h_blocks), i_file_acl, "
               "i_blocks, s_first_data_block, blocks_count 32-bit symbolic, symbolic read/write/checksum/inode-I/O failures; no 64bit/huge_file/bigalloc"),
    dict(name="adjust", src="freeattr.c",
         funcs=["ext2fs_adjust_ea_refcount3", "ext2fs_read_ext_attr3", "ext2fs_write_ext_attr3"],
         extra_src=["lib/ext2fs/blknum.c", "lib/ext2fs/i_block.c"],
         configs=[{"MODE": 2}], unwind=3, unwindset=FA_UW, backends=["default", "kissat"],
         bound="as freeattr; adjust any 32-bit value"),
    dict(name="set", src="set.c",
         funcs=["ext2fs_xattr_set", "space_used", "ext2fs_xattrs_open"],
         cut_statics={"lib/ext2fs/ext_attr.c": ["xattr_array_update", "ext2fs_xattrs_write"]},
         configs=set_cfgs(), witness_per_config=True, unwind=5, backends=["default", "kissat"],
         bound="N in {1,2} (thorough 3) attributes, ibody_count and the position IDX of the existing attribute compile-time, "
               "inode size 256 (i_extra_isize, s_want_extra_isize symbolic multiples of 4 up to 120) and 128, block size 1024, "
               "short names 0..4, values 0..8 bytes, existing values in-line or in an EA inode, names user.* and system.data"),
    dict(name="remove", src="remove.c",
         funcs=["ext2fs_xattr_remove", "ext2fs_xattrs_write", "ext2fs_xattrs_open"],
         cut_statics={"lib/ext2fs/ext_attr.c": ["xattr_inode_dec_ref"]},
         configs=rm_cfgs(1), unwind=5, backends=["default", "kissat"],
         bound="N in {1,2,3} attributes in namespace user., ibody_count 0..N (compile time), short names 0..3 bytes, "
               "values 0..8 bytes, every ea_ino symbolic (0 = in-line), key symbolic (present at any position or absent)"),
    dict(name="get", src="remove.c",
         funcs=["ext2fs_xattr_get", "ext2fs_xattrs_open"],
         cut_statics={"lib/ext2fs/ext_attr.c": ["xattr_inode_dec_ref"]},
         configs=rm_cfgs(2), unwind=5, backends=["default", "kissat"],
         bound="N in {1,2,3} attributes in namespace user., short names 0..3 bytes, values 0..8 bytes, key symbolic "
               "(present at any position or absent)"),
    dict(name="update", src="update.c",
         funcs=["xattr_array_update", "xattr_update_entry", "xattr_find_position", "find_ea_index", "ext2fs_xattrs_open"],
         configs=up_cfgs(), unwind=5,   # all 23 quick configs had a reachable witness (witness_per_config run); one is kept for time
 backends=["default", "kissat"],
         bound="N in {0,1,2} (thorough: 3) attributes before the step, ibody_count and old_idx symbolic, name index all "
               "256 values, short names 0..3 bytes, values 0..8 bytes, capacities of both parts symbolic 0..96 bytes, "
               "edited name in namespace user. or without prefix",
         ),
    dict(name="rt", src="rt.c",
         funcs=["write_xattrs_to_buffer", "read_xattrs_from_buffer", "find_ea_prefix", "ext2fs_ext_attr_hash_entry3"],
         configs=rt_cfgs(), unwind=5, backends=["default", "kissat"],
         bound="K in {1,2,3} attributes, name index all 256 values, short names 0..4 bytes, values 0..8 bytes, "
               "region of 96 bytes (in-inode layout and block layout behind a 32-byte header), previous buffer content symbolic"),
    dict(name="hash", src="hash.c",
         funcs=["ext2fs_ext_attr_hash_entry3", "ext2fs_ext_attr_hash_entry", "ext2fs_ext_attr_hash_entry_signed"],
         configs=[{"MODE": 1}, {"MODE": 2}, {"MODE": 3}],
         unwind=5, unwindset=HASH_UW, backends=["default", "kissat"],
         bound="names 0..6 bytes (all byte values), values 0..8 bytes incl. padding bytes, all 2^32 stored hashes; "
               "block hash over 0..3 entries with symbolic entry hashes and end pointer"),
]
XIO_UW = ["main.%d:300" % i for i in range(6)] + ["ext2fs_read_inode_full.0:300", "ext2fs_write_inode_full.0:300",
          "ext2fs_read_ext_attr3.0:40", "xattrs_free_keys.0:6"]
HARNESSES.append(
    dict(name="xwstep", src="xio.c",
         funcs=["ext2fs_xattrs_write", "ext2fs_file_acl_block"],
         extra_src=["lib/ext2fs/blknum.c"],
         cut_statics={"lib/ext2fs/ext_attr.c": ["write_xattrs_to_buffer", "prep_ea_block_for_write", "ext2fs_write_ext_attr3", "ext2fs_free_ext_attr"]},
         configs=[{"MODE": 1, "ISIZE": 256}, {"MODE": 1, "ISIZE": 160}, {"MODE": 1, "ISIZE": 128}], witness_per_config=True,
         unwind=3, unwindset=XIO_UW, backends=["default", "kissat"], cap_quick=300,
         bound="inode size 128 / 160 / 256 (compile-time), every byte of the stored inode symbolic (any 16-bit i_extra_isize, any i_file_acl), "
               "s_want_extra_isize 0..inode size-128, handle with 0..3 attributes and any ibody_count, symbolic failure of every callee; "
               "callees (serialiser, block preparation, block write) are recording stubs; block size 1024, no 64bit"))
HARNESSES.append(
    dict(name="xread", src="xio.c",
         funcs=["ext2fs_xattrs_read", "ext2fs_xattrs_read_inode", "xattrs_free_keys", "ext2fs_file_acl_block", "ext2fs_blocks_count"],
         extra_src=["lib/ext2fs/blknum.c"],
         cut_statics={"lib/ext2fs/ext_attr.c": ["read_xattrs_from_buffer", "ext2fs_read_ext_attr3"]},
         configs=[{"MODE": 2, "ISIZE": 256}, {"MODE": 2, "ISIZE": 160}, {"MODE": 2, "ISIZE": 128}], witness_per_config=True,
         unwind=3, unwindset=XIO_UW, backends=["default", "kissat"], cap_quick=300,
         bound="inode size 128 / 160 / 256 (compile-time), every byte of the stored inode symbolic (i_extra_isize, magic position and value, "
               "i_file_acl), 32-byte block header symbolic, s_first_data_block / s_blocks_count 32-bit symbolic, the (cut) parser reports 0..2 "
               "attributes per region or fails, symbolic inode / block read failure; block size 1024, no 64bit"))
MKEA_UW = ["main.%d:10" % i for i in range(6)] + ["strlen.0:10"]
HARNESSES.append(
    dict(name="mkea", src="mkea.c",
         funcs=["xattr_create_ea_inode", "ext2fs_set_ea_inode_ref", "ext2fs_set_ea_inode_hash"],
         configs=[{"MODE": 1, "EXTENTS": 1}, {"MODE": 1, "EXTENTS": 0}], witness_per_config=True,
         unwind=3, unwindset=MKEA_UW, backends=["default", "kissat"], cap_quick=300,
         bound="value length any 32-bit number (bytes only handed on), new inode number, current time, checksum seed and value hash symbolic 32-bit; "
               "symbolic failure of the allocator, both inode writes, open and content write; extents feature on/off; allocator, inode I/O, "
               "file I/O, crc32c and bitmap update are recording stubs"))
HARNESSES.append(
    dict(name="mkentry", src="mkea.c",
         funcs=["xattr_update_entry", "xattr_create_ea_inode"],
         cut_statics={"lib/ext2fs/ext_attr.c": ["xattr_inode_dec_ref"]},
         configs=[{"MODE": 2}, {"MODE": 2, "NEWENTRY": None}], witness_per_config=True,
         unwind=3, unwindset=MKEA_UW, backends=["default", "kissat"], cap_quick=300,
         bound="as mkea; one list entry user.ab (existing with a 4-byte value in-line or in a value inode with symbolic number, or an empty slot), "
               "new value of 6 bytes forced into a value inode (in_inode = 1); symbolic failure of dropping the old reference"))
HARNESSES.append(
    dict(name="seteai", src="seteai.c",
         funcs=["ext2fs_xattr_set", "space_used"],
         cut_statics={"lib/ext2fs/ext_attr.c": ["xattr_array_update", "ext2fs_xattrs_write"]},
         configs=[{"VL": 968, "FEAT": 1}, {"VL": 969, "FEAT": 1}, {"VL": 8, "FEAT": 1}, {"VL": 969, "FEAT": 0}, {"VL": 8, "FEAT": 0},
                  {"VL": 969, "FEAT": 1, "SYSDATA": 1}, {"VL": 8, "FEAT": 1, "SYSDATA": 1}], witness_per_config=True,
         unwind=3, unwindset=["strcmp.0:26", "strlen.0:26", "memcmp.0:10", "space_used.0:2", "ext2fs_xattr_set.0:2"],
         backends=["default", "kissat"], cap_quick=300,
         bound="empty attribute list, 256-byte inode (i_extra_isize 32), block size 1024, value length 8 / 968 / 969 (compile-time, around the "
               "value-inode threshold), ea_inode feature on/off, names user.a and system.data; first edit fails with NO_SPACE / another error / "
               "succeeds, second edit and write-back fail symbolically"))
# EAREF-BEGIN (e2fsck/ea_refcount.c; entry maintained separately)
def EAREF_UW(sz):   # binary search over <= sz+1 entries (second lookup from the post state); retry (backward goto) at most once; collapse / walk over <= sz entries
    return ["get_refcount_el.0:%d" % ((sz + 1).bit_length() + 1), "get_refcount_el.1:2", "refcount_collapse.0:%d" % (sz + 1),
            "ea_refcount_intr_next.0:%d" % (sz + 2)]
HARNESSES.append(dict(name="earef", src="earef.c",
     funcs=["get_refcount_el", "insert_refcount_el", "refcount_collapse", "ea_refcount_increment", "ea_refcount_fetch"],
     configs=[{"OP": 2, "SZ": 3, "_unwindset": EAREF_UW(3)}, {"OP": 4, "SZ": 3, "_unwindset": EAREF_UW(3)},
              {"OP": 1, "SZ": 4}, {"OP": 3, "SZ": 4}, {"OP": 5, "SZ": 4},
              {"OP": 2, "SZ": 4, "_tier": "thorough"}, {"OP": 4, "SZ": 4, "_tier": "thorough"}],
     cbmc_flags=["--max-field-sensitivity-array-size", "128"],
     unwind=6, unwindset=EAREF_UW(4),
     backends=["default", "kissat"], cap_quick=300,
     bound="table of capacity 4, count 0..4 symbolic, keys/values/operand/probe key full 64 bit, cursor any size_t; one operation"))
# EAREF-END
MANIFEST = {
    "text": "Bounded-exhaustive for the attribute list and its byte image: from every valid in-memory list within the bounds, one "
            "set (xattr_array_update), remove or get yields exactly the model map, keeps both parts within their capacity and the block "
            "part in kernel order; the serialiser writes a region that an independent reader of the on-disk format and the real parser "
            "both decode to the same list (in-line values and values kept in an EA inode); ext2fs_xattr_set skips the edit only when the stored "
            "value equals the new one in length and content and otherwise passes name, value and the free space derived from the inode to the "
            "list edit and writes back once; entry and block hashes equal the format's definition for all inputs in the bound. "
            "Reference counts: a shared attribute block is written back with count-1 and released only by its last user; a value inode loses "
            "exactly one reference, on the right inode, and is released at 0; the parser accepts an entry iff it satisfies the stated rules "
            "(value inode sizes up to 64 KiB inclusive). Writing the list allocates a block iff the inode has none or shares one, charges i_blocks one block iff it had none, and leaves the inode unwritten on any failure. "
            "Whole write / read steps (large inodes): the in-inode region sits behind i_extra_isize and the magic, the first ibody_count attributes go "
            "there with offset base 0 and the rest to block + 32 with base 32, the block is prepared and written once to the inode's i_file_acl, the inode "
            "is written once, last, and not at all after any failure; the reader parses exactly the regions present (room + magic; i_file_acl in "
            "range + v2 magic) with the matching bases and sets count / ibody_count. A new value inode is a 0600 regular file with EXT4_EA_INODE_FL, "
            "one link, reference count 1 and crc32c(seed, value) in i_atime in its LAST written image, marked in use once; a failed drop of the old "
            "reference gives the new inode back; ext2fs_xattr_set uses a value inode at once iff ea_inode and length > blocksize - 56, retries once "
            "after NO_SPACE only, never for system.data. e2fsck's ea_refcount table behaves as a key->count map for one operation from any valid table.",
    "note": "Trusted: CBMC's C semantics, the harness's restatement of the on-disk format (xa_common.h), the element-wise memmove model, "
            "bounds listed per harness in evidence/C15.json.",
}
