/*
 * C15/earef: the reference-count table of e2fsck (e2fsck/ea_refcount.c: counts of
 * users per attribute block / per value inode), ONE operation from an ARBITRARY
 * VALID table (pattern I).
 *
 * The table is a sorted array of {key, value} with a binary search and a cursor.
 * It denotes a map key -> value: a key that is absent counts 0 and an entry whose
 * value is 0 is the same as an absent key (such entries legitimately stay in the
 * array until refcount_collapse() needs the room).
 *
 * Pre-state: capacity SZ, count 0..SZ symbolic, keys strictly increasing, values
 * symbolic including 0, cursor any size_t, memory behind count symbolic garbage.
 * Operation (OP, compile-time): 1 ea_refcount_fetch, 2 ea_refcount_increment,
 * 3 ea_refcount_decrement, 4 ea_refcount_store (symbolic value incl. 0),
 * 5 ea_refcount_intr_begin + ea_refcount_intr_next walk.  The key is symbolic 64-bit.
 * Post: for a symbolic probe key q the denotation of the table at q (linear scan) is
 * model(pre, op)(q); returned value / error code as the model says; the invariant
 * holds again (count <= size, keys strictly increasing); the array grows (by exactly
 * 100 entries, one ext2fs_resize_mem) only when an entry must be created, the array is full and
 * holds no zero-valued entry; a second, REAL ea_refcount_fetch(q) from the post state
 * (binary search + cursor) returns the denotation at q.
 */
#include "config.h"
#include <stdlib.h>
#include <string.h>
#include "e2fsck.h"
static errcode_t stub_resize_mem(unsigned long old_size, unsigned long size, void *ptr);
static void *stub_memmove(void *dst, const void *src, size_t n);
#define ext2fs_resize_mem stub_resize_mem
#define memmove stub_memmove
#include "e2fsck/ea_refcount.c"
#undef memmove
#undef ext2fs_resize_mem

#ifndef SZ
#define SZ 4			/* capacity (refcount->size) before the operation */
#endif
#ifndef OP
#define OP 2
#endif
#define GROW 100		/* documented growth step of the array */

/* backing store: room for the grown table; one object (the real code gets it from realloc) */
static struct ea_refcount_el vf_list[SZ + GROW];
static struct ea_refcount vf_rc;

/* STUB: ext2fs_resize_mem() (a realloc wrapper; called only by insert_refcount_el) keeps the table in place in a backing array that has room for size + 100 entries and records the call, the old and the requested size in bytes. Allocation failure is out of scope */
static int stub_realloc_calls, stub_realloc_bad;
static unsigned long stub_realloc_old, stub_realloc_size;
static errcode_t stub_resize_mem(unsigned long old_size, unsigned long size, void *ptr)
{
	stub_realloc_calls++;
	stub_realloc_old = old_size;
	stub_realloc_size = size;
	if (ptr != (void *) &vf_rc.list || vf_rc.list != vf_list || size > sizeof(vf_list))
		stub_realloc_bad = 1;
	return 0;
}

/* STUB: memmove() (only used by insert_refcount_el to open a gap in the array) copies whole {key,value} elements through a temporary, at most SZ of them, and checks that source and destination lie inside the first count+1 <= size elements; length not a multiple of the element size or out of range is recorded and fails a PROP */
static int stub_memmove_bad, stub_memmove_calls;
static void *stub_memmove(void *dst, const void *src, size_t n)
{
	struct ea_refcount_el tmp[SZ];
	const struct ea_refcount_el *s = src;
	struct ea_refcount_el *d = dst;
	size_t i, k = n / sizeof(struct ea_refcount_el);

	stub_memmove_calls++;
	if (n % sizeof(struct ea_refcount_el) || k > SZ || k == 0)
		stub_memmove_bad = 1;
	if (s < vf_list || d != s + 1 || (size_t) (d - vf_list) + k > vf_rc.size)
		stub_memmove_bad = 1;
	for (i = 0; i < SZ; i++)
		if (i < k)
			tmp[i] = s[i];
	for (i = 0; i < SZ; i++)
		if (i < k)
			d[i] = tmp[i];
	return dst;
}

struct vf_in {
	__u64 key[SZ + 1], val[SZ + 1];	/* array content; elements >= count are garbage */
	unsigned char count;
	__u64 cursor;
	__u64 k, v;			/* operand key, value to store */
	__u64 q;			/* probe key */
	__u64 ret0;			/* initial content of *ret */
};
VF_DECLARE_INPUT(struct vf_in, IN)
#include "vf_input.inc"

/* ---- independent reference: the map denoted by an array, by linear scan ---- */
static __u64 ref_pre(__u64 q)		/* pre-state map at q */
{
	int i;
	__u64 r = 0;
	for (i = 0; i < SZ; i++)
		if (i < IN.count && IN.key[i] == q)
			r = IN.val[i];
	return r;
}
static int ref_pre_has(__u64 q)		/* key occupies an array slot (possibly with value 0) */
{
	int i, r = 0;
	for (i = 0; i < SZ; i++)
		if (i < IN.count && IN.key[i] == q)
			r = 1;
	return r;
}
static int ref_pre_zeroes(void)		/* number of zero-valued slots */
{
	int i, r = 0;
	for (i = 0; i < SZ; i++)
		if (i < IN.count && IN.val[i] == 0)
			r++;
	return r;
}
static __u64 ref_post(__u64 q, int *hits)	/* post-state map at q; *hits = number of slots with key q */
{
	int i, h = 0;
	__u64 r = 0;
	for (i = 0; i < SZ + 1; i++)
		if ((size_t) i < vf_rc.count && vf_list[i].ea_key == q) {
			r = vf_list[i].ea_value;
			h++;
		}
	*hits = h;
	return r;
}
/* the model: map after the operation, at q */
static __u64 ref_model(__u64 q)
{
	__u64 old = ref_pre(q);
	if (q != IN.k)
		return old;
#if OP == 2
	return old + 1;
#elif OP == 3
	return old ? old - 1 : 0;
#elif OP == 4
	return IN.v;
#else
	return old;
#endif
}

int main(void)
{
	errcode_t rc = 0;
	ea_value_t ret, got;
	int i, hits, create, must_insert, must_grow;
	__u64 pre_k;

	VF_INPUT(IN);
	/* BOUND: capacity SZ entries (compile-time), count 0..SZ symbolic; keys, values, operand and probe full 64 bit */
	ASSUME(IN.count <= SZ);
	for (i = 0; i + 1 < SZ; i++)
		if (i + 1 < IN.count)
			ASSUME(IN.key[i] < IN.key[i + 1]);	/* Inv: keys strictly increasing over [0,count) */
	pre_k = ref_pre(IN.k);
#if OP == 2
	/* ASSUME: a count never reaches 2^64-1 before an increment (no caller stores more than a 32-bit h_refcount / link count, except the marker EA_INODE_NO_REFS which pass 4 only reads) */
	ASSUME(pre_k != ~(__u64) 0);
#endif

	for (i = 0; i < SZ + 1; i++) {
		vf_list[i].ea_key = IN.key[i];
		vf_list[i].ea_value = IN.val[i];
	}
	vf_rc.count = IN.count;
	vf_rc.size = SZ;
	vf_rc.cursor = (size_t) IN.cursor;	/* any value: the real code resets a cursor >= count */
	vf_rc.list = vf_list;
	ret = IN.ret0;

#if OP == 1
	rc = ea_refcount_fetch(&vf_rc, IN.k, &ret);
	create = 0;
#elif OP == 2
	rc = ea_refcount_increment(&vf_rc, IN.k, &ret);
	create = 1;
#elif OP == 3
	rc = ea_refcount_decrement(&vf_rc, IN.k, &ret);
	create = 0;
#elif OP == 4
	rc = ea_refcount_store(&vf_rc, IN.k, IN.v);
	create = IN.v != 0;
#elif OP == 5
	create = 0;
	ea_refcount_intr_begin(&vf_rc);
	for (i = 0; i < SZ; i++) {
		if (i < IN.count && IN.val[i] != 0) {
			ea_key_t kk;
			ret = IN.ret0;
			kk = ea_refcount_intr_next(&vf_rc, &ret);
			PROP(kk == IN.key[i] && ret == IN.val[i], "walk yields the non-zero entries in key order, with their counts");
		}
	}
	ret = IN.ret0;
	PROP(ea_refcount_intr_next(&vf_rc, &ret) == 0 && ret == IN.ret0, "walk ends with 0 after the last non-zero entry");
	PROP(ea_refcount_intr_next(&vf_rc, 0) == 0, "walk keeps returning 0 at the end");
#endif

	/* --- result --- */
#if OP == 1
	PROP(rc == 0 && ret == pre_k, "fetch returns the count of the key (0 if absent)");
#elif OP == 2
	PROP(rc == 0 && ret == pre_k + 1, "increment returns count + 1");
#elif OP == 3
	if (pre_k == 0)
		PROP(rc == EXT2_ET_INVALID_ARGUMENT && ret == IN.ret0, "decrement of a count of 0 is refused");
	else
		PROP(rc == 0 && ret == pre_k - 1, "decrement returns count - 1");
#elif OP == 4
	PROP(rc == 0, "store succeeds");
#endif

	/* --- the map --- */
	got = ref_post(IN.q, &hits);
	PROP(got == ref_model(IN.q), "table after the operation denotes model(pre, op) at every key");
	PROP(hits <= 1, "no key occupies two slots");
	/* --- Inv --- */
	PROP(vf_rc.count <= vf_rc.size, "count <= size afterwards");
	PROP(vf_rc.count <= SZ + 1 && vf_rc.count <= (size_t) IN.count + 1, "count grows by at most one");
	for (i = 0; i < SZ; i++)
		if ((size_t) i + 1 < vf_rc.count)
			PROP(vf_list[i].ea_key < vf_list[i + 1].ea_key, "keys strictly increasing afterwards");
	PROP(vf_rc.list == vf_list, "list pointer is the (re)allocated array");

	/* --- slots, collapse, growth --- */
	must_insert = create && !ref_pre_has(IN.k);
	must_grow = must_insert && IN.count == SZ && ref_pre_zeroes() == 0;
	if (!must_insert) {
		PROP(vf_rc.count == IN.count, "no slot is created or dropped unless a new key is entered");
		PROP(stub_memmove_calls == 0, "nothing is shifted unless a new key is entered");
	} else if (IN.count < SZ)
		PROP(vf_rc.count == (size_t) IN.count + 1, "a new key takes one slot while there is room");
	else
		PROP(vf_rc.count == (size_t) IN.count - ref_pre_zeroes() + 1, "a full array drops exactly its zero-valued slots before the new key is entered");
	if (must_grow) {
		PROP(stub_realloc_calls == 1 && !stub_realloc_bad &&
		     stub_realloc_old == SZ * sizeof(struct ea_refcount_el) &&
		     stub_realloc_size == (SZ + GROW) * sizeof(struct ea_refcount_el) &&
		     vf_rc.size == SZ + GROW, "full array without zero-valued slots grows by exactly 100 entries");
	} else
		PROP(stub_realloc_calls == 0 && vf_rc.size == SZ, "the array does not grow while there is room or a zero-valued slot to reclaim");
	PROP(!stub_memmove_bad, "memmove only shifts whole elements by one slot inside the array");

	/* --- the REAL lookup from the post state (binary search + cursor) agrees with the linear scan --- */
#if OP != 5
	{
		ea_value_t r2 = IN.ret0;
		errcode_t rc2 = ea_refcount_fetch(&vf_rc, IN.q, &r2);
		PROP(rc2 == 0 && r2 == got, "real fetch from the post state finds what the linear scan finds");
	}
#endif
	VF_END();
	return 0;
}
