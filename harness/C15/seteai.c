/*
 * C15/seteai: ext2fs_xattr_set() -- WHEN a value is sent to a value inode
 * (ea_inode feature); complements harness "set" (which fixes in_inode = 0).
 * xattr_array_update and ext2fs_xattrs_write are cut (recording stubs; verified
 * by harnesses update / mkentry and xwstep).
 *
 * Reference (fs/ext4/xattr.c ext4_xattr_set_handle, EXT4_XATTR_MIN_LARGE_EA_SIZE):
 *   with the ea_inode feature a value LARGER than
 *       blocksize - 32 (block header) - 20 (smallest entry: 16 + 3-byte name padded) - 4 (terminator)
 *   goes to a value inode at once; a smaller one is first tried in-line and, only
 *   if the list edit reports EXT2_ET_EA_NO_SPACE, tried ONCE more with a value
 *   inode -- same name, value, length, free space and position.  Without the
 *   feature there is no second attempt and never a value inode.  system.data
 *   (inline data) never goes to a value inode and never to the block.
 *   The list is written back exactly once iff the (last) edit succeeded; any other
 *   error of the edit is returned unchanged.
 */
#include "config.h"
#include <stdio.h>
#include <string.h>
#include "ext2_fs.h"
#include "ext2_ext_attr.h"
#include "ext2fs.h"
static errcode_t xattr_array_update(struct ext2_xattr_handle *h, const char *name,
				    const void *value, size_t value_len,
				    int ibody_free, int block_free, int old_idx, int in_inode);
#include "lib/ext2fs/ext_attr.c"	/* cut_statics: xattr_array_update, ext2fs_xattrs_write */
#include "env.c"

#ifndef VL
#define VL 969		/* BOUND: value length compile-time: 968 (largest in-line candidate at block size 1024), 969, 8 */
#endif
#ifndef FEAT
#define FEAT 1		/* ea_inode feature */
#endif
#ifndef SYSDATA
#define SYSDATA 0
#endif
#define BLK 1024
#define LIMIT (BLK - 32 - 20 - 4)

struct vf_in {
	unsigned char val[4];
	unsigned char upd0, upd1_fails, write_fails;
};
VF_DECLARE_INPUT(struct vf_in, IN)
#include "vf_input.inc"

#if SYSDATA
static char vf_name[] = "system.data";
#else
static char vf_name[] = "user.a";
#endif
static unsigned char vf_value[VL + 1];

/* STUB: xattr_array_update() (cut): records the arguments of its first and second call; first call: IN.upd0 == 1 -> EXT2_ET_EA_NO_SPACE, == 2 -> EXT2_ET_SHORT_WRITE (some other error), else 0; second call: EXT2_ET_EA_NO_SPACE on IN.upd1_fails */
static int stub_upd_calls;
static struct { const char *name; const void *value; size_t len; int ibody_free, block_free, old_idx, in_inode, val_ok; } stub_u[2];
static errcode_t xattr_array_update(struct ext2_xattr_handle *h, const char *name,
				    const void *value, size_t value_len,
				    int ibody_free, int block_free, int old_idx, int in_inode)
{
	const unsigned char *v = (const unsigned char *) value;
	int ok = v[0] == IN.val[0] && v[1] == IN.val[1] && v[2] == IN.val[2] && v[3] == IN.val[3] && v[VL - 1] == 0x5a;
	(void) h;
	if (stub_upd_calls == 0) {
		stub_u[0].name = name; stub_u[0].value = value; stub_u[0].len = value_len; stub_u[0].ibody_free = ibody_free;
		stub_u[0].block_free = block_free; stub_u[0].old_idx = old_idx; stub_u[0].in_inode = in_inode; stub_u[0].val_ok = ok;
		stub_upd_calls = 1;
		return IN.upd0 == 1 ? EXT2_ET_EA_NO_SPACE : IN.upd0 == 2 ? EXT2_ET_SHORT_WRITE : 0;
	}
	stub_u[1].name = name; stub_u[1].value = value; stub_u[1].len = value_len; stub_u[1].ibody_free = ibody_free;
	stub_u[1].block_free = block_free; stub_u[1].old_idx = old_idx; stub_u[1].in_inode = in_inode; stub_u[1].val_ok = ok;
	stub_upd_calls++;
	return IN.upd1_fails ? EXT2_ET_EA_NO_SPACE : 0;
}
/* STUB: ext2fs_xattrs_write() (cut): counts calls, symbolic failure */
static int stub_write_calls;
errcode_t ext2fs_xattrs_write(struct ext2_xattr_handle *handle)
{
	(void) handle;
	stub_write_calls++;
	return IN.write_fails ? EXT2_ET_SHORT_WRITE : 0;
}
/* STUB: ext2fs_read_inode_full(): a zeroed 256-byte inode with i_extra_isize 32 */
errcode_t ext2fs_read_inode_full(ext2_filsys fs, ext2_ino_t ino, struct ext2_inode *inode, int sz)
{
	(void) fs; (void) ino; (void) sz;
	((struct ext2_inode_large *) inode)->i_extra_isize = 32;
	return 0;
}
errcode_t ext2fs_read_inode(ext2_filsys fs, ext2_ino_t ino, struct ext2_inode *inode)
{ (void) fs; (void) ino; (void) inode; return EXT2_ET_BAD_INODE_NUM; }

static struct struct_ext2_filsys vf_fs;
static struct ext2_super_block vf_sb;
static struct ext2_xattr_handle vf_h;
static struct ext2_xattr vf_at[4];

int main(void)
{
	errcode_t rc, exp_rc;
	int in0, retry, sys = SYSDATA;

	VF_INPUT(IN);
	ASSUME(IN.upd0 <= 2);
	vf_value[0] = IN.val[0]; vf_value[1] = IN.val[1]; vf_value[2] = IN.val[2]; vf_value[3] = IN.val[3];
	vf_value[VL - 1] = 0x5a;
	vf_sb.s_feature_compat = EXT2_FEATURE_COMPAT_EXT_ATTR;
	vf_sb.s_feature_incompat = FEAT ? EXT4_FEATURE_INCOMPAT_EA_INODE : 0;
	vf_sb.s_rev_level = 1;
	vf_sb.s_inode_size = 256;
	vf_fs.super = &vf_sb;
	vf_fs.blocksize = BLK;
	vf_h.magic = EXT2_ET_MAGIC_EA_HANDLE;
	vf_h.fs = &vf_fs;
	vf_h.attrs = vf_at;
	vf_h.capacity = 4;
	vf_h.ino = 12;
	/* BOUND: empty attribute list (placement arithmetic with attributes present: harness set) */
	vf_h.count = 0;
	vf_h.ibody_count = 0;

	rc = ext2fs_xattr_set(&vf_h, vf_name, vf_value, VL);

	in0 = !sys && FEAT && VL > LIMIT;
	retry = !sys && FEAT && !in0 && IN.upd0 == 1;
	PROP(stub_upd_calls == 1 + retry, "the list edit runs once, and once more only after EXT2_ET_EA_NO_SPACE of an in-line attempt with the ea_inode feature");
	PROP(stub_u[0].in_inode == in0, "first attempt uses a value inode iff ea_inode and length > blocksize - 56 (never for system.data)");
	PROP(stub_u[0].name == vf_name && stub_u[0].len == VL && stub_u[0].val_ok && stub_u[0].old_idx == -1, "edit gets name, a copy of the value, its length, no old position");
	PROP(stub_u[0].ibody_free == 256 - 128 - 32 - 4 - 4, "free space in the inode body");
	PROP(stub_u[0].block_free == (sys ? 0 : BLK - 32 - 4), "free space in the block (none for system.data)");
	if (retry) {
		PROP(stub_u[1].in_inode == 1, "second attempt uses a value inode");
		PROP(stub_u[1].name == stub_u[0].name && stub_u[1].value == stub_u[0].value && stub_u[1].len == stub_u[0].len && stub_u[1].val_ok &&
		     stub_u[1].ibody_free == stub_u[0].ibody_free && stub_u[1].block_free == stub_u[0].block_free &&
		     stub_u[1].old_idx == stub_u[0].old_idx, "second attempt differs from the first only in in_inode");
		exp_rc = IN.upd1_fails ? EXT2_ET_EA_NO_SPACE : 0;
	} else
		exp_rc = IN.upd0 == 1 ? EXT2_ET_EA_NO_SPACE : IN.upd0 == 2 ? EXT2_ET_SHORT_WRITE : 0;
	PROP(stub_write_calls == (exp_rc == 0), "the list is written back exactly once iff the edit succeeded");
	if (exp_rc == 0)
		exp_rc = IN.write_fails ? EXT2_ET_SHORT_WRITE : 0;
	PROP(rc == exp_rc, "result of the last step is returned");
	VF_END();
	return 0;
}
