/*
 * E2UNDO/undo_dry (C13): the REAL main() of misc/e2undo.c run with a command line that contains -n,
 * on an ARBITRARY undo file (header fields, key blocks, keys, checksum outcomes, superblocks all
 * symbolic; block size and key count concrete per query) and with I/O faults on every undo-file read,
 * the device superblock read and both opens.
 *
 * Asserted on EVERY path (refusals, checksum errors, I/O errors, incomplete header state, -f):
 *   the device channel is never opened with IO_FLAG_RW, no write / write_byte / discard / zeroout
 *   reaches it, ext2fs_open2 is never called with EXT2_FLAG_RW, the undo file is opened read-only.
 */
#define VF_FAULTS
#define CUT_CHECKFS
#define VF_INCLUDE_IO_MANAGER
#include "e2undo_pre.h"	/* (does #include "lib/ext2fs/io_manager.c": io_channel_read_blk64 / io_channel_write_blk64) */
#include "misc/e2undo.c"
#include "e2undo_env.h"

#if !A_DRY
#error "undo_dry needs a command line with -n"
#endif
/* STUB: io managers, ext2fs_open2/ext2fs_close_free, ext2fs_check_if_mounted, set_undo_io_*, ext2fs_crc32c_le (symbolic outcome), getopt/qsort/snprintf/exit: see e2undo_env.h */
/* BOUND: header.block_size and header.num_keys concrete per query (BSZ, NK); every other header/key field symbolic */
/* OUTSIDE: what the unix/undo managers do below the recorded calls (C13 unix_ro / C12 capture harnesses) */
static void vf_end(void)
{
	PROP(vf_dev_writes == 0, "e2undo -n: no modifying call reached the device on this path");
	PROP(!vf_dev_open_rw, "e2undo -n: no device open carried IO_FLAG_RW on this path");
	PROP(vf_open2_rw == 0, "e2undo -n: no ext2fs_open2 call carried EXT2_FLAG_RW on this path");
	PROP(vf_fs_closed == 0 || !(vf_fs_close_flags & EXT2_FLAG_RW), "e2undo -n: no read/write filesystem handle is flushed");
	PROP(vf_undo_writes == 0, "the undo file being replayed is not written");
	PROP(vf_exit_code == -1 || vf_exit_code == 1, "exit status is 1 on every refusal");
#ifdef END_AT_EXIT
	VF_END();
#endif
}

int main(void)
{
	VF_INPUT(IN);
	vf_build_file();
	vf_returned = vf_real_main(VF_ARGC, vf_argv);
	vf_end();
	PROP(vf_returned == 0 || vf_returned == 1, "e2undo returns 0 or 1");
	/* the witness path: a dry run that reaches the end of main() with an incomplete header (the case the final force-fsck block keys on) */
	if (!(IN.state & E2UNDO_STATE_FINISHED))
		VF_END();
	return 0;
}
