/*
 * e2undo_pre.h -- included BEFORE misc/e2undo.c by every E2UNDO harness.
 *
 * Pulls in the headers e2undo.c uses and then redirects, by function-like /
 * object-like macros that only change the text of e2undo.c itself, the libc
 * entry points whose behaviour is part of the environment:
 *   exit()      -> vf_exit(): records the status, runs the end-of-path checks, ends the path
 *   getopt()/optind/optarg -> vf_getopt(): a deterministic POSIX getopt (argv is concrete per query)
 *   qsort()     -> stub_qsort(): insertion sort calling the REAL comparator
 *   snprintf()/strtoull() -> only the "offset=%llu" / -o uses of main()
 *   printf/fprintf and the NLS calls -> nothing
 *   io_channel_set_options() -> stub_set_options(): records the offset option
 *   main        -> vf_real_main
 */
#ifndef E2UNDO_PRE_H
#define E2UNDO_PRE_H
#include "config.h"
#include <stdio.h>
#include <stdlib.h>
#include <string.h>
#include <getopt.h>
#include <fcntl.h>
#include <errno.h>
#include <unistd.h>
#include <libgen.h>
#include <stdarg.h>
#include <locale.h>
#include <libintl.h>
/* STUB: malloc() of more than VF_BIGALLOC bytes (the 512-block extent buffer) returns an object whose size is a symbolic value constrained to equal the request: same semantics, but CBMC then keeps the object as an unbounded array instead of flattening 4M bits per version (measured: 4 GB and no verdict otherwise) */
#ifndef VF_BIGALLOC
#define VF_BIGALLOC 4096
#endif
#ifndef VF_REPLAY
__CPROVER_size_t nondet_vf_size(void);
#endif
static unsigned long vf_alloc_size[4];	/* sizes of the first allocations of main(): key array, key block, extent buffer */
static int vf_allocs;
static inline void *vf_malloc(size_t n)
{
	if (vf_allocs < 4)
		vf_alloc_size[vf_allocs] = n;
	vf_allocs++;
#ifndef VF_REPLAY
	if (n > VF_BIGALLOC) {
		size_t m = nondet_vf_size();
		__CPROVER_assume(m >= n); __CPROVER_assume(m <= n);
		return (malloc)(m);
	}
#endif
	return (malloc)(n);
}
#define malloc(n) vf_malloc(n)
#include "ext2fs/ext2fs.h"
#include "support/nls-enable.h"
#ifdef VF_INCLUDE_IO_MANAGER
#include "lib/ext2fs/io_manager.c"
#endif

void vf_exit(int code);
int vf_getopt(int argc, char *const argv[], const char *opts);
void stub_qsort(void *base, size_t n, size_t sz, int (*cmp)(const void *, const void *));
int vf_snprintf(char *buf, size_t n, const char *fmt, ...);
unsigned long long vf_strtoull(const char *s, char **end, int base);
errcode_t stub_set_options(io_channel channel, const char *opts);
static int vf_optind = 1;
static char *vf_optarg;

#define exit(c) vf_exit(c)
#define getopt(a, b, c) vf_getopt(a, b, c)
#define optind vf_optind
#define optarg vf_optarg
#define qsort(b, n, s, c) stub_qsort(b, n, s, c)
#define snprintf vf_snprintf
#define strtoull(s, e, b) vf_strtoull(s, e, b)
#define io_channel_set_options(c, o) stub_set_options(c, o)
#undef gettext
#define gettext(s) (s)
#define setlocale(a, b) ((void) 0)
#define bindtextdomain(a, b) ((void) 0)
#define textdomain(a) ((void) 0)
#define set_com_err_gettext(f) ((void) 0)
#define add_error_table(t) ((void) 0)
#define printf(...) ((void) 0)
#define fprintf(...) ((void) 0)
#define main vf_real_main
#ifdef CUT_CHECKFS
struct undo_context;
static int check_filesystem(struct undo_context *ctx, io_channel channel);	/* cut: specification stub in e2undo_env.h */
#endif
#endif
