/*
 * E2UNDO/undo_checkfs (C12/C13): the REAL check_filesystem() of misc/e2undo.c -- the function the
 * main() harnesses cut -- against the specification they assume: it switches the device channel to
 * 1024-byte blocks, reads the primary superblock (device byte 1024) and the copy stored in the undo
 * file at header.super_offset, writes nothing, and returns 0 exactly when the two are byte-identical
 * once the copy's s_magic is inverted back AND header.sb_crc equals the checksum of the copy (computed
 * over the 1024 bytes just read); non-zero on either read error.
 */
#define VF_FAULTS
#define VF_INCLUDE_IO_MANAGER
#include "e2undo_pre.h"		/* (does #include "lib/ext2fs/io_manager.c") */
#include "misc/e2undo.c"
#include "e2undo_env.h"

/* STUB: both channels as in the main() harnesses; the two superblocks are zero except s_magic, s_mtime, s_wtime, s_kbytes_written, s_uuid[0], s_blocks_count (symbolic, independently for device and copy) plus one extra byte of the device superblock at a position chosen per query (DIFFPOS) */
/* BOUND: undo block size BSZ concrete per query */
#ifndef DIFFPOS
#define DIFFPOS 1023
#endif
static void vf_end(void) { }

int main(void)
{
	static struct undo_context ctx;
	int rc, same;

	VF_INPUT(IN);
	vf_build_file();
	((unsigned char *) &vf_dev_sb)[DIFFPOS] ^= IN.padding0;
	/* pre-state: both channels open, header already read, undo file addressed in BSZ blocks */
	vf_undo_opens = 1; vf_dev_opens = 1; vf_hdr_reads = 1; vf_undo_reads = 1; vf_mount_checked = 1;
	vf_dev_open_flags = IO_FLAG_EXCLUSIVE;
	vf_ch_undo.magic = vf_ch_dev.magic = EXT2_ET_MAGIC_IO_CHANNEL;
	vf_ch_undo.manager = vf_ch_dev.manager = &vf_unix_mgr;
	vf_undo_bs = BSZ; vf_ch_undo.block_size = BSZ;
	prg_name = vf_a0;
	ctx.hdr = vf_hdr;
	ctx.undo_file = &vf_ch_undo;
	ctx.blocksize = BSZ;
	ctx.super_block = IN.super_offset;

	rc = check_filesystem(&ctx, &vf_ch_dev);

	same = ref_sb_matches() && IN.padding0 == 0;
	if ((IN.rdfail_dev & 1) || (IN.rdfail_undo & 2))
		PROP(rc != 0, "check_filesystem fails when a superblock read fails");
	else
		PROP((rc == 0) == same, "check_filesystem returns 0 exactly when the device superblock equals the stored copy and its checksum matches");
	PROP(vf_dev_writes == 0 && vf_undo_writes == 0, "check_filesystem writes nothing");
	PROP(vf_dev_reads == 1 && vf_dev_bs == SUPERBLOCK_OFFSET, "check_filesystem reads the primary superblock once, in 1024-byte units");
	PROP((IN.rdfail_dev & 1) || vf_sbcopy_reads == 1, "check_filesystem reads the stored copy once");
	PROP(vf_crc_bad_feed == 0 && vf_crc_calls <= 1, "the checksum is computed at most once, over the copy just read");
	if (rc == 0)
		PROP(vf_crc_sb == 1, "acceptance requires the checksum of the copy");
	PROP(!vf_dev_closed && !vf_undo_closed, "check_filesystem leaves both channels open");
	VF_END();
	return 0;
}
