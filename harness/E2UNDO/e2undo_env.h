/*
 * e2undo_env.h -- environment of the E2UNDO harnesses; included AFTER misc/e2undo.c
 * (so struct undo_header / undo_key_block / undo_key are the REAL definitions).
 *
 * Compile-time parameters (one query per value, guide rule 2):
 *   ARGS   which concrete command line (table below)
 *   BSZ    undo block size stored in the header (concrete: buffers are BSZ-sized)
 *   NK     number of keys stored in the header (concrete)
 *   VF_WELLFORMED   the file is a well-formed undo file (layout, magics, checksums, superblock)
 *   VF_FAULTS       undo-file reads / device reads / device writes / opens may fail (symbolic per call)
 *   VF_KB0_FAIL     (with VF_FAULTS) the read of the FIRST key block may fail too (isolated: see findings)
 *
 * The undo file is served by a protocol stub: header at block 0; the superblock copy is the
 * undo-file read that follows the device superblock read; every count==1 read is the next key
 * block; every other read is key data.  Data bytes are not materialised: a shadow records which
 * file range the buffer holds, and ONE byte at a symbolic probe position carries the file's
 * content function, so that "the device got the saved bytes" is checked for an arbitrary byte.
 */
#ifndef E2UNDO_ENV_H
#define E2UNDO_ENV_H
#undef main
#undef malloc
#undef exit
#undef getopt
#undef optind
#undef optarg
#undef qsort
#undef snprintf
#undef strtoull
#undef io_channel_set_options
#undef printf
#undef fprintf

#ifndef ARGS
#define ARGS 0
#endif
#ifndef BSZ
#define BSZ 1024
#endif
#ifndef NK
#define NK 2
#endif

/* ---------------------------------------------------------------- command lines */
static char vf_a0[] = "e2undo", vf_a_n[] = "-n", vf_a_f[] = "-f", vf_a_z[] = "-z", vf_a_h[] = "-h",
	vf_a_v[] = "-v", vf_a_o[] = "-o", vf_a_nf[] = "-nf", vf_a_off[] = "4096",
	vf_a_zf[] = "z", vf_a_u[] = "u", vf_a_u2[] = "u", vf_a_dev[] = "dev";
#define A_OFFSET_VALUE 4096ULL
#if ARGS == 0		/* e2undo u dev */
static char *vf_argv[] = { vf_a0, vf_a_u, vf_a_dev, 0 };
#define A_DRY 0
#define A_FORCE 0
#define A_Z 0
#elif ARGS == 1		/* e2undo -n u dev */
static char *vf_argv[] = { vf_a0, vf_a_n, vf_a_u, vf_a_dev, 0 };
#define A_DRY 1
#define A_FORCE 0
#define A_Z 0
#elif ARGS == 2		/* e2undo -f u dev */
static char *vf_argv[] = { vf_a0, vf_a_f, vf_a_u, vf_a_dev, 0 };
#define A_DRY 0
#define A_FORCE 1
#define A_Z 0
#elif ARGS == 3		/* e2undo -z z u dev */
static char *vf_argv[] = { vf_a0, vf_a_z, vf_a_zf, vf_a_u, vf_a_dev, 0 };
#define A_DRY 0
#define A_FORCE 0
#define A_Z 1
#elif ARGS == 4		/* e2undo -n -f u dev */
static char *vf_argv[] = { vf_a0, vf_a_n, vf_a_f, vf_a_u, vf_a_dev, 0 };
#define A_DRY 1
#define A_FORCE 1
#define A_Z 0
#elif ARGS == 5		/* e2undo -f -z z u dev */
static char *vf_argv[] = { vf_a0, vf_a_f, vf_a_z, vf_a_zf, vf_a_u, vf_a_dev, 0 };
#define A_DRY 0
#define A_FORCE 1
#define A_Z 1
#elif ARGS == 6		/* e2undo -o 4096 u dev */
static char *vf_argv[] = { vf_a0, vf_a_o, vf_a_off, vf_a_u, vf_a_dev, 0 };
#define A_DRY 0
#define A_FORCE 0
#define A_Z 0
#define A_OFFSET 1
#elif ARGS == 7		/* e2undo -nf -v -z z u dev  (grouped options) */
static char *vf_argv[] = { vf_a0, vf_a_nf, vf_a_v, vf_a_z, vf_a_zf, vf_a_u, vf_a_dev, 0 };
#define A_DRY 1
#define A_FORCE 1
#define A_Z 1
#elif ARGS == 8		/* e2undo -z u u dev : the undo file being replayed is also the -z target */
static char *vf_argv[] = { vf_a0, vf_a_z, vf_a_u2, vf_a_u, vf_a_dev, 0 };
#define A_DRY 0
#define A_FORCE 0
#define A_Z 1
#define A_SAMEFILE 1
#elif ARGS == 9		/* e2undo -h u dev : dump the header only */
static char *vf_argv[] = { vf_a0, vf_a_h, vf_a_u, vf_a_dev, 0 };
#define A_DRY 0
#define A_FORCE 0
#define A_Z 0
#define A_DUMP 1
#elif ARGS == 10	/* e2undo -n -z z u dev */
static char *vf_argv[] = { vf_a0, vf_a_n, vf_a_z, vf_a_zf, vf_a_u, vf_a_dev, 0 };
#define A_DRY 1
#define A_FORCE 0
#define A_Z 1
#else
#error "unknown ARGS"
#endif
#ifndef A_OFFSET
#define A_OFFSET 0
#endif
#ifndef A_SAMEFILE
#define A_SAMEFILE 0
#endif
#ifndef A_DUMP
#define A_DUMP 0
#endif
#define VF_ARGC ((int) (sizeof(vf_argv) / sizeof(vf_argv[0])) - 1)

/* ---------------------------------------------------------------- geometry */
#if BSZ >= 32
#define KPB (BSZ / 16 - 1)		/* keys per key block, from the format: 16-byte header, 16-byte keys */
#else
#define KPB 1				/* (degenerate block sizes: only reachable with -f; the model serves 1 key per block) */
#endif
#define NKB ((NK + KPB - 1) / KPB > 0 ? (NK + KPB - 1) / KPB : 1)	/* key blocks a well-formed file of NK keys has */
#define NKA (NK > 0 ? NK : 1)
#ifndef MAXKEYBYTES
#define MAXKEYBYTES (512ULL * BSZ)	/* what the format allows: E2UNDO_MAX_EXTENT_BLOCKS undo blocks per key */
#endif

/* ---------------------------------------------------------------- symbolic input */
struct vf_in_key { __u64 fsblk; __u32 blk_crc; __u32 size; };
struct vf_in_kbh { __u32 magic; __u32 crc; __u64 reserved; };
struct vf_in_sb { __u16 s_magic; __u32 s_mtime, s_wtime; __u64 s_kbytes_written; unsigned char uuid0; __u32 s_blocks_count; };
struct vf_in {
	/* header */
	unsigned char magic[8];
	__u64 super_offset, key_offset, fs_offset;
	__u32 fs_block_size, sb_crc, state, f_compat, f_incompat, f_rocompat, header_crc, pad32;
	unsigned char padding0;
	/* key blocks and keys (file order) */
	struct vf_in_kbh kbh[NKB];
	struct vf_in_key key[NKA];
	/* superblock of the device and the copy in the undo file (a few fields; the rest is zero in both) */
	struct vf_in_sb dsb, usb;
	/* what the checksum primitive returns for: header, superblock copy, key block b, data of key j */
	__u32 crc_hdr, crc_sb, crc_kb[NKB], crc_data[NKA];
	/* content function salt and the probed byte position */
	unsigned char salt;
	__u32 probe;
	/* environment */
	int mount_flags;
	unsigned char mount_fails;
	__u16 s_state;			/* s_state of the filesystem ext2fs_open2 hands back */
	/* faults (VF_FAULTS) */
	__u32 rdfail_undo, rdfail_dev, wrfail_dev;	/* bit k: k-th call fails */
	unsigned char open_undo_fails, open_dev_fails, open2_fails, z_setup_fails;
};
VF_DECLARE_INPUT(struct vf_in, IN)
#include "vf_input.inc"
#include "env.c"

/* ---------------------------------------------------------------- recorded protocol */
static struct struct_io_channel vf_ch_undo, vf_ch_dev;
static struct struct_ext2_filsys vf_fs;
static struct ext2_super_block vf_fs_sb;

static int vf_undo_opens, vf_undo_open_flags, vf_undo_closed, vf_undo_bs = 1024, vf_undo_writes;
static int vf_dev_opens, vf_dev_open_flags, vf_dev_open_via_undo, vf_dev_closed, vf_dev_bs = 1024;
static int vf_dev_open_rw;		/* some device open carried IO_FLAG_RW */
static int vf_dev_setbs_calls, vf_dev_flushes;
static int vf_dev_reads, vf_dev_sb_reads;
static int vf_dev_writes;		/* all modifying calls on the device channel */
static int vf_dev_other_mod;		/* write_byte / discard / zeroout / write_blk (never expected) */
static int vf_opt_calls; static unsigned long long vf_opt_offset; static char *vf_opt_buf;
static unsigned long long vf_snprintf_val; static int vf_snprintf_calls;
static int vf_open2_calls, vf_open2_rw, vf_open2_flags, vf_open2_via_undo, vf_open2_dev_closed, vf_open2_name_ok;
static int vf_fs_closed, vf_fs_close_flags; static __u16 vf_fs_close_state;
static int vf_mount_checked;
static int vf_z_backing_set, vf_z_backing_ok, vf_z_file_set, vf_z_file_ok, vf_z_order_ok = 1;
static int vf_exit_code = -1, vf_returned = -1;

/* device writes, in call order */
#define MAXW (NK + 2)
static __u64 vf_w_blk[MAXW]; static int vf_w_cnt[MAXW]; static int vf_w_bs[MAXW];
static unsigned long long vf_w_off[MAXW];
static __u64 vf_w_srcblk[MAXW]; static int vf_w_srcbs[MAXW]; static __u32 vf_w_srclen[MAXW];
static int vf_w_from_buf[MAXW]; static int vf_w_probe_ok[MAXW];

/* undo-file reads */
static int vf_undo_reads, vf_hdr_reads, vf_kb_reads, vf_data_reads, vf_sbcopy_reads;
static int vf_expect_sbcopy;
static void *vf_last_ptr; static __u64 vf_last_blk; static int vf_last_bs; static __u32 vf_last_len; static int vf_last_kind;
#define K_HDR 1
#define K_SB 2
#define K_KB 3
#define K_DATA 4
static int vf_crc_calls, vf_crc_hdr, vf_crc_sb, vf_crc_kb, vf_crc_data, vf_crc_bad_feed;
static int vf_kbcrc_field_zeroed = 1;
static __u64 vf_kb_blk[NKB];		/* where the code read key block b */
static __u64 vf_dr_blk[2 * NKA]; static __u32 vf_dr_len[2 * NKA]; static void *vf_dr_ptr[2 * NKA];

/* ---------------------------------------------------------------- helpers */
/* a violated environment precondition was just reported: end the path there, so that one defect is reported under ONE label instead of a cascade (natively the failed PROP has already aborted) */
static void vf_stop(void)
{
#ifndef VF_REPLAY
	__CPROVER_assume(0);
#endif
}
#ifndef NUMKEYS
#define NUMKEYS NK		/* header.num_keys; only the wrap query sets it apart from the number of modelled keys */
#endif
static int vf_buf_ok(const void *p, size_t n)
{
	/* is [p, p+n) inside a live object?  CBMC: the built-in predicate; natively: ASan's shadow memory */
#ifdef VF_REPLAY
	extern void *__asan_region_is_poisoned(void *beg, size_t size);
	return n == 0 || __asan_region_is_poisoned((void *) p, n) == 0;
#else
	return n == 0 || __CPROVER_w_ok(p, n);
#endif
}

/* content function of the undo file's data area: byte i of the read that starts at block blk */
static unsigned char ref_file_byte(__u64 blk, __u32 i)
{
	return (unsigned char) (blk * 131u + i * 7u + (i >> 8) + IN.salt);
}

/* ---------------------------------------------------------------- reference layout (from the format description) */
static __u64 ref_kbblk[NKB];		/* block of key block b */
static __u64 ref_fblk[NKA];		/* first data block of key j */
static void ref_layout(void)
{
	__u64 lblk = IN.key_offset;
	int j;
	for (j = 0; j < NK; j++) {
		if (j % KPB == 0) {
			ref_kbblk[j / KPB] = lblk;
			lblk++;
		}
		ref_fblk[j] = lblk;
		lblk += ((__u64) IN.key[j].size + BSZ - 1) / BSZ;
	}
	if (NK == 0)
		ref_kbblk[0] = lblk;
}

/* ---------------------------------------------------------------- getopt / libc pieces */
/* STUB: getopt() is a deterministic POSIX getopt over the concrete argv of the query (no GNU permutation: options precede the operands) */
static int vf_optpos;
int vf_getopt(int argc, char *const argv[], const char *opts)
{
	const char *a;
	char c;
	int i, takes = -1;

	vf_optarg = 0;
	if (vf_optind >= argc)
		return -1;
	a = argv[vf_optind];
	if (vf_optpos == 0) {
		if (a[0] != '-' || a[1] == 0)
			return -1;
		if (a[1] == '-' && a[2] == 0) {
			vf_optind++;
			return -1;
		}
		vf_optpos = 1;
	}
	c = a[vf_optpos];
	for (i = 0; i < 16 && opts[i]; i++)
		if (opts[i] == c && c != ':') {
			takes = (opts[i + 1] == ':');
			break;
		}
	if (takes < 0) {
		vf_optpos++;
		if (a[vf_optpos] == 0) { vf_optind++; vf_optpos = 0; }
		return '?';
	}
	if (!takes) {
		vf_optpos++;
		if (a[vf_optpos] == 0) { vf_optind++; vf_optpos = 0; }
		return c;
	}
	if (a[vf_optpos + 1]) {
		vf_optarg = (char *) &a[vf_optpos + 1];
		vf_optind++; vf_optpos = 0;
		return c;
	}
	if (vf_optind + 1 >= argc) {
		vf_optind++; vf_optpos = 0;
		return '?';
	}
	vf_optarg = argv[vf_optind + 1];
	vf_optind += 2; vf_optpos = 0;
	return c;
}

/* STUB: strtoull() knows the one offset string the command lines use */
unsigned long long vf_strtoull(const char *s, char **end, int base)
{
	(void) base;
	PROP(s == vf_a_off, "env: strtoull only parses the -o argument");
	*end = vf_a_off + 4;	/* the terminating NUL */
	return A_OFFSET_VALUE;
}

/* STUB: snprintf() is only used for "offset=%llu": records the value, reports a length that fits */
int vf_snprintf(char *buf, size_t n, const char *fmt, ...)
{
	va_list ap;
	(void) n; (void) fmt;
	va_start(ap, fmt);
	vf_snprintf_val = va_arg(ap, unsigned long long);
	va_end(ap);
	vf_snprintf_calls++;
	vf_opt_buf = buf;
	buf[0] = 'o'; buf[1] = 0;
	return 12;
}

/* STUB: qsort() is an insertion sort over at most NK elements that calls the REAL comparator (key_compare) */
void stub_qsort(void *base, size_t n, size_t sz, int (*cmp)(const void *, const void *))
{
	struct undo_key_info *k = base, t;
	int i, j;

	PROP(sz == sizeof(struct undo_key_info), "qsort element size is that of undo_key_info");
	if (!(n <= (size_t) -1 / sizeof(struct undo_key_info) && vf_buf_ok(base, n * sizeof(struct undo_key_info)))) {
		PROP(0, "qsort is given no more elements than undo_ctx.keys holds");
		vf_stop();
	}
	PROP(n <= NK, "qsort count does not exceed the number of keys in the header");
	for (i = 1; i < NK; i++)
		for (j = i; j > 0; j--)
			if ((size_t) i < n && cmp(&k[j - 1], &k[j]) > 0) {
				t = k[j - 1]; k[j - 1] = k[j]; k[j] = t;
			}
}

/* ---------------------------------------------------------------- checksum primitive (pattern T) */
/* STUB: ext2fs_crc32c_le returns a symbolic value per checksummed object (header, superblock copy, key block b, data of the key read last); it records that it was fed the buffer just read from the undo file, with the length the format prescribes (crc32c itself: C14) */
__u32 ext2fs_crc32c_le(__u32 crc, unsigned char const *p, size_t len)
{
	__u32 r = 0;
	int b, j;

	vf_crc_calls++;
	if (crc != ~0U || (const void *) p != vf_last_ptr)
		vf_crc_bad_feed = 1;
	switch (vf_last_kind) {
	case K_HDR:
		vf_crc_hdr++;
		if (len != sizeof(struct undo_header) - sizeof(__u32)) vf_crc_bad_feed = 1;
		r = IN.crc_hdr;
		break;
	case K_SB:
		vf_crc_sb++;
		if (len != SUPERBLOCK_SIZE) vf_crc_bad_feed = 1;
		r = IN.crc_sb;
		break;
	case K_KB:
		vf_crc_kb++;
		if (len != BSZ) vf_crc_bad_feed = 1;
		if (((const struct undo_key_block *) p)->crc != 0)
			vf_kbcrc_field_zeroed = 0;
		for (b = 0; b < NKB; b++)
			if (b == vf_kb_reads - 1)
				r = IN.crc_kb[b];
		break;
	case K_DATA:
		vf_crc_data++;
		if (len != vf_last_len) vf_crc_bad_feed = 1;
		/* which key: the verification phase reads each key's data once, in file order */
		for (j = 0; j < NK; j++)
			if (j == vf_data_reads - 1)
				r = IN.crc_data[j];
		break;
	default:
		vf_crc_bad_feed = 1;
	}
	return r;
}

/* ---------------------------------------------------------------- the two channels */
static struct struct_io_manager vf_unix_mgr, vf_undo_mgr;
io_manager unix_io_manager = &vf_unix_mgr;
io_manager undo_io_manager = &vf_undo_mgr;

static struct undo_header vf_hdr;		/* static: zero padding */
static struct ext2_super_block vf_dev_sb, vf_undo_sb;

static void vf_fill_sb(struct ext2_super_block *sb, const struct vf_in_sb *s)
{
	sb->s_magic = s->s_magic;
	sb->s_mtime = s->s_mtime;
	sb->s_wtime = s->s_wtime;
	sb->s_kbytes_written = s->s_kbytes_written;
	sb->s_uuid[0] = s->uuid0;
	sb->s_blocks_count = s->s_blocks_count;
}

static errcode_t stub_open_common(const char *name, int flags, io_channel *channel, int via_undo)
{
	if (name == vf_a_u) {
		vf_undo_opens++;
		vf_undo_open_flags = flags;
		PROP(!via_undo, "the undo file being replayed is opened through the plain unix manager");
		PROP(!(flags & IO_FLAG_RW), "the undo file being replayed is opened read-only");
		/* (state is set up unconditionally so that it stays a constant for the symbolic execution; on failure main() exits) */
		vf_ch_undo.magic = EXT2_ET_MAGIC_IO_CHANNEL;
		vf_ch_undo.manager = via_undo ? &vf_undo_mgr : &vf_unix_mgr;
		vf_ch_undo.name = vf_a_u;
		vf_ch_undo.block_size = 1024;
		*channel = &vf_ch_undo;
#ifdef VF_FAULTS
		if (IN.open_undo_fails)
			return EXT2_ET_BAD_DEVICE_NAME;
#endif
		return 0;
	}
	PROP(name == vf_a_dev, "only the undo file and the device are ever opened");
	vf_dev_opens++;
	vf_dev_open_flags = flags;
	vf_dev_open_via_undo = via_undo;
	if (flags & IO_FLAG_RW)
		vf_dev_open_rw = 1;
#if A_DRY
	PROP(!(flags & IO_FLAG_RW), "e2undo -n: the device channel is not opened with IO_FLAG_RW");
#endif
#if A_Z
	PROP(via_undo, "e2undo -z: the device channel is opened through the undo manager");
#else
	PROP(!via_undo, "without -z the device channel is opened through the unix manager");
#endif
	PROP(vf_mount_checked, "the mount state is checked before the device is opened");
	vf_ch_dev.magic = EXT2_ET_MAGIC_IO_CHANNEL;
	vf_ch_dev.manager = via_undo ? &vf_undo_mgr : &vf_unix_mgr;
	vf_ch_dev.name = vf_a_dev;
	vf_ch_dev.block_size = 1024;
	*channel = &vf_ch_dev;
#ifdef VF_FAULTS
	if (IN.open_dev_fails)
		return EXT2_ET_BAD_DEVICE_NAME;
#endif
	return 0;
}
static errcode_t stub_unix_open(const char *name, int flags, io_channel *channel)
{
	return stub_open_common(name, flags, channel, 0);
}
/* STUB: the undo manager (-z) is the same recording device channel, tagged "opened through the undo manager"; it requires that the backing manager and the backup file were set first (undo_io.c itself: C12 capture harnesses) */
static errcode_t stub_undo_open(const char *name, int flags, io_channel *channel)
{
	if (!(vf_z_backing_set && vf_z_file_set))
		vf_z_order_ok = 0;
	return stub_open_common(name, flags, channel, 1);
}
errcode_t set_undo_io_backing_manager(io_manager manager)
{
	vf_z_backing_set++;
	vf_z_backing_ok = (manager == &vf_unix_mgr);
#ifdef VF_FAULTS
	if (IN.z_setup_fails)
		return EXT2_ET_NO_MEMORY;
#endif
	return 0;
}
errcode_t set_undo_io_backup_file(char *file_name)
{
	vf_z_file_set++;
	vf_z_file_ok = (file_name == vf_a_zf);
	return 0;
}

static errcode_t stub_close(io_channel ch)
{
	if (ch == &vf_ch_undo) {
		PROP(vf_undo_opens > 0 && !vf_undo_closed, "undo file channel closed at most once, after being opened");
		vf_undo_closed++;
	} else {
		PROP(ch == &vf_ch_dev && vf_dev_opens > 0 && !vf_dev_closed, "device channel closed at most once, after being opened");
		vf_dev_closed++;
	}
	return 0;
}
static errcode_t stub_set_blksize(io_channel ch, int blksize)
{
	if (ch == &vf_ch_undo)
		vf_undo_bs = blksize;
	else {
		vf_dev_bs = blksize;
		vf_dev_setbs_calls++;
	}
	ch->block_size = blksize;
	return 0;
}
static errcode_t stub_flush(io_channel ch)
{
	if (ch == &vf_ch_dev)
		vf_dev_flushes++;
	return 0;
}
/* STUB: io_channel_set_options() records the offset last formatted by snprintf("offset=%llu") for the device channel */
errcode_t stub_set_options(io_channel channel, const char *opts)
{
	PROP(channel == &vf_ch_dev && !vf_dev_closed, "set_options is applied to the open device channel");
	PROP(opts == vf_opt_buf && vf_snprintf_calls == 1, "the option string is the one formatted from the offset");
	PROP(vf_dev_reads == 0 && vf_dev_writes == 0, "the offset is set before any device I/O");
	vf_opt_calls++;
	vf_opt_offset = vf_snprintf_val;
	return 0;
}

/* ---- undo file reads */
static errcode_t stub_undo_read(unsigned long long block, int count, void *data)
{
	int k = vf_undo_reads++, b, j;
	__u32 n;

	PROP(!vf_undo_closed, "no read from the undo file after it was closed");
	if (vf_hdr_reads == 0) {
		/* the first read must be the header: 512 bytes at offset 0 */
		vf_hdr_reads++;
		PROP(block == 0 && count == -(int) sizeof(struct undo_header), "the first undo-file read is the 512-byte header at offset 0");
		PROP(sizeof(struct undo_header) == 512, "struct undo_header is 512 bytes");
		*(struct undo_header *) data = vf_hdr;
		vf_last_ptr = data; vf_last_kind = K_HDR; vf_last_len = 512; vf_last_blk = 0; vf_last_bs = vf_undo_bs;
#ifdef VF_FAULTS
		if (IN.rdfail_undo & 1)
			return EXT2_ET_SHORT_READ;
#endif
		return 0;
	}
	PROP(vf_undo_bs == BSZ, "after the header the undo file is addressed in blocks of the header's block_size");
	if (vf_expect_sbcopy) {
		/* check_filesystem(): the superblock copy */
		vf_expect_sbcopy = 0;
		vf_sbcopy_reads++;
		PROP(block == IN.super_offset && count == -SUPERBLOCK_SIZE, "the superblock copy is read from header.super_offset");
		PROP(vf_buf_ok(data, SUPERBLOCK_SIZE), "superblock copy fits its destination buffer");
		*(struct ext2_super_block *) data = vf_undo_sb;
		vf_last_ptr = data; vf_last_kind = K_SB; vf_last_len = SUPERBLOCK_SIZE; vf_last_blk = block; vf_last_bs = vf_undo_bs;
#ifdef VF_FAULTS
		if (IN.rdfail_undo & 2)
			return EXT2_ET_SHORT_READ;
#endif
		return 0;
	}
	if (count == 1) {
		/* a key block */
		struct undo_key_block *kb = data;
		int kbn = vf_kb_reads++;
		/* main() allocated the key array before reading the first key block */
		if (!(vf_allocs >= 1 && vf_alloc_size[0] / sizeof(struct undo_key_info) >= NUMKEYS)) {
			PROP(0, "the key array allocation holds header.num_keys entries (no size_t wrap)");
			vf_stop();
		}
		if (!(kbn < NKB)) {
			PROP(0, "no more key blocks are read than header.num_keys requires");
			vf_stop();
		}
		PROP(vf_buf_ok(data, BSZ), "key block fits its destination buffer");
#ifdef VF_REPLAY
		memset(data, 0, BSZ);
#endif
		for (b = 0; b < NKB; b++)
			if (b == kbn) {
				vf_kb_blk[b] = block;
#if BSZ >= 16
				kb->magic = IN.kbh[b].magic;
				kb->crc = IN.kbh[b].crc;
				kb->reserved = IN.kbh[b].reserved;
#endif
#if BSZ >= 32
				for (j = 0; j < KPB && b * KPB + j < NK; j++) {
					kb->keys[j].fsblk = IN.key[b * KPB + j].fsblk;
					kb->keys[j].blk_crc = IN.key[b * KPB + j].blk_crc;
					kb->keys[j].size = IN.key[b * KPB + j].size;
				}
#endif
			}
		vf_last_ptr = data; vf_last_kind = K_KB; vf_last_len = BSZ; vf_last_blk = block; vf_last_bs = vf_undo_bs;
#ifdef VF_FAULTS
#ifndef VF_KB0_FAIL
		if (kbn > 0)
#endif
		if (IN.rdfail_undo & (4u << (kbn & 3)))
			return EXT2_ET_SHORT_READ;
#endif
		return 0;
	}
	/* key data */
	n = count < 0 ? (__u32) (-(long long) count) : (__u32) count * (__u32) vf_undo_bs;
	if (!vf_buf_ok(data, n)) {
		PROP(0, "key data read from the undo file fits the extent buffer (E2UNDO_MAX_EXTENT_BLOCKS * block_size)");
		vf_stop();
	}
	PROP(vf_data_reads < 2 * NK, "each key's data is read at most twice (verification, replay)");
	for (j = 0; j < 2 * NK; j++)
		if (j == vf_data_reads) {
			vf_dr_blk[j] = block; vf_dr_len[j] = n; vf_dr_ptr[j] = data;
		}
	vf_data_reads++;
	(void) k;
#ifdef VF_REPLAY
	{
		__u32 i;
		for (i = 0; i < n; i++)
			((unsigned char *) data)[i] = ref_file_byte(block, i);
	}
#elif !defined(VF_NO_PROBE)
	if (IN.probe < n)
		((unsigned char *) data)[IN.probe] = ref_file_byte(block, IN.probe);
#endif
	vf_last_ptr = data; vf_last_kind = K_DATA; vf_last_len = n; vf_last_blk = block; vf_last_bs = vf_undo_bs;
#ifdef VF_FAULTS
	if (IN.rdfail_undo & (0x100u << ((vf_data_reads - 1) & 7)))
		return EXT2_ET_SHORT_READ;
#endif
	return 0;
}

/* ---- device */
static errcode_t stub_dev_read(unsigned long long block, int count, void *data)
{
	int k = vf_dev_reads++;
	PROP(!vf_dev_closed, "no device read after the channel was closed");
	/* the only device read e2undo makes: the primary superblock (block 1 of 1024, 1024 bytes) */
	PROP(vf_dev_bs == SUPERBLOCK_OFFSET && block == 1 && count == -SUPERBLOCK_SIZE, "the only device read is the primary superblock at byte 1024");
	vf_dev_sb_reads++;
	vf_expect_sbcopy = 1;
	(void) k;
	*(struct ext2_super_block *) data = vf_dev_sb;
#ifdef VF_FAULTS
	if (IN.rdfail_dev & 1)
		return EXT2_ET_SHORT_READ;
#endif
	return 0;
}
static errcode_t stub_dev_write(unsigned long long block, int count, const void *data)
{
	int k = vf_dev_writes++, i;
#if A_DRY
	PROP(0, "e2undo -n: the device receives no write");
#endif
	PROP(!vf_dev_closed, "no device write after the channel was closed");
	PROP(vf_dev_open_flags & IO_FLAG_RW, "a device that is written was opened read/write");
	for (i = 0; i < MAXW; i++)
		if (i == k) {
			vf_w_blk[i] = block; vf_w_cnt[i] = count; vf_w_bs[i] = vf_dev_bs;
			vf_w_off[i] = vf_opt_calls ? vf_opt_offset : 0;
			vf_w_from_buf[i] = (data == vf_last_ptr && vf_last_kind == K_DATA);
			vf_w_srcblk[i] = vf_last_blk; vf_w_srcbs[i] = vf_last_bs; vf_w_srclen[i] = vf_last_len;
#ifndef VF_NO_PROBE
			vf_w_probe_ok[i] = !(IN.probe < vf_last_len) ||
				((const unsigned char *) data)[IN.probe] == ref_file_byte(vf_last_blk, IN.probe);
#else
			vf_w_probe_ok[i] = 1;
#endif
		}
#ifdef VF_FAULTS
	if (IN.wrfail_dev & (1u << (k & 7)))
		return EXT2_ET_SHORT_WRITE;
#endif
	return 0;
}

static errcode_t stub_read_blk64(io_channel ch, unsigned long long block, int count, void *data)
{
	if (ch == &vf_ch_undo)
		return stub_undo_read(block, count, data);
	PROP(ch == &vf_ch_dev, "env: known channel");
	return stub_dev_read(block, count, data);
}
static errcode_t stub_write_blk64(io_channel ch, unsigned long long block, int count, const void *data)
{
	if (ch == &vf_ch_undo) {
		vf_undo_writes++;
		PROP(0, "the undo file being replayed is never written");
		return 0;
	}
	PROP(ch == &vf_ch_dev, "env: known channel");
	return stub_dev_write(block, count, data);
}
static errcode_t stub_read_blk(io_channel ch, unsigned long block, int count, void *data)
{
	return stub_read_blk64(ch, block, count, data);
}
static errcode_t stub_write_blk(io_channel ch, unsigned long block, int count, const void *data)
{
	return stub_write_blk64(ch, block, count, data);
}
static errcode_t stub_write_byte(io_channel ch, unsigned long offset, int count, const void *data)
{
	(void) offset; (void) count; (void) data;
	if (ch == &vf_ch_undo) vf_undo_writes++; else { vf_dev_writes++; vf_dev_other_mod++; }
	PROP(0, "e2undo never uses write_byte");
	return 0;
}
static errcode_t stub_discard(io_channel ch, unsigned long long block, unsigned long long count)
{
	(void) block; (void) count;
	if (ch == &vf_ch_undo) vf_undo_writes++; else { vf_dev_writes++; vf_dev_other_mod++; }
	PROP(0, "e2undo never discards / zeroes device ranges");
	return 0;
}

static struct struct_io_manager vf_unix_mgr = {
	.magic = EXT2_ET_MAGIC_IO_MANAGER, .name = "unix (stub)",
	.open = stub_unix_open, .close = stub_close, .set_blksize = stub_set_blksize,
	.read_blk = stub_read_blk, .write_blk = stub_write_blk, .flush = stub_flush,
	.write_byte = stub_write_byte, .read_blk64 = stub_read_blk64, .write_blk64 = stub_write_blk64,
	.discard = stub_discard, .zeroout = stub_discard,
};
static struct struct_io_manager vf_undo_mgr = {
	.magic = EXT2_ET_MAGIC_IO_MANAGER, .name = "undo (stub)",
	.open = stub_undo_open, .close = stub_close, .set_blksize = stub_set_blksize,
	.read_blk = stub_read_blk, .write_blk = stub_write_blk, .flush = stub_flush,
	.write_byte = stub_write_byte, .read_blk64 = stub_read_blk64, .write_blk64 = stub_write_blk64,
	.discard = stub_discard, .zeroout = stub_discard,
};

/* ---------------------------------------------------------------- library entry points */
/* STUB: ext2fs_check_if_mounted() reports symbolic mount flags / failure */
errcode_t ext2fs_check_if_mounted(const char *file, int *mount_flags)
{
	PROP(file == vf_a_dev, "mount check is made on the device operand");
	vf_mount_checked = 1;
	*mount_flags = IN.mount_flags;
	return IN.mount_fails ? EXT2_ET_BAD_DEVICE_NAME : 0;
}

/* STUB: ext2fs_open2() (the force-fsck block) records flags and manager and hands back a static filesystem whose s_state is symbolic; ext2fs_close_free() records the state and flags it is closed with (open/flush themselves: C13 library harnesses) */
errcode_t ext2fs_open2(const char *name, const char *io_options, int flags, int superblock,
		       unsigned int block_size, io_manager manager, ext2_filsys *ret_fs)
{
	(void) io_options; (void) superblock; (void) block_size;
	vf_open2_calls++;
	vf_open2_flags = flags;
	vf_open2_name_ok = (name == vf_a_dev);
	vf_open2_via_undo = (manager == &vf_undo_mgr);
	vf_open2_dev_closed = vf_dev_closed;
	if (flags & EXT2_FLAG_RW)
		vf_open2_rw++;
#if A_DRY
	PROP(!(flags & EXT2_FLAG_RW), "e2undo -n: ext2fs_open2 is never called with EXT2_FLAG_RW");
#endif
#if A_Z
	PROP(manager == &vf_undo_mgr, "e2undo -z: the force-fsck open of the device goes through the undo manager");
#else
	PROP(manager == &vf_unix_mgr, "without -z the force-fsck open uses the unix manager");
#endif
	PROP(vf_open2_calls == 1, "the filesystem is opened at most once");
	vf_fs.magic = EXT2_ET_MAGIC_EXT2FS_FILSYS;
	vf_fs.flags = flags;
	vf_fs.super = &vf_fs_sb;
	vf_fs_sb.s_state = IN.s_state;
	*ret_fs = &vf_fs;
#ifdef VF_FAULTS
	if (IN.open2_fails) {
		*ret_fs = 0;
		return EXT2_ET_BAD_MAGIC;
	}
#endif
	return 0;
}
errcode_t ext2fs_close_free(ext2_filsys *fs)
{
	PROP(*fs == &vf_fs && !vf_fs_closed, "the filesystem handed out by ext2fs_open2 is closed once");
	vf_fs_closed++;
	vf_fs_close_flags = vf_fs.flags;
	vf_fs_close_state = vf_fs_sb.s_state;
	*fs = 0;
	return 0;
}

static int ref_sb_matches(void);
/* ---------------------------------------------------------------- check_filesystem() cut (assume-guarantee) */
#ifdef CUT_CHECKFS
/* STUB: check_filesystem() is CUT in this harness and replaced by its specification (verified on the real function by harness undo_checkfs): it switches the device channel to 1024-byte blocks, reads the primary superblock from the device and the copy from the undo file, writes nothing, and returns 0 exactly when the two agree (copy's s_magic inverted) and header.sb_crc matches the checksum of the copy; non-zero on a read error */
static int vf_checkfs_calls, vf_checkfs_args_ok;
static int check_filesystem(struct undo_context *ctx, io_channel channel)
{
	vf_checkfs_calls++;
	vf_checkfs_args_ok = (channel == &vf_ch_dev && ctx->undo_file == &vf_ch_undo && ctx->super_block == IN.super_offset &&
			      ctx->blocksize == BSZ && ctx->hdr.sb_crc == IN.sb_crc);
	PROP(!vf_dev_closed && vf_dev_opens == 1, "check_filesystem runs on the open device channel");
	PROP(vf_dev_writes == 0, "the filesystem identity is checked before the first device write");
	vf_dev_bs = SUPERBLOCK_OFFSET;
	vf_ch_dev.block_size = SUPERBLOCK_OFFSET;
	vf_dev_reads++;
	vf_dev_sb_reads++;
	vf_sbcopy_reads++;
#ifdef VF_FAULTS
	if (IN.rdfail_dev & 1)
		return EXT2_ET_SHORT_READ;
	if (IN.rdfail_undo & 2)
		return EXT2_ET_SHORT_READ;
#endif
	return ref_sb_matches() ? 0 : -1;
}
#endif

/* ---------------------------------------------------------------- input -> file image */
static void vf_build_file(void)
{
	int i;
#ifdef VF_WELLFORMED
	static const char m[8] = { 'E', '2', 'U', 'N', 'D', 'O', '0', '2' };
	for (i = 0; i < 8; i++)
		vf_hdr.magic[i] = m[i];
#else
	for (i = 0; i < 8; i++)
		vf_hdr.magic[i] = IN.magic[i];
#endif
	vf_hdr.num_keys = NUMKEYS;		/* BOUND: concrete per query */
	vf_hdr.block_size = BSZ;		/* BOUND: concrete per query */
	vf_hdr.super_offset = IN.super_offset;
	vf_hdr.key_offset = IN.key_offset;
	vf_hdr.fs_block_size = IN.fs_block_size;
	vf_hdr.sb_crc = IN.sb_crc;
	vf_hdr.state = IN.state;
	vf_hdr.f_compat = IN.f_compat;
	vf_hdr.f_incompat = IN.f_incompat;
	vf_hdr.f_rocompat = IN.f_rocompat;
	vf_hdr.pad32 = IN.pad32;
	vf_hdr.fs_offset = IN.fs_offset;
	vf_hdr.padding[0] = IN.padding0;
	vf_hdr.header_crc = IN.header_crc;
	vf_fill_sb(&vf_dev_sb, &IN.dsb);
	vf_fill_sb(&vf_undo_sb, &IN.usb);
	ref_layout();
}

/* the format's notion of an intact file, stated on the input (used as ASSUME by the well-formed
 * harness and as the antecedent of the refusal properties) */
static int ref_hdr_intact(void)
{
	return IN.header_crc == IN.crc_hdr;
}
static int ref_sb_matches(void)
{
	return (__u16) ~IN.usb.s_magic == IN.dsb.s_magic && IN.usb.s_mtime == IN.dsb.s_mtime &&
		IN.usb.s_wtime == IN.dsb.s_wtime && IN.usb.s_kbytes_written == IN.dsb.s_kbytes_written &&
		IN.usb.uuid0 == IN.dsb.uuid0 && IN.usb.s_blocks_count == IN.dsb.s_blocks_count &&
		IN.sb_crc == IN.crc_sb;
}
static int ref_keys_intact(void)
{
	int b, j, ok = 1;
	for (b = 0; b < NKB && b * KPB < NK; b++)
		if (IN.kbh[b].magic != 0xCADECADE || IN.kbh[b].crc != IN.crc_kb[b])
			ok = 0;
	for (j = 0; j < NK; j++)
		if (IN.key[j].blk_crc != IN.crc_data[j])
			ok = 0;
	return ok;
}
static int ref_sizes_ok(void)
{
	int j, ok = 1;
	for (j = 0; j < NK; j++)
		if (IN.key[j].size > MAXKEYBYTES)
			ok = 0;
	return ok;
}

/* ---------------------------------------------------------------- path end */
static void vf_end(void);
void vf_exit(int code)
{
	vf_exit_code = code;
	vf_end();
#ifdef VF_REPLAY
	fflush(0);
	_exit(0);
#else
	__CPROVER_assume(0);
#endif
}
#endif
