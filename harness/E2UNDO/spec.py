"""E2UNDO -- protocol harnesses (pattern P) over the REAL main() of misc/e2undo.c, shared by C12, C13 and C06.

The lead wires the HARNESSES entries into C12/C13/C06 spec.py with src="../E2UNDO/<file>.c" (see ENTRIES_FOR at the end).
"""
META = {
    "assumptions": [
        "allocation failure out of scope (--no-malloc-may-fail)",
        "command lines are the concrete argv vectors of e2undo_env.h (ARGS=0..10); getopt is a deterministic POSIX getopt (no GNU permutation of operands)",
        "header.block_size (BSZ) and header.num_keys (NK) are concrete per query; all other header / key-block / key fields, the checksum "
        "outcomes, the superblocks' compared fields, mount state, s_state and the I/O faults are symbolic",
        "the undo file and the device are protocol stubs at the io_manager interface (open/read_blk64/write_blk64/set_blksize/close recorded); "
        "key DATA is represented by the file range the buffer was filled from plus one byte at a symbolic probe position",
        "ext2fs_crc32c_le returns an arbitrary value per checksummed object and records what it was fed (crc32c itself: C14)",
        "check_filesystem() is cut in the main() harnesses and verified on its own by undo_checkfs against the same specification",
        "ext2fs_open2 / ext2fs_close_free / ext2fs_check_if_mounted / set_undo_io_backing_manager / set_undo_io_backup_file are recording stubs",
        "malloc above 4096 bytes returns an object of symbolic size constrained to equal the request (keeps the real 512-block extent buffer out of the bit-level encoding)",
    ],
    "outside": [
        "undo files with more keys than NK (2; 3 with 48-byte blocks) and more than 2 key blocks; block sizes other than 48 / 1024 / 4096 / 1 MiB",
        "what unix_io / undo_io do below the recorded manager calls (C17, C12 capture, C13 unix_ro)",
        "e2undo_setup_tdb's E2FSPROGS_UNDO_DIR branch (-z with an empty name); usage() text; -v output",
        "I/O errors during a forced (-f) replay are only covered for memory safety and for -n, not for which keys get written",
    ],
}
UW = ["vf_real_main.0:8", "vf_build_file.0:9", "vf_getopt.0:9", "memcmp.0:1025", "strcmp.0:4", "ref_magic_ok.0:9"]
CUT = {"misc/e2undo.c": ["check_filesystem"]}
REAL = ["vf_real_main", "key_compare", "io_channel_read_blk64", "io_channel_write_blk64"]
WRAP = "768614336404564651ULL"     # 24 * WRAP == 2^64 + 8
T = {"_tier": "thorough"}

HARNESSES = [
    # ---- C12
    dict(name="undo_replay", src="undo_replay.c", funcs=REAL + ["e2undo_setup_tdb"], cut_statics=CUT,
         configs=[{"ARGS": 3, "BSZ": 1024, "NK": 2},            # -z z u dev
                  {"ARGS": 0, "BSZ": 1024, "NK": 2},            # u dev
                  {"ARGS": 2, "BSZ": 1024, "NK": 2},            # -f u dev
                  {"ARGS": 5, "BSZ": 1024, "NK": 2},            # -f -z z u dev
                  {"ARGS": 6, "BSZ": 1024, "NK": 1},            # -o 4096 u dev
                  {"ARGS": 0, "BSZ": 1024, "NK": 0},            # empty undo file
                  {"ARGS": 0, "BSZ": 4096, "NK": 1},
                  {"ARGS": 2, "BSZ": 48, "E2FSPROGS_VERIF_UNDO_MIN_BLOCK_SIZE": 48, "NK": 3},              # scaled minimum block size (hook H5): 2 keys per key block -> two key blocks
                  {"ARGS": 0, "BSZ": 1048576, "NK": 2},             # largest block size e2undo accepts without -f
                  {"ARGS": 0, "BSZ": 1024, "NK": 3}],
         unwind=7, unwindset=UW, backends=["default", "kissat"], cap_quick=150,
         bound="well-formed undo file: header + superblock copy + <= 2 key blocks + NK <= 3 keys of 1..512*block_size bytes (all sizes, "
               "target blocks < 2^31, layout start, fs block size, fs offset, FINISHED flag symbolic); undo block size 1024 (also 48 with -f, "
               "4096, 1 MiB); command lines: plain, -f, -z, -f -z, -o"),
    dict(name="undo_refuse", src="undo_refuse.c", funcs=REAL, cut_statics=CUT,
         configs=[{"ARGS": 0, "BSZ": 1024, "NK": 2},
                  {"ARGS": 3, "BSZ": 1024, "NK": 1},
                  {"ARGS": 8, "BSZ": 1024, "NK": 1, "END_AT_EXIT": None},     # -z u u dev
                  {"ARGS": 9, "BSZ": 1024, "NK": 1, "END_AT_EXIT": None}],    # -h u dev
         witness_per_config=False,
         unwind=7, unwindset=UW, backends=["default", "kissat"], cap_quick=150,
         bound="every damage class of header / superblock copy / key block / key (magic, each checksum outcome, feature words, sizes, mount "
               "state) symbolic and independent; undo block 1024, NK <= 2 keys; no -f, no -n"),
    dict(name="undo_force", src="undo_force.c", funcs=REAL, cut_statics=CUT,
         configs=[{"ARGS": 2, "BSZ": 1024, "NK": 2}, {"ARGS": 5, "BSZ": 1024, "NK": 1}],
         unwind=7, unwindset=UW, backends=["default", "kissat"], cap_quick=150,
         bound="as undo_refuse, command lines -f and -f -z; no I/O errors"),
    dict(name="undo_checkfs", src="undo_checkfs.c", funcs=["check_filesystem", "print_undo_mismatch", "io_channel_read_blk64"],
         configs=[{"BSZ": 1024, "DIFFPOS": 1023}, {"BSZ": 4096, "DIFFPOS": 200}],
         unwind=7, unwindset=UW, backends=["default", "kissat"], cap_quick=150,
         bound="1024-byte superblocks zero except 6 symbolic fields each + one extra symbolic device byte (position per query); read faults symbolic"),
    # ---- C13
    dict(name="undo_dry", src="undo_dry.c", funcs=REAL, cut_statics=CUT,
         configs=[{"ARGS": 1, "BSZ": 1024, "NK": 2},            # -n u dev
                  {"ARGS": 4, "BSZ": 1024, "NK": 2},            # -n -f u dev
                  {"ARGS": 10, "BSZ": 1024, "NK": 1},           # -n -z z u dev
                  {"ARGS": 7, "BSZ": 1024, "NK": 1},            # -nf -v -z z u dev
                  {"ARGS": 4, "BSZ": 48, "E2FSPROGS_VERIF_UNDO_MIN_BLOCK_SIZE": 48, "NK": 3}],
         unwind=7, unwindset=UW, backends=["default", "kissat"], cap_quick=150,
         bound="arbitrary undo file (all fields symbolic except block size 1024/48 and key count <= 3), every read / open may fail; "
               "command lines -n, -n -f, -n -z, -nf -v -z"),
    # ---- C06
    dict(name="undo_mem", src="undo_mem.c", funcs=REAL, cut_statics=CUT, checks="memsafe",
         configs=[{"ARGS": 0, "BSZ": 1024, "NK": 2},
                  {"ARGS": 2, "BSZ": 1024, "NK": 2},
                  {"ARGS": 4, "BSZ": 1024, "NK": 2},
                  {"ARGS": 2, "BSZ": 48, "E2FSPROGS_VERIF_UNDO_MIN_BLOCK_SIZE": 48, "NK": 3},
                  {"ARGS": 0, "BSZ": 4096, "NK": 1},
                  # regression queries for three repaired defects (known_findings.txt: fixed C06 c7ab47ae, 3a4c84b6, 5f2bee29):
                  {"ARGS": 2, "BSZ": 1024, "NK": 2, "VF_KB0_FAIL": None},      # -f, first key block unreadable: num_keys = i - 1 = SIZE_MAX
                  {"ARGS": 2, "BSZ": 16, "NK": 1},                             # -f, block_size 16..31: keys_per_block == 0
                  {"ARGS": 0, "BSZ": 1024, "NK": 1, "NUMKEYS": WRAP}],         # no -f: 24 * num_keys wraps size_t
         unwind=7, unwindset=UW, backends=["default"], cap_quick=150,
         bound="arbitrary undo file bytes as seen through the header / key block / key fields (block size and key count concrete per query: "
               "1024 x 2, 48 x 3, 4096 x 1), the REAL E2UNDO_MAX_EXTENT_BLOCKS = 512, read / write / open faults; standard CBMC checks on"),
]
MANIFEST = {
    "text": "The real main() of misc/e2undo.c is executed symbolically for concrete command lines over a recording model of the undo file, "
            "the device and the library entry points it uses. Decided: (C13) with -n no path -- refusal, checksum error, I/O error, "
            "incomplete record, -f -- opens the device read/write, writes to it, or opens the filesystem read/write; (C12) a well-formed "
            "file is replayed as exactly one write per key at fsblk * fs_block_size (+ offset), with the stored bytes, in ascending order, "
            "nothing else, the needs-fsck mark exactly for -f / incomplete records and through the undo manager with -z; any damaged "
            "component leads to exit 1 before the first write; (C06) no read from the undo file exceeds its destination buffer and the "
            "key array is never over-indexed, for the queried block sizes.",
    "note": "Trusted: the protocol stubs (e2undo_env.h), the deterministic getopt, the cut of check_filesystem (closed by undo_checkfs), "
            "CBMC's C semantics. Three genuine defects undo_mem found on the pinned tree are repaired (known_findings.txt).",
}

def ENTRIES_FOR(prop):
    """HARNESSES entries to paste into harness/<prop>/spec.py"""
    sel = {"C12": ("undo_replay", "undo_refuse", "undo_force", "undo_checkfs"), "C13": ("undo_dry", "undo_checkfs"), "C06": ("undo_mem",)}[prop]
    out = []
    for h in HARNESSES:
        if h["name"] in sel:
            d = dict(h)
            d["src"] = "../E2UNDO/" + h["src"]
            out.append(d)
    return out
