META = {"assumptions": ["allocation failure out of scope (--no-malloc-may-fail)"], "outside": []}
UW = ["vf_real_main.0:8", "vf_build_file.0:9", "vf_getopt.0:9", "memcmp.0:1025", "strcmp.0:4"]
HARNESSES = [
    dict(name="undo_dry", src="undo_dry.c", funcs=["vf_real_main", "check_filesystem", "key_compare", "io_channel_read_blk64"],
         extra_src=["lib/ext2fs/io_manager.c"],
         configs=[{"ARGS": 4, "BSZ": 1024, "NK": 2}],
         unwind=3, unwindset=UW, backends=["default", "kissat"],
         bound="x"),
]
MANIFEST = {"text": "x", "note": "x"}
