/*
 * E2UNDO/undo_refuse (C12): the REAL main() of misc/e2undo.c, without -n and without -f, on an undo
 * file whose header fields, key-block magics, key sizes, every checksum outcome and the superblock
 * comparison are symbolic (no I/O errors).
 *
 * Asserted: if ANYTHING is damaged -- file magic, header checksum, unknown incompat/ro-compat feature,
 * zero fs block size, device mounted / mount check failing, superblock copy or its checksum not matching
 * the device, a key block's magic or checksum, a key's size above 512 undo blocks, a key's data
 * checksum -- e2undo exits with status 1 and the device has received NO write (and no read/write
 * filesystem open); otherwise every key is written (count) and the run ends with status 0.
 * All checks precede the first write ("validation before the first write").
 */
#define CUT_CHECKFS
#define VF_INCLUDE_IO_MANAGER
#include "e2undo_pre.h"		/* (does #include "lib/ext2fs/io_manager.c") */
#include "misc/e2undo.c"
#include "e2undo_env.h"

#if A_DRY || A_FORCE
#error "undo_refuse is for command lines without -n and -f"
#endif
/* STUB: as undo_replay; ext2fs_crc32c_le returns an arbitrary value per checksummed object, so "matches" / "does not match" are both reachable for each */
/* BOUND: header.block_size = BSZ, header.num_keys = NK concrete per query */
static int ref_magic_ok(void)
{
	static const char m[8] = { 'E', '2', 'U', 'N', 'D', 'O', '0', '2' };
	int i, ok = 1;
	for (i = 0; i < 8; i++)
		if (IN.magic[i] != (unsigned char) m[i])
			ok = 0;
	return ok;
}
static void vf_end(void)
{
	int mounted = (IN.mount_flags & EXT2_MF_MOUNTED) || IN.mount_fails;
	int intact = ref_magic_ok() && ref_hdr_intact() && !IN.f_incompat && !IN.f_rocompat && IN.fs_block_size != 0 &&
		!mounted && ref_sb_matches() && ref_keys_intact() && ref_sizes_ok();

#if A_SAMEFILE
	/* e2undo -z F F dev: refuses to record into the file it replays, before opening anything */
	PROP(vf_exit_code == 1 && vf_undo_opens == 0 && vf_dev_opens == 0 && vf_z_file_set == 0 && vf_dev_writes == 0,
	     "e2undo -z with the replayed file itself is refused before anything is opened");
	intact = 0;
#elif A_DUMP
	/* e2undo -h: prints the header, exits 1, never touches the device */
	PROP(vf_exit_code == 1 && vf_dev_opens == 0 && vf_dev_writes == 0 && vf_open2_calls == 0, "e2undo -h never opens the device");
	intact = 0;
#endif
	if (!intact) {
		PROP(vf_dev_writes == 0, "a damaged undo file (or a mismatching / mounted device) is refused without any device write");
		PROP(vf_open2_calls == 0, "a refused undo file does not lead to a filesystem open");
		PROP(vf_exit_code == 1, "refusal exits with status 1");
	} else {
		PROP(vf_exit_code == -1 && vf_returned == 0, "an intact undo file is replayed and the run ends with status 0");
		PROP(vf_dev_writes == NK, "an intact undo file: one write per key");
	}
	if (mounted)
		PROP(vf_dev_opens == 0, "a mounted device is not even opened");
	PROP(vf_crc_bad_feed == 0, "each checksum is computed over the object just read, with the format's length");
#ifdef END_AT_EXIT
	VF_END();
#endif
}

int main(void)
{
	VF_INPUT(IN);
	/* ASSUME: key_offset below 2^40 (keeps the layout arithmetic of the model from wrapping) */
	ASSUME(IN.key_offset < (1ULL << 40));
	vf_build_file();
	vf_returned = vf_real_main(VF_ARGC, vf_argv);
	vf_end();
	VF_END();
	return 0;
}
