/*
 * E2UNDO/undo_force (C12): the REAL main() of misc/e2undo.c with -f (no -n) on an undo file whose
 * checksum outcomes, magics and feature words are symbolic (no I/O errors): what "unless forced" means.
 *
 * Asserted: -f overrides the header / key-block checksums and magics, the feature words and the
 * filesystem identity check, but NOT the file magic, a zero block size, a mounted device or an
 * over-long key (those still exit 1 with no write); otherwise every key is written once, the
 * filesystem is then opened read/write once and marked: EXT2_VALID_FS cleared, EXT2_ERROR_FS set
 * exactly when some key's data checksum did not match, and the exit status is 1 exactly in that case.
 */
#define CUT_CHECKFS
#define VF_INCLUDE_IO_MANAGER
#include "e2undo_pre.h"		/* (does #include "lib/ext2fs/io_manager.c") */
#include "misc/e2undo.c"
#include "e2undo_env.h"

#if A_DRY || !A_FORCE
#error "undo_force is for command lines with -f and without -n"
#endif
/* STUB: as undo_refuse */
/* BOUND: header.block_size = BSZ, header.num_keys = NK concrete per query */
static int ref_magic_ok(void)
{
	static const char m[8] = { 'E', '2', 'U', 'N', 'D', 'O', '0', '2' };
	int i, ok = 1;
	for (i = 0; i < 8; i++)
		if (IN.magic[i] != (unsigned char) m[i])
			ok = 0;
	return ok;
}
static void vf_end(void)
{
	int j, bad = 0;
	int mounted = (IN.mount_flags & EXT2_MF_MOUNTED) || IN.mount_fails;
	int usable = ref_magic_ok() && IN.fs_block_size != 0 && !mounted && ref_sizes_ok();

	for (j = 0; j < NK; j++)
		if (IN.key[j].blk_crc != IN.crc_data[j])
			bad = 1;
	if (!usable) {
		PROP(vf_exit_code == 1 && vf_dev_writes == 0 && vf_open2_calls == 0, "-f does not override the file magic, a zero block size, a mounted device or an over-long key: exit 1, nothing written");
		return;
	}
	PROP(vf_exit_code == -1, "-f: checksum / magic / feature / identity mismatches do not stop the replay");
	if (vf_exit_code != -1)
		return;
	PROP(vf_checkfs_calls == 0, "-f skips the filesystem identity check");
	PROP(vf_dev_writes == NK, "-f: every key is written once");
	PROP(vf_returned == bad, "-f: the exit status is 1 exactly when a key's data checksum did not match");
	PROP(vf_open2_calls == 1 && (vf_open2_flags & EXT2_FLAG_RW) && vf_open2_dev_closed && vf_fs_closed == 1 && (vf_fs_close_flags & EXT2_FLAG_DIRTY),
	     "-f: the filesystem is opened read/write once after the replay channel was closed, marked and flushed");
	PROP(vf_fs_close_state == (__u16) ((IN.s_state & ~EXT2_VALID_FS) | (bad ? EXT2_ERROR_FS : 0)),
	     "-f: EXT2_VALID_FS is cleared and EXT2_ERROR_FS is set exactly when a data checksum did not match");
}

int main(void)
{
	VF_INPUT(IN);
	/* ASSUME: key_offset below 2^40 (keeps the layout arithmetic of the model from wrapping) */
	ASSUME(IN.key_offset < (1ULL << 40));
	vf_build_file();
	vf_returned = vf_real_main(VF_ARGC, vf_argv);
	vf_end();
	VF_END();
	return 0;
}
