/*
 * E2UNDO/undo_mem (C06): the REAL main() of misc/e2undo.c on ARBITRARY undo-file bytes (every header
 * field, key-block header, key and checksum outcome symbolic; block size and key count concrete per
 * query), with read/write/open faults, under CBMC's memory-safety checks (pointer dereference, bounds,
 * pointer arithmetic, signed overflow, shifts) on the real code.
 *
 * Additionally asserted by the undo-file stub: every read lands inside its destination object -- in
 * particular key data (count = -size) inside `buf`, which main() allocates with exactly
 * E2UNDO_MAX_EXTENT_BLOCKS * block_size bytes: a key whose size exceeds that must be rejected BEFORE
 * the read; the key array handed to qsort() is no longer than the allocation; no more key blocks are
 * read than num_keys needs; exit status is 0 or 1.
 */
#define VF_FAULTS
#define CUT_CHECKFS
#define VF_INCLUDE_IO_MANAGER
#include "e2undo_pre.h"		/* (does #include "lib/ext2fs/io_manager.c") */
#include "misc/e2undo.c"
#include "e2undo_env.h"

/* STUB: as undo_dry; the destination-buffer check uses __CPROVER_w_ok (natively: ASan's __asan_region_is_poisoned) on the real heap objects main() allocated */
/* BOUND: header.block_size = BSZ, header.num_keys = NK concrete per query; E2UNDO_MAX_EXTENT_BLOCKS is the real 512 (the extent buffer is kept as an unbounded array, see e2undo_pre.h) */
/* OUTSIDE: num_keys above NK (the key loops are unrolled NK times); block sizes other than the queried ones; what unix_io does with the counts it is handed */
static void vf_end(void)
{
	PROP(vf_exit_code == -1 || vf_exit_code == 1, "exit status is 1 on every refusal");
#if A_DRY
	PROP(vf_dev_writes == 0, "e2undo -n: no modifying call reached the device on this path");
#endif
#ifdef END_AT_EXIT
	VF_END();
#endif
}

int main(void)
{
	VF_INPUT(IN);
	vf_build_file();
	vf_returned = vf_real_main(VF_ARGC, vf_argv);
	vf_end();
	PROP(vf_returned == 0 || vf_returned == 1, "e2undo returns 0 or 1");
	VF_END();
	return 0;
}
