/*
 * E2UNDO/undo_replay (C12): the REAL main() of misc/e2undo.c replaying a WELL-FORMED undo file
 * (format comment of e2undo.c / writer undo_io.c: header, superblock copy, key blocks each followed
 * by the data blocks of their keys; all checksums match; NK keys of 1 .. 512*block_size bytes with
 * distinct target blocks) without -n.
 *
 * Asserted at the end of the run: the device was opened once (read/write, exclusive, through the
 * undo manager iff -z); it received exactly one write per key -- block = key.fsblk in units of
 * header.fs_block_size, shifted by header.fs_offset iff the FS_OFFSET feature (or by -o), byte count
 * = key.size, bytes = those stored in the file at the key's position (shadow of the source range +
 * one byte at a symbolic probe position) -- in ascending block order, and nothing else; the
 * force-fsck open (EXT2_FLAG_RW, VALID_FS cleared, superblock dirtied, closed) happens exactly when
 * -f was given or the header lacks E2UNDO_STATE_FINISHED, after the channel was closed, and through
 * the undo manager iff -z; exit status 0.
 */
#define VF_WELLFORMED
#define CUT_CHECKFS
#define VF_INCLUDE_IO_MANAGER
#include "e2undo_pre.h"		/* (does #include "lib/ext2fs/io_manager.c": io_channel_read_blk64 / io_channel_write_blk64) */
#include "misc/e2undo.c"
#include "e2undo_env.h"

#if A_DRY
#error "undo_replay is for command lines without -n"
#endif
/* STUB: io managers (recording), ext2fs_open2/ext2fs_close_free, ext2fs_check_if_mounted, set_undo_io_*, ext2fs_crc32c_le (symbolic value per object), getopt/qsort/snprintf/strtoull/exit: see e2undo_env.h; check_filesystem() cut (harness undo_checkfs) */
/* BOUND: header.block_size = BSZ and header.num_keys = NK concrete per query; key sizes, target blocks, offsets, fs block size, layout start symbolic */
/* OUTSIDE: the undo / unix managers below the recorded calls; files with more keys than NK; I/O errors during a forced replay */
static void vf_end(void)
{
	int j, k, incomplete = !(IN.state & E2UNDO_STATE_FINISHED);
	int want_fsck = A_FORCE || incomplete;
	int want_off = A_OFFSET || (IN.f_compat & E2UNDO_FEATURE_COMPAT_FS_OFFSET);
	unsigned long long off = A_OFFSET ? A_OFFSET_VALUE : ((IN.f_compat & E2UNDO_FEATURE_COMPAT_FS_OFFSET) ? IN.fs_offset : 0);

	PROP(vf_exit_code == -1, "a well-formed undo file is not refused");
	if (vf_exit_code != -1)
		return;
	PROP(vf_returned == 0, "replay of a well-formed file ends with status 0");
	PROP(vf_crc_bad_feed == 0 && vf_kbcrc_field_zeroed, "each checksum is computed over the object just read, with the format's length (key block: crc field zeroed)");
	PROP(vf_crc_hdr == 1 && vf_crc_kb == (NK ? NKB : 0) && vf_crc_data == NK, "header, every key block and every key's data are checksummed once");
#if !A_FORCE
	PROP(vf_checkfs_calls == 1 && vf_checkfs_args_ok, "the filesystem identity check runs once on the device channel");
#endif
	PROP(vf_dev_opens == 1 && (vf_dev_open_flags & IO_FLAG_RW) && (vf_dev_open_flags & IO_FLAG_EXCLUSIVE), "the device is opened once, read/write and exclusive");
	PROP(vf_opt_calls == (want_off ? 1 : 0) && (!want_off || vf_opt_offset == off), "the filesystem offset option is set exactly when -o or the FS_OFFSET feature asks for it");
	/* the undo file was read where the format puts things */
	for (j = 0; j < NKB; j++)
		if (j * KPB < NK)
			PROP(vf_kb_blk[j] == ref_kbblk[j], "key blocks are read from where the layout puts them");
	PROP(vf_data_reads == 2 * NK, "every key's data is read twice: verification and replay");
	for (j = 0; j < NK; j++)
		PROP(vf_dr_blk[j] == ref_fblk[j] && vf_dr_len[j] == IN.key[j].size, "verification reads each key's data from its place, with its size");
	/* the writes */
	PROP(vf_dev_writes == NK && vf_dev_other_mod == 0, "the device receives exactly one write per key and nothing else");
	for (j = 0; j < NK; j++) {
		int hits = 0;
		for (k = 0; k < NK; k++)
			if (vf_w_blk[k] == IN.key[j].fsblk) {
				hits++;
				PROP(vf_w_cnt[k] == -(int) IN.key[j].size, "the write carries the key's byte count");
				PROP(vf_w_bs[k] == (int) IN.fs_block_size, "device block numbers are in units of header.fs_block_size");
				PROP(vf_w_off[k] == off, "the write lands at the filesystem offset");
				PROP(vf_w_from_buf[k] && vf_w_srcblk[k] == ref_fblk[j] && vf_w_srcbs[k] == BSZ && vf_w_srclen[k] == IN.key[j].size,
				     "the bytes written are those stored in the undo file at the key's position");
				PROP(vf_w_probe_ok[k], "an arbitrary byte of the write equals the file's byte for that key");
			}
		PROP(hits == 1, "each key is replayed exactly once");
	}
	for (k = 0; k + 1 < NK; k++)
		PROP(vf_w_blk[k] <= vf_w_blk[k + 1], "keys are written in ascending block order");
	PROP(vf_dev_closed == 1 && vf_undo_closed == 1, "both channels are closed exactly once");
	/* the "needs fsck" mark */
	if (want_fsck) {
		PROP(vf_open2_calls == 1 && vf_open2_name_ok && (vf_open2_flags & EXT2_FLAG_RW) && (vf_open2_flags & EXT2_FLAG_64BITS),
		     "incomplete record or -f: the filesystem is opened read/write once to mark it");
		PROP(vf_open2_dev_closed, "the replay channel is closed before the filesystem is opened (exclusive open)");
		PROP(vf_fs_closed == 1 && (vf_fs_close_flags & EXT2_FLAG_DIRTY), "the marked superblock is flushed");
		PROP(vf_fs_close_state == (__u16) (IN.s_state & ~EXT2_VALID_FS), "only EXT2_VALID_FS is cleared (no checksum or I/O error happened)");
	} else
		PROP(vf_open2_calls == 0, "a complete record replayed without -f: nothing but the keys is written");
#if A_Z
	PROP(vf_z_backing_set == 1 && vf_z_backing_ok && vf_z_file_set == 1 && vf_z_file_ok && vf_z_order_ok,
	     "e2undo -z: the undo manager is set up over the unix manager with the -z file before the device is opened");
	PROP(vf_dev_open_via_undo && (!want_fsck || vf_open2_via_undo), "e2undo -z: every open of the device goes through the undo manager");
#else
	PROP(vf_z_backing_set == 0 && vf_z_file_set == 0, "without -z the undo manager is not set up");
#endif
}

int main(void)
{
	int j, b;

	VF_INPUT(IN);
	/* ASSUME: the file is well formed: checksums as stored, magics, no unknown features, key sizes 1 .. 512 blocks, distinct target blocks below 2^31 (key_compare() truncates the 64-bit difference to int), fs block size non-zero, device not mounted, superblock copy matches */
	ASSUME(IN.header_crc == IN.crc_hdr);
	ASSUME(IN.f_incompat == 0 && IN.f_rocompat == 0);
	ASSUME(IN.fs_block_size != 0);
	ASSUME(ref_sb_matches());
	ASSUME(!(IN.mount_flags & EXT2_MF_MOUNTED) && !IN.mount_fails);
	ASSUME(IN.key_offset < (1ULL << 40));
	for (b = 0; b < NKB; b++)
		ASSUME(IN.kbh[b].magic == KEYBLOCK_MAGIC && IN.kbh[b].crc == IN.crc_kb[b]);
	for (j = 0; j < NK; j++) {
		ASSUME(IN.key[j].size >= 1 && IN.key[j].size <= MAXKEYBYTES);
		ASSUME(IN.key[j].blk_crc == IN.crc_data[j]);
		ASSUME(IN.key[j].fsblk < (1ULL << 31));
		for (b = 0; b < j; b++)
			ASSUME(IN.key[b].fsblk != IN.key[j].fsblk);
	}
	vf_build_file();
	vf_returned = vf_real_main(VF_ARGC, vf_argv);
	vf_end();
	VF_END();
	return 0;
}
