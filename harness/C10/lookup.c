/*
 * C10/lookup: listing a directory and resolving a name (pattern D).
 *
 * Real code: ext2fs_lookup() -> lookup_proc, ext2fs_dir_iterate(2),
 * ext2fs_process_dir_block, ext2fs_read_dir_block4 (lookup.c, dirblock.c
 * included; dir_iterate.c is the unit iter_unit.c).
 *
 * Directory = NB blocks, every byte symbolic under WF.
 *  OP_LOOKUP: ext2fs_lookup(name) returns the inode of the FIRST entry in use
 *     whose name equals the argument, EXT2_ET_FILE_NOT_FOUND iff there is none.
 *  OP_LIST:   ext2fs_dir_iterate2() with a recording callback reports exactly
 *     the records the independent reader sees (in use only / all records with
 *     INCLUDE_EMPTY, the checksum tail only with INCLUDE_CSUM), each once, in
 *     directory order, with consistent (dirent, offset, blocksize, buf)
 *     arguments; no DELETED classification without INCLUDE_REMOVED.
 *  Neither writes to the directory.
 */
#include "dirblk_pre.h"
#include "lib/ext2fs/lookup.c"
#include "lib/ext2fs/dirblock.c"
#include "env.c"

#ifndef VF_NAMEMAX
#define VF_NAMEMAX 8
#endif
#define OP_LOOKUP 1
#define OP_LIST 2
#ifndef OP
#define OP OP_LOOKUP
#endif
#ifndef LFLAGS
#define LFLAGS 0
#endif

#include "dirblk.h"

struct vf_in {
	unsigned char blk[NB * BS];
	unsigned char name[VF_NAMEMAX];
	unsigned char namelen;
};
VF_DECLARE_INPUT(struct vf_in, IN)
#include "vf_input.inc"

static unsigned char vf_pre[NB * BS];
static unsigned char vf_s0[NB][NSLOT];
static char vf_name[VF_NAMEMAX + 1];

/* recording callback of OP_LIST */
static unsigned char vf_calls[NB][NSLOT];
static __u32 vf_seen_ino[NB][NSLOT];
static int vf_last = -1, vf_order_ok = 1, vf_args_ok = 1, vf_deleted_seen, vf_csum_seen, vf_ncalls;

static int vf_list_cb(ext2_ino_t dir, int entry, struct ext2_dir_entry *dirent, int offset,
		      int blocksize, char *buf, void *priv)
{
	int b, p, cb;
	(void) priv;
	vf_ncalls++;
	if (dir != VF_DIR || blocksize != BS || (char *) dirent != buf + offset)
		vf_args_ok = 0;
	if (entry == DIRENT_DELETED_FILE)
		vf_deleted_seen = 1;
	if (entry == DIRENT_CHECKSUM)
		vf_csum_seen++;
	/* which block is being presented: the read stub counts blocks */
	b = vf_nread - 1;
	if (b * BS + offset <= vf_last)
		vf_order_ok = 0;
	vf_last = b * BS + offset;
	for (cb = 0; cb < NB; cb++)
		for (p = 0; p < BS; p += 4)
			if (cb == b && p == offset) {
				vf_calls[cb][p / 4]++;
				vf_seen_ino[cb][p / 4] = dirent->inode;
			}
	return 0;
}

int main(void)
{
	errcode_t rc;
	int i, b, p;

	VF_INPUT(IN);
	vf_setup_fs();
	for (i = 0; i < NB * BS; i++)
		vf_disk[i] = vf_pre[i] = IN.blk[i];
	for (b = 0; b < NB; b++)
		/* ASSUME: every block is well formed (rec_len chain tiles the block, csum tail present iff metadata_csum) */
		ASSUME(vf_scan(vf_pre + b * BS, vf_s0[b]));

#if OP == OP_LOOKUP
	{
		unsigned n;
		int have = 0;
		__u32 want = 0;
		ext2_ino_t got = 0xdeadbeef;
#ifdef NAMELEN
		n = NAMELEN;
#else
		n = IN.namelen;
#endif
		/* BOUND: looked-up name of 1..VF_NAMEMAX bytes (ext2fs_lookup takes pointer + length; bytes arbitrary but the first, which strncmp needs non-NUL to compare further) */
		ASSUME(n >= 1 && n <= VF_NAMEMAX);
		for (i = 0; i < VF_NAMEMAX; i++) {
			/* ASSUME: names contain no NUL byte (the comparison is strncmp) */
			if ((unsigned) i < n)
				ASSUME(IN.name[i] != 0);
			vf_name[i] = (unsigned) i < n ? (char) IN.name[i] : 0;
		}
		for (b = 0; b < NB; b++)
			for (p = 0; p + 8 <= END; p += 4) {
				const unsigned char *a = vf_pre + b * BS;
				if (vf_s0[b][p / 4] && !have && E_INO(a, p) != 0 && vf_name_eq(a, p, IN.name, n)) {
					have = 1;
					want = E_INO(a, p);
				}
			}
		rc = ext2fs_lookup(&vf_fs, VF_DIR, vf_name, (int) n, 0, &got);
		PROP(rc == (have ? 0 : EXT2_ET_FILE_NOT_FOUND), "lookup succeeds iff the name is listed");
		if (have)
			PROP(got == want, "lookup returns the inode of the first entry with that name");
	}
#else
	rc = ext2fs_dir_iterate2(&vf_fs, VF_DIR, LFLAGS, 0, vf_list_cb, 0);
	PROP(rc == 0, "iteration over a well-formed directory succeeds");
	PROP(vf_args_ok, "callback arguments are consistent");
	PROP(vf_order_ok, "entries are reported in directory order");
	PROP(!vf_deleted_seen, "nothing is classified as deleted without INCLUDE_REMOVED");
	PROP(vf_nread == NB, "every block is read once");
	for (b = 0; b < NB; b++) {
		const unsigned char *a = vf_pre + b * BS;
		for (p = 0; p < BS; p += 4) {
			int expect = 0;
			if (p + 8 <= END && vf_s0[b][p / 4])
				expect = (E_INO(a, p) != 0) || (LFLAGS & DIRENT_FLAG_INCLUDE_EMPTY);
#ifdef WITH_CSUM
			if (p == END && (LFLAGS & DIRENT_FLAG_INCLUDE_CSUM))
				expect = 1;
#endif
			PROP(vf_calls[b][p / 4] == expect, "listing reports exactly the records the reader sees, once each");
			if (expect)
				PROP(vf_seen_ino[b][p / 4] == E_INO(a, p), "reported inode is the on-disk inode");
		}
	}
#ifdef WITH_CSUM
	PROP(vf_csum_seen == ((LFLAGS & DIRENT_FLAG_INCLUDE_CSUM) ? NB : 0), "checksum tail classified as such only on request");
#endif
#endif
	PROP(vf_nwrite == 0, "read-only operations do not write the directory");
	for (i = 0; i < NB * BS; i++)
		PROP(vf_disk[i] == vf_pre[i], "directory bytes unchanged");
	VF_END();
	return 0;
}
