/*
 * C10/symlink_p: ext2fs_symlink() over every fault schedule (pattern P), the
 * analogue of mkdir_p for the other creator that accounts before linking.
 *
 * Real code: ext2fs_symlink() (symlink.c), ext2fs_inode_size_set() (blknum.c),
 * ext2fs_iblk_set() (i_block.c).  Every other callee is a recording stub with
 * a symbolic return value: ext2fs_new_block2, ext2fs_new_inode,
 * ext2fs_write_new_inode, ext2fs_inline_data_set, ext2fs_read_inode,
 * ext2fs_write_inode, ext2fs_bmap2(BMAP_SET), io_channel_write_blk64,
 * ext2fs_lookup, ext2fs_link; the accounting calls are a ledger.
 * Target length per query: TLEN < 60 fast link (in the inode), otherwise slow
 * (one block) or inline data (feature per query, with fallback to a block).
 *
 * Asserted: error iff a step failed (a failed inline_data_set is not an error:
 * the code falls back to a block) or the name exists; on every failure the
 * ledger nets to zero with matching isdir (= 0) and block; on success the
 * inode is accounted once as a NON-directory, the block once iff the target
 * lives in a block, the target bytes reach that block, the inode is a symlink
 * of size TLEN with one link, the name is linked with type SYMLINK.
 */
#define ext2fs_new_inode stub_new_inode
#define ext2fs_new_block2 stub_new_block2
#define ext2fs_find_inode_goal stub_find_inode_goal
#define ext2fs_read_inode stub_read_inode
#define ext2fs_write_new_inode stub_write_new_inode
#define ext2fs_write_inode stub_write_inode
#define ext2fs_inline_data_set stub_inline_data_set
#define ext2fs_bmap2 stub_bmap2
#define io_channel_write_blk64 stub_write_blk64
#define ext2fs_block_alloc_stats2 stub_block_alloc_stats2
#define ext2fs_inode_alloc_stats2 stub_inode_alloc_stats2
#define ext2fs_lookup stub_lookup
#define ext2fs_link stub_link
#define strnlen stub_strnlen
#include "lib/ext2fs/symlink.c"
#include "env.c"

#define BS 128
#ifndef TLEN
#define TLEN 5
#endif
#define FAST (TLEN < 60)

enum { S_NEWBLK, S_NEWINO, S_WRNEW, S_INLSET, S_READ, S_WRINODE, S_BMAP, S_IOWRITE, S_LOOKUP, S_LINK, S_N };

struct vf_in {
	errcode_t err[S_N];
	ext2_ino_t inum, parent, newino;
	blk64_t newblk, goal;
	unsigned char has_name;
	unsigned char target[TLEN];
	struct ext2_inode reread;	/* inode as re-read after inline_data_set */
};
VF_DECLARE_INPUT(struct vf_in, IN)
#include "vf_input.inc"

static struct struct_ext2_filsys vf_fs;
static struct ext2_super_block vf_sb;
static struct struct_io_channel vf_chan;
static int vf_seq, vf_failed, vf_called[S_N], vf_at[S_N], vf_args_ok = 1;
static int vf_ni, vf_nb, vf_isum_dir, vf_isum_nondir, vf_bsum, vf_i_ok = 1, vf_b_ok = 1;
static ext2_ino_t vf_ino;
static struct ext2_inode vf_written;
static int vf_written_by;	/* step that wrote the final inode */
static unsigned char vf_data[BS];
static char vf_target[TLEN + 1];
static const char vf_name[] = "s1";

/* STUB: strnlen() (no model in the CBMC library): the C definition */
size_t stub_strnlen(const char *s, size_t max)
{
	size_t n = 0;
	while (n < max && s[n])
		n++;
	return n;
}

static errcode_t vf_step(int s)
{
	vf_called[s]++;
	vf_at[s] = ++vf_seq;
	if (IN.err[s])
		vf_failed = 1;
	return IN.err[s];
}

/* STUB: every callee of ext2fs_symlink records its arguments and returns the symbolic IN.err[step] */
errcode_t stub_new_block2(ext2_filsys fs, blk64_t goal, ext2fs_block_bitmap map, blk64_t *ret)
{
	(void) fs; (void) map; (void) goal;
	if (!IN.err[S_NEWBLK])
		*ret = IN.newblk;
	return vf_step(S_NEWBLK);
}

blk64_t stub_find_inode_goal(ext2_filsys fs, ext2_ino_t ino, struct ext2_inode *inode, blk64_t lblk)
{
	(void) fs; (void) ino; (void) inode; (void) lblk;
	return IN.goal;
}

errcode_t stub_new_inode(ext2_filsys fs, ext2_ino_t dir, int mode, ext2fs_inode_bitmap map, ext2_ino_t *ret)
{
	(void) fs; (void) map;
	if (dir != IN.parent || !LINUX_S_ISLNK(mode))
		vf_args_ok = 0;
	if (!IN.err[S_NEWINO])
		*ret = IN.newino;
	return vf_step(S_NEWINO);
}

errcode_t stub_write_new_inode(ext2_filsys fs, ext2_ino_t ino, struct ext2_inode *inode)
{
	(void) fs;
	if (ino != vf_ino)
		vf_args_ok = 0;
	vf_written = *inode;
	vf_written_by = S_WRNEW;
	return vf_step(S_WRNEW);
}

errcode_t stub_write_inode(ext2_filsys fs, ext2_ino_t ino, struct ext2_inode *inode)
{
	(void) fs;
	if (ino != vf_ino)
		vf_args_ok = 0;
	vf_written = *inode;
	vf_written_by = S_WRINODE;
	return vf_step(S_WRINODE);
}

errcode_t stub_inline_data_set(ext2_filsys fs, ext2_ino_t ino, struct ext2_inode *inode, void *buf, size_t size)
{
	(void) fs; (void) inode; (void) buf;
	if (ino != vf_ino || size != TLEN)
		vf_args_ok = 0;
	vf_called[S_INLSET]++;
	vf_at[S_INLSET] = ++vf_seq;
	return IN.err[S_INLSET];	/* not a failure of symlink: falls back to a block */
}

errcode_t stub_read_inode(ext2_filsys fs, ext2_ino_t ino, struct ext2_inode *inode)
{
	(void) fs;
	if (ino != vf_ino)
		vf_args_ok = 0;
	if (!IN.err[S_READ])
		*inode = IN.reread;
	return vf_step(S_READ);
}

errcode_t stub_bmap2(ext2_filsys fs, ext2_ino_t ino, struct ext2_inode *inode, char *block_buf,
		     int bmap_flags, blk64_t block, int *ret_flags, blk64_t *phys_blk)
{
	(void) fs; (void) inode; (void) block_buf; (void) ret_flags;
	if (ino != vf_ino || bmap_flags != BMAP_SET || block != 0 || *phys_blk != IN.newblk)
		vf_args_ok = 0;		/* logical block 0 is mapped to the allocated block */
	return vf_step(S_BMAP);
}

errcode_t stub_write_blk64(io_channel ch, unsigned long long block, int count, const void *data)
{
	const unsigned char *d = data;
	int i;
	(void) ch;
	if (block != IN.newblk || count != 1)
		vf_args_ok = 0;
	for (i = 0; i < BS; i++)
		vf_data[i] = d[i];
	return vf_step(S_IOWRITE);
}

void stub_block_alloc_stats2(ext2_filsys fs, blk64_t blk, int inuse)
{
	(void) fs;
	vf_nb++;
	vf_bsum += inuse;
	if (blk != IN.newblk || (inuse != 1 && inuse != -1))
		vf_b_ok = 0;
}

void stub_inode_alloc_stats2(ext2_filsys fs, ext2_ino_t ino, int inuse, int isdir)
{
	(void) fs;
	vf_ni++;
	if (isdir)
		vf_isum_dir += inuse;
	else
		vf_isum_nondir += inuse;
	if (ino != vf_ino || (inuse != 1 && inuse != -1))
		vf_i_ok = 0;
}

errcode_t stub_lookup(ext2_filsys fs, ext2_ino_t dir, const char *name, int namelen, char *buf, ext2_ino_t *inode)
{
	(void) fs; (void) buf;
	if (dir != IN.parent || name != vf_name || namelen != 2)
		vf_args_ok = 0;
	vf_called[S_LOOKUP]++;
	vf_at[S_LOOKUP] = ++vf_seq;
	if (IN.err[S_LOOKUP] != EXT2_ET_FILE_NOT_FOUND)
		vf_failed = 1;
	if (!IN.err[S_LOOKUP])
		*inode = 77;
	return IN.err[S_LOOKUP];
}

errcode_t stub_link(ext2_filsys fs, ext2_ino_t dir, const char *name, ext2_ino_t ino, int flags)
{
	(void) fs;
	if (dir != IN.parent || name != vf_name || ino != vf_ino || flags != 7 /* EXT2_FT_SYMLINK */)
		vf_args_ok = 0;
	return vf_step(S_LINK);
}

int main(void)
{
	errcode_t rc;
	int i, inblock;

	VF_INPUT(IN);
	vf_fs.magic = EXT2_ET_MAGIC_EXT2FS_FILSYS;
	vf_fs.flags = EXT2_FLAG_RW;
	vf_fs.super = &vf_sb;
	vf_fs.io = &vf_chan;
	vf_fs.blocksize = BS;
#ifdef WITH_INLINE
	vf_sb.s_feature_incompat = EXT4_FEATURE_INCOMPAT_INLINE_DATA;
#endif
#ifdef WITH_EXTENTS
	vf_sb.s_feature_incompat |= EXT3_FEATURE_INCOMPAT_EXTENTS;
#endif
	/* ASSUME: allocator returns a non-zero inode; parent valid; block numbers fit 32 bits; target has no NUL inside */
	ASSUME(IN.newino != 0 && IN.parent != 0 && IN.has_name <= 1 && IN.newblk < 0x100000000ULL);
	for (i = 0; i < TLEN; i++) {
		ASSUME(IN.target[i] != 0);
		vf_target[i] = (char) IN.target[i];
	}
	vf_target[TLEN] = 0;
	vf_ino = IN.inum ? IN.inum : IN.newino;

	rc = ext2fs_symlink(&vf_fs, IN.parent, IN.inum, IN.has_name ? (const char *) vf_name : (const char *) 0, vf_target);

	PROP(vf_args_ok, "every callee gets the inode / block / parent / name it must get");
	PROP(!(rc != 0 && !vf_failed), "symlink reports no error when every step succeeded");
	PROP(!(rc == 0 && vf_failed), "symlink reports success only if every step succeeded and the name was free");
	PROP(vf_i_ok && vf_b_ok && vf_isum_dir == 0, "accounting names the new inode / its block, never as a directory");
	if (rc) {
		PROP(vf_isum_nondir == 0, "failure: inode_alloc_stats2(+1, 0) is undone by (-1, 0)");
		PROP(vf_bsum == 0, "failure: every block_alloc_stats2(+1) is undone by (-1)");
		PROP(vf_ni <= 2 && vf_nb <= 2, "failure: at most one account/undo pair");
		VF_END();
		return 0;
	}
	/* the target lives in a block unless it is a fast link or inline data was accepted */
	inblock = !FAST;
#ifdef WITH_INLINE
	if (!FAST && vf_called[S_INLSET] && !IN.err[S_INLSET])
		inblock = 0;
#endif
	PROP(vf_ni == 1 && vf_isum_nondir == 1, "success: inode accounted once, as a non-directory");
	PROP(inblock ? (vf_nb == 1 && vf_bsum == 1) : vf_nb == 0, "success: block accounted once iff the target lives in a block");
	PROP(vf_called[S_NEWINO] == (IN.inum == 0), "an inode is allocated iff none was given");
	if (inblock) {
		PROP(vf_called[S_BMAP] == 1 && vf_called[S_IOWRITE] == 1 && vf_at[S_BMAP] > vf_at[S_WRNEW],
		     "slow link: block mapped and written after the inode exists");
		for (i = 0; i < BS; i++)
			PROP(vf_data[i] == (i < TLEN ? IN.target[i] : 0), "slow link: block holds the target, zero padded");
		PROP(vf_written.i_blocks == BS / 512 * 1 || BS < 512, "slow link: one block of i_blocks");
	} else
		PROP(vf_called[S_BMAP] == 0 && vf_called[S_IOWRITE] == 0, "no block is written for fast / inline links");
	if (FAST || inblock) {
		PROP(LINUX_S_ISLNK(vf_written.i_mode) && vf_written.i_links_count == 1 && vf_written.i_size == TLEN,
		     "inode is a symlink with one link and the target's length");
		PROP(!(vf_written.i_flags & EXT4_INLINE_DATA_FL), "no inline-data flag when the target is not inline");
	}
#if FAST
	for (i = 0; i < TLEN; i++)
		PROP(((unsigned char *) vf_written.i_block)[i] == IN.target[i], "fast link: target stored in i_block");
#endif
	if (IN.has_name) {
		PROP(vf_called[S_LOOKUP] == 1 && vf_called[S_LINK] == 1 && vf_at[S_LOOKUP] < vf_at[S_LINK],
		     "name is checked for existence, then linked with type SYMLINK");
	} else
		PROP(vf_called[S_LOOKUP] == 0 && vf_called[S_LINK] == 0, "no name: nothing linked");
	VF_END();
	return 0;
}
