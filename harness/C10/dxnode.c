/*
 * C10/dxnode: one index (htree) node: search and insert (patterns D and I).
 *
 * Real code (link.c statics): dx_search_entry() -- the binary search dx_lookup()
 * runs in every level of the index -- and dx_insert_entry() -- how
 * dx_split_leaf()/dx_grow_tree() add a (hash, block) pair to a parent node --
 * followed by the real ext2fs_write_dir_block4().
 *
 * On-disk node (Documentation/filesystems/ext4/directory.rst "dx_node"):
 * offset 0: fake dirent {inode 0, rec_len = blocksize}; offset 8: {limit,
 * count} (16 bit each) followed by the block of the leftmost child; then
 * count-1 pairs {hash, block}, hashes ascending.  The child for a name hash H
 * is the LAST pair whose hash is <= H, the leftmost child if there is none.
 *
 *  OP_SEARCH: symbolic node with count in 1..LIMIT, hashes non-decreasing,
 *     symbolic H: dx_search_entry picks the pair the linear-scan reference picks.
 *  OP_INSERT: count < limit; after search for H, insert (N, blk) with
 *     at.hash <= N <= next.hash (what a leaf split produces): node written
 *     to disk has count+1 pairs = the old pairs with the new one directly
 *     after `at`, order kept, still ascending, limit and leftmost child kept.
 */
#include "dirblk_pre.h"
#define ext2fs_bmap2 stub_bmap2
#include "lib/ext2fs/link.c"
#include "lib/ext2fs/dirblock.c"
#include "env.c"

#ifndef LIMIT
#define LIMIT 8
#endif
#define BS (8 + 8 * LIMIT)
#define VF_NAMEMAX 1
#define OP_SEARCH 1
#define OP_INSERT 2
#ifndef OP
#define OP OP_SEARCH
#endif
#include "dirblk.h"

struct vf_in {
	__u32 hash[LIMIT], block[LIMIT];	/* pair i of the node; hash[0] unused (holds limit/count) */
	unsigned short count;
	__u32 target, newhash, newblk;
};
VF_DECLARE_INPUT(struct vf_in, IN)
#include "vf_input.inc"

errcode_t stub_bmap2(ext2_filsys fs, ext2_ino_t ino, struct ext2_inode *inode, char *block_buf,
		     int bmap_flags, blk64_t block, int *ret_flags, blk64_t *phys_blk)
{
	(void) fs; (void) ino; (void) inode; (void) block_buf; (void) bmap_flags; (void) block;
	(void) ret_flags; (void) phys_blk;
	PROP(0, "bmap is not reached by the node kernels");
	return 0;
}

static unsigned char vf_node[BS];
static struct dx_lookup_info vf_info;

static void vf_wr16(unsigned char *b, int o, unsigned v) { b[o] = v & 0xff; b[o + 1] = (v >> 8) & 0xff; }
static void vf_wr32(unsigned char *b, int o, __u32 v)
{
	b[o] = v & 0xff; b[o + 1] = (v >> 8) & 0xff; b[o + 2] = (v >> 16) & 0xff; b[o + 3] = (v >> 24) & 0xff;
}

int main(void)
{
	struct dx_frame *fr = &vf_info.frames[0];
	int i, want = 0, got = -1;
	unsigned count;

	VF_INPUT(IN);
	vf_setup_fs();
	count = IN.count;
	/* BOUND: node of at most LIMIT pairs (the code is parametric in the limit) */
#if OP == OP_INSERT
	/* ASSUME: the caller (dx_grow_tree) only inserts into a node with count < limit */
	ASSUME(count >= 1 && count < LIMIT);
#else
	ASSUME(count >= 1 && count <= LIMIT);
#endif
	/* ASSUME: hashes of pairs 1..count-1 ascend (non-strictly) */
	for (i = 2; i < LIMIT; i++)
		if ((unsigned) i < count)
			ASSUME(IN.hash[i - 1] <= IN.hash[i]);

	vf_wr32(vf_node, 0, 0);
	vf_wr16(vf_node, 4, BS);
	vf_wr16(vf_node, 6, 0);
	vf_wr16(vf_node, 8, LIMIT);
	vf_wr16(vf_node, 10, count);
	vf_wr32(vf_node, 12, IN.block[0]);
	for (i = 1; i < LIMIT; i++) {
		vf_wr32(vf_node, 8 + 8 * i, IN.hash[i]);
		vf_wr32(vf_node, 12 + 8 * i, IN.block[i]);
	}
	for (i = 0; i < BS; i++)
		vf_disk[i] = 0xee;

	fr->buf = vf_node;
	fr->pblock = VF_BLK0;
	fr->head = (struct ext2_dx_countlimit *) (vf_node + 8);
	fr->entries = (struct ext2_dx_entry *) (vf_node + 8);
	vf_info.levels = 1;

	/* reference: last pair with hash <= target, by linear scan */
	for (i = 1; i < LIMIT; i++)
		if ((unsigned) i < count && IN.hash[i] <= IN.target)
			want = i;

	dx_search_entry(fr, (int) count, IN.target);
	for (i = 0; i < LIMIT; i++)
		if (fr->at == fr->entries + i)
			got = i;
	PROP(got == want, "index search picks the last pair whose hash is <= the name hash");

#if OP == OP_INSERT
	{
		errcode_t rc;
		int j;
		/* ASSUME: the inserted hash lies in the hash range of the child that was split: at.hash <= N <= next.hash */
		for (i = 1; i < LIMIT; i++) {
			if (i == want)
				ASSUME(IN.hash[i] <= IN.newhash);
			if (i == want + 1 && (unsigned) i < count)
				ASSUME(IN.newhash <= IN.hash[i]);
		}
		rc = dx_insert_entry(&vf_fs, VF_DIR, &vf_info, 0, IN.newhash, IN.newblk);
		PROP(rc == 0, "insert succeeds");
		PROP(vf_nwrite == 1 && vf_write_without_csum == 0, "node written once, after the checksum hook");
		PROP(RD16(vf_disk, 8) == LIMIT, "limit unchanged");
		PROP(RD16(vf_disk, 10) == count + 1, "count incremented");
		PROP(RD32(vf_disk, 12) == IN.block[0], "leftmost child unchanged");
		PROP(RD32(vf_disk, 0) == 0 && RD16(vf_disk, 4) == BS, "fake dirent unchanged");
		for (j = 1; j < LIMIT; j++) {
			if ((unsigned) j > count)
				continue;
			/* pair j of the new node: old pair j (j <= want), the new pair (j == want+1), old pair j-1 (beyond) */
			if (j <= want) {
				PROP(RD32(vf_disk, 8 + 8 * j) == IN.hash[j] && RD32(vf_disk, 12 + 8 * j) == IN.block[j],
				     "pairs before the insertion point unchanged");
			} else if (j == want + 1) {
				PROP(RD32(vf_disk, 8 + 8 * j) == IN.newhash && RD32(vf_disk, 12 + 8 * j) == IN.newblk,
				     "new pair directly after the split child");
			} else {
				PROP(RD32(vf_disk, 8 + 8 * j) == IN.hash[j - 1] && RD32(vf_disk, 12 + 8 * j) == IN.block[j - 1],
				     "pairs after the insertion point shifted by one");
			}
			if (j >= 2)
				PROP(RD32(vf_disk, 8 + 8 * (j - 1)) <= RD32(vf_disk, 8 + 8 * j), "hashes still ascending");
		}
	}
#endif
	VF_END();
	return 0;
}
