/*
 * C10/namei: path resolution of libext2fs (what debugfs rm/rmdir/mkdir/ls resolve
 * their argument with) over a tiny symbolic namespace.
 *
 * Real code: namei.c -- ext2fs_namei(), ext2fs_namei_follow(), ext2fs_follow_link(),
 * open_namei(), dir_namei(), follow_link(); ext2fs_is_fast_symlink() (symlink.c).
 *
 * Namespace: NI inodes 1..NI of symbolic type (directory / symlink / other), NE
 * directory entries (directory, name, inode -- all symbolic, duplicates allowed:
 * the first one wins), one symbolic target per symlink, symbolic root and cwd.
 * ext2fs_lookup is a stub that searches that table (the real one is decided by
 * harness lookup); ext2fs_read_inode builds the inode of the table.
 *
 * Reference: an independent resolver on the same table (ref_walk / ref_follow):
 * a leading '/' starts at root, else at the base directory; every component but
 * the last is looked up in the current directory and, if it is a symlink,
 * replaced by the resolution of its target RELATIVE TO THE DIRECTORY THAT HOLDS
 * THE LINK; the last component is followed only by the *_follow flavour; a
 * trailing '/' (empty last component) yields the directory reached; an empty
 * inner component ("a//b") is a lookup of the empty name, which no directory
 * holds (observation: libext2fs does not collapse "//"); a symlink met at
 * nesting depth 8 (EXT2FS_MAX_NESTED_LINKS) is EXT2_ET_SYMLINK_LOOP; errors of
 * lookup (not found / not a directory) and of reading an inode are returned.
 * Target source per query: KIND 0 fast (i_block, i_size 1..4), 1 slow (block 0 of
 * the inode via ext2fs_bmap2 + io_channel_read_blk64, i_size 60), 2 inline data
 * (ext2fs_inline_data_get, i_size 60).
 */
#define ext2fs_lookup stub_lookup
#define ext2fs_read_inode stub_read_inode
#define ext2fs_inline_data_get stub_inline_data_get
#define ext2fs_bmap2 stub_bmap2
#define io_channel_read_blk64 stub_read_blk64
#include "lib/ext2fs/namei.c"
#include "env.c"

#ifndef NI
#define NI 4
#endif
#ifndef NE
#define NE 4
#endif
#ifndef PLEN
#define PLEN 4		/* BOUND: top-level path of at most PLEN bytes (every shorter one through an earlier NUL) */
#endif
#ifndef KIND
#define KIND 0
#endif
#ifndef LC
#define LC 0		/* nesting depth the walk starts at (0 = public entry points) */
#endif
#ifndef FOLLOW
#define FOLLOW 0
#endif
#ifndef DMAX
#define DMAX 2		/* BOUND: at most DMAX nested symlink expansions below the starting depth */
#endif
#define TSYM 3		/* BOUND: symbolic bytes at the start of a symlink target */
#define TBUF 60
#define BS 64
#define T_DIR 0
#define T_LNK 1
#define T_OTHER 2
#define VF_RDERR EXT2_ET_SHORT_READ

struct vf_ent { unsigned char dir, nlen, n0, n1, ino; };
struct vf_in {
	unsigned char type[NI];
	unsigned char tlen[NI];
	unsigned char tgt[NI][TSYM];
	struct vf_ent ent[NE];
	unsigned char root, cwd, start;
	unsigned char rd_fail;		/* inode whose read fails (0: none) */
	unsigned char path[PLEN];
};
VF_DECLARE_INPUT(struct vf_in, IN)
#include "vf_input.inc"

static struct struct_ext2_filsys vf_fs;
static struct ext2_super_block vf_sb;
static struct struct_io_channel vf_chan;
static int vf_args_ok = 1;
static int ref_toodeep;

static int vf_type(int ino)
{
	int k, t = T_OTHER;
	for (k = 0; k < NI; k++)
		if (k + 1 == ino)
			t = IN.type[k];
	return t;
}

static int vf_tlen(int ino)
{
#if KIND == 0
	int k, t = 1;
	for (k = 0; k < NI; k++)
		if (k + 1 == ino)
			t = IN.tlen[k];
	return t;
#else
	(void) ino;
	return TBUF;
#endif
}

/* target of symlink `ino`: TSYM symbolic bytes, then the constant filler 'x' */
static void vf_target(int ino, unsigned char *out)
{
	int k, j;
	for (j = 0; j < TBUF; j++)
		out[j] = 'x';
	for (k = 0; k < NI; k++)
		if (k + 1 == ino)
			for (j = 0; j < TSYM; j++)
				out[j] = IN.tgt[k][j];
}

/* STUB: ext2fs_lookup searches the symbolic entry table: first entry of that directory with that length and bytes
 * (bytes beyond the second are the constant filler and not compared); a non-directory is EXT2_ET_NO_DIRECTORY */
errcode_t stub_lookup(ext2_filsys fs, ext2_ino_t dir, const char *name, int namelen, char *buf, ext2_ino_t *inode)
{
	int e;
	if (fs != &vf_fs || !buf || !name)
		vf_args_ok = 0;
	if (vf_type(dir) != T_DIR)
		return EXT2_ET_NO_DIRECTORY;
	for (e = 0; e < NE; e++) {
		if (IN.ent[e].dir != dir || IN.ent[e].nlen != namelen)
			continue;
		if (namelen >= 1 && (unsigned char) name[0] != IN.ent[e].n0)
			continue;
		if (namelen >= 2 && (unsigned char) name[1] != IN.ent[e].n1)
			continue;
		*inode = IN.ent[e].ino;
		return 0;
	}
	return EXT2_ET_FILE_NOT_FOUND;
}

/* STUB: ext2fs_read_inode builds the inode of the table (type; for a symlink size, flags and a fast target) */
errcode_t stub_read_inode(ext2_filsys fs, ext2_ino_t ino, struct ext2_inode *inode)
{
	static struct ext2_inode z;
	unsigned char t[TBUF];
	int j, ty = vf_type(ino);
	(void) fs;
	if (ino == IN.rd_fail)
		return VF_RDERR;
	*inode = z;
	inode->i_mode = ty == T_DIR ? LINUX_S_IFDIR | 0755 : ty == T_LNK ? LINUX_S_IFLNK | 0777 : LINUX_S_IFREG | 0644;
	inode->i_links_count = 1;
	if (ty == T_LNK) {
		inode->i_size = vf_tlen(ino);
#if KIND == 0
		vf_target(ino, t);
		for (j = 0; j < TSYM; j++)
			((unsigned char *) inode->i_block)[j] = t[j];
#elif KIND == 1
		(void) t; (void) j;
		inode->i_block[0] = 100 + ino;
		inode->i_blocks = BS / 512 ? BS / 512 : 1;
#else
		(void) t; (void) j;
		inode->i_flags = EXT4_INLINE_DATA_FL;
#endif
	}
	return 0;
}

/* STUB: ext2fs_bmap2 maps logical block 0 of symlink ino to block 100+ino */
errcode_t stub_bmap2(ext2_filsys fs, ext2_ino_t ino, struct ext2_inode *inode, char *block_buf,
		     int bmap_flags, blk64_t block, int *ret_flags, blk64_t *phys_blk)
{
	(void) fs; (void) block_buf; (void) ret_flags;
	if (KIND != 1 || bmap_flags != 0 || block != 0 || !inode || vf_type(ino) != T_LNK)
		vf_args_ok = 0;
	*phys_blk = 100 + ino;
	return 0;
}

/* STUB: io_channel_read_blk64 returns the block holding the target of symlink blk-100 */
errcode_t stub_read_blk64(io_channel ch, unsigned long long block, int count, void *data)
{
	unsigned char t[TBUF];
	int j;
	if (ch != &vf_chan || count != 1 || block <= 100 || block > 100 + NI)
		vf_args_ok = 0;
	vf_target((int) (block - 100), t);
	for (j = 0; j < BS; j++)
		((unsigned char *) data)[j] = j < TBUF ? t[j] : 0;
	return 0;
}

/* STUB: ext2fs_inline_data_get returns the 60 inline bytes of symlink ino (no EA part) */
errcode_t stub_inline_data_get(ext2_filsys fs, ext2_ino_t ino, struct ext2_inode *inode, void *buf, size_t *size)
{
	unsigned char t[TBUF];
	int j;
	(void) fs;
	if (KIND != 2 || !inode || size || vf_type(ino) != T_LNK)
		vf_args_ok = 0;
	vf_target(ino, t);
	for (j = 0; j < TBUF; j++)
		((unsigned char *) buf)[j] = t[j];
	return 0;
}

/* ---- reference resolver ---- */
static errcode_t ref_lookup(int dir, const unsigned char *s, int len, int *out)
{
	int e, found = 0;
	if (vf_type(dir) != T_DIR)
		return EXT2_ET_NO_DIRECTORY;
	for (e = NE - 1; e >= 0; e--) {		/* last to first: the first matching entry is what remains */
		int m = IN.ent[e].dir == dir && IN.ent[e].nlen == len;
		if (m && len >= 1)
			m = s[0] == IN.ent[e].n0;
		if (m && len >= 2)
			m = s[1] == IN.ent[e].n1;
		if (m) {
			found = 1;
			*out = IN.ent[e].ino;
		}
	}
	return found ? 0 : EXT2_ET_FILE_NOT_FOUND;
}

static errcode_t ref_walk(int base, const unsigned char *p, int len, int follow, int depth, int *out);

static errcode_t ref_follow(int dir, int ino, int depth, int *out)
{
	unsigned char t[TBUF];
	if (ino == IN.rd_fail)
		return VF_RDERR;
	if (vf_type(ino) != T_LNK) {
		*out = ino;
		return 0;
	}
	if (depth >= 8)
		return EXT2_ET_SYMLINK_LOOP;
	if (depth - LC >= DMAX) {
		ref_toodeep = 1;
		return EXT2_ET_SYMLINK_LOOP;
	}
	vf_target(ino, t);
	return ref_walk(dir, t, vf_tlen(ino), 1, depth + 1, out);
}

static errcode_t ref_walk(int base, const unsigned char *p, int len, int follow, int depth, int *out)
{
	int cur = base, i = 0, cs, ino = 0;
	errcode_t rc;

	if (len > 0 && p[0] == '/') {
		cur = IN.root;
		i = 1;
	}
	for (;;) {
		cs = i;
		while (i < len && p[i] != '/')
			i++;
		if (i >= len)
			break;
		/* inner component p[cs..i) */
		rc = ref_lookup(cur, p + cs, i - cs, &ino);
		if (rc)
			return rc;
		rc = ref_follow(cur, ino, depth, &cur);
		if (rc)
			return rc;
		i++;
	}
	if (i == cs) {		/* empty path or trailing '/' */
		*out = cur;
		return 0;
	}
	rc = ref_lookup(cur, p + cs, i - cs, &ino);
	if (rc)
		return rc;
	if (!follow) {
		*out = ino;
		return 0;
	}
	return ref_follow(cur, ino, depth, out);
}

int main(void)
{
	static char vf_path[PLEN + 1];
	errcode_t rc, ref_rc;
	ext2_ino_t res = 0;
	int k, plen, ref_res = 0;

	VF_INPUT(IN);
	vf_fs.magic = EXT2_ET_MAGIC_EXT2FS_FILSYS;
	vf_fs.super = &vf_sb;
	vf_fs.io = &vf_chan;
	vf_fs.blocksize = BS;

	/* ASSUME: inode numbers of the table lie in 1..NI; types are directory / symlink / other; names have 1..2 bytes
	 * (or up to 60 with the constant filler when targets are 60 bytes long) */
	ASSUME(IN.root >= 1 && IN.root <= NI && IN.cwd >= 1 && IN.cwd <= NI && IN.rd_fail <= NI);
	ASSUME(IN.start >= 1 && IN.start <= NI);
	for (k = 0; k < NI; k++) {
		ASSUME(IN.type[k] <= T_OTHER);
		/* ASSUME: a fast symlink target has 1..TSYM bytes (i_size 0 is a corrupt symlink: C06) */
		ASSUME(IN.tlen[k] >= 1 && IN.tlen[k] <= TSYM);
	}
	for (k = 0; k < NE; k++) {
		ASSUME(IN.ent[k].dir >= 1 && IN.ent[k].dir <= NI && IN.ent[k].ino >= 1 && IN.ent[k].ino <= NI);
		ASSUME(IN.ent[k].nlen >= 1 && IN.ent[k].nlen <= (KIND == 0 ? 2 : TBUF));
	}
	for (k = 0; k < PLEN; k++)
		vf_path[k] = (char) IN.path[k];
	vf_path[PLEN] = 0;
	plen = 0;
	while (plen < PLEN && vf_path[plen])
		plen++;

#ifdef FLINK
	ref_rc = ref_follow(IN.cwd, IN.start, LC, &ref_res);
#else
	ref_rc = ref_walk(IN.cwd, IN.path, plen, FOLLOW, LC, &ref_res);
#endif
	/* ASSUME: the resolution nests at most DMAX symlink expansions below the starting depth (deeper nesting only through
	 * the depth-limit queries LC=6,7,8, where EXT2FS_MAX_NESTED_LINKS cuts it) */
	ASSUME(!ref_toodeep);

#ifdef FLINK
#if LC == 0
	rc = ext2fs_follow_link(&vf_fs, IN.root, IN.cwd, IN.start, &res);
#else
	{
		static char b[BS];
		rc = follow_link(&vf_fs, IN.root, IN.cwd, IN.start, LC, b, &res);
	}
#endif
#elif LC == 0 && FOLLOW
	rc = ext2fs_namei_follow(&vf_fs, IN.root, IN.cwd, vf_path, &res);
#elif LC == 0
	rc = ext2fs_namei(&vf_fs, IN.root, IN.cwd, vf_path, &res);
#else
	{
		static char b[BS];
		rc = open_namei(&vf_fs, IN.root, IN.cwd, vf_path, plen, FOLLOW, LC, b, &res);
	}
#endif

	PROP(vf_args_ok, "callees get the handle, a buffer, logical block 0 of the link / the link's inode");
	PROP(rc == ref_rc, "resolution fails exactly when the reference resolver fails, with its error (not found / not a directory / symlink loop / read error)");
	if (!rc)
		PROP(res == (ext2_ino_t) ref_res, "the path resolves to the inode the reference resolver reaches");
	VF_END();
	return 0;
}
