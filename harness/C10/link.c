/*
 * C10/link: inserting a name into a linear directory block (pattern I).
 *
 * Real code: ext2fs_link() [linear path] / add_dirent_to_buf() [the leaf insert
 * of the indexed path] -> ext2fs_dir_iterate2 -> ext2fs_process_dir_block ->
 * link_proc, ext2fs_read_dir_block4 / ext2fs_write_dir_block4 (link.c,
 * dirblock.c included; dir_iterate.c is the unit iter_unit.c).
 *
 * Pre-state: every byte of the directory block(s) symbolic under WF (vf_scan).
 * One operation link(name, ino, type).  Asserted on the ON-DISK post-state
 * (what the write stub received), read by the independent reader:
 *   - success:  WF', every live entry of the pre-state is still there, byte
 *     for byte (inode, name_len, file_type, name), exactly ONE more live entry
 *     exists and it is (ino, name, type) -> listing' = listing + entry;
 *   - EXT2_ET_DIR_NO_SPACE: the listing is unchanged (free records may have been
 *     coalesced, WF' still holds), and really no single record had room (live
 *     record with slack >= need, or free record >= need);
 *   - no other return value; checksum hook runs before every write.
 */
#include "dirblk_pre.h"
#define ext2fs_bmap2 stub_bmap2
#include "lib/ext2fs/link.c"
#include "lib/ext2fs/dirblock.c"
#include "env.c"

#ifndef VF_NAMEMAX
#define VF_NAMEMAX 8
#endif
#define OP_LINK 1		/* ext2fs_link(), linear directory */
#define OP_LEAF 2		/* add_dirent_to_buf(): leaf insert of dx_link() */
#ifndef OP
#define OP OP_LINK
#endif

#include "dirblk.h"

struct vf_in {
	unsigned char blk[NB * BS];
	unsigned char name[VF_NAMEMAX];
	unsigned char namelen;
	unsigned char lblk;		/* OP_LEAF: which logical block is the leaf */
	__u32 ino;
	int flags;
};
VF_DECLARE_INPUT(struct vf_in, IN)
#include "vf_input.inc"

/* STUB: ext2fs_bmap2() maps logical block b of the directory to physical VF_BLK0 + b (initialised) */
errcode_t stub_bmap2(ext2_filsys fs, ext2_ino_t ino, struct ext2_inode *inode, char *block_buf,
		     int bmap_flags, blk64_t block, int *ret_flags, blk64_t *phys_blk)
{
	(void) fs; (void) ino; (void) inode; (void) block_buf; (void) bmap_flags;
	if (ret_flags)
		*ret_flags = 0;
	*phys_blk = VF_BLK0 + block;
	return 0;
}

static unsigned char vf_pre[NB * BS];
static unsigned char vf_s0[NB][NSLOT], vf_s1[NB][NSLOT];
static char vf_name[VF_NAMEMAX + 1];

int main(void)
{
	errcode_t rc;
	int i, b, p, room = 0, found = 0, live0 = 0, live1 = 0;
	unsigned n, need;

	VF_INPUT(IN);
	vf_setup_fs();
#ifdef NAMELEN
	n = NAMELEN;			/* BOUND: name length fixed per query when NAMELEN is given */
#else
	n = IN.namelen;
#endif
	/* BOUND: new name of 1..VF_NAMEMAX bytes, no NUL inside (the API takes a C string) */
	ASSUME(n >= 1 && n <= VF_NAMEMAX);
	for (i = 0; i < VF_NAMEMAX; i++) {
		if ((unsigned) i < n)
			ASSUME(IN.name[i] != 0);
		vf_name[i] = (unsigned) i < n ? (char) IN.name[i] : 0;
	}
	vf_name[VF_NAMEMAX] = 0;
	need = (n + 8 + 3) & ~3u;	/* format: 8-byte header + name, padded to 4 */

	for (i = 0; i < NB * BS; i++)
		vf_disk[i] = vf_pre[i] = IN.blk[i];
	for (b = 0; b < NB; b++) {
		/* ASSUME: the block is well formed (rec_len chain tiles the block, csum tail present iff metadata_csum) */
		ASSUME(vf_scan(vf_pre + b * BS, vf_s0[b]));
#ifndef WITH_FILETYPE
		/* ASSUME: without the filetype feature the high byte of name_len is 0 in every record (16-bit name_len) */
		for (p = 0; p + 8 <= END; p += 4)
			if (vf_s0[b][p / 4])
				ASSUME(E_FT(vf_pre + b * BS, p) == 0);
#endif
	}
	/* ASSUME: the new inode number is not 0 (callers link existing inodes) */
	ASSUME(IN.ino != 0);

#if OP == OP_LINK
	rc = ext2fs_link(&vf_fs, VF_DIR, vf_name, IN.ino, IN.flags);
#else
	{
		static char lbuf[BS];
		blk64_t pblk = 0;
		/* BOUND: OP_LEAF targets one of the NB blocks */
		ASSUME(IN.lblk < NB);
		rc = add_dirent_to_buf(&vf_fs, IN.lblk, lbuf, VF_DIR, &vf_inode, vf_name,
				       IN.ino, IN.flags, &pblk);
		PROP(pblk == (blk64_t) VF_BLK0 + IN.lblk, "leaf insert reports the physical block of the leaf");
	}
#endif

	PROP(rc == 0 || rc == EXT2_ET_DIR_NO_SPACE, "link returns success or no-space only");
	PROP(vf_write_without_csum == 0, "checksum hook runs before every directory block write");

	for (b = 0; b < NB; b++) {
		const unsigned char *a = vf_pre + b * BS, *d = vf_disk + b * BS;
		int wf1 = vf_scan(d, vf_s1[b]);
		PROP(wf1, "block well formed after link");
#if OP == OP_LEAF
		if (b != IN.lblk) {
			for (i = 0; i < BS; i++)
				PROP(a[i] == d[i], "other blocks untouched by a leaf insert");
			continue;
		}
#endif
		live0 += vf_count_live(a, vf_s0[b]);
		live1 += vf_count_live(d, vf_s1[b]);
		for (p = 0; p + 8 <= END; p += 4) {
			if (vf_s0[b][p / 4]) {
				unsigned rl = E_RL(a, p);
				if (E_INO(a, p) != 0) {
					PROP(vf_s1[b][p / 4] && vf_same_entry(a, d, p),
					     "existing entry keeps inode, type and name");
					if (rl >= ((E_NL(a, p) + 8 + 3) & ~3u) + need)
						room = 1;
				} else if (rl >= need)
					room = 1;
			}
			if (vf_s1[b][p / 4] && E_INO(d, p) != 0 &&
			    !(vf_s0[b][p / 4] && E_INO(a, p) != 0)) {
				found++;
				PROP(E_INO(d, p) == IN.ino, "new entry carries the requested inode");
				PROP(vf_name_eq(d, p, IN.name, n), "new entry carries the requested name");
#ifdef WITH_FILETYPE
				PROP(E_FT(d, p) == (unsigned) (IN.flags & 7), "new entry carries the requested file type");
#else
				PROP(E_FT(d, p) == 0, "no file type stored without the filetype feature");
#endif
			}
		}
#ifdef WITH_CSUM
		for (i = END; i < BS; i++)
			PROP(a[i] == d[i], "checksum tail untouched by link_proc");
#endif
	}
	if (rc == 0) {
		PROP(found == 1 && live1 == live0 + 1, "listing after link = listing before + the new entry");
	} else {
		PROP(found == 0 && live1 == live0, "failed link leaves the listing unchanged");
		PROP(!room, "no-space only when no record had room");
#if NB == 1
		/* a failed pass may still coalesce free records; it must not lose space: covered by WF' */
#endif
	}
	VF_END();
	return 0;
}
