/*
 * C10/expanddir: adding one block to a block-mapped directory (pattern I/P).
 *
 * Real code: ext2fs_expand_dir(), expand_dir_proc() (expanddir.c),
 * ext2fs_new_dir_block() (newdir.c), ext2fs_write_dir_block4() (dirblock.c),
 * ext2fs_inode_size_set() (blknum.c), ext2fs_iblk_add_blocks() (i_block.c),
 * ext2fs_set_rec_len() (iter_unit.c), ext2fs_initialize_dirent_tail() (csum.c).
 *
 * Environment: ext2fs_block_iterate3(BLOCK_FLAG_APPEND) is a stub that behaves
 * like the real iterator on a directory of NEXIST mapped blocks without holes:
 * it presents the existing data blocks (and optionally an existing indirect
 * block), then -- because the next logical block may need 0..3 NEW mapping
 * blocks (12 -> 13 blocks: one indirect block; later double/triple) -- NMETA
 * callbacks with blockcnt < 0 and *blocknr == 0, then the append slot
 * (blockcnt == NEXIST, *blocknr == 0); it stops on BLOCK_ABORT.  NMETA and
 * whether an append slot is offered are symbolic.
 *
 * Asserted: every callback with an empty slot gets its own newly allocated
 * block and the allocation statistics are updated once per block; mapping
 * blocks are zeroed, the data block is written as an EMPTY WELL-FORMED
 * directory block (independent reader); the iteration is aborted right after
 * the data block; the inode is written once with i_size + one block and
 * i_blocks + (blocks allocated) * blocksize/512, everything else unchanged;
 * without an append slot EXT2_ET_EXPAND_DIR_ERR and no inode write.
 */
#include "dirblk_pre.h"
#define ext2fs_write_inode stub_write_inode
#define ext2fs_find_inode_goal stub_find_inode_goal
#define ext2fs_new_block2 stub_new_block2
#define ext2fs_block_alloc_stats2 stub_block_alloc_stats2
#define ext2fs_zero_blocks2 stub_zero_blocks2
#define ext2fs_inline_data_expand stub_inline_data_expand
#include "lib/ext2fs/expanddir.c"
#include "lib/ext2fs/newdir.c"
#include "lib/ext2fs/dirblock.c"
#include "env.c"

#ifndef BS
#define BS 1024
#endif
#define NB 1			/* vf_disk[] is physical block VF_BLK0: the allocator numbers blocks so that the data block gets it */
#ifndef NEXIST
#define NEXIST 12		/* mapped blocks before the call */
#endif
#define VF_NAMEMAX 1
#define VF_OWN_ITERATE
#define VF_OLD0 500		/* physical numbers of the existing data blocks */
#define VF_OLDMETA 900
#include "dirblk.h"

struct vf_in {
	struct ext2_inode inode;
	unsigned char nmeta, offer, old_meta;
	blk64_t goal;
};
VF_DECLARE_INPUT(struct vf_in, IN)
#include "vf_input.inc"

static int vf_nalloc, vf_nstats, vf_nzero, vf_nwinode, vf_stats_ok = 1, vf_zero_ok = 1, vf_iter_ok = 1;
static blk64_t vf_slot_blk[4];		/* [0] data slot, [k] metadata level k */
static int vf_slot_ret[4], vf_slot_seen[4], vf_continued, vf_iter_calls;
static struct ext2_inode vf_inode_out;
static int vf_dummy_map;

#define VF_ALLOC0 (VF_BLK0 - IN.nmeta)
/* STUB: ext2fs_new_block2() always succeeds and returns consecutive numbers VF_ALLOC0, VF_ALLOC0+1, ... chosen so that the (nmeta+1)-th allocation is VF_BLK0 (allocation failure is outside) */
errcode_t stub_new_block2(ext2_filsys fs, blk64_t goal, ext2fs_block_bitmap map, blk64_t *ret)
{
	(void) fs; (void) goal; (void) map;
	*ret = VF_ALLOC0 + vf_nalloc;
	vf_nalloc++;
	return 0;
}

/* STUB: ext2fs_block_alloc_stats2() only records: one +1 call per allocated block, in allocation order */
void stub_block_alloc_stats2(ext2_filsys fs, blk64_t blk, int inuse)
{
	(void) fs;
	if (inuse != 1 || blk != (blk64_t) (VF_ALLOC0 + vf_nstats) || vf_nstats != vf_nalloc - 1)
		vf_stats_ok = 0;
	vf_nstats++;
}

/* STUB: ext2fs_zero_blocks2() records which single block is zeroed (must be the block just allocated) */
errcode_t stub_zero_blocks2(ext2_filsys fs, blk64_t blk, int num, blk64_t *ret_blk, int *ret_count)
{
	(void) fs; (void) ret_blk; (void) ret_count;
	if (num != 1 || blk != (blk64_t) (VF_ALLOC0 + vf_nalloc - 1))
		vf_zero_ok = 0;
	vf_nzero++;
	return 0;
}

/* STUB: ext2fs_find_inode_goal() returns a symbolic goal; ext2fs_write_inode() stores the inode it is given */
blk64_t stub_find_inode_goal(ext2_filsys fs, ext2_ino_t ino, struct ext2_inode *inode, blk64_t lblk)
{
	(void) fs; (void) ino; (void) inode; (void) lblk;
	return IN.goal;
}

errcode_t stub_write_inode(ext2_filsys fs, ext2_ino_t ino, struct ext2_inode *inode)
{
	(void) fs;
	if (ino != VF_DIR)
		vf_iter_ok = 0;
	vf_inode_out = *inode;
	vf_nwinode++;
	return 0;
}

errcode_t stub_inline_data_expand(ext2_filsys fs, ext2_ino_t ino)
{
	(void) fs; (void) ino;
	PROP(0, "inline-data expansion is not reached");
	return 0;
}

/* STUB: ext2fs_block_iterate3(BLOCK_FLAG_APPEND) as described in the header comment */
errcode_t stub_block_iterate3(ext2_filsys fs, ext2_ino_t ino, int flags, char *block_buf,
			      int (*func)(ext2_filsys fs, blk64_t *blocknr, e2_blkcnt_t blockcnt,
					  blk64_t ref_blk, int ref_offset, void *priv_data),
			      void *priv_data)
{
	int b, k, r;
	blk64_t blk;
	(void) block_buf;
	vf_iter_calls++;
	if (ino != VF_DIR || flags != BLOCK_FLAG_APPEND)
		vf_iter_ok = 0;
	if (IN.old_meta) {
		blk = VF_OLDMETA;
		r = (*func)(fs, &blk, -1, 0, 0, priv_data);
		if (r != 0 || blk != VF_OLDMETA)
			vf_iter_ok = 0;
	}
	for (b = 0; b < NEXIST; b++) {
		blk = VF_OLD0 + b;
		r = (*func)(fs, &blk, b, 0, 0, priv_data);
		if (r != 0 || blk != (blk64_t) (VF_OLD0 + b))
			vf_iter_ok = 0;		/* existing blocks are left alone */
	}
	for (k = 3; k >= 1; k--) {
		if (k > IN.nmeta)
			continue;
		blk = 0;
		r = (*func)(fs, &blk, -k, 0, 0, priv_data);
		vf_slot_blk[k] = blk;
		vf_slot_ret[k] = r;
		vf_slot_seen[k] = 1;
		if (r & BLOCK_ABORT)
			return 0;
	}
	if (IN.offer) {
		blk = 0;
		r = (*func)(fs, &blk, NEXIST, 0, 0, priv_data);
		vf_slot_blk[0] = blk;
		vf_slot_ret[0] = r;
		vf_slot_seen[0] = 1;
		if (r & BLOCK_ABORT)
			return 0;
		vf_continued = 1;	/* the real iterator would offer the next slot: a second block would be added */
	}
	return 0;
}

static unsigned char vf_s[NSLOT];

int main(void)
{
	errcode_t rc;
	int k, p, i, nrec;
	unsigned nmeta;
	const unsigned char *a, *o;

	VF_INPUT(IN);
	vf_setup_fs();
	vf_fs.block_map = (ext2fs_block_bitmap) &vf_dummy_map;
	/* BOUND: 0..3 new mapping blocks per expansion (indirect, double, triple); cluster ratio 1 (no bigalloc); no huge_file */
	ASSUME(IN.nmeta <= 3 && IN.offer <= 1 && IN.old_meta <= 1);
	nmeta = IN.nmeta;
	/* ASSUME: when the iterator has no append slot to offer it also has no new mapping block to offer */
	if (!IN.offer)
		ASSUME(nmeta == 0);
	/* ASSUME: the directory inode is a directory of NEXIST >= 1 blocks, size below 4 GiB, i_blocks far from 2^32 */
	ASSUME(LINUX_S_ISDIR(IN.inode.i_mode));
	ASSUME(IN.inode.i_blocks < 0x7fffffffu);
	vf_inode = IN.inode;
	vf_inode.i_size = NEXIST * BS;
	vf_inode.i_size_high = 0;
	for (i = 0; i < NB * BS; i++)
		vf_disk[i] = 0x5a;

	rc = ext2fs_expand_dir(&vf_fs, VF_DIR);

	PROP(vf_iter_ok && vf_iter_calls == 1, "one APPEND iteration over the directory; existing blocks untouched");
	if (!IN.offer) {
		PROP(rc == EXT2_ET_EXPAND_DIR_ERR, "no append slot: expand error");
		PROP(vf_nwinode == 0 && vf_nalloc == 0 && vf_nwrite == 0, "nothing allocated or written when nothing was appended");
		VF_END();
		return 0;
	}
	PROP(rc == 0, "expand succeeds");
	PROP(!vf_continued && (vf_slot_ret[0] & BLOCK_ABORT) && (vf_slot_ret[0] & BLOCK_CHANGED),
	     "iteration is aborted right after the new data block, mapping marked changed");
	PROP(vf_nalloc == (int) nmeta + 1, "one block allocated per empty slot offered");
	PROP(vf_nstats == vf_nalloc && vf_stats_ok, "allocation statistics updated once per allocated block");
	PROP(vf_nzero == (int) nmeta && vf_zero_ok, "new mapping blocks are zeroed");
	/* slots receive the allocated blocks in callback order: triple, double, single, data */
	for (k = 1; k <= 3; k++)
		if ((unsigned) k <= nmeta) {
			PROP(vf_slot_blk[k] == (blk64_t) (VF_ALLOC0 + (nmeta - k)), "mapping slot receives its own new block");
			PROP(vf_slot_ret[k] == BLOCK_CHANGED, "mapping slot reported changed, iteration continues");
		}
	PROP(vf_slot_blk[0] == (blk64_t) VF_BLK0, "data slot receives its own new block");

	PROP(vf_nwrite == 1 && vf_write_without_csum == 0, "exactly one directory block written, after the checksum hook");
	{
		const unsigned char *d = vf_disk;
		PROP(vf_scan(d, vf_s), "new directory block is well formed (tail iff metadata_csum)");
		nrec = 0;
		for (p = 0; p + 8 <= END; p += 4)
			nrec += vf_s[p / 4];
		PROP(nrec == 1 && E_INO(d, 0) == 0 && E_RL(d, 0) == END, "new directory block is one free record");
	}

	PROP(vf_nwinode == 1, "inode written once");
	PROP(vf_inode_out.i_size == (NEXIST + 1) * BS && vf_inode_out.i_size_high == 0, "i_size grows by one block");
	PROP(vf_inode_out.i_blocks == IN.inode.i_blocks + (nmeta + 1) * (BS / 512),
	     "i_blocks grows by (blocks allocated) * blocksize/512");
	a = (const unsigned char *) &vf_inode;
	o = (const unsigned char *) &vf_inode_out;
	for (i = 0; i < (int) sizeof(struct ext2_inode); i++)
		if (!(i >= 4 && i < 8) && !(i >= 28 && i < 32))
			PROP(a[i] == o[i], "other inode fields unchanged");
	VF_END();
	return 0;
}
