/*
 * C10/inl_expand: conversion of an inline-data directory into a directory block.
 *
 * Real code: ext2fs_inline_data_convert_dir() (inline_data.c, included; the
 * kernel of ext2fs_inline_data_dir_expand()), ext2fs_get_rec_len / ext2fs_set_rec_len
 * (dir_iterate.c via iter_unit.c), ext2fs_initialize_dirent_tail (csum.c).
 *
 * Input: the inline image as ext2fs_inline_data_expand() assembles it: the 60
 * bytes of i_block followed by the EASZ bytes of the system.data value.
 * Expected block (independent construction from the on-disk formats):
 *   "."  at 0  {inode = the directory, rec_len 12, name_len 1, type DIR iff filetype}
 *   ".." at 12 {inode = parent stored in i_block[0..3], rec_len 12, name_len 2, type}
 *   bytes 24.. = the two dirent areas, byte for byte, except that the rec_len of
 *   the LAST record reaches the end of the block (minus the 12-byte checksum tail
 *   with metadata_csum); the tail {0, 12, 0, 0xDE, csum 0} is initialised; the
 *   rest of the (zero-filled) block is untouched.
 */
#define ext2fs_read_inode stub_read_inode
#define ext2fs_write_inode stub_write_inode
#include "lib/ext2fs/inline_data.c"
#include "env.c"

#ifndef EASZ
#define EASZ 0
#endif
#ifndef BS
#define BS 128
#endif
#ifdef WITH_CSUM
#define CS 12
#else
#define CS 0
#endif
#define END (BS - CS)
#define IBSZ 56
#define INSZ (60 + EASZ)
#define VF_DIR 12
#ifdef WITH_FILETYPE
#define FT 2
#else
#define FT 0
#endif

#define RD16(b, o) ((unsigned) (b)[(o)] | ((unsigned) (b)[(o) + 1] << 8))
#define RD32(b, o) ((__u32) (b)[(o)] | ((__u32) (b)[(o) + 1] << 8) | ((__u32) (b)[(o) + 2] << 16) | ((__u32) (b)[(o) + 3] << 24))

struct vf_in { unsigned char in[INSZ]; };
VF_DECLARE_INPUT(struct vf_in, IN)
#include "vf_input.inc"

static struct struct_ext2_filsys vf_fs;
static struct ext2_super_block vf_sb;
static unsigned char vf_ibuf[INSZ] __attribute__((aligned(8)));
static unsigned char vf_bbuf[BS] __attribute__((aligned(8)));	/* zero-filled like ext2fs_get_memzero() */
static unsigned char vf_exp[BS];
static unsigned char vf_s_ib[IBSZ / 4], vf_s_ea[EASZ / 4 + 1];

/* STUB: dir_iterate.c's outward calls are not reached from the conversion */
int stub_inline_data_dir_iterate(ext2_filsys fs, ext2_ino_t ino, void *priv_data)
{
	(void) fs; (void) ino; (void) priv_data;
	return 0;
}

static int ref_scan(const unsigned char *b, int len, unsigned char *start)
{
	unsigned next = 0;
	int p, ok = 1;

	for (p = 0; p + 8 <= len; p += 4) {
		start[p / 4] = 0;
		if ((unsigned) p == next && ok) {
			unsigned rl = RD16(b, p + 4), nl = b[p + 6];
			if (rl < 12 || (rl & 3) || p + rl > (unsigned) len || nl + 8 > rl)
				ok = 0;
			else if (RD32(b, p) != 0 && nl == 0)
				ok = 0;
			else {
				start[p / 4] = 1;
				next = p + rl;
			}
		}
	}
	if (next != (unsigned) len)
		ok = 0;
	return ok;
}

int main(void)
{
	errcode_t rc;
	int i, p, last = -1;

	VF_INPUT(IN);
	vf_fs.magic = EXT2_ET_MAGIC_EXT2FS_FILSYS;
	vf_fs.super = &vf_sb;
	vf_fs.blocksize = BS;
	vf_sb.s_feature_incompat = EXT4_FEATURE_INCOMPAT_INLINE_DATA | (FT ? EXT2_FEATURE_INCOMPAT_FILETYPE : 0);
	vf_sb.s_feature_ro_compat = CS ? EXT4_FEATURE_RO_COMPAT_METADATA_CSUM : 0;
	for (i = 0; i < INSZ; i++)
		vf_ibuf[i] = IN.in[i];
	/* ASSUME: both dirent areas (i_block bytes 4..59, EA value) are well formed and tile their area exactly */
	ASSUME(ref_scan(IN.in + 4, IBSZ, vf_s_ib));
#if EASZ
	ASSUME(ref_scan(IN.in + 60, EASZ, vf_s_ea));
#endif
	/* BOUND: block size BS (the inline image plus . and .. fits: 24 + 56 + EASZ <= BS - tail) */

	/* expected block */
	vf_exp[0] = VF_DIR; vf_exp[4] = 12; vf_exp[6] = 1; vf_exp[7] = FT; vf_exp[8] = '.';
	for (i = 0; i < 4; i++)
		vf_exp[12 + i] = IN.in[i];
	vf_exp[16] = 12; vf_exp[18] = 2; vf_exp[19] = FT; vf_exp[20] = '.'; vf_exp[21] = '.';
	for (i = 4; i < INSZ; i++)
		vf_exp[24 + i - 4] = IN.in[i];
	for (p = 0; p + 8 <= IBSZ; p += 4)
		if (vf_s_ib[p / 4])
			last = 24 + p;
#if EASZ
	for (p = 0; p + 8 <= EASZ; p += 4)
		if (vf_s_ea[p / 4])
			last = 24 + IBSZ + p;
#endif
	for (p = 24; p + 8 <= 24 + IBSZ + EASZ; p += 4)
		if (p == last) {
			vf_exp[p + 4] = (unsigned char) (END - p);
			vf_exp[p + 5] = (unsigned char) ((END - p) >> 8);
		}
#ifdef WITH_CSUM
	vf_exp[END + 4] = 12; vf_exp[END + 7] = 0xDE;
#endif

	rc = ext2fs_inline_data_convert_dir(&vf_fs, VF_DIR, (char *) vf_bbuf, (char *) vf_ibuf, INSZ);
	PROP(rc == 0, "conversion of a well-formed inline directory succeeds");
	for (i = 0; i < BS; i++)
		PROP(vf_bbuf[i] == vf_exp[i], "block = . + .. + every inline record byte for byte, last rec_len to the block end, checksum tail initialised");
	for (i = 0; i < INSZ; i++)
		PROP(vf_ibuf[i] == IN.in[i], "inline image not modified");
	VF_END();
	return 0;
}
