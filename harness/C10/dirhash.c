/*
 * C10/dirhash: ext2fs_dirhash2() == the kernel's directory name hash
 * (fs/ext4/hash.c: ext4fs_dirhash for DX_HASH_LEGACY / HALF_MD4 / TEA and their
 * _UNSIGNED variants), for EVERY name of up to MAXLEN bytes and EVERY seed
 * (pattern D).  The index placement of a name (dx_lookup, dx_split_leaf,
 * e2fsck -D) is decided by this value and must be the one the kernel computes.
 *
 * The reference below is written from the definition, not from dirhash.c:
 *  - MD4 round functions in their RFC 1320 form (F = xy | ~xz, G = majority,
 *    H = parity), message-word and rotation schedules as tables, constants
 *    floor(2^30*sqrt(2)), floor(2^30*sqrt(3)) in hex;
 *  - TEA with the round key sum = (i+1)*delta computed by multiplication;
 *  - the string-to-words packing as a closed form per word (word w = pad folded
 *    with the bytes 4w..4w+3 that exist), pad = len replicated in 4 bytes;
 *  - legacy hash as the recurrence h(k+1) = fold31(h(k-1) + (h(k) ^ c*7152373)).
 *  - kernel epilogue: hash &= ~1, and the value 0xfffffffe (EXT4_HTREE_EOF_32BIT << 1)
 *    is remapped to 0xfffffffc because it is the readdir EOF cookie.
 */
#include "lib/ext2fs/dirhash.c"
#include "env.c"

#ifndef HVER
#define HVER 1
#endif
#ifndef MAXLEN
#define MAXLEN 8
#endif

#define MODE_FULL 0		/* ext2fs_dirhash2() end to end */
#define MODE_PACK 1		/* str2hashbuf() alone: name bytes -> message words */
#define MODE_XFORM 2		/* halfMD4Transform() / TEA_transform() alone: (state, words) -> state */
#ifndef MODE
#define MODE MODE_FULL
#endif
#ifndef NUM
#define NUM 8
#endif

struct vf_in {
	__u32 st[4], w[8];
	unsigned char name[MAXLEN + 1];
	unsigned char len;
	__u32 seed[4];
	int hash_flags;
};
VF_DECLARE_INPUT(struct vf_in, IN)
#include "vf_input.inc"

static __u32 ref_rol(__u32 x, int s) { return (x << s) | (x >> (32 - s)); }

static __u32 ref_md4_f(int round, __u32 x, __u32 y, __u32 z)
{
	if (round == 0)
		return (x & y) | (~x & z);
	if (round == 1)
		return (x & y) | (x & z) | (y & z);
	return x ^ y ^ z;
}

static const unsigned char ref_md4_word[3][8] = {
	{ 0, 1, 2, 3, 4, 5, 6, 7 },
	{ 1, 3, 5, 7, 0, 2, 4, 6 },
	{ 3, 7, 2, 6, 1, 5, 0, 4 },
};
static const unsigned char ref_md4_rot[3][4] = { { 3, 7, 11, 19 }, { 3, 5, 9, 13 }, { 3, 9, 11, 15 } };
static const __u32 ref_md4_k[3] = { 0, 0x5A827999u, 0x6ED9EBA1u };

/* half MD4: three rounds of eight steps over eight message words; state (a,b,c,d) rotates one position per step */
static void ref_half_md4(__u32 st[4], const __u32 m[8])
{
	__u32 v[4];
	int r, i;
	v[0] = st[0]; v[1] = st[1]; v[2] = st[2]; v[3] = st[3];
	for (r = 0; r < 3; r++)
		for (i = 0; i < 8; i++) {
			/* step i updates v[(4 - i%4) % 4] from the other three in cyclic order */
			int ia = (4 - (i & 3)) & 3, ib = (ia + 1) & 3, ic = (ia + 2) & 3, id = (ia + 3) & 3;
			__u32 t = v[ia] + ref_md4_f(r, v[ib], v[ic], v[id]) + m[ref_md4_word[r][i]] + ref_md4_k[r];
			v[ia] = ref_rol(t, ref_md4_rot[r][i & 3]);
		}
	st[0] += v[0]; st[1] += v[1]; st[2] += v[2]; st[3] += v[3];
}

static void ref_tea(__u32 st[4], const __u32 m[4])
{
	__u32 x = st[0], y = st[1];
	int i;
	for (i = 0; i < 16; i++) {
		__u32 sum = (__u32) (i + 1) * 0x9E3779B9u;
		x += ((y << 4) + m[0]) ^ (y + sum) ^ ((y >> 5) + m[1]);
		y += ((x << 4) + m[2]) ^ (x + sum) ^ ((x >> 5) + m[3]);
	}
	st[0] += x;
	st[1] += y;
}

/* character value as the kernel sees it: the byte read as signed char (default) or unsigned char, widened to 32 bits */
static __u32 ref_chr(unsigned char c, int uns)
{
	if (uns)
		return c;
	return (__u32) (int) (signed char) c;
}

/* pack the chunk (p, len) into num words; len is the REMAINING length of the name */
static void ref_pack(const unsigned char *p, int len, __u32 *w, int num, int uns)
{
	__u32 pad;
	int use = len > num * 4 ? num * 4 : len, k, j;
	pad = (__u32) len | ((__u32) len << 8);	/* for len < 256: the length byte replicated four times */
	pad |= pad << 16;
	for (k = 0; k < num; k++) {
		__u32 v = pad;
		for (j = 0; j < 4; j++)
			if (4 * k + j < use)
				v = ref_chr(p[4 * k + j], uns) + (v << 8);
		w[k] = v;
	}
}

static __u32 ref_legacy(const unsigned char *p, int len, int uns)
{
	__u32 h0 = 0x12a3fe2d, h1 = 0x37abe8f9, h;
	int i;
	for (i = 0; i < MAXLEN; i++)
		if (i < len) {
			h = h1 + (h0 ^ (ref_chr(p[i], uns) * 7152373u));
			if (h >> 31)
				h -= 0x7fffffff;
			h1 = h0;
			h0 = h;
		}
	return h0 << 1;
}

int main(void)
{
	ext2_dirhash_t got = 0x5a5a5a5a, got_minor = 0xa5a5a5a5;
	__u32 st[4], w[8], want, want_minor = 0;
	errcode_t rc;
	int len, rem, off, i, uns = HVER >= 3, zero;
	static char nm[MAXLEN + 1];
	__u32 seed[4];

	VF_INPUT(IN);
#if MODE == MODE_PACK
	{
		__u32 gw[8];
		/* BOUND: remaining length 0..MAXLEN (beyond NUM*4 exercises the truncation), NUM words */
		ASSUME(IN.len <= MAXLEN);
		for (i = 0; i < MAXLEN + 1; i++)
			nm[i] = (char) IN.name[i];
		for (i = 0; i < 8; i++)
			gw[i] = w[i] = 0x77777777;
		str2hashbuf(nm, IN.len, gw, NUM, uns);
		ref_pack(IN.name, IN.len, w, NUM, uns);
		for (i = 0; i < 8; i++)
			PROP(gw[i] == w[i], "name bytes are packed into message words as the kernel does (and nothing beyond NUM words is written)");
		VF_END();
		return 0;
	}
#elif MODE == MODE_XFORM
	{
		__u32 gs[4];
		for (i = 0; i < 4; i++)
			gs[i] = st[i] = IN.st[i];
		for (i = 0; i < 8; i++)
			w[i] = IN.w[i];
#if HVER == 1
		halfMD4Transform(gs, w);
		ref_half_md4(st, w);
#else
		TEA_transform(gs, w);
		ref_tea(st, w);
#endif
		for (i = 0; i < 4; i++)
			PROP(gs[i] == st[i], "one transform step maps (state, words) as the kernel's does");
		VF_END();
		return 0;
	}
#endif
#ifdef NLEN
	len = NLEN;		/* BOUND: name length fixed per query when NLEN is given */
#else
	len = IN.len;
#endif
	/* BOUND: names of 0..MAXLEN bytes, every byte value (including NUL and >= 0x80) */
	ASSUME(len >= 0 && len <= MAXLEN);
	for (i = 0; i < MAXLEN + 1; i++)
		nm[i] = (char) IN.name[i];

#ifdef CONCRETE
	/* BOUND: CONCRETE queries are known-answer checks of the glue (version dispatch, signedness, chunk loop, result word) on one fixed name with bytes >= 0x80 and one fixed seed; the answer comes from the reference model */
	for (i = 0; i < MAXLEN + 1; i++)
		IN.name[i] = (unsigned char) (i * 37 + 0x85);
	IN.seed[0] = 0x01234567; IN.seed[1] = 0x89abcdef; IN.seed[2] = 0xfedcba98; IN.seed[3] = 0x76543210;
	for (i = 0; i < MAXLEN + 1; i++)
		nm[i] = (char) IN.name[i];
#endif
#ifdef EOFVEC
	/* BOUND: EOFVEC fixes the name to the 6 bytes the solver found in the symbolic CHECK_EOF query (legacy signed hash 0xfffffffe) */
	{
		static const unsigned char v[6] = { 0xba, 0xa9, 0xa1, 0x76, 0x0b, 0xde };
		for (i = 0; i < 6; i++) {
			IN.name[i] = v[i];
			nm[i] = (char) v[i];
		}
	}
#endif
	for (i = 0; i < 4; i++)
		seed[i] = IN.seed[i];
#ifdef SEED0
	/* BOUND: with SEED0 the first seed word is that non-zero constant (words 1..3 symbolic); the all-seeds case is the NLEN=0 and thorough queries */
	seed[0] = SEED0;
#endif
	zero = !(seed[0] | seed[1] | seed[2] | seed[3]);
#ifdef NULLSEED
	zero = 1;
#endif
	if (zero) {
		st[0] = 0x67452301; st[1] = 0xefcdab89; st[2] = 0x98badcfe; st[3] = 0x10325476;
	} else
		for (i = 0; i < 4; i++)
			st[i] = seed[i];

#if HVER == 0 || HVER == 3
	want = ref_legacy(IN.name, len, uns);
#elif HVER == 1 || HVER == 4
	for (off = 0, rem = len; rem > 0; off += 32, rem -= 32) {
		ref_pack(IN.name + off, rem, w, 8, uns);
		ref_half_md4(st, w);
	}
	want = st[1];
	want_minor = st[2];
#else
	for (off = 0, rem = len; rem > 0; off += 16, rem -= 16) {
		ref_pack(IN.name + off, rem, w, 4, uns);
		ref_tea(st, w);
	}
	want = st[0];
	want_minor = st[1];
#endif
	want &= ~1u;

#ifdef NULLSEED
	rc = ext2fs_dirhash2(HVER, nm, len, 0, IN.hash_flags, 0, &got, &got_minor);
#else
	rc = ext2fs_dirhash2(HVER, nm, len, 0, IN.hash_flags, seed, &got, &got_minor);
#endif
	PROP(rc == 0, "supported hash version succeeds");
	PROP(got_minor == want_minor, "minor hash equals the kernel's");
	PROP(!(got & 1), "low bit of the hash is clear (reserved for the continuation flag)");
#ifdef CHECK_EOF
	/* kernel epilogue: the EOF cookie value is never returned */
	if (want == 0xfffffffeu)
		want = 0xfffffffcu;
	PROP(got == want, "hash equals the kernel's, including the HTREE_EOF remap of 0xfffffffe");
#else
	PROP(got == want || want == 0xfffffffeu, "hash equals the kernel's (value 0xfffffffe aside: see CHECK_EOF query)");
#endif
	VF_END();
	return 0;
}
