/*
 * C10/writefile_p: debugfs "write" / mke2fs -d file creation: WHERE the new
 * name goes and what is allocated (pattern P).
 *
 * Real code: do_write_internal() (misc/create_inode.c).  Every callee is a
 * recording stub with symbolic outcome: ext2fs_open_file, fstat, close,
 * ext2fs_namei, ext2fs_new_inode, ext2fs_link, ext2fs_expand_dir,
 * ext2fs_test_inode_bitmap2, ext2fs_inode_alloc_stats2, ext2fs_inode_size_set,
 * ext2fs_extent_open2/_free, ext2fs_write_new_inode, ext2fs_inline_data_init
 * and the static copy_file() (cut).
 *
 * ext2fs_namei() is a small MODEL of path resolution over the namespace
 * {root, cwd, "d" under root, "d" under cwd} (inode numbers symbolic, root may
 * equal cwd, /d may be cwd): a leading '/' starts at root, "" names the start
 * directory (that is what the real namei does), "d" resolves to the model's
 * sub-directory or fails, "name" exists or not per directory (symbolic).
 *
 * The destination path is concrete per query: "name", "d/name", "/d/name",
 * "/name".  Reference: the directory a path names (its part before the last
 * '/', resolved from root if absolute, from cwd otherwise; "/" itself for
 * "/name").  Asserted:
 *  - the existence test is made in EXACTLY the directory the entry is linked
 *    into, and that is the directory the path names;
 *  - name exists there => EXT2_ET_FILE_EXISTS, no inode allocated, nothing
 *    linked or accounted; parent cannot be resolved => that error, nothing done;
 *  - free name => one inode allocated near that directory, linked once under
 *    the base name with type REG_FILE; EXT2_ET_DIR_NO_SPACE => expand that
 *    directory and retry once with the same arguments; then accounted once as
 *    a non-directory, inode written as a regular file of the host file's
 *    size and permission bits, data copied into it;
 *  - the host file is closed exactly once on every path.
 */
#define _LARGEFILE64_SOURCE 1
#ifndef _GNU_SOURCE
#define _GNU_SOURCE 1
#endif
/* calls made by create_inode.c are routed to the recording stubs below */
#define ext2fs_namei stub_namei
#define ext2fs_new_inode stub_new_inode
#define ext2fs_link stub_link
#define ext2fs_expand_dir stub_expand_dir
#define ext2fs_inode_alloc_stats2 stub_inode_alloc_stats2
#define ext2fs_inode_size_set stub_inode_size_set
#define ext2fs_extent_open2 stub_extent_open2
#define ext2fs_extent_free stub_extent_free
#define ext2fs_write_new_inode stub_write_new_inode
#define ext2fs_inline_data_init stub_inline_data_init
#include "config.h"
#include <time.h>
#include <sys/stat.h>
#include <sys/types.h>
#include <unistd.h>
#include <errno.h>
#include <ext2fs/ext2fs.h>
/* inline functions of the headers and libc calls: routed after their real declarations were seen */
int stub_open_file(const char *pathname, int flags, mode_t mode);
int stub_fstat(int fd, struct stat *st);
int stub_close(int fd);
int stub_test_inode_bitmap2(ext2fs_inode_bitmap map, ext2_ino_t ino);
#define ext2fs_open_file stub_open_file
#define fstat stub_fstat
#define close stub_close
#define ext2fs_test_inode_bitmap2 stub_test_inode_bitmap2
static errcode_t copy_file(ext2_filsys fs, int fd, struct stat *statbuf, ext2_ino_t ino);	/* cut */
#define main vf_real_main
#include "misc/create_inode.c"
#undef main
#include "env.c"
#ifndef VF_REPLAY
/* STUB: gettext(): identity (message catalogue lookup only) */
char *gettext(const char *m) { return (char *) m; }
#endif

#ifndef DEST
#define DEST 2
#endif
#if DEST == 1
#define DEST_STR "name"
#elif DEST == 2
#define DEST_STR "d/name"
#elif DEST == 3
#define DEST_STR "/d/name"
#else
#define DEST_STR "/name"
#endif
#define VF_FD 5

struct vf_in {
	ext2_ino_t root, cwd, d_root, d_cwd, newino;
	unsigned char ex_root, ex_cwd, ex_droot, ex_dcwd;	/* does "name" exist in that directory */
	errcode_t err_dir;		/* failure of resolving "d" (0 = it exists) */
	errcode_t err_newino, err_link1, err_link2, err_expand, err_size, err_extent, err_wrnew, err_inlinit, err_copy;
	int open_fail, fstat_fail, bitmap_set;
	unsigned int st_mode;
	long long st_size;
};
VF_DECLARE_INPUT(struct vf_in, IN)
#include "vf_input.inc"

static struct struct_ext2_filsys vf_fs;
static struct ext2_super_block vf_sb;
static char vf_dest[16];
static const char vf_src[] = "hostfile";
static int vf_nopen, vf_nclose, vf_nnamei, vf_nnewino, vf_nlink, vf_nexpand, vf_nstats, vf_nwrnew, vf_ncopy, vf_args_ok = 1;
static ext2_ino_t vf_exist_base, vf_newino_dir, vf_link_dir[2], vf_expand_dir;
static int vf_exist_tested, vf_link_ok[2], vf_stats_ok, vf_model_ok = 1, vf_seq, vf_at_link, vf_at_stats, vf_at_wrnew, vf_at_copy;
static struct ext2_inode vf_written;
static int vf_handle_obj;

static int vf_streq(const char *a, const char *b)
{
	int i;
	for (i = 0; i < 8; i++) {
		if (a[i] != b[i])
			return 0;
		if (!a[i])
			return 1;
	}
	return 0;
}

/* model namespace */
static int vf_exists(ext2_ino_t dir)
{
	if (dir == IN.root) return IN.ex_root;
	if (dir == IN.cwd) return IN.ex_cwd;
	if (dir == IN.d_root) return IN.ex_droot;
	if (dir == IN.d_cwd) return IN.ex_dcwd;
	vf_model_ok = 0;
	return 0;
}

static ext2_ino_t vf_sub(ext2_ino_t dir)
{
	if (dir == IN.root) return IN.d_root;
	if (dir == IN.cwd) return IN.d_cwd;
	vf_model_ok = 0;
	return 0;
}

/* STUB: ext2fs_open_file()/fstat()/close(): the host file opens as descriptor 5 (or fails), fstat gives symbolic mode and size (or fails) */
int stub_open_file(const char *pathname, int flags, mode_t mode)
{
	(void) mode; (void) flags;
	if (pathname != vf_src)
		vf_args_ok = 0;
	if (IN.open_fail) {
		errno = ENOENT;
		return -1;
	}
	vf_nopen++;
	return VF_FD;
}

int stub_fstat(int fd, struct stat *st)
{
	if (fd != VF_FD)
		vf_args_ok = 0;
	if (IN.fstat_fail) {
		errno = EIO;
		return -1;
	}
	memset(st, 0, sizeof(*st));
	st->st_mode = IN.st_mode;
	st->st_size = IN.st_size;
	return 0;
}

int stub_close(int fd)
{
	if (fd != VF_FD)
		vf_args_ok = 0;
	vf_nclose++;
	return 0;
}

/* STUB: ext2fs_namei(): the path-resolution model described in the header comment */
errcode_t stub_namei(ext2_filsys fs, ext2_ino_t root, ext2_ino_t cwd, const char *name, ext2_ino_t *inode)
{
	ext2_ino_t start = cwd;
	const char *p = name;
	(void) fs;
	vf_nnamei++;
	if (root != IN.root)
		vf_args_ok = 0;
	if (p[0] == '/') {
		start = root;
		p++;
	}
	if (p[0] == 0) {			/* "" or "/": the start directory itself */
		*inode = start;
		return 0;
	}
	if (vf_streq(p, "d")) {
		if (IN.err_dir)
			return IN.err_dir;
		*inode = vf_sub(start);
		return 0;
	}
	if (vf_streq(p, "name")) {
		vf_exist_tested++;
		vf_exist_base = start;
		if (vf_exists(start)) {
			*inode = 999;
			return 0;
		}
		return EXT2_ET_FILE_NOT_FOUND;
	}
	vf_model_ok = 0;			/* a path outside the model */
	return EXT2_ET_FILE_NOT_FOUND;
}

/* STUB: the remaining callees record their arguments and return a symbolic errcode */
errcode_t stub_new_inode(ext2_filsys fs, ext2_ino_t dir, int mode, ext2fs_inode_bitmap map, ext2_ino_t *ret)
{
	(void) fs; (void) map;
	vf_nnewino++;
	vf_newino_dir = dir;
	if (LINUX_S_ISDIR(mode))
		vf_args_ok = 0;		/* the allocator only looks at "directory or not" (the code passes 010755) */
	if (!IN.err_newino)
		*ret = IN.newino;
	return IN.err_newino;
}

errcode_t stub_link(ext2_filsys fs, ext2_ino_t dir, const char *name, ext2_ino_t ino, int flags)
{
	int k = vf_nlink < 2 ? vf_nlink : 1;
	(void) fs;
	vf_link_dir[k] = dir;
	vf_link_ok[k] = vf_streq(name, "name") && ino == IN.newino && flags == 1 /* EXT2_FT_REG_FILE */;
	vf_nlink++;
	vf_at_link = ++vf_seq;
	return k == 0 ? IN.err_link1 : IN.err_link2;
}

errcode_t stub_expand_dir(ext2_filsys fs, ext2_ino_t dir)
{
	(void) fs;
	vf_nexpand++;
	vf_expand_dir = dir;
	return IN.err_expand;
}

int stub_test_inode_bitmap2(ext2fs_inode_bitmap map, ext2_ino_t ino)
{
	(void) map; (void) ino;
	return IN.bitmap_set != 0;
}

void stub_inode_alloc_stats2(ext2_filsys fs, ext2_ino_t ino, int inuse, int isdir)
{
	(void) fs;
	vf_nstats++;
	vf_at_stats = ++vf_seq;
	vf_stats_ok = ino == IN.newino && inuse == 1 && isdir == 0;
}

errcode_t stub_inode_size_set(ext2_filsys fs, struct ext2_inode *inode, ext2_off64_t size)
{
	(void) fs;
	if (size != IN.st_size)
		vf_args_ok = 0;
	if (!IN.err_size) {
		inode->i_size = size & 0xffffffff;
		inode->i_size_high = size >> 32;
	}
	return IN.err_size;
}

errcode_t stub_extent_open2(ext2_filsys fs, ext2_ino_t ino, struct ext2_inode *inode, ext2_extent_handle_t *ret)
{
	(void) fs; (void) inode;
	if (ino != IN.newino)
		vf_args_ok = 0;
	if (!IN.err_extent)
		*ret = (ext2_extent_handle_t) &vf_handle_obj;
	return IN.err_extent;
}

void stub_extent_free(ext2_extent_handle_t h)
{
	if (h != (ext2_extent_handle_t) &vf_handle_obj)
		vf_args_ok = 0;
}

errcode_t stub_write_new_inode(ext2_filsys fs, ext2_ino_t ino, struct ext2_inode *inode)
{
	(void) fs;
	if (ino != IN.newino)
		vf_args_ok = 0;
	vf_nwrnew++;
	vf_at_wrnew = ++vf_seq;
	vf_written = *inode;
	return IN.err_wrnew;
}

errcode_t stub_inline_data_init(ext2_filsys fs, ext2_ino_t ino)
{
	(void) fs;
	if (ino != IN.newino)
		vf_args_ok = 0;
	return IN.err_inlinit;
}

/* STUB: copy_file() is cut: records (fd, inode) and returns a symbolic errcode (file data: C09/C18) */
static errcode_t copy_file(ext2_filsys fs, int fd, struct stat *statbuf, ext2_ino_t ino)
{
	(void) fs; (void) statbuf;
	if (fd != VF_FD || ino != IN.newino)
		vf_args_ok = 0;
	vf_ncopy++;
	vf_at_copy = ++vf_seq;
	return IN.err_copy;
}

int main(void)
{
	static const char d[] = DEST_STR;
	errcode_t rc;
	ext2_ino_t parent = 0;
	int i, parent_fails = 0;

	VF_INPUT(IN);
	vf_fs.magic = EXT2_ET_MAGIC_EXT2FS_FILSYS;
	vf_fs.flags = EXT2_FLAG_RW;
	vf_fs.super = &vf_sb;
	vf_fs.blocksize = 1024;
	vf_fs.now = 1000;		/* fixed clock (fs->now), so time() is not consulted */
#ifdef WITH_EXTENTS
	vf_sb.s_feature_incompat = EXT3_FEATURE_INCOMPAT_EXTENTS;
#endif
#ifdef WITH_INLINE
	vf_sb.s_feature_incompat = EXT4_FEATURE_INCOMPAT_INLINE_DATA;
#endif
	for (i = 0; i < (int) sizeof(d); i++)
		vf_dest[i] = d[i];
	/* ASSUME: inode numbers of the model are non-zero; the four flags are booleans; the host file is a regular file of non-negative size */
	ASSUME(IN.root && IN.cwd && IN.d_root && IN.d_cwd && IN.newino);
	ASSUME(IN.ex_root <= 1 && IN.ex_cwd <= 1 && IN.ex_droot <= 1 && IN.ex_dcwd <= 1);
	ASSUME(IN.st_size >= 0 && S_ISREG(IN.st_mode));

	/* reference: the directory the path names */
#if DEST == 1
	parent = IN.cwd;
#elif DEST == 2
	parent_fails = IN.err_dir != 0;
	parent = vf_sub(IN.cwd);
#elif DEST == 3
	parent_fails = IN.err_dir != 0;
	parent = vf_sub(IN.root);
#else
	parent = IN.root;
#endif

	rc = do_write_internal(&vf_fs, IN.cwd, vf_src, vf_dest, IN.root);

	PROP(vf_args_ok && vf_model_ok, "callees get the descriptor / inode they must get; paths stay inside the model");
	PROP(vf_nclose == vf_nopen, "the host file is closed exactly once iff it was opened");
	if (IN.open_fail || IN.fstat_fail) {
		PROP(rc != 0 && vf_nnamei == 0 && vf_nnewino == 0 && vf_nlink == 0, "unreadable host file: error, filesystem untouched");
		VF_END();
		return 0;
	}
	if (parent_fails) {
		PROP(rc == IN.err_dir && vf_nnewino == 0 && vf_nlink == 0 && vf_nstats == 0, "unresolvable parent: that error, nothing allocated or linked");
		VF_END();
		return 0;
	}
	PROP(vf_exist_tested == 1 && vf_exist_base == parent, "the existence test is made in the directory the path names");
	/* everything below is checked against the directory that WAS tested, so that a wrong resolution shows up under the one label above */
	parent = vf_exist_base;
	if (vf_exists(parent)) {
		PROP(rc == EXT2_ET_FILE_EXISTS, "existing name is refused");
		PROP(vf_nnewino == 0 && vf_nlink == 0 && vf_nexpand == 0 && vf_nstats == 0 && vf_nwrnew == 0 && vf_ncopy == 0,
		     "existing name: no inode allocated, nothing linked, accounted or written");
		VF_END();
		return 0;
	}
	PROP(vf_nnewino == 1 && vf_newino_dir == parent, "one inode is allocated, near the directory the path names");
	if (IN.err_newino) {
		PROP(rc == IN.err_newino && vf_nlink == 0 && vf_nstats == 0, "inode allocation failure: reported, nothing linked");
		VF_END();
		return 0;
	}
	PROP(vf_nlink >= 1 && vf_link_dir[0] == parent && vf_link_ok[0], "linked into the directory the path names, base name, type REG_FILE");
	PROP(vf_link_dir[0] == vf_exist_base, "existence test and link use the same directory");
	if (IN.err_link1 == EXT2_ET_DIR_NO_SPACE) {
		PROP(vf_nexpand == 1 && vf_expand_dir == parent, "directory full: that directory is expanded once");
		if (IN.err_expand) {
			PROP(rc == IN.err_expand && vf_nlink == 1 && vf_nstats == 0, "expansion failure: reported, no retry");
			VF_END();
			return 0;
		}
		PROP(vf_nlink == 2 && vf_link_dir[1] == parent && vf_link_ok[1], "one retry of the link with the same arguments");
		if (IN.err_link2) {
			PROP(rc == IN.err_link2 && vf_nstats == 0, "second link failure: reported, inode not accounted");
			VF_END();
			return 0;
		}
	} else {
		PROP(vf_nexpand == 0 && vf_nlink == 1, "no expansion, no retry unless the directory was full");
		if (IN.err_link1) {
			PROP(rc == IN.err_link1 && vf_nstats == 0, "link failure: reported, inode not accounted");
			VF_END();
			return 0;
		}
	}
	PROP(vf_nstats == 1 && vf_stats_ok && vf_at_stats > vf_at_link, "after the link the inode is accounted once, as a non-directory");
	if (rc == 0) {
		PROP(vf_nwrnew == 1 && vf_ncopy == 1 && vf_at_copy > vf_at_wrnew, "success: inode written once, then the data copied");
		PROP(vf_written.i_mode == (__u16) ((IN.st_mode & ~S_IFMT) | LINUX_S_IFREG) && vf_written.i_links_count == 1,
		     "inode is a regular file with the host file's permission bits and one link");
		PROP(vf_written.i_size == (__u32) IN.st_size && vf_written.i_size_high == (__u32) (IN.st_size >> 32), "inode has the host file's size");
		PROP(!(IN.err_size || IN.err_wrnew || IN.err_copy), "success is reported only if size, inode write and copy succeeded");
#ifdef WITH_INLINE
		PROP((vf_written.i_flags & EXT4_INLINE_DATA_FL) && !IN.err_inlinit, "inline_data filesystem: file starts as inline data");
#endif
#ifdef WITH_EXTENTS
		PROP(!IN.err_extent, "extents filesystem: extent header initialised");
#endif
	} else
		PROP(IN.err_size || IN.err_extent || IN.err_wrnew || IN.err_inlinit || IN.err_copy, "an error after the link comes from a failing step");
	VF_END();
	return 0;
}
