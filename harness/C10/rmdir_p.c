/*
 * C10/rmdir_p: debugfs rm / rmdir / kill_file as a protocol over recording stubs (pattern P).
 *
 * Real code (debugfs/debugfs.c): do_rmdir(), rmdir_proc(), do_rm(), do_kill_file(),
 * kill_file_by_inode(), release_blocks_proc(), unlink_file_by_name(); ext2fs_set_dtime() (ext2fs.h).
 *
 * The library below is a set of recording stubs: ext2fs_namei (symbolic result), a two-slot inode
 * store behind debugfs_read_inode / debugfs_write_inode (target and one other inode; symbolic failures),
 * ext2fs_unlink, ext2fs_dir_iterate2 (calls the REAL rmdir_proc on NDE symbolic entries),
 * ext2fs_block_iterate3 (calls the REAL release_blocks_proc on 0..NBLK symbolic blocks),
 * ext2fs_block_alloc_stats2 / ext2fs_inode_alloc_stats2 (ledger), string_to_inode, common_args_process.
 *
 * Reference (written from the namespace rules of the property):
 *  rmdir refuses (no effect at all) unless the name resolves to a directory whose listing holds nothing
 *  but unused entries, "." and ".."; on success the name is removed from the directory the path names,
 *  the inode is written with zero links and a dtime, each of its blocks (each cluster once) and the inode
 *  are released once, the inode as a DIRECTORY, and the link count of the parent (the ".." entry)
 *  drops by exactly one (stays when it is already <= 1), nothing else of the parent changes.
 *  rm refuses directories; it drops the link count by one, removes the name, and releases inode and
 *  blocks (inode as a NON-directory) exactly when the count reached zero.
 *  kill_file sets dtime and releases blocks and inode with isdir = type of the inode.
 */
#include <stdio.h>
#define main vf_debugfs_main
#define ext2fs_namei stub_namei
#define ext2fs_unlink stub_unlink
#define ext2fs_dir_iterate2 stub_dir_iterate2
#define ext2fs_block_iterate3 stub_block_iterate3
#define ext2fs_block_alloc_stats2 stub_block_alloc_stats2
#define ext2fs_inode_alloc_stats2 stub_inode_alloc_stats2
#define ext2fs_inode_has_valid_blocks2 stub_has_valid_blocks2
#define printf(...) ((void) 0)
#include "debugfs/debugfs.c"
#undef main
#undef printf
#include "env.c"

#ifndef OP
#define OP 1		/* 1 rmdir, 2 rm, 3 kill_file */
#endif
#ifndef NDE
#define NDE 3		/* BOUND: directory listing of NDE entries */
#endif
#ifndef NBLK
#define NBLK 3		/* BOUND: 0..NBLK blocks */
#endif
#ifndef CBITS
#define CBITS 0		/* cluster_ratio_bits */
#endif
#ifndef PATHKIND
#define PATHKIND 0	/* 0: "x1" in cwd, 1: "d/x1" */
#endif
#define VF_ERR EXT2_ET_SHORT_READ

struct vf_de { __u32 inode; unsigned char nlen, n0, n1, ftype; };
struct vf_in {
	ext2_ino_t ino, other, cwd, root, dirino;
	struct ext2_inode tgt, oth;
	struct vf_de de[NDE];
	unsigned char nblk;
	__u32 blk[NBLK];
	unsigned char namei_fail, iter_fail, unlink_fail, hasblk;
	unsigned char rdfail, wrfail;	/* bit k: k-th read / write fails */
};
VF_DECLARE_INPUT(struct vf_in, IN)
#include "vf_input.inc"

static struct struct_ext2_filsys vf_fs;
static struct ext2_super_block vf_sb;
static struct ext2_inode vf_tgt, vf_oth;
static ext2_ino_t vf_oth_no;
static int vf_nrd, vf_nwr, vf_nwr_tgt, vf_nwr_oth, vf_args_ok = 1, vf_failed;
static int vf_nunlink, vf_unlink_ok;
static int vf_nfree, vf_free_ok = 1;
static __u32 vf_freed[NBLK + 1];
static int vf_nifree, vf_ifree_ok, vf_ifree_isdir;
static int vf_seq, vf_at_unlink, vf_at_ifree, vf_at_wr_tgt;
static char vf_arg0[] = "cmd";
static char vf_arg1[8];

/* STUB: common_args_process / common_inode_args_process (util.c: argument count and open-filesystem checks) accept */
int common_args_process(int argc, ss_argv_t argv, int min_argc, int max_argc, const char *cmd, const char *usage, int flags)
{
	(void) argv; (void) cmd; (void) usage;
	if (argc < min_argc || argc > max_argc || !(flags & CHECK_FS_RW))
		vf_args_ok = 0;
	return 0;
}
int common_inode_args_process(int argc, ss_argv_t argv, ext2_ino_t *inode, int flags)
{
	(void) argc; (void) argv;
	if (!(flags & CHECK_FS_RW))
		vf_args_ok = 0;
	*inode = IN.ino;
	return 0;
}
/* STUB: string_to_inode resolves the directory part "d" to IN.dirino */
ext2_ino_t string_to_inode(char *str)
{
	if (str != vf_arg1 || str[0] != 'd' || str[1] != 0)
		vf_args_ok = 0;
	return IN.dirino;
}
/* STUB: ext2fs_namei resolves the argument to IN.ino or fails */
errcode_t stub_namei(ext2_filsys fs, ext2_ino_t r, ext2_ino_t c, const char *name, ext2_ino_t *inode)
{
	if (fs != &vf_fs || r != IN.root || c != IN.cwd || name != vf_arg1)
		vf_args_ok = 0;
	if (IN.namei_fail)
		return EXT2_ET_FILE_NOT_FOUND;
	*inode = IN.ino;
	return 0;
}
/* STUB: debugfs_read_inode / debugfs_write_inode (util.c wrappers of ext2fs_read/write_inode): a store of two inodes,
 * the k-th call fails when bit k of IN.rdfail / IN.wrfail is set */
int debugfs_read_inode(ext2_ino_t ino, struct ext2_inode *inode, const char *cmd)
{
	int k = vf_nrd++;
	(void) cmd;
	if (k < 8 && (IN.rdfail >> k) & 1) {
		vf_failed = 1;
		return 1;
	}
	if (ino == IN.ino)
		*inode = vf_tgt;
	else {
		if (ino != vf_oth_no)
			vf_args_ok = 0;
		*inode = vf_oth;
	}
	return 0;
}
int debugfs_write_inode(ext2_ino_t ino, struct ext2_inode *inode, const char *cmd)
{
	int k = vf_nwr++;
	(void) cmd;
	if (k < 8 && (IN.wrfail >> k) & 1) {
		vf_failed = 1;
		return 1;
	}
	if (ino == IN.ino) {
		vf_tgt = *inode;
		vf_nwr_tgt++;
		vf_at_wr_tgt = ++vf_seq;
	} else {
		if (ino != vf_oth_no)
			vf_args_ok = 0;
		vf_oth = *inode;
		vf_nwr_oth++;
	}
	return 0;
}
/* STUB: ext2fs_unlink records directory, name, inode and flags */
errcode_t stub_unlink(ext2_filsys fs, ext2_ino_t dir, const char *name, ext2_ino_t ino, int flags)
{
	vf_nunlink++;
	vf_at_unlink = ++vf_seq;
	vf_unlink_ok = fs == &vf_fs && dir == (PATHKIND ? IN.dirino : IN.cwd) && ino == 0 && flags == 0 &&
		       name[0] == 'x' && name[1] == '1' && name[2] == 0;
	return IN.unlink_fail ? VF_ERR : 0;
}
/* STUB: ext2fs_dir_iterate2 presents NDE symbolic entries to the real callback (no DIRENT_FLAG_INCLUDE_EMPTY: unused entries are
 * presented too, the callback must skip them itself) */
errcode_t stub_dir_iterate2(ext2_filsys fs, ext2_ino_t dir, int flags, char *block_buf,
			    int (*func)(ext2_ino_t, int, struct ext2_dir_entry *, int, int, char *, void *), void *priv)
{
	static union { struct ext2_dir_entry d; unsigned char b[16]; } u;
	int k;
	(void) block_buf;
	if (fs != &vf_fs || dir != IN.ino || (flags & ~DIRENT_FLAG_INCLUDE_EMPTY))
		vf_args_ok = 0;
	for (k = 0; k < NDE; k++) {
		if (!IN.de[k].inode && !(flags & DIRENT_FLAG_INCLUDE_EMPTY))
			continue;
		u.d.inode = IN.de[k].inode;
		u.d.rec_len = 12;
		u.d.name_len = IN.de[k].nlen | (IN.de[k].ftype << 8);
		u.d.name[0] = IN.de[k].n0;
		u.d.name[1] = IN.de[k].n1;
		u.d.name[2] = 'z';
		if (func(dir, k < 2 ? k + 1 : DIRENT_OTHER_FILE, &u.d, 12 * k, 64, 0, priv) & DIRENT_ABORT)
			break;
	}
	return IN.iter_fail ? VF_ERR : 0;
}
/* STUB: ext2fs_block_iterate3 presents IN.nblk symbolic blocks to the real callback */
errcode_t stub_block_iterate3(ext2_filsys fs, ext2_ino_t ino, int flags, char *block_buf,
			      int (*func)(ext2_filsys, blk64_t *, e2_blkcnt_t, blk64_t, int, void *), void *priv)
{
	int k;
	(void) block_buf;
	if (fs != &vf_fs || ino != IN.ino || !(flags & BLOCK_FLAG_READ_ONLY))
		vf_args_ok = 0;
	for (k = 0; k < NBLK; k++) {
		blk64_t b = IN.blk[k];
		if (k >= IN.nblk)
			break;
		if (func(fs, &b, k, 0, 0, priv) & BLOCK_ABORT)
			break;
	}
	return 0;
}
int stub_has_valid_blocks2(ext2_filsys fs, struct ext2_inode *inode)
{
	/* STUB: ext2fs_inode_has_valid_blocks2 answers IN.hasblk */
	(void) fs; (void) inode;
	return IN.hasblk;
}
void stub_block_alloc_stats2(ext2_filsys fs, blk64_t blk, int inuse)
{
	int k;
	if (fs != &vf_fs || inuse != -1 || vf_nfree >= NBLK)
		vf_free_ok = 0;
	for (k = 0; k < NBLK; k++)
		if (k == vf_nfree)
			vf_freed[k] = (__u32) blk;
	vf_nfree++;
}
void stub_inode_alloc_stats2(ext2_filsys fs, ext2_ino_t ino, int inuse, int isdir)
{
	vf_nifree++;
	vf_at_ifree = ++vf_seq;
	vf_ifree_ok = fs == &vf_fs && ino == IN.ino && inuse == -1;
	vf_ifree_isdir = isdir;
}

/* reference: the clusters to release, in order, each once (consecutive blocks of one cluster are one release) */
static int ref_nrel;
static __u32 ref_rel[NBLK + 1];
static void ref_release(void)
{
	int k, j;
	for (k = 0; k < NBLK; k++) {
		int dup = 0;
		if (k >= IN.nblk)
			break;
		for (j = 0; j < k; j++)
			if ((IN.blk[j] >> CBITS) == (IN.blk[k] >> CBITS))
				dup = 1;
		if (!dup) {
			for (j = 0; j < NBLK; j++)
				if (j == ref_nrel)
					ref_rel[j] = IN.blk[k];
			ref_nrel++;
		}
	}
}

static int ref_is_dot(const struct vf_de *d) { return d->nlen == 1 && d->n0 == '.'; }
static int ref_is_dotdot(const struct vf_de *d) { return d->nlen == 2 && d->n0 == '.' && d->n1 == '.'; }

static void vf_check_released(int isdir)
{
	int k;
	PROP(vf_nifree == 1 && vf_ifree_ok, "the inode is released exactly once (inode_alloc_stats2(ino, -1))");
	PROP(!!vf_ifree_isdir == isdir, "the inode is released with isdir matching its type (directory count of the group)");
	PROP(vf_tgt.i_dtime != 0 && vf_at_wr_tgt && vf_at_wr_tgt < vf_at_ifree, "a deletion time is written to the inode before it is released");
	PROP(vf_free_ok, "blocks are only released (-1), never more than the inode maps");
	if (IN.hasblk) {
		PROP(vf_nfree == ref_nrel, "every cluster the inode maps is released exactly once");
		for (k = 0; k < NBLK; k++)
			if (k < ref_nrel)
				PROP((vf_freed[k] >> CBITS) == (ref_rel[k] >> CBITS), "the released clusters are the mapped ones, in order");
	} else
		PROP(vf_nfree == 0, "no block is released for an inode without block map (fast symlink, inline data, device)");
}

int main(void)
{
	char *argv[3];
	int k, isdir, nonempty = 0;
	ext2_ino_t parent = 0;
	__u16 links0, plinks0;
	static struct ext2_inode oth0;

	VF_INPUT(IN);
	vf_fs.magic = EXT2_ET_MAGIC_EXT2FS_FILSYS;
	vf_fs.flags = EXT2_FLAG_RW;
	vf_fs.super = &vf_sb;
	vf_fs.cluster_ratio_bits = CBITS;
	vf_fs.now = 5000;
	vf_sb.s_inodes_count = 100;
	current_fs = &vf_fs;
	root = IN.root;
	cwd = IN.cwd;
	ASSUME(IN.ino != 0 && IN.nblk <= NBLK);
	ASSUME(IN.namei_fail <= 1 && IN.iter_fail <= 1 && IN.unlink_fail <= 1 && IN.hasblk <= 1);
	/* ASSUME: the blocks of one cluster are presented consecutively (the iterator walks logical order; bigalloc maps whole
	 * clusters contiguously), non-bigalloc: block numbers distinct */
	for (k = 1; k < NBLK; k++) {
		int j;
		for (j = 0; j + 1 < k; j++)
			ASSUME((IN.blk[j] >> CBITS) != (IN.blk[k] >> CBITS) || (IN.blk[k - 1] >> CBITS) == (IN.blk[k] >> CBITS));
	}
	/* ASSUME: block 0 / cluster 0 is never mapped (release_blocks_proc starts with last_cluster = 0) */
	for (k = 0; k < NBLK; k++)
		ASSUME((IN.blk[k] >> CBITS) != 0);
	for (k = 0; k < NDE; k++) {
		ASSUME(IN.de[k].nlen >= 1 && IN.de[k].nlen <= 3 && IN.de[k].ftype <= 7);
		if (IN.de[k].inode && !ref_is_dot(&IN.de[k]) && !ref_is_dotdot(&IN.de[k]))
			nonempty = 1;
		if (IN.de[k].inode && ref_is_dotdot(&IN.de[k]))
			parent = IN.de[k].inode;
	}
	/* ASSUME: ".." of the directory is not the directory itself (rmdir of the root directory is outside) */
	ASSUME(parent != IN.ino);
	vf_tgt = IN.tgt;
	vf_oth = oth0 = IN.oth;
	vf_oth_no = parent;
	links0 = IN.tgt.i_links_count;
	plinks0 = IN.oth.i_links_count;
	isdir = LINUX_S_ISDIR(IN.tgt.i_mode) ? 1 : 0;
	ref_release();

	vf_arg1[0] = 0;
#if PATHKIND == 1
	vf_arg1[0] = 'd'; vf_arg1[1] = '/'; vf_arg1[2] = 'x'; vf_arg1[3] = '1'; vf_arg1[4] = 0;
#else
	vf_arg1[0] = 'x'; vf_arg1[1] = '1'; vf_arg1[2] = 0;
#endif
	argv[0] = vf_arg0; argv[1] = vf_arg1; argv[2] = 0;
	/* ASSUME: the directory part of the path resolves (string_to_inode != 0) */
	ASSUME(IN.dirino != 0);

#if OP == 1
	do_rmdir(2, argv, 0, 0);
	PROP(vf_args_ok, "callees get the handle, the resolved inode, the argument");
	if (IN.namei_fail || (IN.rdfail & 1) || !isdir || IN.iter_fail || nonempty) {
		PROP(vf_nwr == 0 && vf_nunlink == 0 && vf_nfree == 0 && vf_nifree == 0,
		     "rmdir refuses without any effect: unresolved name, not a directory, unreadable or NON-EMPTY directory");
		VF_END();
		return 0;
	}
	if (!vf_failed) {
		PROP(vf_nunlink == 1 && vf_unlink_ok, "the name is removed once, from the directory the path names, by name");
		PROP(vf_tgt.i_links_count == 0, "the removed directory is written with zero links");
		vf_check_released(1);
		if (parent) {
			PROP(vf_nwr_oth == 1, "the parent (inode of the '..' entry) is written once");
			PROP(vf_oth.i_links_count == (plinks0 > 1 ? plinks0 - 1 : plinks0),
			     "the parent's link count drops by exactly one (the '..' back reference), never below 1");
			vf_oth.i_links_count = plinks0;
			PROP(!memcmp(&vf_oth, &oth0, sizeof(oth0)), "nothing else of the parent inode changes");
		} else
			PROP(vf_nwr_oth == 0, "no '..' entry: no other inode is written");
	}
#elif OP == 2
	/* ASSUME: the file to remove has at least one link (0 is an orphan: the decrement would wrap) */
	ASSUME(links0 >= 1);
	do_rm(2, argv, 0, 0);
	PROP(vf_args_ok, "callees get the handle, the resolved inode, the argument");
	if (IN.namei_fail || (IN.rdfail & 1) || isdir) {
		PROP(vf_nwr == 0 && vf_nunlink == 0 && vf_nfree == 0 && vf_nifree == 0,
		     "rm refuses without any effect: unresolved name, unreadable inode, DIRECTORY");
		VF_END();
		return 0;
	}
	if (!vf_failed) {
		PROP(vf_nunlink == 1 && vf_unlink_ok, "the name is removed once, from the directory the path names, by name");
		PROP(vf_tgt.i_links_count == links0 - 1, "the link count drops by exactly one");
		PROP(vf_nwr_oth == 0, "no other inode is written");
		if (links0 == 1)
			vf_check_released(0);
		else {
			PROP(vf_nifree == 0 && vf_nfree == 0, "inode and blocks stay allocated while other links exist");
			PROP(vf_tgt.i_dtime == IN.tgt.i_dtime, "no deletion time while other links exist");
		}
	}
#else
	do_kill_file(2, argv, 0, 0);
	PROP(vf_args_ok, "callees get the handle and the inode");
	if (IN.rdfail & 1) {
		PROP(vf_nwr == 0 && vf_nfree == 0 && vf_nifree == 0, "unreadable inode: no effect");
		VF_END();
		return 0;
	}
	if (!vf_failed) {
		vf_check_released(isdir);
		PROP(vf_tgt.i_links_count == links0 && vf_nunlink == 0, "kill_file touches neither the link count nor any name");
	}
#endif
	if (vf_failed)
		PROP(vf_nifree <= 1 && vf_nunlink <= 1, "after a failed inode read/write: nothing is released or unlinked twice");
	VF_END();
	return 0;
}
