/*
 * C10/mkdir_p: ext2fs_mkdir() over every fault schedule (pattern P).
 *
 * Real code: ext2fs_mkdir() (mkdir.c), ext2fs_iblk_set() (i_block.c).  EVERY
 * other callee is a recording stub whose return value is symbolic (any
 * errcode_t), so one query covers all combinations of failures:
 * ext2fs_new_inode, ext2fs_new_block2, ext2fs_new_dir_block /
 * ext2fs_new_dir_inline_data, ext2fs_read_inode (twice), ext2fs_write_new_inode,
 * ext2fs_write_dir_block4 / ext2fs_inline_data_init, ext2fs_extent_open2,
 * ext2fs_extent_set_bmap, ext2fs_lookup, ext2fs_link, ext2fs_write_inode; the
 * accounting calls ext2fs_inode_alloc_stats2 / ext2fs_block_alloc_stats2 are
 * recorded in a ledger.  Features (extents / inline_data) per query; inum
 * (0 = allocate), parent, name-or-NULL symbolic.
 *
 * Asserted:
 *  - mkdir reports an error iff a step failed (name already present counts);
 *  - on EVERY failure the ledger nets to zero: each inode_alloc_stats2(+1,
 *    isdir) is matched by (-1, SAME isdir) for the same inode, each
 *    block_alloc_stats2(+1) by (-1) for the same block; the parent inode is
 *    not rewritten;
 *  - on success: the inode is accounted exactly once, as a directory; its
 *    block exactly once (none for inline data); the template block was
 *    requested for (ino, parent) and that buffer is what gets written to the
 *    allocated block, after the inode; the inode is a directory with 2 links,
 *    one block; the name is looked up first and linked with type DIR; the
 *    parent is rewritten with links_count + 1 (from the re-read copy), not at
 *    all when the directory is its own parent.
 */
#define ext2fs_new_inode stub_new_inode
#define ext2fs_new_block2 stub_new_block2
#define ext2fs_find_inode_goal stub_find_inode_goal
#define ext2fs_new_dir_inline_data stub_new_dir_inline_data
#define ext2fs_new_dir_block stub_new_dir_block
#define ext2fs_read_inode stub_read_inode
#define ext2fs_write_new_inode stub_write_new_inode
#define ext2fs_inline_data_init stub_inline_data_init
#define ext2fs_write_dir_block4 stub_write_dir_block4
#define ext2fs_extent_open2 stub_extent_open2
#define ext2fs_extent_set_bmap stub_extent_set_bmap
#define ext2fs_extent_free stub_extent_free
#define ext2fs_block_alloc_stats2 stub_block_alloc_stats2
#define ext2fs_inode_alloc_stats2 stub_inode_alloc_stats2
#define ext2fs_lookup stub_lookup
#define ext2fs_link stub_link
#define ext2fs_write_inode stub_write_inode
#include "lib/ext2fs/mkdir.c"
#include "env.c"

#define BS 1024
#define FEAT_NONE 0
#define FEAT_EXTENTS 1
#define FEAT_INLINE 2
#ifndef FEAT
#define FEAT FEAT_NONE
#endif

enum { S_NEWINO, S_NEWBLK, S_TEMPLATE, S_READ1, S_WRNEW, S_WRDATA, S_EXTOPEN, S_EXTSET, S_LOOKUP, S_LINK,
       S_READ2, S_WRPARENT, S_N };

struct vf_in {
	errcode_t err[S_N];		/* return value of each step (0 = success) */
	ext2_ino_t inum, parent, newino;
	blk64_t newblk, goal;
	unsigned char has_name;
	unsigned umask;
	struct ext2_inode pin1, pin2;	/* parent inode as read the first / second time */
};
VF_DECLARE_INPUT(struct vf_in, IN)
#include "vf_input.inc"

static struct struct_ext2_filsys vf_fs;
static struct ext2_super_block vf_sb;
static int vf_seq, vf_failed, vf_called[S_N], vf_at[S_N], vf_args_ok = 1;
static int vf_nread;
/* ledger */
static int vf_ni, vf_nb, vf_isum_dir, vf_isum_nondir, vf_bsum, vf_i_ok = 1, vf_b_ok = 1;
static ext2_ino_t vf_ino;		/* the inode number the new directory must get */
static int vf_inl;
static char *vf_tmpl;
static struct ext2_inode vf_newinode, vf_parent_out;
static int vf_handle_obj, vf_handle_freed;
static const char vf_name[] = "d1";

static errcode_t vf_step(int s)
{
	vf_called[s]++;
	vf_at[s] = ++vf_seq;
	if (IN.err[s])
		vf_failed = 1;
	return IN.err[s];
}

/* STUB: every callee of ext2fs_mkdir records its arguments and returns the symbolic IN.err[step] */
errcode_t stub_new_inode(ext2_filsys fs, ext2_ino_t dir, int mode, ext2fs_inode_bitmap map, ext2_ino_t *ret)
{
	(void) fs; (void) map;
	if (dir != IN.parent || !LINUX_S_ISDIR(mode))
		vf_args_ok = 0;
	if (!IN.err[S_NEWINO])
		*ret = IN.newino;
	return vf_step(S_NEWINO);
}

blk64_t stub_find_inode_goal(ext2_filsys fs, ext2_ino_t ino, struct ext2_inode *inode, blk64_t lblk)
{
	(void) fs; (void) inode; (void) lblk;
	if (ino != vf_ino)
		vf_args_ok = 0;
	return IN.goal;
}

errcode_t stub_new_block2(ext2_filsys fs, blk64_t goal, ext2fs_block_bitmap map, blk64_t *ret)
{
	(void) fs; (void) map; (void) goal;
	if (!IN.err[S_NEWBLK])
		*ret = IN.newblk;
	return vf_step(S_NEWBLK);
}

errcode_t stub_new_dir_block(ext2_filsys fs, ext2_ino_t dir_ino, ext2_ino_t parent_ino, char **block)
{
	(void) fs;
	if (dir_ino != vf_ino || parent_ino != IN.parent || vf_inl)
		vf_args_ok = 0;		/* "." must name the new inode, ".." the parent */
	if (!IN.err[S_TEMPLATE]) {
		vf_tmpl = malloc(BS);
		*block = vf_tmpl;
	}
	return vf_step(S_TEMPLATE);
}

errcode_t stub_new_dir_inline_data(ext2_filsys fs, ext2_ino_t dir_ino, ext2_ino_t parent_ino, __u32 *iblock)
{
	(void) fs; (void) iblock;
	if (dir_ino != vf_ino || parent_ino != IN.parent || !vf_inl)
		vf_args_ok = 0;
	return vf_step(S_TEMPLATE);
}

errcode_t stub_read_inode(ext2_filsys fs, ext2_ino_t ino, struct ext2_inode *inode)
{
	int s = vf_nread++ ? S_READ2 : S_READ1;
	(void) fs;
	if (ino != IN.parent)
		vf_args_ok = 0;
	if (!IN.err[s])
		*inode = s == S_READ1 ? IN.pin1 : IN.pin2;
	return vf_step(s);
}

errcode_t stub_write_new_inode(ext2_filsys fs, ext2_ino_t ino, struct ext2_inode *inode)
{
	(void) fs;
	if (ino != vf_ino)
		vf_args_ok = 0;
	vf_newinode = *inode;
	return vf_step(S_WRNEW);
}

errcode_t stub_inline_data_init(ext2_filsys fs, ext2_ino_t ino)
{
	(void) fs;
	if (ino != vf_ino || !vf_inl)
		vf_args_ok = 0;
	return vf_step(S_WRDATA);
}

errcode_t stub_write_dir_block4(ext2_filsys fs, blk64_t block, void *buf, int flags, ext2_ino_t ino)
{
	(void) fs; (void) flags;
	if (ino != vf_ino || block != IN.newblk || buf != (void *) vf_tmpl || vf_inl)
		vf_args_ok = 0;		/* the template goes to the allocated block, owned by the new inode */
	return vf_step(S_WRDATA);
}

errcode_t stub_extent_open2(ext2_filsys fs, ext2_ino_t ino, struct ext2_inode *inode, ext2_extent_handle_t *ret)
{
	(void) fs; (void) inode;
	if (ino != vf_ino)
		vf_args_ok = 0;
	if (!IN.err[S_EXTOPEN])
		*ret = (ext2_extent_handle_t) &vf_handle_obj;
	return vf_step(S_EXTOPEN);
}

errcode_t stub_extent_set_bmap(ext2_extent_handle_t h, blk64_t logical, blk64_t physical, int flags)
{
	if (h != (ext2_extent_handle_t) &vf_handle_obj || logical != 0 || physical != IN.newblk || flags != 0)
		vf_args_ok = 0;
	return vf_step(S_EXTSET);
}

void stub_extent_free(ext2_extent_handle_t h)
{
	if (h != (ext2_extent_handle_t) &vf_handle_obj)
		vf_args_ok = 0;
	vf_handle_freed++;
}

void stub_block_alloc_stats2(ext2_filsys fs, blk64_t blk, int inuse)
{
	(void) fs;
	vf_nb++;
	vf_bsum += inuse;
	if (blk != IN.newblk || (inuse != 1 && inuse != -1))
		vf_b_ok = 0;
}

void stub_inode_alloc_stats2(ext2_filsys fs, ext2_ino_t ino, int inuse, int isdir)
{
	(void) fs;
	vf_ni++;
	if (isdir)
		vf_isum_dir += inuse;
	else
		vf_isum_nondir += inuse;
	if (ino != vf_ino || (inuse != 1 && inuse != -1))
		vf_i_ok = 0;
}

errcode_t stub_lookup(ext2_filsys fs, ext2_ino_t dir, const char *name, int namelen, char *buf, ext2_ino_t *inode)
{
	(void) fs; (void) buf;
	if (dir != IN.parent || name != vf_name || namelen != 2)
		vf_args_ok = 0;
	vf_called[S_LOOKUP]++;
	vf_at[S_LOOKUP] = ++vf_seq;
	if (IN.err[S_LOOKUP] != EXT2_ET_FILE_NOT_FOUND)
		vf_failed = 1;		/* name exists (0) or the lookup itself failed */
	if (!IN.err[S_LOOKUP])
		*inode = 77;
	return IN.err[S_LOOKUP];
}

errcode_t stub_link(ext2_filsys fs, ext2_ino_t dir, const char *name, ext2_ino_t ino, int flags)
{
	(void) fs;
	if (dir != IN.parent || name != vf_name || ino != vf_ino || flags != 2 /* EXT2_FT_DIR */)
		vf_args_ok = 0;
	return vf_step(S_LINK);
}

errcode_t stub_write_inode(ext2_filsys fs, ext2_ino_t ino, struct ext2_inode *inode)
{
	(void) fs;
	if (ino != IN.parent)
		vf_args_ok = 0;
	vf_parent_out = *inode;
	return vf_step(S_WRPARENT);
}

int main(void)
{
	errcode_t rc;
	int i;
	const unsigned char *a, *o;

	VF_INPUT(IN);
	vf_fs.magic = EXT2_ET_MAGIC_EXT2FS_FILSYS;
	vf_fs.flags = EXT2_FLAG_RW;
	vf_fs.super = &vf_sb;
	vf_fs.blocksize = BS;
	vf_fs.umask = IN.umask;
	vf_sb.s_rev_level = EXT2_DYNAMIC_REV;
	vf_sb.s_first_ino = 11;
#if FEAT == FEAT_EXTENTS
	vf_sb.s_feature_incompat = EXT3_FEATURE_INCOMPAT_EXTENTS;
#elif FEAT == FEAT_INLINE
	vf_sb.s_feature_incompat = EXT4_FEATURE_INCOMPAT_INLINE_DATA;
#endif
	/* ASSUME: the allocator returns a usable inode number (not 0); parent is a valid inode number */
	ASSUME(IN.newino != 0 && IN.parent != 0);
	ASSUME(IN.has_name <= 1);
	/* ASSUME: block numbers fit 32 bits (no 64bit feature in these queries) */
	ASSUME(IN.newblk < 0x100000000ULL);
	/* ASSUME: the parent's link count is below the 16-bit maximum (libext2fs has no dir_nlink/EXT4_LINK_MAX rule: see report) */
	ASSUME(IN.pin2.i_links_count < 65535);
	vf_ino = IN.inum ? IN.inum : IN.newino;
	vf_inl = (FEAT == FEAT_INLINE) && (!IN.inum || IN.inum >= 11);

	rc = ext2fs_mkdir(&vf_fs, IN.parent, IN.inum, IN.has_name ? (const char *) vf_name : (const char *) 0);

	PROP(vf_args_ok, "every callee gets the inode / block / parent / name / buffer it must get");
	PROP(!(rc != 0 && !vf_failed), "mkdir reports no error when every step succeeded");
	PROP(!(rc == 0 && vf_failed), "mkdir reports success only if every step succeeded and the name was free");
	PROP(vf_i_ok && vf_b_ok, "accounting calls name the new inode / its block with +1 or -1");
	PROP(vf_handle_freed == (vf_called[S_EXTOPEN] && !IN.err[S_EXTOPEN]), "extent handle released iff opened");
	if (rc) {
		PROP(vf_isum_dir == 0 && vf_isum_nondir == 0,
		     "failure: every inode_alloc_stats2(+1, isdir) is undone by (-1, same isdir)");
		PROP(vf_bsum == 0, "failure: every block_alloc_stats2(+1) is undone by (-1)");
		PROP(vf_ni <= 2 && vf_nb <= 2, "failure: at most one account/undo pair");
		PROP(!(vf_called[S_WRPARENT] && !IN.err[S_WRPARENT]), "failure: parent inode not rewritten");
		VF_END();
		return 0;
	}
	PROP(vf_ni == 1 && vf_isum_dir == 1 && vf_isum_nondir == 0, "success: inode accounted once, as a directory");
	PROP(vf_inl ? vf_nb == 0 : (vf_nb == 1 && vf_bsum == 1), "success: directory block accounted once (none for inline data)");
	PROP(vf_called[S_NEWINO] == (IN.inum == 0), "an inode is allocated iff none was given");
	PROP(vf_called[S_NEWBLK] == !vf_inl && vf_called[S_TEMPLATE] == 1 && vf_called[S_WRNEW] == 1 && vf_called[S_WRDATA] == 1,
	     "success: block allocated, template built, inode and directory data written once");
	PROP(vf_at[S_WRNEW] < vf_at[S_WRDATA], "directory data is written after the inode (generation number)");
	PROP(vf_newinode.i_mode == (LINUX_S_IFDIR | (0777 & ~IN.umask)) && vf_newinode.i_links_count == 2,
	     "new inode is a directory with two links");
	if (vf_inl) {
		PROP((vf_newinode.i_flags & EXT4_INLINE_DATA_FL) && vf_newinode.i_size == EXT4_MIN_INLINE_DATA_SIZE &&
		     vf_newinode.i_blocks == 0, "inline directory: flag, minimal size, no blocks");
	} else {
		PROP(vf_newinode.i_size == BS && vf_newinode.i_blocks == BS / 512, "new inode has one block of size and i_blocks");
#if FEAT == FEAT_EXTENTS
		PROP((vf_newinode.i_flags & EXT4_EXTENTS_FL) && vf_called[S_EXTOPEN] == 1 && vf_called[S_EXTSET] == 1 &&
		     vf_at[S_EXTSET] > vf_at[S_WRNEW], "extent-mapped: block 0 mapped through the extent code after the inode exists");
#else
		PROP(vf_newinode.i_block[0] == IN.newblk && vf_newinode.i_flags == 0, "block-mapped: i_block[0] is the allocated block");
#endif
	}
	if (IN.has_name) {
		PROP(vf_called[S_LOOKUP] == 1 && vf_called[S_LINK] == 1 && vf_at[S_LOOKUP] < vf_at[S_LINK],
		     "name is checked for existence, then linked with type DIR");
	} else
		PROP(vf_called[S_LOOKUP] == 0 && vf_called[S_LINK] == 0, "no name: nothing linked");
	if (IN.parent != vf_ino) {
		PROP(vf_called[S_WRPARENT] == 1 && vf_called[S_READ2] == 1 && vf_at[S_READ2] > vf_at[S_LINK],
		     "parent inode re-read after the link and rewritten once");
		PROP(vf_parent_out.i_links_count == IN.pin2.i_links_count + 1, "parent gains one link");
		a = (const unsigned char *) &IN.pin2;
		o = (const unsigned char *) &vf_parent_out;
		for (i = 0; i < (int) sizeof(struct ext2_inode); i++)
			if (i != 26 && i != 27)
				PROP(a[i] == o[i], "other parent inode fields unchanged");
	} else
		PROP(vf_called[S_WRPARENT] == 0, "a directory that is its own parent (root) is not rewritten");
	VF_END();
	return 0;
}
