/*
 * C10/inl_iter: listing and in-place modification of an INLINE-DATA directory.
 *
 * Real code: ext2fs_inline_data_dir_iterate(), ext2fs_inline_data_ea_get(),
 * ext2fs_inline_data_ea_set() (inline_data.c, included) and the real
 * ext2fs_process_dir_block() (dir_iterate.c, unit iter_unit.c).
 *
 * On-disk format of an inline directory (independent reader below):
 *   i_block bytes 0..3   inode number of the parent (little endian)  -> ".."
 *   i_block bytes 4..59  one dirent area of 56 bytes (rec_len chain tiles it)
 *   value of the extended attribute "system.data" (EASZ bytes, may be absent):
 *                        a second dirent area
 *   "." is not stored: it is the directory itself.
 *
 * One iteration with a recording callback that may modify ONE reported entry
 * (symbolic call index, new inode number, new file type, returns DIRENT_CHANGED)
 * and may stop the iteration at a symbolic call index (DIRENT_ABORT):
 *   - the callback sees exactly ".", "..", then the records of the i_block
 *     area, then those of the EA area that the reader sees (in use only, or
 *     all with DIRENT_FLAG_INCLUDE_EMPTY), each once, in this order, nothing
 *     after the aborting call, with consistent arguments;
 *   - afterwards the stored inode and the stored EA value are byte for byte
 *     the old ones except for the modified entry (".." -> i_block[0..3], an
 *     i_block record -> the inode, an EA record -> the EA value; a change of
 *     the synthesized "." has no storage and changes nothing);
 *   - nothing is written when nothing was changed;
 *   - the iterator context (buf, buflen, flags) is restored.
 */
#define ext2fs_read_inode stub_read_inode
#define ext2fs_write_inode stub_write_inode
#define ext2fs_xattrs_open stub_xattrs_open
#define ext2fs_xattrs_read stub_xattrs_read
#define ext2fs_xattrs_close stub_xattrs_close
#define ext2fs_xattr_get stub_xattr_get
#define ext2fs_xattr_set stub_xattr_set
#include "lib/ext2fs/inline_data.c"
#include "env.c"

#ifndef EASZ
#define EASZ 0			/* size of the system.data value; 0 = attribute absent */
#endif
#ifndef LFLAGS
#define LFLAGS 0
#endif
#ifndef NEG
#define NEG 0			/* 1: inode without EXT4_INLINE_DATA_FL, 2: inode is not a directory */
#endif
#ifdef WITH_ABORT
#define VF_ABORT_AT IN.abort_at	/* BOUND: the aborting invocation is symbolic only in the WITH_ABORT queries; otherwise the callback never aborts */
#else
#define VF_ABORT_AT 255
#endif
#define IBSZ 56			/* EXT4_MIN_INLINE_DATA_SIZE - EXT4_INLINE_DATA_DOTDOT_SIZE */
#define VF_DIR 12
#define NSLOT (2 + IBSZ / 4 + EASZ / 4 + 1)
#define SL_IB(p) (2 + (p) / 4)
#define SL_EA(p) (2 + IBSZ / 4 + (p) / 4)

#define RD16(b, o) ((unsigned) (b)[(o)] | ((unsigned) (b)[(o) + 1] << 8))
#define RD32(b, o) ((__u32) (b)[(o)] | ((__u32) (b)[(o) + 1] << 8) | ((__u32) (b)[(o) + 2] << 16) | ((__u32) (b)[(o) + 3] << 24))

struct vf_in {
	unsigned char iblock[60];
	unsigned char ea[EASZ ? EASZ : 4];
	__u32 newino;
	unsigned char newft;
	unsigned char victim;		/* index of the callback invocation that modifies its entry (>= number of calls: none) */
	unsigned char abort_at;		/* index of the callback invocation that returns DIRENT_ABORT */
};
VF_DECLARE_INPUT(struct vf_in, IN)
#include "vf_input.inc"

/* ------------------------------- environment ------------------------------- */
static struct struct_ext2_filsys vf_fs;
static struct ext2_super_block vf_sb;
static struct ext2_inode vf_ino_disk;			/* the stored inode */
static unsigned char vf_ea_disk[EASZ ? EASZ : 4];	/* the stored system.data value */
static char *vf_ea_buf;					/* buffer handed out by the last xattr_get */
static int vf_nwrite, vf_nset, vf_xread, vf_xopen, vf_bad_env;
static char vf_handle_obj[8];

/* STUB: ext2fs_read_inode / ext2fs_write_inode copy the whole inode from / to the one stored inode and always succeed */
errcode_t stub_read_inode(ext2_filsys fs, ext2_ino_t ino, struct ext2_inode *inode)
{
	if (fs != &vf_fs || ino != VF_DIR)
		vf_bad_env = 1;
	*inode = vf_ino_disk;
	return 0;
}

errcode_t stub_write_inode(ext2_filsys fs, ext2_ino_t ino, struct ext2_inode *inode)
{
	if (fs != &vf_fs || ino != VF_DIR)
		vf_bad_env = 1;
	vf_ino_disk = *inode;
	vf_nwrite++;
	return 0;
}

/* STUB: the xattr handle functions model an inode whose only attribute is "system.data" with an EASZ-byte value (absent when EASZ == 0): open/read/close succeed, get returns a malloc()ed copy, set replaces the stored value; set before read, a different key or a different length are flagged */
errcode_t stub_xattrs_open(ext2_filsys fs, ext2_ino_t ino, struct ext2_xattr_handle **handle)
{
	if (fs != &vf_fs || ino != VF_DIR)
		vf_bad_env = 1;
	vf_xopen++;
	vf_xread = 0;
	*handle = (struct ext2_xattr_handle *) vf_handle_obj;
	return 0;
}

errcode_t stub_xattrs_read(struct ext2_xattr_handle *handle)
{
	if ((char *) handle != vf_handle_obj)
		vf_bad_env = 1;
	vf_xread = 1;
	return 0;
}

errcode_t stub_xattrs_close(struct ext2_xattr_handle **handle)
{
	if ((char *) *handle != vf_handle_obj)
		vf_bad_env = 1;
	vf_xopen--;
	*handle = 0;
	return 0;
}

static int vf_is_system_data(const char *key)
{
	static const char want[12] = "system.data";
	int i;
	for (i = 0; i < 12; i++)
		if (key[i] != want[i])
			return 0;
	return 1;
}

errcode_t stub_xattr_get(struct ext2_xattr_handle *handle, const char *key, void **value, size_t *value_len)
{
	int i;
	if ((char *) handle != vf_handle_obj || !vf_xread || !vf_is_system_data(key))
		vf_bad_env = 1;
#if EASZ == 0
	(void) i; (void) value; (void) value_len;
	return EXT2_ET_EA_KEY_NOT_FOUND;
#else
	vf_ea_buf = malloc(EASZ);
	for (i = 0; i < EASZ; i++)
		vf_ea_buf[i] = (char) vf_ea_disk[i];
	*value = vf_ea_buf;
	*value_len = EASZ;
	return 0;
#endif
}

errcode_t stub_xattr_set(struct ext2_xattr_handle *handle, const char *key, const void *value, size_t value_len)
{
	const unsigned char *v = value;
	int i;
	if ((char *) handle != vf_handle_obj || !vf_xread || !vf_is_system_data(key) || value_len != EASZ)
		vf_bad_env = 1;
	for (i = 0; i < EASZ; i++)
		vf_ea_disk[i] = v[i];
	vf_nset++;
	return 0;
}

/* STUB: the parts of dir_iterate.c that are not reached on the inline path (block iterator, directory check, dir_iterate2's call back into the inline iterator) */
errcode_t stub_check_directory(ext2_filsys fs, ext2_ino_t ino)
{
	(void) fs; (void) ino;
	return 0;
}
int stub_inline_data_dir_iterate(ext2_filsys fs, ext2_ino_t ino, void *priv_data)
{
	return ext2fs_inline_data_dir_iterate(fs, ino, priv_data);
}

/* ---------------- independent reader of the on-disk format ---------------- */
/*
 * One dirent area of len bytes: records start at 0, rec_len multiple of 4,
 * >= 12, >= 8 + name_len, a record in use has a non-empty name, the chain ends
 * exactly at len.  start[p/4] = 1 iff a record starts at p.
 */
static int ref_scan(const unsigned char *b, int len, unsigned char *start)
{
	unsigned next = 0;
	int p, ok = 1;

	for (p = 0; p + 8 <= len; p += 4) {
		start[p / 4] = 0;
		if ((unsigned) p == next && ok) {
			unsigned rl = RD16(b, p + 4), nl = b[p + 6];
			if (rl < 12 || (rl & 3) || p + rl > (unsigned) len || nl + 8 > rl)
				ok = 0;
			else if (RD32(b, p) != 0 && nl == 0)
				ok = 0;
			else {
				start[p / 4] = 1;
				next = p + rl;
			}
		}
	}
	if (next != (unsigned) len)
		ok = 0;
	return ok;
}

/* ---------------------------- recording callback --------------------------- */
static unsigned char vf_calls[NSLOT];
static __u32 vf_seen_ino[NSLOT];
static int vf_ncalls, vf_last = -1, vf_order_ok = 1, vf_args_ok = 1, vf_dot_ok = 1, vf_deleted_seen, vf_after_abort, vf_aborted;
static int vf_dot_entry = -1;

static int vf_cb(ext2_ino_t dir, int entry, struct ext2_dir_entry *dirent, int offset,
		 int blocksize, char *buf, void *priv)
{
	int slot, s, ret = 0, me = vf_ncalls;

	vf_ncalls++;
	if (vf_aborted)
		vf_after_abort = 1;
	if (dir != VF_DIR || priv != (void *) &vf_calls || (char *) dirent != buf + offset || offset < 0 || (offset & 3))
		vf_args_ok = 0;
	if (entry == DIRENT_DELETED_FILE)
		vf_deleted_seen = 1;
	if (EASZ && buf == vf_ea_buf) {
		if (blocksize != EASZ || offset + 8 > EASZ)
			vf_args_ok = 0;
		slot = SL_EA(offset);
	} else if (blocksize == IBSZ) {
		if (offset + 8 > IBSZ)
			vf_args_ok = 0;
		slot = SL_IB(offset);
	} else {
		/* the synthesized entries: one 12-byte record each */
		if (blocksize != 12 || offset != 0 || dirent->rec_len != 12 || dirent->name[0] != '.')
			vf_dot_ok = 0;
		if ((dirent->name_len & 0xff) == 1) {
			slot = 0;
			vf_dot_entry = entry;
		} else {
			slot = 1;
			if ((dirent->name_len & 0xff) != 2 || dirent->name[1] != '.')
				vf_dot_ok = 0;
		}
	}
	if (slot <= vf_last)
		vf_order_ok = 0;
	vf_last = slot;
	for (s = 0; s < NSLOT; s++)
		if (s == slot) {
			vf_calls[s]++;
			vf_seen_ino[s] = dirent->inode;
		}
	if (me == IN.victim) {
		dirent->inode = IN.newino;
		if (slot >= 2)
			dirent->name_len = (dirent->name_len & 0xff) | ((unsigned) IN.newft << 8);
		ret |= DIRENT_CHANGED;
	}
	if (me == VF_ABORT_AT) {
		vf_aborted = 1;
		ret |= DIRENT_ABORT;
	}
	return ret;
}

static unsigned char vf_s_ib[IBSZ / 4], vf_s_ea[EASZ / 4 + 1];
static unsigned char vf_exp_ib[60], vf_exp_ea[EASZ ? EASZ : 4];
static unsigned char vf_expect[NSLOT];
static char vf_blockbuf[16];

int main(void)
{
	struct dir_context ctx;
	int i, p, idx, rc, live, changed = 0;

	VF_INPUT(IN);
	vf_fs.magic = EXT2_ET_MAGIC_EXT2FS_FILSYS;
	vf_fs.flags = EXT2_FLAG_RW;
	vf_fs.super = &vf_sb;
	vf_fs.blocksize = 1024;
	vf_sb.s_feature_incompat = EXT2_FEATURE_INCOMPAT_FILETYPE | EXT4_FEATURE_INCOMPAT_INLINE_DATA;

	/* stored state: a directory inode with inline data, every byte of i_block and of the EA value symbolic */
	vf_ino_disk.i_mode = (NEG == 2 ? LINUX_S_IFREG : LINUX_S_IFDIR) | 0755;
	vf_ino_disk.i_flags = (NEG == 1 ? 0 : EXT4_INLINE_DATA_FL);
	vf_ino_disk.i_size = 60 + EASZ;
	vf_ino_disk.i_links_count = 2;
	for (i = 0; i < 15; i++)
		vf_ino_disk.i_block[i] = RD32(IN.iblock, 4 * i);	/* little-endian host (WORDS_BIGENDIAN paths are outside) */
	for (i = 0; i < EASZ; i++)
		vf_ea_disk[i] = IN.ea[i];
	for (i = 0; i < 60; i++)
		vf_exp_ib[i] = IN.iblock[i];
	for (i = 0; i < EASZ; i++)
		vf_exp_ea[i] = IN.ea[i];

	/* ASSUME: both dirent areas are well formed (rec_len chain tiles the 56-byte i_block area and the EA value exactly; rec_len >= 12, multiple of 4, >= 8 + name_len; entries in use have a name) */
	ASSUME(ref_scan(IN.iblock + 4, IBSZ, vf_s_ib));
#if EASZ
	ASSUME(ref_scan(IN.ea, EASZ, vf_s_ea));
#endif

	/* reference: the expected sequence of callback invocations and the expected stored state afterwards */
	idx = 0;
#if NEG == 0
	/* "." */
	vf_expect[0] = 1;
	if (idx == IN.victim)
		changed = 1;	/* a change of the synthesized "." has no storage */
	idx++;
	/* ".." */
	/* a zero parent makes ".." an unused record like any other: reported only with INCLUDE_EMPTY */
	live = (idx - 1 < VF_ABORT_AT) && (RD32(IN.iblock, 0) != 0 || (LFLAGS & DIRENT_FLAG_INCLUDE_EMPTY));
	vf_expect[1] = live;
	if (live) {
		if (idx == IN.victim) {
			changed = 1;
			for (i = 0; i < 4; i++)
				vf_exp_ib[i] = (unsigned char) (IN.newino >> (8 * i));
		}
		idx++;
	}
	for (p = 0; p + 8 <= IBSZ; p += 4) {
		int want = vf_s_ib[p / 4] && (RD32(IN.iblock, 4 + p) != 0 || (LFLAGS & DIRENT_FLAG_INCLUDE_EMPTY));
		live = want && (idx - 1 < VF_ABORT_AT);
		vf_expect[SL_IB(p)] = live;
		if (live) {
			if (idx == IN.victim) {
				changed = 1;
				for (i = 0; i < 4; i++)
					vf_exp_ib[4 + p + i] = (unsigned char) (IN.newino >> (8 * i));
				vf_exp_ib[4 + p + 7] = IN.newft;
			}
			idx++;
		}
	}
#if EASZ
	for (p = 0; p + 8 <= EASZ; p += 4) {
		int want = vf_s_ea[p / 4] && (RD32(IN.ea, p) != 0 || (LFLAGS & DIRENT_FLAG_INCLUDE_EMPTY));
		live = want && (idx - 1 < VF_ABORT_AT);
		vf_expect[SL_EA(p)] = live;
		if (live) {
			if (idx == IN.victim) {
				changed = 1;
				for (i = 0; i < 4; i++)
					vf_exp_ea[p + i] = (unsigned char) (IN.newino >> (8 * i));
				vf_exp_ea[p + 7] = IN.newft;
			}
			idx++;
		}
	}
#endif
#endif

	/* the context as ext2fs_dir_iterate2() prepares it before it hands over to the inline iterator */
	ctx.dir = VF_DIR;
	ctx.flags = LFLAGS;
	ctx.buf = vf_blockbuf;
	ctx.buflen = 0x5a5a;
	ctx.func = vf_cb;
	ctx.priv_data = (void *) &vf_calls;
	ctx.errcode = 0;

	rc = ext2fs_inline_data_dir_iterate(&vf_fs, VF_DIR, &ctx);

	PROP(!vf_bad_env, "inode and xattr functions are called for this directory, read before get/set, key system.data, full length");
	PROP(vf_xopen == 0, "every xattr handle is closed");
	PROP(ctx.buf == vf_blockbuf && ctx.buflen == 0x5a5a && ctx.flags == LFLAGS, "iterator context restored");
	PROP((rc & (BLOCK_ABORT | BLOCK_INLINE_DATA_CHANGED)) == 0, "internal flags do not leak to the caller");
#if NEG == 1
	PROP(ctx.errcode == EXT2_ET_NO_INLINE_DATA, "inode without inline data is refused");
#elif NEG == 2
	PROP(ctx.errcode == EXT2_ET_NO_DIRECTORY, "non-directory is refused");
#else
	PROP(ctx.errcode == 0, "iteration over a well-formed inline directory succeeds");
	PROP(vf_dot_ok, "synthesized . and .. are 12-byte records with the right names");
	PROP(vf_dot_entry == DIRENT_DOT_FILE, ". is classified DIRENT_DOT_FILE");
#endif
	PROP(vf_args_ok, "callback arguments are consistent");
	PROP(vf_order_ok, "entries are reported in directory order: ., .., i_block area, EA area");
	PROP(!vf_deleted_seen, "nothing is classified as deleted without INCLUDE_REMOVED");
	PROP(!vf_after_abort, "no callback after DIRENT_ABORT");
	for (i = 0; i < NSLOT; i++)
		PROP(vf_calls[i] == vf_expect[i], "listing reports exactly the records the reader sees, once each");
#if NEG == 0
	PROP(vf_seen_ino[0] == VF_DIR, ". is the directory itself");
	if (vf_expect[1])
		PROP(vf_seen_ino[1] == RD32(IN.iblock, 0), ".. is the parent stored at the start of i_block");
	for (p = 0; p + 8 <= IBSZ; p += 4)
		if (vf_expect[SL_IB(p)])
			PROP(vf_seen_ino[SL_IB(p)] == RD32(IN.iblock, 4 + p), "reported inode is the stored inode (i_block area)");
#if EASZ
	for (p = 0; p + 8 <= EASZ; p += 4)
		if (vf_expect[SL_EA(p)])
			PROP(vf_seen_ino[SL_EA(p)] == RD32(IN.ea, p), "reported inode is the stored inode (EA area)");
#endif
#endif
	/* stored state afterwards */
	for (i = 0; i < 15; i++)
		PROP(vf_ino_disk.i_block[i] == RD32(vf_exp_ib, 4 * i), "stored i_block = old i_block with only the modified entry changed");
	for (i = 0; i < EASZ; i++)
		PROP(vf_ea_disk[i] == vf_exp_ea[i], "stored EA value = old value with only the modified entry changed");
	PROP(vf_ino_disk.i_mode == ((NEG == 2 ? LINUX_S_IFREG : LINUX_S_IFDIR) | 0755) && vf_ino_disk.i_flags == (NEG == 1 ? 0 : EXT4_INLINE_DATA_FL) &&
	     vf_ino_disk.i_size == 60 + EASZ && vf_ino_disk.i_links_count == 2, "other inode fields untouched");
	if (!changed)
		PROP(vf_nwrite == 0 && vf_nset == 0, "a read-only iteration writes nothing");
	VF_END();
	return 0;
}
