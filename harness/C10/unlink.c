/*
 * C10/unlink: removing a name from a linear directory (pattern I).
 *
 * Real code: ext2fs_unlink() -> ext2fs_dir_iterate -> ext2fs_dir_iterate2 ->
 * ext2fs_process_dir_block -> unlink_proc; ext2fs_read_dir_block4 /
 * ext2fs_write_dir_block4 (unlink.c, dirblock.c included; dir_iterate.c is the
 * unit iter_unit.c).
 *
 * Pre-state: NB directory blocks, every byte symbolic under WF.  One operation
 * unlink(name | NULL, ino, flags).  Reference (from the API's documentation):
 * the victim is the FIRST record in directory order whose name matches (if a
 * name is given) and whose inode equals ino (if ino != 0 and not FORCE), else
 * is simply in use.  Asserted on the on-disk post-state:
 *   - a victim exists  <=> return 0, else EXT2_ET_DIR_NO_SPACE and no byte
 *     of the directory changed;
 *   - the victim is no longer listed; every other live entry is still there,
 *     byte for byte; live count drops by exactly 1 -> listing' = listing - victim;
 *   - WF' (the space of the victim belongs to its predecessor, or the record
 *     stays as a free record when it is the first of its block); tail untouched.
 */
#include "dirblk_pre.h"
#include "lib/ext2fs/unlink.c"
#include "lib/ext2fs/dirblock.c"
#include "env.c"

#ifndef VF_NAMEMAX
#define VF_NAMEMAX 8
#endif
#define BY_NAME 1
#define BY_INO 2
#define BY_BOTH 3
#ifndef BY
#define BY BY_NAME
#endif

#include "dirblk.h"

struct vf_in {
	unsigned char blk[NB * BS];
	unsigned char name[VF_NAMEMAX];
	unsigned char namelen;
	__u32 ino;
};
VF_DECLARE_INPUT(struct vf_in, IN)
#include "vf_input.inc"

static unsigned char vf_pre[NB * BS];
static unsigned char vf_s0[NB][NSLOT], vf_s1[NB][NSLOT];
static char vf_name[VF_NAMEMAX + 1];

int main(void)
{
	errcode_t rc;
	int i, b, p, live0 = 0, live1 = 0, have = 0, vb = -1, vp = -1;
	unsigned n = 0;
	__u32 ino;
	int flags;

	VF_INPUT(IN);
	vf_setup_fs();
#if BY & BY_NAME
#ifdef NAMELEN
	n = NAMELEN;
#else
	n = IN.namelen;
#endif
	/* BOUND: name to remove of 1..VF_NAMEMAX bytes, no NUL inside (C string API) */
	ASSUME(n >= 1 && n <= VF_NAMEMAX);
	for (i = 0; i < VF_NAMEMAX; i++) {
		if ((unsigned) i < n)
			ASSUME(IN.name[i] != 0);
		vf_name[i] = (unsigned) i < n ? (char) IN.name[i] : 0;
	}
	vf_name[VF_NAMEMAX] = 0;
#endif
#if BY & BY_INO
	ino = IN.ino;
	/* ASSUME: BY_INO / BY_BOTH pass a non-zero inode (0 means "any" and is the BY_NAME query) */
	ASSUME(ino != 0);
#else
	ino = 0;
#endif
#ifdef WITH_FORCE
	flags = EXT2FS_UNLINK_FORCE;
#else
	flags = 0;
#endif

	for (i = 0; i < NB * BS; i++)
		vf_disk[i] = vf_pre[i] = IN.blk[i];
	for (b = 0; b < NB; b++)
		/* ASSUME: every block is well formed (rec_len chain tiles the block, csum tail present iff metadata_csum) */
		ASSUME(vf_scan(vf_pre + b * BS, vf_s0[b]));

	/* reference: first matching record in directory order */
	for (b = 0; b < NB; b++)
		for (p = 0; p + 8 <= END; p += 4) {
			const unsigned char *a = vf_pre + b * BS;
			int m;
			if (!vf_s0[b][p / 4] || have)
				continue;
			m = 1;
#if BY & BY_NAME
			if (!vf_name_eq(a, p, IN.name, n))
				m = 0;
#endif
#if (BY & BY_INO) && !defined(WITH_FORCE)
			if (E_INO(a, p) != ino)
				m = 0;
#else
			if (E_INO(a, p) == 0)
				m = 0;
#endif
			if (m) {
				have = 1;
				vb = b;
				vp = p;
			}
		}

#if BY == BY_INO
	rc = ext2fs_unlink(&vf_fs, VF_DIR, 0, ino, flags);
#else
	rc = ext2fs_unlink(&vf_fs, VF_DIR, vf_name, ino, flags);
#endif

	PROP(rc == (have ? 0 : EXT2_ET_DIR_NO_SPACE), "unlink succeeds iff a matching entry exists");
	PROP(vf_write_without_csum == 0, "checksum hook runs before every directory block write");

	for (b = 0; b < NB; b++) {
		const unsigned char *a = vf_pre + b * BS, *d = vf_disk + b * BS;
		int wf1 = vf_scan(d, vf_s1[b]);
		PROP(wf1, "block well formed after unlink");
		live0 += vf_count_live(a, vf_s0[b]);
		live1 += vf_count_live(d, vf_s1[b]);
		for (p = 0; p + 8 <= END; p += 4) {
			if (vf_s0[b][p / 4] && E_INO(a, p) != 0) {
				if (have && b == vb && p == vp)
					PROP(!(vf_s1[b][p / 4] && E_INO(d, p) != 0), "removed entry is no longer listed");
				else
					PROP(vf_s1[b][p / 4] && vf_same_entry(a, d, p),
					     "other entries keep inode, type and name");
			}
		}
		if (!have || b != vb)
			for (i = 0; i < BS; i++)
				PROP(a[i] == d[i], "blocks without the victim are unchanged");
#ifdef WITH_CSUM
		for (i = END; i < BS; i++)
			PROP(a[i] == d[i], "checksum tail untouched by unlink_proc");
#endif
	}
	PROP(live1 == live0 - (have ? 1 : 0), "listing after unlink = listing before - the victim");
	if (have)
		PROP(vf_nwrite == 1, "exactly one block is rewritten");
	else
		PROP(vf_nwrite == 0, "nothing is written when nothing matched");
	VF_END();
	return 0;
}
