/*
 * C10/dxgrow: growing the htree index when an interior node is full (pattern I).
 *
 * Real code (link.c statics): dx_grow_tree() -- the interior-node split
 * (OP_SPLIT) and the depth increase that moves the root's entries into a new
 * node (OP_DEEPEN) --, dx_insert_entry(), ext2fs_inode_size_set(),
 * ext2fs_set_rec_len(), ext2fs_write_dir_block4().
 *
 * The meaning of an index is its lookup function: for a name hash T the child
 * chosen in a node is the LAST pair whose hash is <= T (leftmost child if
 * none).  The reference resolves T by linear scans, once over the symbolic
 * pre-state and once over the blocks the write stub received, and demands the
 * SAME leaf for EVERY 32-bit T: every child keeps its hash range.  Plus:
 * counts/limits consistent, both halves non-empty, hashes ascending in every
 * written node, the parent's new pair points to the new block and carries the
 * first hash that moved, new node has the fake dirent header, i_size grows by
 * one block, the new block is allocated (fallocate stub) at the old end.
 *
 * OP_SPLIT pre-state: parent node (frames[0]) with pc < limit pairs, its pair
 * `a` points to the full node (frames[1], count == limit = L), all hashes
 * symbolic, strictly ascending, the full node's hashes inside its range.
 * The parent's pairs are laid out at offset 8 like a dx_node (in a real
 * 2-level tree it is the root, whose pairs start at 32: dx_grow_tree only goes
 * through frames[0].head/entries/at in this path; OP_DEEPEN uses the real root
 * layout).
 * OP_DEEPEN pre-state: 1-level tree, root full (real dx_root layout), hashes
 * symbolic ascending.
 */
#include "dirblk_pre.h"
#define ext2fs_bmap2 stub_bmap2
#define ext2fs_fallocate stub_fallocate
#define ext2fs_write_inode stub_write_inode
#include "lib/ext2fs/link.c"
#include "lib/ext2fs/dirblock.c"
#include "env.c"

#define OP_SPLIT 1
#define OP_DEEPEN 2
#ifndef OP
#define OP OP_SPLIT
#endif
#ifndef L
#define L 3			/* OP_SPLIT: limit of a dx_node; OP_DEEPEN: limit of the root */
#endif
#ifdef WITH_CSUM
#define DXT 8			/* struct ext2_dx_tail */
#else
#define DXT 0
#endif
#if OP == OP_SPLIT
#define BS (8 + 8 * L + DXT)
#else
#define BS (32 + 8 * L + DXT)
#endif
#define NLIM ((BS - 8 - DXT) / 8)	/* limit of a non-root node of this block size */
#define NB 4
#define VF_NAMEMAX 1
#define OLDBLKS 3		/* directory size before: blocks 0..2; the new block is logical 3 */
#include "dirblk.h"

struct vf_in {
	__u32 ph[L], pb[L];	/* parent (root) pairs; ph[0] unused */
	__u32 ch[L], cb[L];	/* OP_SPLIT: pairs of the full node; ch[0] unused */
	unsigned char pc, a;
	__u32 target;
	struct ext2_inode inode;
};
VF_DECLARE_INPUT(struct vf_in, IN)
#include "vf_input.inc"

static int vf_nfalloc, vf_falloc_ok = 1, vf_nwinode;
static struct ext2_inode vf_inode_out;

/* STUB: ext2fs_bmap2() maps logical block b to physical VF_BLK0 + b */
errcode_t stub_bmap2(ext2_filsys fs, ext2_ino_t ino, struct ext2_inode *inode, char *block_buf,
		     int bmap_flags, blk64_t block, int *ret_flags, blk64_t *phys_blk)
{
	(void) fs; (void) ino; (void) inode; (void) block_buf; (void) bmap_flags;
	if (ret_flags)
		*ret_flags = 0;
	*phys_blk = VF_BLK0 + block;
	return 0;
}

/* STUB: ext2fs_fallocate() succeeds; records that exactly the block at the old end is requested, initialised and zeroed */
errcode_t stub_fallocate(ext2_filsys fs, int flags, ext2_ino_t ino, struct ext2_inode *inode,
			 blk64_t goal, blk64_t start, blk64_t len)
{
	(void) fs; (void) inode; (void) goal;
	if (flags != (EXT2_FALLOCATE_FORCE_INIT | EXT2_FALLOCATE_ZERO_BLOCKS) || ino != VF_DIR ||
	    start != OLDBLKS || len != 1)
		vf_falloc_ok = 0;
	vf_nfalloc++;
	return 0;
}

/* STUB: ext2fs_write_inode() stores the inode it is given */
errcode_t stub_write_inode(ext2_filsys fs, ext2_ino_t ino, struct ext2_inode *inode)
{
	(void) fs; (void) ino;
	vf_inode_out = *inode;
	vf_nwinode++;
	return 0;
}

static unsigned char vf_parent[BS], vf_parent0[BS], vf_child[BS], vf_scratch[BS];
static struct dx_lookup_info vf_info;
static struct ext2_inode vf_diri;

static void vf_wr16(unsigned char *b, int o, unsigned v) { b[o] = v & 0xff; b[o + 1] = (v >> 8) & 0xff; }
static void vf_wr32(unsigned char *b, int o, __u32 v)
{
	b[o] = v & 0xff; b[o + 1] = (v >> 8) & 0xff; b[o + 2] = (v >> 16) & 0xff; b[o + 3] = (v >> 24) & 0xff;
}

/* pairs of a node start at byte `off` of its block: {limit,count | hash_j} {block_j} */
static void vf_put_node(unsigned char *b, int off, unsigned limit, unsigned count, const __u32 *h, const __u32 *blk)
{
	int j;
	vf_wr16(b, off, limit);
	vf_wr16(b, off + 2, count);
	vf_wr32(b, off + 4, blk[0]);
	for (j = 1; j < L; j++) {
		vf_wr32(b, off + 8 * j, h[j]);
		vf_wr32(b, off + 8 * j + 4, blk[j]);
	}
}

/* reference: child chosen in the node whose pairs start at b+off, max MAXP pairs; *idx = index chosen */
#define MAXP (NLIM > L ? NLIM : L)
static __u32 ref_pick(const unsigned char *b, int off, __u32 t, int *wf)
{
	unsigned n = RD16(b, off + 2), lim = RD16(b, off);
	__u32 blk = RD32(b, off + 4);
	int j;
	if (n < 1 || n > lim || off + 8 * (int) lim + DXT > BS)
		*wf = 0;
	for (j = 1; j < MAXP; j++)
		if ((unsigned) j < n && off + 8 * j + 8 <= BS) {
			if (j >= 2 && RD32(b, off + 8 * (j - 1)) >= RD32(b, off + 8 * j))
				*wf = 0;		/* hashes strictly ascending */
			if (RD32(b, off + 8 * j) <= t)
				blk = RD32(b, off + 8 * j + 4);
		}
	return blk;
}

int main(void)
{
	struct dx_frame *f0 = &vf_info.frames[0], *f1 = &vf_info.frames[1];
	errcode_t rc;
	int j, wf = 1;
	unsigned pc, a;
	__u32 T, pre_leaf, pre_top, post_top, post_leaf;

	VF_INPUT(IN);
	vf_setup_fs();
	T = IN.target;
	/* ASSUME: directory inode: a directory of OLDBLKS blocks */
	ASSUME(LINUX_S_ISDIR(IN.inode.i_mode));
	vf_diri = IN.inode;
	vf_diri.i_size = OLDBLKS * BS;
	vf_diri.i_size_high = 0;
	for (j = 0; j < NB * BS; j++)
		vf_disk[j] = 0xee;

#if OP == OP_SPLIT
	pc = IN.pc;
	a = IN.a;
	/* ASSUME: the parent has room (count < limit) -- that is why dx_grow_tree splits below it -- and its pair `a` leads to the full node */
	ASSUME(pc >= 1 && pc < L && a < pc);
	/* ASSUME: hashes strictly ascending in both nodes; the full node's hashes lie inside the range its parent gives it */
	for (j = 2; j < L; j++) {
		if ((unsigned) j < pc)
			ASSUME(IN.ph[j - 1] < IN.ph[j]);
		ASSUME(IN.ch[j - 1] < IN.ch[j]);
	}
	for (j = 0; j < L; j++) {
		if ((unsigned) j == a) {
			ASSUME(IN.pb[j] == 1);			/* logical block of the full node */
			if (j >= 1)
				ASSUME(IN.ph[j] < IN.ch[1]);
		} else if ((unsigned) j < pc)
			ASSUME(IN.pb[j] != 1 && IN.pb[j] != OLDBLKS);	/* other children are other blocks */
		if ((unsigned) j == a + 1 && (unsigned) j < pc)
			ASSUME(IN.ch[L - 1] < IN.ph[j]);
	}
	/* fake dirent header of a dx_node */
	vf_wr32(vf_parent, 0, 0); vf_wr16(vf_parent, 4, BS); vf_wr16(vf_parent, 6, 0);
	vf_wr32(vf_child, 0, 0); vf_wr16(vf_child, 4, BS); vf_wr16(vf_child, 6, 0);
	vf_put_node(vf_parent, 8, L, pc, IN.ph, IN.pb);
	vf_put_node(vf_child, 8, L, L, IN.ch, IN.cb);
	f0->buf = vf_parent; f0->pblock = VF_BLK0 + 0;
	f0->head = (struct ext2_dx_countlimit *) (vf_parent + 8);
	f0->entries = (struct ext2_dx_entry *) (vf_parent + 8);
	for (j = 0; j < L; j++)
		if ((unsigned) j == a)
			f0->at = f0->entries + j;
	f1->buf = vf_child; f1->pblock = VF_BLK0 + 1;
	f1->head = (struct ext2_dx_countlimit *) (vf_child + 8);
	f1->entries = (struct ext2_dx_entry *) (vf_child + 8);
	f1->at = f1->entries;
	vf_info.levels = 2;

	/* reference lookup on the pre-state */
	{
		int w0 = 1;
		pre_top = ref_pick(vf_parent, 8, T, &w0);
		pre_leaf = pre_top == 1 ? ref_pick(vf_child, 8, T, &w0) : 0;
	}
#else
	pc = L;
	/* ASSUME: root full, hashes strictly ascending */
	for (j = 2; j < L; j++)
		ASSUME(IN.ph[j - 1] < IN.ph[j]);
	/* dx_root: "." (12 bytes), ".." (rest of the block), root info at 24, pairs at 32 */
	vf_wr32(vf_parent, 0, VF_DIR); vf_wr16(vf_parent, 4, 12); vf_parent[6] = 1; vf_parent[7] = 2; vf_parent[8] = '.';
	vf_wr32(vf_parent, 12, 2); vf_wr16(vf_parent, 16, BS - 12); vf_parent[18] = 2; vf_parent[19] = 2;
	vf_parent[20] = '.'; vf_parent[21] = '.';
	vf_wr32(vf_parent, 24, 0); vf_parent[28] = EXT2_HASH_HALF_MD4; vf_parent[29] = 8; vf_parent[30] = 0; vf_parent[31] = 0;
	vf_put_node(vf_parent, 32, L, L, IN.ph, IN.pb);
	f0->buf = vf_parent; f0->pblock = VF_BLK0 + 0;
	f0->head = (struct ext2_dx_countlimit *) (vf_parent + 32);
	f0->entries = (struct ext2_dx_entry *) (vf_parent + 32);
	f0->at = f0->entries;
	vf_info.levels = 1;
	{
		int w0 = 1;
		pre_leaf = ref_pick(vf_parent, 32, T, &w0);
		pre_top = 0;
	}
#endif

	for (j = 0; j < BS; j++)
		vf_parent0[j] = vf_parent[j];
	rc = dx_grow_tree(&vf_fs, VF_DIR, &vf_diri, &vf_info, vf_scratch, VF_BLK0 + 2);
	PROP(rc == 0, "grow succeeds");
	PROP(vf_nfalloc == 1 && vf_falloc_ok, "one new block allocated at the old end of the directory");
	PROP(vf_nwinode == 1 && vf_inode_out.i_size == (OLDBLKS + 1) * BS && vf_inode_out.i_size_high == 0,
	     "inode written with i_size + one block");
	PROP(vf_write_without_csum == 0, "checksum hook runs before every node write");

	/* the new node, as written to logical block OLDBLKS */
	{
		const unsigned char *nn = vf_disk + OLDBLKS * BS;
		PROP(RD32(nn, 0) == 0 && RD16(nn, 4) == BS && RD16(nn, 6) == 0, "new node starts with the empty fake dirent spanning the block");
		PROP(RD16(nn, 8) == NLIM, "new node's limit fits its block");
	}

#if OP == OP_SPLIT
	{
		const unsigned char *p1 = vf_disk, *c1 = vf_disk + BS, *nn = vf_disk + OLDBLKS * BS;
		unsigned n_old = RD16(c1, 10), n_new = RD16(nn, 10);
		PROP(vf_nwrite == 3, "parent, split node and new node written");
		PROP(RD16(p1, 8) == L && RD16(c1, 8) == L, "limits of the existing nodes unchanged");
		PROP(RD16(p1, 10) == pc + 1, "parent gained one pair");
		PROP(n_old >= 1 && n_new >= 1 && n_old + n_new == L, "pairs are divided between the two nodes, none lost, none empty");
		/* the parent's new pair: directly after `a`, points to the new block, hash = first hash that moved */
		for (j = 1; j < L; j++)
			if ((unsigned) j == a + 1) {
				PROP(RD32(p1, 12 + 8 * j) == OLDBLKS, "parent's new pair points to the new block");
				for (int k = 1; k < L; k++)
					if ((unsigned) k == n_old)
						PROP(RD32(p1, 8 + 8 * j) == IN.ch[k],
						     "parent's new pair carries the first hash of the new node");
			}
		/* lookup of every T on the written blocks */
		post_top = ref_pick(p1, 8, T, &wf);
		if (post_top == 1)
			post_leaf = ref_pick(c1, 8, T, &wf);
		else if (post_top == OLDBLKS)
			post_leaf = ref_pick(nn, 8, T, &wf);
		else
			post_leaf = 0;
		{
			int w2 = 1;
			(void) ref_pick(c1, 8, 0, &w2);
			(void) ref_pick(nn, 8, 0, &w2);
			PROP(wf && w2, "written nodes are consistent: 1 <= count <= limit, hashes strictly ascending");
		}
		if (pre_top == 1) {
			PROP(post_top == 1 || post_top == OLDBLKS, "hashes of the split node resolve to one of its halves");
			PROP(post_leaf == pre_leaf, "every hash resolves to the same leaf as before the split");
		} else
			PROP(post_top == pre_top, "hashes of other subtrees resolve as before");
	}
#else
	{
		const unsigned char *r1 = vf_disk, *nn = vf_disk + OLDBLKS * BS;
		PROP(vf_nwrite == 2, "root and new node written");
		PROP(RD16(r1, 32) == L && RD16(r1, 34) == 1 && RD32(r1, 36) == OLDBLKS, "root keeps its limit and has the new node as only child");
		PROP(r1[30] == 1, "indirect_levels incremented");
		for (j = 0; j < 24; j++)
			PROP(r1[j] == vf_parent0[j], "'.' and '..' of the root block untouched");
		PROP(RD32(r1, 24) == 0 && r1[28] == EXT2_HASH_HALF_MD4 && r1[29] == 8 && r1[31] == 0, "root info otherwise unchanged");
		PROP(RD16(nn, 10) == L, "new node holds all pairs of the old root");
		post_top = ref_pick(r1, 32, T, &wf);
		PROP(post_top == OLDBLKS, "root resolves every hash to the new node");
		post_leaf = ref_pick(nn, 8, T, &wf);
		PROP(wf, "written nodes are consistent: 1 <= count <= limit, hashes strictly ascending");
		PROP(post_leaf == pre_leaf, "every hash resolves to the same leaf as before the tree grew");
	}
#endif
	VF_END();
	return 0;
}
