/*
 * C10/dirblk.h -- shared by the one-directory-block harnesses (link, unlink,
 * lookup/list).  Included AFTER the real .c files.
 *
 * Environment: the directory is NB blocks of BS bytes in vf_disk[]; the block
 * iterator, the block read/write and the checksum calls are stubbed (renamed
 * by dirblk_pre.h), everything between them is the real code:
 *   ext2fs_dir_iterate(2) -> ext2fs_process_dir_block -> callback
 *   ext2fs_read_dir_block4 / ext2fs_write_dir_block4
 *
 * Reference side ("independent reader"): vf_scan() walks the rec_len chain of a
 * block from the on-disk format (little-endian fields at byte offsets 0,4,6,7,8)
 * and yields, for every 4-aligned offset, whether an entry starts there.  All
 * accesses use concrete offsets.
 */
#ifndef BS
#define BS 48
#endif
#ifndef NB
#define NB 1
#endif
#ifdef WITH_CSUM
#define CS 12
#else
#define CS 0
#endif
#define END (BS - CS)		/* entries tile [0, END) */
#ifndef MINREC
#define MINREC 12		/* smallest record the kernel and e2fsck accept (header + 1 name byte, padded); 8 = what libext2fs tolerates */
#endif
#define NSLOT (BS / 4)
#define VF_BLK0 100		/* physical number of the directory's first block */
#define VF_DIR 12		/* inode number of the directory */

static unsigned char vf_disk[NB * BS];
static int vf_nread, vf_nwrite, vf_ncsum_set, vf_write_without_csum;
static int vf_csum_pending;

static struct struct_ext2_filsys vf_fs;
static struct ext2_super_block vf_sb;
static struct struct_io_channel vf_chan;
static struct ext2_inode vf_inode;

/* STUB: io_channel_read_blk64/write_blk64 copy one block between the caller's buffer and vf_disk[] and always succeed */
errcode_t stub_read_blk64(io_channel ch, unsigned long long block, int count, void *data)
{
	unsigned char *d = data;
	int i, b;
	(void) ch; (void) count;
	vf_nread++;
	for (b = 0; b < NB; b++)
		if (block == (unsigned long long) (VF_BLK0 + b))
			for (i = 0; i < BS; i++)
				d[i] = vf_disk[b * BS + i];
	return 0;
}

errcode_t stub_write_blk64(io_channel ch, unsigned long long block, int count, const void *data)
{
	const unsigned char *d = data;
	int i, b;
	(void) ch; (void) count;
	vf_nwrite++;
	if (!vf_csum_pending)
		vf_write_without_csum++;
	vf_csum_pending = 0;
	for (b = 0; b < NB; b++)
		if (block == (unsigned long long) (VF_BLK0 + b))
			for (i = 0; i < BS; i++)
				vf_disk[b * BS + i] = d[i];
	return 0;
}

/* STUB: ext2fs_dir_block_csum_verify() accepts, ext2fs_dir_block_csum_set() only records that it ran before the write (checksum content is property C14) */
int stub_csum_verify(ext2_filsys fs, ext2_ino_t inum, struct ext2_dir_entry *dirent)
{
	(void) fs; (void) inum; (void) dirent;
	return 1;
}

errcode_t stub_csum_set(ext2_filsys fs, ext2_ino_t inum, struct ext2_dir_entry *dirent)
{
	(void) fs; (void) inum; (void) dirent;
	vf_ncsum_set++;
	vf_csum_pending = 1;
	return 0;
}

/* STUB: ext2fs_check_directory() says "is a directory"; ext2fs_read_inode() returns a linear (non-indexed, non-inline) directory inode */
errcode_t stub_check_directory(ext2_filsys fs, ext2_ino_t ino)
{
	(void) fs; (void) ino;
	return 0;
}

errcode_t stub_read_inode(ext2_filsys fs, ext2_ino_t ino, struct ext2_inode *inode)
{
	(void) fs; (void) ino;
	*inode = vf_inode;
	return 0;
}

#ifndef VF_OWN_ITERATE
/* STUB: ext2fs_block_iterate3() presents the NB mapped blocks of the directory in logical order and stops on BLOCK_ABORT, as the real iterator does for a directory without holes */
errcode_t stub_block_iterate3(ext2_filsys fs, ext2_ino_t ino, int flags, char *block_buf,
			      int (*func)(ext2_filsys fs, blk64_t *blocknr, e2_blkcnt_t blockcnt,
					  blk64_t ref_blk, int ref_offset, void *priv_data),
			      void *priv_data)
{
	int b, ret;
	blk64_t blk;
	(void) ino; (void) flags; (void) block_buf;
	for (b = 0; b < NB; b++) {
		blk = VF_BLK0 + b;
		ret = (*func)(fs, &blk, b, 0, 0, priv_data);
		if (ret & BLOCK_ABORT)
			break;
	}
	return 0;
}

#endif

/* STUB: inline-data directories are outside: the stub is never reached (block iterator never reports EXT2_ET_INLINE_DATA_CANT_ITERATE) */
int stub_inline_data_dir_iterate(ext2_filsys fs, ext2_ino_t ino, void *priv_data)
{
	(void) fs; (void) ino; (void) priv_data;
	PROP(0, "inline-data iterator is not reached");
	return 0;
}

static void vf_setup_fs(void)
{
	/* vf_fs, vf_sb are zero-initialised statics (no memset: keeps constants) */
	vf_fs.magic = EXT2_ET_MAGIC_EXT2FS_FILSYS;
	vf_fs.flags = EXT2_FLAG_RW;
	vf_fs.super = &vf_sb;
	vf_fs.io = &vf_chan;
	vf_fs.blocksize = BS;
	vf_sb.s_feature_incompat = 0
#ifdef WITH_FILETYPE
		| EXT2_FEATURE_INCOMPAT_FILETYPE
#endif
		;
	vf_sb.s_feature_ro_compat = 0
#ifdef WITH_CSUM
		| EXT4_FEATURE_RO_COMPAT_METADATA_CSUM
#endif
		;
}

/* ---------------- independent reader of the on-disk format ---------------- */
#define RD16(b, o) ((unsigned) (b)[(o)] | ((unsigned) (b)[(o) + 1] << 8))
#define RD32(b, o) ((__u32) (b)[(o)] | ((__u32) (b)[(o) + 1] << 8) | ((__u32) (b)[(o) + 2] << 16) | ((__u32) (b)[(o) + 3] << 24))
#define E_INO(b, p) RD32(b, p)
#define E_RL(b, p) RD16(b, (p) + 4)
#define E_NL(b, p) ((unsigned) (b)[(p) + 6])
#define E_FT(b, p) ((unsigned) (b)[(p) + 7])

/*
 * Well-formedness of one block (what e2fsck pass 2 and the kernel demand):
 * records start at 0, each rec_len is a multiple of 4, >= MINREC, >= 8 + name_len,
 * a record in use has name_len >= 1, and the chain ends exactly at END; with metadata_csum the last 12 bytes are the
 * checksum tail {inode 0, rec_len 12, name_len 0, file_type 0xDE}.
 * start[s] = 1 iff an entry starts at offset 4*s.  Returns 1 iff well formed.
 */
static int vf_scan(const unsigned char *b, unsigned char *start)
{
	unsigned next = 0;
	int p, ok = 1;

	for (p = 0; p < BS; p += 4)
		start[p / 4] = 0;
	for (p = 0; p + 8 <= END; p += 4) {
		if ((unsigned) p == next && ok) {
			unsigned rl = E_RL(b, p), nl = E_NL(b, p);
			if (rl < MINREC || (rl & 3) || p + rl > END || nl + 8 > rl)
				ok = 0;
			else if (E_INO(b, p) != 0 && nl == 0)
				ok = 0;		/* an entry in use has a non-empty name */
			else {
				start[p / 4] = 1;
				next = p + rl;
			}
		}
	}
	if (next != END)
		ok = 0;
#ifdef WITH_CSUM
	if (E_INO(b, END) != 0 || E_RL(b, END) != 12 || E_NL(b, END) != 0 || E_FT(b, END) != 0xDE)
		ok = 0;
#endif
	return ok;
}

/* name of the entry at concrete offset p equals (name, n)? */
static int vf_name_eq(const unsigned char *b, int p, const unsigned char *name, unsigned n)
{
	int k;
	if (E_NL(b, p) != n)
		return 0;
	for (k = 0; p + 8 + k < END; k++)
		if ((unsigned) k < n && b[p + 8 + k] != name[k < VF_NAMEMAX ? k : 0])
			return 0;
	return 1;
}

/* entry at concrete offset p identical (inode, name_len, file_type, name bytes) in both blocks? */
static int vf_same_entry(const unsigned char *a, const unsigned char *b, int p)
{
	int k;
	if (E_INO(a, p) != E_INO(b, p) || E_NL(a, p) != E_NL(b, p) || E_FT(a, p) != E_FT(b, p))
		return 0;
	for (k = 0; p + 8 + k < END; k++)
		if ((unsigned) k < E_NL(a, p) && a[p + 8 + k] != b[p + 8 + k])
			return 0;
	return 1;
}

static int vf_count_live(const unsigned char *b, const unsigned char *start)
{
	int p, n = 0;
	for (p = 0; p + 8 <= END; p += 4)
		if (start[p / 4] && E_INO(b, p) != 0)
			n++;
	return n;
}
