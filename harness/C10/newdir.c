/*
 * C10/newdir: the first block of a new directory / an added empty block
 * (pattern D).
 *
 * Real code: ext2fs_new_dir_block() (newdir.c), ext2fs_set_rec_len()
 * (dir_iterate.c via iter_unit.c), ext2fs_initialize_dirent_tail() (csum.c).
 *
 * For every (dir_ino, parent_ino): the block is well formed for the independent
 * reader; with dir_ino != 0 it lists exactly "." -> dir_ino and ".." ->
 * parent_ino (file type DIR iff the filetype feature), "." first with rec_len
 * 12, ".." owning the rest; with dir_ino == 0 (ext2fs_expand_dir's new block)
 * it is one free record spanning the block.  Checksum tail present iff
 * metadata_csum, checksum field zero, every unused byte zero.
 */
#include "dirblk_pre.h"
#include "lib/ext2fs/newdir.c"
#include "lib/ext2fs/dirblock.c"
#include "env.c"
#define VF_NAMEMAX 2
#include "dirblk.h"

struct vf_in { __u32 dir_ino, parent_ino; };
VF_DECLARE_INPUT(struct vf_in, IN)
#include "vf_input.inc"

static unsigned char vf_s[NSLOT];

int main(void)
{
	char *blk = 0;
	const unsigned char *b;
	errcode_t rc;
	int i, p, nrec = 0;
	static const unsigned char dot[2] = { '.', '.' };

	VF_INPUT(IN);
	vf_setup_fs();
	rc = ext2fs_new_dir_block(&vf_fs, IN.dir_ino, IN.parent_ino, &blk);
	PROP(rc == 0 && blk != 0, "new_dir_block succeeds");
	b = (const unsigned char *) blk;
	PROP(vf_scan(b, vf_s), "new block is well formed (tail iff metadata_csum)");
	for (p = 0; p + 8 <= END; p += 4)
		nrec += vf_s[p / 4];
	if (IN.dir_ino) {
		unsigned ft =
#ifdef WITH_FILETYPE
			2;	/* EXT2_FT_DIR */
#else
			0;
#endif
		PROP(nrec == 2 && vf_s[0] && vf_s[3], "two records, '.' of 12 bytes first");
		PROP(E_INO(b, 0) == IN.dir_ino && vf_name_eq(b, 0, dot, 1) && E_FT(b, 0) == ft, "'.' names the directory itself");
		PROP(E_INO(b, 12) == IN.parent_ino && vf_name_eq(b, 12, dot, 2) && E_FT(b, 12) == ft, "'..' names the parent");
		PROP(E_RL(b, 12) == END - 12, "'..' owns the rest of the block");
		for (i = 9; i < 12; i++)
			PROP(b[i] == 0, "padding zero");
		for (i = 22; i < END; i++)
			PROP(b[i] == 0, "unused space zero");
	} else {
		PROP(nrec == 1 && vf_s[0] && E_INO(b, 0) == 0 && E_RL(b, 0) == END, "one free record spanning the block");
		for (i = 6; i < END; i++)
			PROP(b[i] == 0, "unused space zero");
	}
#ifdef WITH_CSUM
	for (i = END + 8; i < BS; i++)
		PROP(b[i] == 0, "checksum field initialised to zero");
#endif
	PROP(vf_nwrite == 0, "nothing is written by the constructor");
	VF_END();
	return 0;
}
