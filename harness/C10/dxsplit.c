/*
 * C10/dxsplit: splitting a full htree leaf (patterns I and D).
 *
 * Real code (link.c statics): dx_split_leaf(), dx_move_dirents(),
 * dx_hash_map_cmp(), dx_insert_entry(), ext2fs_set_rec_len(),
 * ext2fs_get_rec_len(), ext2fs_initialize_dirent_tail(),
 * ext2fs_write_dir_block4().
 *
 * Pre-state: one leaf block, every byte symbolic, well formed, full (every
 * record in use, no record larger than MAXREC: the scaled analogue of
 * "name_len <= 255 is far below blocksize/2"), names pairwise different.  The
 * name hash is a STUB: ext2fs_dirhash2() returns a symbolic even value per
 * record -- EQUAL HASHES of different names are allowed.  The parent index
 * node has room; its pair `a` points to the leaf and the leaf's hashes lie in
 * that pair's range.  qsort() is an insertion sort whose order among equal
 * keys is symbolic (qsort is not stable).
 *
 * Asserted on the blocks the write stub received:
 *  (a) multiset of (inode, file type, name) over old + new leaf == before;
 *  (b) both leaves are well-formed directory blocks (independent reader; tail
 *      iff metadata_csum), neither is empty;
 *  (c) every hash in the old leaf <= every hash in the new leaf;
 *  (d) the parent's new pair sits directly after `a`, points to the new block
 *      and its key is the lowest hash H of the new leaf, with the low bit SET
 *      iff the highest hash kept in the old leaf is also H (kernel
 *      fs/ext4/namei.c do_split(): dx_insert_block(frame, hash2 + continued,
 *      newblock) with continued = hash2 == map[split-1].hash), else clear;
 *  (e) a kernel-style lookup by hash of EVERY name finds the leaf that now
 *      holds it: dx_probe picks the last pair with key <= hash; on a miss
 *      ext4_htree_next_block() moves to the next pair only while
 *      (next key & ~1) == hash.
 */
#include "dirblk_pre.h"
#define ext2fs_bmap2 stub_bmap2
#define ext2fs_dirhash2 stub_dirhash2
#define qsort stub_qsort
#include "lib/ext2fs/link.c"
#include "lib/ext2fs/dirblock.c"
#include "env.c"

#ifndef BS
#define BS 48
#endif
#ifndef MAXREC
#define MAXREC 24
#endif
#define NB 3			/* logical 0: parent index node, 1: the leaf, 2: the new leaf */
#define VF_NAMEMAX 1
#include "dirblk.h"
#ifdef WITH_CSUM
#define DXT 8
#else
#define DXT 0
#endif
#define PLIM ((BS - 8 - DXT) / 8)	/* limit of the parent node */
#define NE (END / 12)			/* most entries a leaf can hold */

#ifndef LAYOUT
#define LAYOUT 12,12,12,12
#endif
#ifndef NAMELENS
#define NAMELENS 4,1,3,2
#endif
static const int vf_lay[] = { LAYOUT };	/* BOUND: rec_len chain of the leaf and the name length in each record are fixed per query (sum of rec_len == END); slack allowed */
static const int vf_nls[] = { NAMELENS };
#define NREC ((int) (sizeof(vf_lay) / sizeof(vf_lay[0])))

struct vf_rec { __u32 ino; unsigned char nl, ft; unsigned char name[MAXREC - 8]; };
struct vf_in {
	struct vf_rec rec[NE];
	__u32 h[NSLOT];			/* hash of the record starting at offset 4*s */
	__u32 ph[PLIM], pb[PLIM];
	unsigned char pc, a, tie;
};
VF_DECLARE_INPUT(struct vf_in, IN)
#include "vf_input.inc"

static unsigned char vf_leaf[BS], vf_pre[BS], vf_parent[BS];
static unsigned char vf_s0[NSLOT], vf_l0[NSLOT], vf_so[NSLOT], vf_sn[NSLOT];
static struct dx_lookup_info vf_info;
static struct ext2_inode vf_diri;
static int vf_nhash, vf_hash_ok = 1;
static int vf_inA[NSLOT], vf_inB[NSLOT];

errcode_t stub_bmap2(ext2_filsys fs, ext2_ino_t ino, struct ext2_inode *inode, char *block_buf,
		     int bmap_flags, blk64_t block, int *ret_flags, blk64_t *phys_blk)
{
	(void) fs; (void) ino; (void) inode; (void) block_buf; (void) bmap_flags; (void) block;
	(void) ret_flags; (void) phys_blk;
	PROP(0, "bmap is not reached by the leaf split");
	return 0;
}

/* STUB: ext2fs_dirhash2() returns the symbolic hash attached to the record whose name is hashed (low bit clear, as every real hash); different names may collide */
errcode_t stub_dirhash2(int version, const char *name, int len, const struct ext2fs_nls_table *charset,
			int hash_flags, const __u32 *seed, ext2_dirhash_t *ret_hash, ext2_dirhash_t *ret_minor)
{
	int p, hit = 0;
	(void) version; (void) charset; (void) hash_flags; (void) seed;
	vf_nhash++;
	for (p = 0; p + 8 <= END; p += 4)
		if (name == (const char *) vf_leaf + p + 8) {
			*ret_hash = IN.h[p / 4];
			hit = 1;
			if ((unsigned) len != E_NL(vf_pre, p))
				vf_hash_ok = 0;
		}
	if (!hit)
		vf_hash_ok = 0;
	if (ret_minor)
		*ret_minor = 0;
	return 0;
}

/* STUB: qsort() = insertion sort; the relative order of equal keys is symbolic (IN.tie), since qsort is not stable */
void stub_qsort(void *base, size_t n, size_t sz, int (*cmp)(const void *, const void *))
{
	struct dx_hash_map *m = base, t;
	int i, j, c;
	(void) sz;
	for (i = 1; i < NE; i++) {
		if ((size_t) i >= n)
			continue;
		for (j = i; j > 0; j--) {
			c = (*cmp)(&m[j - 1], &m[j]);
			if (c > 0 || (c == 0 && ((IN.tie >> (j & 7)) & 1))) {
				t = m[j - 1]; m[j - 1] = m[j]; m[j] = t;
			} else
				break;
		}
	}
}

static void vf_wr16(unsigned char *b, int o, unsigned v) { b[o] = v & 0xff; b[o + 1] = (v >> 8) & 0xff; }
static void vf_wr32(unsigned char *b, int o, __u32 v)
{
	b[o] = v & 0xff; b[o + 1] = (v >> 8) & 0xff; b[o + 2] = (v >> 16) & 0xff; b[o + 3] = (v >> 24) & 0xff;
}

/* same (inode, name_len, file_type, name) at offset p of block x and offset q of block y? */
static int vf_ident(const unsigned char *x, int p, const unsigned char *y, int q)
{
	int k;
	if (E_INO(x, p) != E_INO(y, q) || E_NL(x, p) != E_NL(y, q) || E_FT(x, p) != E_FT(y, q))
		return 0;
	for (k = 0; k < MAXREC - 8; k++)
		if ((unsigned) k < E_NL(x, p) && p + 8 + k < BS && q + 8 + k < BS && x[p + 8 + k] != y[q + 8 + k])
			return 0;
	return 1;
}

static int vf_samename(const unsigned char *x, int p, const unsigned char *y, int q)
{
	int k;
	if (E_NL(x, p) != E_NL(y, q))
		return 0;
	for (k = 0; k < MAXREC - 8; k++)
		if ((unsigned) k < E_NL(x, p) && p + 8 + k < BS && q + 8 + k < BS && x[p + 8 + k] != y[q + 8 + k])
			return 0;
	return 1;
}

/* vf_m[l][p][q] = pre-state record at slot p is identical (inode, type, name) to the record at slot q of post-state leaf l */
static unsigned char vf_m[2][NSLOT][NSLOT];

static void vf_match(int l, const unsigned char *y, const unsigned char *s)
{
	int p, q;
	for (p = 0; p + 8 <= END; p += 4)
		for (q = 0; q + 8 <= END; q += 4)
			vf_m[l][p / 4][q / 4] = vf_l0[p / 4] && s[q / 4] && E_INO(y, q) != 0 && vf_ident(vf_pre, p, y, q);
}

/* hash of the record at slot q of post-state leaf l = hash of the identical pre-state record */
static __u32 vf_hash_of(int l, int q, int *known)
{
	int p;
	__u32 h = 0;
	*known = 0;
	for (p = 0; p + 8 <= END; p += 4)
		if (vf_m[l][p / 4][q / 4]) {
			h = IN.h[p / 4];
			*known = 1;
		}
	return h;
}

/* number of records of leaf l identical to pre-state record p */
static int vf_holds(int l, int p)
{
	int q, r = 0;
	for (q = 0; q + 8 <= END; q += 4)
		r += vf_m[l][p / 4][q / 4];
	return r;
}

int main(void)
{
	struct dx_frame *f0 = &vf_info.frames[0];
	const unsigned char *P, *A, *B;
	errcode_t rc;
	int p, q, j, k, n0 = 0, na = 0, nb = 0, known;
	unsigned pc, a, pc1;
	__u32 lo_new = 0xffffffff, hi_old = 0;

	VF_INPUT(IN);
	vf_setup_fs();
	{
		int off = 0, r;
		for (r = 0; r < NREC; r++) {
#ifndef ALLOW_FREE
			/* ASSUME: each record is in use (a full leaf; ALLOW_FREE drops this: see report) */
			ASSUME(IN.rec[r].ino != 0);
#endif
			vf_wr32(vf_leaf, off, IN.rec[r].ino);
			vf_wr16(vf_leaf, off + 4, vf_lay[r]);
			vf_leaf[off + 6] = vf_nls[r];
			vf_leaf[off + 7] = IN.rec[r].ft;
			for (k = 0; k < vf_lay[r] - 8; k++)
				vf_leaf[off + 8 + k] = IN.rec[r].name[k];
			off += vf_lay[r];
		}
#ifdef WITH_CSUM
		vf_wr32(vf_leaf, END, 0); vf_wr16(vf_leaf, END + 4, 12); vf_leaf[END + 6] = 0; vf_leaf[END + 7] = 0xDE;
#endif
	}
	for (j = 0; j < BS; j++)
		vf_pre[j] = vf_leaf[j];
	for (j = 0; j < NB * BS; j++)
		vf_disk[j] = 0xee;
	/* ASSUME: the leaf is well formed, full: every record in use, none larger than MAXREC; names pairwise different */
	ASSUME(vf_scan(vf_pre, vf_s0));
	for (p = 0; p + 8 <= END; p += 4)
		if (vf_s0[p / 4] && E_INO(vf_pre, p) != 0) {
			vf_l0[p / 4] = 1;
			ASSUME(E_RL(vf_pre, p) <= MAXREC);
			/* ASSUME: name hashes have the low bit clear */
			ASSUME(!(IN.h[p / 4] & 1));
			n0++;
			for (q = 0; q < p; q += 4)
				if (vf_l0[q / 4])
					ASSUME(!vf_samename(vf_pre, p, vf_pre, q));
		}
	/* parent index node: room for one more pair, pair `a` -> the leaf (logical block 1), keys ascending, leaf inside its range */
	pc = IN.pc;
	a = IN.a;
	ASSUME(pc >= 1 && pc < PLIM && a < pc);
	for (j = 1; j < PLIM; j++) {
		if (j >= 2 && (unsigned) j < pc)
			ASSUME(IN.ph[j - 1] < IN.ph[j]);
		for (p = 0; p + 8 <= END; p += 4)
			if (vf_l0[p / 4]) {
				if ((unsigned) j == a)
					ASSUME((IN.ph[j] & ~1u) <= IN.h[p / 4]);
				if ((unsigned) j == a + 1 && (unsigned) j < pc)
					ASSUME(IN.h[p / 4] < (IN.ph[j] & ~1u));
			}
	}
	for (j = 0; j < PLIM; j++) {
		if ((unsigned) j == a)
			ASSUME(IN.pb[j] == 1);
		else if ((unsigned) j < pc)
			ASSUME(IN.pb[j] != 1 && IN.pb[j] != 2);
	}
	vf_wr32(vf_parent, 0, 0); vf_wr16(vf_parent, 4, BS); vf_wr16(vf_parent, 6, 0);
	vf_wr16(vf_parent, 8, PLIM); vf_wr16(vf_parent, 10, pc); vf_wr32(vf_parent, 12, IN.pb[0]);
	for (j = 1; j < PLIM; j++) {
		vf_wr32(vf_parent, 8 + 8 * j, IN.ph[j]);
		vf_wr32(vf_parent, 12 + 8 * j, IN.pb[j]);
	}
	f0->buf = vf_parent; f0->pblock = VF_BLK0 + 0;
	f0->head = (struct ext2_dx_countlimit *) (vf_parent + 8);
	f0->entries = (struct ext2_dx_entry *) (vf_parent + 8);
	for (j = 0; j < PLIM; j++)
		if ((unsigned) j == a)
			f0->at = f0->entries + j;
	vf_info.levels = 1;
	vf_info.hash_alg = EXT2_HASH_HALF_MD4;

	rc = dx_split_leaf(&vf_fs, VF_DIR, &vf_diri, &vf_info, vf_leaf, VF_BLK0 + 1, 2, VF_BLK0 + 2);
	PROP(rc == 0, "split succeeds");
	PROP(vf_nwrite == 3 && vf_write_without_csum == 0, "new leaf, old leaf and parent written, each after the checksum hook");
	PROP(vf_hash_ok && vf_nhash == n0, "every name of the leaf is hashed once, with its own length");

	P = vf_disk; A = vf_disk + BS; B = vf_disk + 2 * BS;
	/* (b) */
	PROP(vf_scan(A, vf_so), "old leaf is a well-formed directory block");
	PROP(vf_scan(B, vf_sn), "new leaf is a well-formed directory block");
#ifdef ONLY_B
	VF_END();
	return 0;
#endif
	vf_match(0, A, vf_so);
	vf_match(1, B, vf_sn);
	for (p = 0; p + 8 <= END; p += 4) {
		vf_inA[p / 4] = vf_holds(0, p);
		vf_inB[p / 4] = vf_holds(1, p);
	}
	for (q = 0; q + 8 <= END; q += 4) {
		if (vf_so[q / 4] && E_INO(A, q) != 0) {
			__u32 h = vf_hash_of(0, q, &known);
			na++;
			PROP(known, "old leaf holds only names of the original leaf");
			if (h > hi_old)
				hi_old = h;
		}
		if (vf_sn[q / 4] && E_INO(B, q) != 0) {
			__u32 h = vf_hash_of(1, q, &known);
			nb++;
			PROP(known, "new leaf holds only names of the original leaf");
			if (h < lo_new)
				lo_new = h;
		}
	}
	PROP(na >= 1 && nb >= 1, "neither leaf is empty");
	/* (a): names are pairwise different, so multiset equality = same number of entries + every original entry present once */
	PROP(na + nb == n0, "number of entries preserved");
	for (p = 0; p + 8 <= END; p += 4)
		if (vf_l0[p / 4])
			PROP(vf_inA[p / 4] + vf_inB[p / 4] == 1,
			     "every entry (inode, type, name) is in exactly one of the two leaves");
	/* (c) */
	PROP(hi_old <= lo_new, "every hash in the old leaf <= every hash in the new leaf");
	/* (d) */
	pc1 = RD16(P, 10);
	PROP(RD16(P, 8) == PLIM && pc1 == pc + 1 && RD32(P, 12) == IN.pb[0], "parent: limit and leftmost child kept, one pair more");
	for (j = 1; j < PLIM; j++) {
		if ((unsigned) j <= a) {
			PROP(RD32(P, 8 + 8 * j) == IN.ph[j] && RD32(P, 12 + 8 * j) == IN.pb[j], "parent pairs before the leaf unchanged");
		} else if ((unsigned) j == a + 1) {
			PROP(RD32(P, 12 + 8 * j) == 2, "parent's new pair points to the new leaf");
			PROP(RD32(P, 8 + 8 * j) == (lo_new | (hi_old == lo_new ? 1u : 0u)),
			     "new leaf's key = its lowest hash, low bit set iff that hash continues from the old leaf");
		} else if ((unsigned) j <= pc) {
			PROP(RD32(P, 8 + 8 * j) == IN.ph[j - 1] && RD32(P, 12 + 8 * j) == IN.pb[j - 1], "parent pairs after the leaf shifted by one");
		}
	}
	/* (e) kernel-style lookup of every original name */
	for (p = 0; p + 8 <= END; p += 4)
		if (vf_l0[p / 4]) {
			__u32 H = IN.h[p / 4];
			int at = 0, found = 0, stop = 0;
			for (j = 1; j < PLIM; j++)
				if ((unsigned) j < pc1 && RD32(P, 8 + 8 * j) <= H)
					at = j;				/* dx_probe */
			for (k = 0; k < 3; k++) {
				__u32 blk = 0, nkey = 0;
				int have_next = 0;
				if (found || stop)
					continue;
				for (j = 0; j < PLIM; j++) {
					if (j == at)
						blk = RD32(P, 12 + 8 * j);
					if (j == at + 1 && (unsigned) j < pc1) {
						nkey = RD32(P, 8 + 8 * j);
						have_next = 1;
					}
				}
				if (blk == 1 && vf_inA[p / 4])
					found = 1;
				else if (blk == 2 && vf_inB[p / 4])
					found = 1;
				else if (have_next && (nkey & ~1u) == H)
					at++;				/* ext4_htree_next_block */
				else
					stop = 1;
			}
			PROP(found, "kernel-style lookup by hash finds every name in the leaf that now holds it");
		}
	VF_END();
	return 0;
}
