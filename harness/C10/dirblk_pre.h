/*
 * C10/dirblk_pre.h -- included BEFORE the real .c files: routes the calls that
 * leave the directory-block code to the harness environment (bodies in dirblk.h).
 */
#define io_channel_read_blk64 stub_read_blk64
#define io_channel_write_blk64 stub_write_blk64
#define ext2fs_dir_block_csum_verify stub_csum_verify
#define ext2fs_dir_block_csum_set stub_csum_set
#define ext2fs_check_directory stub_check_directory
#define ext2fs_read_inode stub_read_inode
#define ext2fs_block_iterate3 stub_block_iterate3
#define ext2fs_inline_data_dir_iterate stub_inline_data_dir_iterate
