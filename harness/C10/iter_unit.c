/*
 * C10/iter_unit.c -- the real directory iterator (dir_iterate.c) as its own
 * unit, with its outward calls routed to the harness environment.  Separate
 * unit because link.c and dir_iterate.c both include the unguarded ext2fsP.h.
 */
#include "dirblk_pre.h"
#include "lib/ext2fs/dir_iterate.c"
