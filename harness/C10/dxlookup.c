/*
 * C10/dxlookup: walking the htree index for a name (patterns D and T).
 *
 * Real code: dx_lookup(), dx_search_entry(), load_logical_dir_block(),
 * alloc_dx_frame(), dx_release() (link.c statics), ext2fs_read_dir_block4()
 * (dirblock.c), ext2fs_get_dx_countlimit() (csum.c).
 *
 * Environment: the directory is NB blocks in vf_disk[]: block 0 is a dx_root
 * (".", "..", root info at 24, pairs at 32) with symbolic hash_version,
 * indirect_levels, count and pairs; blocks 1.. are dx_nodes with symbolic
 * pairs.  ext2fs_bmap2 maps logical b to VF_BLK0+b.  ext2fs_dirhash2() is a
 * RECORDING stub: it returns a symbolic hash and records the version, seed,
 * name, length, charset and flags it was called with (pattern T: what is fed
 * to the hash decides the leaf; the hash itself is harness dirhash).
 *
 * Asserted:
 *  - the version handed to the hash is the root's hash_version, + 3 (the
 *    *_UNSIGNED variant) iff s_flags has EXT2_FLAGS_UNSIGNED_HASH and the
 *    version is LEGACY, HALF_MD4 or TEA -- the kernel's dx_probe rule
 *    `if (hinfo->hash_version <= DX_HASH_TEA) hinfo->hash_version +=
 *    s_hash_unsigned`; seed == s_hash_seed; name/length as given; charset =
 *    fs->encoding, flags = the directory's CASEFOLD flag only;
 *  - any other hash_version (SIPHASH included: dx_lookup documents only the
 *    three) => EXT2_ET_DIRHASH_UNSUPP; indirect_levels >= 2 (no largedir) or
 *    a node with count 0 / count > limit => EXT2_ET_DIR_CORRUPTED; on error
 *    no frame is left allocated (levels == 0);
 *  - on success levels == indirect_levels + 1 and at EVERY level the frame
 *    holds the block that the previous level's chosen pair names, and `at` is
 *    the LAST pair whose hash <= the name hash (linear-scan reference).
 */
#include "dirblk_pre.h"
#define ext2fs_bmap2 stub_bmap2
#define ext2fs_dirhash2 stub_dirhash2
/* the allocator wrappers are inline functions of ext2fs.h: include it first, then route link.c's calls */
#include "config.h"
#include <stdio.h>
#include <string.h>
#include "ext2_fs.h"
#include "ext2fs.h"
#define ext2fs_get_mem stub_get_mem
#define ext2fs_free_mem stub_free_mem
/* STUB: ext2fs_get_mem()/ext2fs_free_mem() = malloc/free with a direct pointer store (the real wrappers copy the pointer with memcpy, which costs the solver the object identity); allocation succeeds */
static errcode_t stub_get_mem(unsigned long size, void *ptr)
{
	*(void **) ptr = malloc(size);
	return 0;
}
static errcode_t stub_free_mem(void *ptr)
{
	free(*(void **) ptr);
	*(void **) ptr = 0;
	return 0;
}
#include "lib/ext2fs/link.c"
#include "lib/ext2fs/dirblock.c"
#include "env.c"

#ifndef RL
#define RL 3			/* limit of the root */
#endif
#define BS (32 + 8 * RL)
#define NL ((BS - 8) / 8)	/* limit of a dx_node of this block size */
#define NB 3			/* root + two interior nodes */
#define VF_NAMEMAX 1
#include "dirblk.h"

struct vf_in {
	unsigned char hash_version, indirect_levels;
	unsigned short rcount, ncount[2];
	__u32 rh[RL], rb[RL];		/* root pairs (rh[0] unused) */
	__u32 nh[2][NL], nb[2][NL];	/* pairs of the two interior nodes */
	__u32 s_flags, seed[4], i_flags;
	__u32 hash;			/* what the hash stub returns */
	errcode_t hash_err;
};
VF_DECLARE_INPUT(struct vf_in, IN)
#include "vf_input.inc"

static int vf_nhash, vf_hver, vf_hlen, vf_hflags;
static const char *vf_hname;
static const __u32 *vf_hseed;
static const struct ext2fs_nls_table *vf_hcharset;
static struct ext2_inode vf_diri;
static struct dx_lookup_info vf_info;
static const char vf_name[] = "abc";
static int vf_enc_obj;

/* STUB: ext2fs_bmap2() maps logical block b of the directory to physical VF_BLK0 + b, initialised */
errcode_t stub_bmap2(ext2_filsys fs, ext2_ino_t ino, struct ext2_inode *inode, char *block_buf,
		     int bmap_flags, blk64_t block, int *ret_flags, blk64_t *phys_blk)
{
	(void) fs; (void) ino; (void) inode; (void) block_buf; (void) bmap_flags;
	if (ret_flags)
		*ret_flags = 0;
	*phys_blk = VF_BLK0 + block;
	return 0;
}

/* STUB: ext2fs_dirhash2() records its arguments and returns the symbolic hash IN.hash (or the symbolic error IN.hash_err) */
errcode_t stub_dirhash2(int version, const char *name, int len, const struct ext2fs_nls_table *charset,
			int hash_flags, const __u32 *seed, ext2_dirhash_t *ret_hash, ext2_dirhash_t *ret_minor)
{
	vf_nhash++;
	vf_hver = version; vf_hname = name; vf_hlen = len; vf_hcharset = charset; vf_hflags = hash_flags; vf_hseed = seed;
	if (IN.hash_err)
		return IN.hash_err;
	*ret_hash = IN.hash;
	if (ret_minor)
		*ret_minor = 0;
	return 0;
}

static void vf_wr16(unsigned char *b, int o, unsigned v) { b[o] = v & 0xff; b[o + 1] = (v >> 8) & 0xff; }
static void vf_wr32(unsigned char *b, int o, __u32 v)
{
	b[o] = v & 0xff; b[o + 1] = (v >> 8) & 0xff; b[o + 2] = (v >> 16) & 0xff; b[o + 3] = (v >> 24) & 0xff;
}

/* reference: index of the last pair (1..n-1) with hash <= t in the node at b+off, 0 if none; *blk = its block */
static int ref_pick(const unsigned char *b, int off, int maxp, __u32 t, __u32 *blk)
{
	unsigned n = RD16(b, off + 2);
	int j, idx = 0;
	*blk = RD32(b, off + 4);
	for (j = 1; j < maxp; j++)
		if ((unsigned) j < n && RD32(b, off + 8 * j) <= t) {
			idx = j;
			*blk = RD32(b, off + 8 * j + 4);
		}
	return idx;
}

int main(void)
{
	unsigned char *r = vf_disk;
	errcode_t rc, want = 0;
	int i, j, k, want_ver, supported;
	unsigned lv;

	VF_INPUT(IN);
#ifdef HV
	IN.hash_version = HV;	/* BOUND: root hash_version fixed per query when HV is given */
#endif
	vf_setup_fs();
	vf_sb.s_flags = IN.s_flags;
	for (i = 0; i < 4; i++)
		vf_sb.s_hash_seed[i] = IN.seed[i];
	vf_fs.encoding = (const struct ext2fs_nls_table *) &vf_enc_obj;
	vf_diri.i_flags = IN.i_flags;
#ifdef LV
	lv = LV;	/* BOUND: indirect_levels fixed per query when LV is given */
#else
	lv = IN.indirect_levels;
#endif

	/* dx_root */
	vf_wr32(r, 0, VF_DIR); vf_wr16(r, 4, 12); r[6] = 1; r[7] = 2; r[8] = '.';
	vf_wr32(r, 12, 2); vf_wr16(r, 16, BS - 12); r[18] = 2; r[19] = 2; r[20] = '.'; r[21] = '.';
	vf_wr32(r, 24, 0); r[28] = IN.hash_version; r[29] = 8; r[30] = (unsigned char) lv; r[31] = 0;
	vf_wr16(r, 32, RL); vf_wr16(r, 34, IN.rcount); vf_wr32(r, 36, IN.rb[0]);
	for (j = 1; j < RL; j++) {
		vf_wr32(r, 32 + 8 * j, IN.rh[j]);
		vf_wr32(r, 36 + 8 * j, IN.rb[j]);
	}
	/* BOUND: counts up to the limit (larger counts are rejected by ext2fs_get_dx_countlimit: C06) */
	ASSUME(IN.rcount <= RL);
	/* ASSUME: pair hashes ascend inside each node (what makes the binary search meaningful) */
	for (j = 2; j < RL; j++)
		if (j < IN.rcount)
			ASSUME(IN.rh[j - 1] <= IN.rh[j]);
	for (k = 0; k < 2; k++) {
		unsigned char *n = vf_disk + (1 + k) * BS;
		vf_wr32(n, 0, 0); vf_wr16(n, 4, BS); vf_wr16(n, 6, 0);
		vf_wr16(n, 8, NL); vf_wr16(n, 10, IN.ncount[k]); vf_wr32(n, 12, IN.nb[k][0]);
		ASSUME(IN.ncount[k] <= NL);
		for (j = 1; j < NL; j++) {
			vf_wr32(n, 8 + 8 * j, IN.nh[k][j]);
			vf_wr32(n, 12 + 8 * j, IN.nb[k][j]);
			if (j >= 2 && j < IN.ncount[k])
				ASSUME(IN.nh[k][j - 1] <= IN.nh[k][j]);
		}
	}
	/* ASSUME: with a second level, the root's pairs name the interior nodes at logical blocks 1 and 2 (high 4 bits of the block field are ignored by the format) */
	if (lv == 1)
		for (j = 0; j < RL; j++)
			if (j < IN.rcount)
				ASSUME((IN.rb[j] & 0x0fffffff) == 1 || (IN.rb[j] & 0x0fffffff) == 2);

	vf_info.name = vf_name;
	vf_info.namelen = 3;
	rc = dx_lookup(&vf_fs, VF_DIR, &vf_diri, &vf_info);

	/* reference verdict */
	supported = IN.hash_version == 0 /* LEGACY */ || IN.hash_version == 1 /* HALF_MD4 */ || IN.hash_version == 2 /* TEA */;
	want_ver = IN.hash_version + ((IN.s_flags & 0x0002 /* EXT2_FLAGS_UNSIGNED_HASH */) ? 3 : 0);
	if (!supported)
		want = EXT2_ET_DIRHASH_UNSUPP;
	else if (lv >= 2)
		want = EXT2_ET_DIR_CORRUPTED;
	else if (IN.hash_err)
		want = IN.hash_err;
	else if (IN.rcount == 0)
		want = EXT2_ET_DIR_CORRUPTED;

	if (supported && lv < 2) {
		PROP(vf_nhash == 1, "the name is hashed once");
		PROP(vf_hver == want_ver, "hash version = root's version, unsigned variant iff the superblock says unsigned");
		PROP(vf_hseed == vf_sb.s_hash_seed, "hash seed is the superblock's s_hash_seed");
		PROP(vf_hname == vf_name && vf_hlen == 3, "the given name and length are hashed");
		PROP(vf_hcharset == vf_fs.encoding && vf_hflags == (int) (IN.i_flags & EXT4_CASEFOLD_FL),
		     "charset is the filesystem's, flags carry only the directory's casefold bit");
	} else
		PROP(vf_nhash == 0, "nothing is hashed for an unsupported or too deep index");

	if (want) {
		PROP(rc == want, "unsupported hash / too deep / empty root node are rejected with the documented code");
		PROP(vf_info.levels == 0, "no frame stays allocated after an error");
		VF_END();
		return 0;
	}
	/* walk by the reference */
	{
		__u32 blk, H = IN.hash;
		int idx = ref_pick(r, 32, RL, H, &blk), got = -1;
		struct dx_frame *f = &vf_info.frames[0];
		if (lv == 1) {
			/* second level node must be valid too */
			unsigned nc = 0;
			for (k = 0; k < 2; k++)
				if ((blk & 0x0fffffff) == (unsigned) (1 + k))
					nc = IN.ncount[k];
			if (nc == 0) {
				PROP(rc == EXT2_ET_DIR_CORRUPTED && vf_info.levels == 0, "empty interior node is rejected, frames released");
				VF_END();
				return 0;
			}
		}
		PROP(rc == 0, "lookup in a valid index succeeds");
		PROP(vf_info.levels == lv + 1, "one frame per index level");
		PROP(vf_info.hash == H && vf_info.hash_alg == want_ver, "lookup info carries the hash and the version used");
		PROP(f->pblock == VF_BLK0 && f->entries == (struct ext2_dx_entry *) ((char *) f->buf + 32), "frame 0 is the root, pairs at 32");
		for (j = 0; j < RL; j++)
			if (f->at == f->entries + j)
				got = j;
		PROP(got == idx, "root: chosen pair is the last one with hash <= name hash");
		for (i = 0; i < BS; i++)
			PROP(((unsigned char *) f->buf)[i] == r[i], "frame 0 holds the root block as read");
		if (lv == 1) {
			f = &vf_info.frames[1];
			for (k = 0; k < 2; k++)
				if ((blk & 0x0fffffff) == (unsigned) (1 + k)) {
					const unsigned char *n = vf_disk + (1 + k) * BS;
					__u32 b2;
					int idx2 = ref_pick(n, 8, NL, H, &b2), got2 = -1;
					PROP(f->pblock == (blk64_t) (VF_BLK0 + 1 + k), "frame 1 is the node the root's chosen pair names");
					PROP(f->entries == (struct ext2_dx_entry *) ((char *) f->buf + 8), "interior node: pairs at 8");
					for (j = 0; j < NL; j++)
						if (f->at == f->entries + j)
							got2 = j;
					PROP(got2 == idx2, "interior node: chosen pair is the last one with hash <= name hash");
					for (i = 0; i < BS; i++)
						PROP(((unsigned char *) f->buf)[i] == n[i], "frame 1 holds that node's block as read");
				}
		}
	}
	VF_END();
	return 0;
}
