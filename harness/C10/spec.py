META = {
    "assumptions": ["allocation failure out of scope (--no-malloc-may-fail)"],
    "outside": [],
}

def blk_unwind(bs, nb=1, extra=()):
    n = bs // 4 + 1
    l = ["vf_scan.0:%d" % n, "vf_scan.1:%d" % n, "vf_name_eq.0:%d" % (bs + 1), "vf_same_entry.0:%d" % (bs + 1),
         "vf_count_live.0:%d" % n,
         "stub_read_blk64.0:%d" % (bs + 1), "stub_read_blk64.1:%d" % (nb + 1),
         "stub_write_blk64.0:%d" % (bs + 1), "stub_write_blk64.1:%d" % (nb + 1),
         "stub_block_iterate3.0:%d" % (nb + 1),
         "ext2fs_process_dir_block.0:%d" % (bs // 4 + 1), "ext2fs_process_dir_block.1:%d" % (bs // 8 + 3)]
    l += ["main.%d:%d" % (i, nb * bs + 1) for i in range(12)]
    return l + list(extra)

BSQ = 32

def link_cfgs():
    c = []
    def mk(op, bs, nl, feat, **kw):
        d = {"OP": op, "BS": bs, "NAMELEN": nl}
        d.update(feat)
        d["_unwindset"] = blk_unwind(bs, kw.pop("NB", 1), STR)
        d.update(kw)
        return d
    none, ft, cs, both = {}, {"WITH_FILETYPE": None}, {"WITH_CSUM": None}, {"WITH_CSUM": None, "WITH_FILETYPE": None}
    c.append(mk(1, 40, 4, none))
    c.append(mk(1, 40, 5, ft))
    c.append(mk(1, 48, 4, both))
    c.append(mk(1, 44, 1, cs))
    c.append(mk(2, 40, 8, ft))
    c.append(mk(2, 48, 3, both))
    c.append(mk(1, 32, 4, ft, MINREC=8))
    c.append(mk(1, 48, 4, ft, _tier="thorough"))
    c.append(mk(1, 64, 4, both, _tier="thorough"))
    return c

def unlink_cfgs():
    c = []
    def mk(by, bs, nb=1, **kw):
        d = {"BY": by, "BS": bs}
        if nb != 1:
            d["NB"] = nb
        if by != 2:
            d["NAMELEN"] = kw.pop("NAMELEN", 3)
        d["_unwindset"] = blk_unwind(bs, nb, STR)
        d.update(kw)
        return d
    c.append(mk(1, 48))
    c.append(mk(2, 48))
    c.append(mk(3, 48, NAMELEN=5))
    c.append(mk(3, 48, WITH_FORCE=None))
    c.append(mk(1, 60, WITH_CSUM=None))
    c.append(mk(2, 32, MINREC=8))
    # two blocks: the victim may be the first record of the second block (prev pointer crosses blocks)
    c.append(mk(1, 24, 2))
    c.append(mk(2, 28, 2))
    return c

def lookup_cfgs():
    c = []
    def mk(op, bs, nb=1, **kw):
        d = {"OP": op, "BS": bs}
        if nb != 1:
            d["NB"] = nb
        if op == 1:
            d["NAMELEN"] = kw.pop("NAMELEN", 3)
        d["_unwindset"] = blk_unwind(bs, nb, STR + ["vf_list_cb.0:%d" % (bs // 4 + 1), "vf_list_cb.1:%d" % (nb + 1)])
        d.update(kw)
        return d
    c.append(mk(1, 48))
    c.append(mk(1, 60, NAMELEN=5, WITH_CSUM=None))
    c.append(mk(1, 24, 2, NAMELEN=2))
    c.append(mk(1, 32, MINREC=8))
    c.append(mk(2, 48, LFLAGS=0))
    c.append(mk(2, 60, LFLAGS=0, WITH_CSUM=None))
    c.append(mk(2, 60, LFLAGS=1, WITH_CSUM=None))
    c.append(mk(2, 60, LFLAGS=5, WITH_CSUM=None))
    c.append(mk(2, 24, 2, LFLAGS=0))
    c.append(mk(2, 32, LFLAGS=0, MINREC=8))
    return c

STR = ["strlen.0:10", "strncpy.0:10", "strncmp.0:10"]

HARNESSES = [
    dict(name="link", src="link.c",
         funcs=["ext2fs_link", "link_proc", "ext2fs_process_dir_block", "ext2fs_dir_iterate2",
                "ext2fs_read_dir_block4", "ext2fs_write_dir_block4", "ext2fs_set_rec_len"],
         extra_harness_src=["C10/iter_unit.c"],
         configs=link_cfgs(), unwind=4,
         unwindset=blk_unwind(BSQ, 1, ["strlen.0:10", "strncpy.0:10"]),
         backends=["default", "kissat"],
         bound="one directory block of 48 bytes, every byte symbolic under WF; new name 1..8 bytes, inode, type symbolic"),
    dict(name="unlink", src="unlink.c",
         funcs=["ext2fs_unlink", "unlink_proc", "ext2fs_process_dir_block", "ext2fs_dir_iterate", "ext2fs_dir_iterate2",
                "ext2fs_read_dir_block4", "ext2fs_write_dir_block4"],
         extra_harness_src=["C10/iter_unit.c"],
         configs=unlink_cfgs(), unwind=4,
         unwindset=blk_unwind(BSQ, 1, STR),
         backends=["default", "kissat"],
         bound="tbd"),
]
HARNESSES.append(
    dict(name="lookup", src="lookup.c",
         funcs=["ext2fs_lookup", "lookup_proc", "ext2fs_process_dir_block", "ext2fs_dir_iterate", "ext2fs_dir_iterate2",
                "ext2fs_read_dir_block4"],
         extra_harness_src=["C10/iter_unit.c"],
         configs=lookup_cfgs(), unwind=4,
         unwindset=blk_unwind(BSQ, 1, STR),
         backends=["default", "kissat"],
         bound="tbd"))
def dx_cfgs():
    c = []
    for op, lim in ((1, 8), (1, 5), (2, 6), (2, 4)):
        bs = 8 + 8 * lim
        c.append({"OP": op, "LIMIT": lim,
                  "_unwindset": ["main.%d:%d" % (i, bs + 2) for i in range(10)] +
                                ["dx_search_entry.0:%d" % (lim.bit_length() + 2), "memmove.0:%d" % (bs + 1),
                                 "stub_write_blk64.0:%d" % (bs + 1), "stub_write_blk64.1:2"]})
    return c

HARNESSES.append(
    dict(name="dxnode", src="dxnode.c",
         funcs=["dx_search_entry", "dx_insert_entry", "ext2fs_write_dir_block4"],
         configs=dx_cfgs(), unwind=4,
         backends=["default", "kissat"],
         bound="tbd"))

def newdir_cfgs():
    c = []
    for bs, feat in ((32, {}), (64, {"WITH_FILETYPE": None}), (48, {"WITH_CSUM": None}),
                     (64, {"WITH_CSUM": None, "WITH_FILETYPE": None})):
        d = {"BS": bs}
        d.update(feat)
        d["_unwindset"] = blk_unwind(bs, 1, ["memset.0:%d" % (bs + 1)])
        c.append(d)
    return c

HARNESSES.append(
    dict(name="newdir", src="newdir.c",
         funcs=["ext2fs_new_dir_block", "ext2fs_set_rec_len", "ext2fs_initialize_dirent_tail"],
         extra_harness_src=["C10/iter_unit.c"], extra_src=["lib/ext2fs/csum.c"],
         configs=newdir_cfgs(), unwind=4,
         backends=["default", "kissat"],
         bound="tbd"))

def hash_unwind(maxlen):
    return ["dx_hack_hash.0:%d" % (maxlen + 2), "str2hashbuf.0:%d" % (maxlen + 2), "str2hashbuf.1:10",
            "ext2fs_dirhash.0:6", "ext2fs_dirhash.1:%d" % (maxlen // 32 + 3), "ext2fs_dirhash.2:%d" % (maxlen // 16 + 3),
            "TEA_transform.0:18", "ref_half_md4.0:9", "ref_half_md4.1:4", "ref_tea.0:17",
            "ref_pack.0:5", "ref_pack.1:9", "ref_half_md4.0:9", "ref_half_md4.1:4", "ref_legacy.0:%d" % (maxlen + 1)] + \
           ["main.%d:%d" % (i, maxlen + 3) for i in range(6)]

def hash_cfgs():
    c = []
    def full(v, n, **kw):
        ml = max(n, 8)
        d = {"HVER": v, "MAXLEN": ml, "NLEN": n, "_unwindset": hash_unwind(ml), "_backends": ["z3", "kissat"]}
        d.update(kw)
        return d
    # A. packing, all names: TEA (4 words) and half-MD4 (8 words), signed and unsigned, incl. truncation
    for v, num, ml in ((2, 4, 18), (5, 4, 18), (1, 8, 10), (4, 8, 34)):
        c.append({"MODE": 1, "HVER": v, "NUM": num, "MAXLEN": ml, "_unwindset": hash_unwind(ml), "_backends": ["default", "kissat"]})
    # B. one transform step, all states and message words
    c.append({"MODE": 2, "HVER": 1, "_unwindset": hash_unwind(8), "_backends": ["cvc5", "kissat"]})
    c.append({"MODE": 2, "HVER": 2, "_unwindset": hash_unwind(8), "_backends": ["z3", "kissat"]})
    # C. seed and result-word selection, all seeds (empty name: no transform)
    for v in (1, 2, 4, 5):
        c.append(full(v, 0))
    c.append(full(2, 0, NULLSEED=None))
    # D. legacy hash end to end, all names of the given length
    for v, n in ((0, 1), (0, 5), (3, 8), (3, 4)):
        c.append(full(v, n))
    # E. glue of the keyed hashes on a fixed vector (1, 2 and 3 chunks)
    for v, n in ((1, 7), (4, 37), (2, 16), (5, 37), (2, 33)):
        c.append(full(v, n, CONCRETE=None, _backends=["default"]))
    # F. end to end, all names of the length and all seeds (slow: the solver re-proves the transform)
    c.append(full(1, 5, _tier="thorough", _backends=["kissat", "cvc5"]))
    c.append(full(4, 8, _tier="thorough", _backends=["kissat", "cvc5"]))
    c.append(full(2, 5, _tier="thorough", _backends=["kissat"]))
    # G. kernel's EOF remap
    c.append(full(0, 6, CHECK_EOF=None))
    return c

HARNESSES.append(
    dict(name="dirhash", src="dirhash.c",
         funcs=["ext2fs_dirhash2", "ext2fs_dirhash", "str2hashbuf", "halfMD4Transform", "TEA_transform", "dx_hack_hash"],
         configs=hash_cfgs(), unwind=4, unwindset=hash_unwind(8),
         backends=["default", "kissat"],
         bound="tbd"))
MANIFEST = {"text": "tbd", "note": "tbd"}
