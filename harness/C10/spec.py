META = {
    "assumptions": ["allocation failure out of scope (--no-malloc-may-fail)",
                    "directory blocks are well formed before the operation (rec_len chain tiles the block, every rec_len >= 12 "
                    "[>= 8 in the MINREC=8 queries], a record in use has a non-empty name, checksum tail present iff metadata_csum); "
                    "corrupt directories are property C06/C02",
                    "block mapping, block read/write and checksum computation are stubs (always succeed); checksum content is C14",
                    "little-endian host (the WORDS_BIGENDIAN swab paths of dirblock.c are not compiled)"],
    "outside": ["histories of operations: one operation from an arbitrary well-formed block (induction over WF), not sequences",
                "dx_lookup only on 1- and 2-level trees without largedir/metadata_csum and with the hash stubbed; dx_link's retry loop; dx_split_leaf only on full leaves of 3..5 "
                "records with the rec_len chain and name lengths fixed per query (leaves with free records: see report); "
                "dx_grow_tree only for the interior split below a non-full parent and the 1 -> 2 level depth increase",
                "ext2fs_expand_dir over the real block iterator/allocator (iterator, allocator, zeroing are stubs; allocation failure, bigalloc, "
                "huge_file, extent-mapped and inline directories outside), ext2fs_mkdir / ext2fs_symlink only as protocols over stubbed callees (fault schedules, "
                "accounting ledger, arguments), not composed with the real allocator / link / inode writer; do_write_internal only as a protocol over stubbed callees "
                "and a 4-directory model of ext2fs_namei (do_mkdir/do_mknod/do_symlink_internal are not encoded)",
                "ext2fs_namei path walk (namei) only through open_namei at the nesting limit (the public wrappers ext2fs_namei / ext2fs_namei_follow / "
                "ext2fs_follow_link -- strlen + open_namei(.., 0) -- are only in the inconclusive thorough queries): component splitting, leading/trailing '/', '//', lookup errors, follow flag and "
                "EXT2_ET_SYMLINK_LOOP for every symlink met at depth 8 are decided; symlink EXPANSION (target relative to the link's directory, fast / slow / "
                "inline target source, depth accounting across nested calls, off-by-one of the limit) is only in thorough-tier queries that were never seen "
                "to finish (inconclusive); paths longer than 4 bytes, names longer than 2 bytes",
                "debugfs rm/rmdir/kill_file (rmdir_p, rm_p, killfile_p) only as a protocol over recording stubs (ext2fs_unlink, inode read/write, block iterator, "
                "allocation statistics are not composed with the real library); rmdir of the root directory ('..' == itself), rm of an inode with zero links, "
                "blocks of one cluster presented non-consecutively, mapped block/cluster 0, listings longer than 3 entries; dir_nlink overflow rule "
                "(link count 1 = 'many') is only covered as 'never decremented below 1'",
                "inline-data directories: link/unlink/lookup callbacks on inline areas (only a generic modifying callback is encoded), EA values other than "
                "0/12/16/24 bytes, xattr/inode I/O failures during write back, malformed inline areas (EXT2_ET_DIR_CORRUPTED path), INCLUDE_REMOVED on inline "
                "areas, big-endian swab paths; ext2fs_inline_data_expand outside ext2fs_inline_data_convert_dir (EA fetch/removal, block allocation, "
                "ext2fs_write_dir_block4, extent/bmap setup, i_size/i_flags update, error unwinding); ext2fs_inline_data_file_expand",
                "casefolded/encrypted directories (SipHash, hash-in-dirent), blocksize >= 65536 rec_len encoding",
                "interleaving with e2fsck -D (rehash.c: see C05), e2fsck -fn verdict on the result, duplicate-name prevention (ext2fs_link does not check)",
                "directory blocks larger than 64 bytes / more than 2 blocks; names longer than 8 bytes in link/unlink/lookup",
                "keyed hashes end to end for all names AND all seeds in one query only in the thorough tier (quick tier proves packing, "
                "transform, seed/result selection separately and the glue on fixed vectors)"],
}

def blk_unwind(bs, nb=1, extra=()):
    n = bs // 4 + 1
    l = ["vf_scan.0:%d" % n, "vf_scan.1:%d" % n, "vf_name_eq.0:%d" % (bs + 1), "vf_same_entry.0:%d" % (bs + 1),
         "vf_count_live.0:%d" % n,
         "stub_read_blk64.0:%d" % (bs + 1), "stub_read_blk64.1:%d" % (nb + 1),
         "stub_write_blk64.0:%d" % (bs + 1), "stub_write_blk64.1:%d" % (nb + 1),
         "stub_block_iterate3.0:%d" % (nb + 1),
         "ext2fs_process_dir_block.0:%d" % (bs // 4 + 1), "ext2fs_process_dir_block.1:%d" % (bs // 8 + 3)]
    l += ["main.%d:%d" % (i, nb * bs + 1) for i in range(12)]
    return l + list(extra)

BSQ = 32

def link_cfgs():
    c = []
    def mk(op, bs, nl, feat, **kw):
        d = {"OP": op, "BS": bs, "NAMELEN": nl}
        d.update(feat)
        d["_unwindset"] = blk_unwind(bs, kw.pop("NB", 1), STR)
        d.update(kw)
        return d
    none, ft, cs, both = {}, {"WITH_FILETYPE": None}, {"WITH_CSUM": None}, {"WITH_CSUM": None, "WITH_FILETYPE": None}
    c.append(mk(1, 40, 4, none))
    c.append(mk(1, 40, 5, ft))
    c.append(mk(1, 48, 4, both))
    c.append(mk(1, 44, 1, cs))
    c.append(mk(2, 40, 8, ft))
    c.append(mk(2, 48, 3, both))
    c.append(mk(1, 32, 4, ft, MINREC=8))
    c.append(mk(1, 48, 4, ft, _tier="thorough"))
    c.append(mk(1, 64, 4, both, _tier="thorough"))
    return c

def unlink_cfgs():
    c = []
    def mk(by, bs, nb=1, **kw):
        d = {"BY": by, "BS": bs}
        if nb != 1:
            d["NB"] = nb
        if by != 2:
            d["NAMELEN"] = kw.pop("NAMELEN", 3)
        d["_unwindset"] = blk_unwind(bs, nb, STR)
        d.update(kw)
        return d
    c.append(mk(1, 48))
    c.append(mk(2, 48))
    c.append(mk(3, 48, NAMELEN=5))
    c.append(mk(3, 48, WITH_FORCE=None))
    c.append(mk(1, 60, WITH_CSUM=None))
    c.append(mk(2, 32, MINREC=8))
    # two blocks: the victim may be the first record of the second block (prev pointer crosses blocks)
    c.append(mk(1, 24, 2))
    c.append(mk(2, 28, 2))
    return c

def lookup_cfgs():
    c = []
    def mk(op, bs, nb=1, **kw):
        d = {"OP": op, "BS": bs}
        if nb != 1:
            d["NB"] = nb
        if op == 1:
            d["NAMELEN"] = kw.pop("NAMELEN", 3)
        d["_unwindset"] = blk_unwind(bs, nb, STR + ["vf_list_cb.0:%d" % (bs // 4 + 1), "vf_list_cb.1:%d" % (nb + 1)])
        d.update(kw)
        return d
    c.append(mk(1, 48))
    c.append(mk(1, 60, NAMELEN=5, WITH_CSUM=None))
    c.append(mk(1, 24, 2, NAMELEN=2))
    c.append(mk(1, 32, MINREC=8))
    c.append(mk(2, 48, LFLAGS=0))
    c.append(mk(2, 60, LFLAGS=0, WITH_CSUM=None))
    c.append(mk(2, 60, LFLAGS=1, WITH_CSUM=None))
    c.append(mk(2, 60, LFLAGS=5, WITH_CSUM=None))
    c.append(mk(2, 24, 2, LFLAGS=0))
    c.append(mk(2, 32, LFLAGS=0, MINREC=8))
    return c

STR = ["strlen.0:10", "strncpy.0:10", "strncmp.0:10"]

HARNESSES = [
    dict(name="link", src="link.c",
         funcs=["ext2fs_link", "link_proc", "ext2fs_process_dir_block", "ext2fs_dir_iterate2",
                "ext2fs_read_dir_block4", "ext2fs_write_dir_block4", "ext2fs_set_rec_len"],
         extra_harness_src=["C10/iter_unit.c"],
         configs=link_cfgs(), unwind=4,
         unwindset=blk_unwind(BSQ, 1, ["strlen.0:10", "strncpy.0:10"]),
         backends=["default", "kissat"],
         bound="one directory block of 40..48 bytes (64 thorough), every byte symbolic under WF; new name of 1,3,4,5,8 bytes "
               "(length fixed per query, bytes symbolic), inode and flags symbolic; features {filetype, metadata_csum} per query"),
    dict(name="unlink", src="unlink.c",
         funcs=["ext2fs_unlink", "unlink_proc", "ext2fs_process_dir_block", "ext2fs_dir_iterate", "ext2fs_dir_iterate2",
                "ext2fs_read_dir_block4", "ext2fs_write_dir_block4"],
         extra_harness_src=["C10/iter_unit.c"],
         configs=unlink_cfgs(), unwind=4,
         unwindset=blk_unwind(BSQ, 1, STR),
         backends=["default", "kissat"],
         bound="one block of 48/60 bytes or two blocks of 24/28 bytes, every byte symbolic under WF; by name (3 or 5 bytes, symbolic), "
               "by inode, by both, with and without EXT2FS_UNLINK_FORCE"),
]
HARNESSES.append(
    dict(name="lookup", src="lookup.c",
         funcs=["ext2fs_lookup", "lookup_proc", "ext2fs_process_dir_block", "ext2fs_dir_iterate", "ext2fs_dir_iterate2",
                "ext2fs_read_dir_block4"],
         extra_harness_src=["C10/iter_unit.c"],
         configs=lookup_cfgs(), unwind=4,
         unwindset=blk_unwind(BSQ, 1, STR),
         backends=["default", "kissat"],
         bound="one block of 48/60 bytes or two of 24 bytes, every byte symbolic under WF; name of 2,3,5 symbolic bytes; "
               "iterator flags 0, INCLUDE_EMPTY, INCLUDE_EMPTY|INCLUDE_CSUM"))
def dx_cfgs():
    c = []
    for op, lim in ((2, 6), (2, 4), (1, 8), (1, 5)):
        bs = 8 + 8 * lim
        c.append({"OP": op, "LIMIT": lim, "_backends": ["kissat", "z3"] if op == 1 else ["default", "kissat"],
                  "_unwindset": ["main.%d:%d" % (i, bs + 2) for i in range(10)] +
                                ["dx_search_entry.0:%d" % (lim.bit_length() + 2), "memmove.0:%d" % (bs + 1),
                                 "stub_write_blk64.0:%d" % (bs + 1), "stub_write_blk64.1:2"]})
    return c

HARNESSES.append(
    dict(name="dxnode", src="dxnode.c",
         funcs=["dx_search_entry", "dx_insert_entry", "ext2fs_write_dir_block4"],
         configs=dx_cfgs(), unwind=4,
         backends=["default", "kissat"],
         bound="one index node with limit 4..8, count, hashes (ascending), blocks, target hash and inserted pair symbolic"))

def newdir_cfgs():
    c = []
    for bs, feat in ((32, {}), (64, {"WITH_FILETYPE": None}), (48, {"WITH_CSUM": None}),
                     (64, {"WITH_CSUM": None, "WITH_FILETYPE": None})):
        d = {"BS": bs}
        d.update(feat)
        d["_unwindset"] = blk_unwind(bs, 1, ["memset.0:%d" % (bs + 1)])
        c.append(d)
    return c

HARNESSES.append(
    dict(name="newdir", src="newdir.c",
         funcs=["ext2fs_new_dir_block", "ext2fs_set_rec_len", "ext2fs_initialize_dirent_tail"],
         extra_harness_src=["C10/iter_unit.c"], extra_src=["lib/ext2fs/csum.c"],
         configs=newdir_cfgs(), unwind=4,
         backends=["default", "kissat"],
         bound="block size 32/48/64; dir_ino and parent_ino all 2^32 values; features per query"))

def expand_cfgs():
    c = []
    for bs, nex, feat in ((1024, 12, {}), (1024, 1, {"WITH_CSUM": None}), (2048, 3, {"WITH_FILETYPE": None, "WITH_CSUM": None})):
        d = {"BS": bs, "NEXIST": nex}
        d.update(feat)
        n = max(nex + 1, 5)
        d["_unwindset"] = ["vf_scan.0:%d" % (bs // 4 + 1), "vf_scan.1:%d" % (bs // 4 + 1), "memset.0:%d" % (bs + 1),
                           "stub_write_blk64.0:%d" % (bs + 1), "stub_write_blk64.1:2",
                           "stub_block_iterate3.0:%d" % n, "stub_block_iterate3.1:%d" % n] + \
                          ["main.%d:%d" % (i, bs + 1) for i in range(8)]
        c.append(d)
    return c

HARNESSES.append(
    dict(name="expanddir", src="expanddir.c",
         funcs=["ext2fs_expand_dir", "expand_dir_proc", "ext2fs_new_dir_block", "ext2fs_write_dir_block4",
                "ext2fs_inode_size_set", "ext2fs_iblk_add_blocks", "ext2fs_set_rec_len"],
         extra_harness_src=["C10/iter_unit.c"],
         extra_src=["lib/ext2fs/csum.c", "lib/ext2fs/blknum.c", "lib/ext2fs/i_block.c"],
         configs=expand_cfgs(), unwind=5,
         backends=["default", "kissat"],
         bound="block size 1024/2048; directory of 1, 3 or 12 mapped blocks; 0..3 new mapping blocks per expansion and presence of an "
               "append slot symbolic; whole 128-byte inode symbolic"))

def grow_cfgs():
    c = []
    for op, l, cs in ((1, 3, 0), (1, 4, 0), (1, 5, 0), (1, 4, 1), (1, 3, 1), (2, 2, 0), (2, 3, 1)):
        bs = (8 if op == 1 else 32) + 8 * l + 8 * cs
        d = {"OP": op, "L": l}
        if cs:
            d["WITH_CSUM"] = None
        d["_unwindset"] = ["main.%d:%d" % (i, 4 * bs + 2) for i in range(12)] + \
                          ["ref_pick.0:%d" % (l + 5), "vf_put_node.0:%d" % (l + 1), "memcpy.0:%d" % (bs + 1), "memmove.0:%d" % (bs + 1),
                           "stub_write_blk64.0:%d" % (bs + 1), "stub_write_blk64.1:5", "dx_grow_tree.0:4"]
        c.append(d)
    return c

HARNESSES.append(
    dict(name="dxgrow", src="dxgrow.c",
         funcs=["dx_grow_tree", "dx_insert_entry", "ext2fs_write_dir_block4", "ext2fs_inode_size_set", "ext2fs_set_rec_len"],
         extra_harness_src=["C10/iter_unit.c"], extra_src=["lib/ext2fs/blknum.c"],
         configs=grow_cfgs(), unwind=4,
         backends=["default", "kissat"],
         bound="interior-node split: node limit 3,4,5 (odd and even; 3,4 with metadata_csum), parent with 1..limit-1 pairs, all hashes and "
               "blocks symbolic (strictly ascending), lookup target all 2^32 values; depth increase: root limit 2,3"))

HARNESSES.append(
    dict(name="mkdir_p", src="mkdir_p.c",
         funcs=["ext2fs_mkdir", "ext2fs_iblk_set"],
         extra_src=["lib/ext2fs/i_block.c"],
         configs=[{"FEAT": 0}, {"FEAT": 1}, {"FEAT": 2}], unwind=4,
         unwindset=["main.%d:130" % i for i in range(4)] + ["memset.0:130", "strlen.0:5"],
         backends=["default", "kissat"],
         bound="all fault schedules of the 12 fallible steps (return values symbolic); inum (0 = allocate), parent, name/NULL, umask, "
               "both copies of the parent inode symbolic; features none / extents / inline_data per query"))

def split_cfgs():
    c = []
    for lay, nls, cs, tier in (((12, 12, 12), (4, 1, 3), 0, "quick"), ((12, 12, 12, 12), (4, 1, 3, 2), 0, "thorough"), ((16, 12, 20), (5, 4, 9), 0, "thorough"),
                               ((24, 12, 12), (12, 2, 4), 0, "thorough"), ((12, 12, 12), (2, 4, 3), 1, "quick"), ((16, 16, 16), (8, 3, 6), 1, "thorough"),
                               ((12, 16, 12, 24), (3, 7, 4, 10), 0, "thorough"), ((12, 12, 12, 12, 12), (1, 2, 3, 4, 4), 0, "thorough")):
        bs = sum(lay) + 12 * cs
        d = {"BS": bs, "LAYOUT": ",".join(str(x) for x in lay), "NAMELENS": ",".join(str(x) for x in nls)}
        if cs:
            d["WITH_CSUM"] = None
        ne = bs // 12 + 2
        ns = bs // 4 + 1
        d["_unwindset"] = ["main.%d:%d" % (i, 3 * bs + 2) for i in range(26)] + \
            ["vf_scan.0:%d" % ns, "vf_scan.1:%d" % ns, "vf_ident.0:20", "vf_samename.0:20", "vf_hash_of.0:%d" % ns, "vf_holds.0:%d" % ns,
             "vf_match.0:%d" % ns, "vf_match.1:%d" % ns,
             "stub_dirhash2.0:%d" % ns, "stub_qsort.0:%d" % ne, "stub_qsort.1:%d" % ne,
             "dx_split_leaf.0:%d" % ne, "dx_split_leaf.1:%d" % ne, "dx_move_dirents.0:%d" % ne,
             "memcpy.0:%d" % (bs + 1), "memmove.0:%d" % (bs + 1), "memset.0:%d" % (bs + 1),
             "stub_write_blk64.0:%d" % (bs + 1), "stub_write_blk64.1:4"]
        d["_tier"] = tier
        d["_backends"] = ["default"] if tier == "quick" else ["default", "kissat"]
        c.append(d)
    return c

HARNESSES.append(
    dict(name="dxsplit", src="dxsplit.c",
         funcs=["dx_split_leaf", "dx_move_dirents", "dx_insert_entry", "dx_hash_map_cmp", "ext2fs_write_dir_block4", "ext2fs_set_rec_len"],
         extra_harness_src=["C10/iter_unit.c"], extra_src=["lib/ext2fs/csum.c"],
         configs=split_cfgs(), unwind=4,
         backends=["default", "kissat"], cap_quick=200,
         bound="one full leaf of 48/60/64 bytes (2..5 entries of 12..24 bytes, every byte symbolic), one symbolic even hash per entry "
               "(collisions allowed), parent node with 1..limit-1 pairs symbolic, tie order of the sort symbolic"))

HARNESSES.append(
    dict(name="symlink_p", src="symlink_p.c",
         funcs=["ext2fs_symlink", "ext2fs_inode_size_set", "ext2fs_iblk_set"],
         extra_src=["lib/ext2fs/i_block.c", "lib/ext2fs/blknum.c"],
         configs=[{"TLEN": 5}, {"TLEN": 70}, {"TLEN": 70, "WITH_EXTENTS": None}, {"TLEN": 64, "WITH_INLINE": None}], unwind=4,
         unwindset=["main.%d:130" % i for i in range(6)] + ["memset.0:130", "strlen.0:80", "strnlen.0:131", "stub_strnlen.0:131",
                    "strncpy.0:130", "strcpy.0:80", "stub_write_blk64.0:130"],
         backends=["default", "kissat"],
         bound="all fault schedules of the 10 fallible steps; target of 5 (fast) / 64, 70 (slow or inline) symbolic bytes, block size 128; "
               "inum, parent, name/NULL symbolic; features none / extents / inline_data per query"))

HARNESSES.append(
    dict(name="dxlookup", src="dxlookup.c",
         funcs=["dx_lookup", "dx_search_entry", "load_logical_dir_block", "ext2fs_read_dir_block4", "ext2fs_get_dx_countlimit"],
         extra_src=["lib/ext2fs/csum.c"],
         configs=[{"RL": 3, "LV": 1, "HV": 2}, {"RL": 2, "LV": 2, "HV": 1}, {"RL": 2, "LV": 0}, {"RL": 2, "_tier": "thorough"}, {"RL": 3, "LV": 1, "HV": 0, "_tier": "thorough"}, {"RL": 3, "LV": 1, "HV": 1, "_tier": "thorough"}], unwind=4,
         unwindset=["main.%d:60" % i for i in range(16)] + ["ref_pick.0:8", "dx_lookup.0:4", "dx_search_entry.0:5", "dx_release.0:4",
                    "stub_read_blk64.0:60", "stub_read_blk64.1:4", "memcpy.0:60"],
         backends=["default", "kissat"],
         bound="root limit 2/3, two interior nodes of limit 5/6, hash_version and indirect_levels all 256 values, counts, pairs, "
               "s_flags, seed, directory flags and the returned hash symbolic; 1- and 2-level trees"))

HARNESSES.append(
    dict(name="writefile_p", src="writefile_p.c",
         funcs=["do_write_internal"],
         cut_statics={"misc/create_inode.c": ["copy_file"]},
         configs=[{"DEST": 2}, {"DEST": 1}, {"DEST": 3, "WITH_EXTENTS": None}, {"DEST": 2, "WITH_INLINE": None}, {"DEST": 4}], unwind=4,
         unwindset=["main.%d:20" % i for i in range(4)] + ["vf_streq.0:10", "strrchr.0:12", "memset.0:200"],
         backends=["default", "kissat"],
         bound="destination path one of name, d/name, /d/name, /name per query; model namespace with symbolic inode numbers (root may equal "
               "cwd), symbolic existence of the name in each directory, all failure combinations of the callees"))

def hash_unwind(maxlen):
    return ["dx_hack_hash.0:%d" % (maxlen + 2), "str2hashbuf.0:%d" % (maxlen + 2), "str2hashbuf.1:10",
            "ext2fs_dirhash.0:6", "ext2fs_dirhash.1:%d" % (maxlen // 32 + 3), "ext2fs_dirhash.2:%d" % (maxlen // 16 + 3),
            "TEA_transform.0:18", "ref_half_md4.0:9", "ref_half_md4.1:4", "ref_tea.0:17",
            "ref_pack.0:5", "ref_pack.1:9", "ref_half_md4.0:9", "ref_half_md4.1:4", "ref_legacy.0:%d" % (maxlen + 1)] + \
           ["main.%d:%d" % (i, maxlen + 3) for i in range(6)]

def hash_cfgs():
    c = []
    def full(v, n, **kw):
        ml = max(n, 8)
        d = {"HVER": v, "MAXLEN": ml, "NLEN": n, "_unwindset": hash_unwind(ml), "_backends": ["z3", "kissat"]}
        d.update(kw)
        return d
    # A. packing, all names: TEA (4 words) and half-MD4 (8 words), signed and unsigned, incl. truncation
    for v, num, ml in ((2, 4, 18), (5, 4, 18), (1, 8, 10), (4, 8, 34)):
        c.append({"MODE": 1, "HVER": v, "NUM": num, "MAXLEN": ml, "_unwindset": hash_unwind(ml), "_backends": ["default", "kissat"]})
    # B. one transform step, all states and message words
    c.append({"MODE": 2, "HVER": 1, "_unwindset": hash_unwind(8), "_backends": ["cvc5", "kissat"]})
    c.append({"MODE": 2, "HVER": 2, "_unwindset": hash_unwind(8), "_backends": ["z3", "kissat"]})
    # C. seed and result-word selection, all seeds (empty name: no transform)
    for v in (1, 2, 4, 5):
        c.append(full(v, 0))
    c.append(full(2, 0, NULLSEED=None))
    # D. legacy hash end to end, all names of the given length
    for v, n in ((0, 1), (0, 5), (3, 8), (3, 4)):
        c.append(full(v, n))
    # E. glue of the keyed hashes on a fixed vector (1, 2 and 3 chunks)
    for v, n in ((1, 7), (4, 37), (2, 16), (5, 37), (2, 33)):
        c.append(full(v, n, CONCRETE=None, _backends=["default"]))
    # F. end to end, all names of the length and all seeds (slow: the solver re-proves the transform)
    c.append(full(1, 5, _tier="thorough", _backends=["kissat", "cvc5"]))
    c.append(full(4, 8, _tier="thorough", _backends=["kissat", "cvc5"]))
    c.append(full(2, 5, _tier="thorough", _backends=["kissat"]))
    # G. kernel's EOF remap
    c.append(full(0, 6, CHECK_EOF=None, EOFVEC=None, _backends=["default"]))
    c.append(full(0, 6, CHECK_EOF=None, _tier="thorough", _backends=["kissat"]))
    return c

HARNESSES.append(
    dict(name="dirhash", src="dirhash.c",
         funcs=["ext2fs_dirhash2", "ext2fs_dirhash", "str2hashbuf", "halfMD4Transform", "TEA_transform", "dx_hack_hash"],
         configs=hash_cfgs(), unwind=4, unwindset=hash_unwind(8),
         backends=["default", "kissat"],
         cap_thorough=1500,
         bound="packing: all names up to 18 (TEA) / 34 (half-MD4) bytes; transform: all states and message words; seed selection: all seeds; "
               "legacy: all names of 1,4,5,8 bytes; glue: fixed vectors of 7..37 bytes; thorough: all names of 5/8 bytes and all seeds end to end"))

def namei_cfgs():
    c = []
    def mk(kind, lc, follow, **kw):
        n = 62 if kind else 8
        d = {"KIND": kind, "LC": lc, "FOLLOW": follow}
        d["_unwindset"] = ["vf_type.0:6", "vf_tlen.0:6", "vf_target.0:62", "vf_target.1:62", "vf_target.2:62",
                           "stub_lookup.0:6", "ref_lookup.0:6", "stub_read_inode.0:5", "stub_read_blk64.0:66",
                           "stub_inline_data_get.0:62", "ref_walk.0:%d" % n, "ref_walk.1:%d" % n,
                           "dir_namei.0:%d" % n, "dir_namei.1:%d" % n, "strlen.0:8", "memset.0:66"] + \
                          ["main.%d:8" % i for i in range(6)]
        d.update(kw)
        return d
    # whole walk at the depth limit: every component split / leading and trailing '/' / "//" / lookup error / follow flag,
    # every symlink met is EXT2_ET_SYMLINK_LOOP
    c.append(mk(0, 8, 0))
    c.append(mk(0, 8, 1))
    # follow_link one level below the limit: one expansion (target walk at depth 8), fast / slow / inline target source
    # INCONCLUSIVE: never seen to complete (400 s under load), kept in the thorough tier only
    c.append(mk(0, 7, 1, FLINK=None, _tier="thorough"))
    # mk(1, 7, 1, FLINK=None) and mk(2, 7, 1, FLINK=None) (slow / inline symlink target source at depth 7): out of memory at 20 GB in both
    # back ends (thorough run of the continuation session): not registered; KIND 0 (fast symlink) at depth 7 passes in 250 s / 7.8 GB
    # INCONCLUSIVE (symbolic execution does not finish in 15 min: the real recursion is explored to the unwind bound on every
    # component): mk(0, 0, 0, DMAX=1), mk(0, 0, 1, DMAX=1), mk(0, 7, 0), mk(0, 7, 1), mk(0, 6, 1), mk(0, 0, 1, FLINK=None)
    return c

HARNESSES.append(
    dict(name="namei", src="namei.c",
         funcs=["open_namei", "dir_namei", "follow_link"],
         extra_src=["lib/ext2fs/symlink.c"],
         configs=namei_cfgs(), unwind=4,
         backends=["default", "kissat"], cap_quick=300,
         bound="namespace of 4 inodes of symbolic type, 4 symbolic directory entries (names of 1..2 symbolic bytes), symbolic root/cwd; "
               "path of 0..4 symbolic bytes; symlink targets of 1..3 symbolic bytes (fast) or 3 symbolic + 57 constant bytes (slow / inline); "
               "one symlink expansion from depth 0 through the public entry points (two through ext2fs_follow_link), starting depths 7, 8 (6 thorough) "
               "up to the limit of 8; slow / inline targets through follow_link at depth 7 (whole walk: thorough)"))

def rmdir_cfgs(op):
    uw = ["main.%d:6" % i for i in range(8)] + ["stub_dir_iterate2.0:5", "stub_block_iterate3.0:5", "stub_block_alloc_stats2.0:5",
          "ref_release.0:5", "ref_release.1:5", "ref_release.2:5", "vf_check_released.0:5", "strrchr.0:8", "memcmp.0:200"]
    c = []
    for d in ({"OP": 1}, {"OP": 1, "PATHKIND": 1}, {"OP": 1, "CBITS": 2}, {"OP": 2}, {"OP": 2, "PATHKIND": 1, "CBITS": 2}, {"OP": 3}, {"OP": 3, "CBITS": 2}):
        if d["OP"] != op:
            continue
        d = dict(d)
        d["_unwindset"] = uw
        c.append(d)
    return c

RM_BOUND = ("directory listing of 3 symbolic entries (inode, name of 1..3 bytes); 0..3 symbolic blocks, cluster ratio 1 or 4; both whole "
            "128-byte inodes symbolic; every failure schedule of name resolution, the first 8 inode reads/writes, iteration and unlink; "
            "path 'x1' or 'd/x1'")
# one entry per command (funcs are checked against the first config only); same source file
HARNESSES.append(
    dict(name="rmdir_p", src="rmdir_p.c",
         funcs=["do_rmdir", "rmdir_proc", "kill_file_by_inode", "release_blocks_proc", "unlink_file_by_name"],
         configs=rmdir_cfgs(1), unwind=4, backends=["default", "kissat"], cap_quick=300, bound=RM_BOUND))
HARNESSES.append(
    dict(name="rm_p", src="rmdir_p.c",
         funcs=["do_rm", "kill_file_by_inode", "release_blocks_proc", "unlink_file_by_name"],
         configs=rmdir_cfgs(2), unwind=4, backends=["default", "kissat"], cap_quick=300, bound=RM_BOUND))
HARNESSES.append(
    dict(name="killfile_p", src="rmdir_p.c",
         funcs=["do_kill_file", "kill_file_by_inode", "release_blocks_proc"],
         configs=rmdir_cfgs(3), unwind=4, backends=["default", "kissat"], cap_quick=300, bound=RM_BOUND))

# ---- inline-data directory paths (inl_iter, inl_expand) ----
# harnesses of the inline-data directory paths (exec()ed by spec.py, list appended to HARNESSES)

def inl_iter_unwind(ea):
    nslot = 2 + 14 + ea // 4 + 1
    return ["ref_scan.0:15", "vf_is_system_data.0:13",
            "stub_xattr_get.0:%d" % (ea + 1), "stub_xattr_set.0:%d" % (ea + 1),
            "vf_cb.0:%d" % (nslot + 1),
            "ext2fs_process_dir_block.0:16", "ext2fs_process_dir_block.1:10"] + \
           ["main.%d:%d" % (i, 62) for i in range(24)]

def inl_iter_cfgs():
    c = []
    def mk(ea, lflags=0, **kw):
        d = {"EASZ": ea, "LFLAGS": lflags}
        d["_unwindset"] = inl_iter_unwind(ea)
        d.update(kw)
        return d
    c.append(mk(16))
    c.append(mk(0, 0, WITH_ABORT=None, _tier="thorough"))   # 152 s under load
    c.append(mk(12, 1, WITH_ABORT=None))
    c.append(mk(24, 1, _tier="thorough"))
    c.append(mk(16, 0, WITH_ABORT=None, _tier="thorough"))
    c.append(mk(0, 0, NEG=1))
    c.append(mk(12, 0, NEG=2))
    return c

HARNESSES_INLINE = [
    dict(name="inl_iter", src="inl_iter.c",
         funcs=["ext2fs_inline_data_dir_iterate", "ext2fs_inline_data_ea_get", "ext2fs_inline_data_ea_set",
                "ext2fs_process_dir_block"],
         extra_harness_src=["C10/iter_unit.c"],
         configs=inl_iter_cfgs(), unwind=4,
         unwindset=inl_iter_unwind(16),
         backends=["default", "kissat"],
         cap_quick=300,
         bound="one inline-data directory: all 60 bytes of i_block and all 0/12/16/24 bytes of the system.data value symbolic under WF "
               "(both dirent areas tile exactly); callback modifies the entry of one symbolic invocation (inode, file type symbolic) and "
               "aborts at one symbolic invocation; iterator flags 0 / INCLUDE_EMPTY; inode without inline-data flag / non-directory refused"),
    dict(name="inl_expand", src="inl_expand.c",
         funcs=["ext2fs_inline_data_convert_dir", "ext2fs_set_rec_len", "ext2fs_get_rec_len", "ext2fs_initialize_dirent_tail"],
         extra_harness_src=["C10/iter_unit.c"], extra_src=["lib/ext2fs/csum.c"],
         configs=[{"EASZ": 16, "WITH_CSUM": None, "WITH_FILETYPE": None}, {"EASZ": 0}, {"EASZ": 24, "WITH_FILETYPE": None}],
         unwind=4,
         unwindset=["ref_scan.0:15", "ext2fs_inline_data_convert_dir.0:9", "memcpy.0:90", "memset.0:20"] + ["main.%d:%d" % (i, 130) for i in range(12)],
         backends=["default", "kissat"],
         cap_quick=300,
         bound="inline image of 60 + 0/16/24 bytes, every byte symbolic under WF; block size 128; features {filetype, metadata_csum} per query"),
]
HARNESSES += HARNESSES_INLINE

MANIFEST = {
    "text": "Bounded-exhaustive inductive step on one directory block: from every well-formed block (all bytes symbolic, 40-64 bytes) "
            "one ext2fs_link / leaf insert / ext2fs_unlink with symbolic name bytes, inode and flags changes the listing seen by an "
            "independent reader of the on-disk format by exactly the requested entry, keeps every other entry byte for byte, keeps the "
            "block well formed and the checksum tail intact, and reports no-space / not-found exactly when the reference says so; "
            "ext2fs_lookup and the iterator report exactly what the reader sees. Index nodes: binary search and pair insertion against "
            "a linear reference; an interior-node split / depth increase by dx_grow_tree resolves every 32-bit hash to the same leaf as "
            "before. ext2fs_expand_dir accounts i_size/i_blocks for every block it allocates (0..3 mapping blocks + data block) and writes "
            "an empty well-formed block. New directory blocks hold exactly '.' and '..'. The name hash equals the kernel's definition "
            "(packing, transform, seed and result selection decided for all inputs separately; end to end in the thorough tier) "
            "except for the kernel's EOF remap (reported finding). debugfs rmdir refuses every directory whose listing holds anything but unused "
            "entries, '.' and '..' (and every non-directory, unresolved or unreadable name) without any effect; on success it removes the name once, "
            "writes the inode with zero links and a deletion time, releases each mapped cluster and the inode exactly once (as a directory) and drops "
            "the parent's link count by exactly one, never below 1; rm refuses directories, drops the link count by one and releases inode and blocks "
            "exactly when it reached zero; kill_file releases with isdir matching the inode type (rmdir_p, rm_p, killfile_p: one source, over recording stubs). open_namei's walk "
            "(what ext2fs_namei / ext2fs_namei_follow run) at nesting depth 8 equals an independent resolver on a symbolic 4-inode namespace for every path of 0..4 bytes "
            "(namei). Inline-data directories: ext2fs_inline_data_dir_iterate reports exactly '.', '..' (parent from i_block[0]), the i_block area and "
            "the system.data area as an independent reader sees them, and writes a callback's change back to exactly the right store (parent word / "
            "inode / EA value) leaving every other byte; ext2fs_inline_data_convert_dir produces byte for byte the block '.' + '..' + all inline "
            "records with the last rec_len extended to the block end and the checksum tail initialised (inl_iter, inl_expand).",
    "note": "Trusted: CBMC's C semantics, the harness reader (vf_scan) as definition of a well-formed block, stubs for block "
            "mapping/read/write/checksum; for rmdir_p the recording stubs of the library entry points; for inl_* the inode and xattr handle functions "
            "stubbed as a one-attribute store that always succeeds. Not covered: sequences, the real block iterator/allocator under expand_dir, "
            "symlink expansion in namei (inconclusive), rm/rmdir composed with the real library, e2fsck interplay; see 'outside'.",
}
