/*
 * C12/setup_tdb: the per-tool undo set-up functions (the -z call sites):
 *   TOOL 1 misc/mke2fs.c:mke2fs_setup_tdb      TOOL 2 misc/tune2fs.c:tune2fs_setup_tdb
 *   TOOL 3 resize/main.c:resize2fs_setup_tdb   TOOL 4 debugfs/debugfs.c:debugfs_setup_tdb
 *   TOOL 5 e2fsck/unix.c:e2fsck_setup_tdb
 * One call of the real function with symbolic strings (device name, E2FSPROGS_UNDO_DIR
 * value / profile value, -z argument) and symbolic failures of access(), unlink(),
 * set_undo_io_backing_manager(), set_undo_io_backup_file() (pattern P: recording stubs).
 *
 * Reference (man pages mke2fs(8)/tune2fs(8)/resize2fs(8)/e2fsck(8)/debugfs(8), option -z, and
 * the E2FSPROGS_UNDO_DIR paragraphs):
 *  - a non-empty -z argument: the undo manager is stacked on the manager the tool would have
 *    used (backing manager = old *io_ptr, *io_ptr = undo_io_manager) and records to exactly
 *    that file; the file is NOT removed (a chain of runs appends to it) and
 *    E2FSPROGS_UNDO_DIR (even "none") plays no role;
 *  - otherwise the directory is $E2FSPROGS_UNDO_DIR, else the profile's defaults/undo_dir
 *    (mke2fs, e2fsck), else /var/lib/e2fsprogs; "none", "" or a directory that is not
 *    writable disable undo (return 0, *io_ptr untouched, nothing recorded, nothing removed);
 *    else the file is <dir>/<tool>-<basename(device)>.e2undo, it is unlinked first
 *    (ENOENT is fine, any other unlink error is returned and nothing is stacked), then the
 *    managers are stacked as above;
 *  - any failure of the two set_undo_io_* calls (or of an allocation, ALLOCFAIL queries) is
 *    returned as a non-zero value: the callers exit on non-zero and otherwise open the
 *    filesystem read-write with *io_ptr, so a 0 with *io_ptr unchanged after -z is a silent
 *    run without undo;
 *  - the name buffer is large enough for the formatted name incl. its NUL, it is not freed
 *    before set_undo_io_backup_file() has seen it, and only allocated pointers are freed.
 */
#include "config.h"
#include <stdio.h>
#include <stdlib.h>
#include <stdarg.h>
#include <string.h>
#include <strings.h>
#include <unistd.h>
#include <errno.h>
#include <fcntl.h>
#include <libgen.h>
#include <libintl.h>
#include <locale.h>
#include <sys/types.h>
#include <sys/stat.h>
#include "ext2fs/ext2_fs.h"
#include "ext2fs/ext2fs.h"

#ifndef TOOL
#define TOOL 1
#endif
#ifndef ZF
#define ZF 2		/* 0: undo_file NULL, 1: "", 2: non-empty symbolic name */
#endif
#ifndef ENVSET
#define ENVSET 1	/* E2FSPROGS_UNDO_DIR is / is not in the environment */
#endif
#ifndef ALLOCFAIL
#define ALLOCFAIL 0	/* 1: strdup fails, 2: malloc fails */
#endif

char *vf_getenv(const char *n);
int vf_access(const char *p, int mode);
int vf_unlink(const char *p);
char *vf_strdup(const char *s);
void *vf_malloc(size_t n);
void vf_free(void *p);
char *vf_basename(char *p);
int vf_sprintf(char *dst, const char *fmt, ...);

#undef basename
#undef gettext
#define gettext(s) (s)
#define getenv(n) vf_getenv(n)
#define access(p, m) vf_access(p, m)
#define unlink(p) vf_unlink(p)
#define strdup(s) vf_strdup(s)
#define malloc(n) vf_malloc(n)
#define free(p) vf_free(p)
#define basename(p) vf_basename(p)
#define sprintf vf_sprintf
#define printf(...) ((void) 0)
#define main vf_real_main
#if TOOL == 1
#include "misc/mke2fs.c"
#define VF_PREFIX "mke2fs"
#define VF_HAS_PROFILE 1
#elif TOOL == 2
#include "misc/tune2fs.c"
#define VF_PREFIX "tune2fs"
#define VF_HAS_PROFILE 0
#elif TOOL == 3
#include "resize/main.c"
#define VF_PREFIX "resize2fs"
#define VF_HAS_PROFILE 0
#elif TOOL == 4
#include "debugfs/debugfs.c"
#define VF_PREFIX "debugfs"
#define VF_HAS_PROFILE 0
#elif TOOL == 5
#include "e2fsck/unix.c"
#define VF_PREFIX "e2fsck"
#define VF_HAS_PROFILE 1
#else
#error TOOL
#endif
#undef main
#undef getenv
#undef access
#undef unlink
#undef strdup
#undef malloc
#undef free
#undef basename
#undef sprintf
#undef printf

/* BOUND: directory value (environment / profile) of 0..5 characters, device path of 1..5 characters not ending in '/', -z argument of 1..2 characters; all characters symbolic */
#define DIRCAP 6
#define DEVC 6
#define ZFC 3
#define MCAP 48
#define VF_DEFAULT_DIR "/var/lib/e2fsprogs"

struct vf_in {
	char dir[DIRCAP];
	char dev[DEVC];
	char zf[ZFC];
	unsigned char prof_has;		/* the profile has defaults/undo_dir */
	unsigned char acc_fail, unl, fail_backing, fail_file;
};
VF_DECLARE_INPUT(struct vf_in, IN)
#include "vf_input.inc"
#include "env.c"

static struct struct_io_manager vf_unix_mgr, vf_undo_mgr;
io_manager undo_io_manager = &vf_undo_mgr;
#if TOOL != 1 && TOOL != 2
io_manager unix_io_manager = &vf_unix_mgr;
#endif

static int vf_seq, vf_n_backing, vf_n_file, vf_n_unlink, vf_n_access, vf_n_getenv, vf_n_malloc, vf_n_dup;
static int vf_seq_backing, vf_seq_file, vf_seq_unlink;
static io_manager vf_rec_backing;
static char vf_rec_name[MCAP], vf_rec_unlink[MCAP];
static int vf_rec_name_ovf, vf_rec_unlink_ovf;
static char vf_mbuf[MCAP], vf_dupbuf[DEVC], vf_profbuf[MCAP];
static size_t vf_msize;
static int vf_free_m, vf_free_dup, vf_free_prof, vf_badfree, vf_prof_used, vf_fmt_len = -1, vf_fmt_bad;
static const char *vf_dir_eff;	/* the directory string the function is handed */

static void vf_copy_name(char *dst, int *ovf, const char *src)
{
	int k, done = 0;
	for (k = 0; k < MCAP; k++) {
		if (!done) {
			dst[k] = src[k];
			if (src[k] == 0)
				done = 1;
		}
	}
	if (!done)
		*ovf = 1;
}

/* STUB: set_undo_io_backing_manager()/set_undo_io_backup_file() (lib/ext2fs/undo_io.c) record their argument and the call order; each fails on a symbolic bit */
errcode_t set_undo_io_backing_manager(io_manager manager)
{
	vf_n_backing++;
	vf_seq_backing = ++vf_seq;
	vf_rec_backing = manager;
	return (IN.fail_backing & 1) ? EXT2_ET_INVALID_ARGUMENT : 0;
}
errcode_t set_undo_io_backup_file(char *file_name)
{
	vf_n_file++;
	vf_seq_file = ++vf_seq;
	vf_copy_name(vf_rec_name, &vf_rec_name_ovf, file_name);
	return (IN.fail_file & 1) ? EXT2_ET_NO_MEMORY : 0;
}
/* STUB: getenv("E2FSPROGS_UNDO_DIR") returns the symbolic directory string (ENVSET=1) or NULL; other variables are unset */
char *vf_getenv(const char *n)
{
	vf_n_getenv++;
	if (strcmp(n, "E2FSPROGS_UNDO_DIR") != 0)
		return 0;
#if ENVSET
	vf_dir_eff = IN.dir;
	return IN.dir;
#else
	return 0;
#endif
}
#if TOOL == 4
char *ss_safe_getenv(const char *arg) { return vf_getenv(arg); }
#endif
#if VF_HAS_PROFILE
/* STUB: profile_get_string(defaults/undo_dir) returns an ALLOCATED copy of the profile's value (symbolic string, prof_has) or of the default it was handed */
long profile_get_string(profile_t profile, const char *name, const char *subname, const char *subsubname,
			const char *def_val, char **ret_string)
{
	const char *src = (IN.prof_has & 1) ? (const char *) IN.dir : def_val;
	int ovf = 0;
	(void) profile; (void) subsubname;
	PROP(strcmp(name, "defaults") == 0 && strcmp(subname, "undo_dir") == 0, "env: the profile is asked for defaults/undo_dir");
	PROP(strcmp(def_val, VF_DEFAULT_DIR) == 0, "the built-in default undo directory is /var/lib/e2fsprogs");
	vf_copy_name(vf_profbuf, &ovf, src);
	vf_prof_used = 1;
	vf_dir_eff = vf_profbuf;
	*ret_string = vf_profbuf;
	return 0;
}
#endif
/* STUB: access(dir, W_OK) fails on a symbolic bit; unlink() succeeds, fails with ENOENT or fails with EACCES (symbolic) and records its argument */
int vf_access(const char *p, int mode)
{
	vf_n_access++;
	PROP(mode == W_OK, "the undo directory is tested for write permission");
	PROP(p == vf_dir_eff || (vf_dir_eff == 0 && strcmp(p, VF_DEFAULT_DIR) == 0), "the tested directory is the undo directory");
	return (IN.acc_fail & 1) ? -1 : 0;
}
int vf_unlink(const char *p)
{
	vf_n_unlink++;
	vf_seq_unlink = ++vf_seq;
	vf_copy_name(vf_rec_unlink, &vf_rec_unlink_ovf, p);
	if ((IN.unl & 3) == 1) {
		errno = ENOENT;
		return -1;
	}
	if ((IN.unl & 3) == 2) {
		errno = EACCES;
		return -1;
	}
	return 0;
}
/* STUB: strdup/malloc/free hand out two fixed buffers (device-name copy, name buffer) and record sizes and frees; a freed buffer is poisoned so that a use after free shows in the recorded name; ALLOCFAIL makes one of them fail */
char *vf_strdup(const char *s)
{
	int ovf = 0, k, done = 0;
	vf_n_dup++;
#if ALLOCFAIL == 1
	return 0;
#endif
	for (k = 0; k < DEVC; k++)
		if (!done) {
			vf_dupbuf[k] = s[k];
			if (s[k] == 0)
				done = 1;
		}
	PROP(done, "env: the duplicated string is the device name");
	(void) ovf;
	return vf_dupbuf;
}
void *vf_malloc(size_t n)
{
	int k;
	vf_n_malloc++;
#if ALLOCFAIL == 2
	return 0;
#endif
	vf_msize = n;
	for (k = 0; k < MCAP; k++)
		vf_mbuf[k] = 0x5A;
	return vf_mbuf;
}
void vf_free(void *p)
{
	int k;
	if (p == 0)
		return;
	if (p == (void *) vf_mbuf) {
		vf_free_m++;
		for (k = 0; k < MCAP; k++)
			vf_mbuf[k] = 0x5D;
	} else if (p == (void *) vf_dupbuf) {
		vf_free_dup++;
		for (k = 0; k < DEVC; k++)
			vf_dupbuf[k] = 0x5D;
	} else if (p == (void *) vf_profbuf) {
		vf_free_prof++;
	} else
		vf_badfree = 1;
}
/* STUB: basename() (POSIX, libgen.h) of a path that does not end in '/': pointer behind the last '/' */
char *vf_basename(char *p)
{
	int k, last = -1, done = 0;
	for (k = 0; k < DEVC; k++)
		if (!done) {
			if (p[k] == 0)
				done = 1;
			else if (p[k] == '/')
				last = k;
		}
	return p + (last + 1);
}
/* STUB: sprintf() restricted to literal characters and %s; writes through concrete positions, records the formatted length; the size of the destination is CHECKED against it by the harness */
int vf_sprintf(char *dst, const char *fmt, ...)
{
	va_list ap;
	int pos = 0, f, k, p;
	va_start(ap, fmt);
	for (f = 0; fmt[f]; f++) {
		if (fmt[f] == '%' && fmt[f + 1] == 's') {
			const char *s = va_arg(ap, const char *);
			int done = 0;
			for (k = 0; k < MCAP; k++)
				if (!done) {
					char c = s[k];
					if (c == 0)
						done = 1;
					else {
						for (p = 0; p < MCAP; p++)
							if (p == pos)
								dst[p] = c;
						pos++;
					}
				}
			if (!done)
				vf_fmt_bad = 1;
			f++;
		} else {
			if (fmt[f] == '%')
				vf_fmt_bad = 1;
			for (p = 0; p < MCAP; p++)
				if (p == pos)
					dst[p] = fmt[f];
			pos++;
		}
	}
	va_end(ap);
	for (p = 0; p < MCAP; p++)
		if (p == pos)
			dst[p] = 0;
	if (pos >= MCAP)
		vf_fmt_bad = 1;
	if (dst == vf_mbuf)
		vf_fmt_len = pos;
	return pos;
}

/* reference: <dir>/<tool>-<basename(device)>.e2undo */
static char ref_name[MCAP];
static int ref_len;
static void ref_put(char c)
{
	int p;
	for (p = 0; p < MCAP; p++)
		if (p == ref_len)
			ref_name[p] = c;
	ref_len++;
}
static void ref_puts(const char *s, int cap, int from)
{
	int k, done = 0;
	for (k = 0; k < cap; k++)
		if (!done) {
			if (s[k] == 0)
				done = 1;
			else if (k >= from)
				ref_put(s[k]);
		}
}
static int ref_streq(const char *a, const char *b)
{
	int k, eq = 1, done = 0;
	for (k = 0; k < MCAP; k++)
		if (!done) {
			if (a[k] != b[k])
				eq = 0;
			if (a[k] == 0 || b[k] == 0)
				done = 1;
		}
	return eq;
}

int main(void)
{
	io_manager io_ptr = &vf_unix_mgr;
	static const char dflt[] = VF_DEFAULT_DIR;
	const char *dir;
	int rc, k, devlen = 0, slash = -1, disabled, fail;
#if TOOL == 5
	static struct e2fsck_struct vf_ctx;
#endif
	char *zarg;

	VF_INPUT(IN);
	ASSUME(IN.dir[DIRCAP - 1] == 0 && IN.dev[DEVC - 1] == 0 && IN.zf[ZFC - 1] == 0);
	/* ASSUME: the device path is not empty and does not end in '/' (basename() of such paths is libc's business) */
	ASSUME(IN.dev[0] != 0);
	for (k = 0; k < DEVC - 1; k++)
		if (IN.dev[k] != 0 && IN.dev[k + 1] == 0)
			ASSUME(IN.dev[k] != '/');
	for (k = DEVC - 1; k >= 0; k--)
		if (IN.dev[k] == 0)
			devlen = k;
	for (k = 0; k < DEVC; k++)
		if (k < devlen && IN.dev[k] == '/')
			slash = k;
#if ZF == 2
	ASSUME(IN.zf[0] != 0);
	zarg = IN.zf;
#elif ZF == 1
	IN.zf[0] = 0;
	zarg = IN.zf;
#else
	zarg = 0;
#endif

#if TOOL == 1
	undo_file = zarg;
	program_name = "mke2fs";
	rc = mke2fs_setup_tdb(IN.dev, &io_ptr);
#elif TOOL == 2
	undo_file = zarg;
	program_name = "tune2fs";
	rc = tune2fs_setup_tdb(IN.dev, &io_ptr);
#elif TOOL == 3
	program_name = "resize2fs";
	rc = resize2fs_setup_tdb(IN.dev, zarg, &io_ptr);
#elif TOOL == 4
	rc = debugfs_setup_tdb(IN.dev, zarg, &io_ptr);
#else
	vf_ctx.undo_file = zarg;
	vf_ctx.filesystem_name = IN.dev;
	vf_ctx.program_name = "e2fsck";
	rc = e2fsck_setup_tdb(&vf_ctx, &io_ptr);
#endif

	PROP(!vf_badfree, "only allocated pointers are freed (never the getenv() result, the -z argument or the device name)");
	PROP(vf_free_m <= 1 && vf_free_dup <= 1 && vf_free_prof <= 1, "no buffer is freed twice");
	PROP(!vf_fmt_bad && !vf_rec_name_ovf && !vf_rec_unlink_ovf, "env: names stay inside the modelled capacity");
#if ZF == 2
	/* ---- an explicit undo file */
	fail = (IN.fail_backing & 1) || (IN.fail_file & 1);
	PROP(vf_n_unlink == 0, "an explicitly named undo file is not removed (a chain of runs appends to it)");
	PROP(vf_n_access == 0, "an explicitly named undo file does not depend on the undo directory being writable");
	PROP(vf_n_backing == 1 && vf_rec_backing == &vf_unix_mgr, "-z FILE: the manager the tool would have used becomes the backing manager, once");
	if (!(IN.fail_backing & 1)) {
		PROP(io_ptr == undo_io_manager, "-z FILE: the filesystem will be opened through the undo manager");
		PROP(vf_n_file == 1 && vf_seq_backing < vf_seq_file, "-z FILE: the undo file name is set once, after the backing manager");
		PROP(ref_streq(vf_rec_name, IN.zf), "-z FILE: the undo file is exactly the file named with -z (E2FSPROGS_UNDO_DIR, even 'none', plays no role)");
	}
	PROP((rc == 0) == !fail, "-z FILE: success is reported iff both set-up calls succeeded (a failure is never a silent run without undo)");
#else
	/* ---- name derived from the undo directory */
	dir = vf_dir_eff ? vf_dir_eff : dflt;
#if ENVSET
	PROP(!vf_prof_used && vf_dir_eff == IN.dir, "E2FSPROGS_UNDO_DIR, when set, is the undo directory");
#elif VF_HAS_PROFILE
	PROP(vf_prof_used, "without E2FSPROGS_UNDO_DIR the profile's defaults/undo_dir is the undo directory");
#endif
	disabled = ref_streq(dir, "none") || dir[0] == 0 || (IN.acc_fail & 1);
	ref_puts(dir, 20, 0);
	ref_put('/');
	ref_puts(VF_PREFIX, 12, 0);
	ref_put('-');
	ref_puts(IN.dev, DEVC, slash + 1);
	ref_puts(".e2undo", 8, 0);
	ref_put(0);
	if (disabled) {
		PROP(rc == 0 && io_ptr == &vf_unix_mgr && vf_n_backing == 0 && vf_n_file == 0 && vf_n_unlink == 0,
		     "undo directory 'none', empty or not writable: no undo, nothing touched, success");
	} else {
#if ALLOCFAIL
		PROP(rc != 0, "an allocation failure while building the undo file name is reported (not a silent run without undo)");
		PROP(vf_n_backing == 0 && vf_n_file == 0 && io_ptr == &vf_unix_mgr, "allocation failure: nothing stacked");
#else
		PROP(vf_n_dup == 1 && vf_n_malloc == 1, "env: one device-name copy, one name buffer");
		PROP(vf_fmt_len >= 0 && (size_t) vf_fmt_len + 1 <= vf_msize, "the name buffer is large enough for the formatted undo file name and its NUL");
		PROP(vf_n_unlink == 1 && ref_streq(vf_rec_unlink, ref_name), "an existing <dir>/<tool>-<basename(device)>.e2undo is removed first");
		if ((IN.unl & 3) == 2) {
			PROP(rc == EACCES, "an unlink error other than ENOENT is returned");
			PROP(vf_n_backing == 0 && vf_n_file == 0 && io_ptr == &vf_unix_mgr, "unlink error: nothing stacked");
		} else {
			PROP(vf_n_backing == 1 && vf_rec_backing == &vf_unix_mgr && vf_seq_unlink < vf_seq_backing,
			     "the manager the tool would have used becomes the backing manager, once, after the old file was removed");
			if (IN.fail_backing & 1) {
				PROP(rc != 0, "a failing set_undo_io_backing_manager() is reported");
			} else {
				PROP(io_ptr == undo_io_manager, "the filesystem will be opened through the undo manager");
				PROP(vf_n_file == 1 && vf_seq_backing < vf_seq_file, "the undo file name is set once, after the backing manager");
				PROP(ref_streq(vf_rec_name, ref_name), "the undo file is <dir>/<tool>-<basename(device)>.e2undo (and the buffer is still intact when it is handed over)");
				PROP((rc == 0) == !(IN.fail_file & 1), "success is reported iff set_undo_io_backup_file() succeeded");
			}
		}
#endif
	}
#endif
	VF_END();
	return 0;
}
