/*
 * C12/main_undo_resize: resize2fs's main() (resize/main.c) with -z: call order of the undo
 * set-up and the filesystem open (pattern P).  Derived from harness/C13/main_resize.c (same
 * protocol stubs); here ext2fs_open2() additionally RECORDS the io manager it is handed and
 * the set_undo_io_* stubs record their arguments and order.
 *
 * Asserted: with -z FILE in argv every ext2fs_open2() main() performs -- in particular the
 * RW|EXCLUSIVE one of a resizing run -- is handed undo_io_manager, AFTER the backing manager
 * was set to unix_io_manager and the backup file to FILE; if the undo set-up fails main()
 * exits without opening the filesystem at all (no fall-back to plain unix_io).  Without -z
 * the open uses unix_io_manager and the undo manager is never set up.
 */
#include "config.h"
#include <getopt.h>
#include <unistd.h>
#include <stdlib.h>
#include <stdio.h>
#include <string.h>
#include <errno.h>
#include <sys/types.h>
#include <sys/stat.h>
#include <sys/time.h>
#include <fcntl.h>
#include <libgen.h>
#include <libintl.h>
#include <locale.h>
#include "ext2fs/ext2_fs.h"
#include "ext2fs/ext2fs.h"
#include "e2p/e2p.h"

void vf_exit(int code);
int vf_getopt(int argc, char *const argv[], const char *optstring);
int vf_close(int fd);
static char *vf_optarg;
static int vf_optind = 1;
#define exit(c) vf_exit(c)
#define getopt(a, b, c) vf_getopt(a, b, c)
#define optarg vf_optarg
#define optind vf_optind
#define close(fd) vf_close(fd)
#undef gettext
#define gettext(s) (s)
#define setlocale(a, b) ((void) 0)
#define bindtextdomain(a, b) ((void) 0)
#define textdomain(a) ((void) 0)
#define set_com_err_gettext(f) ((void) 0)
#define printf(...) ((void) 0)
#define fprintf(...) ((void) 0)
/* ASSUME: TEST_IO_FLAGS / TEST_IO_BLOCK / E2FSPROGS_UNDO_DIR are not in the environment (the test_io manager is a debugging aid; with it main() stacks undo on test_io instead of unix_io) */
#define getenv(n) ((char *) 0)
#define main vf_real_main
#include "resize/main.c"
#undef main
#undef getenv
#undef exit
#undef close
#undef printf
#undef fprintf

#ifndef ARGS
#define ARGS 1
#endif

struct vf_in {
	int mount_flags;
	unsigned char mount_rc, isreg, rawopen_fails, fstat_fails, sync_fails, undo_fails;
	__u16 state;
	__u32 lastcheck, mtime, last_orphan, feature_incompat, feature_compat;
	__u32 free_blocks, blocks, free_inodes, inodes;
	unsigned long long min_size;
};
VF_DECLARE_INPUT(struct vf_in, IN)
#include "vf_input.inc"
#include "env.c"

static char a_prog[2] = "r", a_dev[2] = "d", a_undo[2] = "u", a_size[4] = "100";
static char o_P[3] = "-P", o_fP[4] = "-fP", o_F[3] = "-F", o_z[3] = "-z", o_PM[4] = "-PM", o_pP[4] = "-pP",
	    o_f[3] = "-f", o_M[3] = "-M";
#if ARGS == 1
static char *vf_argv[] = { a_prog, o_P, a_dev, 0 };
#define IS_P 1
#elif ARGS == 2
static char *vf_argv[] = { a_prog, o_fP, a_dev, 0 };
#define IS_P 1
#elif ARGS == 3
static char *vf_argv[] = { a_prog, o_P, o_F, a_dev, 0 };
#define IS_P 1
#elif ARGS == 4
static char *vf_argv[] = { a_prog, o_P, o_z, a_undo, a_dev, 0 };
#define IS_P 1
#elif ARGS == 5
static char *vf_argv[] = { a_prog, o_PM, a_dev, 0 };
#define IS_P 1
#elif ARGS == 6
static char *vf_argv[] = { a_prog, o_pP, a_dev, a_size, 0 };
#define IS_P 1
#elif ARGS == 10
static char *vf_argv[] = { a_prog, a_dev, 0 };
#define IS_P 0
#elif ARGS == 11
static char *vf_argv[] = { a_prog, o_f, a_dev, a_size, 0 };
#define IS_P 0
#elif ARGS == 12
static char *vf_argv[] = { a_prog, o_M, a_dev, 0 };
#define IS_P 0
#elif ARGS == 13
static char *vf_argv[] = { a_prog, o_z, a_undo, a_dev, 0 };
#define IS_P 0
#define HAS_Z 1
#elif ARGS == 14
static char *vf_argv[] = { a_prog, o_f, o_z, a_undo, a_dev, a_size, 0 };
#define IS_P 0
#define HAS_Z 1
#else
#error ARGS
#endif
#if ARGS == 4
#define HAS_Z 1
#endif
#ifndef HAS_Z
#define HAS_Z 0
#endif
#define VF_ARGC ((int) (sizeof(vf_argv) / sizeof(vf_argv[0])) - 1)

#include "../C13/vf_getopt.h"

static int vf_nrawopen, vf_rawopen_flags, vf_nopen2, vf_open2_flags, vf_nwriters, vf_ended, vf_nclosefs;
static struct struct_ext2_filsys vf_fs;
static struct ext2_super_block vf_sb;
static struct struct_io_manager vf_unix_mgr, vf_undo_mgr;
io_manager unix_io_manager = &vf_unix_mgr;
io_manager undo_io_manager = &vf_undo_mgr;

static int vf_seq, vf_n_backing, vf_n_file, vf_seq_backing, vf_seq_file, vf_seq_open2, vf_open2_bad_mgr, vf_file_is_u;
static io_manager vf_rec_backing;
static void vf_finish(void)
{
	vf_ended = 1;
#if HAS_Z
	PROP(!vf_open2_bad_mgr, "resize2fs -z: every filesystem open goes through the undo io manager");
	if (vf_nopen2) {
		PROP(vf_n_backing == 1 && vf_rec_backing == unix_io_manager && vf_seq_backing < vf_seq_open2,
		     "resize2fs -z: the unix manager was made the backing manager before the filesystem is opened");
		PROP(vf_n_file == 1 && vf_file_is_u && vf_seq_file < vf_seq_open2,
		     "resize2fs -z: the undo file named with -z was set before the filesystem is opened");
		PROP(!(IN.undo_fails & 3), "resize2fs -z: a failed undo set-up never reaches the filesystem open (no fall-back to plain unix_io)");
	}
#else
	PROP(!vf_open2_bad_mgr && vf_n_backing == 0 && vf_n_file == 0, "without -z the filesystem is opened through the unix manager and the undo manager is never set up");
#endif
#if IS_P
	PROP(vf_nrawopen <= 1 && (vf_nrawopen == 0 || (vf_rawopen_flags & O_ACCMODE) == O_RDONLY),
	     "resize2fs -P: the device descriptor is opened O_RDONLY");
	PROP(vf_nopen2 <= 1 && (vf_nopen2 == 0 || !(vf_open2_flags & (EXT2_FLAG_RW | EXT2_FLAG_EXCLUSIVE))),
	     "resize2fs -P: the filesystem open carries neither EXT2_FLAG_RW nor EXT2_FLAG_EXCLUSIVE");
	PROP(vf_nwriters == 0, "resize2fs -P: the run ends without reaching resize_fs/online_resize_fs or another writer");
#else
	if (vf_nopen2 && !(IN.mount_flags & EXT2_MF_MOUNTED))
		PROP((vf_open2_flags & (EXT2_FLAG_RW | EXT2_FLAG_EXCLUSIVE)) == (EXT2_FLAG_RW | EXT2_FLAG_EXCLUSIVE),
		     "control: a resizing run on an unmounted device opens RW|EXCLUSIVE");
#endif
	VF_END();
#ifdef VF_REPLAY
	fflush(0);
	_exit(0);
#else
	__CPROVER_assume(0);
#endif
}
void vf_exit(int code) { (void) code; vf_finish(); }
int vf_close(int fd) { (void) fd; return 0; }

/* STUB: ext2fs_open_file() records the open(2) flags; fstat reports a regular file or a block device; mount state symbolic */
int ext2fs_open_file(const char *pathname, int flags, mode_t mode)
{
	(void) pathname; (void) mode;
	vf_nrawopen++;
	vf_rawopen_flags = flags;
	if (IN.rawopen_fails & 1) { errno = EACCES; return -1; }
	return 5;
}
int ext2fs_fstat(int fd, ext2fs_struct_stat *buf)
{
	(void) fd;
	if (IN.fstat_fails & 1) { errno = EIO; return -1; }
	memset(buf, 0, sizeof(*buf));
	buf->st_mode = (IN.isreg & 1) ? (S_IFREG | 0600) : (S_IFBLK | 0600);
	return 0;
}
errcode_t ext2fs_sync_device(int fd, int flushb) { (void) fd; (void) flushb; return (IN.sync_fails & 1) ? EIO : 0; }
errcode_t ext2fs_check_mount_point(const char *file, int *mount_flags, char *mtpt, int mtlen)
{
	(void) file; (void) mtlen;
	if (IN.mount_rc & 1)
		return EXT2_ET_BAD_DEVICE_NAME;
	*mount_flags = IN.mount_flags;
	mtpt[0] = 0;
	return 0;
}
/* STUB: ext2fs_open2() records the flags; fails (default) or succeeds on a handle with symbolic superblock state (OPEN_OK, -P sets only) */
errcode_t ext2fs_open2(const char *name, const char *io_opts, int flags, int superblock,
		       unsigned int block_size, io_manager manager, ext2_filsys *ret_fs)
{
	(void) name; (void) io_opts; (void) superblock; (void) block_size;
	if (vf_nopen2 == 0)
		vf_seq_open2 = ++vf_seq;	/* the FIRST open */
	if (manager != (HAS_Z ? undo_io_manager : unix_io_manager))
		vf_open2_bad_mgr = 1;
	vf_nopen2++;
	vf_open2_flags = flags;
#if defined(OPEN_OK) && IS_P
	vf_sb.s_state = IN.state;
	vf_sb.s_lastcheck = IN.lastcheck;
	vf_sb.s_mtime = IN.mtime;
	vf_sb.s_last_orphan = IN.last_orphan;
	vf_sb.s_feature_incompat = IN.feature_incompat;
	vf_sb.s_feature_compat = IN.feature_compat;
	vf_sb.s_free_blocks_count = IN.free_blocks;
	vf_sb.s_blocks_count = IN.blocks;
	vf_sb.s_free_inodes_count = IN.free_inodes;
	vf_sb.s_inodes_count = IN.inodes;
	vf_fs.magic = EXT2_ET_MAGIC_EXT2FS_FILSYS;
	vf_fs.super = &vf_sb;
	vf_fs.flags = flags;
	vf_fs.blocksize = 1024;
	*ret_fs = &vf_fs;
	return 0;
#else
	*ret_fs = 0;
	return EXT2_ET_BAD_MAGIC;
#endif
}
errcode_t ext2fs_close_free(ext2_filsys *fs) { *fs = 0; vf_nclosefs++; return 0; }
/* STUB: the minimum-size computation returns a symbolic size (it only reads: resize2fs.c, not encoded); every writer of the resize path is a counter */
blk64_t calculate_minimum_resize_size(ext2_filsys fs, int flags) { (void) fs; (void) flags; return IN.min_size; }
errcode_t resize_fs(ext2_filsys fs, blk64_t *new_size, int flags,
		    errcode_t (*progress)(ext2_resize_t rfs, int pass, unsigned long cur, unsigned long max_val))
{ (void) fs; (void) new_size; (void) flags; (void) progress; vf_nwriters++; return 0; }
errcode_t online_resize_fs(ext2_filsys fs, const char *mtpt, blk64_t *new_size, int flags)
{ (void) fs; (void) mtpt; (void) new_size; (void) flags; vf_nwriters++; return 0; }
errcode_t ext2fs_get_device_size2(const char *file, int blocksize, blk64_t *retblocks)
{ (void) file; (void) blocksize; *retblocks = 0; vf_nwriters++; vf_finish(); return 0; }	/* first call past the -P exit: counted, and the path ends here */
/* STUB: set_undo_io_backing_manager()/set_undo_io_backup_file() record argument and order; each fails on a symbolic bit */
errcode_t set_undo_io_backing_manager(io_manager manager)
{
	vf_n_backing++;
	vf_seq_backing = ++vf_seq;
	vf_rec_backing = manager;
	return (IN.undo_fails & 1) ? ENOMEM : 0;
}
errcode_t set_undo_io_backup_file(char *file_name)
{
	vf_n_file++;
	vf_seq_file = ++vf_seq;
	vf_file_is_u = (file_name[0] == 'u' && file_name[1] == 0);
	return (IN.undo_fails & 2) ? EXT2_ET_NO_MEMORY : 0;
}
errcode_t add_error_table(const struct error_table *et) { (void) et; return 0; }
errcode_t remove_error_table(const struct error_table *et) { (void) et; return 0; }
const struct error_table et_ext2_error_table;

int main(void)
{
	VF_INPUT(IN);
	vf_real_main(VF_ARGC, vf_argv);
	vf_finish();
	return 0;
}
