/*
 * C12/reopen: try_reopen_undo_file() on an undo file built by an independent
 * writer of the format (pattern D), at the scaled undo block size 48 (hook H4:
 * -DE2FSPROGS_VERIF_UNDO_MIN_BLOCK_SIZE=48; KEYS_PER_BLOCK == 2).
 *
 * Accept (DAMAGE=0): a well-formed file with NK keys (fsblk, size symbolic; up to
 * two key blocks) is accepted and recording continues exactly behind the last
 * key, in a state that satisfies the invariant the `capture` harness starts from:
 *   key_blk_num / undo_blk_num where a reader of the file ends, the current key
 *   block in memory, ROOM FOR THE NEXT KEY in it (keys_in_block < KEYS_PER_BLOCK),
 *   block map = exactly the fs-relative undo blocks the keys cover (the same
 *   numbering `capture` uses), num_keys / super / first key block from the header,
 *   only the FINISHED flag cleared.
 * ROUNDTRIP: the file is produced by the REAL write_undo_indexes() from an
 *   in-memory state instead of by the independent writer (accept what it wrote).
 * FOLLOWUP: after the re-open one more block is written through the manager and
 *   the in-memory key block must not be overrun.
 * Reject (DAMAGE=n): one flipped bit at a symbolic position in header magic /
 * any header field or the header crc / feature words / key block / device
 * superblock / sb_crc  => refused, and the device is never written.
 */
#define VF_ALLOC_CONST 48
#include "undo_pre.h"
#include "lib/ext2fs/undo_io.c"
#include "lib/ext2fs/io_manager.c"
#include "env.c"
#define NBLK 6
#define UCAP 12
#include "undo_env.h"

#if E2FSPROGS_VERIF_UNDO_MIN_BLOCK_SIZE != TDS
#error "reopen needs hook H4 with the scaled undo block size"
#endif
#ifndef NK
#define NK 2
#endif
#ifndef FSBS
#define FSBS 16
#endif
#ifndef DAMAGE
#define DAMAGE 0
#endif
#define SBSYM 96
#define NKB ((NK + KPB - 1) / KPB)	/* key blocks in the file */

struct vf_in {
	unsigned char sb[SBSYM];
	unsigned int fsblk[4];
	unsigned int size[4];
	__u32 state, f_compat;
	unsigned long long fs_offset;
	unsigned int flip_byte;
	unsigned char flip_bit;
	unsigned char wblock;		/* FOLLOWUP */
};
VF_DECLARE_INPUT(struct vf_in, IN)
#include "vf_input.inc"

static unsigned char vf_sbfull[SUPERBLOCK_SIZE];
static unsigned long long vf_keyb_store[TDS / 8];

int main(void)
{
	unsigned char exp_w[NW], kbuf[TDS];
	unsigned long long lblk = 2, kpos = 2, exp_kib = 0;
	errcode_t rc;
	int i, j, u;

	VF_INPUT(IN);
	vf_setup_channels(&vf_chan, &vf_data);
	vf_chan.block_size = 1024;		/* undo_open() defaults */
	vf_rchan.block_size = 1024;
	vf_data.undo_blk_num = 3;
	vf_uf_size = UCAP * TDS;
	vf_uchan.block_size = 1024;		/* unix_open default */
	vf_devlen = DEVCAP;

	/* ---- device superblock and its copy in the undo file */
	for (i = 0; i < SBSYM; i++)
		vf_sbfull[i] = vf_sb[i] = IN.sb[i];
	vf_wbase = 0;		/* block map ids: fs-relative undo blocks, as in `capture` */

	/* OFFQ: 0 = no fs offset; 1 = 0 < offset < one undo block; 2 = offset of 1..3 undo blocks (any byte value) */
#ifndef OFFQ
#define OFFQ 0
#endif
#if OFFQ == 0
	ASSUME(IN.fs_offset == 0 && !(IN.f_compat & 1));
#elif OFFQ == 1
	ASSUME(IN.fs_offset > 0 && IN.fs_offset < TDS && (IN.f_compat & 1));
#else
	/* BOUND: (OFFQ=2) fs offset below 3 undo blocks, so that both numberings of the block map fit the modelled window */
	ASSUME(IN.fs_offset >= TDS && IN.fs_offset < 3 * TDS && (IN.f_compat & 1));
#endif
	for (i = 0; i < NW; i++)
		exp_w[i] = 0;
	for (j = 0; j < NK; j++) {
		unsigned long long nb, first;
		/* BOUND: keys of 1..2 undo blocks (the last one of a key may be short) on undo-block boundaries inside a device of NBLK undo blocks */
		ASSUME(IN.size[j] >= 1 && IN.size[j] <= 2 * TDS);
		ASSUME(((unsigned long long) IN.fsblk[j] * FSBS) % TDS == 0);
		nb = ((unsigned long long) IN.size[j] + TDS - 1) / TDS;
		first = (unsigned long long) IN.fsblk[j] * FSBS / TDS;
		ASSUME(first + nb <= NBLK);
		for (i = 0; i < NW; i++)
			if ((unsigned long long) i >= first && (unsigned long long) i < first + nb)
				exp_w[i] = 1;
	}

#ifndef ROUNDTRIP
	/* ---- independent writer: [key block, data of its keys]* from block 2 on */
	for (u = 0; u < NKB; u++) {
		int nj = NK - u * KPB < KPB ? NK - u * KPB : KPB;
		kpos = lblk;
		lblk++;
		for (i = 0; i < TDS; i++)
			kbuf[i] = 0;
		for (j = 0; j < nj; j++) {
			int k = u * KPB + j;
			ref_put_le(kbuf + 16 + 16 * j, 8, IN.fsblk[k]);
			ref_put_le(kbuf + 16 + 16 * j + 8, 4, 0x1234 + k);
			ref_put_le(kbuf + 16 + 16 * j + 12, 4, IN.size[k]);
			lblk += ((unsigned long long) IN.size[k] + TDS - 1) / TDS;
		}
		ref_put_le(kbuf, 4, 0xCADECADEULL);
		ref_put_le(kbuf + 4, 4, ref_crc(~0U, kbuf, TDS));
		for (j = 0; j < UCAP; j++)
			if (kpos == (unsigned long long) j)
				for (i = 0; i < TDS; i++)
					vf_uf[j][i] = kbuf[i];
		exp_kib = nj;
	}
	for (i = 0; i < SBSYM; i++)	/* bytes beyond SBSYM are zero in both (static initialisation) */
		vf_uf_sb[i] = (i == 56 || i == 57) ? (unsigned char) ~vf_sbfull[i] : vf_sbfull[i];
	vf_uf_sb_blk = 1;
	vf_uf_hdr[0] = 'E'; vf_uf_hdr[1] = '2'; vf_uf_hdr[2] = 'U'; vf_uf_hdr[3] = 'N';
	vf_uf_hdr[4] = 'D'; vf_uf_hdr[5] = 'O'; vf_uf_hdr[6] = '0'; vf_uf_hdr[7] = '2';
	ref_put_le(vf_uf_hdr + 8, 8, NK);
	ref_put_le(vf_uf_hdr + 16, 8, 1);
	ref_put_le(vf_uf_hdr + 24, 8, 2);
	ref_put_le(vf_uf_hdr + 32, 4, TDS);
	ref_put_le(vf_uf_hdr + 36, 4, FSBS);
	ref_put_le(vf_uf_hdr + 40, 4, ref_crc(~0U, vf_sbfull, SUPERBLOCK_SIZE));
	ref_put_le(vf_uf_hdr + 44, 4, IN.state);
	ref_put_le(vf_uf_hdr + 48, 4, IN.f_compat);
	ref_put_le(vf_uf_hdr + 64, 8, IN.fs_offset);
	ref_put_le(vf_uf_hdr + 508, 4, ref_crc(~0U, vf_uf_hdr, 508));
#else
	/* ---- the REAL write_undo_indexes() writes the current key block, header and superblock copy
	 * of a recording state with NK (<= KPB) keys in its first key block */
#if NK > KPB
#error "ROUNDTRIP models one key block"
#endif
	{
		static const struct undo_private_data fresh;
		unsigned char *kb = (unsigned char *) vf_keyb_store;
		vf_data.tdb_data_size = TDS;
		vf_data.tdb_written = 1;
		vf_data.keyb = (struct undo_key_block *) vf_keyb_store;
		vf_data.key_blk_num = 2;
		lblk = 3;
		for (j = 0; j < NK; j++) {
			ref_put_le(kb + 16 + 16 * j, 8, IN.fsblk[j]);
			ref_put_le(kb + 16 + 16 * j + 8, 4, 0x1234 + j);
			ref_put_le(kb + 16 + 16 * j + 12, 4, IN.size[j]);
			lblk += ((unsigned long long) IN.size[j] + TDS - 1) / TDS;
		}
		vf_data.undo_blk_num = lblk;
		vf_data.keys_in_block = NK;
		vf_data.num_keys = NK;
		vf_data.offset = (ext2_loff_t) IN.fs_offset;
		vf_data.hdr.block_size = TDS;
		vf_data.hdr.state = IN.state;
		vf_data.hdr.f_compat = IN.f_compat;
		vf_uchan.block_size = TDS;
		vf_rchan.block_size = FSBS;
		rc = write_undo_indexes(&vf_data, 1);
		ASSUME(rc == 0);
		/* a new process: private data as undo_open() initialises it */
		vf_data = fresh;
		vf_setup_channels(&vf_chan, &vf_data);
		vf_data.undo_blk_num = 3;
		vf_chan.block_size = 1024;
		vf_uchan.block_size = 1024;
		vf_rchan.block_size = 1024;
		vf_sb_reads = 0;
		exp_kib = NK;
	}
#endif

	/* ---- damage: one bit, position symbolic */
	ASSUME(IN.flip_bit < 8);
#if DAMAGE == 1		/* header magic */
	ASSUME(IN.flip_byte < 8);
	for (i = 0; i < 8; i++)
		if ((unsigned) i == IN.flip_byte) vf_uf_hdr[i] ^= (unsigned char) (1 << IN.flip_bit);
#elif DAMAGE == 2 || DAMAGE == 7 || DAMAGE == 8
	/* header crc mismatch.  DAMAGE=2: a bit of the crc field itself; DAMAGE=8 (thorough): a bit of sb_crc/state/f_compat/fs_offset; DAMAGE=7 (thorough): a bit of the structural fields num_keys..fs_block_size */
#if DAMAGE == 2
	ASSUME(IN.flip_byte >= 508 && IN.flip_byte < 512);
#elif DAMAGE == 8
	ASSUME((IN.flip_byte >= 40 && IN.flip_byte < 52) || (IN.flip_byte >= 64 && IN.flip_byte < 72));
#else
	ASSUME(IN.flip_byte >= 8 && IN.flip_byte < 40);
#endif
#if DAMAGE != 2		/* (loops are compile-time split: an ASSUME does not keep the other header bytes constant) */
	for (i = 8; i < 72; i++)
		if ((unsigned) i == IN.flip_byte) vf_uf_hdr[i] ^= (unsigned char) (1 << IN.flip_bit);
#endif
	for (i = 508; i < 512; i++)
		if ((unsigned) i == IN.flip_byte) vf_uf_hdr[i] ^= (unsigned char) (1 << IN.flip_bit);
#elif DAMAGE == 3	/* unknown incompat / rocompat feature, header crc valid */
	ASSUME(IN.flip_byte < 8);
	for (i = 0; i < 8; i++)
		if ((unsigned) i == IN.flip_byte) vf_uf_hdr[52 + i] ^= (unsigned char) (1 << IN.flip_bit);
	ref_put_le(vf_uf_hdr + 508, 4, ref_crc(~0U, vf_uf_hdr, 508));
#elif DAMAGE == 4	/* first key block: any bit (magic, crc, reserved, keys) */
	ASSUME(IN.flip_byte < TDS);
	for (i = 0; i < TDS; i++)
		if ((unsigned) i == IN.flip_byte) vf_uf[2][i] ^= (unsigned char) (1 << IN.flip_bit);
#elif DAMAGE == 5	/* the device's superblock differs from the recorded one */
	ASSUME(IN.flip_byte < SBSYM);
	for (i = 0; i < SBSYM; i++)
		if ((unsigned) i == IN.flip_byte) vf_sb[i] ^= (unsigned char) (1 << IN.flip_bit);
#elif DAMAGE == 6	/* sb_crc wrong, header crc valid */
	ASSUME(IN.flip_byte < 4);
	for (i = 0; i < 4; i++)
		if ((unsigned) i == IN.flip_byte) vf_uf_hdr[40 + i] ^= (unsigned char) (1 << IN.flip_bit);
	ref_put_le(vf_uf_hdr + 508, 4, ref_crc(~0U, vf_uf_hdr, 508));
#endif
	vf_uf_writes = 0;
	vf_uf_lowest = ~0ULL;

	vf_getmem_min = SUPERBLOCK_SIZE;
	rc = try_reopen_undo_file(5, &vf_data);
	vf_getmem_min = 0;

	PROP(vf_real_ops == 0, "re-opening never modifies the device");
#if DAMAGE == 0
	PROP(rc == 0, "a well-formed undo file is accepted");
	PROP(vf_data.tdb_data_size == TDS && vf_data.tdb_written == 1, "undo block size taken from the header");
	PROP(vf_data.num_keys == NK && vf_data.super_blk_num == 1 && vf_data.first_key_blk == 2, "header fields taken over");
#if NK > 0 && (NK % KPB) == 0
	/* the last key block of the file is exactly FULL: the writer that filled it had already moved on to a fresh key
	 * block placed directly behind the last key's data (write_undo_indexes), so the re-opened state must be that one */
	PROP(vf_data.key_blk_num == lblk, "full last key block: the next key block goes directly behind the last key's data");
	PROP(vf_data.undo_blk_num == lblk + 1, "full last key block: data recording continues behind the new key block");
	PROP(vf_data.keys_in_block == 0, "full last key block: the new key block is empty");
	for (j = 0; j < 0; j++)
#elif NK > 0
	PROP(vf_data.key_blk_num == kpos, "current key block is the last key block of the file");
	PROP(vf_data.undo_blk_num == lblk, "recording continues directly behind the last key's data");
	PROP(vf_data.keys_in_block == exp_kib, "fill level of the current key block as in the file");
	for (j = 0; j < (int) (NK - (NKB - 1) * KPB); j++)
		PROP(ref_le((unsigned char *) vf_data.keyb + 16 + 16 * j + 12, 4) == IN.size[(NKB - 1) * KPB + j] &&
		     ref_le((unsigned char *) vf_data.keyb + 16 + 16 * j, 8) == IN.fsblk[(NKB - 1) * KPB + j],
		     "keys of the current key block are in memory");
#endif
	PROP(vf_data.keys_in_block < KPB, "Inv of capture: the current key block has room for the next key");
	PROP(vf_data.hdr.state == (IN.state & ~1U), "only the FINISHED flag is cleared");
	PROP(vf_data.hdr.f_compat == IN.f_compat, "compat features kept");
#if OFFQ == 2 && !defined(FOLLOWUP) && !defined(FOLLOWUP_SAVED)
	/* offset >= one undo block: undo_write_tdb() tests id = fs-relative undo block + offset/tdb_data_size (the
	 * convention the capture harness verifies it under); the rebuilt map must use the same ids */
	{
		unsigned long long q = IN.fs_offset / TDS;
		for (i = 0; i < NW; i++) {
			unsigned char want = 0;
			for (j = 0; j < NW; j++)
				if ((unsigned long long) j + q == (unsigned long long) i)
					want = exp_w[j];
			PROP(vf_W[i] == want, "block map rebuilt with the ids undo_write_tdb tests (fs-relative undo block + offset/tdb_data_size)");
		}
	}
#endif
#if OFFQ != 2
	/* offset < one undo block: the file format's numbering (fs-relative) and undo_write_tdb's (absolute) coincide */
	for (i = 0; i < NW; i++)
		PROP(vf_W[i] == exp_w[i], "block map = exactly the undo blocks the recorded keys cover");
#endif
	PROP(!vf_w_oob, "env: block map ids stay inside the modelled window");
#if defined(FOLLOWUP) || defined(FOLLOWUP_SAVED)
	/* The next tool run continues recording: same fs offset (set_option "offset"), one block
	 * written through the manager.  Numbering-independent statement of "the block map was rebuilt
	 * consistently": a block a recorded key covers is NOT saved again, any other block IS saved,
	 * and the in-memory key block (tdb_data_size bytes) is not overrun. */
	vf_data.offset = (ext2_loff_t) IN.fs_offset;
	ASSUME(IN.wblock < NBLK);
	for (i = 0; i < NBLK; i++)
		if (i == IN.wblock) {
#ifdef FOLLOWUP_SAVED
			ASSUME(exp_w[i] == 1);
#else
			ASSUME(exp_w[i] == 0);
#endif
		}
	vf_chan.block_size = TDS;
	vf_rchan.block_size = TDS;
	vf_real_reads = 0;
	vf_light = 1;	/* STUB: during the follow-up write the header / superblock copies are not modelled (index harness) */
	rc = undo_write_blk64(&vf_chan, IN.wblock, 1, kbuf);
	PROP(rc == 0, "follow-up write succeeds");
	PROP(vf_real_ops == 1 && vf_wlo == (unsigned long long) IN.wblock * TDS, "follow-up write reaches the device");
#ifdef FOLLOWUP_SAVED
	PROP(vf_real_reads == 0 && vf_data.num_keys == NK, "after re-open a block recorded by an earlier run is not saved again");
#else
	PROP(vf_real_reads == 1, "after re-open a block no earlier run recorded is saved before it is overwritten");
	PROP(vf_data.keys_in_block <= KPB, "follow-up write: keys stay inside the in-memory key block");
#endif
	PROP(!vf_w_oob, "env: block map ids stay inside the modelled window (follow-up)");
#endif
#elif DAMAGE == 5 || DAMAGE == 6
	PROP(rc == EXT2_ET_UNDO_FILE_WRONG, "undo file of another filesystem state is refused");
#else
	PROP(rc == EXT2_ET_UNDO_FILE_CORRUPT, "a damaged undo file is refused");
#endif
	VF_END();
	return 0;
}
