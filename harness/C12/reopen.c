/* WIP -- NOT REGISTERED in spec.py: at the enforced minimum undo block size (1024) the query needs > 10 GB (see spec.py META.outside).
 * C12/reopen: try_reopen_undo_file() on an undo file built by an independent
 * writer of the format (pattern D), at the REAL minimum undo block size 1024
 * (E2UNDO_MIN_BLOCK_SIZE is enforced by the code under test).
 *
 * Accept: a well-formed file with NK keys (fsblk, size symbolic) is accepted and
 * the manager continues exactly behind the last key: key_blk_num, keys_in_block,
 * undo_blk_num, num_keys as a reader of the file computes them, state loses only
 * the FINISHED bit, and the block map holds exactly the undo blocks the keys
 * cover -- in the id convention undo_write_tdb() uses (absolute device undo block
 * = fs-relative block + fs_offset / blocksize), which the `capture` harness assumes.
 * Reject (DAMAGE=n): damaged header magic / header crc / feature words / key block
 * magic / key block crc / superblock mismatch / sb_crc  => error, nothing written
 * to the device.
 */
#include "undo_pre.h"
#include "lib/ext2fs/undo_io.c"
#include "lib/ext2fs/io_manager.c"
#include "env.c"
#define TDS 1024
#define BS 1024
#define NBLK 5
#define UCAP 4
#include "undo_env.h"

#ifndef NK
#define NK 2
#endif
#ifndef FSBS
#define FSBS 1024
#endif
#ifndef DAMAGE
#define DAMAGE 0
#endif
#define SBSYM 96

struct vf_in {
	unsigned char sb[SBSYM];
	unsigned int fsblk[3];
	unsigned int size[3];
	__u32 state, f_compat;
	unsigned long long fs_offset;
	unsigned char flip_byte, flip_bit;
};
VF_DECLARE_INPUT(struct vf_in, IN)
#include "vf_input.inc"

static unsigned char vf_sbfull[SUPERBLOCK_SIZE];

int main(void)
{
	unsigned char exp_w[NW];
	unsigned long long lblk = 3, Q;
	errcode_t rc;
	int i, j;

	VF_INPUT(IN);
	vf_setup_channels(&vf_chan, &vf_data);
	vf_data.undo_blk_num = 3;		/* undo_open() defaults */
	vf_uf_size = 4096;
	vf_uchan.block_size = 1024;		/* unix_open default */

	/* ---- device superblock and its copy in the undo file */
	for (i = 0; i < SBSYM; i++)
		vf_sbfull[i] = vf_sb[i] = IN.sb[i];
	for (i = 0; i < SUPERBLOCK_SIZE; i++)
		vf_uf_sb[i] = (i == 56 || i == 57) ? (unsigned char) ~vf_sbfull[i] : vf_sbfull[i];
	vf_uf_sb_blk = 1;

	/* ---- offset / frame */
#ifdef WITH_OFFSET
	/* BOUND: fs_offset is a multiple of the undo block size below 2^40 */
	ASSUME(IN.fs_offset >= TDS && IN.fs_offset % TDS == 0 && IN.fs_offset < (1ULL << 40));
	ASSUME(IN.f_compat & 1);
#else
	ASSUME(IN.fs_offset == 0 && !(IN.f_compat & 1));
#endif
	Q = IN.fs_offset / TDS;
	/* ASSUME: block map ids are absolute device undo blocks (fs-relative + fs_offset/blocksize), the convention of undo_write_tdb() */
	vf_wbase = Q;

	/* ---- key block (block 2) with NK keys, independent writer */
	for (i = 0; i < NW; i++)
		exp_w[i] = 0;
	for (j = 0; j < NK; j++) {
		unsigned long long nb, first;
		/* BOUND: keys of 1..2 undo blocks (the last may be short) on undo-block boundaries inside a device of NBLK undo blocks */
		ASSUME(IN.size[j] >= 1 && IN.size[j] <= 2 * TDS);
		ASSUME(((unsigned long long) IN.fsblk[j] * FSBS) % TDS == 0);
		nb = ((unsigned long long) IN.size[j] + TDS - 1) / TDS;
		first = (unsigned long long) IN.fsblk[j] * FSBS / TDS;
		ASSUME(first + nb <= NBLK);
		ref_put_le(&vf_uf[2][16 + 16 * j], 8, IN.fsblk[j]);
		ref_put_le(&vf_uf[2][16 + 16 * j + 8], 4, 0x1234 + j);
		ref_put_le(&vf_uf[2][16 + 16 * j + 12], 4, IN.size[j]);
		lblk += nb;
		for (i = 0; i < NW; i++)
			if ((unsigned long long) i >= first && (unsigned long long) i < first + nb)
				exp_w[i] = 1;
	}
	ref_put_le(&vf_uf[2][0], 4, 0xCADECADEULL);
	ref_put_le(&vf_uf[2][4], 4, ref_crc(~0U, vf_uf[2], TDS));

	/* ---- header */
	vf_uf_hdr[0] = 'E'; vf_uf_hdr[1] = '2'; vf_uf_hdr[2] = 'U'; vf_uf_hdr[3] = 'N';
	vf_uf_hdr[4] = 'D'; vf_uf_hdr[5] = 'O'; vf_uf_hdr[6] = '0'; vf_uf_hdr[7] = '2';
	ref_put_le(vf_uf_hdr + 8, 8, NK);
	ref_put_le(vf_uf_hdr + 16, 8, 1);
	ref_put_le(vf_uf_hdr + 24, 8, 2);
	ref_put_le(vf_uf_hdr + 32, 4, TDS);
	ref_put_le(vf_uf_hdr + 36, 4, FSBS);
	ref_put_le(vf_uf_hdr + 40, 4, ref_crc(~0U, vf_sbfull, SUPERBLOCK_SIZE));
	ref_put_le(vf_uf_hdr + 44, 4, IN.state);
	ref_put_le(vf_uf_hdr + 48, 4, IN.f_compat);
	ref_put_le(vf_uf_hdr + 64, 8, IN.fs_offset);
	ref_put_le(vf_uf_hdr + 508, 4, ref_crc(~0U, vf_uf_hdr, 508));

	/* ---- damage: one bit, position symbolic */
	ASSUME(IN.flip_bit < 8);
#if DAMAGE == 1		/* header magic */
	ASSUME(IN.flip_byte < 8);
	for (i = 0; i < 8; i++)
		if (i == IN.flip_byte) vf_uf_hdr[i] ^= (unsigned char) (1 << IN.flip_bit);
#elif DAMAGE == 2	/* any header field behind the magic (the crc stub folds the first 96 bytes), or the crc field itself */
	ASSUME((IN.flip_byte >= 8 && IN.flip_byte < 72) || IN.flip_byte >= 252);
	for (i = 8; i < 72; i++)
		if (i == IN.flip_byte) vf_uf_hdr[i] ^= (unsigned char) (1 << IN.flip_bit);
	for (i = 0; i < 4; i++)
		if (252 + i == IN.flip_byte) vf_uf_hdr[508 + i] ^= (unsigned char) (1 << IN.flip_bit);
#elif DAMAGE == 3	/* unknown incompat / rocompat feature, header crc valid */
	ASSUME(IN.flip_byte < 8);
	for (i = 0; i < 8; i++)
		if (i == IN.flip_byte) vf_uf_hdr[52 + i] ^= (unsigned char) (1 << IN.flip_bit);
	ref_put_le(vf_uf_hdr + 508, 4, ref_crc(~0U, vf_uf_hdr, 508));
#elif DAMAGE == 4	/* key block: magic, crc field, or a byte of the keys (crc not recomputed) */
	ASSUME(IN.flip_byte < 16 + 16 * NK && !(IN.flip_byte >= 8 && IN.flip_byte < 16));
	for (i = 0; i < 16 + 16 * NK; i++)
		if (i == IN.flip_byte) vf_uf[2][i] ^= (unsigned char) (1 << IN.flip_bit);
#elif DAMAGE == 5	/* the device's superblock differs from the recorded one */
	ASSUME(IN.flip_byte < SBSYM);
	for (i = 0; i < SBSYM; i++)
		if (i == IN.flip_byte) vf_sb[i] ^= (unsigned char) (1 << IN.flip_bit);
#elif DAMAGE == 6	/* sb_crc wrong, header crc valid */
	ASSUME(IN.flip_byte < 4);
	for (i = 0; i < 4; i++)
		if (i == IN.flip_byte) vf_uf_hdr[40 + i] ^= (unsigned char) (1 << IN.flip_bit);
	ref_put_le(vf_uf_hdr + 508, 4, ref_crc(~0U, vf_uf_hdr, 508));
#endif

	rc = try_reopen_undo_file(5, &vf_data);

	PROP(vf_real_ops == 0, "re-opening never modifies the device");
	PROP(vf_rchan.block_size == BS || vf_rchan.block_size == SUPERBLOCK_OFFSET, "backing channel block size is 1024 or restored");
#if DAMAGE == 0
	PROP(rc == 0, "a well-formed undo file is accepted");
	PROP(vf_data.tdb_data_size == TDS && vf_data.tdb_written == 1, "undo block size taken from the header");
	PROP(vf_data.num_keys == NK && vf_data.super_blk_num == 1 && vf_data.first_key_blk == 2, "header fields taken over");
#if NK > 0
	PROP(vf_data.key_blk_num == 2 && vf_data.keys_in_block == NK, "current key block and fill level as in the file");
	PROP(vf_data.undo_blk_num == lblk, "recording continues directly behind the last key's data");
	for (j = 0; j < NK; j++)
		PROP(ref_le((unsigned char *) vf_data.keyb + 16 + 16 * j + 12, 4) == IN.size[j] &&
		     ref_le((unsigned char *) vf_data.keyb + 16 + 16 * j, 8) == IN.fsblk[j], "keys of the current key block are in memory");
#endif
	PROP(vf_data.hdr.state == (IN.state & ~1U), "only the FINISHED flag is cleared");
	PROP(vf_data.hdr.f_compat == IN.f_compat, "compat features kept");
	for (i = 0; i < NW; i++)
		PROP(vf_W[i] == exp_w[i], "block map = exactly the undo blocks the recorded keys cover (ids as undo_write_tdb uses them)");
	PROP(!vf_w_oob, "env: block map ids stay inside the modelled window");
#elif DAMAGE == 5
	PROP(rc == EXT2_ET_UNDO_FILE_WRONG, "undo file of another filesystem state is refused");
#else
	PROP(rc == EXT2_ET_UNDO_FILE_CORRUPT, "a damaged undo file is refused");
#endif
	VF_END();
	return 0;
}
