META = {
    "assumptions": ["allocation failure out of scope (--no-malloc-may-fail)"],
    "outside": [],
}
OPS = {"WRITE": 1, "WRITE_BYTE": 2, "ZEROOUT": 3, "DISCARD": 4}
TDS = 48

def cap(op, bs, maxbytes, cnt=None, offmode=0, nblk=4, **kw):
    span = (maxbytes - 1) // TDS + 2
    d = {"OP": OPS[op], "BS": bs, "MAXNEW": span, "NBLK": nblk, "MAXBYTES": maxbytes,
         "_unwindset": ["undo_write_tdb.0:%d" % (span + 1)]}
    if cnt is not None:
        d["CNT"] = cnt
    if offmode:
        d["OFFMODE"] = offmode
    d.update(kw)
    return d

def cap_cfgs():
    c = []
    c.append(cap("WRITE", 16, 16, cnt=1))
    c.append(cap("WRITE", 16, 64, cnt=4, NO_CRC_CHECK=None))
    c.append(cap("WRITE", 48, 48, cnt=1, NO_CRC_CHECK=None))
    c.append(cap("WRITE_BYTE", 16, 60, NO_CRC_CHECK=None))
    return c

HARNESSES = [
    dict(name="capture", src="capture.c",
         funcs=["undo_write_blk64", "undo_write_tdb", "write_undo_indexes"],
         configs=cap_cfgs(), backends=["default", "kissat"],
         bound="x"),
]
MANIFEST = {"text": "x", "note": "x"}
