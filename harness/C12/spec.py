META = {
    "assumptions": [
        "allocation failure out of scope (--no-malloc-may-fail)",
        "backing channel and undo-file channel are byte-array models (harness/C12/undo_env.h); I/O errors other than the short read at the device end are not injected",
        "written_block_map is a set model (the real bitmap back ends are C16's subject); ext2fs_crc32c_le is a chaining stub (C14)",
        "tdb_data_size is a multiple of the channel block size (keys address the device in channel blocks, so nothing else is representable); geometry scaled: undo block 48 bytes, channel block 16/48 bytes",
        "device bytes carry position tags instead of symbolic data (the undo manager never inspects data)",
        "ext2fs_get_mem/ext2fs_free_mem replaced by pointer-assignment equivalents (planned hook H3, done in the harness)",
    ],
    "outside": [
        "misc/e2undo.c:main (validation before the first write, -n, -f, the forced fsck after an unfinished run): monolithic, needs a hook; its key walk is restated as the reference reader of the capture harness",
        "re-open followed by further recording is covered as re-open (reopen harness) + capture step from the invariant the re-open establishes; the direct follow-up-write queries (FOLLOWUP*) are thorough-tier only and had no verdict within 150 s",
        "chains with a non-zero fs offset: undo_open() validates the superblock before the tool sets the offset, so the tools refuse the second run (fails safe; observed natively)",
        "block size changes between captures (undo_set_blksize: key fsblk is in units of the block size at capture time, the header records only the last one)",
        "keys shortened by the device end that already exist before the step (and their extension after the device grew)",
        "the extent limit is exercised at the scaled values 2 and 3 (hook E2FSPROGS_VERIF_UNDO_MAX_EXTENT_BLOCKS), with the current key exactly at the limit; the real value 512 only enters as the same symbolic comparison",
        "crc VALUES of keys (the crc-chain check is a thorough-tier query only) and of course crc32c itself",
        "tool call sites passing -z; undo_open/undo_close/undo_set_option string parsing",
    ],
}
OPS = {"WRITE": 1, "WRITE_BYTE": 2, "ZEROOUT": 3, "DISCARD": 4}
TDS = 48

def cap(op, bs, maxbytes, cnt=None, offmode=0, nblk=4, **kw):
    span = (maxbytes - 1) // TDS + 2
    d = {"OP": OPS[op], "BS": bs, "MAXNEW": span, "NBLK": nblk, "MAXBYTES": maxbytes,
         "_unwindset": ["undo_write_tdb.0:%d" % (span + 1)]}
    if cnt is not None:
        d["CNT"] = cnt
    if offmode:
        d["OFFMODE"] = offmode
    d.update(kw)
    return d

def cap_cfgs():
    N = {"NO_CRC_CHECK": None}
    T = {"_tier": "thorough"}
    c = []
    c.append(cap("WRITE", 16, 16, cnt=1, **N))
    c.append(cap("WRITE", 16, 64, cnt=4, **N))
    c.append(cap("WRITE", 48, 48, cnt=1, **N))
    c.append(cap("WRITE", 16, 20, cnt=-20, **N, **{"_tier": "thorough"}))
    c.append(cap("WRITE_BYTE", 16, 20, **N))
    c.append(cap("ZEROOUT", 16, 48, **N))
    c.append(cap("DISCARD", 16, 48, **N, **{"_tier": "thorough"}))   # same path as ZEROOUT
    c.append(cap("WRITE", 16, 16, cnt=1, offmode=1, **N, **{"_tier": "thorough"}))   # quick: the write_byte query below covers OFFMODE=1
    c.append(cap("WRITE", 16, 16, cnt=1, BEYOND_END=None, **N))       # fixed by 5d7d5931
    c.append(cap("WRITE_BYTE", 16, 20, offmode=1, OFFBITS=16, **N))               # fixed by b20ebc92 (offset < 2^16; 2^40: thorough)
    c.append(cap("WRITE", 16, 16, cnt=1, offmode=2, OFFBITS=16, **N))             # unaligned offset, no carry
    c.append(cap("WRITE_BYTE", 16, 20, offmode=1, **N, **T))
    c.append(cap("WRITE", 16, 16, cnt=1, offmode=2, **N, **T))
    # KNOWN FINDING (fails on the current tree): unaligned offset, carry case only
    c.append(cap("WRITE", 16, 16, cnt=1, offmode=2, OFF_CARRY=None, **N))
    # extent limit (hook: -DE2FSPROGS_VERIF_UNDO_MAX_EXTENT_BLOCKS=<n> scales E2UNDO_MAX_EXTENT_BLOCKS): the current key holds
    # exactly the limit; AT_LIMIT_SHORT additionally pins the case "next saved block adjacent, device ends inside it"
    X2 = {"E2FSPROGS_VERIF_UNDO_MAX_EXTENT_BLOCKS": 2}
    X3 = {"E2FSPROGS_VERIF_UNDO_MAX_EXTENT_BLOCKS": 3, "K0MAX": 3}
    c.append(cap("WRITE", 16, 16, cnt=1, AT_LIMIT_SHORT=None, **X2, **N))
    c.append(cap("WRITE", 16, 16, cnt=1, AT_LIMIT=None, **X2, **N))
    c.append(cap("WRITE", 48, 48, cnt=1, AT_LIMIT=None, **X2, **N, **T))
    c.append(cap("WRITE", 16, 64, cnt=4, AT_LIMIT=None, **X2, **N, **T))
    c.append(cap("WRITE", 16, 16, cnt=1, nblk=5, AT_LIMIT_SHORT=None, **X3, **N, **T))
    c.append(cap("WRITE", 16, 16, cnt=1, nblk=5, AT_LIMIT=None, **X3, **N, **T))
    c.append(cap("WRITE", 16, 16, cnt=1, **X2, **N, **T))      # limit 2, current key of 0..2 blocks (below and at the limit)
    # short last block of the device opening a NEW key (checksum length = data_size, T-style trace)
    c.append(cap("WRITE", 16, 16, cnt=1, AT_END_NEWKEY=None, **N))
    c.append(cap("WRITE", 48, 48, cnt=1, AT_END_NEWKEY=None, **N, **T))
    # channel block numbers k*2^32 + small, up to 2^40 (address-translating device model): key fsblk is 64 bit
    c.append(cap("WRITE", 16, 16, cnt=1, BIGBLK=None, **N))
    c.append(cap("WRITE", 48, 48, cnt=1, BIGBLK=None, **N, **T))
    c.append(cap("ZEROOUT", 16, 48, BIGBLK=None, **N, **T))
    c.append(cap("WRITE_BYTE", 16, 20, BIGBLK=None, **N, **T))
    # thorough
    c.append(cap("WRITE_BYTE", 16, 60, **N, **T))
    c.append(cap("WRITE", 16, 64, cnt=4, offmode=1, **N, **T))
    c.append(cap("WRITE", 48, 48, cnt=1, offmode=2, **N, **T))
    c.append(cap("WRITE", 48, 96, cnt=2, nblk=5, **N, **T))
    c.append(cap("WRITE", 48, 100, cnt=-100, nblk=5, **N, **T))
    c.append(cap("WRITE", 16, 96, cnt=6, nblk=5, **N, **T))
    c.append(cap("ZEROOUT", 16, 96, nblk=5, **N, **T))
    c.append(cap("WRITE", 16, 16, cnt=1, **T))          # with the crc-chain check
    return c

def reopen_cfgs():
    H4 = {"E2FSPROGS_VERIF_UNDO_MIN_BLOCK_SIZE": 48}
    FU = ["undo_write_tdb.0:3"]
    def uw(nk, extra=()):
        return ["try_reopen_undo_file.0:%d" % (nk + 2), "try_reopen_undo_file.1:%d" % (nk + 2)] + list(extra)
    c = []
    for nk, fsbs in ((0, 16), (1, 16), (3, 16)):
        c.append(dict(H4, NK=nk, FSBS=fsbs, _unwindset=uw(nk)))
    c.append(dict(H4, NK=1, FSBS=48, _unwindset=uw(1), _tier="thorough"))
    c.append(dict(H4, NK=1, FSBS=16, OFFQ=1, _unwindset=uw(1), _tier="thorough"))
    c.append(dict(H4, NK=1, FSBS=16, ROUNDTRIP=None, OFFQ=1, _unwindset=uw(1)))
    # behavioural (numbering-independent) follow-up write after the re-open: no verdict within 150 s on the loaded machine -> thorough
    c.append(dict(H4, NK=1, FSBS=16, FOLLOWUP=None, _unwindset=uw(1, FU), _tier="thorough"))
    c.append(dict(H4, NK=1, FSBS=16, FOLLOWUP_SAVED=None, _unwindset=uw(1, FU), _tier="thorough"))
    for dmg in (1, 2, 3, 4, 5, 6):
        c.append(dict(H4, NK=1, FSBS=16, DAMAGE=dmg, _unwindset=uw(1)))
    c.append(dict(H4, NK=1, FSBS=16, DAMAGE=7, _unwindset=uw(1), _tier="thorough"))
    c.append(dict(H4, NK=1, FSBS=16, DAMAGE=8, _unwindset=uw(1), _tier="thorough"))
    # NOT registered (would alarm on a pre-state no run reaches): re-open with a non-zero fs offset (OFFQ=2, and OFFQ=1 with a
    # follow-up write).  With an offset the rebuilt block map is fs-relative while undo_write_tdb tests absolute ids, so a
    # follow-up write would save a recorded block again / skip an unrecorded one -- but undo_open() runs check_filesystem()
    # BEFORE the tool sets the offset, reads the wrong superblock and refuses ("Wrong undo file for this filesystem"; checked
    # natively with mke2fs -E offset=524288 -z u; tune2fs -z u img?offset=524288), so no tool run re-opens such a file.
    # reopen.c still encodes the case (-DOFFQ=2); see DESIGN.md "Observed, not raised".
    # (b) regression query for a repaired defect (known_findings.txt): a file whose last key block is exactly full (num_keys % KEYS_PER_BLOCK == 0)
    c.append(dict(H4, NK=2, FSBS=16, _unwindset=uw(2)))
    c.append(dict(H4, NK=2, FSBS=16, FOLLOWUP=None, _unwindset=uw(2, FU), _tier="thorough"))
    return c

import importlib.util as _ilu, os as _os
def _e2undo(prop):
    p = _os.path.join(_os.path.dirname(_os.path.abspath(__file__)), "..", "E2UNDO", "spec.py")
    s = _ilu.spec_from_file_location("spec_E2UNDO_for_" + prop, p)
    m = _ilu.module_from_spec(s)
    s.loader.exec_module(m)
    return m.ENTRIES_FOR(prop)
HARNESSES = [
    dict(name="capture", src="capture.c",
         funcs=["undo_write_blk64", "undo_write_tdb", "write_undo_indexes", "undo_io_read_error",
                "io_channel_read_blk64", "io_channel_write_blk64"],
         configs=cap_cfgs(), backends=["default", "kissat"],
         bound="undo block 48 bytes (2 keys per key block), channel block 16 or 48 bytes, device of 4 (thorough: 6) undo blocks "
               "with any byte length, block map / current key block (0-1 keys of 1-2 blocks) / cursor symbolic under Inv; one "
               "operation of 16..100 bytes (size class concrete per query, position symbolic); offset 0, multiple of the undo "
               "block, or arbitrary < 2^40"),
    dict(name="index", src="index.c",
         funcs=["write_undo_indexes"],
         configs=[{"FLUSH": 0}, {"FLUSH": 1}], backends=["default", "kissat"],
         bound="undo block 48 bytes, all 48 key block bytes, 96 superblock bytes, all header-relevant private fields, offset, "
               "channel block size symbolic"),
    dict(name="reopen", src="reopen.c",
         funcs=["try_reopen_undo_file", "check_filesystem", "undo_setup_tdb"],
         configs=reopen_cfgs(), backends=["default", "kissat"],
         cbmc_flags=["--max-field-sensitivity-array-size", "1024"],
         bound="undo block 48 bytes (hook H4), 0..3 keys of 1..2 undo blocks in up to two key blocks, fs block size 16/48, "
               "fs offset 0 or any non-zero value < 2^40, one flipped bit at a symbolic position per damage class"),
]
def _e2fsck_main_undo():
    """e2fsck -z across the restart after journal replay (source harness/C13/main_e2fsck_full.c): every kept open of the device goes
    through the undo manager on every pass through restart:"""
    p = _os.path.join(_os.path.dirname(_os.path.abspath(__file__)), "..", "C13", "spec.py")
    sp = _ilu.spec_from_file_location("spec_C13_for_C12", p)
    m = _ilu.module_from_spec(sp)
    sp.loader.exec_module(m)
    for h in m.HARNESSES:
        if h["name"] == "main_e2fsck_full":
            d = dict(h)
            d["name"] = "e2fsck_main_undo"
            d["src"] = "../C13/main_e2fsck_full.c"
            d["configs"] = [{"RST": 2}, {"RST": 0, "_tier": "thorough"}]
            return [d]
    raise RuntimeError("C13 main_e2fsck_full harness missing")
HARNESSES += _e2fsck_main_undo()
HARNESSES += _e2undo("C12")   # the real main() of misc/e2undo.c (sources in harness/E2UNDO)

MANIFEST = {
    "text": "Bounded-exhaustive inductive step on the undo manager: from every undo state satisfying the stated invariant "
            "(block map, current key block, cursor, device length symbolic) one write / write_byte / zeroout / discard with "
            "symbolic position is executed on the real undo_io.c; the resulting undo file is read back by an independent "
            "reader modelled on e2undo's loader and must restore, for an arbitrary byte, exactly the pre-operation content "
            "exactly once (first write wins), leave earlier records untouched and leave the cursor where a reader of the file "
            "ends. write_undo_indexes is compared field by field with the file format for all inputs. Re-open, e2undo's "
            "own validation and multi-tool chains are outside.",
    "note": "Trusted: CBMC's C semantics, the two channel models, the set model of the block map, the chaining crc stub, "
            "the scaled geometry (48-byte undo blocks, 2 keys per key block). Two queries fail on the current tree: "
            "capture[..OFFMODE=2,OFF_CARRY..] (known finding: offsets that are not a multiple of tdb_data_size shift the "
            "captured range) and reopen[..NK=2..] (re-opening a file whose last key block is exactly full leaves no room "
            "for the next key: key block overrun, e2undo then reports a wrong key magic).",
}
