META = {
    "assumptions": ["allocation failure out of scope (--no-malloc-may-fail)"],
    "outside": [],
}
OPS = {"WRITE": 1, "WRITE_BYTE": 2, "ZEROOUT": 3, "DISCARD": 4}
TDS = 48

def cap(op, bs, maxbytes, cnt=None, offmode=0, nblk=4, **kw):
    span = (maxbytes - 1) // TDS + 2
    d = {"OP": OPS[op], "BS": bs, "MAXNEW": span, "NBLK": nblk, "MAXBYTES": maxbytes,
         "_unwindset": ["undo_write_tdb.0:%d" % (span + 1)]}
    if cnt is not None:
        d["CNT"] = cnt
    if offmode:
        d["OFFMODE"] = offmode
    d.update(kw)
    return d

def cap_cfgs():
    N = {"NO_CRC_CHECK": None}
    T = {"_tier": "thorough"}
    c = []
    c.append(cap("WRITE", 16, 16, cnt=1, **N))
    c.append(cap("WRITE", 16, 64, cnt=4, **N))
    c.append(cap("WRITE", 48, 48, cnt=1, **N))
    c.append(cap("WRITE", 16, 20, cnt=-20, **N))
    c.append(cap("WRITE_BYTE", 16, 60, **N))
    c.append(cap("ZEROOUT", 16, 48, **N))
    c.append(cap("DISCARD", 16, 48, **N))
    c.append(cap("WRITE", 16, 64, cnt=4, offmode=1, **N))
    # the three queries below fail on the unchanged tree (genuine defects, see final report)
    c.append(cap("WRITE", 16, 16, cnt=1, BEYOND_END=None, **N))
    c.append(cap("WRITE_BYTE", 16, 20, offmode=1, **N))
    c.append(cap("WRITE", 16, 16, cnt=1, offmode=2, **N))
    # thorough
    c.append(cap("WRITE", 48, 48, cnt=1, offmode=2, **N, **T))
    c.append(cap("WRITE", 48, 96, cnt=2, nblk=6, **N, **T))
    c.append(cap("WRITE", 48, 100, cnt=-100, nblk=6, **N, **T))
    c.append(cap("WRITE", 16, 96, cnt=6, nblk=6, **N, **T))
    c.append(cap("ZEROOUT", 16, 96, nblk=6, **N, **T))
    c.append(cap("WRITE", 16, 16, cnt=1, **T))          # with the crc-chain check
    return c

def reopen_cfgs():
    c = []
    def uw(nk):
        return ["try_reopen_undo_file.0:%d" % (nk + 1), "try_reopen_undo_file.1:3", "undo_setup_tdb.0:4"]
    for nk in (0, 2):
        c.append({"NK": nk, "FSBS": 1024, "_unwindset": uw(nk)})
    c.append({"NK": 3, "FSBS": 4096, "_unwindset": uw(3)})
    for dmg in (1, 2, 3, 4, 5, 6):
        c.append({"NK": 1, "FSBS": 1024, "DAMAGE": dmg, "_unwindset": uw(1)})
    # fails on the unchanged tree (genuine defect: block map rebuilt fs-relative, used absolute)
    c.append({"NK": 2, "FSBS": 1024, "WITH_OFFSET": None, "_unwindset": uw(2)})
    return c

HARNESSES = [
    dict(name="capture", src="capture.c",
         funcs=["undo_write_blk64", "undo_write_tdb", "write_undo_indexes", "undo_io_read_error",
                "io_channel_read_blk64", "io_channel_write_blk64"],
         configs=cap_cfgs(), backends=["default", "kissat"],
         bound="undo block 48 bytes (2 keys per key block), channel block 16 or 48 bytes, device of 4 (thorough: 6) undo blocks "
               "with any byte length, block map / current key block (0-1 keys of 1-2 blocks) / cursor symbolic under Inv; one "
               "operation of 16..100 bytes (size class concrete per query, position symbolic); offset 0, multiple of the undo "
               "block, or arbitrary < 2^40"),
    dict(name="index", src="index.c",
         funcs=["write_undo_indexes"],
         configs=[{"FLUSH": 0}, {"FLUSH": 1}], backends=["default", "kissat"],
         bound="undo block 48 bytes, all 48 key block bytes, 96 superblock bytes, all header-relevant private fields, offset, "
               "channel block size symbolic"),
    dict(name="reopen", src="reopen.c",
         funcs=["try_reopen_undo_file", "check_filesystem", "undo_setup_tdb"],
         configs=reopen_cfgs(), backends=["default", "kissat"],
         bound="real undo block size 1024, 0..3 keys of 1..2 undo blocks in one key block, fs block size 1024/4096, "
               "one flipped bit at a symbolic position per damage class"),
]
MANIFEST = {"text": "x", "note": "x"}
