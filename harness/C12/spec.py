META = {
    "assumptions": [
        "allocation failure out of scope (--no-malloc-may-fail)",
        "backing channel and undo-file channel are byte-array models (harness/C12/undo_env.h); I/O errors other than the short read at the device end are not injected",
        "written_block_map is a set model (the real bitmap back ends are C16's subject); ext2fs_crc32c_le is a chaining stub (C14)",
        "tdb_data_size is a multiple of the channel block size (keys address the device in channel blocks, so nothing else is representable); geometry scaled: undo block 48 bytes, channel block 16/48 bytes",
        "device bytes carry position tags instead of symbolic data (the undo manager never inspects data)",
        "ext2fs_get_mem/ext2fs_free_mem replaced by pointer-assignment equivalents (planned hook H3, done in the harness)",
        "setup_tdb_*: getenv/profile_get_string/access/unlink/strdup/malloc/free/basename/sprintf(%s only) and the two set_undo_io_* "
        "entry points are recording stubs (harness/C12/setup_tdb.c); strings are 0..5 symbolic characters (plus the built-in "
        "/var/lib/e2fsprogs), device paths do not end in '/'; allocation failure IS injected there (ALLOCFAIL queries) for every tool",
        "chanops: both channels below the undo manager are recording stubs with one injected failure per query",
    ],
    "outside": [
        "misc/e2undo.c:main (validation before the first write, -n, -f, the forced fsck after an unfinished run): monolithic, needs a hook; its key walk is restated as the reference reader of the capture harness",
        "re-open followed by further recording is covered as re-open (reopen harness) + capture step from the invariant the re-open establishes; the direct follow-up-write queries (FOLLOWUP*) are thorough-tier only and had no verdict within 150 s",
        "chains with a non-zero fs offset: undo_open() validates the superblock before the tool sets the offset, so the tools refuse the second run (fails safe; observed natively)",
        "block size changes between captures: undo_set_blksize itself is decided by chanops_setblk (the undo block size is frozen by the "
        "first capture or the tdb_data_size option); what stays outside is the HISTORY effect: key fsblk is in units of the channel block "
        "size at capture time while the header records only the last one, and a channel block size that does not divide the frozen "
        "undo block size (first capture at 1 KiB, later writes at 4 KiB) -- no tool run was found that does this (only mke2fs writes "
        "the superblock through set_blksize(1024)+write_blk64, and it fixes tdb_data_size by option first)",
        "keys shortened by the device end that already exist before the step (and their extension after the device grew)",
        "the extent limit is exercised at the scaled values 2 and 3 (hook E2FSPROGS_VERIF_UNDO_MAX_EXTENT_BLOCKS), with the current key exactly at the limit; the real value 512 only enters as the same symbolic comparison",
        "crc VALUES of keys (the crc-chain check is a thorough-tier query only) and of course crc32c itself",
        "tool call sites: the five *_setup_tdb functions are decided by setup_tdb_*; that the caller runs them before the filesystem is opened and "
        "hands the resulting manager to every open is decided for e2fsck (e2fsck_main_undo), resize2fs (main_undo_resize) and debugfs "
        "(debugfs_open_undo), but NOT asserted for mke2fs main() (C13 main_mke2fs encodes the call without recording the manager) and "
        "tune2fs main() (close + retry_open with the new manager; no main harness exists); e2undo_setup_tdb; a non-writable "
        "default undo directory silently disabling undo for tune2fs -I / mke2fs force_undo is the documented design, not checked as a fault",
        "undo_open/undo_set_option string parsing, undo_flush, undo_get_stats",
    ],
}
OPS = {"WRITE": 1, "WRITE_BYTE": 2, "ZEROOUT": 3, "DISCARD": 4}
TDS = 48

def cap(op, bs, maxbytes, cnt=None, offmode=0, nblk=4, **kw):
    span = (maxbytes - 1) // TDS + 2
    d = {"OP": OPS[op], "BS": bs, "MAXNEW": span, "NBLK": nblk, "MAXBYTES": maxbytes,
         "_unwindset": ["undo_write_tdb.0:%d" % (span + 1)]}
    if cnt is not None:
        d["CNT"] = cnt
    if offmode:
        d["OFFMODE"] = offmode
    d.update(kw)
    return d

def cap_cfgs():
    N = {"NO_CRC_CHECK": None}
    T = {"_tier": "thorough"}
    c = []
    c.append(cap("WRITE", 16, 16, cnt=1, **N))
    c.append(cap("WRITE", 16, 64, cnt=4, **N))
    c.append(cap("WRITE", 48, 48, cnt=1, **N))
    c.append(cap("WRITE", 16, 20, cnt=-20, **N, **{"_tier": "thorough"}))
    c.append(cap("WRITE_BYTE", 16, 20, **N))
    c.append(cap("ZEROOUT", 16, 48, **N))
    c.append(cap("DISCARD", 16, 48, **N))   # own ordering (capture BEFORE the backing discard): quick tier since seeded change C12_m10
    c.append(cap("WRITE", 16, 16, cnt=1, offmode=1, **N, **{"_tier": "thorough"}))   # quick: the write_byte query below covers OFFMODE=1
    c.append(cap("WRITE", 16, 16, cnt=1, BEYOND_END=None, **N))       # fixed by 5d7d5931
    c.append(cap("WRITE_BYTE", 16, 20, offmode=1, OFFBITS=16, **N))               # fixed by b20ebc92 (offset < 2^16; 2^40: thorough)
    c.append(cap("WRITE", 16, 16, cnt=1, offmode=2, OFFBITS=16, **N))             # unaligned offset, no carry
    c.append(cap("WRITE_BYTE", 16, 20, offmode=1, **N, **T))
    c.append(cap("WRITE", 16, 16, cnt=1, offmode=2, **N, **T))
    # KNOWN FINDING (fails on the current tree): unaligned offset, carry case only
    c.append(cap("WRITE", 16, 16, cnt=1, offmode=2, OFF_CARRY=None, **N))
    # extent limit (hook: -DE2FSPROGS_VERIF_UNDO_MAX_EXTENT_BLOCKS=<n> scales E2UNDO_MAX_EXTENT_BLOCKS): the current key holds
    # exactly the limit; AT_LIMIT_SHORT additionally pins the case "next saved block adjacent, device ends inside it"
    X2 = {"E2FSPROGS_VERIF_UNDO_MAX_EXTENT_BLOCKS": 2}
    X3 = {"E2FSPROGS_VERIF_UNDO_MAX_EXTENT_BLOCKS": 3, "K0MAX": 3}
    c.append(cap("WRITE", 16, 16, cnt=1, AT_LIMIT_SHORT=None, **X2, **N))
    c.append(cap("WRITE", 16, 16, cnt=1, AT_LIMIT=None, **X2, **N))
    c.append(cap("WRITE", 48, 48, cnt=1, AT_LIMIT=None, **X2, **N, **T))
    c.append(cap("WRITE", 16, 64, cnt=4, AT_LIMIT=None, **X2, **N, **T))
    c.append(cap("WRITE", 16, 16, cnt=1, nblk=5, AT_LIMIT_SHORT=None, **X3, **N, **T))
    c.append(cap("WRITE", 16, 16, cnt=1, nblk=5, AT_LIMIT=None, **X3, **N, **T))
    c.append(cap("WRITE", 16, 16, cnt=1, **X2, **N, **T))      # limit 2, current key of 0..2 blocks (below and at the limit)
    # short last block of the device opening a NEW key (checksum length = data_size, T-style trace)
    c.append(cap("WRITE", 16, 16, cnt=1, AT_END_NEWKEY=None, **N))
    c.append(cap("WRITE", 48, 48, cnt=1, AT_END_NEWKEY=None, **N, **T))
    # channel block numbers k*2^32 + small, up to 2^40 (address-translating device model): key fsblk is 64 bit
    c.append(cap("WRITE", 16, 16, cnt=1, BIGBLK=None, **N))
    c.append(cap("WRITE", 48, 48, cnt=1, BIGBLK=None, **N, **T))
    c.append(cap("ZEROOUT", 16, 48, BIGBLK=None, **N, **T))
    c.append(cap("WRITE_BYTE", 16, 20, BIGBLK=None, **N, **T))
    # thorough
    c.append(cap("WRITE_BYTE", 16, 60, **N, **T))
    c.append(cap("WRITE", 16, 64, cnt=4, offmode=1, **N, **T))
    c.append(cap("WRITE", 48, 48, cnt=1, offmode=2, **N, **T))
    c.append(cap("WRITE", 48, 96, cnt=2, nblk=5, **N, **T))
    c.append(cap("WRITE", 48, 100, cnt=-100, nblk=5, **N, **T))
    c.append(cap("WRITE", 16, 96, cnt=6, nblk=5, **N, **T))
    c.append(cap("ZEROOUT", 16, 96, nblk=5, **N, **T))
    c.append(cap("WRITE", 16, 16, cnt=1, **T))          # with the crc-chain check
    return c

def reopen_cfgs():
    H4 = {"E2FSPROGS_VERIF_UNDO_MIN_BLOCK_SIZE": 48}
    FU = ["undo_write_tdb.0:3"]
    def uw(nk, extra=()):
        return ["try_reopen_undo_file.0:%d" % (nk + 2), "try_reopen_undo_file.1:%d" % (nk + 2)] + list(extra)
    c = []
    for nk, fsbs in ((0, 16), (1, 16), (3, 16)):
        c.append(dict(H4, NK=nk, FSBS=fsbs, _unwindset=uw(nk)))
    c.append(dict(H4, NK=1, FSBS=48, _unwindset=uw(1), _tier="thorough"))
    c.append(dict(H4, NK=1, FSBS=16, OFFQ=1, _unwindset=uw(1), _tier="thorough"))
    c.append(dict(H4, NK=1, FSBS=16, ROUNDTRIP=None, OFFQ=1, _unwindset=uw(1)))
    # behavioural (numbering-independent) follow-up write after the re-open: no verdict within 150 s on the loaded machine -> thorough
    c.append(dict(H4, NK=1, FSBS=16, FOLLOWUP=None, _unwindset=uw(1, FU), _tier="thorough"))
    c.append(dict(H4, NK=1, FSBS=16, FOLLOWUP_SAVED=None, _unwindset=uw(1, FU), _tier="thorough"))
    for dmg in (1, 2, 3, 4, 5, 6):
        c.append(dict(H4, NK=1, FSBS=16, DAMAGE=dmg, _unwindset=uw(1)))
    c.append(dict(H4, NK=1, FSBS=16, DAMAGE=7, _unwindset=uw(1), _tier="thorough"))
    c.append(dict(H4, NK=1, FSBS=16, DAMAGE=8, _unwindset=uw(1), _tier="thorough"))
    # NOT registered (would alarm on a pre-state no run reaches): re-open with a non-zero fs offset (OFFQ=2, and OFFQ=1 with a
    # follow-up write).  With an offset the rebuilt block map is fs-relative while undo_write_tdb tests absolute ids, so a
    # follow-up write would save a recorded block again / skip an unrecorded one -- but undo_open() runs check_filesystem()
    # BEFORE the tool sets the offset, reads the wrong superblock and refuses ("Wrong undo file for this filesystem"; checked
    # natively with mke2fs -E offset=524288 -z u; tune2fs -z u img?offset=524288), so no tool run re-opens such a file.
    # reopen.c still encodes the case (-DOFFQ=2); see DESIGN.md "Observed, not raised".
    # (b) regression query for a repaired defect (known_findings.txt): a file whose last key block is exactly full (num_keys % KEYS_PER_BLOCK == 0)
    c.append(dict(H4, NK=2, FSBS=16, _unwindset=uw(2)))
    c.append(dict(H4, NK=2, FSBS=16, FOLLOWUP=None, _unwindset=uw(2, FU), _tier="thorough"))
    return c

import importlib.util as _ilu, os as _os
def _e2undo(prop):
    p = _os.path.join(_os.path.dirname(_os.path.abspath(__file__)), "..", "E2UNDO", "spec.py")
    s = _ilu.spec_from_file_location("spec_E2UNDO_for_" + prop, p)
    m = _ilu.module_from_spec(s)
    s.loader.exec_module(m)
    return m.ENTRIES_FOR(prop)
HARNESSES = [
    dict(name="capture", src="capture.c",
         funcs=["undo_write_blk64", "undo_write_tdb", "write_undo_indexes", "undo_io_read_error",
                "io_channel_read_blk64", "io_channel_write_blk64"],
         configs=cap_cfgs(), backends=["default", "kissat"],
         bound="undo block 48 bytes (2 keys per key block), channel block 16 or 48 bytes, device of 4 (thorough: 6) undo blocks "
               "with any byte length, block map / current key block (0-1 keys of 1-2 blocks) / cursor symbolic under Inv; one "
               "operation of 16..100 bytes (size class concrete per query, position symbolic); offset 0, multiple of the undo "
               "block, or arbitrary < 2^40"),
    dict(name="index", src="index.c",
         funcs=["write_undo_indexes"],
         configs=[{"FLUSH": 0}, {"FLUSH": 1}], backends=["default", "kissat"],
         bound="undo block 48 bytes, all 48 key block bytes, 96 superblock bytes, all header-relevant private fields, offset, "
               "channel block size symbolic"),
    dict(name="reopen", src="reopen.c",
         funcs=["try_reopen_undo_file", "check_filesystem", "undo_setup_tdb"],
         configs=reopen_cfgs(), backends=["default", "kissat"],
         cbmc_flags=["--max-field-sensitivity-array-size", "1024"],
         bound="undo block 48 bytes (hook H4), 0..3 keys of 1..2 undo blocks in up to two key blocks, fs block size 16/48, "
               "fs offset 0 or any non-zero value < 2^40, one flipped bit at a symbolic position per damage class"),
]
def _e2fsck_main_undo():
    """e2fsck -z across the restart after journal replay (source harness/C13/main_e2fsck_full.c): every kept open of the device goes
    through the undo manager on every pass through restart:"""
    p = _os.path.join(_os.path.dirname(_os.path.abspath(__file__)), "..", "C13", "spec.py")
    sp = _ilu.spec_from_file_location("spec_C13_for_C12", p)
    m = _ilu.module_from_spec(sp)
    sp.loader.exec_module(m)
    for h in m.HARNESSES:
        if h["name"] == "main_e2fsck_full":
            d = dict(h)
            d["name"] = "e2fsck_main_undo"
            d["src"] = "../C13/main_e2fsck_full.c"
            d["configs"] = [{"RST": 2}, {"RST": 0, "_tier": "thorough"}]
            return [d]
    raise RuntimeError("C13 main_e2fsck_full harness missing")
HARNESSES += _e2fsck_main_undo()
HARNESSES += _e2undo("C12")   # the real main() of misc/e2undo.c (sources in harness/E2UNDO)

# ---- hx wave: the tools' -z call sites (setup_tdb) and the remaining undo_io.c channel operations (chanops)
TOOLS = {"mke2fs": 1, "tune2fs": 2, "resize2fs": 3, "debugfs": 4, "e2fsck": 5}
SETUP_FUNCS = {1: "mke2fs_setup_tdb", 2: "tune2fs_setup_tdb", 3: "resize2fs_setup_tdb", 4: "debugfs_setup_tdb", 5: "e2fsck_setup_tdb"}
def setup_cfgs(tool):
    c = [dict(TOOL=tool, ZF=2, ENVSET=1), dict(TOOL=tool, ZF=1, ENVSET=1), dict(TOOL=tool, ZF=1, ENVSET=0)]
    # allocation failure while the name is built (strdup / malloc return NULL) must be reported, not end in a run without undo.
    # (tune2fs_setup_tdb returned 0 here on the pinned tree: repaired by fix: 86bcb965, see known_findings.txt)
    c += [dict(TOOL=tool, ZF=1, ENVSET=1, ALLOCFAIL=1), dict(TOOL=tool, ZF=1, ENVSET=1, ALLOCFAIL=2)]
    if tool == 1:
        c.append(dict(TOOL=tool, ZF=0, ENVSET=1))     # mke2fs alone calls it with undo_file == NULL (should_do_undo)
    return c
SETUP_UNWINDSET = ["strlen.0:21", "strcmp.0:21"]
for _t, _n in sorted(TOOLS.items(), key=lambda kv: kv[1]):
    HARNESSES.append(dict(name="setup_tdb_" + _t, src="setup_tdb.c", funcs=[SETUP_FUNCS[_n]],
         configs=setup_cfgs(_n), unwind=50, unwindset=SETUP_UNWINDSET, backends=["default", "kissat"], cap_quick=300,
         bound="one call; undo directory string (environment or profile) of 0..5 symbolic characters or the built-in default, device "
               "path of 1..5 symbolic characters not ending in '/', -z argument NULL / empty / 1..2 symbolic characters; access, "
               "unlink (ok / ENOENT / EACCES) and both set_undo_io_* calls fail symbolically"))

CHANOPS_BOUND = ("one call; set_blksize: tdb_data_size < 2^32, tdb_written -1/0/1, any int block size, backing failure symbolic; read: any "
           "block/count; close: 0..2 keys in the current key block, reference count 1..2, header state word symbolic, one injected "
           "failure per query (key block / header / superblock copy write, flush, device close, superblock read)")
for _n, _f, _c in (("chanops_setblk", ["undo_set_blksize"], [dict(OP=1)]),
                   ("chanops_setopt", ["undo_set_option"], [dict(OP=4, ARG=a) for a in range(6)]),
                   ("chanops_read", ["undo_read_blk64", "undo_read_blk"], [dict(OP=2, READ32=None), dict(OP=2)]),
                   ("chanops_close", ["undo_close", "write_undo_indexes"],
                    [dict(OP=3, FAIL=f) for f in (0, 1, 2, 3, 4, 5, 6)] + [dict(OP=3, FAIL=0, SIMUNF=None)])):
    HARNESSES.append(dict(name=_n, src="chanops.c", funcs=_f, configs=_c, unwind=10, backends=["default", "kissat"],
                          cap_quick=300, bound=CHANOPS_BOUND))
for _h in HARNESSES:
    if _h["name"] == "chanops_setopt":
        _h["unwindset"] = ["strcmp.0:16", "vf_strtoul.0:12"]
        _h["bound"] = ("undo_set_option(\"tdb_data_size\") with six concrete argument strings (valid 4096 / 1024, refused 512 / 2 MiB, "
                       "malformed, NULL) from any tdb_data_size < 2^32 and any capture state (-1 fixed by option, 0 nothing captured, 1 file set up / re-opened)")

HARNESSES.append(dict(name="main_undo_resize", src="main_undo_resize.c",
     extra_src=["lib/ext2fs/blknum.c"],
     funcs=["vf_real_main", "resize2fs_setup_tdb", "vf_getopt"],
     configs=[{"ARGS": a} for a in (13, 14, 4, 10)],
     unwind=8, unwindset=["vf_getopt.0:16", "vf_real_main.0:8", "vf_real_main.1:3"],
     backends=["default", "kissat"], cap_quick=300,
     bound="argv: {-z u d}, {-f -z u d 100}, {-P -z u d} (+ control {d}); mount flags, file type, raw open/fstat/sync failures and "
           "failures of both set_undo_io_* calls symbolic; the run is followed up to the first ext2fs_open2() (which fails) / exit"))

HARNESSES.append(dict(name="debugfs_open_undo", src="debugfs_open_undo.c",
     funcs=["open_filesystem", "debugfs_setup_tdb"],
     configs=[{"UNDO": 1}, {"UNDO": 0}], unwind=6,
     backends=["default", "kissat"], cap_quick=300,
     bound="one open_filesystem() call: open flags, catastrophic, superblock/blocksize symbolic, no data file, undo file 'u' or none; "
           "ext2fs_open fails / asks for the checksum retry / succeeds, bitmaps read and both set_undo_io_* calls fail symbolically"))

MANIFEST = {
    "text": "Bounded-exhaustive inductive step on the undo manager: from every undo state satisfying the stated invariant "
            "(block map, current key block, cursor, device length symbolic) one write / write_byte / zeroout / discard with "
            "symbolic position is executed on the real undo_io.c; the resulting undo file is read back by an independent "
            "reader modelled on e2undo's loader and must restore, for an arbitrary byte, exactly the pre-operation content "
            "exactly once (first write wins), leave earlier records untouched and leave the cursor where a reader of the file "
            "ends. write_undo_indexes is compared field by field with the file format for all inputs. Re-open, e2undo's "
            "own validation and multi-tool chains are outside. setup_tdb_{mke2fs,tune2fs,resize2fs,debugfs,e2fsck}: one call of each "
            "tool's real undo set-up function with symbolic strings and failures: -z FILE stacks the undo manager on the tool's "
            "manager and records to exactly FILE without removing it; otherwise <dir>/<tool>-<basename(device)>.e2undo is built in "
            "a large-enough buffer, removed, then used; 'none'/empty/unwritable directory disables; every failing step is returned. "
            "chanops: undo_set_blksize freezes the undo block size at the first capture, undo_read_blk64/undo_read_blk are pure "
            "pass-through, undo_close writes key block, header (FINISHED) and superblock copy and flushes before closing, closes "
            "both channels once and returns index errors. main_undo_resize / debugfs_open_undo: resize2fs main() and debugfs "
            "open_filesystem() hand undo_io_manager to every filesystem open after a complete undo set-up and exit when it fails.",
    "note": "Trusted: CBMC's C semantics, the two channel models, the set model of the block map, the chaining crc stub, "
            "the scaled geometry (48-byte undo blocks, 2 keys per key block). Two queries fail on the current tree: "
            "capture[..OFFMODE=2,OFF_CARRY..] (known finding: offsets that are not a multiple of tdb_data_size shift the "
            "captured range) and reopen[..NK=2..] (re-opening a file whose last key block is exactly full leaves no room "
            "for the next key: key block overrun, e2undo then reports a wrong key magic).",
}
