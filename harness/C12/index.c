/*
 * C12/index: write_undo_indexes() against the undo file format (pattern D/T).
 *
 * Reference = the format comment at the top of undo_io.c and what misc/e2undo.c
 * reads: key block {magic, crc over the block with crc=0, reserved, keys[]}; header
 * {"E2UNDO02", num_keys, super_offset, key_offset, block_size, fs_block_size,
 * sb_crc, state, f_compat (bit 0 <=> fs_offset != 0), f_incompat, f_rocompat,
 * fs_offset, header_crc over the first 508 bytes}; superblock copy = the device's
 * superblock with s_magic inverted, sb_crc = crc of the device's superblock.
 * All of private state, key block content, superblock bytes, offset and the
 * backing channel's block size are symbolic.
 */
#include "undo_pre.h"
#include "lib/ext2fs/undo_io.c"
#include "lib/ext2fs/io_manager.c"
#include "env.c"
#define NBLK 2
#define UCAP 8
#include "undo_env.h"

#ifndef FLUSH
#define FLUSH 0
#endif
#define SBSYM 96	/* symbolic prefix of the superblock (s_magic is at byte 56) */

struct vf_in {
	unsigned char keyb[TDS];
	unsigned char sb[SBSYM];
	unsigned char kib;
	unsigned int num_keys;
	unsigned char key_blk, undo_blk, super_blk, first_key_blk;
	unsigned long long offset;
	unsigned int bs;
	__u32 state, f_compat, f_incompat, f_rocompat, hdr_block_size;
	unsigned char pad_probe_val;
};
VF_DECLARE_INPUT(struct vf_in, IN)
#include "vf_input.inc"

static unsigned long long vf_keyb_store[TDS / 8];

int main(void)
{
	unsigned char *kb = (unsigned char *) vf_keyb_store;
	unsigned char exp[TDS];
	errcode_t rc;
	__u32 s;
	int i;

	VF_INPUT(IN);
	vf_setup_channels(&vf_chan, &vf_data);
	vf_data.tdb_data_size = TDS;
	vf_data.tdb_written = 1;
	vf_data.keyb = (struct undo_key_block *) vf_keyb_store;
	for (i = 0; i < TDS; i++)
		kb[i] = IN.keyb[i];
	for (i = 0; i < SBSYM; i++)
		vf_sb[i] = IN.sb[i];
	ASSUME(IN.kib <= KPB);
	vf_data.keys_in_block = IN.kib;
	vf_data.num_keys = IN.num_keys;
	/* BOUND: block numbers of the cursor below UCAP (8) */
	ASSUME(IN.key_blk < UCAP && IN.undo_blk < UCAP - 1);
	vf_data.key_blk_num = IN.key_blk;
	vf_data.undo_blk_num = IN.undo_blk;
	vf_data.super_blk_num = IN.super_blk;
	vf_data.first_key_blk = IN.first_key_blk;
	vf_data.offset = (ext2_loff_t) IN.offset;
	ASSUME((ext2_loff_t) IN.offset >= 0);
	/* ASSUME: channel block size is positive */
	ASSUME(IN.bs >= 1 && IN.bs <= (1U << 30));
	vf_rchan.block_size = IN.bs;
	vf_data.hdr.state = IN.state;
	vf_data.hdr.f_compat = IN.f_compat;
	vf_data.hdr.f_incompat = IN.f_incompat;
	vf_data.hdr.f_rocompat = IN.f_rocompat;
	vf_data.hdr.block_size = IN.hdr_block_size;

	rc = write_undo_indexes(&vf_data, FLUSH);
	PROP(rc == 0, "write_undo_indexes succeeds");

	/* ---- key block */
	if (IN.kib == 0) {
		PROP(vf_uf_writes == 0, "no key block is written while the current key block is empty");
		PROP(vf_data.key_blk_num == IN.key_blk && vf_data.undo_blk_num == IN.undo_blk && vf_data.keys_in_block == 0,
		     "empty key block: cursor unchanged");
	} else {
		PROP(vf_uf_writes == 1 && vf_uf_lowest == IN.key_blk, "the key block is written once, at key_blk_num");
		for (i = 0; i < TDS; i++)
			exp[i] = IN.keyb[i];
		ref_put_le(exp, 4, 0xCADECADEULL);
		ref_put_le(exp + 4, 4, 0);
		s = ref_crc(~0U, exp, TDS);
		ref_put_le(exp + 4, 4, s);
		for (i = 0; i < TDS; i++) {
			unsigned char got = 0;
			int u;
			for (u = 0; u < UCAP; u++)
				if (IN.key_blk == u)
					got = vf_uf[u][i];
			PROP(got == exp[i], "key block in the file: magic, crc over the block with crc field zero, reserved and keys unchanged");
		}
		if (IN.kib == KPB) {
			PROP(vf_data.keys_in_block == 0 && vf_data.key_blk_num == IN.undo_blk &&
			     vf_data.undo_blk_num == (blk64_t) IN.undo_blk + 1,
			     "full key block: the next key block takes the next free undo block");
			for (i = 0; i < TDS; i++)
				PROP(kb[i] == 0, "full key block: in-memory key block cleared");
		} else {
			PROP(vf_data.keys_in_block == IN.kib && vf_data.key_blk_num == IN.key_blk &&
			     vf_data.undo_blk_num == IN.undo_blk, "partial key block: cursor unchanged");
		}
	}

	/* ---- header */
	PROP(vf_uf_hdr_writes == 1, "header written once");
	PROP(vf_uf_hdr[0] == 'E' && vf_uf_hdr[1] == '2' && vf_uf_hdr[2] == 'U' && vf_uf_hdr[3] == 'N' &&
	     vf_uf_hdr[4] == 'D' && vf_uf_hdr[5] == 'O' && vf_uf_hdr[6] == '0' && vf_uf_hdr[7] == '2', "header magic");
	PROP(ref_le(vf_uf_hdr + 8, 8) == IN.num_keys, "header num_keys");
	PROP(ref_le(vf_uf_hdr + 16, 8) == IN.super_blk, "header super_offset");
	PROP(ref_le(vf_uf_hdr + 24, 8) == IN.first_key_blk, "header key_offset is the FIRST key block");
	PROP(ref_le(vf_uf_hdr + 32, 4) == IN.hdr_block_size, "header block_size kept");
	PROP(ref_le(vf_uf_hdr + 36, 4) == IN.bs, "header fs_block_size is the backing channel's block size");
	{
		static unsigned char sbfull[SUPERBLOCK_SIZE];
		for (i = 0; i < SBSYM; i++)
			sbfull[i] = IN.sb[i];
		PROP(ref_le(vf_uf_hdr + 40, 4) == ref_crc(~0U, sbfull, SUPERBLOCK_SIZE), "header sb_crc is the crc of the device's superblock");
	}
	PROP(ref_le(vf_uf_hdr + 44, 4) == IN.state, "header state kept");
	PROP(ref_le(vf_uf_hdr + 48, 4) == ((IN.f_compat & ~1U) | (IN.offset ? 1U : 0U)), "f_compat: FS_OFFSET bit iff offset != 0, other bits kept");
	PROP(ref_le(vf_uf_hdr + 52, 4) == IN.f_incompat && ref_le(vf_uf_hdr + 56, 4) == IN.f_rocompat, "incompat/rocompat kept");
	PROP(ref_le(vf_uf_hdr + 64, 8) == IN.offset, "header fs_offset");
	PROP(ref_le(vf_uf_hdr + 508, 4) == ref_crc(~0U, vf_uf_hdr, 508), "header_crc covers the header without the crc field");

	/* ---- superblock copy */
	PROP(vf_uf_sb_writes == 1 && vf_uf_sb_blk == IN.super_blk, "superblock copy written once at super_blk_num");
	for (i = 0; i < SBSYM; i++)
		PROP(vf_uf_sb[i] == ((i == 56 || i == 57) ? (unsigned char) ~IN.sb[i] : IN.sb[i]),
		     "superblock copy = device superblock with s_magic inverted");
	PROP(vf_sb_reads == 1 && vf_rchan.block_size == (int) IN.bs, "superblock read once; channel block size restored");
	PROP(vf_uf_flush == FLUSH, "undo file flushed iff requested");
	PROP(vf_real_ops == 0, "the device is not modified");
	VF_END();
	return 0;
}
