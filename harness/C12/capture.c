/*
 * C12/capture: first-write-wins capture of the undo manager, ONE modifying
 * channel operation from an ARBITRARY valid undo state (pattern I).
 *
 * State: backing device dev[0..L) (fs-relative bytes), block map W, the current
 * key block (0 or 1 key already in it, KEYS_PER_BLOCK == 2) and its data blocks in
 * the undo file.  Inv (assumed): the existing key lies on undo-block boundaries
 * inside the device, all undo blocks it covers are marked in W, its data blocks
 * follow the key block contiguously, its crc is the chained crc of its data, and
 * the key block in the file equals the in-memory one.
 *
 * One real operation (undo_write_blk64 / undo_write_byte / undo_zeroout /
 * undo_discard).  Then the undo file is read back by ref_walk(), an independent
 * reader of the key format written after misc/e2undo.c's loader (key block at
 * lblk, keys' data in file order behind it, replay target = fsblk *
 * hdr.fs_block_size), and for an ARBITRARY device byte pp:
 *   - touched by the backing operation, inside the old device and not saved before
 *     => exactly one key restores it, to the byte held BEFORE the operation
 *   - touched by the backing operation  => its undo block is marked afterwards
 *   - newly marked and inside the old device => exactly one key restores it, to
 *     the byte the device held BEFORE the operation
 *   - marked before => no additional key covers it (first write wins)
 *   - not marked afterwards => no key covers it, device byte unchanged
 * plus: W only grows, the old part of the undo file is not modified, key crcs
 * chain over exactly the bytes e2undo reads, the in-memory cursor (key_blk_num,
 * undo_blk_num, keys_in_block) is where a reader of the file ends up (Inv after).
 *
 * "Saved" is defined by the KEYS in the undo file (what e2undo will replay); the
 * block map is only required to be consistent with them: a block some key covers,
 * or that the operation touched, is marked (so it is never saved twice), and a
 * block that is not marked is covered by no key.
 * Block-map ids (the one representation fact the pre-state needs): undo_write_tdb()
 * numbers undo blocks by ABSOLUTE device position, id = fs-relative undo block +
 * offset / tdb_data_size (vf_wbase).  Whether try_reopen_undo_file() rebuilds the
 * map compatibly is decided behaviourally by the `reopen` harness (FOLLOWUP queries).
 * Extent limit (AT_LIMIT / AT_LIMIT_SHORT, E2UNDO_MAX_EXTENT_BLOCKS scaled to 2 or 3 by
 * hook E2FSPROGS_VERIF_UNDO_MAX_EXTENT_BLOCKS): the current key holds exactly the
 * limit; the reader asserts for EVERY key (in every query) size <= limit * tds, the
 * rule by which e2undo refuses a whole file ("block N is too long").
 * OFFMODE=2 (offset not a multiple of the undo block): the queries are split into
 * "no carry" ((lo % tds) + (offset % tds) < tds, assumed) and OFF_CARRY (the
 * complement), so that the known shifted-capture defect is isolated in one query.
 */
#ifdef NO_CRC_CHECK
#define VF_CHEAP_CRC
#endif
#define VF_LIGHT_INDEX
#include "undo_pre.h"
#include "lib/ext2fs/undo_io.c"
#include "lib/ext2fs/io_manager.c"
#include "env.c"
/* BOUND: MAXNEW = most undo blocks one operation of this query can span (derived from its size in spec.py); it sizes the undo file, the reader and the capture loop bound */
#ifndef MAXNEW
#define MAXNEW 2
#endif
#define KB0 2		/* current key block in the pre-state */
/* BOUND: K0MAX = most undo blocks the key already in the current key block may have (2; 3 in the extent-limit queries with limit 3) */
#ifndef K0MAX
#define K0MAX 2
#endif
#define MAXCH (MAXNEW + K0MAX)			/* undo blocks per key in the post-state */
#define MAXKB ((MAXNEW + 1 + 1) / 2)		/* key blocks holding the <= 1+MAXNEW keys (KPB == 2) */
#define UCAP (KB0 + 1 + K0MAX + MAXNEW + MAXKB + 1)
#include "undo_env.h"

#define OP_WRITE 1
#define OP_WRITE_BYTE 2
#define OP_ZEROOUT 3
#define OP_DISCARD 4
#ifndef CNT
#define CNT 1
#endif
#ifndef OFFBITS
#define OFFBITS 40
#endif
#ifndef OFFMODE
#define OFFMODE 0	/* 0: offset 0; 1: offset a multiple of TDS; 2: any offset */
#endif
#if KPB != 2
#error "MAXKB assumes two keys per key block"
#endif

struct vf_in {
	unsigned char W[NW];
	unsigned int devlen;
	unsigned char kib;		/* keys already in the current key block: 0/1 */
	unsigned char k0_blocks;	/* size of that key in undo blocks: 1/2 */
	unsigned int k0_fsblk;
	unsigned char base_hi;		/* BIGBLK */
	unsigned int num_keys;
	unsigned long long offset;	/* data->offset */
	unsigned long long block;	/* operation arguments */
	unsigned long long count;
	unsigned int boff, bsize;	/* write_byte */
	unsigned int pp;		/* probe: device byte */
	unsigned int ui;		/* probe: undo file byte */
};
VF_DECLARE_INPUT(struct vf_in, IN)
#include "vf_input.inc"

static unsigned long long vf_keyb_store[TDS / 8];	/* 8-byte aligned key block */
static unsigned char vf_uf0[UCAP][TDS];
#define VF_TAG(p) ((unsigned char) ((p) + 1))
#if DEVCAP > 250
#error "position tags must be unique bytes"
#endif

/* results of the reader */
static unsigned long long rw_end, rw_last_kb, rw_kib, rw_fidx, rw_k0_fsblk, rw_k0_size;
static int rw_cnt;

static __u32 ref_key_crc(unsigned long long fileblk, unsigned long long size)
{
	__u32 s = ~0U;
	int c, u, k;
	for (c = 0; c < MAXCH; c++)
		for (u = 0; u < UCAP; u++)
			if ((unsigned long long) u == fileblk + c)
				for (k = 0; k < TDS; k++)
					if ((unsigned long long) c * TDS + k < size)
						s = ref_crc_step(s, vf_uf[u][k]);
	return s;
}

#ifdef NO_CRC_CHECK
/* T-style reference for the cheap crc stub (crc' = crc ^ len ^ first byte, so every call's LENGTH is visible in the value):
 * a key's checksum must be the chain, from ~0, of one call per saved undo block over exactly the bytes of that block that
 * belong to the key (TDS, or the short rest for the last one): what e2undo will read back are key->size bytes */
static __u32 ref_key_crc_t(unsigned long long fileblk, unsigned long long size)
{
	__u32 s = ~0U;
	int c, u;
	for (c = 0; c < MAXCH; c++)
		if ((unsigned long long) c * TDS < size) {
			unsigned long long len = size - (unsigned long long) c * TDS;
			unsigned char first = 0;
			if (len > TDS)
				len = TDS;
			for (u = 0; u < UCAP; u++)
				if ((unsigned long long) u == fileblk + c)
					first = vf_uf[u][0];
			s = s ^ (__u32) len ^ first;
		}
	return s;
}
#endif

/* read `total` keys starting with the key block at KB0, as e2undo's loader does */
static void ref_walk(unsigned long long total, unsigned long long fs_bs, unsigned long long pp)
{
	unsigned long long lblk = KB0, remaining = total;
	unsigned char kbuf[TDS];
	int kb, j, u, i;

	rw_cnt = 0;
	rw_kib = 0;
	rw_last_kb = KB0;
	for (kb = 0; kb < MAXKB; kb++) {
		unsigned long long nj;
		__u32 s = ~0U;
		if (remaining == 0)
			break;
		for (u = 0; u < UCAP; u++)
			if (lblk == (unsigned long long) u)
				for (i = 0; i < TDS; i++)
					kbuf[i] = vf_uf[u][i];
		PROP(lblk < UCAP, "reader: key block inside the file");
		PROP(ref_le(kbuf, 4) == 0xCADECADEULL, "key block in the file carries the key block magic");
#ifndef NO_CRC_CHECK
		for (i = 0; i < TDS; i++)
			s = ref_crc_step(s, (i >= 4 && i < 8) ? 0 : kbuf[i]);
		PROP(ref_le(kbuf + 4, 4) == s, "key block crc covers the whole block with the crc field zeroed");
#endif
		rw_last_kb = lblk;
		lblk++;
		nj = remaining < KPB ? remaining : KPB;
		for (j = 0; j < KPB; j++)
			if ((unsigned long long) j < nj) {
				const unsigned char *k = kbuf + 16 + 16 * j;
				unsigned long long fsblk = ref_le(k, 8), size = ref_le(k + 12, 4);
				unsigned long long fileblk = lblk, start = fsblk * fs_bs - vf_base;
				PROP(fsblk * fs_bs >= vf_base && fsblk * fs_bs - vf_base < DEVCAP,
				     "key fsblk, read as little-endian 64 bits, addresses the saved range (all 8 bytes recorded)");
				__u32 crc = (__u32) ref_le(k + 8, 4);
				PROP(size >= 1 && size <= (unsigned long long) MAXCH * TDS, "key size is sane");
				/* e2undo refuses the WHOLE undo file if E2UNDO_MAX_EXTENT_BLOCKS * blocksize < key size ("block N is too long") */
				PROP(size <= (unsigned long long) E2UNDO_MAX_EXTENT_BLOCKS * TDS,
				     "every key in the undo file is at most E2UNDO_MAX_EXTENT_BLOCKS undo blocks long (e2undo refuses the file otherwise)");
				lblk += (size + TDS - 1) / TDS;
				if (kb == 0 && j == 0) {
					rw_k0_fsblk = fsblk;
					rw_k0_size = size;
				}
				if (pp >= start && pp < start + size) {
					rw_cnt++;
					rw_fidx = fileblk * TDS + (pp - start);
				}
#ifndef NO_CRC_CHECK
				PROP(crc == ref_key_crc(fileblk, size), "key crc is the crc of exactly the bytes e2undo reads for it");
#else
				PROP(crc == ref_key_crc_t(fileblk, size), "key checksum was computed over exactly key->size bytes of the saved data (chained per saved block)");
#endif
				rw_kib = j + 1;
			}
		remaining -= nj;
	}
	PROP(remaining == 0, "reader: all keys found within the modelled key blocks");
	rw_end = lblk;
}

int main(void)
{
	io_channel ch = &vf_chan;
	struct undo_key_block *keyb = (struct undo_key_block *) vf_keyb_store;
	unsigned long long lo, hi, base_blk = 0, L, undo0, nk0, total, pp, mp, ui, k0_start = 0, k0_size = 0;
	unsigned char w0[NW];
	errcode_t rc = 0;
	int i, cnt0, touched, in_w0, in_w1;
	unsigned char val = 0, old = 0, now = 0;
	static unsigned char obuf[DEVCAP];

	VF_INPUT(IN);
	vf_setup_channels(&vf_chan, &vf_data);
	vf_data.tdb_data_size = TDS;
	vf_data.tdb_written = 1;
	vf_data.written_block_map = (ext2fs_block_bitmap) &vf_bm_obj;
	vf_data.keyb = keyb;
	vf_keyb_ptr = keyb;
	vf_data.key_blk_num = KB0;
	vf_data.hdr.block_size = TDS;

	/* ---- offset and block-map frame */
#if OFFMODE == 0
	vf_data.offset = 0;
#elif OFFMODE == 1
	/* BOUND: offset below 2^OFFBITS (40; 16 in the quick-tier offset queries) */
	ASSUME(IN.offset < (1ULL << OFFBITS) && IN.offset % TDS == 0 && IN.offset >= TDS);
	vf_data.offset = IN.offset;
#else
	ASSUME(IN.offset < (1ULL << OFFBITS) && IN.offset % TDS != 0);
	vf_data.offset = IN.offset;
#endif
	/* ASSUME: written_block_map ids are absolute device undo blocks: id = fs-relative undo block + offset/tdb_data_size (undo_write_tdb's numbering); the checks below use the map only through "marked before / marked after" */
#ifdef BIGBLK
	/* BIGBLK: the modelled window of NBLK undo blocks starts at channel block base_blk = k * 2^32 (k symbolic, 1 <= k < 2^8:
	 * block numbers up to 2^40); k a multiple of 3 keeps the window on an undo-block boundary for BS=16 */
	ASSUME(IN.base_hi >= 1 && (BS % TDS == 0 || IN.base_hi % 3 == 0));
	base_blk = (unsigned long long) IN.base_hi << 32;
	vf_base = base_blk * BS;
#endif
	vf_wbase = (unsigned long long) vf_data.offset / TDS + vf_base / TDS;
#define WIDX(m) (m)	/* index in vf_W of fs-relative undo block m */

	/* ---- device */
	/* BOUND: device of at most NBLK undo blocks; its length is any byte count >= 1 */
	ASSUME(IN.devlen >= 1 && IN.devlen <= DEVCAP);
	L = IN.devlen;
	vf_devlen = L;
	/* ASSUME: device byte p holds the position tag p+1 (the undo manager never inspects data: which byte ends up where is what matters); the backing operation overwrites with 0xFF, a short read pads with 0 */
	for (i = 0; i < DEVCAP; i++)
		vf_dev[i / TDS][i % TDS] = VF_TAG(i);
	for (i = 0; i < NW; i++) {
		ASSUME(IN.W[i] <= 1);
		vf_W[i] = w0[i] = IN.W[i];
	}

	/* ---- undo file and the current key block */
	for (i = 0; i < UCAP * TDS; i++)
		vf_uf[i / TDS][i % TDS] = 0xEE;
	ASSUME(IN.kib <= 1);
	/* BOUND: the key already in the current key block is 1..K0MAX whole undo blocks long (keys shortened by the device end are created by the step, not assumed before it) */
	ASSUME(IN.k0_blocks >= 1 && IN.k0_blocks <= K0MAX);
	/* Inv: no key exceeds the extent limit e2undo accepts */
	ASSUME(IN.k0_blocks <= E2UNDO_MAX_EXTENT_BLOCKS);
#if defined(AT_LIMIT) || defined(AT_LIMIT_SHORT)
	/* extent-limit queries (hook E2FSPROGS_VERIF_UNDO_MAX_EXTENT_BLOCKS scales the limit): the current key holds EXACTLY the limit */
	ASSUME(IN.kib == 1 && IN.k0_blocks == E2UNDO_MAX_EXTENT_BLOCKS);
#endif
	vf_data.keys_in_block = IN.kib;
	/* BOUND: num_keys below 2^31 */
	ASSUME(IN.num_keys >= IN.kib && IN.num_keys < (1U << 31));
	vf_data.num_keys = nk0 = IN.num_keys;
	undo0 = KB0 + 1;
	if (IN.kib) {
		__u32 s = ~0U, c0;
		unsigned char *kb = (unsigned char *) keyb;
		k0_size = (unsigned long long) IN.k0_blocks * TDS;
		k0_start = (unsigned long long) IN.k0_fsblk * BS;
		/* Inv: key on undo-block boundaries, inside the device, its undo blocks marked */
		ASSUME(k0_start % TDS == 0 && k0_start + k0_size <= L);
		for (i = 0; i < NBLK; i++)
			if ((unsigned long long) i * TDS >= k0_start && (unsigned long long) i * TDS < k0_start + k0_size)
				ASSUME(vf_W[WIDX(i)] == 1);
		undo0 += IN.k0_blocks;
		/* Inv: the key's data blocks hold the ORIGINAL bytes of the device range it covers */
		for (i = 0; i < K0MAX * TDS; i++)
			if ((unsigned long long) i < k0_size)
				vf_uf[KB0 + 1 + i / TDS][i % TDS] = VF_TAG(k0_start + i);
#ifndef NO_CRC_CHECK
		c0 = ref_key_crc(KB0 + 1, k0_size);
#else
		c0 = ref_key_crc_t(KB0 + 1, k0_size);	/* Inv: the existing key's checksum covers exactly its bytes */
#endif
		ref_put_le(kb + 16, 8, base_blk + IN.k0_fsblk);
		ref_put_le(kb + 24, 4, c0);
		ref_put_le(kb + 28, 4, k0_size);
		ref_put_le(kb, 4, 0xCADECADEULL);
#ifndef NO_CRC_CHECK
		for (i = 0; i < TDS; i++)
			s = ref_crc_step(s, kb[i]);
#endif
		ref_put_le(kb + 4, 4, s);
		for (i = 0; i < TDS; i++)
			vf_uf[KB0][i] = kb[i];
	}
	vf_data.undo_blk_num = undo0;
	for (i = 0; i < UCAP * TDS; i++)
		vf_uf0[i / TDS][i % TDS] = vf_uf[i / TDS][i % TDS];
	cnt0 = 0;
	pp = IN.pp;
	ASSUME(pp < DEVCAP);
	if (IN.kib && pp >= k0_start && pp < k0_start + k0_size)
		cnt0 = 1;

	/* ---- the operation: fs-relative byte range [lo, hi) it is meant to modify */
#if OP == OP_WRITE
	lo = IN.block * BS;
	hi = lo + (CNT < 0 ? (unsigned long long) -(CNT) : (unsigned long long) (CNT) * BS);
#elif OP == OP_WRITE_BYTE
	lo = IN.boff;
	hi = lo + IN.bsize;
#else
	lo = IN.block * BS;
	hi = lo + IN.count * BS;
#endif
	/* BOUND: the request is 1..MAXBYTES bytes and lies inside the modelled device capacity of NBLK undo blocks */
	ASSUME(IN.block < DEVCAP && IN.count < DEVCAP && IN.boff < DEVCAP && IN.bsize < DEVCAP);
	ASSUME(hi > lo && hi - lo <= MAXBYTES && hi <= DEVCAP);
#ifdef AT_LIMIT_SHORT
	/* ... the request starts exactly where that key ends, in an undo block not saved yet, and the device ends INSIDE that undo block (short last block) */
	ASSUME(lo == k0_start + k0_size && L > lo && L < lo + TDS);
	for (i = 0; i < NBLK; i++)
		if ((unsigned long long) i * TDS == lo)
			ASSUME(vf_W[WIDX(i)] == 0);
#endif
#ifdef AT_END_NEWKEY
	/* the device ends INSIDE the undo block the request starts in (short last block), that block is not saved yet and is not
	 * contiguous with the key already in the current key block: a NEW key is opened for a short block */
	ASSUME(L > (lo / TDS) * TDS && L < (lo / TDS) * TDS + TDS);
	for (i = 0; i < NBLK; i++)
		if ((unsigned long long) i == lo / TDS)
			ASSUME(vf_W[WIDX(i)] == 0);
	if (IN.kib)
		ASSUME(k0_start + k0_size != (lo / TDS) * TDS);
#endif
#if OFFMODE == 2
#ifdef OFF_CARRY
	/* the carry case: start of the request within its undo block + offset remainder reaches the next undo block */
	ASSUME(lo % TDS + (unsigned long long) vf_data.offset % TDS >= TDS);
#else
	/* ASSUME: (OFFMODE=2 queries other than OFF_CARRY) no carry: (lo % tds) + (offset % tds) < tds; the complement is the OFF_CARRY query, a known finding */
	ASSUME(lo % TDS + (unsigned long long) vf_data.offset % TDS < TDS);
#endif
#endif
#ifndef BEYOND_END
	/* ASSUME: the last undo block of the request starts inside the current device (the request may still extend past its end: short capture); requests whose last undo block lies entirely beyond the end are the BEYOND_END queries */
	ASSUME(((hi - 1) / TDS) * TDS < L);
#endif
#if OP == OP_WRITE
	rc = undo_write_blk64(ch, base_blk + IN.block, CNT, obuf);
#elif OP == OP_WRITE_BYTE
	rc = undo_write_byte(ch, vf_base + IN.boff, (int) IN.bsize, obuf);
#elif OP == OP_ZEROOUT
	rc = undo_zeroout(ch, base_blk + IN.block, IN.count);
#elif OP == OP_DISCARD
	rc = undo_discard(ch, base_blk + IN.block, IN.count);
#else
#error OP
#endif
	PROP(rc == 0, "operation succeeds");
	PROP(vf_real_ops == 1, "exactly one operation reaches the backing channel");
	PROP(vf_wlo == lo && vf_whi == hi, "the backing channel is asked to modify exactly the requested range");
	PROP(vf_rchan.block_size == BS, "backing channel block size restored");

	/* ---- T-style trace: one checksum call per saved data block, over exactly the bytes stored for it */
	PROP(vf_crc_ndata == vf_uf_ndata && vf_uf_ndata <= VF_TRACE_MAX, "one data checksum call per data block written to the undo file");
	for (i = 0; i < VF_TRACE_MAX; i++)
		if (i < vf_uf_ndata)
			PROP(vf_crc_dlen[i] == vf_uf_dlen[i], "the checksum call covers exactly the bytes stored for that block (data_size)");
	PROP(!vf_addr_oob, "env: backing requests stay inside the modelled window");

	/* ---- read the undo file back */
	PROP(vf_data.num_keys >= nk0, "num_keys only grows");
	total = IN.kib + (vf_data.num_keys - nk0);
	PROP(total <= (unsigned long long) KPB * MAXKB, "reader bound suffices");
	if (vf_uf_hdr_writes)
		PROP(ref_le(vf_uf_hdr + 36, 4) == BS, "header fs_block_size is the channel block size the keys are expressed in");
	ref_walk(total, BS, pp);

	/* Inv afterwards: the in-memory cursor is where a reader of the file ends up */
	if (total == 0) {
		PROP(vf_data.keys_in_block == 0 && vf_data.key_blk_num == KB0 && vf_data.undo_blk_num == undo0,
		     "no capture: cursor unchanged");
	} else if (total % KPB == 0) {
		PROP(vf_data.keys_in_block == 0 && vf_data.key_blk_num == rw_end && vf_data.undo_blk_num == rw_end + 1,
		     "full key block: next key block directly after the last data block");
	} else {
		PROP(vf_data.keys_in_block == rw_kib && vf_data.key_blk_num == rw_last_kb && vf_data.undo_blk_num == rw_end,
		     "cursor (key block, keys in it, next free block) matches the file");
	}
	if (vf_data.num_keys != nk0) {
		PROP(vf_uf_hdr_writes >= 1 && ref_le(vf_uf_hdr + 8, 8) == vf_data.num_keys,
		     "header in the file carries the new number of keys");
		PROP(vf_uf_lowest >= KB0 && (vf_uf_lowest == KB0 || vf_uf_lowest >= undo0),
		     "only the current key block and blocks behind the old end of the undo file are written");
	}
	if (IN.kib)
		PROP(rw_k0_fsblk == base_blk + IN.k0_fsblk && rw_k0_size >= k0_size, "existing key keeps its position and only grows");

	/* the old part of the undo file is immutable */
	ui = IN.ui;
	if (ui < undo0 * TDS && ui / TDS != KB0) {
		unsigned char a = 0, b = 0;
		for (i = 0; i < UCAP * TDS; i++)
			if ((unsigned long long) i == ui) {
				a = vf_uf[i / TDS][i % TDS];
				b = vf_uf0[i / TDS][i % TDS];
			}
		PROP(a == b, "blocks already in the undo file are not overwritten");
	}

	/* ---- the arbitrary device byte */
	mp = pp / TDS;
	in_w0 = in_w1 = 0;
	for (i = 0; i < NBLK; i++)
		if (mp == (unsigned long long) i) {
			in_w0 = w0[WIDX(i)];
			in_w1 = vf_W[WIDX(i)];
		}
	for (i = 0; i < NW; i++)
		PROP(vf_W[i] >= w0[i], "block map only grows");
	old = VF_TAG(pp);
	for (i = 0; i < DEVCAP; i++)
		if (pp == (unsigned long long) i)
			now = vf_dev[i / TDS][i % TDS];
	for (i = 0; i < UCAP * TDS; i++)
		if (rw_fidx == (unsigned long long) i)
			val = vf_uf[i / TDS][i % TDS];
	touched = (pp >= vf_wlo && pp < vf_whi);
	if (touched && pp < L && !in_w0) {
		PROP(rw_cnt == 1, "a touched byte not saved before is restored by exactly one key in the undo file");
		PROP(val == old, "that key restores the byte the device held before the operation");
	}
	if (touched)
		PROP(in_w1, "every byte the backing operation touches lies in an undo block marked as saved");
	if (rw_cnt > cnt0)
		PROP(in_w1, "block map consistent with the keys: a block a new key covers is marked");
	if (in_w1 && !in_w0 && pp < L) {
		PROP(rw_cnt == 1, "a newly saved undo block is restored by exactly one key");
		PROP(val == old, "the key restores the byte the device held before the operation");
	}
	if (in_w0)
		PROP(rw_cnt == cnt0, "first write wins: an undo block saved earlier is not saved again");
	if (!in_w1) {
		PROP(rw_cnt == 0, "no key covers an undo block that is not marked");
		PROP(now == old, "bytes outside saved undo blocks are unchanged");
	}
	PROP(!vf_w_oob, "env: block map ids stay inside the modelled window");
	VF_END();
	return 0;
}
