/*
 * undo_pre.h -- included BEFORE the real .c file.
 * STUB: ext2fs_get_mem/ext2fs_free_mem (ext2fs.h inlines) are replaced by versions that move the pointer with an assignment instead of memcpy(ptr, &p, sizeof p): same semantics, but the byte-wise pointer copy costs CBMC its points-to precision (planned hook H3, done here without touching /repo)
 */
#include "config.h"
#include <stdlib.h>
#include <string.h>
#include "ext2_fs.h"
#include "ext2fs.h"
/* STUB: (re-open harness only) vf_getmem_min is armed with 1024 before try_reopen_undo_file(): the NEXT allocation -- check_filesystem()'s superblock buffer of `blocksize` bytes, >= 1024 in reality but 48 at the scaled undo block size -- gets at least 1024 bytes (one-shot) */
static unsigned long vf_getmem_min;
static inline errcode_t vf_get_mem(unsigned long size, void *ptr)
{
	void *pp;
	if (size < vf_getmem_min)
		size = vf_getmem_min;
	vf_getmem_min = 0;
#ifdef VF_ALLOC_CONST
	/* STUB: (re-open harness) every other allocation gets the constant VF_ALLOC_CONST bytes (checked to suffice), so that no allocation size depends on bytes read from the undo file */
	if (size != SUPERBLOCK_SIZE) {
		PROP(size <= VF_ALLOC_CONST, "env: allocation fits the constant allocation size");
		pp = malloc(VF_ALLOC_CONST);
	} else
#endif
	pp = malloc(size);
	if (!pp)
		return EXT2_ET_NO_MEMORY;
	*(void **) ptr = pp;
	return 0;
}
static inline errcode_t vf_free_mem(void *ptr)
{
	free(*(void **) ptr);
	*(void **) ptr = 0;
	return 0;
}
#define ext2fs_get_mem(size, ptr) vf_get_mem((size), (ptr))
#define ext2fs_free_mem(ptr) vf_free_mem((ptr))
