/*
 * undo_pre.h -- included BEFORE the real .c file.
 * STUB: ext2fs_get_mem/ext2fs_free_mem (ext2fs.h inlines) are replaced by versions that move the pointer with an assignment instead of memcpy(ptr, &p, sizeof p): same semantics, but the byte-wise pointer copy costs CBMC its points-to precision (planned hook H3, done here without touching /repo)
 */
#include "config.h"
#include <stdlib.h>
#include <string.h>
#include "ext2_fs.h"
#include "ext2fs.h"
/* STUB: (re-open harness only, VF_GETMEM_MIN) allocations are at least 1024 bytes: check_filesystem() reads the 1024-byte superblock copy into a buffer of `blocksize` bytes, which is >= 1024 in reality but 48 at the scaled undo block size */
#ifndef VF_GETMEM_MIN
#define VF_GETMEM_MIN 0
#endif
static inline errcode_t vf_get_mem(unsigned long size, void *ptr)
{
	void *pp = malloc(size < VF_GETMEM_MIN ? VF_GETMEM_MIN : size);
	if (!pp)
		return EXT2_ET_NO_MEMORY;
	*(void **) ptr = pp;
	return 0;
}
static inline errcode_t vf_free_mem(void *ptr)
{
	free(*(void **) ptr);
	*(void **) ptr = 0;
	return 0;
}
#define ext2fs_get_mem(size, ptr) vf_get_mem((size), (ptr))
#define ext2fs_free_mem(ptr) vf_free_mem((ptr))
