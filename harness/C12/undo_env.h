/*
 * undo_env.h -- environment of the C12 harnesses: the two io channels below
 * the undo manager (backing device, undo file) as byte arrays, the
 * written_block_map as a plain set, ext2fs_crc32c_le as a cheap chaining
 * function (pattern T).  Included AFTER lib/ext2fs/undo_io.c.
 *
 * Scaled geometry (compile time): TDS = undo block size (tdb_data_size),
 * BS = block size of the undo channel / backing channel, NBLK undo blocks of
 * device, UCAP blocks of undo file.  sizeof(struct undo_key) == 16 and the key
 * block header is 16 bytes, so TDS = 48 gives KEYS_PER_BLOCK == 2: key
 * extension, a full key block and the roll-over to the next key block are all
 * reachable.
 */
#ifndef TDS
#define TDS 48
#endif
#ifndef BS
#define BS 16
#endif
#ifndef NBLK
#define NBLK 6
#endif
#ifndef UCAP
#define UCAP 13
#endif
#define DEVCAP (NBLK * TDS)
#define KPB (TDS / 16 - 1)
#define NW (NBLK + 3)		/* window of the block map: ids Q .. Q+NBLK+2 */

static struct struct_io_channel vf_chan;	/* the undo channel under test */
static struct undo_private_data vf_data;
/* BIGBLK queries: the modelled device window starts vf_base bytes into the (huge) device: the backing stubs and the block map
 * window subtract it, so channel block numbers up to 2^40 can be used with a small device array */
static unsigned long long vf_base;
static int vf_addr_oob;		/* a backing request below vf_base: asserted to be 0 */

/* ---------------------------------------------------------------- crc (T) */
/* STUB: ext2fs_crc32c_le is replaced by the left fold s' = rotl(s,1) ^ byte: like crc32c it satisfies crc(crc(s,A),B) == crc(s,A||B), which is all undo_io.c/e2undo.c rely on (the real crc32c is C14's subject). For buffers longer than one undo block (the 508-byte header, the 1024-byte superblock) the stub folds the first CRC_LONG bytes and the length only */
#define CRC_LONG 96
static int vf_light;	/* set to a constant by a harness for a phase in which header / superblock copies and their crcs need not be modelled */
static inline __u32 ref_crc_step(__u32 s, unsigned char b)
{
	return ((s << 1) | (s >> 31)) ^ b;
}
static __u32 ref_crc(__u32 crc, unsigned char const *p, size_t len)
{
	size_t i;
#ifdef VF_CHEAP_CRC
	/* STUB: (queries that do not check crc values) crc = seed ^ length ^ first byte */
	return crc ^ (__u32) len ^ p[0];
#endif
	if (vf_light)	/* light phase: crc values are not modelled */
		return crc ^ (__u32) len ^ p[0];
	if (len <= TDS) {
		for (i = 0; i < TDS; i++)
			if (i < len)
				crc = ref_crc_step(crc, p[i]);
	} else if (vf_light) {
		crc ^= (__u32) len;	/* light phase: header / superblock crcs are not modelled */
	} else {
		for (i = 0; i < CRC_LONG; i++)
			if (i < len)
				crc = ref_crc_step(crc, p[i]);
		crc ^= (__u32) len;
	}
	return crc;
}
/* T-style trace: every crc call over SAVED DATA (not the key block, not header/superblock) is recorded with its length and
 * whether it starts a fresh checksum (seed ~0); every data block written to the undo file is recorded with its length */
#define VF_TRACE_MAX 8
#ifdef VF_REPLAY
#define VF_CRC_IS_DATA(p, len) ((const void *) (p) != vf_keyb_ptr && (len) <= TDS)
#else	/* by buffer identity, so that the classification folds although len is symbolic */
#define VF_CRC_IS_DATA(p, len) ((const void *) (p) != vf_keyb_ptr && (const void *) (p) != (const void *) &vf_data.hdr && \
				__CPROVER_OBJECT_SIZE(p) != SUPERBLOCK_SIZE && __CPROVER_OBJECT_SIZE(p) != sizeof(struct ext2_super_block))
#endif
static int vf_crc_calls, vf_crc_ndata, vf_uf_ndata;
static unsigned long long vf_crc_dlen[VF_TRACE_MAX], vf_uf_dlen[VF_TRACE_MAX];
static unsigned char vf_crc_dfresh[VF_TRACE_MAX];
static const void *vf_keyb_ptr;		/* set by the harness: the in-memory key block */
__u32 ext2fs_crc32c_le(__u32 crc, unsigned char const *p, size_t len)
{
	int k;
	vf_crc_calls++;
	if (VF_CRC_IS_DATA(p, len)) {
		for (k = 0; k < VF_TRACE_MAX; k++)
			if (k == vf_crc_ndata) {
				vf_crc_dlen[k] = len;
				vf_crc_dfresh[k] = (crc == ~0U);
			}
		vf_crc_ndata++;
	}
	return ref_crc(crc, p, len);
}

/* --------------------------------------------------------- block map (set) */
/* STUB: written_block_map is a set of 64-bit ids (array over the window [vf_wbase, vf_wbase+NW)); the real rbtree/bitarray bitmaps are verified against the same set model by C16 */
static unsigned char vf_W[NW];
static unsigned long long vf_wbase;
static int vf_bm_obj, vf_bm_alloc, vf_bm_free;
static int vf_light_unused_decl;	/* (vf_light is declared above the crc stub) set (to a constant) by a harness for a phase in which header / superblock copies need not be modelled */
static int vf_w_oob;	/* an id outside the window was used: asserted to be 0 at the end of each harness */

int ext2fs_test_generic_bmap(ext2fs_generic_bitmap bm, __u64 arg)
{
	int i, r = 0;
	(void) bm;
	if (!(arg >= vf_wbase && arg - vf_wbase < NW))
		vf_w_oob = 1;
	for (i = 0; i < NW; i++)
		if (arg - vf_wbase == (__u64) i)
			r = vf_W[i];
	return r;
}
int ext2fs_mark_generic_bmap(ext2fs_generic_bitmap bm, __u64 arg)
{
	int i, r = 0;
	(void) bm;
	if (!(arg >= vf_wbase && arg - vf_wbase < NW))
		vf_w_oob = 1;
	for (i = 0; i < NW; i++)
		if (arg - vf_wbase == (__u64) i) {
			r = vf_W[i];
			vf_W[i] = 1;
		}
	return r;
}
void ext2fs_mark_block_bitmap_range2(ext2fs_block_bitmap bm, blk64_t block, unsigned int num)
{
	int i;
	(void) bm;
	if (num == 0)
		return;
	if (!(block >= vf_wbase && block - vf_wbase < NW && block - vf_wbase + num <= NW))
		vf_w_oob = 1;
	for (i = 0; i < NW; i++)
		if ((__u64) i >= block - vf_wbase && (__u64) i < block - vf_wbase + num)
			vf_W[i] = 1;
}
errcode_t ext2fs_alloc_generic_bmap(ext2_filsys fs, errcode_t magic, int type, __u64 start, __u64 end,
				    __u64 real_end, const char *descr, ext2fs_generic_bitmap *ret)
{
	int i;
	(void) fs; (void) magic; (void) type; (void) descr;
	PROP(start == 0 && end == ~1ULL && real_end == ~1ULL, "env: block map covers all 64-bit block numbers");
	for (i = 0; i < NW; i++)
		vf_W[i] = 0;
	vf_bm_alloc++;
	*ret = (ext2fs_generic_bitmap) &vf_bm_obj;
	return 0;
}
void ext2fs_free_generic_bitmap(ext2fs_inode_bitmap bm)
{
	(void) bm;
	vf_bm_free++;
}

/* ------------------------------------------------------- backing device */
/* STUB: the backing channel is a byte array vf_dev[0..vf_devlen) addressed fs-relative (the unix manager adds its own offset below this level); reads beyond the end are short: the rest of the buffer is zeroed and channel->read_error is called with the byte count, as unix_io.c:raw_read_blk does */
/* STUB: the backing channel's write/write_byte/zeroout/discard record the byte range and overwrite it with 0xFF (content is irrelevant to the undo layer; a capture made AFTER the write would save 0xFF); writes beyond the end extend the device */
static unsigned char vf_dev[NBLK][TDS];	/* 2-D so that CBMC keeps every byte a separate scalar (arrays <= 64 elements) */
static unsigned long long vf_devlen;
static unsigned char vf_sb[SUPERBLOCK_SIZE];	/* what a superblock read returns */
static int vf_sb_reads, vf_real_reads, vf_real_ops, vf_real_flush, vf_real_closed;
static unsigned long long vf_wlo, vf_whi;	/* byte range of the (single) modifying operation */
static int vf_real_setblk;

static errcode_t stub_real_set_blksize(io_channel ch, int blksize)
{
	ch->block_size = blksize;
	vf_real_setblk++;
	return 0;
}

static errcode_t stub_real_read_blk64(io_channel ch, unsigned long long block, int count, void *buf)
{
	unsigned char *b = buf;
	unsigned long long pos, size;
	int i, m, actual = 0;

	if (count == -SUPERBLOCK_SIZE) {
		PROP(ch->block_size == SUPERBLOCK_OFFSET && block == 1, "env: superblock is read at byte offset 1024");
#ifndef VF_LIGHT_INDEX
		if (!vf_light)
			memcpy(b, vf_sb, SUPERBLOCK_SIZE);
#endif
		vf_sb_reads++;
		return 0;
	}
	size = count < 0 ? (unsigned long long) -(long long) count : (unsigned long long) count * ch->block_size;
	pos = block * (unsigned long long) ch->block_size;
	if (pos < vf_base)
		vf_addr_oob = 1;
	pos -= vf_base;
	vf_real_reads++;
	/* every capture read is one undo block at an undo-block boundary: CHECKED, so the
	 * copy below can work on whole undo blocks with concrete indices */
	PROP(size == TDS && pos % TDS == 0, "env: capture reads exactly one aligned undo block");
	for (i = 0; i < TDS; i++)
		b[i] = 0;
	for (m = 0; m < NBLK; m++)	/* a block at or beyond DEVCAP is beyond the end of the device: nothing read */
		if (pos == (unsigned long long) m * TDS)
			for (i = 0; i < TDS; i++)
				if ((unsigned long long) m * TDS + i < vf_devlen)
					b[i] = vf_dev[m][i];
	if (pos < vf_devlen)
		actual = vf_devlen - pos >= TDS ? TDS : (int) (vf_devlen - pos);
	if ((unsigned long long) actual < size) {
		if (ch->read_error)
			return (ch->read_error)(ch, block, count, buf, size, actual, EXT2_ET_SHORT_READ);
		return EXT2_ET_SHORT_READ;
	}
	return 0;
}

static errcode_t stub_real_modify(unsigned long long lo, unsigned long long hi)
{
	int p;
	if (lo < vf_base)
		vf_addr_oob = 1;
	lo -= vf_base;
	hi -= vf_base;
	PROP(hi <= DEVCAP && lo <= hi, "env: device request inside the modelled device");
	vf_real_ops++;
	vf_wlo = lo;
	vf_whi = hi;
	for (p = 0; p < DEVCAP; p++)
		if ((unsigned long long) p >= lo && (unsigned long long) p < hi)
			vf_dev[p / TDS][p % TDS] = 0xFF;
	if (hi > vf_devlen && hi > lo)
		vf_devlen = hi;
	return 0;
}

static errcode_t stub_real_write_blk64(io_channel ch, unsigned long long block, int count, const void *buf)
{
	unsigned long long size = count < 0 ? (unsigned long long) -(long long) count :
		(unsigned long long) count * ch->block_size;
	unsigned long long pos = block * (unsigned long long) ch->block_size;
	(void) buf;
	return stub_real_modify(pos, pos + size);
}
static errcode_t stub_real_write_byte(io_channel ch, unsigned long offset, int size, const void *buf)
{
	(void) ch; (void) buf;
	return stub_real_modify(offset, offset + (unsigned long long) size);
}
static errcode_t stub_real_zeroout(io_channel ch, unsigned long long block, unsigned long long count)
{
	return stub_real_modify(block * ch->block_size, (block + count) * ch->block_size);
}
static errcode_t stub_real_discard(io_channel ch, unsigned long long block, unsigned long long count)
{
	return stub_real_modify(block * ch->block_size, (block + count) * ch->block_size);
}
static errcode_t stub_real_flush(io_channel ch) { (void) ch; vf_real_flush++; return 0; }
static errcode_t stub_real_close(io_channel ch) { (void) ch; vf_real_closed++; return 0; }
static errcode_t stub_real_set_option(io_channel ch, const char *o, const char *a)
{
	(void) ch; (void) o; (void) a;
	return 0;
}

static struct struct_io_manager stub_real_mgr = {
	.magic = EXT2_ET_MAGIC_IO_MANAGER, .name = "C12 device model",
	.close = stub_real_close, .set_blksize = stub_real_set_blksize,
	.flush = stub_real_flush, .write_byte = stub_real_write_byte,
	.set_option = stub_real_set_option,
	.read_blk64 = stub_real_read_blk64, .write_blk64 = stub_real_write_blk64,
	.discard = stub_real_discard, .zeroout = stub_real_zeroout,
};
static struct struct_io_channel vf_rchan;

/* ------------------------------------------------------------ undo file */
/* STUB: the undo file is a byte array of UCAP blocks of TDS bytes; the 512-byte header and the 1024-byte superblock copy (blocks 0 and 1 of a real file, where TDS >= 1024) are kept in two separate objects because at the scaled TDS they would overlay the key/data blocks */
static unsigned char vf_uf[UCAP][TDS];
static unsigned char vf_uf_hdr[sizeof(struct undo_header)];
static unsigned char vf_uf_sb[SUPERBLOCK_SIZE];
static unsigned long long vf_uf_sb_blk;
static int vf_uf_hdr_writes, vf_uf_sb_writes, vf_uf_writes, vf_uf_flush, vf_uf_closed;
static unsigned long long vf_uf_lowest = ~0ULL;	/* lowest block written (key/data) */
static long vf_uf_size;				/* for fstat in the re-open harness */

static errcode_t stub_uf_set_blksize(io_channel ch, int blksize)
{
	ch->block_size = blksize;
	return 0;
}

/* The three kinds of undo-file writes are told apart by the BUFFER (the header is data->hdr, the
 * superblock copy is a 1024-byte object), not by `count`: count is symbolic for data blocks (short
 * reads) and routing on it would make the solver explore the 512/1024-byte paths for every data write.
 * The count each kind must carry is CHECKED.  Native replay routes on count (concrete there). */
#ifdef VF_REPLAY
#define VF_BUF_IS_HDR(buf, count) ((count) == -(int) sizeof(struct undo_header))
#define VF_BUF_IS_SB(buf, count) ((count) == -SUPERBLOCK_SIZE)
#else
#define VF_BUF_IS_HDR(buf, count) ((const void *) (buf) == (const void *) &vf_data.hdr)
#define VF_BUF_IS_SB(buf, count) (__CPROVER_OBJECT_SIZE(buf) == SUPERBLOCK_SIZE && (count) != 1)
#endif

static errcode_t stub_uf_write_blk64(io_channel ch, unsigned long long block, int count, const void *buf)
{
	const unsigned char *b = buf;
	unsigned long long size;
	int i, u;

	if (VF_BUF_IS_HDR(buf, count)) {
		PROP(count == -(int) sizeof(struct undo_header), "env: the header is written with its exact size");
		PROP(block == 0, "env: the header is written at the start of the undo file");
#ifndef VF_LIGHT_INDEX
		if (!vf_light)
			memcpy(vf_uf_hdr, b, sizeof(struct undo_header));
#else
		/* STUB: (capture queries) only num_keys and fs_block_size of the header are recorded, the superblock copy is not modelled: the index format is the `index` harness's subject */
		for (i = 8; i < 16; i++)
			vf_uf_hdr[i] = b[i];
		for (i = 36; i < 40; i++)
			vf_uf_hdr[i] = b[i];
#endif
		vf_uf_hdr_writes++;
		return 0;
	}
	if (VF_BUF_IS_SB(buf, count)) {
		PROP(count == -SUPERBLOCK_SIZE, "env: the superblock copy is written with its exact size");
#ifndef VF_LIGHT_INDEX
		if (!vf_light)
			memcpy(vf_uf_sb, b, SUPERBLOCK_SIZE);
#endif
		vf_uf_sb_blk = block;
		vf_uf_sb_writes++;
		return 0;
	}
	PROP(ch->block_size == TDS, "env: undo file channel works in undo blocks");
	size = count < 0 ? (unsigned long long) -(long long) count : (unsigned long long) count * TDS;
	PROP(size >= 1 && size <= TDS && block < UCAP, "env: undo file write is one block inside the modelled file");
	vf_uf_writes++;
	if ((const void *) buf != vf_keyb_ptr) {	/* a data block */
		for (i = 0; i < VF_TRACE_MAX; i++)
			if (i == vf_uf_ndata)
				vf_uf_dlen[i] = size;
		vf_uf_ndata++;
	}
	if (block < vf_uf_lowest)
		vf_uf_lowest = block;
	for (u = 0; u < UCAP; u++)
		if (block == (unsigned long long) u)
			for (i = 0; i < TDS; i++)
				if ((unsigned long long) i < size)
					vf_uf[u][i] = b[i];
	return 0;
}

static errcode_t stub_uf_read_blk64(io_channel ch, unsigned long long block, int count, void *buf)
{
	unsigned char *b = buf;
	int i, u;

	if (count == -(int) sizeof(struct undo_header)) {
		PROP(block == 0, "env: the header is read from the start of the undo file");
		memcpy(b, vf_uf_hdr, sizeof(struct undo_header));
		return 0;
	}
	if (count == -SUPERBLOCK_SIZE) {
		PROP(block == vf_uf_sb_blk, "env: superblock copy is read from where the header says");
		memcpy(b, vf_uf_sb, SUPERBLOCK_SIZE);
		return 0;
	}
	PROP(count == 1 && ch->block_size == TDS && block < UCAP, "env: undo file read is one block inside the modelled file");
	for (u = 0; u < UCAP; u++)
		if (block == (unsigned long long) u)
			for (i = 0; i < TDS; i++)
				b[i] = vf_uf[u][i];
	return 0;
}
static errcode_t stub_uf_flush(io_channel ch) { (void) ch; vf_uf_flush++; return 0; }
static errcode_t stub_uf_close(io_channel ch) { (void) ch; vf_uf_closed++; return 0; }

static struct struct_io_manager stub_uf_mgr = {
	.magic = EXT2_ET_MAGIC_IO_MANAGER, .name = "C12 undo file model",
	.close = stub_uf_close, .set_blksize = stub_uf_set_blksize, .flush = stub_uf_flush,
	.read_blk64 = stub_uf_read_blk64, .write_blk64 = stub_uf_write_blk64,
};
static struct struct_io_channel vf_uchan;

/* ----------------------------------------------------- misc libext2fs */
/* STUB: exit-function registration succeeds and does nothing; UNDO_IO_SIMULATE_UNFINISHED is unset */
errcode_t ext2fs_add_exit_fn(ext2_exit_fn fn, void *data) { (void) fn; (void) data; return 0; }
errcode_t ext2fs_remove_exit_fn(ext2_exit_fn fn, void *data) { (void) fn; (void) data; return 0; }
#ifndef VF_GETENV_VALUE
#define VF_GETENV_VALUE 0
#endif
char *ext2fs_safe_getenv(const char *arg) { (void) arg; return VF_GETENV_VALUE; }
int ext2fs_open_file(const char *pathname, int flags, mode_t mode)
{
	(void) pathname; (void) flags; (void) mode;
	return 5;
}
int ext2fs_fstat(int fd, ext2fs_struct_stat *buf)
{
	(void) fd;
	buf->st_size = vf_uf_size;
	return 0;
}

/* independent little-endian decoding of on-disk fields */
static unsigned long long ref_le(const unsigned char *p, int n)
{
	unsigned long long v = 0;
	int i;
	for (i = n - 1; i >= 0; i--)
		v = (v << 8) | p[i];
	return v;
}
static void ref_put_le(unsigned char *p, int n, unsigned long long v)
{
	int i;
	for (i = 0; i < n; i++)
		p[i] = (unsigned char) (v >> (8 * i));
}

static void vf_setup_channels(struct struct_io_channel *io, struct undo_private_data *d)
{
	vf_rchan.magic = EXT2_ET_MAGIC_IO_CHANNEL;
	vf_rchan.manager = &stub_real_mgr;
	vf_rchan.block_size = BS;
	vf_rchan.refcount = 1;
	vf_rchan.read_error = undo_io_read_error;	/* undo_open: undo_err_handler_init(data->real) */
	vf_uchan.magic = EXT2_ET_MAGIC_IO_CHANNEL;
	vf_uchan.manager = &stub_uf_mgr;
	vf_uchan.block_size = TDS;
	vf_uchan.refcount = 1;
	io->magic = EXT2_ET_MAGIC_IO_CHANNEL;
	io->manager = undo_io_manager;
	io->block_size = BS;
	io->refcount = 1;
	io->private_data = d;
	d->magic = EXT2_ET_MAGIC_UNIX_IO_CHANNEL;
	d->undo_file = &vf_uchan;
	d->real = &vf_rchan;
	d->super_blk_num = 1;
	d->first_key_blk = 2;
}
