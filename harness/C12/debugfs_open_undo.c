/*
 * C12/debugfs_open_undo: debugfs/debugfs.c:open_filesystem() (open -w -z FILE / debugfs -w -z FILE):
 * call order of the undo set-up and ext2fs_open() (pattern P).  Real code: open_filesystem(),
 * debugfs_setup_tdb().  ext2fs_open() is a protocol stub that records the manager it is handed;
 * its first call fails with a plain error, fails with EXT2_ET_SB_CSUM_INVALID (open_filesystem
 * then retries with IGNORE_CSUM_ERRORS) or succeeds (symbolic).
 *
 * Asserted: with an undo file every ext2fs_open() -- the retry included -- is handed
 * undo_io_manager, after the unix manager was made the backing manager and the file named
 * with -z was set; a failed undo set-up exits before any open (no fall-back to plain unix_io).
 * Without -z the open uses unix_io_manager and the undo manager is never set up.
 */
#include "config.h"
#include <stdio.h>
#include <stdlib.h>
#include <string.h>
#include <unistd.h>
#include <errno.h>
#include <libgen.h>
#include "ext2fs/ext2_fs.h"
#include "ext2fs/ext2fs.h"

#ifndef UNDO
#define UNDO 1
#endif
void vf_exit(int code);
#define exit(c) vf_exit(c)
#define printf(...) ((void) 0)
#define main vf_real_main
#include "debugfs/debugfs.c"
#undef main
#undef exit
#undef printf

struct vf_in {
	int open_flags;
	unsigned char catastrophic, open_rc, fail_backing, fail_file, bitmaps_fail;
	unsigned long long superblock, blocksize;
};
VF_DECLARE_INPUT(struct vf_in, IN)
#include "vf_input.inc"
#include "env.c"

static struct struct_io_manager vf_unix_mgr, vf_undo_mgr;
io_manager unix_io_manager = &vf_unix_mgr;
io_manager undo_io_manager = &vf_undo_mgr;
static int vf_seq, vf_n_backing, vf_n_file, vf_seq_backing, vf_seq_file, vf_seq_open, vf_nopen, vf_bad_mgr, vf_file_is_u;
static int vf_retry_flag_ok = 1;
static io_manager vf_rec_backing;
static struct struct_ext2_filsys vf_fs;

static void vf_finish(void)
{
#if UNDO
	PROP(!vf_bad_mgr, "debugfs -z: every filesystem open (the checksum retry included) goes through the undo io manager");
	if (vf_nopen) {
		PROP(vf_n_backing == 1 && vf_rec_backing == unix_io_manager && vf_seq_backing < vf_seq_open,
		     "debugfs -z: the unix manager was made the backing manager before the filesystem is opened");
		PROP(vf_n_file == 1 && vf_file_is_u && vf_seq_file < vf_seq_open,
		     "debugfs -z: the undo file named with -z was set before the filesystem is opened");
		PROP(!(IN.fail_backing & 1) && !(IN.fail_file & 1),
		     "debugfs -z: a failed undo set-up never reaches the filesystem open (no fall-back to plain unix_io)");
	}
#else
	PROP(!vf_bad_mgr && vf_n_backing == 0 && vf_n_file == 0, "without -z the filesystem is opened through the unix manager and the undo manager is never set up");
#endif
	PROP(vf_nopen <= 2 && vf_retry_flag_ok, "at most one retry, and only with IGNORE_CSUM_ERRORS added");
	VF_END();
#ifdef VF_REPLAY
	fflush(0);
	_exit(0);
#else
	__CPROVER_assume(0);
#endif
}
void vf_exit(int code) { (void) code; vf_finish(); }

/* STUB: ext2fs_open() records manager and order; first call: plain error / EXT2_ET_SB_CSUM_INVALID / success (symbolic); second call succeeds */
errcode_t ext2fs_open(const char *name, int flags, int superblock, unsigned int block_size,
		      io_manager manager, ext2_filsys *ret_fs)
{
	(void) name; (void) superblock; (void) block_size;
	if (vf_nopen == 0)
		vf_seq_open = ++vf_seq;
	else if (!(flags & EXT2_FLAG_IGNORE_CSUM_ERRORS))
		vf_retry_flag_ok = 0;
	if (manager != (UNDO ? undo_io_manager : unix_io_manager))
		vf_bad_mgr = 1;
	vf_nopen++;
	if (vf_nopen == 1 && (IN.open_rc & 3) == 1)
		return EXT2_ET_SB_CSUM_INVALID;
	if (vf_nopen == 1 && (IN.open_rc & 3) == 2)
		return EXT2_ET_UNSUPP_FEATURE;
	vf_fs.magic = EXT2_ET_MAGIC_EXT2FS_FILSYS;
	*ret_fs = &vf_fs;
	return 0;
}
errcode_t ext2fs_read_bitmaps(ext2_filsys fs) { (void) fs; return (IN.bitmaps_fail & 1) ? EXT2_ET_BAD_MAGIC : 0; }
errcode_t ext2fs_close_free(ext2_filsys *fs) { *fs = 0; return 0; }
/* STUB: set_undo_io_backing_manager()/set_undo_io_backup_file() record argument and order; each fails on a symbolic bit */
errcode_t set_undo_io_backing_manager(io_manager manager)
{
	vf_n_backing++;
	vf_seq_backing = ++vf_seq;
	vf_rec_backing = manager;
	return (IN.fail_backing & 1) ? EXT2_ET_INVALID_ARGUMENT : 0;
}
errcode_t set_undo_io_backup_file(char *file_name)
{
	vf_n_file++;
	vf_seq_file = ++vf_seq;
	vf_file_is_u = (file_name[0] == 'u' && file_name[1] == 0);
	return (IN.fail_file & 1) ? EXT2_ET_NO_MEMORY : 0;
}

int main(void)
{
	static char dev[2] = "d", undo[2] = "u";
	VF_INPUT(IN);
	/* BOUND: open flags, catastrophic, superblock/blocksize symbolic; no data file (-d); undo file name "u" (UNDO=1) or none (UNDO=0) */
	open_filesystem(dev, IN.open_flags, IN.superblock, IN.blocksize, IN.catastrophic & 1, 0, UNDO ? (char *) undo : (char *) 0);
	vf_finish();
	return 0;
}
