/*
 * C12/chanops: the undo manager's channel operations that do not capture:
 * undo_set_blksize(), undo_read_blk64()/undo_read_blk(), undo_close()
 * (lib/ext2fs/undo_io.c), one call each from a symbolic state (pattern P/T:
 * both channels below the undo manager are RECORDING stubs with failure injection).
 *
 * OP 1  undo_set_blksize: reference = the undo file format's rule that ONE undo block
 *       size (header.block_size, 1 KiB..1 MiB as e2undo accepts) holds for the whole
 *       file: the size follows the channel block size only while nothing was captured
 *       and no explicit tdb_data_size option fixed it; afterwards only the channel and
 *       the backing channel change; a size e2undo would refuse is refused untouched.
 * OP 2  undo_read_blk64 / undo_read_blk: pure pass-through (same block, count, buffer,
 *       result); reading never starts the undo file, never touches map or keys.
 * OP 3  undo_close: last reference: the header written LAST carries state FINISHED
 *       (unless UNDO_IO_SIMULATE_UNFINISHED), the current key block, header and
 *       superblock copy are written and flushed BEFORE the undo file is closed, the
 *       superblock is read from the device BEFORE the device is closed, both channels are
 *       closed exactly once even on errors, an index/flush error is returned (else the
 *       device's close result); a non-last reference only drops the count.
 */
#define VF_CHEAP_CRC
#define VF_LIGHT_INDEX
#ifdef SIMUNF
#define VF_GETENV_VALUE ((char *) "1")
#endif
#include "undo_pre.h"
#if defined(OP) && OP == 4
/* STUB: (OP 4) strtoul is a decimal-only parser with the libc contract for *end (same code in the solver run and the native replay) */
static unsigned long vf_strtoul(const char *s, char **end, int base);
#define strtoul vf_strtoul
#endif
#include "lib/ext2fs/undo_io.c"
#if defined(OP) && OP == 4
#undef strtoul
static unsigned long vf_strtoul(const char *s, char **end, int base)
{
	unsigned long v = 0;
	int i;
	(void) base;
	for (i = 0; i < 10 && s[i] >= '0' && s[i] <= '9'; i++)
		v = v * 10 + (unsigned long) (s[i] - '0');
	if (end)
		*end = (char *) s + i;
	return v;
}
#endif
#include "lib/ext2fs/io_manager.c"
#include "env.c"
#define NBLK 2
#define UCAP 4
#include "undo_env.h"

#ifndef OP
#define OP 1
#endif
#ifndef FAIL
#define FAIL 0	/* OP 3: 1 key block write, 2 header write, 3 superblock copy write, 4 flush, 5 device close, 6 superblock read fails */
#endif

struct vf_in {
	unsigned long long tds;
	int written;
	int cbs, blksize;
	unsigned char real_fail;
	unsigned long long block;
	int count;
	unsigned char kib, refcount;
	__u32 state0;
	unsigned int num_keys;
};
VF_DECLARE_INPUT(struct vf_in, IN)
#include "vf_input.inc"

/* STUB: (chanops) both lower channels record every call with a global sequence number; the call selected by FAIL (or real_fail) returns an error */
static int vf_seq;
static int n_rset, n_rread, n_rclose, n_uwrite_kb, n_uwrite_hdr, n_uwrite_sb, n_uflush, n_uclose, n_uother;
static int s_rread_sb, s_rclose, s_uwrite_kb, s_uwrite_hdr, s_uwrite_sb, s_uflush, s_uclose, s_last_uf_io;
static int rec_rset_arg;
static unsigned long long rec_rread_block;
static int rec_rread_count;
static void *rec_rread_buf;
static __u32 rec_hdr_state;
static unsigned long long rec_hdr_num_keys, rec_kb_blk;
#define E_INJ EXT2_ET_SHORT_WRITE

static errcode_t stub_o_rset(io_channel ch, int blksize)
{
	n_rset++;
	rec_rset_arg = blksize;
#if OP == 1
	if (IN.real_fail & 1)
		return EXT2_ET_INVALID_ARGUMENT;
#endif
	ch->block_size = blksize;
	return 0;
}
static errcode_t stub_o_rread(io_channel ch, unsigned long long block, int count, void *buf)
{
	(void) ch;
	n_rread++;
	rec_rread_block = block;
	rec_rread_count = count;
	rec_rread_buf = buf;
#if OP != 2
	if (count == -SUPERBLOCK_SIZE) {
		int i;
		s_rread_sb = ++vf_seq;
		PROP(n_rclose == 0, "the superblock is read from the device before the device is closed");
#if OP == 3 && FAIL == 6
		return EXT2_ET_SHORT_READ;
#endif
		(void) i;
		memset(buf, 0, SUPERBLOCK_SIZE);
		return 0;
	}
#endif
#if OP == 2
	if (IN.real_fail & 1)
		return EXT2_ET_SHORT_READ;
#endif
	return 0;
}
static errcode_t stub_o_rread32(io_channel ch, unsigned long block, int count, void *buf)
{
	return stub_o_rread(ch, block, count, buf);
}
static errcode_t stub_o_rclose(io_channel ch)
{
	(void) ch;
	n_rclose++;
	s_rclose = ++vf_seq;
#if OP == 3 && FAIL == 5
	return EXT2_ET_BAD_DEVICE_NAME;
#endif
	return 0;
}
static errcode_t stub_o_uwrite(io_channel ch, unsigned long long block, int count, const void *buf)
{
	const unsigned char *b = buf;
	(void) ch;
	PROP(n_uclose == 0, "nothing is written to the undo file after it was closed");
	s_last_uf_io = ++vf_seq;
	if (count == -(int) sizeof(struct undo_header)) {
		n_uwrite_hdr++;
		s_uwrite_hdr = vf_seq;
		PROP(block == 0, "env: header at the start of the undo file");
		rec_hdr_state = (__u32) ref_le(b + 44, 4);
		rec_hdr_num_keys = ref_le(b + 8, 8);
#if OP == 3 && FAIL == 2
		return E_INJ;
#endif
		return 0;
	}
	if (count == -SUPERBLOCK_SIZE) {
		n_uwrite_sb++;
		s_uwrite_sb = vf_seq;
#if OP == 3 && FAIL == 3
		return E_INJ;
#endif
		return 0;
	}
	if (count == 1 && buf == vf_keyb_ptr) {
		n_uwrite_kb++;
		s_uwrite_kb = vf_seq;
		rec_kb_blk = block;
#if OP == 3 && FAIL == 1
		return E_INJ;
#endif
		return 0;
	}
	n_uother++;
	return 0;
}
static errcode_t stub_o_uread(io_channel ch, unsigned long long block, int count, void *buf)
{
	(void) ch; (void) block; (void) count; (void) buf;
	n_uother++;
	return 0;
}
static errcode_t stub_o_uset(io_channel ch, int blksize)
{
	ch->block_size = blksize;
	n_uother++;
	return 0;
}
static errcode_t stub_o_uflush(io_channel ch)
{
	(void) ch;
	PROP(n_uclose == 0, "the undo file is not flushed after it was closed");
	n_uflush++;
	s_uflush = ++vf_seq;
#if OP == 3 && FAIL == 4
	return E_INJ;
#endif
	return 0;
}
static errcode_t stub_o_uclose(io_channel ch)
{
	(void) ch;
	n_uclose++;
	s_uclose = ++vf_seq;
	return 0;
}
static struct struct_io_manager stub_o_real_mgr = {
	.magic = EXT2_ET_MAGIC_IO_MANAGER, .name = "C12 recording device",
	.close = stub_o_rclose, .set_blksize = stub_o_rset, .read_blk = stub_o_rread32, .read_blk64 = stub_o_rread,
};
static struct struct_io_manager stub_o_uf_mgr = {
	.magic = EXT2_ET_MAGIC_IO_MANAGER, .name = "C12 recording undo file",
	.close = stub_o_uclose, .set_blksize = stub_o_uset, .flush = stub_o_uflush,
	.read_blk64 = stub_o_uread, .write_blk64 = stub_o_uwrite,
};

static unsigned long long vf_keyb_store[TDS / 8];

int main(void)
{
	io_channel ch = &vf_chan;
	struct undo_private_data *d = &vf_data;
	errcode_t rc;
	static unsigned char buf[16];

	VF_INPUT(IN);
#if OP == 3
	/* undo_close() frees the channel, its private data and the key block: they are heap objects here */
	ch = malloc(sizeof(*ch));
	d = malloc(sizeof(*d));
	{
		static struct struct_io_channel z_ch;
		static struct undo_private_data z_d;
		*ch = z_ch;
		*d = z_d;
	}
#endif
	vf_setup_channels(ch, d);
	vf_rchan.manager = &stub_o_real_mgr;
	vf_uchan.manager = &stub_o_uf_mgr;

#if OP == 1
	/* ---------------------------------------------------------------- undo_set_blksize */
	{
		int in_range, follows;
		unsigned long long exp_tds;
		/* BOUND: any tdb_data_size < 2^32, any int block size; tdb_written in {-1 (fixed by the tdb_data_size option), 0 (nothing captured), 1 (captured)} */
		ASSUME(IN.tds < (1ULL << 32));
		ASSUME(IN.written >= -1 && IN.written <= 1);
		/* Inv: once something was captured the undo block size is set */
		if (IN.written != 0)
			ASSUME(IN.tds != 0);
		ASSUME(IN.cbs > 0);
		d->tdb_data_size = IN.tds;
		d->tdb_written = IN.written;
		ch->block_size = IN.cbs;
		vf_rchan.block_size = IN.cbs;
		rc = undo_io_manager->set_blksize(ch, IN.blksize);
		in_range = IN.blksize >= 1024 && IN.blksize <= 1048576;
		follows = in_range && IN.written == 0;
		exp_tds = follows ? (unsigned long long) IN.blksize : IN.tds;
		PROP(d->tdb_data_size == exp_tds,
		     "the undo block size follows the channel block size only while nothing was captured and no option fixed it; one size per undo file afterwards");
		PROP(d->tdb_written == IN.written, "set_blksize does not change whether something was captured");
		if (!in_range) {
			PROP(rc == EXT2_ET_INVALID_ARGUMENT && n_rset == 0 && ch->block_size == IN.cbs && vf_rchan.block_size == IN.cbs,
			     "a block size e2undo would refuse (outside 1 KiB..1 MiB) is refused with nothing changed");
		} else {
			PROP(n_rset == 1 && rec_rset_arg == IN.blksize, "the backing channel is switched to the same block size, once");
			PROP(rc == ((IN.real_fail & 1) ? EXT2_ET_INVALID_ARGUMENT : 0), "the backing channel's result is returned");
			if (rc == 0)
				PROP(ch->block_size == IN.blksize && vf_rchan.block_size == ch->block_size,
				     "channel and backing channel agree on the new block size (captures convert blocks to bytes with it)");
		}
		PROP(n_uwrite_kb + n_uwrite_hdr + n_uwrite_sb + n_uflush + n_uother == 0, "set_blksize does not touch the undo file");
	}
#elif OP == 4
	/* ---------------------------------------------------------------- undo_set_option("tdb_data_size") */
	{
		/* BOUND: the option argument is one of a few concrete strings (ARG): valid sizes, a size e2undo refuses, garbage, NULL; state as in OP 1 */
#if ARG == 0
		const char *arg = "4096";
		const unsigned long val = 4096; const int ok = 1;
#elif ARG == 1
		const char *arg = "1024";
		const unsigned long val = 1024; const int ok = 1;
#elif ARG == 2
		const char *arg = "512";
		const unsigned long val = 512; const int ok = 0;
#elif ARG == 3
		const char *arg = "2097152";
		const unsigned long val = 2097152; const int ok = 0;
#elif ARG == 4
		const char *arg = "40x6";
		const unsigned long val = 0; const int ok = 0;
#else
		const char *arg = 0;
		const unsigned long val = 0; const int ok = 0;
#endif
		ASSUME(IN.tds < (1ULL << 32));
		ASSUME(IN.written >= -1 && IN.written <= 1);
		if (IN.written != 0)
			ASSUME(IN.tds != 0);
		d->tdb_data_size = IN.tds;
		d->tdb_written = IN.written;
		rc = undo_io_manager->set_option(ch, "tdb_data_size", arg);
		if (!ok) {
			PROP(rc == EXT2_ET_INVALID_ARGUMENT, "tdb_data_size: a missing, malformed or out-of-range (1 KiB..1 MiB) size is refused");
			PROP(d->tdb_data_size == IN.tds && d->tdb_written == IN.written, "a refused option changes nothing");
		} else {
			PROP(rc == 0, "tdb_data_size: a valid size is accepted");
			if (IN.written == 1) {
				/* the undo file exists (set up by a capture or loaded by a re-open): one block size per undo file */
				PROP(d->tdb_data_size == IN.tds && d->tdb_written == 1,
				     "once the undo file is set up or re-opened the option no longer changes its block size (one size per undo file)");
			} else if (IN.written == 0) {
				PROP(d->tdb_data_size == val, "before anything was captured the option fixes the undo block size");
				PROP(d->tdb_written == -1, "a size fixed by option no longer follows set_blksize (state -1)");
			} else {
				PROP(d->tdb_written == -1 && (d->tdb_data_size == IN.tds || d->tdb_data_size == val),
				     "an already option-fixed size stays option-fixed");
			}
		}
		PROP(n_rset + n_uwrite_kb + n_uwrite_hdr + n_uwrite_sb + n_uflush + n_uother == 0, "the option touches neither channel");
		(void) val;
	}
#elif OP == 2
	/* ---------------------------------------------------------------- undo_read_blk64 / undo_read_blk */
	{
		d->tdb_data_size = TDS;
		ASSUME(IN.written >= -1 && IN.written <= 1);
		d->tdb_written = IN.written;
		d->num_keys = IN.num_keys;
#ifdef READ32
		ASSUME(IN.block < (1ULL << 32));
		rc = undo_io_manager->read_blk(ch, (unsigned long) IN.block, IN.count, buf);
#else
		rc = undo_io_manager->read_blk64(ch, IN.block, IN.count, buf);
#endif
		PROP(n_rread == 1 && rec_rread_block == IN.block && rec_rread_count == IN.count && rec_rread_buf == (void *) buf,
		     "a read is passed to the backing channel unchanged (block, count, buffer), once");
		PROP(rc == ((IN.real_fail & 1) ? EXT2_ET_SHORT_READ : 0), "the backing channel's result is returned");
		PROP(n_uwrite_kb + n_uwrite_hdr + n_uwrite_sb + n_uflush + n_uother == 0 && vf_bm_alloc == 0 && vf_crc_calls == 0,
		     "reading does not start or touch the undo file");
		PROP(d->tdb_written == IN.written && d->num_keys == IN.num_keys && d->tdb_data_size == TDS, "reading does not change the capture state");
		PROP(n_rset == 0 && n_rclose == 0, "reading does not reconfigure the backing channel");
	}
#else
	/* ---------------------------------------------------------------- undo_close */
	{
		unsigned kib;
		int last;
		d->tdb_data_size = TDS;
		d->tdb_written = 1;
		d->keyb = malloc(TDS);
		vf_keyb_ptr = d->keyb;
		d->written_block_map = (ext2fs_block_bitmap) &vf_bm_obj;
		d->key_blk_num = 2;
		d->undo_blk_num = 3;
		/* BOUND: 0..KPB keys in the current key block, reference count 1..2, header state word and num_keys symbolic */
		ASSUME(IN.kib <= KPB);
#if FAIL == 1
		ASSUME(IN.kib >= 1);	/* the key block write can only fail if there is one */
#endif
		kib = IN.kib;
		d->keys_in_block = kib;
		ASSUME(IN.num_keys >= kib);
		d->num_keys = IN.num_keys;
		d->hdr.state = IN.state0;
		ASSUME(IN.refcount >= 1 && IN.refcount <= 2);
		ch->refcount = IN.refcount;
		last = IN.refcount == 1;
		rc = undo_io_manager->close(ch);
		if (!last) {
			PROP(rc == 0 && vf_seq == 0 && n_rset == 0 && n_uother == 0 && ch->refcount == 1,
			     "closing a non-last reference only drops the reference count");
		} else {
			PROP(n_uclose == 1 && n_rclose == 1, "device and undo file are each closed exactly once, also after an error");
			PROP(s_last_uf_io < s_uclose && s_uflush < s_uclose, "all index writes and the flush precede the close of the undo file");
			PROP(n_uwrite_kb == (kib ? 1 : 0), "the current key block is written iff it holds keys");
			if (kib)
				PROP(rec_kb_blk == 2, "the key block goes to its reserved position");
#if FAIL == 1
			PROP(rc == E_INJ, "a failing key block write is reported by close");
			PROP(kib ? n_uwrite_hdr == 0 : 1, "(no header is written after the key block failed)");
#elif FAIL == 6
			PROP(rc == EXT2_ET_SHORT_READ, "a failing superblock read is reported by close");
#else
			PROP(n_uwrite_hdr == 1, "the header is written once by close");
			PROP(kib == 0 || s_uwrite_kb < s_uwrite_hdr, "the key block is in the file before the header that counts its keys");
			PROP(s_rread_sb != 0 && s_rread_sb < s_uwrite_hdr, "the header's superblock checksum is taken from the device before the header is written");
			PROP(rec_hdr_num_keys == IN.num_keys, "the header written by close counts all keys");
#ifdef SIMUNF
			PROP(rec_hdr_state == IN.state0, "UNDO_IO_SIMULATE_UNFINISHED: the state is left as it was");
#else
			PROP(rec_hdr_state == 1, "the header written by close says FINISHED");
#endif
#if FAIL == 2
			PROP(rc == E_INJ && n_uwrite_sb == 0, "a failing header write is reported by close");
#elif FAIL == 3
			PROP(rc == E_INJ, "a failing superblock copy write is reported by close");
#elif FAIL == 4
			PROP(rc == E_INJ && n_uflush == 1, "a failing flush of the undo file is reported by close");
#elif FAIL == 5
			PROP(rc == EXT2_ET_BAD_DEVICE_NAME, "a failing close of the device is reported");
#else
			PROP(rc == 0, "close succeeds");
#endif
#if FAIL == 0 || FAIL == 5
			PROP(n_uwrite_sb == 1 && s_uwrite_hdr < s_uwrite_sb && s_uwrite_sb < s_uflush && n_uflush == 1,
			     "header, superblock copy, then one flush of the undo file");
#endif
#endif
			PROP(vf_bm_free == 1, "the block map is released");
			PROP(vf_rchan.block_size == BS || FAIL == 6 || FAIL == 1, "the device's block size is restored after the superblock read");
		}
	}
#endif
	VF_END();
	return 0;
}
