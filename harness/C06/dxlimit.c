/*
 * C06/dxlimit: __get_dx_countlimit() (lib/ext2fs/csum.c, reached through
 * ext2fs_get_dx_countlimit and ext2fs_dx_csum) locates the htree count/limit
 * pair inside a hostile directory block.  The block is a heap object of exactly
 * fs->blocksize bytes (pattern S); on success the harness asserts the contract
 * ext2fs_dx_csum() relies on when it indexes `limit' 8-byte entries from there:
 *     the pair and limit/count entries of 8 bytes lie inside the block.
 */
#include "lib/ext2fs/csum.c"

#ifndef BS
#define BS 64
#endif
struct vf_in { unsigned char blk[BS]; };
VF_DECLARE_INPUT(struct vf_in, IN)
#include "vf_input.inc"

int main(void)
{
	static struct struct_ext2_filsys fs_s;
	static struct ext2_super_block sb;
	struct ext2_dx_countlimit *c = 0;
	unsigned char *blk;
	int off = -1, i;
	errcode_t rc;

	VF_INPUT(IN);
	fs_s.magic = EXT2_ET_MAGIC_EXT2FS_FILSYS;
	fs_s.super = &sb;
	/* BOUND: directory block scaled to BS bytes (real minimum 1024) */
	fs_s.blocksize = BS;
	blk = malloc(BS);
	for (i = 0; i < BS; i++)
		blk[i] = IN.blk[i];
	rc = ext2fs_get_dx_countlimit(&fs_s, (struct ext2_dir_entry *) blk, &c, &off);
	PROP(rc == 0 || rc == EXT2_ET_DB_NOT_FOUND || rc == EXT2_ET_DIR_NO_SPACE_FOR_CSUM, "documented status");
	if (rc == 0) {
		unsigned int limit = blk[off] | (blk[off + 1] << 8), count = blk[off + 2] | (blk[off + 3] << 8);
		PROP(off == 8 || off == 32, "count/limit at offset 8 (node) or 32 (root)");
		PROP((unsigned char *) c == blk + off, "returned pointer is block+offset");
		PROP(off + 8u * limit <= BS && off + 8u * count <= BS, "limit and count entries lie inside the block");
	}
	VF_END();
	return 0;
}
