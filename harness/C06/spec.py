META = {
    "assumptions": ["allocation failure out of scope (--no-malloc-may-fail)",
                    "block / region sizes scaled (directory block 64/32 bytes, journal block 64 bytes, extent root only); "
                    "each buffer is a heap object of exactly the advertised size so CBMC's pointer checks and the ASan replay are tight",
                    "intnode_mem: db->blockcnt < numblocks (check_dir_block sizes dx_block[] from the directory's block list); eablock_mem: i_file_acl inside the filesystem, block not seen before",
                    "memsafe queries use the default SAT back end only (external-solver runs cannot label multi-property failures)"],
    "outside": ["whole-tool runs (e2fsck, debugfs, dumpe2fs, tune2fs, resize2fs, e2image, e2undo, e2freefrag mains), exit status, stack depth, hangs in loops over the whole image",
                "ext2fs_open2 superblock geometry validation, xattr parsers (read_xattrs_from_buffer, check_ext_attr_header), inline-data EA path, "
                "qcow2 / undo-file headers, mmp / orphan blocks, e2fsck pass1/pass2 checkers other than check_ext_attr (eablock_mem; its callee check_large_ea_inode is cut, the hash functions are replaced by their read contract) and parse_int_node (intnode_mem), do_one_pass tag loop, __get_dirent_tail (needs blocksize >= 1024): no harness yet",
                "ext2fs_extent_get below the root (depth >= 1): the walk harness does not reach a verdict within 8 GB (1-2 M SAT variables per step); "
                "only ext2fs_extent_header_verify (all inputs) and depth-0 walks (thorough tier) are decided",
                "formation / comparison of out-of-object pointers without access (count_tags tagp += 16 past the block end) is reported as UB-REPORT, not decided as a defect"],
}

def dir_cfg(mode, flags, n, tier="quick"):
    """loop bounds of ext2fs_process_dir_block derived from the region length n:
    .1 outer loop: at least 8 bytes per iteration while offset < n-8;
    .0 deleted-entry scan: 4 bytes per iteration from offset >= 12 up to final_offset <= n;
    ext2fs_validate_entry.0: >= 8 bytes per iteration"""
    removed = bool(flags & 2)
    outer = (n - 8 + 7) // 8
    inner = (n - 12) // 4 + 1
    val = (n - 12) // 8 + 1
    d = {"MODE": mode, "FLAGS": flags, "_tier": tier,
         "_unwindset": ["main.0:2", "main.1:%d" % (n + 1), "main.2:2", "ext2fs_read_dir_block4.0:%d" % (n + 1),
                        "ext2fs_process_dir_block.1:%d" % (outer + 2), "ext2fs_process_dir_block.0:%d" % (inner + 2),
                        "ext2fs_validate_entry.0:%d" % (val + 2)]}
    d["LEN" if mode == 1 else "BS"] = n
    return d

def dir_cfgs():
    c = []
    for flags in (0, 1, 5):
        c.append(dir_cfg(0, flags, 64))
    for flags in (2, 7):
        c.append(dir_cfg(0, flags, 32))
        c.append(dir_cfg(0, flags, 64, "thorough"))
    for flags in (0, 1):
        c.append(dir_cfg(1, flags, 56))
    c.append(dir_cfg(1, 3, 24))
    c.append(dir_cfg(1, 3, 56, "thorough"))
    return c

import importlib.util as _ilu, os as _os
def _e2undo(prop):
    p = _os.path.join(_os.path.dirname(_os.path.abspath(__file__)), "..", "E2UNDO", "spec.py")
    s = _ilu.spec_from_file_location("spec_E2UNDO_for_" + prop, p)
    m = _ilu.module_from_spec(s)
    s.loader.exec_module(m)
    return m.ENTRIES_FOR(prop)
HARNESSES = [
    dict(name="dirblock", src="dirblock.c",
         funcs=["ext2fs_process_dir_block", "ext2fs_get_rec_len", "ext2fs_validate_entry"],
         stubs=["ext2fs_read_dir_block4", "ext2fs_write_dir_block4"],
         configs=dir_cfgs(), checks="memsafe", unwind=3, cbmc_flags=["--object-bits", "12"],
         backends=["default"],
         bound="64-byte block / 56-byte inline region (32 / 24 bytes with DIRENT_FLAG_INCLUDE_REMOVED in the quick tier), "
               "every byte symbolic; flag word per query"),
]
def jcfg(name, op, funcs, loops):
    return dict(name=name, src="jtags.c", funcs=funcs, stubs=["jbd2_journal_set_revoke"],
                configs=[{"OP": op, "JBS": 64}], checks="memsafe", unwind=3,
                unwindset=["main.0:2", "main.1:65", "main.2:2"] + loops, backends=["default"],
                bound="journal block of 64 bytes (heap object = buffer_head header + 64, as getblk allocates), every byte "
                      "and the journal feature words symbolic")
HARNESSES.append(jcfg("jtags", 1, ["count_tags", "journal_tag_bytes"], ["count_tags.0:9"]))
HARNESSES.append(jcfg("jrevoke", 2, ["scan_revoke_records"], ["scan_revoke_records.0:20"]))
EOPS = {"CURRENT": 0, "ROOT": 1, "LAST_LEAF": 2, "FIRST_SIB": 3, "LAST_SIB": 4, "NEXT_SIB": 5, "PREV_SIB": 6,
        "NEXT_LEAF": 7, "PREV_LEAF": 8, "NEXT": 9, "PREV": 10, "UP": 11, "DOWN": 12, "DOWN_AND_LAST": 13, "BAD": 14}
def ext_cfg(seq, depth=2, tier="quick", nreads=4):
    d = {"MAXDEPTH": depth, "EBS": 64, "NREADS": nreads, "_tier": tier}
    for i, o in enumerate(seq.split()):
        d["OP%d" % (i + 1)] = EOPS[o]
    d["_unwindset"] = ["main.%d:2" % i for i in range(2 + len(seq.split()))] + ["vf_check_cursor.0:%d" % (depth + 2),
                       "io_channel_read_blk64.0:%d" % (nreads + 1), "ext2fs_extent_open2.0:16",
                       "ext2fs_extent_free.0:%d" % (depth + 2), "ext2fs_extent_get.0:%d" % (depth + 2),
                       "ext2fs_extent_get.1:%d" % (2 * depth + 3), "ext2fs_extent_get.2:%d" % (2 * depth + 3)]
    return d
EXT_WALKS = [ext_cfg("ROOT NEXT_SIB PREV_SIB", 0, "thorough", nreads=1), ext_cfg("LAST_SIB PREV_SIB CURRENT", 0, "thorough", nreads=1),
             ]   # "NEXT NEXT" at depth 0: SAT back end out of memory (18 GB) -> not registered
HARNESSES.append(
    dict(name="exthdr", src="exthdr.c", funcs=["ext2fs_extent_header_verify"], checks="memsafe", unwind=3,
         unwindset=["main.0:2", "main.1:13", "main.2:2"], backends=["default"],
         bound="every 12-byte header; node size 60 or any power of two 1024..65536"))
HARNESSES.append(
    dict(name="extent", src="extent.c",
         funcs=["ext2fs_extent_open2", "ext2fs_extent_get", "ext2fs_extent_header_verify", "ext2fs_extent_free"],
         stubs=["io_channel_read_blk64"],
         configs=EXT_WALKS, checks="memsafe", unwind=3, backends=["default"],
         bound="i_block root (60 bytes) + up to 4 tree blocks of 64 bytes, all symbolic; walks of up to 4 operations "
               "fixed per query (every EXT2_EXTENT_* movement occurs in some walk); root depth <= 2 (<= 1 for *_LEAF walks in quick)"))
HARNESSES.append(
    dict(name="dxlimit", src="dxlimit.c", funcs=["__get_dx_countlimit", "ext2fs_get_dx_countlimit"], checks="memsafe",
         unwind=3, unwindset=["main.0:2", "main.1:65", "main.2:2"], backends=["default"],
         bound="64-byte directory block, every byte symbolic"))
def _readbuf():
    """read_xattrs_from_buffer() on arbitrary entry bytes (source harness/C15/readbuf.c): an entry whose value does not lie inside the
    value area (or overlaps the entry table) is rejected before any byte of it is read"""
    p = _os.path.join(_os.path.dirname(_os.path.abspath(__file__)), "..", "C15", "spec.py")
    sp = _ilu.spec_from_file_location("spec_C15_for_C06", p)
    m = _ilu.module_from_spec(sp)
    sp.loader.exec_module(m)
    for h in m.HARNESSES:
        if h["name"] == "readbuf":
            d = dict(h)
            d["src"] = "../C15/readbuf.c"
            d["configs"] = [c for c in h["configs"] if c.get("_tier") != "thorough"][:2]
            return [d]
    raise RuntimeError("C15 readbuf harness missing")
HARNESSES += _readbuf()
HARNESSES += _e2undo("C06")   # the real main() of misc/e2undo.c (sources in harness/E2UNDO)
# e2fsck pass-2 htree index node reader on arbitrary node bytes: dx_block[] (heap array of exactly numblocks elements) is never indexed out of range
def _int_cfg(blk, cnt, nbk, ans, tier="quick"):
    return {"BLK": blk, "BLOCKCNT": cnt, "NBK": nbk, "ANS": ans, "_tier": tier}
HARNESSES.append(
    dict(name="intnode_mem", src="intnode_mem.c", funcs=["parse_int_node", "clear_htree"],
         stubs=["fix_problem", "e2fsck_read_inode", "e2fsck_write_inode", "e2fsck_rehash_dir_later"],
         configs=[_int_cfg(48, 1, 3, 2), _int_cfg(48, 1, 3, 0), _int_cfg(64, 0, 3, 2), _int_cfg(64, 0, 3, 0),
                  _int_cfg(48, 1, 3, 1), _int_cfg(64, 0, 2, 1),
                  _int_cfg(64, 2, 4, 2, "thorough"), _int_cfg(64, 2, 4, 0, "thorough")],
         checks="memsafe", unwind=3, unwindset=["main.%d:70" % i for i in range(4)] + ["parse_int_node.0:9"], backends=["default"],
         cap_quick=300,
         bound="one index node of 48 bytes (interior, <= 5 entries) / 64 bytes (root, dx_root_info.info_length any value 0..19, <= 5 entries), every byte "
               "symbolic, as heap object of exactly that size; directory of 3 blocks: dx_block[] a heap array of exactly 3 elements, prior flags symbolic; "
               "metadata_csum on/off, failed_csum, answers no / yes / any mix per query"))
# e2fsck pass-1 EA block checker on arbitrary block bytes
def _ea_cfg(ans, ver=2, bs=72, tier="quick"):
    k = (bs - 32) // 16
    return {"BS": bs, "ANS": ans, "EAVER": ver, "_tier": tier,
            "_unwindset": ["main.0:%d" % (bs + 290), "main.1:%d" % (bs + 290), "main.2:%d" % (bs + 290), "ext2fs_read_ext_attr3.0:%d" % (bs + 2), "ref_parse.0:%d" % (bs // 4),
                           "check_ext_attr.0:%d" % (k + 2), "inc_ea_inode_refs.0:%d" % (k + 2), "region_allocate.0:%d" % (2 * k + 4), "region_free.0:%d" % (2 * k + 4)]}
HARNESSES.append(
    dict(name="eablock_mem", src="eablock_mem.c", extra_src=["e2fsck/region.c", "lib/ext2fs/blknum.c"],
         funcs=["check_ext_attr", "region_create", "region_allocate", "region_free", "inc_ea_inode_refs", "mark_block_used"],
         stubs=["ext2fs_read_ext_attr3", "ext2fs_ext_attr_hash_entry", "ext2fs_ext_attr_hash_entry_signed", "fix_problem"],
         cut_statics={"e2fsck/pass1.c": ["check_large_ea_inode"]},
         configs=[_ea_cfg(0), _ea_cfg(2), _ea_cfg(1), _ea_cfg(0, ver=1, tier="thorough"), _ea_cfg(0, bs=88, tier="thorough"), _ea_cfg(2, bs=88, tier="thorough")],
         checks="memsafe", unwind=3, backends=["default"], cap_quick=300, cbmc_flags=["--object-bits", "10"],
         bound="EA block of 72 (thorough: 88) bytes, EVERY byte symbolic (no well-formedness assumption: magic, h_blocks, names, offsets, e_value_inum, "
               "e_value_size up to 2^32-1), heap buffer = block + 288 scratch bytes (real: 3 * blocksize); up to 2 (3) full entries; read status ok / "
               "checksum failure, answers no / yes / any mix per query, xattr format v2 (v1 in one query)"))

MANIFEST = {
    "text": "Bounded-exhaustive parser safety: for each harnessed parser (directory block iteration incl. deleted-entry scan and inline "
            "regions, journal descriptor-tag counting and revoke-record scan, extent header gate, htree count/limit locator, e2fsck pass-2 htree index node reader "
            "parse_int_node incl. the dx_block[] subscripts taken from the node, e2fsck pass-1 EA block checker check_ext_attr incl. region accounting and what it hands to the entry hash) every byte of "
            "the untrusted buffer is symbolic within the stated (scaled) size; the solver decides absence of out-of-bounds access, "
            "signed overflow, undefined shifts, division by zero, termination within the buffer-derived loop bound, plus the hand-out "
            "contracts callers rely on. Whole tools and the parsers listed under 'outside' are not covered.",
    "note": "Trusted: CBMC's C semantics and memory model, the stubs listed in evidence (block reads deliver the hostile bytes, callbacks do "
            "not modify entries; fix_problem answers no / yes / any mix per query; EA entry hash replaced by its read contract), scaled block sizes "
            "(EA block buffer = block + 288 scratch bytes for the caller's 3 * blocksize; dx_root_info.info_length <= 19 in the scaled root node). One genuine defect found (ext2fs_validate_entry bound on inline regions).",
}
