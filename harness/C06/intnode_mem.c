/*
 * C06/intnode_mem: memory safety of the REAL parse_int_node() (e2fsck/pass2.c), the reader of an htree
 * index node, on ARBITRARY bytes of the node (C02/htreenode decides its functional verdicts; the
 * scaffolding is taken from there).
 *
 * The node block is a heap object of exactly fs->blocksize = BLK bytes, every byte symbolic;
 * dx_dir->dx_block is a heap array of exactly numblocks = NBK elements as e2fsck_add_dx_dir() allocates
 * it, so an index entry whose (masked) block number is used as a subscript without being < numblocks
 * is a bounds violation for CBMC and a heap-buffer-overflow for the ASan replay.  BLOCKCNT 0: the root
 * (entries after the dx_root_info of ANY info_length up to ILMAX), else an interior node.
 * metadata_csum on/off, failed_csum, the prior flags of every block and the answers to every question
 * are symbolic (ANS 0: every answer no = e2fsck -n; ANS 1: yes = -y; ANS 2: any mix = -p).
 *
 * Independent statement (Documentation/filesystems/ext4, hash tree directories): count/limit header,
 * entries of (le32 hash, le32 block), top 4 bits of block reserved; a directory of NBK blocks has
 * logical blocks 0..NBK-1 only.  PROP (ANS 0): every one of the first min(count, fitting) entries whose
 * masked block number is >= NBK is reported as PR_2_HTREE_BADBLK (and therefore skipped, not indexed).
 */
#include "e2fsck/pass2.c"
#include "env.c"

#ifndef BLK
#define BLK 48
#endif
#ifndef BLOCKCNT
#define BLOCKCNT 1
#endif
#ifndef NBK
#define NBK 3
#endif
#ifndef ANS
#define ANS 0
#endif
#ifndef ILMAX
#define ILMAX 19
#endif

struct vf_in {
	unsigned char buf[BLK];
	__u32 flags[NBK];
	unsigned char csum_feature, failed_csum, ans;
};
VF_DECLARE_INPUT(struct vf_in, IN)
#include "vf_input.inc"

static struct e2fsck_struct vf_ctx;
static struct struct_ext2_filsys vf_fs;
static struct ext2_super_block vf_sb;
static struct dx_dir_info vf_dx;
static int vf_nprob, vf_nbadblk, vf_nyes;

/* STUB: fix_problem() records the code; the answer is no (ANS 0), yes (ANS 1) or one input bit per question (ANS 2) */
int fix_problem(e2fsck_t ctx, problem_t code, struct problem_context *pctx)
{
	int a;
	(void) ctx; (void) pctx;
#if ANS == 0
	a = 0;
#elif ANS == 1
	a = 1;
#else
	a = (IN.ans >> (vf_nprob & 7)) & 1;
#endif
	vf_nprob++;
	if (code == PR_2_HTREE_BADBLK) vf_nbadblk++;
	vf_nyes += a;
	return a;
}
/* STUB: inode read / write-back of clear_htree() and the rehash queue do nothing */
void e2fsck_read_inode(e2fsck_t ctx, unsigned long ino, struct ext2_inode *inode, const char *proc)
{ static struct ext2_inode z; (void) ctx; (void) ino; (void) proc; *inode = z; }
void e2fsck_write_inode(e2fsck_t ctx, unsigned long ino, struct ext2_inode *inode, const char *proc)
{ (void) ctx; (void) ino; (void) inode; (void) proc; }
int e2fsck_dir_will_be_rehashed(e2fsck_t ctx, ext2_ino_t ino) { (void) ctx; (void) ino; return 0; }
void e2fsck_rehash_dir_later(e2fsck_t ctx, ext2_ino_t ino) { (void) ctx; (void) ino; }
/* STUB: fatal_error() ends the path */
void fatal_error(e2fsck_t ctx, const char *msg) { (void) ctx; (void) msg; __CPROVER_assume(0); }
#ifndef VF_REPLAY
char *gettext(const char *s) { return (char *) s; }
#endif

static unsigned long ref_le32(int o)
{
	return (unsigned long) IN.buf[o] | ((unsigned long) IN.buf[o + 1] << 8) |
	       ((unsigned long) IN.buf[o + 2] << 16) | ((unsigned long) IN.buf[o + 3] << 24);
}

int main(void)
{
	struct check_dir_struct cd;
	static struct check_dir_struct cdz;
	struct ext2_db_entry2 db;
	struct dx_dirblock_info *dxb;
	unsigned char *blk;
	int i, k;

	VF_INPUT(IN);
	vf_fs.super = &vf_sb;
	/* BOUND: index node scaled to BLK bytes (real minimum 1024), directory of NBK blocks */
	vf_fs.blocksize = BLK;
	if (IN.csum_feature & 1)
		vf_sb.s_feature_ro_compat = EXT4_FEATURE_RO_COMPAT_METADATA_CSUM;
	vf_ctx.fs = &vf_fs;
#if BLOCKCNT == 0
	/* BOUND: dx_root_info.info_length (byte 24 + 5, never validated under -n) is any value up to ILMAX: in a real block
	 * (>= 1024 bytes) every info_length 0..255 leaves the count/limit word and >= 92 entries inside the block; the scaled
	 * block keeps that relation only for info_length <= BLK - 24 - 8 - 8 */
	ASSUME(IN.buf[24 + 5] <= ILMAX);
#endif
	/* the caller (check_dir_block) guarantees db->blockcnt < numblocks: the array was sized from the directory's block list */
	blk = malloc(BLK);
	dxb = malloc(NBK * sizeof(struct dx_dirblock_info));
	for (k = 0; k < NBK; k++) {
		static struct dx_dirblock_info z;
		dxb[k] = z;
		dxb[k].flags = (int) IN.flags[k];
	}
	for (i = 0; i < BLK; i++)
		blk[i] = IN.buf[i];
	vf_dx.ino = 12;
	vf_dx.depth = 2;
	vf_dx.numblocks = NBK;
	vf_dx.dx_block = dxb;
	cd = cdz;
	cd.buf = (char *) blk;
	cd.ctx = &vf_ctx;
	cd.pctx.ino = 12;
	db.ino = 12;
	db.blk = 100;
	db.blockcnt = BLOCKCNT;

	parse_int_node(&vf_fs, &db, &cd, &vf_dx, (char *) blk, IN.failed_csum & 1);

#if ANS == 0
	{
		/* the format, by byte offset */
		int off = BLOCKCNT ? 8 : 24 + IN.buf[24 + 5];
		int fit = (BLK - ((IN.csum_feature & 1) ? 8 : 0) - off) / 8, o, bad = 0;
		unsigned int count = 0, e = 0;
		for (o = 8; o + 8 <= BLK; o++) {
			if (o == off)
				count = IN.buf[o + 2] | (IN.buf[o + 3] << 8);
			if (o >= off && o + 8 <= BLK && (o - off) % 8 == 0) {
				if (e < count && (int) e < fit && (ref_le32(o + 4) & 0x0ffffffful) >= NBK)
					bad++;
				e++;
			}
		}
		PROP(vf_nbadblk == bad, "every index entry naming a block >= numblocks is reported (PR_2_HTREE_BADBLK) instead of being used as dx_block[] subscript");
	}
#endif
	PROP(vf_nyes ? vf_dx.numblocks == 0 : vf_dx.numblocks == NBK, "numblocks is kept unless the index is cleared");
	free(dxb);
	free(blk);
	VF_END();
	return 0;
}
