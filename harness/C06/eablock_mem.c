/*
 * C06/eablock_mem: memory safety of the REAL check_ext_attr() (e2fsck/pass1.c) with the REAL region
 * accounting (e2fsck/region.c) on ARBITRARY bytes of one extended-attribute block (C05/eablock decides
 * the functional verdict on WELL-FORMED blocks only; the scaffolding is taken from there, the
 * well-formedness assumption is dropped: every byte of the block is symbolic, incl. magic, h_blocks,
 * a missing terminator, names running off the block, e_value_inum != 0, e_value_size up to 2^32-1).
 *
 * The block buffer is a heap object laid out as the caller's (e2fsck_pass1: block_buf of 3 * blocksize):
 * BS bytes of block delivered by ext2fs_read_ext_attr3() followed by SLACK bytes of scratch (see BOUND).
 * CBMC's pointer / bounds checks (ASan in the replay) decide every read of the header, the entry
 * table, the names, the second walk (inc_ea_inode_refs) and the region list.
 *
 * Independent statement of what may be handed to the hash (Documentation/filesystems/ext4, attributes):
 * an entry is 16 bytes + e_name_len name bytes; a value stored in the block (e_value_inum == 0) occupies
 * [e_value_offs, e_value_offs + e_value_size) of the block, computed WITHOUT wrap-around.
 *   PROP: ext2fs_ext_attr_hash_entry[_signed]() -- the only reader of name and value bytes -- is called only
 *         for an entry that lies with its whole name inside the block and whose value range lies inside the
 *         block; any other entry has been reported (fix_problem) before;
 *   PROP: an entry with e_value_inum == 0 whose value range is not inside the block makes check_ext_attr
 *         raise a problem.
 * The hash functions are replaced by that contract check (they read e_name_len name bytes behind the entry
 * and (e_value_size + 3) / 4 words at data; the stub touches the first and last of them so an over-read is
 * also a bounds violation / ASan report).  check_large_ea_inode() is cut (reads entry fields only).
 */
struct e2fsck_struct; struct ext2_ext_attr_entry; struct problem_context;
static unsigned int check_large_ea_inode(struct e2fsck_struct *ctx, struct ext2_ext_attr_entry *entry,
					 struct problem_context *pctx, unsigned long long *quota_blocks);	/* cut */
#include "e2fsck/pass1.c"

#ifndef BS
#define BS 72
#endif
#ifndef ANS
#define ANS 0
#endif
#ifndef EAVER
#define EAVER 2
#endif
/* BOUND: block scaled to BS bytes (real minimum 1024); the scratch area behind the block (real: 2 * blocksize >= 2048 bytes) is
 * scaled to SLACK = 288 bytes, still longer than the longest entry (16 + 255 name bytes, padded), so forming the address of
 * the entry after an in-block entry stays inside the object as it does in the real buffer */
#define SLACK 288

struct vf_in {
	unsigned char buf[BS];
	__u32 file_acl;
	unsigned char rc, ans, lea;
};
VF_DECLARE_INPUT(struct vf_in, IN)
#include "vf_input.inc"

static struct e2fsck_struct vf_ctx;
static struct struct_ext2_filsys vf_fs;
static struct ext2_super_block vf_sb;
static struct ext2_inode vf_inode;
static unsigned char *vf_blk;
static char vf_eamap, vf_foundmap, vf_refcount;
static int vf_nprob, vf_nlea, vf_nhash, vf_nbadvalue, vf_ncollision;

/* STUB: fix_problem() counts; the answer is no (ANS 0, e2fsck -n), yes (ANS 1, -y) or one input bit per question (ANS 2, -p) */
int fix_problem(e2fsck_t ctx, problem_t code, struct problem_context *pctx)
{
	int a;
	(void) ctx; (void) pctx;
#if ANS == 0
	a = 0;
#elif ANS == 1
	a = 1;
#else
	a = (IN.ans >> (vf_nprob & 7)) & 1;
#endif
	vf_nprob++;
	if (code == PR_1_EA_BAD_VALUE) vf_nbadvalue++;
	if (code == PR_1_EA_ALLOC_COLLISION) vf_ncollision++;
	return a;
}
/* STUB: clear_problem_context() as in problem.c */
void clear_problem_context(struct problem_context *p) { memset(p, 0, sizeof(*p)); p->blkcount = -1; p->group = -1; }
/* STUB: ext2fs_read_ext_attr3() delivers the hostile block into the first BS bytes; status ok or checksum failure */
errcode_t ext2fs_read_ext_attr3(ext2_filsys fs, blk64_t block, void *buf, ext2_ino_t inum)
{
	int i;
	(void) fs; (void) block; (void) inum;
	for (i = 0; i < BS; i++)
		((unsigned char *) buf)[i] = IN.buf[i];
	return (IN.rc & 1) ? EXT2_ET_EXT_ATTR_CSUM_INVALID : 0;
}
/* STUB: ext2fs_write_ext_attr3() (checksum-only repair) reads the block */
errcode_t ext2fs_write_ext_attr3(ext2_filsys fs, blk64_t block, void *buf, ext2_ino_t inum)
{ (void) fs; (void) block; (void) inum; return ((unsigned char *) buf)[0] + ((unsigned char *) buf)[BS - 1] ? 0 : 0; }

/* STUB: both hash functions are replaced by their read contract (see head comment) */
static __u32 vf_hash_contract(struct ext2_ext_attr_entry *entry, void *data)
{
	unsigned long eoff = (unsigned long) ((unsigned char *) entry - vf_blk);
	unsigned long doff = (unsigned long) ((unsigned char *) data - vf_blk);
	unsigned long long vsize = entry->e_value_size;
	__u32 h = 0;

	vf_nhash++;
	PROP(eoff >= 32 && eoff % 4 == 0 && eoff + 16 + entry->e_name_len <= BS, "an entry handed to the hash lies with its whole name inside the block");
	if (entry->e_name_len)
		h += ((unsigned char *) entry)[16] + ((unsigned char *) entry)[16 + entry->e_name_len - 1];
	if (entry->e_value_inum == 0 && entry->e_value_size != 0) {
		unsigned long long words = (vsize + 3) >> 2;
		PROP(doff == entry->e_value_offs, "the value address handed to the hash is block + e_value_offs");
		PROP((unsigned long long) doff + vsize <= BS, "a value handed to the hash lies inside the block: e_value_offs + e_value_size <= blocksize without wrap-around");
		/* the padding of the last word may lie behind the block (inside the caller's 3-block buffer) */
		h += ((unsigned char *) data)[0] + ((unsigned char *) data)[4 * words - 1];
	}
	return h ? entry->e_hash : entry->e_hash;
}
__u32 ext2fs_ext_attr_hash_entry(struct ext2_ext_attr_entry *entry, void *data) { return vf_hash_contract(entry, data); }
__u32 ext2fs_ext_attr_hash_entry_signed(struct ext2_ext_attr_entry *entry, void *data) { return vf_hash_contract(entry, data); }
/* STUB: check_large_ea_inode() is cut: reads the entry's inode number, size and hash; reports a problem or not (one input bit per call) */
static problem_t check_large_ea_inode(e2fsck_t ctx, struct ext2_ext_attr_entry *entry, struct problem_context *pctx, blk64_t *quota_blocks)
{
	int bad = (IN.lea >> (vf_nlea & 7)) & 1;
	(void) ctx; (void) pctx;
	vf_nlea++;
	*quota_blocks = (entry->e_value_inum | entry->e_value_size | entry->e_hash) ? 1 : 0;
	return bad ? PR_1_ATTR_VALUE_EA_INODE : 0;
}
/* STUB: bitmaps: the block has not been seen before; marks are ignored */
int ext2fs_test_generic_bmap(ext2fs_generic_bitmap bmap, __u64 arg) { (void) bmap; (void) arg; return 0; }
int ext2fs_mark_generic_bmap(ext2fs_generic_bitmap bmap, __u64 arg) { (void) bmap; (void) arg; return 0; }
/* STUB: EA refcount tables accept everything */
errcode_t ea_refcount_store(ext2_refcount_t rc, ea_key_t key, ea_value_t count) { (void) rc; (void) key; (void) count; return 0; }
errcode_t ea_refcount_fetch(ext2_refcount_t rc, ea_key_t key, ea_value_t *ret) { (void) rc; (void) key; *ret = 0; return 0; }
errcode_t ea_refcount_create(size_t size, ext2_refcount_t *ret) { (void) size; *ret = (ext2_refcount_t) &vf_refcount; return 0; }
/* STUB: e2fsck_write_inode() does nothing */
void e2fsck_write_inode(e2fsck_t ctx, unsigned long ino, struct ext2_inode *inode, const char *proc)
{ (void) ctx; (void) ino; (void) inode; (void) proc; }
#ifndef VF_REPLAY
char *gettext(const char *s) { return (char *) s; }
#endif

/* ---- independent reader: is there, among the entries the table walk of the format reaches, a first in-block-value entry
 * whose value range leaves the block?  (walk: entries from offset 32, 16 + name bytes padded to 4, until a zero word, the
 * block end or an entry that does not fit) ---- */
static int ref_bad_value;	/* such an entry is met before any other irregularity of the table ends the walk */
static int ref_bad_first;	/* ... and it is the first entry (nothing it could collide with) */

static void ref_parse(const unsigned char *b)
{
	unsigned int o, next = 32, done = 0;

	ref_bad_value = ref_bad_first = 0;
	for (o = 32; o + 4 <= BS; o += 4) {
		unsigned int nl, idx;
		unsigned long long vo, inum, vs;
		if (o != next || done)
			continue;
		if (!(b[o] | b[o + 1] | b[o + 2] | b[o + 3])) { done = 1; continue; }
		nl = b[o];
		if (o + ((16 + nl + 3) & ~3U) > BS) { done = 1; continue; }	/* entry leaves the block: other problem */
		idx = b[o + 1];
#if EAVER == 2
		if (idx == 0) { done = 1; continue; }				/* bad name: other problem */
#else
		if (nl == 0 || idx != 0) { done = 1; continue; }
#endif
		vo = b[o + 2] | (b[o + 3] << 8);
		inum = b[o + 4] | (b[o + 5] << 8) | (b[o + 6] << 16) | ((unsigned long long) b[o + 7] << 24);
		vs = b[o + 8] | (b[o + 9] << 8) | (b[o + 10] << 16) | ((unsigned long long) b[o + 11] << 24);
		if (inum == 0 && vo + vs > BS) { ref_bad_value = 1; if (o == 32) ref_bad_first = 1; done = 1; continue; }
		next = o + ((16 + nl + 3) & ~3U);
	}
}

int main(void)
{
	struct problem_context pctx;
	struct ea_quota q;
	int i;

	VF_INPUT(IN);
	memset(&pctx, 0, sizeof(pctx));
	vf_fs.super = &vf_sb;
	vf_fs.blocksize = BS;
	vf_sb.s_feature_compat = EXT2_FEATURE_COMPAT_EXT_ATTR;
	vf_sb.s_first_data_block = 1;
	vf_sb.s_blocks_count = 0x10000;
	vf_ctx.fs = &vf_fs;
	vf_ctx.ext_attr_ver = EAVER;
	vf_ctx.block_ea_map = (ext2fs_block_bitmap) &vf_eamap;
	vf_ctx.block_found_map = (ext2fs_block_bitmap) &vf_foundmap;
	vf_ctx.refcount = (ext2_refcount_t) &vf_refcount;
	/* ASSUME: i_file_acl names a block inside the filesystem (otherwise the inode is marked bad before the block is read) */
	ASSUME(IN.file_acl >= 1 && IN.file_acl < 0x10000);
	vf_inode.i_file_acl = IN.file_acl;
	pctx.ino = 12;
	pctx.inode = &vf_inode;
	vf_blk = malloc(BS + SLACK);
	for (i = 0; i < BS + SLACK; i++)
		vf_blk[i] = 0;

	ref_parse(IN.buf);
	(void) check_ext_attr(&vf_ctx, &pctx, (char *) vf_blk, &q);

#if ANS == 0
	{
		/* answered no, a wrong magic / h_blocks does not end the check: the walk is always made */
		PROP(!ref_bad_value || vf_nbadvalue + vf_ncollision > 0, "an in-block value whose range [e_value_offs, e_value_offs + e_value_size) leaves the block is reported (bad value, or a collision of its entry met first)");
		PROP(!ref_bad_first || vf_nbadvalue == 1, "a first entry whose value range leaves the block (no wrap-around, size up to 2^32-1) raises PR_1_EA_BAD_VALUE");
	}
#endif
	free(vf_blk);
	VF_END();
	return 0;
}
