/*
 * C06/dirblock: ext2fs_process_dir_block() (with ext2fs_get_rec_len and the
 * static ext2fs_validate_entry) on a directory block / inline-data region whose
 * every byte is hostile (pattern S).
 *
 * The region is a heap object of EXACTLY the advertised length, so any read or
 * write outside [buf, buf+buflen) is a CBMC pointer-check failure (and an ASan
 * report in the native replay).  On top of the built-in checks the callback
 * asserts the contract every caller of ext2fs_dir_iterate relies on:
 *   the dirent handed out lies inside the region: offset + rec_len <= buflen,
 *   rec_len >= 8, rec_len % 4 == 0, name_len + 8 <= rec_len.
 * Termination: unwinding assertions on the three loops.
 *
 * MODE 0: block directory, buflen == fs->blocksize == BS
 * MODE 1: inline-data region (DIRENT_FLAG_INCLUDE_INLINE_DATA), buflen == LEN
 *         bytes, fs->blocksize stays 1024 (what ext2fs_inline_data_dir_iterate passes)
 * FLAGS : compile-time DIRENT_FLAG_* word (EMPTY=1 REMOVED=2 CSUM=4)
 */
#include "lib/ext2fs/dir_iterate.c"

#ifndef BS
#define BS 64
#endif
#ifndef MODE
#define MODE 0
#endif
#ifndef FLAGS
#define FLAGS 0
#endif
#if MODE == 1
#ifndef LEN
#define LEN 56
#endif
#define FSBS 1024
#else
#define LEN BS
#define FSBS BS
#endif

struct vf_in {
	unsigned char blk[LEN];
	__u32 abort_mask, changed_mask;	/* callback verdict per 4-byte slot of the region */
	__u32 feature_ro_compat;
	unsigned char blockcnt;		/* 0: first block ('.' expected), else other */
};
VF_DECLARE_INPUT(struct vf_in, IN)
#include "vf_input.inc"

static char *vf_buf;
static int vf_calls;

/* STUB: ext2fs_read_dir_block4() delivers the hostile bytes unchanged and succeeds (csum verification is C14's subject) */
errcode_t ext2fs_read_dir_block4(ext2_filsys fs, blk64_t block, void *buf, int flags, ext2_ino_t ino)
{
	int i;
	(void) fs; (void) block; (void) flags; (void) ino;
	for (i = 0; i < LEN; i++)
		((char *) buf)[i] = (char) IN.blk[i];
	return 0;
}
/* STUB: ext2fs_write_dir_block4() succeeds without touching the block */
errcode_t ext2fs_write_dir_block4(ext2_filsys fs, blk64_t block, void *buf, int flags, ext2_ino_t ino)
{
	(void) fs; (void) block; (void) buf; (void) flags; (void) ino;
	return 0;
}

/* STUB: directory callback: checks the hand-out contract, does not modify the entry, returns a symbolic
 * combination of DIRENT_CHANGED / DIRENT_ABORT chosen per entry position */
static int stub_cb(ext2_ino_t dir, int entry, struct ext2_dir_entry *dirent, int offset,
		   int blocksize, char *buf, void *priv_data)
{
	unsigned int rl = dirent->rec_len;
	int ret = 0;
	(void) dir; (void) priv_data;
	vf_calls++;
	PROP(buf == vf_buf && blocksize == LEN, "callback gets the region and its length");
	PROP(offset >= 0 && (char *) dirent == buf + offset, "dirent pointer equals buf+offset");
	PROP((unsigned) offset + 8 <= LEN, "dirent header inside region");
	PROP(rl >= 8 && (rl % 4) == 0, "rec_len sane");
	PROP((unsigned) offset + rl <= LEN, "dirent inside region: offset+rec_len <= buflen");
	PROP((dirent->name_len & 0xff) + 8u <= rl, "name inside entry: name_len+8 <= rec_len");
	PROP(entry >= DIRENT_DOT_FILE && entry <= DIRENT_CHECKSUM, "entry kind in range");
	if ((IN.abort_mask >> ((offset / 4) & 31)) & 1)
		ret |= DIRENT_ABORT;
	if ((IN.changed_mask >> ((offset / 4) & 31)) & 1)
		ret |= DIRENT_CHANGED;
	return ret;
}

int main(void)
{
	static struct struct_ext2_filsys fs_s;
	static struct ext2_super_block sb;
	static struct dir_context ctx;
	blk64_t blk = 7;
	int ret, i;

	VF_INPUT(IN);
	fs_s.magic = EXT2_ET_MAGIC_EXT2FS_FILSYS;
	fs_s.super = &sb;
	/* BOUND: block directory: fs->blocksize scaled to BS bytes (real minimum 1024); inline region: LEN bytes */
	fs_s.blocksize = FSBS;
	sb.s_feature_ro_compat = IN.feature_ro_compat;	/* metadata_csum on or off */

	vf_buf = malloc(LEN);		/* exactly the advertised length */
	ctx.dir = 12;
	ctx.buf = vf_buf;
	ctx.func = stub_cb;
	ctx.priv_data = 0;
	ctx.errcode = 0;
#if MODE == 1
	ctx.flags = FLAGS | DIRENT_FLAG_INCLUDE_INLINE_DATA;
	ctx.buflen = LEN;
	for (i = 0; i < LEN; i++)
		vf_buf[i] = (char) IN.blk[i];
#else
	ctx.flags = FLAGS;
	ctx.buflen = 0;
	(void) i;
#endif
	ret = ext2fs_process_dir_block(&fs_s, &blk, IN.blockcnt ? 1 : 0, 0, 0, &ctx);

	PROP((ret & ~(BLOCK_ABORT | BLOCK_INLINE_DATA_CHANGED)) == 0, "documented return bits only");
	PROP(ctx.errcode == 0 || ctx.errcode == EXT2_ET_DIR_CORRUPTED, "documented error codes only");
	PROP(!(ctx.errcode == EXT2_ET_DIR_CORRUPTED) || (ret & BLOCK_ABORT), "corrupt block aborts the iteration");
	VF_END();
	return 0;
}
