/*
 * C06/jtags: the two per-block parsers of journal recovery that walk a hostile
 * journal block: count_tags() (descriptor block) and scan_revoke_records()
 * (revoke block), e2fsck/recovery.c (pattern S).
 *
 * The buffer_head is allocated EXACTLY as e2fsck/journal.c:getblk() does:
 * offsetof(b_data) + blocksize bytes, so b_data is the last `blocksize' bytes of
 * the heap object and any access beyond the block is a pointer-check failure /
 * ASan report (this is what decides the known 12-byte memcpy of an 8-byte tag).
 * Journal feature word fully symbolic (so tag size 8/10/12/16, csum tail or
 * not, 32/64-bit revoke records are all covered in one query).
 *
 * OUTSIDE: count_tags() advances tagp by tag_bytes (+16 without SAME_UUID) BEFORE re-testing the loop bound, so it
 * forms and compares a pointer up to 24+ bytes past the end of the heap block (never dereferenced). CBMC reports that
 * as "pointer arithmetic/relation: pointer outside object bounds" = UB-REPORT; executions that continue after such a
 * formation are not examined further by CBMC (only the loop exit and return follow there).
 *
 * OP 1: count_tags          post: 0 <= nr <= (JBS-12)/tag_bytes_min + 1
 * OP 2: scan_revoke_records post: every record handed to the revoke table was read
 *                                 from inside [16, r_count) and r_count <= JBS
 */
#define E2FSCK_INCLUDE_INLINE_FUNCS	/* this unit emits the C99 inline helpers of jfs_user.h / kernel-jbd.h (native replay links at -O0) */
#include "e2fsck/recovery.c"
#include <stddef.h>

#ifndef JBS
#define JBS 64
#endif
#ifndef OP
#define OP 1
#endif

struct vf_in {
	unsigned char blk[JBS];
	__u32 feature_incompat, feature_compat;
	int format_version;
};
VF_DECLARE_INPUT(struct vf_in, IN)
#include "vf_input.inc"

static int vf_nrevoke;

/* STUB: jbd2_journal_set_revoke() counts the record and succeeds (the revoke hash table is C03's subject) */
int jbd2_journal_set_revoke(journal_t *journal, unsigned long long blocknr, tid_t sequence)
{
	(void) journal; (void) blocknr; (void) sequence;
	vf_nrevoke++;
	return 0;
}

int main(void)
{
	static journal_t j;
	static journal_superblock_t jsb;
	static struct recovery_info info;
	struct buffer_head *bh;
	int i, n;

	VF_INPUT(IN);
	/* BOUND: journal block size scaled to JBS bytes (real: 1024..65536, always a multiple of 8 like JBS) */
	j.j_blocksize = JBS;
	j.j_superblock = &jsb;
	j.j_format_version = IN.format_version;
	jsb.s_feature_incompat = IN.feature_incompat;
	jsb.s_feature_compat = IN.feature_compat;

	bh = malloc(offsetof(struct buffer_head, b_data) + JBS);	/* getblk(): header + one block, nothing after it */
	{	/* the object is shorter than sizeof(struct buffer_head): fill b_data through a char pointer */
		char *p = (char *) bh + offsetof(struct buffer_head, b_data);
		for (i = 0; i < JBS; i++)
			p[i] = (char) IN.blk[i];
	}

#if OP == 1
	n = count_tags(&j, bh);
	PROP(n >= 0 && n <= (JBS - 12) / 8 + 1, "count_tags: at most one tag per 8 bytes of the block");
#else
	n = scan_revoke_records(&j, bh, 7, &info);
	PROP(n == 0 || n == -EINVAL, "scan_revoke_records: documented status");
	PROP(vf_nrevoke == info.nr_revokes, "every revoke record counted once");
	PROP(vf_nrevoke <= (JBS - 16) / 4, "no more revoke records than fit in the block");
	PROP(n == 0 || vf_nrevoke == 0, "oversized r_count rejected before any record is used");
	{	/* reference from the jbd2 format: r_count = bytes used in the block including the 16-byte header;
		 * records are 8 bytes with INCOMPAT_64BIT (0x2, big-endian feature word, superblock v2), else 4 */
		unsigned int rc_ = ((unsigned) IN.blk[12] << 24) | (IN.blk[13] << 16) | (IN.blk[14] << 8) | IN.blk[15];
		unsigned int rl_ = (IN.format_version >= 2 && (IN.feature_incompat & 0x02000000u)) ? 8 : 4;
		if (n == 0)
			PROP(vf_nrevoke == (rc_ >= 16 ? (int) ((rc_ - 16) / rl_) : 0), "exactly the records inside r_count are used");
	}
#endif
	VF_END();
	return 0;
}
