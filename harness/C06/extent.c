/*
 * C06/extent: ext2fs_extent_open2() + up to 4 steps of ext2fs_extent_get() over a
 * hostile extent tree: the 60-byte i_block root and every tree block the walk
 * reads are fully symbolic; the operations of the walk are compile-time per query
 * (a set of walks covering every EXT2_EXTENT_* movement) (pattern S).
 *
 * Tree blocks live in heap objects of exactly fs->blocksize bytes (allocated by
 * the real code), so a cursor that leaves the node is a pointer-check failure.
 * The root lives inside struct ext2_inode, where CBMC/ASan cannot see an escape
 * from i_block, so after every step the harness asserts the cursor contract
 * itself (from the on-disk format: a node of `size' bytes holds a 12-byte header
 * followed by 12-byte entries):
 *     0 <= level <= max_depth, and at every level up to the current one
 *     path.curr == NULL or node <= curr and curr + 12 <= node + size.
 */
#include "config.h"
#include <stdio.h>
#include <string.h>
#include <stdlib.h>
#include "ext2_fs.h"
#include "ext2fs.h"
/* STUB: ext2fs_get_memzero() as called from extent.c is calloc() with the size dispatched to a constant
 * (a symbolic allocation size makes CBMC model the path array as a symbolically-sized byte array whose
 * zeroed pointer fields come back as garbage); same contract: zero-filled block or (out of scope) failure */
static errcode_t stub_get_memzero(unsigned long size, void *ptr)
{
	void *pp;
	if (size == 1 * 56) pp = calloc(1, 1 * 56);
	else if (size == 2 * 56) pp = calloc(1, 2 * 56);
	else if (size == 3 * 56) pp = calloc(1, 3 * 56);
	else pp = calloc(1, size);
	*(void **) ptr = pp;
	return 0;
}
#define ext2fs_get_memzero stub_get_memzero
#include "lib/ext2fs/extent.c"
#undef ext2fs_get_memzero

#ifndef EBS
#define EBS 64
#endif
#ifndef MAXDEPTH
#define MAXDEPTH 2
#endif
#ifndef NREADS
#define NREADS 4
#endif

struct vf_in {
	struct ext2_inode inode;
	struct vf_blk { unsigned char b[EBS]; } node[NREADS];	/* content of the k-th tree block read */
};
/* the walk of this query: compile-time operation sequence OP1, OP2, OP3 (0xff = not used) so that the
 * operation constant-propagates; every byte of the tree stays symbolic */
#ifndef OP1
#define OP1 EXT2_EXTENT_ROOT
#endif
#ifndef OP2
#define OP2 0xff
#endif
#ifndef OP3
#define OP3 0xff
#endif
#ifndef OP4
#define OP4 0xff
#endif
#define VF_IS_LAST(o) ((o) == EXT2_EXTENT_LAST_SIB || (o) == EXT2_EXTENT_LAST_LEAF || (o) == EXT2_EXTENT_DOWN_AND_LAST)
#define VF_HAS_LAST (VF_IS_LAST(OP1) || VF_IS_LAST(OP2) || VF_IS_LAST(OP3) || VF_IS_LAST(OP4))
VF_DECLARE_INPUT(struct vf_in, IN)
#include "vf_input.inc"

static int vf_reads;

/* STUB: io_channel_read_blk64() returns the next hostile tree block (k-th read -> IN.node[k]) and succeeds;
 * BOUND: after NREADS blocks every further read fails with EXT2_ET_SHORT_READ */
errcode_t io_channel_read_blk64(io_channel channel, unsigned long long block, int count, void *data)
{
	int k;
	(void) channel; (void) block; (void) count;
	if (vf_reads >= NREADS)
		return EXT2_ET_SHORT_READ;
	for (k = 0; k < NREADS; k++)
		if (k == vf_reads)
			*(struct vf_blk *) data = IN.node[k];
	vf_reads++;
	return 0;
}

static void vf_check_cursor(ext2_extent_handle_t h, struct ext2_inode *ino)
{
	int l;
	PROP(h->level >= 0 && h->level <= h->max_depth, "level within [0, max_depth]");
	PROP(h->path[0].buf == (char *) ino->i_block, "root node is i_block");
	for (l = 0; l <= MAXDEPTH; l++) {
		char *node, *c;
		unsigned int size;
		if (l > h->level)
			break;
		node = h->path[l].buf;
		c = (char *) h->path[l].curr;
		size = l ? EBS : sizeof(ino->i_block);
		PROP(node != 0, "visited level has a node buffer");
		if (c) {
			PROP(c >= node && c + 12 <= node + size, "cursor entry lies inside its node");
#if !VF_HAS_LAST
			/* EXT2_EXTENT_LAST_SIB on a node with eh_entries == 0 parks the cursor on the header
			 * (first - 1): inside the node, so not a memory fault; every other movement must stay on entries */
			PROP(c >= node + 12, "cursor is on an entry slot, not on the header");
#endif
		}
	}
}

int main(void)
{
	static struct struct_ext2_filsys fs_s;
	static struct ext2_super_block sb;
	static struct ext2fs_extent ext;
	ext2_extent_handle_t h = 0;
	errcode_t rc;
	VF_INPUT(IN);
	fs_s.magic = EXT2_ET_MAGIC_EXT2FS_FILSYS;
	fs_s.super = &sb;
	/* BOUND: tree blocks scaled to EBS bytes (4 entries per node; real minimum 1024) */
	fs_s.blocksize = EBS;
	/* ASSUME: extent block checksums are not the subject here (C14): verification switched off by the documented flag */
	fs_s.flags = EXT2_FLAG_IGNORE_CSUM_ERRORS;
	sb.s_inodes_count = 100;
	/* BOUND: root eh_depth is the compile-time MAXDEPTH of the query (0, 1 or 2; the path array has eh_depth+1
	 * elements and a symbolic allocation size does not reach a verdict); every other root byte is symbolic */
	((struct ext3_extent_header *) IN.inode.i_block)->eh_depth = ext2fs_cpu_to_le16(MAXDEPTH);

	rc = ext2fs_extent_open2(&fs_s, 12, &IN.inode, &h);
	if (rc == 0) {
		PROP(h != 0 && h->max_depth <= MAXDEPTH && h->path != 0, "open: handle built");
		PROP(h->path[0].entries <= h->path[0].max_entries && h->path[0].max_entries <= 4,
		     "open: root entries <= max <= 4 (60-byte i_block)");
#define VF_STEP(op) do { if ((op) != 0xff) { rc = ext2fs_extent_get(h, (op), &ext); vf_check_cursor(h, &IN.inode); } } while (0)
		VF_STEP(OP1);
		VF_STEP(OP2);
		VF_STEP(OP3);
		VF_STEP(OP4);
		ext2fs_extent_free(h);
	}
	VF_END();
	return 0;
}
