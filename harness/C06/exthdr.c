/*
 * C06/exthdr: ext2fs_extent_header_verify() is the single gate every extent node
 * passes before ext2fs_extent_get() indexes it.  For EVERY 12-byte header and
 * EVERY node size the callers use, "accepted" must imply that all eh_max (hence
 * all eh_entries) 12-byte entries lie inside the node -- the bound the cursor
 * arithmetic (EXT_FIRST_INDEX + entries - 1, ix++) relies on (patterns S + D).
 *
 * Reference, from the on-disk format (Documentation/filesystems/ext4/ifork.rst):
 * a node of `size' bytes holds a 12-byte header and 12-byte entries, so at most
 * (size-12)/12 entries fit; magic 0xF30A; entries <= max.
 */
#include "lib/ext2fs/extent.c"

struct vf_in {
	unsigned char hdr[12];
	int size;
};
VF_DECLARE_INPUT(struct vf_in, IN)
#include "vf_input.inc"

int main(void)
{
	unsigned char *node;
	unsigned int magic, entries, max;
	errcode_t rc;
	int i;

	VF_INPUT(IN);
	/* ASSUME: size is what callers pass: sizeof(i_block) = 60 or a block size 1024..65536 (power of two) */
	ASSUME(IN.size == 60 || (IN.size >= 1024 && IN.size <= 65536 && (IN.size & (IN.size - 1)) == 0));
	node = malloc(12);			/* the function may only look at the header */
	for (i = 0; i < 12; i++)
		node[i] = IN.hdr[i];
	rc = ext2fs_extent_header_verify(node, IN.size);

	magic = IN.hdr[0] | (IN.hdr[1] << 8);
	entries = IN.hdr[2] | (IN.hdr[3] << 8);
	max = IN.hdr[4] | (IN.hdr[5] << 8);
	PROP(rc == 0 || rc == EXT2_ET_EXTENT_HEADER_BAD, "documented status");
	if (rc == 0) {
		PROP(magic == 0xF30A, "accepted header has the extent magic");
		PROP(entries <= max, "accepted header: entries <= max");
		PROP(12 + 12 * (unsigned long) max <= (unsigned long) IN.size, "accepted header: all eh_max entries lie inside the node");
		PROP(12 + 12 * (unsigned long) (max + 3) > (unsigned long) IN.size, "accepted header: eh_max not absurdly small (at most 2 spare slots)");
	} else {
		PROP(magic != 0xF30A || entries > max || 12 + 12 * (unsigned long) max > (unsigned long) IN.size ||
		     12 + 12 * (unsigned long) (max + 3) <= (unsigned long) IN.size, "rejected header violates the format");
	}
	VF_END();
	return 0;
}
