/*
 * C01/extra: repair idempotence of check_inode_extra_space() (pass1.c), the pass-1
 * kernel that repairs i_extra_isize and the mis-encoded pre-1970 timestamps of a large
 * inode.  check_ea_in_inode() is cut (recording stub; own harness: see spec).
 *
 * The 256-byte inode is fully symbolic, ctx->now and s_want_extra_isize symbolic (the
 * latter as check_super_block leaves it).  Every question is answered yes.  Then
 *  - a second run raises no problem, writes nothing and changes no byte;
 *  - the first run changes only i_extra_isize and the two epoch bits of the four
 *    i_[acm/cr]time_extra fields, and writes the inode iff it changed it;
 *  - [fits] the epoch repair touches a timestamp field only if that field lies inside
 *    the inode's i_extra_isize (otherwise those bytes belong to the in-inode EA area).
 */
struct e2fsck_struct; struct problem_context; struct ea_quota;
static void check_ea_in_inode(struct e2fsck_struct *ctx, struct problem_context *pctx, struct ea_quota *q);	/* cut */
#include "e2fsck/pass1.c"

#define ISZ 256
struct vf_in {
	unsigned char ino[ISZ];
	long long now;
	__u16 want_extra;
};
VF_DECLARE_INPUT(struct vf_in, IN)
#include "vf_input.inc"

static struct e2fsck_struct vf_ctx;
static struct struct_ext2_filsys vf_fs;
static struct ext2_super_block vf_sb;
static unsigned char vf_ino[ISZ + 8] __attribute__((aligned(8)));
static int vf_nprob, vf_nwrite, vf_nea;

/* STUB: fix_problem() records and answers yes */
int fix_problem(e2fsck_t ctx, problem_t code, struct problem_context *pctx)
{ (void) ctx; (void) pctx; (void) code; vf_nprob++; return 1; }
/* STUB: e2fsck_write_inode_full() counts the writes */
void e2fsck_write_inode_full(e2fsck_t ctx, unsigned long ino, struct ext2_inode *inode, int bufsize, const char *proc)
{ (void) ctx; (void) ino; (void) inode; (void) bufsize; (void) proc; vf_nwrite++; }
/* STUB: check_ea_in_inode() is cut: records the call, changes nothing (in-inode EA repair is a separate kernel) */
static void check_ea_in_inode(e2fsck_t ctx, struct problem_context *pctx, struct ea_quota *q)
{ (void) ctx; (void) pctx; (void) q; vf_nea++; }

static void vf_run(void)
{
	struct problem_context pctx;
	struct ea_quota q;
	memset(&pctx, 0, sizeof(pctx));
	pctx.ino = 12;
	pctx.inode = (struct ext2_inode *) vf_ino;
	check_inode_extra_space(&vf_ctx, &pctx, &q);
}

/* offsets of the on-disk large inode (Documentation/filesystems/ext4: inodes) */
#define O_EXTRA_ISIZE 128
static const int ref_extra_off[4] = { 132 /* ctime_extra */, 136 /* mtime_extra */, 140 /* atime_extra */, 148 /* crtime_extra */ };

int main(void)
{
	unsigned char after1[ISZ];
	unsigned int isz1;
	int i, k, n1, w1, changed = 0;

	VF_INPUT(IN);
	vf_fs.super = &vf_sb;
	vf_ctx.fs = &vf_fs;
	vf_sb.s_rev_level = 1;
	vf_sb.s_inode_size = ISZ;
	/* ASSUME: s_want_extra_isize is 0 or a multiple of 4 in [4, 128] (check_super_block, answered yes, leaves it so) */
	ASSUME(IN.want_extra == 0 || (IN.want_extra >= 4 && IN.want_extra <= ISZ - 128 && !(IN.want_extra & 3)));
	vf_sb.s_want_extra_isize = IN.want_extra;
	/* ASSUME: ctx->now is a non-negative time (time(0) or the configured test time) */
	ASSUME(IN.now >= 0);
	vf_ctx.now = (time_t) IN.now;
	for (i = 0; i < ISZ; i++)
		vf_ino[i] = IN.ino[i];

	vf_run();
	n1 = vf_nprob; w1 = vf_nwrite;
	for (i = 0; i < ISZ; i++) {
		after1[i] = vf_ino[i];
		if (after1[i] != IN.ino[i])
			changed = 1;
	}
	isz1 = after1[O_EXTRA_ISIZE] | (after1[O_EXTRA_ISIZE + 1] << 8);
	PROP((w1 != 0) == (n1 != 0), "the inode is written exactly when a problem was fixed");
	PROP(!changed || w1 != 0, "a changed inode is written back");
	for (i = 0; i < ISZ; i++) {
		int allowed = (i == O_EXTRA_ISIZE || i == O_EXTRA_ISIZE + 1);
		for (k = 0; k < 4; k++)
			if (i == ref_extra_off[k])
				allowed = 2;
		if (!allowed)
			PROP(after1[i] == IN.ino[i], "only i_extra_isize and the *_extra timestamp words change");
		if (allowed == 2) {
			PROP((after1[i] | 3) == (IN.ino[i] | 3), "in a *_extra word only the two epoch bits change");
			if (after1[i] != IN.ino[i])
				PROP((unsigned) i + 4 <= 128 + isz1, "[fits] epoch repair only touches a timestamp field inside i_extra_isize");
		}
	}
	vf_nprob = 0; vf_nwrite = 0;
	vf_run();
	PROP(vf_nprob == 0, "second run on the repaired inode raises no problem");
	PROP(vf_nwrite == 0, "second run writes nothing");
	for (i = 0; i < ISZ; i++)
		PROP(after1[i] == vf_ino[i], "second run does not modify the inode");
	VF_END();
	return 0;
}
