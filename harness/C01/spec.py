META = {
    "assumptions": ["allocation failure out of scope (--no-malloc-may-fail)",
                    "fix_problem is stubbed to answer yes in the idempotence kernels (the -y protocol itself is decided in fixproblem)"],
    "outside": ["whole-run convergence of e2fsck -fy followed by -fn (the property proper): only self-contained kernels are decided"],
}
HARNESSES = [
    dict(name="fixproblem", src="fixproblem.c",
         funcs=["fix_problem", "find_latch", "end_problem_latch"],
         cut_statics={"e2fsck/problem.c": ["find_problem"]},
         configs=[{"MODE": m} for m in (1, 2, 0, 3)],
         cbmc_flags=["--object-bits", "11"],
         unwind=2, unwindset=["find_problem.0:9", "find_problem.2:9", "find_problem.1:426", "vf_load_table.0:426", "find_latch.0:16", "ask.0:5", "vf_run.0:16", "vf_run.1:16", "vf_check.0:16", "vf_check.1:16", "vf_check.2:16"]
                 + ["main.%d:426" % i for i in range(4)],
         backends=["default", "kissat"],
         bound="every entry of the real problem_table (symbolic), every latch register state, all option/flag words, "
               "up to 4 symbolic user replies; recursion depth <= 3"),
]
MANIFEST = {"text": "", "note": ""}
